import Batteries.Data.List.Perm
import Gonuts.Model.Spend
import Gonuts.Spec.Spendable
/-!
  Lemmas.Spend — helper lemmas for Props.C12 / Props.C13: list facts, the threshold relation `Signed`,
  the exhaustive decider `canSign`, `findKey`, the greedy loop `hvsCount`, tag parsing.
-/
namespace Gonuts.Lemmas.Spend
set_option linter.unusedSimpArgs false
open Gonuts.Model.Spend Gonuts.Spec.Spendable

/-! ## lists -/

theorem perm_cons_eraseIdx {α} : ∀ (l : List α) (j : Nat) (a : α), l[j]? = some a → l.Perm (a :: l.eraseIdx j)
  | [], j, a, h => by simp at h
  | x :: xs, 0, a, h => by
    simp at h; subst h; simp
  | x :: xs, j + 1, a, h => by
    simp at h
    have ih := perm_cons_eraseIdx xs j a h
    simp only [List.eraseIdx_cons_succ]
    exact (List.Perm.cons x ih).trans (List.Perm.swap a x _)

/-- `Signed` with the key side written as Batteries' `Subperm` (definitionally the same). -/
theorem signed_iff {valid : Sig → Key → Msg → Bool} {m : Msg} {sigs : List Sig} {keys : List Key} {n : Nat} :
    Signed valid m sigs keys n ↔
      ∃ ps : List (Sig × Key), ps.length = n ∧ (ps.map Prod.fst).Sublist sigs ∧ (ps.map Prod.snd).Subperm keys ∧
        ∀ p ∈ ps, valid p.1 p.2 m = true := Iff.rfl

theorem signed_zero (valid : Sig → Key → Msg → Bool) (m : Msg) (sigs : List Sig) (keys : List Key) :
    Signed valid m sigs keys 0 :=
  ⟨[], rfl, List.nil_sublist _, ⟨[], List.Perm.nil, List.nil_sublist _⟩, by simp⟩

/-- a threshold that is met is met for every smaller threshold -/
theorem signed_mono {valid : Sig → Key → Msg → Bool} {m : Msg} {sigs : List Sig} {keys : List Key} {n n' : Nat}
    (h : Signed valid m sigs keys n) (hn : n' ≤ n) : Signed valid m sigs keys n' := by
  obtain ⟨ps, hl, hs, hk, hv⟩ := signed_iff.1 h
  refine signed_iff.2 ⟨ps.take n', by simp [hl, hn], ?_, ?_, ?_⟩
  · exact ((List.take_sublist n' ps).map Prod.fst).trans hs
  · exact (((List.take_sublist n' ps).map Prod.snd).subperm).trans hk
  · intro p hp; exact hv p (List.mem_of_mem_take hp)

/-- no more signers than signatures, no more than listed key positions -/
theorem signed_le {valid : Sig → Key → Msg → Bool} {m : Msg} {sigs : List Sig} {keys : List Key} {n : Nat}
    (h : Signed valid m sigs keys n) : n ≤ sigs.length ∧ n ≤ keys.length := by
  obtain ⟨ps, hl, hs, hk, _⟩ := signed_iff.1 h
  constructor
  · have := hs.length_le; simp at this; omega
  · have := hk.length_le; simp at this; omega

theorem signed_skip {valid : Sig → Key → Msg → Bool} {m : Msg} {s : Sig} {rest : List Sig} {keys : List Key} {n : Nat}
    (h : Signed valid m rest keys n) : Signed valid m (s :: rest) keys n := by
  obtain ⟨ps, hl, hs, hk, hv⟩ := signed_iff.1 h
  exact signed_iff.2 ⟨ps, hl, hs.cons s, hk, hv⟩

/-- pair the head signature with key position `j`, the rest with the remaining positions -/
theorem signed_take {valid : Sig → Key → Msg → Bool} {m : Msg} {s : Sig} {rest : List Sig} {keys : List Key} {n j : Nat} {k : Key}
    (hj : keys[j]? = some k) (hv : valid s k m = true) (h : Signed valid m rest (keys.eraseIdx j) n) :
    Signed valid m (s :: rest) keys (n + 1) := by
  obtain ⟨ps, hl, hs, hk, hvs⟩ := signed_iff.1 h
  refine signed_iff.2 ⟨(s, k) :: ps, by simp [hl], ?_, ?_, ?_⟩
  · simpa using hs.cons_cons s
  · have hp := perm_cons_eraseIdx keys j k hj
    simp only [List.map_cons]
    exact (hp.subperm_left).2 ((List.subperm_cons k).2 hk)
  · intro p hp
    rcases List.mem_cons.1 hp with rfl | hp
    · exact hv
    · exact hvs p hp

/-- the converse analysis: a threshold met on `s :: rest` either does not use `s`, or pairs it with some position `j`. -/
theorem signed_cons_cases {valid : Sig → Key → Msg → Bool} {m : Msg} {s : Sig} {rest : List Sig} {keys : List Key} {n : Nat}
    (h : Signed valid m (s :: rest) keys (n + 1)) :
    Signed valid m rest keys (n + 1) ∨
      ∃ j k, keys[j]? = some k ∧ valid s k m = true ∧ Signed valid m rest (keys.eraseIdx j) n := by
  obtain ⟨ps, hl, hs, hk, hv⟩ := signed_iff.1 h
  rcases List.sublist_cons_iff.1 hs with hs' | ⟨r, hr, hs'⟩
  · exact Or.inl (signed_iff.2 ⟨ps, hl, hs', hk, hv⟩)
  · right
    match ps, hl, hr, hk, hv with
    | (s', k) :: ps', hl, hr, hk, hv =>
      simp only [List.map_cons, List.cons.injEq] at hr
      obtain ⟨rfl, rfl⟩ := hr
      have hmem : k ∈ keys := hk.subset (by simp)
      obtain ⟨j, hj⟩ := List.mem_iff_getElem?.1 hmem
      refine ⟨j, k, hj, hv (s', k) (by simp), signed_iff.2 ⟨ps', by simpa using hl, hs', ?_, fun p hp => hv p (by simp [hp])⟩⟩
      have hp := perm_cons_eraseIdx keys j k hj
      have : (k :: ps'.map Prod.snd).Subperm (k :: keys.eraseIdx j) := (hp.subperm_left).1 (by simpa using hk)
      exact (List.subperm_cons k).1 this

/-! ## the exhaustive decider equals the declarative threshold -/

theorem canSign_iff (valid : Sig → Key → Msg → Bool) (m : Msg) :
    ∀ (sigs : List Sig) (keys : List Key) (n : Nat), canSign valid m sigs keys n = true ↔ Signed valid m sigs keys n := by
  intro sigs
  induction sigs with
  | nil =>
    intro keys n
    cases n with
    | zero => simp [canSign, signed_zero]
    | succ n =>
      simp only [canSign, Bool.false_eq_true, false_iff]
      intro h; have := (signed_le h).1; simp at this
  | cons s rest ih =>
    intro keys n
    cases n with
    | zero => simp [canSign, signed_zero]
    | succ n =>
      simp only [canSign, Bool.or_eq_true, List.any_eq_true, List.mem_range]
      constructor
      · rintro (h | ⟨j, _, h⟩)
        · exact signed_skip ((ih keys (n + 1)).1 h)
        · cases hk : keys[j]? with
          | none => simp [hk] at h
          | some k =>
            simp only [hk, Bool.and_eq_true] at h
            exact signed_take hk h.1 ((ih _ n).1 h.2)
      · intro h
        rcases signed_cons_cases h with h | ⟨j, k, hj, hv, h⟩
        · exact Or.inl ((ih keys (n + 1)).2 h)
        · right
          refine ⟨j, ?_, ?_⟩
          · exact (List.getElem?_eq_some_iff.1 hj).1
          · simp [hj, hv, (ih _ n).2 h]

/-! ## the Boolean deciders of `Spec.Spendable` decide the declarative statements -/

theorem nodupB_iff : ∀ (l : List Sig), nodupB l = true ↔ l.Nodup
  | [] => by simp [nodupB]
  | s :: rest => by
    simp only [nodupB, Bool.and_eq_true, Bool.not_eq_true', List.nodup_cons, nodupB_iff rest]
    simp

theorem wellFormedTagB_iff (env : Env) (t : List String) :
    wellFormedTagB env t = true ↔
      (2 ≤ t.length) ∧
      (t.head? = some SIGFLAG → t[1]? = some SIGINPUTS ∨ t[1]? = some SIGALL) ∧
      (t.head? = some NSIGS → ∃ n : Int, tagInt t = some n ∧ 0 ≤ n ∧ n ≤ 127) ∧
      (t.head? = some LOCKTIME → ∃ l : Int, tagInt t = some l ∧ -(2 ^ 63 : Int) ≤ l ∧ l < (2 ^ 63 : Int)) ∧
      ((t.head? = some PUBKEYS ∨ t.head? = some REFUND) → ∀ k ∈ t.tail, (env.parseKey k).isSome = true) := by
  unfold wellFormedTagB
  simp only [Bool.and_eq_true, decide_eq_true_eq]
  constructor
  · rintro ⟨⟨⟨⟨h1, h2⟩, h3⟩, h4⟩, h5⟩
    refine ⟨h1, ?_, ?_, ?_, ?_⟩
    · intro h; simpa [h] using h2
    · intro h
      simp only [h, if_true] at h3
      cases hi : tagInt t with
      | none => simp [hi] at h3
      | some n => simp only [hi, decide_eq_true_eq] at h3; exact ⟨n, rfl, h3⟩
    · intro h
      simp only [h, if_true] at h4
      cases hi : tagInt t with
      | none => simp [hi] at h4
      | some n => simp only [hi, decide_eq_true_eq] at h4; exact ⟨n, rfl, h4⟩
    · intro h
      simp only [h, if_true, List.all_eq_true] at h5
      exact h5
  · rintro ⟨h1, h2, h3, h4, h5⟩
    refine ⟨⟨⟨⟨h1, ?_⟩, ?_⟩, ?_⟩, ?_⟩
    · split
      · rename_i h; simpa using h2 h
      · rfl
    · split
      · rename_i h
        obtain ⟨n, hn, hr⟩ := h3 h
        simp [hn, hr]
      · rfl
    · split
      · rename_i h
        obtain ⟨n, hn, hr⟩ := h4 h
        simp only [hn, decide_eq_true_eq]
        exact hr
      · rfl
    · split
      · rename_i h; simpa [List.all_eq_true] using h5 h
      · rfl

theorem wellFormedB_iff (env : Env) (tags : List (List String)) : wellFormedB env tags = true ↔ WellFormed env tags := by
  unfold wellFormedB
  simp only [Bool.and_eq_true, decide_eq_true_eq, List.all_eq_true, wellFormedTagB_iff]
  constructor
  · rintro ⟨h5, h⟩
    exact ⟨h5, fun t ht => (h t ht).1, fun t ht => (h t ht).2.1, fun t ht => (h t ht).2.2.1,
      fun t ht => (h t ht).2.2.2.1, fun t ht => (h t ht).2.2.2.2⟩
  · rintro ⟨h5, a, b, c, d, e⟩
    exact ⟨h5, fun t ht => ⟨a t ht, b t ht, c t ht, d t ht, e t ht⟩⟩

/-- The evaluator the driver runs for `spend.spec-p2pk` IS the declarative NUT-11 statement. -/
theorem decideP2PK_iff (env : Env) (s : Secret) (m : Msg) (w : Witness) :
    decideP2PK env s m w = true ↔ spendableP2PK env s m w := by
  unfold decideP2PK spendableP2PK
  simp only [Bool.and_eq_true, wellFormedB_iff]
  apply and_congr_right
  intro _
  by_cases hx : Expired env (condOf env s.tags)
  · simp only [hx, if_true, Bool.or_eq_true, canSign_iff, List.isEmpty_iff]
  · simp only [hx, if_false]
    cases hk : env.parseKey s.data with
    | none => simp
    | some k =>
      simp only [Bool.and_eq_true, Bool.or_eq_true, decide_eq_true_eq, Bool.not_eq_true', canSign_iff, nodupB_iff,
        Option.some.injEq, exists_eq_left']
      constructor
      · rintro ⟨⟨h1, h2⟩, h3⟩
        refine ⟨?_, h2, h3⟩
        intro hpos hnil
        rcases h1 with h1 | h1
        · omega
        · simp [hnil] at h1
      · rintro ⟨h1, h2, h3⟩
        refine ⟨⟨?_, h2⟩, h3⟩
        by_cases h0 : (condOf env s.tags).nSigs = 0
        · exact Or.inl h0
        · right
          have := h1 (by omega)
          cases hp : (condOf env s.tags).pubkeys with
          | nil => exact absurd hp this
          | cons _ _ => rfl

theorem opensB_iff (env : Env) (pre data : String) : opensB env pre data = true ↔ Opens env pre data := by
  unfold opensB Opens
  simp only [Bool.and_eq_true, decide_eq_true_eq]
  apply and_congr_right
  intro _
  cases h : hexDecode pre with
  | none => simp
  | some b => simp

/-- The evaluator the driver runs for `spend.spec-htlc` IS the declarative NUT-14 statement. -/
theorem decideHTLC_iff (env : Env) (s : Secret) (m : Msg) (w : Witness) :
    decideHTLC env s m w = true ↔ spendableHTLC env s m w := by
  unfold decideHTLC spendableHTLC
  simp only [Bool.and_eq_true, wellFormedB_iff]
  apply and_congr_right
  intro _
  by_cases hx : Expired env (condOf env s.tags)
  · simp only [hx, if_true, Bool.or_eq_true, canSign_iff, List.isEmpty_iff]
  · simp only [hx, if_false, Bool.and_eq_true, opensB_iff, Bool.or_eq_true, decide_eq_true_eq, canSign_iff, nodupB_iff]
    apply and_congr_right
    intro _
    constructor
    · rintro (h | h) hpos
      · omega
      · exact h
    · intro h
      by_cases h0 : (condOf env s.tags).nSigs = 0
      · exact Or.inl h0
      · exact Or.inr (h (by omega))

/-! ## the greedy loop: facts that hold whichever way the deletion guard reads -/

/-- number of signatures that verify under SOME key of `keys` (keys may be re-used) -/
def countValid (valid : Sig → Key → Msg → Bool) (m : Msg) (sigs : List Sig) (keys : List Key) : Nat :=
  (sigs.filter fun s => keys.any fun k => valid s k m).length

theorem findKey_some {valid : Sig → Key → Msg → Bool} {m : Msg} {s : Sig} :
    ∀ {keys : List Key} {i : Nat}, findKey valid m s keys = some i → ∃ k, keys[i]? = some k ∧ valid s k m = true
  | [], i, h => by simp [findKey] at h
  | k :: ks, i, h => by
    unfold findKey at h
    by_cases hv : valid s k m = true
    · simp only [hv, if_true, Option.some.injEq] at h; subst h; exact ⟨k, by simp, hv⟩
    · simp only [hv, Bool.false_eq_true, if_false, Option.map_eq_some_iff] at h
      obtain ⟨j, hj, rfl⟩ := h
      obtain ⟨k', hk', hv'⟩ := findKey_some hj
      exact ⟨k', by simpa using hk', hv'⟩

theorem findKey_none {valid : Sig → Key → Msg → Bool} {m : Msg} {s : Sig} :
    ∀ {keys : List Key}, findKey valid m s keys = none ↔ ∀ k ∈ keys, valid s k m = false
  | [] => by simp [findKey]
  | k :: ks => by
    unfold findKey
    by_cases hv : valid s k m = true
    · simp [hv]
    · have hv' : valid s k m = false := by simpa using hv
      simp [hv', findKey_none (keys := ks)]

theorem hvsCount_le_countValid (valid : Sig → Key → Msg → Bool) (m : Msg) :
    ∀ (sigs : List Sig) (keys K : List Key), keys ⊆ K → hvsCount valid m sigs keys ≤ countValid valid m sigs K := by
  intro sigs
  induction sigs with
  | nil => intro keys K _; simp [hvsCount, countValid]
  | cons s rest ih =>
    intro keys K hsub
    unfold hvsCount
    cases hf : findKey valid m s keys with
    | none =>
      simp only
      have := ih keys K hsub
      unfold countValid at *
      rw [List.filter_cons]
      split <;> simp <;> omega
    | some i =>
      simp only
      obtain ⟨k, hk, hv⟩ := findKey_some hf
      have hkK : k ∈ K := hsub (List.mem_of_getElem? hk)
      have hsub' : (if removeMatchedKey keys = true then keys.eraseIdx i else keys) ⊆ K := by
        split
        · exact fun x hx => hsub ((List.eraseIdx_sublist keys i).subset hx)
        · exact hsub
      have := ih _ K hsub'
      unfold countValid at *
      rw [List.filter_cons]
      have hany : (K.any fun k => valid s k m) = true := List.any_eq_true.2 ⟨k, hkK, hv⟩
      simp only [hany, if_true, List.length_cons]
      omega

/-! ## the greedy loop of the repaired code is sound and — when a signature verifies under one key only — complete -/

/-- a signature verifies under at most one of the listed keys -/
def UniqueSigner (valid : Sig → Key → Msg → Bool) (m : Msg) (keys : List Key) : Prop :=
  ∀ s k k', k ∈ keys → k' ∈ keys → valid s k m = true → valid s k' m = true → k = k'

theorem UniqueSigner.mono {valid : Sig → Key → Msg → Bool} {m : Msg} {keys keys' : List Key}
    (h : UniqueSigner valid m keys) (hs : keys' ⊆ keys) : UniqueSigner valid m keys' :=
  fun s k k' hk hk' => h s k k' (hs hk) (hs hk')

/-- the greedy count is witnessed by that many DISTINCT key positions -/
theorem hvsCount_signed (valid : Sig → Key → Msg → Bool) (m : Msg) :
    ∀ (sigs : List Sig) (keys : List Key), Signed valid m sigs keys (hvsCount valid m sigs keys) := by
  intro sigs
  induction sigs with
  | nil => intro keys; simp only [hvsCount]; exact signed_zero _ _ _ _
  | cons s rest ih =>
    intro keys
    unfold hvsCount
    cases hf : findKey valid m s keys with
    | none => exact signed_skip (ih keys)
    | some i =>
      simp only [removeMatchedKey, if_true]
      obtain ⟨k, hk, hv⟩ := findKey_some hf
      rw [Nat.add_comm]
      exact signed_take hk hv (ih _)

theorem signed_perm {valid : Sig → Key → Msg → Bool} {m : Msg} {sigs : List Sig} {keys keys' : List Key} {n : Nat}
    (hp : keys.Perm keys') (h : Signed valid m sigs keys n) : Signed valid m sigs keys' n := by
  obtain ⟨ps, hl, hs, hk, hv⟩ := signed_iff.1 h
  exact signed_iff.2 ⟨ps, hl, hs, (hp.subperm_left).1 hk, hv⟩

theorem map_snd_eraseP (k0 : Key) : ∀ (ps : List (Sig × Key)),
    (ps.eraseP (fun p => p.2 == k0)).map Prod.snd = (ps.map Prod.snd).erase k0
  | [] => rfl
  | p :: ps => by
    simp only [List.eraseP_cons, List.map_cons, List.erase_cons]
    by_cases h : p.2 == k0
    · simp [h]
    · simp [h, map_snd_eraseP k0 ps]

/-- giving up one key position costs at most one signer -/
theorem signed_erase {valid : Sig → Key → Msg → Bool} {m : Msg} {sigs : List Sig} {keys : List Key} {n i : Nat} {k0 : Key}
    (hi : keys[i]? = some k0) (h : Signed valid m sigs keys (n + 1)) : Signed valid m sigs (keys.eraseIdx i) n := by
  obtain ⟨ps, hl, hs, hk, hv⟩ := signed_iff.1 h
  have hp := perm_cons_eraseIdx keys i k0 hi
  have hk' : (ps.map Prod.snd).Subperm (k0 :: keys.eraseIdx i) := (hp.subperm_left).1 hk
  have hk'' := hk'.erase k0
  rw [List.erase_cons_head, ← map_snd_eraseP] at hk''
  have hsub : (ps.eraseP (fun p => p.2 == k0)).Sublist ps := List.eraseP_sublist
  have hlen : n ≤ (ps.eraseP (fun p => p.2 == k0)).length := by
    rw [List.length_eraseP]; split <;> omega
  have : Signed valid m sigs (keys.eraseIdx i) (ps.eraseP (fun p => p.2 == k0)).length :=
    signed_iff.2 ⟨_, rfl, (hsub.map Prod.fst).trans hs, hk'', fun p hp => hv p (hsub.subset hp)⟩
  exact signed_mono this hlen

/-- COMPLETENESS of the greedy loop: if `n` distinct key positions signed, the loop counts at least `n`. -/
theorem signed_le_hvsCount (valid : Sig → Key → Msg → Bool) (m : Msg) :
    ∀ (sigs : List Sig) (keys : List Key) (n : Nat), UniqueSigner valid m keys → Signed valid m sigs keys n →
      n ≤ hvsCount valid m sigs keys := by
  intro sigs
  induction sigs with
  | nil => intro keys n _ h; have := (signed_le h).1; simp at this; omega
  | cons s rest ih =>
    intro keys n hu h
    cases n with
    | zero => omega
    | succ n =>
      unfold hvsCount
      cases hf : findKey valid m s keys with
      | none =>
        simp only
        rcases signed_cons_cases h with h | ⟨j, k, hj, hv, _⟩
        · exact ih keys (n + 1) hu h
        · have := (findKey_none.1 hf) k (List.mem_of_getElem? hj)
          rw [hv] at this; cases this
      | some i =>
        simp only [removeMatchedKey, if_true]
        obtain ⟨k0, hk0, hv0⟩ := findKey_some hf
        have hu' : UniqueSigner valid m (keys.eraseIdx i) := hu.mono (List.eraseIdx_sublist keys i).subset
        rcases signed_cons_cases h with h | ⟨j, k, hj, hv, h⟩
        · have := ih _ n hu' (signed_erase hk0 h)
          omega
        · have hkk : k = k0 := hu s k k0 (List.mem_of_getElem? hj) (List.mem_of_getElem? hk0) hv hv0
          subst hkk
          have hp : (keys.eraseIdx j).Perm (keys.eraseIdx i) :=
            ((perm_cons_eraseIdx keys j k hj).symm.trans (perm_cons_eraseIdx keys i k hk0)).cons_inv
          have := ih _ n hu' (signed_perm hp h)
          omega

/-- for the threshold 1 no hypothesis is needed: some signature verifies under some listed key -/
theorem signed_one_iff {valid : Sig → Key → Msg → Bool} {m : Msg} {sigs : List Sig} {keys : List Key} :
    Signed valid m sigs keys 1 ↔ ∃ s ∈ sigs, ∃ k ∈ keys, valid s k m = true := by
  constructor
  · intro h
    obtain ⟨ps, hl, hs, hk, hv⟩ := signed_iff.1 h
    match ps, hl with
    | [p], _ =>
      exact ⟨p.1, hs.subset (by simp), p.2, hk.subset (by simp), hv p (by simp)⟩
  · rintro ⟨s, hs, k, hk, hv⟩
    refine signed_iff.2 ⟨[(s, k)], rfl, by simpa using hs, ?_, by simpa using hv⟩
    exact (List.singleton_sublist.2 hk).subperm

theorem one_le_hvsCount_iff (valid : Sig → Key → Msg → Bool) (m : Msg) :
    ∀ (sigs : List Sig) (keys : List Key), 1 ≤ hvsCount valid m sigs keys ↔ ∃ s ∈ sigs, ∃ k ∈ keys, valid s k m = true := by
  intro sigs
  induction sigs with
  | nil => intro keys; simp [hvsCount]
  | cons s rest ih =>
    intro keys
    unfold hvsCount
    cases hf : findKey valid m s keys with
    | none =>
      simp only [ih keys, List.mem_cons, exists_eq_or_imp]
      constructor
      · exact Or.inr
      · rintro (⟨k, hk, hv⟩ | h)
        · have := (findKey_none.1 hf) k hk; rw [hv] at this; cases this
        · exact h
    | some i =>
      obtain ⟨k, hk, hv⟩ := findKey_some hf
      simp only [List.mem_cons, exists_eq_or_imp]
      constructor
      · intro _; exact Or.inl ⟨k, List.mem_of_getElem? hk, hv⟩
      · intro _; omega

theorem duplicateSignatures_iff : ∀ (l : List Sig), duplicateSignatures l = false ↔ l.Nodup
  | [] => by simp [duplicateSignatures]
  | s :: rest => by
    simp only [duplicateSignatures, Bool.or_eq_false_iff, List.nodup_cons, duplicateSignatures_iff rest]
    simp

/-! ## ProofsSigAll -/

/-- the proof is a NUT-10 secret whose tags contain `["sigflag","SIG_ALL"]` -/
def CarriesSigAll (p : Proof) : Prop := ∃ s, p.secret = some s ∧ isSigAll s = true

theorem proofsSigAll_sound : ∀ (proofs : List Proof), proofsSigAll proofs = true → ∃ p ∈ proofs, CarriesSigAll p
  | [], h => by simp [proofsSigAll] at h
  | p :: rest, h => by
    unfold proofsSigAll at h
    cases hs : p.secret with
    | none =>
      simp only [hs] at h
      cases hm : sigAllOnPlainSecret with
      | none => simp [hm] at h
      | some u =>
        simp only [hm] at h
        obtain ⟨q, hq, hc⟩ := proofsSigAll_sound rest h
        exact ⟨q, by simp [hq], hc⟩
    | some s =>
      simp only [hs] at h
      by_cases ha : isSigAll s = true
      · exact ⟨p, by simp, s, hs, ha⟩
      · simp only [ha, Bool.false_eq_true, if_false] at h
        obtain ⟨q, hq, hc⟩ := proofsSigAll_sound rest h
        exact ⟨q, by simp [hq], hc⟩

/-- when every input is a NUT-10 secret, a SIG_ALL input is seen wherever it sits -/
theorem proofsSigAll_of_all_nut10 : ∀ (proofs : List Proof), (∀ q ∈ proofs, q.secret ≠ none) →
    (∃ p ∈ proofs, CarriesSigAll p) → proofsSigAll proofs = true
  | [], _, h => by simp at h
  | p :: rest, hall, h => by
    unfold proofsSigAll
    cases hs : p.secret with
    | none => exact absurd hs (hall p (by simp))
    | some s =>
      simp only
      by_cases ha : isSigAll s = true
      · simp [ha]
      · simp only [ha, Bool.false_eq_true, if_false]
        apply proofsSigAll_of_all_nut10 rest (fun q hq => hall q (by simp [hq]))
        obtain ⟨q, hq, s', hs', ha'⟩ := h
        rcases List.mem_cons.1 hq with rfl | hq
        · rw [hs] at hs'; cases hs'; exact absurd ha' ha
        · exact ⟨q, hq, s', hs', ha'⟩

/-! ## tag parsing against the declarative reading; the two verifiers against the specification -/
open Gonuts.Model.Spend Gonuts.Spec.Spendable

theorem parseKeys_ok (env : Env) : ∀ l : List String, (∀ k ∈ l, (env.parseKey k).isSome = true) →
    parseKeys env l = .ok (l.filterMap env.parseKey)
  | [], _ => rfl
  | s :: rest, h => by
    unfold parseKeys
    have hs := h s (by simp)
    cases hk : env.parseKey s with
    | none => simp [hk] at hs
    | some k =>
      simp only [parseKeys_ok env rest (fun k hk => h k (by simp [hk])), List.filterMap_cons, hk]

theorem parseKeys_err (env : Env) : ∀ l : List String, ¬ (∀ k ∈ l, (env.parseKey k).isSome = true) →
    parseKeys env l = .err .badPublicKey
  | [], h => by simp at h
  | s :: rest, h => by
    unfold parseKeys
    cases hk : env.parseKey s with
    | none => rfl
    | some k =>
      have : ¬ (∀ k ∈ rest, (env.parseKey k).isSome = true) := by
        intro h'; apply h; intro x hx
        rcases List.mem_cons.1 hx with rfl | hx
        · simp [hk]
        · exact h' x hx
      simp only [parseKeys_err env rest this]

/-- what the accumulated tags look like after the loop has run over `tags` starting from `acc` -/
def overlay (env : Env) (tags : List (List String)) (acc : Tags) : Tags where
  sigflag := match lastTag SIGFLAG tags with | some t => (t[1]?).getD "" | none => acc.sigflag
  nSigs := match lastTag NSIGS tags with | some t => ((tagInt t).getD 0).toNat | none => acc.nSigs
  pubkeys := match lastTag PUBKEYS tags with | some t => t.tail.filterMap env.parseKey | none => acc.pubkeys
  locktime := match lastTag LOCKTIME tags with | some t => (tagInt t).getD 0 | none => acc.locktime
  refund := match lastTag REFUND tags with | some t => t.tail.filterMap env.parseKey | none => acc.refund

theorem lastTag_cons (name : String) (t : List String) (rest : List (List String)) :
    lastTag name (t :: rest) = match lastTag name rest with
      | some v => some v
      | none => if t.head? = some name then some t else none := rfl

theorem overlay_cons (env : Env) (ty v : String) (more : List String) (rest : List (List String)) (acc : Tags) :
    overlay env ((ty :: v :: more) :: rest) acc = overlay env rest
      { sigflag := if ty = SIGFLAG then v else acc.sigflag,
        nSigs := if ty = NSIGS then ((decimal? v).getD 0).toNat else acc.nSigs,
        pubkeys := if ty = PUBKEYS then (v :: more).filterMap env.parseKey else acc.pubkeys,
        locktime := if ty = LOCKTIME then (decimal? v).getD 0 else acc.locktime,
        refund := if ty = REFUND then (v :: more).filterMap env.parseKey else acc.refund } := by
  simp only [overlay, lastTag_cons, List.head?_cons, Option.some.injEq]
  congr 1
  · by_cases hty : ty = SIGFLAG <;> cases lastTag SIGFLAG rest <;> simp [hty]
  · by_cases hty : ty = NSIGS <;> cases lastTag NSIGS rest <;> simp [hty, tagInt]
  · by_cases hty : ty = PUBKEYS <;> cases lastTag PUBKEYS rest <;> simp [hty]
  · by_cases hty : ty = LOCKTIME <;> cases lastTag LOCKTIME rest <;> simp [hty, tagInt]
  · by_cases hty : ty = REFUND <;> cases lastTag REFUND rest <;> simp [hty]


theorem wf_cons2 (env : Env) (ty v : String) (more : List String) :
    wellFormedTagB env (ty :: v :: more) = true ↔
      (ty = SIGFLAG → v = SIGINPUTS ∨ v = SIGALL) ∧
      (ty = NSIGS → ∃ n : Int, decimal? v = some n ∧ 0 ≤ n ∧ n ≤ 127) ∧
      (ty = LOCKTIME → ∃ l : Int, decimal? v = some l ∧ -(2 ^ 63 : Int) ≤ l ∧ l < (2 ^ 63 : Int)) ∧
      ((ty = PUBKEYS ∨ ty = REFUND) → ∀ k ∈ v :: more, (env.parseKey k).isSome = true) := by
  rw [wellFormedTagB_iff]
  simp [tagInt]

theorem wf_short (env : Env) : wellFormedTagB env [] = false ∧ ∀ x, wellFormedTagB env [x] = false := by
  constructor
  · simp [wellFormedTagB]
  · intro x; simp [wellFormedTagB]

theorem parseInt8_iff (v : String) (n : Int) :
    (parseInt v 8 = some n ∧ ¬ n < 0) ↔ (decimal? v = some n ∧ 0 ≤ n ∧ n ≤ 127) := by
  unfold parseInt
  cases decimal? v with
  | none => simp
  | some x =>
    simp only [Option.some.injEq]
    constructor
    · rintro ⟨h, hn⟩
      split at h
      · rename_i hr; cases h; simp at hr; omega
      · cases h
    · rintro ⟨rfl, h0, h1⟩
      have : -(2 ^ (8 - 1) : Int) ≤ x ∧ x < (2 ^ (8 - 1) : Int) := by simp; omega
      simp only [this, and_self, if_true, true_and]; omega


theorem parseInt64_iff (v : String) (l : Int) :
    parseInt v 64 = some l ↔ (decimal? v = some l ∧ -(2 ^ 63 : Int) ≤ l ∧ l < (2 ^ 63 : Int)) := by
  unfold parseInt
  cases decimal? v with
  | none => simp
  | some x =>
    simp only [Option.some.injEq]
    constructor
    · intro h
      split at h
      · rename_i hr; cases h; simpa using hr
      · cases h
    · rintro ⟨rfl, h⟩
      have : -(2 ^ (64 - 1) : Int) ≤ x ∧ x < (2 ^ (64 - 1) : Int) := by simpa using h
      simp only [this, and_self, if_true]

theorem loop_ok (env : Env) : ∀ (tags : List (List String)) (acc : Tags),
    (∀ t ∈ tags, wellFormedTagB env t = true) → parseTagsLoop env tags acc = .ok (overlay env tags acc) := by
  intro tags
  induction tags with
  | nil => intro acc _; simp [parseTagsLoop, overlay, lastTag]
  | cons tag rest ih =>
    intro acc h
    have hw := h tag (by simp)
    have hrest : ∀ t ∈ rest, wellFormedTagB env t = true := fun t ht => h t (by simp [ht])
    match tag, hw with
    | [], hw => simp [(wf_short env).1] at hw
    | [x], hw => simp [(wf_short env).2 x] at hw
    | ty :: v :: more, hw =>
      obtain ⟨h1, h2, h3, h4⟩ := (wf_cons2 env ty v more).1 hw
      rw [overlay_cons]
      unfold parseTagsLoop
      by_cases c1 : ty = SIGFLAG
      · subst c1
        simp only [if_true, h1 rfl]
        rw [ih _ hrest]
        simp [SIGFLAG, NSIGS, PUBKEYS, LOCKTIME, REFUND]
      · by_cases c2 : ty = NSIGS
        · subst c2
          obtain ⟨n, hn, h0, h127⟩ := h2 rfl
          obtain ⟨hp, hneg⟩ := (parseInt8_iff v n).2 ⟨hn, h0, h127⟩
          simp only [c1, if_false, if_true, hp, hneg]
          rw [ih _ hrest]
          simp [SIGFLAG, NSIGS, PUBKEYS, LOCKTIME, REFUND, hn]
        · by_cases c3 : ty = PUBKEYS
          · subst c3
            simp only [c1, c2, if_false, if_true, parseKeys_ok env (v :: more) (h4 (Or.inl rfl))]
            rw [ih _ hrest]
            simp [SIGFLAG, NSIGS, PUBKEYS, LOCKTIME, REFUND]
          · by_cases c4 : ty = LOCKTIME
            · subst c4
              obtain ⟨l, hl, hr⟩ := h3 rfl
              simp only [c1, c2, c3, if_false, if_true, (parseInt64_iff v l).2 ⟨hl, hr⟩]
              rw [ih _ hrest]
              simp [SIGFLAG, NSIGS, PUBKEYS, LOCKTIME, REFUND, hl]
            · by_cases c5 : ty = REFUND
              · subst c5
                simp only [c1, c2, c3, c4, if_false, if_true, parseKeys_ok env (v :: more) (h4 (Or.inr rfl))]
                rw [ih _ hrest]
              · simp only [c1, c2, c3, c4, c5, if_false]
                rw [ih _ hrest]

theorem loop_err (env : Env) : ∀ (tags : List (List String)) (acc : Tags),
    ¬ (∀ t ∈ tags, wellFormedTagB env t = true) → ∃ e, parseTagsLoop env tags acc = .err e := by
  intro tags
  induction tags with
  | nil => intro acc h; simp at h
  | cons tag rest ih =>
    intro acc h
    by_cases hw : wellFormedTagB env tag = true
    · have hrest : ¬ (∀ t ∈ rest, wellFormedTagB env t = true) := by
        intro h'; apply h; intro t ht
        rcases List.mem_cons.1 ht with rfl | ht
        · exact hw
        · exact h' t ht
      match tag, hw with
      | [], hw => simp [(wf_short env).1] at hw
      | [x], hw => simp [(wf_short env).2 x] at hw
      | ty :: v :: more, hw =>
        obtain ⟨h1, h2, h3, h4⟩ := (wf_cons2 env ty v more).1 hw
        unfold parseTagsLoop
        by_cases c1 : ty = SIGFLAG
        · subst c1; simp only [if_true, h1 rfl]; exact ih _ hrest
        · by_cases c2 : ty = NSIGS
          · subst c2
            obtain ⟨n, hn, h0, h127⟩ := h2 rfl
            obtain ⟨hp, hneg⟩ := (parseInt8_iff v n).2 ⟨hn, h0, h127⟩
            simp only [c1, if_false, if_true, hp, hneg]; exact ih _ hrest
          · by_cases c3 : ty = PUBKEYS
            · subst c3
              simp only [c1, c2, if_false, if_true, parseKeys_ok env (v :: more) (h4 (Or.inl rfl))]; exact ih _ hrest
            · by_cases c4 : ty = LOCKTIME
              · subst c4
                obtain ⟨l, hl, hr⟩ := h3 rfl
                simp only [c1, c2, c3, if_false, if_true, (parseInt64_iff v l).2 ⟨hl, hr⟩]; exact ih _ hrest
              · by_cases c5 : ty = REFUND
                · subst c5
                  simp only [c1, c2, c3, c4, if_false, if_true, parseKeys_ok env (v :: more) (h4 (Or.inr rfl))]; exact ih _ hrest
                · simp only [c1, c2, c3, c4, c5, if_false]; exact ih _ hrest
    · -- this tag is malformed: the loop stops here
      match tag, hw with
      | [], _ => exact ⟨.invalidTag, by simp [parseTagsLoop]⟩
      | [x], _ => exact ⟨.invalidTag, by simp [parseTagsLoop]⟩
      | ty :: v :: more, hw =>
        have hw' := mt (wf_cons2 env ty v more).2 hw
        unfold parseTagsLoop
        by_cases c1 : ty = SIGFLAG
        · subst c1
          by_cases hv : v = SIGINPUTS ∨ v = SIGALL
          · exfalso; apply hw'
            refine ⟨fun _ => hv, ?_, ?_, ?_⟩ <;> simp [SIGFLAG, NSIGS, PUBKEYS, LOCKTIME, REFUND]
          · simp only [if_true, hv, if_false]; exact ⟨_, rfl⟩
        · by_cases c2 : ty = NSIGS
          · subst c2
            simp only [c1, if_false, if_true]
            cases hp : parseInt v 8 with
            | none => exact ⟨_, rfl⟩
            | some n =>
              simp only
              by_cases hneg : n < 0
              · simp only [hneg, if_true]; exact ⟨_, rfl⟩
              · exfalso; apply hw'
                obtain ⟨hn, h0, h127⟩ := (parseInt8_iff v n).1 ⟨hp, hneg⟩
                refine ⟨?_, fun _ => ⟨n, hn, h0, h127⟩, ?_, ?_⟩ <;> simp [SIGFLAG, NSIGS, PUBKEYS, LOCKTIME, REFUND]
          · by_cases c3 : ty = PUBKEYS
            · subst c3
              simp only [c1, c2, if_false, if_true]
              by_cases hk : ∀ k ∈ v :: more, (env.parseKey k).isSome = true
              · exfalso; apply hw'
                refine ⟨?_, ?_, ?_, fun _ => hk⟩ <;> simp [SIGFLAG, NSIGS, PUBKEYS, LOCKTIME, REFUND]
              · rw [parseKeys_err env _ hk]; exact ⟨_, rfl⟩
            · by_cases c4 : ty = LOCKTIME
              · subst c4
                simp only [c1, c2, c3, if_false, if_true]
                cases hp : parseInt v 64 with
                | none => exact ⟨_, rfl⟩
                | some l =>
                  exfalso; apply hw'
                  obtain ⟨hl, hr⟩ := (parseInt64_iff v l).1 hp
                  refine ⟨?_, ?_, fun _ => ⟨l, hl, hr⟩, ?_⟩ <;> simp [SIGFLAG, NSIGS, PUBKEYS, LOCKTIME, REFUND]
              · by_cases c5 : ty = REFUND
                · subst c5
                  simp only [c1, c2, c3, c4, if_false, if_true]
                  by_cases hk : ∀ k ∈ v :: more, (env.parseKey k).isSome = true
                  · exfalso; apply hw'
                    refine ⟨?_, ?_, ?_, fun _ => hk⟩ <;> simp [SIGFLAG, NSIGS, PUBKEYS, LOCKTIME, REFUND]
                  · rw [parseKeys_err env _ hk]; exact ⟨_, rfl⟩
                · exfalso; apply hw'
                  exact ⟨fun h => absurd h c1, fun h => absurd h c2, fun h => absurd h c4, fun h => h.elim (fun h => absurd h c3) (fun h => absurd h c5)⟩


theorem parseTags_ok_iff (env : Env) (tags : List (List String)) (t : Tags) :
    parseTags env tags = .ok t ↔ WellFormed env tags ∧ t = overlay env tags {} := by
  rw [← wellFormedB_iff]
  unfold parseTags wellFormedB
  by_cases h5 : tags.length > 5
  · simp only [h5, if_true]
    constructor
    · intro h; cases h
    · rintro ⟨h, _⟩; simp at h; omega
  · simp only [h5, if_false, Bool.and_eq_true, decide_eq_true_eq, List.all_eq_true]
    by_cases hall : ∀ t ∈ tags, wellFormedTagB env t = true
    · rw [loop_ok env tags {} hall]
      constructor
      · intro h; cases h; exact ⟨⟨by omega, hall⟩, rfl⟩
      · rintro ⟨_, rfl⟩; rfl
    · obtain ⟨e, he⟩ := loop_err env tags {} hall
      rw [he]
      constructor
      · intro h; cases h
      · rintro ⟨⟨_, h⟩, _⟩; exact absurd h hall

theorem parseTags_err_iff (env : Env) (tags : List (List String)) :
    (∃ e, parseTags env tags = .err e) ↔ ¬ WellFormed env tags := by
  constructor
  · rintro ⟨e, he⟩ hw
    have := (parseTags_ok_iff env tags (overlay env tags {})).2 ⟨hw, rfl⟩
    rw [he] at this; cases this
  · intro hw
    cases hp : parseTags env tags with
    | ok t => exact absurd ((parseTags_ok_iff env tags t).1 hp).1 hw
    | err e => exact ⟨e, rfl⟩

/-- the parsed tags carry exactly the condition the declarative reading assigns to the tag list -/
theorem overlay_cond (env : Env) (tags : List (List String)) :
    (overlay env tags {}).nSigs = (condOf env tags).nSigs ∧ (overlay env tags {}).pubkeys = (condOf env tags).pubkeys ∧
    (overlay env tags {}).locktime = (condOf env tags).locktime ∧ (overlay env tags {}).refund = (condOf env tags).refund := by
  simp only [overlay, condOf, intOfTag, keysOfTag]
  refine ⟨?_, ?_, ?_, ?_⟩
  · cases lastTag NSIGS tags <;> simp
  · cases lastTag PUBKEYS tags <;> simp
  · cases lastTag LOCKTIME tags <;> simp
  · cases lastTag REFUND tags <;> simp

theorem parseTags_cond {env : Env} {tags : List (List String)} {t : Tags} (h : parseTags env tags = .ok t) :
    WellFormed env tags ∧ t.nSigs = (condOf env tags).nSigs ∧ t.pubkeys = (condOf env tags).pubkeys ∧
    t.locktime = (condOf env tags).locktime ∧ t.refund = (condOf env tags).refund := by
  obtain ⟨hw, rfl⟩ := (parseTags_ok_iff env tags t).1 h
  exact ⟨hw, overlay_cond env tags⟩

theorem expired_iff {env : Env} {tags : List (List String)} {t : Tags} (h : parseTags env tags = .ok t) :
    expired env t = true ↔ Expired env (condOf env tags) := by
  obtain ⟨_, _, _, hl, _⟩ := parseTags_cond h
  simp [expired, Expired, hl]

theorem hasValidSignatures_one_iff (valid : Sig → Key → Msg → Bool) (m : Msg) (sigs : List Sig) (keys : List Key) :
    hasValidSignatures valid m sigs 1 keys = true ↔ Signed valid m sigs keys 1 := by
  simp only [hasValidSignatures, decide_eq_true_eq, ge_iff_le, one_le_hvsCount_iff, signed_one_iff]

theorem hasValidSignatures_sound (valid : Sig → Key → Msg → Bool) (m : Msg) (sigs : List Sig) (n : Nat) (keys : List Key)
    (h : hasValidSignatures valid m sigs n keys = true) : Signed valid m sigs keys n := by
  simp only [hasValidSignatures, decide_eq_true_eq] at h
  exact signed_mono (hvsCount_signed valid m sigs keys) h

theorem hasValidSignatures_complete (valid : Sig → Key → Msg → Bool) (m : Msg) (sigs : List Sig) (n : Nat) (keys : List Key)
    (hu : UniqueSigner valid m keys) (h : Signed valid m sigs keys n) : hasValidSignatures valid m sigs n keys = true := by
  simp only [hasValidSignatures, decide_eq_true_eq]
  exact signed_le_hvsCount valid m sigs keys n hu h

/-- the keys that may sign before the locktime -/
def lockKeys (env : Env) (s : Secret) : List Key := (env.parseKey s.data).toList ++ (condOf env s.tags).pubkeys

theorem verifyP2PK_sound (env : Env) (p : Proof) (s : Secret) (h : verifyP2PK env p s = .ok ()) :
    spendableP2PK env s p.msg p.witness := by
  unfold verifyP2PK at h
  cases hp : parseTags env s.tags with
  | err e => simp [hp] at h
  | ok t =>
    obtain ⟨hw, hn, hpk, hl, hr⟩ := parseTags_cond hp
    simp only [hp] at h
    refine ⟨hw, ?_⟩
    by_cases hx : expired env t = true
    · have hX := (expired_iff hp).1 hx
      simp only [hx, if_true] at h
      simp only [hX, if_true]
      by_cases hr0 : t.refund.length = 0
      · left; rw [← hr]; exact List.length_eq_zero_iff.1 hr0
      · right
        by_cases hlen : p.witness.signatures.length < 1
        · simp [hr0, hlen] at h
        · by_cases hv : hasValidSignatures env.valid p.msg p.witness.signatures 1 t.refund = true
          · rw [← hr]; exact (hasValidSignatures_one_iff _ _ _ _).1 hv
          · simp [hr0, hlen, hv] at h
    · have hX : ¬ Expired env (condOf env s.tags) := fun hX => hx ((expired_iff hp).2 hX)
      simp only [hx] at h
      simp only [hX, if_false]
      cases hk : env.parseKey s.data with
      | none => simp [hk] at h
      | some k =>
        simp only [hk] at h
        refine ⟨k, rfl, ?_⟩
        by_cases he : t.nSigs > 0 ∧ t.pubkeys.length = 0
        · rw [if_pos he] at h; cases h
        · rw [if_neg he] at h
          by_cases hlen : p.witness.signatures.length < 1
          · simp only [hlen, if_true] at h; cases h
          · by_cases hd : duplicateSignatures p.witness.signatures = true
            · simp only [hlen, hd, if_true, if_false] at h; cases h
            · by_cases hv : hasValidSignatures env.valid p.msg p.witness.signatures (if t.nSigs > 0 then t.nSigs else 1)
                  (if t.nSigs > 0 then k :: t.pubkeys else [k]) = true
              · rw [← hn, ← hpk]
                refine ⟨?_, (duplicateSignatures_iff _).1 (by simpa using hd), ?_⟩
                · intro hpos hnil
                  exact he ⟨hpos, by simp [hnil]⟩
                · have := hasValidSignatures_sound _ _ _ _ _ hv
                  by_cases hpos : t.nSigs > 0
                  · simp only [hpos, if_true] at this ⊢
                    rwa [Nat.max_eq_right (by omega)]
                  · simp only [hpos, if_false] at this ⊢
                    rwa [Nat.max_eq_left (by omega)]
              · simp only [hlen, hd, hv, if_false, Bool.not_false, if_true, Bool.false_eq_true] at h; cases h


theorem verifyP2PK_complete (env : Env) (p : Proof) (s : Secret) (hu : UniqueSigner env.valid p.msg (lockKeys env s))
    (h : spendableP2PK env s p.msg p.witness) : verifyP2PK env p s = .ok () := by
  obtain ⟨hw, h⟩ := h
  have hp := (parseTags_ok_iff env s.tags _).2 ⟨hw, rfl⟩
  obtain ⟨_, hn, hpk, hl, hr⟩ := parseTags_cond hp
  generalize overlay env s.tags {} = t at hp hn hpk hl hr
  unfold verifyP2PK
  simp only [hp]
  by_cases hX : Expired env (condOf env s.tags)
  · have hx := (expired_iff hp).2 hX
    simp only [hX, if_true] at h
    simp only [hx, if_true]
    by_cases hr0 : t.refund.length = 0
    · rw [if_pos hr0]
    · rw [if_neg hr0]
      rcases h with h | h
      · exact absurd (by rw [hr, h]; rfl) hr0
      · rw [← hr] at h
        have hlen : ¬ p.witness.signatures.length < 1 := by have := (signed_le h).1; omega
        rw [if_neg hlen, (hasValidSignatures_one_iff _ _ _ _).2 h]
        rfl
  · have hx : ¬ expired env t = true := fun hx => hX ((expired_iff hp).1 hx)
    simp only [hX, if_false] at h
    obtain ⟨k, hk, hne, hnd, hs⟩ := h
    rw [← hn, ← hpk] at hne hs
    simp only [hx, hk]
    have he : ¬ (t.nSigs > 0 ∧ t.pubkeys.length = 0) := by
      rintro ⟨h1, h2⟩; exact hne h1 (List.length_eq_zero_iff.1 h2)
    rw [if_neg he]
    have hreq : (if t.nSigs > 0 then t.nSigs else 1) = max 1 t.nSigs := by
      split <;> omega
    have hkeys : (if t.nSigs > 0 then k :: t.pubkeys else [k]) = k :: (if t.nSigs > 0 then t.pubkeys else []) := by
      split <;> rfl
    have hlen : ¬ p.witness.signatures.length < 1 := by have := (signed_le hs).1; omega
    have hd : duplicateSignatures p.witness.signatures = false := (duplicateSignatures_iff _).2 hnd
    have huk : UniqueSigner env.valid p.msg (k :: (if t.nSigs > 0 then t.pubkeys else [])) := by
      apply hu.mono
      intro x hx
      simp only [lockKeys, hk, Option.toList_some, List.singleton_append, ← hpk]
      rcases List.mem_cons.1 hx with rfl | hx
      · simp
      · split at hx
        · exact List.mem_cons_of_mem _ hx
        · simp at hx
    have hv := hasValidSignatures_complete _ _ _ _ _ huk hs
    simp only [hlen, hd, hreq, hkeys, hv, if_false, Bool.not_true, Bool.false_eq_true]

theorem verifyHTLC_sound (env : Env) (p : Proof) (s : Secret) (h : verifyHTLC env p s = .ok ()) :
    spendableHTLC env s p.msg p.witness := by
  unfold verifyHTLC at h
  cases hp : parseTags env s.tags with
  | err e => simp [hp] at h
  | ok t =>
    obtain ⟨hw, hn, hpk, hl, hr⟩ := parseTags_cond hp
    simp only [hp] at h
    refine ⟨hw, ?_⟩
    by_cases hx : expired env t = true
    · have hX := (expired_iff hp).1 hx
      simp only [hx, if_true] at h
      simp only [hX, if_true]
      by_cases hr0 : t.refund.length = 0
      · left; rw [← hr]; exact List.length_eq_zero_iff.1 hr0
      · right
        rw [if_neg hr0] at h
        by_cases hlen : p.witness.signatures.length < 1
        · rw [if_pos hlen] at h; cases h
        · by_cases hv : hasValidSignatures env.valid p.msg p.witness.signatures 1 t.refund = true
          · rw [← hr]; exact (hasValidSignatures_one_iff _ _ _ _).1 hv
          · simp only [hlen, hv, if_false, Bool.not_false, if_true, Bool.false_eq_true] at h; cases h
    · have hX : ¬ Expired env (condOf env s.tags) := fun hX => hx ((expired_iff hp).2 hX)
      simp only [hx] at h
      simp only [hX, if_false]
      cases hc : checkPreimage env p.witness.preimage s.data with
      | err e => simp [hc] at h
      | ok u =>
        simp only [hc] at h
        constructor
        · -- the preimage opens the lock
          unfold checkPreimage at hc
          cases hd : hexDecode p.witness.preimage with
          | none => simp [hd] at hc
          | some bytes =>
            simp only [hd] at hc
            by_cases h64 : s.data.utf8ByteSize ≠ 64
            · rw [if_pos h64] at hc; cases hc
            · rw [if_neg h64] at hc
              by_cases hh : env.sha256hex bytes ≠ s.data
              · rw [if_pos hh] at hc; cases hc
              · exact ⟨by simpa using h64, bytes, hd, by simpa using hh⟩
        · intro hpos
          rw [← hn] at hpos
          simp only [hpos, if_true] at h
          by_cases hlen : p.witness.signatures.length < 1
          · simp only [hlen, if_true] at h; cases h
          · by_cases hd : duplicateSignatures p.witness.signatures = true
            · simp only [hlen, hd, if_true, if_false] at h; cases h
            · by_cases hv : hasValidSignatures env.valid p.msg p.witness.signatures t.nSigs t.pubkeys = true
              · rw [← hn, ← hpk]
                exact ⟨(duplicateSignatures_iff _).1 (by simpa using hd), hasValidSignatures_sound _ _ _ _ _ hv⟩
              · simp only [hlen, hd, hv, if_false, Bool.not_false, if_true, Bool.false_eq_true] at h; cases h

theorem checkPreimage_of_opens {env : Env} {pre data : String} (h : Opens env pre data) : checkPreimage env pre data = .ok () := by
  obtain ⟨h64, bytes, hd, hh⟩ := h
  unfold checkPreimage
  simp [hd, h64, hh]

theorem verifyHTLC_complete (env : Env) (p : Proof) (s : Secret)
    (hu : UniqueSigner env.valid p.msg (condOf env s.tags).pubkeys)
    (h : spendableHTLC env s p.msg p.witness) : verifyHTLC env p s = .ok () := by
  obtain ⟨hw, h⟩ := h
  have hp := (parseTags_ok_iff env s.tags _).2 ⟨hw, rfl⟩
  obtain ⟨_, hn, hpk, hl, hr⟩ := parseTags_cond hp
  generalize overlay env s.tags {} = t at hp hn hpk hl hr
  unfold verifyHTLC
  simp only [hp]
  by_cases hX : Expired env (condOf env s.tags)
  · have hx := (expired_iff hp).2 hX
    simp only [hX, if_true] at h
    simp only [hx, if_true]
    by_cases hr0 : t.refund.length = 0
    · rw [if_pos hr0]
    · rw [if_neg hr0]
      rcases h with h | h
      · exact absurd (by rw [hr, h]; rfl) hr0
      · rw [← hr] at h
        have hlen : ¬ p.witness.signatures.length < 1 := by have := (signed_le h).1; omega
        rw [if_neg hlen, (hasValidSignatures_one_iff _ _ _ _).2 h]
        rfl
  · have hx : ¬ expired env t = true := fun hx => hX ((expired_iff hp).1 hx)
    simp only [hX, if_false] at h
    obtain ⟨hopen, hs⟩ := h
    simp only [hx, checkPreimage_of_opens hopen, Bool.false_eq_true, if_false]
    by_cases hpos : t.nSigs > 0
    · rw [if_pos hpos]
      obtain ⟨hnd, hs⟩ := hs (by rw [← hn]; exact hpos)
      rw [← hn, ← hpk] at hs
      have hlen : ¬ p.witness.signatures.length < 1 := by have := (signed_le hs).1; omega
      have hd : duplicateSignatures p.witness.signatures = false := (duplicateSignatures_iff _).2 hnd
      have hv := hasValidSignatures_complete _ _ _ _ _ (by rw [hpk]; exact hu) hs
      simp only [hlen, hd, hv, if_false, Bool.not_true, Bool.false_eq_true]
    · rw [if_neg hpos]

/-! ## SIG_ALL: ProofsSigAll, verifyBlindedMessages; the signing helpers -/

theorem opens_of_checkPreimage {env : Env} {pre data : String} (hc : checkPreimage env pre data = .ok ()) : Opens env pre data := by
  unfold checkPreimage at hc
  cases hd : hexDecode pre with
  | none => simp [hd] at hc
  | some bytes =>
    simp only [hd] at hc
    by_cases h64 : data.utf8ByteSize ≠ 64
    · rw [if_pos h64] at hc; cases hc
    · rw [if_neg h64] at hc
      by_cases hh : env.sha256hex bytes ≠ data
      · rw [if_pos hh] at hc; cases hc
      · exact ⟨by simpa using h64, bytes, hd, by simpa using hh⟩

/-- ProofsSigAll (repaired): true exactly when SOME input — at any position — carries SIG_ALL. -/
theorem proofsSigAll_iff : ∀ (proofs : List Proof), proofsSigAll proofs = true ↔ ∃ p ∈ proofs, CarriesSigAll p := by
  intro proofs
  refine ⟨proofsSigAll_sound proofs, ?_⟩
  induction proofs with
  | nil => simp
  | cons p rest ih =>
    rintro ⟨q, hq, s', hs', ha'⟩
    unfold proofsSigAll
    cases hs : p.secret with
    | none =>
      simp only [sigAllOnPlainSecret]
      rcases List.mem_cons.1 hq with rfl | hq
      · rw [hs] at hs'; cases hs'
      · exact ih ⟨q, hq, s', hs', ha'⟩
    | some s =>
      simp only
      by_cases ha : isSigAll s = true
      · simp [ha]
      · simp only [ha, Bool.false_eq_true, if_false]
        rcases List.mem_cons.1 hq with rfl | hq
        · rw [hs] at hs'; cases hs'; exact absurd ha' ha
        · exact ih ⟨q, hq, s', hs', ha'⟩

/-- one input satisfies the SIG_ALL consistency demanded by verifyBlindedMessages -/
def SameCondition (env : Env) (keys : List Key) (n : Nat) (q : Proof) : Prop :=
  ∃ sq t, q.secret = some sq ∧ isSigAll sq = true ∧ parseTags env sq.tags = .ok t ∧
    publicKeys env sq = .ok keys ∧ sigsRequired t = n

theorem sameConditions_ok (env : Env) (keys : List Key) (n : Nat) :
    ∀ (proofs : List Proof), sameConditions env keys n proofs = .ok () ↔ ∀ q ∈ proofs, SameCondition env keys n q := by
  intro proofs
  induction proofs with
  | nil => simp [sameConditions]
  | cons p rest ih =>
    unfold sameConditions
    simp only [List.mem_cons, forall_eq_or_imp, ← ih]
    cases hs : p.secret with
    | none => simp [SameCondition, hs]
    | some s =>
      simp only [SameCondition, hs, Option.some.injEq, exists_and_left, exists_eq_left']
      by_cases ha : isSigAll s = true
      · simp only [ha, Bool.not_true, Bool.false_eq_true, if_false, true_and]
        cases hp : parseTags env s.tags with
        | err e => simp
        | ok t =>
          simp only [Res.ok.injEq, exists_eq_left']
          cases hk : publicKeys env s with
          | err e => simp
          | ok cur =>
            simp only [Res.ok.injEq]
            by_cases hkeys : keys ≠ cur
            · rw [if_pos hkeys]
              constructor
              · intro h; cases h
              · rintro ⟨⟨h, _⟩, _⟩; exact absurd h.symm hkeys
            · rw [if_neg hkeys]
              have hkeys' : cur = keys := by simpa [eq_comm] using hkeys
              by_cases hn : n ≠ sigsRequired t
              · rw [if_pos hn]
                constructor
                · intro h; cases h
                · rintro ⟨⟨_, h⟩, _⟩; exact absurd h.symm hn
              · rw [if_neg hn]
                have hn' : sigsRequired t = n := by simpa [eq_comm] using hn
                simp [hkeys', hn']
      · simp [ha]

/-- one output carries what SIG_ALL demands -/
def OutputSigned (env : Env) (s0 : Secret) (keys : List Key) (n : Nat) (o : Output) : Prop :=
  (s0.kind = .p2pk ∨ s0.kind = .htlc) ∧ o.witness.jsonOk = true ∧
  (s0.kind = .htlc → Opens env o.witness.preimage s0.data) ∧
  ∃ m, o.msgDecoded = some m ∧ o.witness.signatures.Nodup ∧ Signed env.valid m o.witness.signatures keys n

theorem checkOutput_sound {env : Env} {s0 : Secret} {keys : List Key} {n : Nat} {o : Output}
    (h : checkOutput env s0 keys n o = .ok ()) : OutputSigned env s0 keys n o := by
  unfold checkOutput at h
  cases hm : o.msgDecoded with
  | none => simp [hm] at h
  | some m =>
    simp only [hm] at h
    have key : ∀ sigs, (if duplicateSignatures sigs = true then Res.err Err.duplicateSignatures
        else if (!hasValidSignatures env.valid m sigs n keys) = true then Res.err Err.notEnoughSignatures else Res.ok ()) = Res.ok () →
        sigs.Nodup ∧ Signed env.valid m sigs keys n := by
      intro sigs h
      by_cases hd : duplicateSignatures sigs = true
      · rw [if_pos hd] at h; cases h
      · rw [if_neg hd] at h
        by_cases hv : hasValidSignatures env.valid m sigs n keys = true
        · exact ⟨(duplicateSignatures_iff _).1 (by simpa using hd), hasValidSignatures_sound _ _ _ _ _ hv⟩
        · simp [hv] at h
    cases hk : s0.kind with
    | anyone => simp [hk] at h
    | p2pk =>
      simp only [hk] at h
      by_cases hj : o.witness.jsonOk = true
      · simp only [hj, Bool.not_true, Bool.false_eq_true, if_false] at h
        refine ⟨Or.inl hk, hj, ?_, m, hm, key _ h⟩
        intro hh; rw [hk] at hh; cases hh
      · simp [hj] at h
    | htlc =>
      simp only [hk] at h
      by_cases hj : o.witness.jsonOk = true
      · simp only [hj, Bool.not_true, Bool.false_eq_true, if_false] at h
        cases hc : checkPreimage env o.witness.preimage s0.data with
        | err e => simp [hc] at h
        | ok u =>
          simp only [hc] at h
          exact ⟨Or.inr hk, hj, fun _ => opens_of_checkPreimage hc, m, hm, key _ h⟩
      · simp [hj] at h

theorem checkOutputs_sound {env : Env} {s0 : Secret} {keys : List Key} {n : Nat} :
    ∀ {outs : List Output}, checkOutputs env s0 keys n outs = .ok () → ∀ o ∈ outs, OutputSigned env s0 keys n o
  | [], _ => by simp
  | o :: rest, h => by
    unfold checkOutputs at h
    cases ho : checkOutput env s0 keys n o with
    | err e => simp [ho] at h
    | ok u =>
      simp only [ho] at h
      intro x hx
      rcases List.mem_cons.1 hx with rfl | hx
      · exact checkOutput_sound ho
      · exact checkOutputs_sound h x hx

/-- What a successful SIG_ALL output check establishes: one key list and threshold shared by EVERY input, every input
    a NUT-10 secret with SIG_ALL, every output signed by `n` distinct positions of that key list over its decoded `B_`
    (and carrying the preimage when the first input is an HTLC). -/
def SigAllOK (env : Env) (proofs : List Proof) (outs : List Output) : Prop :=
  ∃ (s0 : Secret) (keys : List Key) (n : Nat),
    (∃ p0 rest, proofs = p0 :: rest ∧ p0.secret = some s0) ∧
    (∀ q ∈ proofs, SameCondition env keys n q) ∧
    (∀ o ∈ outs, OutputSigned env s0 keys n o)

theorem verifyBlindedMessages_sound {env : Env} {proofs : List Proof} {outs : List Output}
    (h : verifyBlindedMessages env proofs outs = .ok ()) : SigAllOK env proofs outs := by
  unfold verifyBlindedMessages at h
  match proofs, h with
  | [], h => simp at h
  | p0 :: rest, h =>
    simp only at h
    cases hs : p0.secret with
    | none => simp [hs] at h
    | some s0 =>
      simp only [hs] at h
      cases hk : publicKeys env s0 with
      | err e => simp [hk] at h
      | ok keys =>
        simp only [hk] at h
        cases hp : parseTags env s0.tags with
        | err e => simp [hp] at h
        | ok t0 =>
          simp only [hp] at h
          cases hc : sameConditions env keys (sigsRequired t0) (p0 :: rest) with
          | err e => simp [hc] at h
          | ok u =>
            simp only [hc] at h
            exact ⟨s0, keys, sigsRequired t0, ⟨p0, rest, rfl, hs⟩, (sameConditions_ok env keys _ _).1 hc, checkOutputs_sound h⟩


theorem hvs_single {valid : Sig → Key → Msg → Bool} {m : Msg} {s : Sig} {k : Key} {keys : List Key}
    (hk : k ∈ keys) (hv : valid s k m = true) : hasValidSignatures valid m [s] 1 keys = true := by
  simp only [hasValidSignatures, decide_eq_true_eq, ge_iff_le, one_le_hvsCount_iff]
  exact ⟨s, by simp, k, hk, hv⟩

/-- the holder of key `k` is entitled to spend a P2PK secret alone at the current time -/
def CanSignP2PK (env : Env) (k : Key) (s : Secret) : Prop :=
  ∃ t, parseTags env s.tags = .ok t ∧
    (if expired env t = true then t.refund = [] ∨ k ∈ t.refund
     else t.nSigs ≤ 1 ∧ (t.nSigs > 0 → t.pubkeys ≠ []) ∧
       ∃ k0, env.parseKey s.data = some k0 ∧ (k = k0 ∨ (t.nSigs > 0 ∧ k ∈ t.pubkeys)))

theorem verifyP2PK_helper (env : Env) (sign : Key → Msg → Sig) (hsign : ∀ k m, env.valid (sign k m) k m = true)
    (k : Key) (p : Proof) (s : Secret) (h : CanSignP2PK env k s) :
    verifyP2PK env { p with witness := { jsonOk := true, signatures := [sign k p.msg], preimage := "" } } s = .ok () := by
  obtain ⟨t, hp, h⟩ := h
  unfold verifyP2PK
  simp only [hp]
  by_cases hx : expired env t = true
  · simp only [hx, if_true] at h ⊢
    by_cases hr0 : t.refund.length = 0
    · rw [if_pos hr0]
    · rw [if_neg hr0]
      rcases h with h | h
      · exact absurd (by rw [h]; rfl) hr0
      · simp [hvs_single h (hsign k p.msg)]
  · simp only [hx, if_false] at h ⊢
    obtain ⟨hn, hne, k0, hk0, hk⟩ := h
    simp only [hk0]
    have he : ¬ (t.nSigs > 0 ∧ t.pubkeys.length = 0) := by
      rintro ⟨h1, h2⟩; exact hne h1 (List.length_eq_zero_iff.1 h2)
    rw [if_neg he]
    have hreq : (if t.nSigs > 0 then t.nSigs else 1) = 1 := by split <;> omega
    have hmem : k ∈ (if t.nSigs > 0 then k0 :: t.pubkeys else [k0]) := by
      rcases hk with rfl | ⟨hpos, hk⟩
      · split <;> simp
      · simp [hpos, hk]
    simp [hreq, hvs_single hmem (hsign k p.msg), duplicateSignatures]

/-- helpers_accepted, inputs: what AddSignatureToInputs writes is accepted by verifyProofs, whenever the signing key is
    entitled to spend each P2PK input alone (and no input is an HTLC, which needs a preimage). -/
theorem addSignatureToInputs_accepted (env : Env) (sign : Key → Msg → Sig) (hsign : ∀ k m, env.valid (sign k m) k m = true)
    (k : Key) : ∀ (proofs : List Proof),
    (∀ p ∈ proofs, ∀ s, p.secret = some s → s.kind ≠ .htlc ∧ (s.kind = .p2pk → CanSignP2PK env k s)) →
    verifyProofs env (addSignatureToInputs sign k proofs) = .ok ()
  | [], _ => rfl
  | p :: rest, h => by
    have ih := addSignatureToInputs_accepted env sign hsign k rest (fun q hq => h q (by simp [hq]))
    unfold addSignatureToInputs at ih ⊢
    simp only [List.map_cons, verifyProofs]
    have hp := h p (by simp)
    have : verifySpendCond env { p with witness := { jsonOk := true, signatures := [sign k p.msg], preimage := "" } } = .ok () := by
      unfold verifySpendCond
      cases hs : p.secret with
      | none => rfl
      | some s =>
        simp only
        obtain ⟨hnh, hc⟩ := hp s hs
        cases hk : s.kind with
        | anyone => rfl
        | htlc => exact absurd hk hnh
        | p2pk => exact verifyP2PK_helper env sign hsign k p s (hc hk)
    simp only [this, ih]

theorem checkOutputs_p2pk_helper (env : Env) (sign : Key → Msg → Sig) (hsign : ∀ k m, env.valid (sign k m) k m = true)
    (k : Key) (s0 : Secret) (keys : List Key) (hkind : s0.kind = .p2pk) (hk : k ∈ keys) :
    ∀ (outs outs' : List Output), addSignatureToOutputs sign k outs = .ok outs' → checkOutputs env s0 keys 1 outs' = .ok ()
  | [], outs', h => by simp [addSignatureToOutputs] at h; subst h; rfl
  | o :: rest, outs', h => by
    unfold addSignatureToOutputs at h
    cases hm : o.msgDecoded with
    | none => simp [hm] at h
    | some m =>
      simp only [hm] at h
      cases hr : addSignatureToOutputs sign k rest with
      | err e => simp [hr] at h
      | ok os =>
        simp only [hr, Res.ok.injEq] at h
        subst h
        have ih := checkOutputs_p2pk_helper env sign hsign k s0 keys hkind hk rest os hr
        unfold checkOutputs
        have : checkOutput env s0 keys 1 { o with witness := { jsonOk := true, signatures := [sign k m], preimage := "" } } = .ok () := by
          unfold checkOutput
          simp [hm, hkind, duplicateSignatures, hvs_single hk (hsign k m)]
        rw [hm] at this
        simp only [this, ih]

/-- the inputs share one SIG_ALL condition (key list `keys`, threshold `n`), read off the first input's secret `s0` -/
def SharedCondition (env : Env) (proofs : List Proof) (s0 : Secret) (keys : List Key) (n : Nat) : Prop :=
  (∃ p0 rest, proofs = p0 :: rest ∧ p0.secret = some s0) ∧
  publicKeys env s0 = .ok keys ∧ (∃ t0, parseTags env s0.tags = .ok t0 ∧ sigsRequired t0 = n) ∧
  ∀ q ∈ proofs, SameCondition env keys n q

theorem verifyBlindedMessages_of_shared {env : Env} {proofs : List Proof} {outs : List Output} {s0 : Secret}
    {keys : List Key} {n : Nat} (h : SharedCondition env proofs s0 keys n) :
    verifyBlindedMessages env proofs outs = checkOutputs env s0 keys n outs := by
  obtain ⟨⟨p0, rest, rfl, hs⟩, hk, ⟨t0, hp, hn⟩, hall⟩ := h
  unfold verifyBlindedMessages
  simp only [hs, hk, hp, hn, (sameConditions_ok env keys n _).2 hall]

/-- helpers_accepted, outputs: with SIG_ALL P2PK inputs sharing one condition of threshold 1, what AddSignatureToOutputs
    writes with a listed key passes verifyBlindedMessages. -/
theorem addSignatureToOutputs_accepted (env : Env) (sign : Key → Msg → Sig) (hsign : ∀ k m, env.valid (sign k m) k m = true)
    (k : Key) (proofs : List Proof) (s0 : Secret) (keys : List Key) (hshared : SharedCondition env proofs s0 keys 1)
    (hkind : s0.kind = .p2pk) (hk : k ∈ keys) (outs outs' : List Output) (h : addSignatureToOutputs sign k outs = .ok outs') :
    verifyBlindedMessages env proofs outs' = .ok () := by
  rw [verifyBlindedMessages_of_shared hshared]
  exact checkOutputs_p2pk_helper env sign hsign k s0 keys hkind hk outs outs' h

/-! ### HTLC helpers -/

theorem verifyHTLC_helper (env : Env) (sign : Key → Msg → Sig) (hsign : ∀ k m, env.valid (sign k m) k m = true)
    (k : Key) (s : Secret) (pre : String) (t : Tags) (hp : parseTags env s.tags = .ok t)
    (hn : ¬ t.nSigs > 1) (hk : ¬ (t.nSigs > 0 ∧ (!t.pubkeys.contains k) = true))
    (hopen : Opens env pre s.data) (hx : expired env t = true → t.refund = []) (p : Proof) :
    verifyHTLC env { p with witness := { jsonOk := true, signatures := if decide (t.nSigs > 0) = true then [sign k p.msg] else [], preimage := pre } } s = .ok () := by
  unfold verifyHTLC
  simp only [hp]
  by_cases hxx : expired env t = true
  · simp [hxx, hx hxx]
  · simp only [hxx, Bool.false_eq_true, if_false, checkPreimage_of_opens hopen]
    by_cases hpos : t.nSigs > 0
    · have hmem : k ∈ t.pubkeys := by
        have : ¬ ((!t.pubkeys.contains k) = true) := fun h => hk ⟨hpos, h⟩
        simpa using this
      have h1 : t.nSigs = 1 := by omega
      simp [hpos, h1, duplicateSignatures, hvs_single hmem (hsign k p.msg)]
    · simp [hpos]

/-- htlc_helpers_accepted, inputs: whenever AddWitnessHTLC itself succeeds, the preimage is the right one, and the lock
    has not expired into a refund-only state, every input it writes passes VerifyHTLCProof. -/
theorem addWitnessHTLC_accepted (env : Env) (sign : Key → Msg → Sig) (hsign : ∀ k m, env.valid (sign k m) k m = true)
    (k : Key) (s : Secret) (pre : String) (hkind : s.kind = .htlc) (proofs proofs' : List Proof)
    (hsec : ∀ p ∈ proofs, p.secret = some s)
    (hopen : Opens env pre s.data)
    (hx : ∀ t, parseTags env s.tags = .ok t → expired env t = true → t.refund = [])
    (h : addWitnessHTLC env sign proofs s pre k = .ok proofs') : verifyProofs env proofs' = .ok () := by
  unfold addWitnessHTLC at h
  cases hp : parseTags env s.tags with
  | err e => simp [hp] at h
  | ok t =>
    simp only [hp] at h
    by_cases hn : t.nSigs > 1
    · rw [if_pos hn] at h; cases h
    · rw [if_neg hn] at h
      by_cases hk : t.nSigs > 0 ∧ (!t.pubkeys.contains k) = true
      · rw [if_pos hk] at h; cases h
      · rw [if_neg hk] at h
        simp only [Res.ok.injEq] at h
        subst h
        induction proofs with
        | nil => rfl
        | cons p rest ih =>
          simp only [List.map_cons, verifyProofs]
          have hs := hsec p (by simp)
          have : verifySpendCond env { p with witness := { jsonOk := true, signatures := if decide (t.nSigs > 0) = true then [sign k p.msg] else [], preimage := pre } } = .ok () := by
            unfold verifySpendCond
            simp only [hs, hkind]
            exact verifyHTLC_helper env sign hsign k s pre t hp hn hk hopen (hx t hp) p
          simp only [this]
          exact ih (fun q hq => hsec q (by simp [hq]))

theorem checkOutputs_htlc_helper (env : Env) (sign : Key → Msg → Sig) (hsign : ∀ k m, env.valid (sign k m) k m = true)
    (k : Key) (s0 : Secret) (keys : List Key) (pre : String) (hkind : s0.kind = .htlc) (hk : k ∈ keys)
    (hopen : Opens env pre s0.data) :
    ∀ (outs outs' : List Output), addWitnessHTLCToOutputs sign pre k outs = .ok outs' → checkOutputs env s0 keys 1 outs' = .ok ()
  | [], outs', h => by simp [addWitnessHTLCToOutputs] at h; subst h; rfl
  | o :: rest, outs', h => by
    unfold addWitnessHTLCToOutputs at h
    simp only [htlcOutputMsg] at h
    cases hm : o.msgDecoded with
    | none => simp [hm] at h
    | some m =>
      simp only [hm] at h
      cases hr : addWitnessHTLCToOutputs sign pre k rest with
      | err e => simp [hr] at h
      | ok os =>
        simp only [hr, Res.ok.injEq] at h
        subst h
        have ih := checkOutputs_htlc_helper env sign hsign k s0 keys pre hkind hk hopen rest os hr
        unfold checkOutputs
        have : checkOutput env s0 keys 1 { o with witness := { jsonOk := true, signatures := [sign k m], preimage := pre } } = .ok () := by
          unfold checkOutput
          simp [hm, hkind, duplicateSignatures, hvs_single hk (hsign k m), checkPreimage_of_opens hopen]
        rw [hm] at this
        simp only [this, ih]

/-- htlc_helpers_accepted, outputs -/
theorem addWitnessHTLCToOutputs_accepted (env : Env) (sign : Key → Msg → Sig) (hsign : ∀ k m, env.valid (sign k m) k m = true)
    (k : Key) (proofs : List Proof) (s0 : Secret) (keys : List Key) (pre : String)
    (hshared : SharedCondition env proofs s0 keys 1) (hkind : s0.kind = .htlc) (hk : k ∈ keys) (hopen : Opens env pre s0.data)
    (outs outs' : List Output) (h : addWitnessHTLCToOutputs sign pre k outs = .ok outs') :
    verifyBlindedMessages env proofs outs' = .ok () := by
  rw [verifyBlindedMessages_of_shared hshared]
  exact checkOutputs_htlc_helper env sign hsign k s0 keys pre hkind hk hopen outs outs' h

/-! ## the threshold as an explicit injective assignment of positions -/

theorem assigned_zero (valid : Sig → Key → Msg → Bool) (m : Msg) (sigs : List Sig) (keys : List Key) :
    Assigned valid m sigs keys 0 := ⟨[], rfl, List.Pairwise.nil, by simp⟩

theorem assigned_skip {valid : Sig → Key → Msg → Bool} {m : Msg} {s : Sig} {rest : List Sig} {keys : List Key} {n : Nat}
    (h : Assigned valid m rest keys n) : Assigned valid m (s :: rest) keys n := by
  obtain ⟨pairs, hl, hp, hv⟩ := h
  refine ⟨pairs.map (fun p => (p.1 + 1, p.2)), by simp [hl], ?_, ?_⟩
  · exact hp.map _ (fun a b ⟨h1, h2⟩ => ⟨by simp; exact h1, h2⟩)
  · intro p hp'
    obtain ⟨q, hq, rfl⟩ := List.mem_map.1 hp'
    simpa using hv q hq

/-- position in `keys` of position `x` of `keys.eraseIdx j` -/
def liftIdx (j x : Nat) : Nat := if x < j then x else x + 1

theorem getElem?_liftIdx (keys : List Key) (j x : Nat) : keys[liftIdx j x]? = (keys.eraseIdx j)[x]? := by
  rw [List.getElem?_eraseIdx]; unfold liftIdx; split <;> rfl

theorem assigned_take {valid : Sig → Key → Msg → Bool} {m : Msg} {s : Sig} {rest : List Sig} {keys : List Key} {n j : Nat} {k : Key}
    (hj : keys[j]? = some k) (hvk : valid s k m = true) (h : Assigned valid m rest (keys.eraseIdx j) n) :
    Assigned valid m (s :: rest) keys (n + 1) := by
  obtain ⟨pairs, hl, hp, hv⟩ := h
  refine ⟨(0, j) :: pairs.map (fun p => (p.1 + 1, liftIdx j p.2)), by simp [hl], ?_, ?_⟩
  · rw [List.pairwise_cons]
    constructor
    · intro a ha
      obtain ⟨q, _, rfl⟩ := List.mem_map.1 ha
      refine ⟨by simp, ?_⟩
      simp only [liftIdx]; split <;> omega
    · refine hp.map _ (fun a b ⟨h1, h2⟩ => ⟨by simp; exact h1, ?_⟩)
      simp only [liftIdx]; split <;> split <;> omega
  · intro p hp'
    rcases List.mem_cons.1 hp' with rfl | hp'
    · exact ⟨s, k, by simp, hj, hvk⟩
    · obtain ⟨q, hq, rfl⟩ := List.mem_map.1 hp'
      obtain ⟨s', k', h1, h2, h3⟩ := hv q hq
      exact ⟨s', k', by simpa using h1, by rw [getElem?_liftIdx]; exact h2, h3⟩

/-- position in `keys.eraseIdx j` of position `x ≠ j` of `keys` -/
def unliftIdx (j x : Nat) : Nat := if x < j then x else x - 1

theorem getElem?_unliftIdx (keys : List Key) (j x : Nat) (hx : x ≠ j) : (keys.eraseIdx j)[unliftIdx j x]? = keys[x]? := by
  rw [List.getElem?_eraseIdx]; unfold unliftIdx
  by_cases h : x < j
  · simp [h]
  · have : ¬ (x - 1 < j) := by omega
    simp only [h, this, if_false]
    congr 1; omega

theorem assigned_cons_cases {valid : Sig → Key → Msg → Bool} {m : Msg} {s : Sig} {rest : List Sig} {keys : List Key} {n : Nat}
    (h : Assigned valid m (s :: rest) keys (n + 1)) :
    Assigned valid m rest keys (n + 1) ∨
      ∃ j k, keys[j]? = some k ∧ valid s k m = true ∧ Assigned valid m rest (keys.eraseIdx j) n := by
  obtain ⟨pairs, hl, hp, hv⟩ := h
  by_cases h0 : ∃ p ∈ pairs, p.1 = 0
  · right
    obtain ⟨p, hpm, hp0⟩ := h0
    obtain ⟨l1, l2, rfl⟩ := List.append_of_mem hpm
    obtain ⟨s', k, hs', hk, hvk⟩ := hv p (by simp)
    rw [hp0] at hs'
    simp only [List.getElem?_cons_zero, Option.some.injEq] at hs'
    subst hs'
    rw [List.pairwise_append, List.pairwise_cons] at hp
    obtain ⟨hp1, ⟨hp2a, hp2⟩, hp12⟩ := hp
    have hother : ∀ q ∈ l1 ++ l2, q.1 ≠ 0 ∧ q.2 ≠ p.2 := by
      intro q hq
      rcases List.mem_append.1 hq with hq | hq
      · have := hp12 q hq p (by simp); rw [hp0] at this; exact this
      · have := hp2a q hq; rw [hp0] at this; exact ⟨fun e => this.1 e.symm, fun e => this.2 e.symm⟩
    have hpw : (l1 ++ l2).Pairwise (fun a b => a.1 ≠ b.1 ∧ a.2 ≠ b.2) := by
      rw [List.pairwise_append]
      exact ⟨hp1, hp2, fun a ha b hb => hp12 a ha b (by simp [hb])⟩
    refine ⟨p.2, k, hk, hvk, (l1 ++ l2).map (fun q => (q.1 - 1, unliftIdx p.2 q.2)), ?_, ?_, ?_⟩
    · simp at hl ⊢; omega
    · rw [List.pairwise_map]
      refine hpw.imp_of_mem ?_
      intro a b ha hb ⟨h1, h2⟩
      have ha' := hother a ha
      have hb' := hother b hb
      refine ⟨by simp; omega, ?_⟩
      simp only [unliftIdx]; split <;> split <;> omega
    · intro q hq
      obtain ⟨q', hq', rfl⟩ := List.mem_map.1 hq
      obtain ⟨s'', k'', h1, h2, h3⟩ := hv q' (by
        rcases List.mem_append.1 hq' with h | h
        · simp [h]
        · simp [h])
      have hq0 := hother q' hq'
      refine ⟨s'', k'', ?_, ?_, h3⟩
      · have : q'.1 = (q'.1 - 1) + 1 := by omega
        rw [this] at h1
        simpa using h1
      · simp only; rw [getElem?_unliftIdx keys p.2 q'.2 hq0.2]; exact h2
  · left
    have hne : ∀ q ∈ pairs, q.1 ≠ 0 := fun q hq e => h0 ⟨q, hq, e⟩
    refine ⟨pairs.map (fun q => (q.1 - 1, q.2)), by simp [hl], ?_, ?_⟩
    · rw [List.pairwise_map]
      refine hp.imp_of_mem ?_
      intro a b ha hb ⟨h1, h2⟩
      have := hne a ha; have := hne b hb
      exact ⟨by simp; omega, h2⟩
    · intro q hq
      obtain ⟨q', hq', rfl⟩ := List.mem_map.1 hq
      obtain ⟨s'', k'', h1, h2, h3⟩ := hv q' hq'
      have := hne q' hq'
      refine ⟨s'', k'', ?_, h2, h3⟩
      have e : q'.1 = (q'.1 - 1) + 1 := by omega
      rw [e] at h1
      simpa using h1

/-- The two formulations of the threshold coincide: sublist/sub-permutation pairing = injective assignment of positions. -/
theorem signed_iff_assigned (valid : Sig → Key → Msg → Bool) (m : Msg) :
    ∀ (sigs : List Sig) (keys : List Key) (n : Nat), Signed valid m sigs keys n ↔ Assigned valid m sigs keys n := by
  intro sigs
  induction sigs with
  | nil =>
    intro keys n
    cases n with
    | zero => exact ⟨fun _ => assigned_zero _ _ _ _, fun _ => signed_zero _ _ _ _⟩
    | succ n =>
      constructor
      · intro h; have := (signed_le h).1; simp at this
      · rintro ⟨pairs, hl, _, hv⟩
        match pairs, hl with
        | p :: _, _ =>
          obtain ⟨s, _, hs, _⟩ := hv p (by simp)
          simp at hs
  | cons s rest ih =>
    intro keys n
    cases n with
    | zero => exact ⟨fun _ => assigned_zero _ _ _ _, fun _ => signed_zero _ _ _ _⟩
    | succ n =>
      constructor
      · intro h
        rcases signed_cons_cases h with h | ⟨j, k, hj, hv, h⟩
        · exact assigned_skip ((ih keys (n + 1)).1 h)
        · exact assigned_take hj hv ((ih _ n).1 h)
      · intro h
        rcases assigned_cons_cases h with h | ⟨j, k, hj, hv, h⟩
        · exact signed_skip ((ih keys (n + 1)).2 h)
        · exact signed_take hj hv ((ih _ n).2 h)

/-! ## SIG_ALL: exact characterisation; the shared condition read declaratively -/

theorem checkOutput_complete {env : Env} {s0 : Secret} {keys : List Key} {n : Nat} {o : Output}
    (hu : ∀ m, o.msgDecoded = some m → UniqueSigner env.valid m keys)
    (h : OutputSigned env s0 keys n o) : checkOutput env s0 keys n o = .ok () := by
  obtain ⟨hkind, hj, hopen, m, hm, hnd, hs⟩ := h
  have hd : duplicateSignatures o.witness.signatures = false := (duplicateSignatures_iff _).2 hnd
  have hv := hasValidSignatures_complete _ _ _ _ _ (hu m hm) hs
  unfold checkOutput
  rcases hkind with hk | hk
  · simp [hm, hk, hj, hd, hv]
  · simp [hm, hk, hj, hd, hv, checkPreimage_of_opens (hopen hk)]

theorem checkOutputs_complete {env : Env} {s0 : Secret} {keys : List Key} {n : Nat} :
    ∀ {outs : List Output}, (∀ o ∈ outs, ∀ m, o.msgDecoded = some m → UniqueSigner env.valid m keys) →
      (∀ o ∈ outs, OutputSigned env s0 keys n o) → checkOutputs env s0 keys n outs = .ok ()
  | [], _, _ => rfl
  | o :: rest, hu, h => by
    unfold checkOutputs
    rw [checkOutput_complete (hu o (by simp)) (h o (by simp))]
    exact checkOutputs_complete (fun x hx => hu x (by simp [hx])) (fun x hx => h x (by simp [hx]))

/-- verifyBlindedMessages accepts EXACTLY when the SIG_ALL demands are met (when a signature verifies under one key only). -/
theorem verifyBlindedMessages_iff {env : Env} {proofs : List Proof} {outs : List Output}
    (hu : ∀ keys, ∀ o ∈ outs, ∀ m, o.msgDecoded = some m → UniqueSigner env.valid m keys) :
    verifyBlindedMessages env proofs outs = .ok () ↔ SigAllOK env proofs outs := by
  refine ⟨verifyBlindedMessages_sound, ?_⟩
  rintro ⟨s0, keys, n, ⟨p0, rest, rfl, hs0⟩, hall, houts⟩
  obtain ⟨sq, t, hsq, _, hp, hk, hn⟩ := hall p0 (by simp)
  rw [hs0] at hsq
  cases hsq
  have hshared : SharedCondition env (p0 :: rest) s0 keys n := ⟨⟨p0, rest, rfl, hs0⟩, hk, ⟨t, hp, hn⟩, hall⟩
  rw [verifyBlindedMessages_of_shared hshared]
  exact checkOutputs_complete (hu keys) houts

/-- the key list nut11.PublicKeys computes, read declaratively: the last `pubkeys` tag, followed for a P2PK secret by the lock key -/
theorem publicKeys_spec (env : Env) (s : Secret) (keys : List Key) :
    publicKeys env s = .ok keys ↔
      WellFormed env s.tags ∧
      (if s.kind = .p2pk then ∃ k, env.parseKey s.data = some k ∧ keys = (condOf env s.tags).pubkeys ++ [k]
       else keys = (condOf env s.tags).pubkeys) := by
  unfold publicKeys
  cases hp : parseTags env s.tags with
  | err e =>
    have : ¬ WellFormed env s.tags := (parseTags_err_iff env s.tags).1 ⟨e, hp⟩
    simp [this]
  | ok t =>
    obtain ⟨hw, _, hpk, _, _⟩ := parseTags_cond hp
    simp only [hw, true_and, ← hpk]
    by_cases hk : s.kind = .p2pk
    · simp only [hk, if_true]
      cases hd : env.parseKey s.data with
      | none => simp
      | some k => simp [eq_comm]
    · simp [hk, eq_comm]

/-- the threshold the SIG_ALL check uses: max(1, n_sigs) -/
theorem sigsRequired_spec {env : Env} {tags : List (List String)} {t : Tags} (h : parseTags env tags = .ok t) :
    sigsRequired t = max 1 (condOf env tags).nSigs := by
  obtain ⟨_, hn, _⟩ := parseTags_cond h
  unfold sigsRequired
  rw [← hn]
  split <;> omega


theorem sameCondition_spec (env : Env) (keys : List Key) (n : Nat) (q : Proof) :
    SameCondition env keys n q ↔
      ∃ sq, q.secret = some sq ∧ isSigAll sq = true ∧ WellFormed env sq.tags ∧
        (if sq.kind = .p2pk then ∃ k, env.parseKey sq.data = some k ∧ keys = (condOf env sq.tags).pubkeys ++ [k]
         else keys = (condOf env sq.tags).pubkeys) ∧
        n = max 1 (condOf env sq.tags).nSigs := by
  constructor
  · rintro ⟨sq, t, hs, ha, hp, hk, hn⟩
    obtain ⟨hw, hkeys⟩ := (publicKeys_spec env sq keys).1 hk
    exact ⟨sq, hs, ha, hw, hkeys, by rw [← hn, sigsRequired_spec hp]⟩
  · rintro ⟨sq, hs, ha, hw, hkeys, hn⟩
    have hp := (parseTags_ok_iff env sq.tags _).2 ⟨hw, rfl⟩
    exact ⟨sq, _, hs, ha, hp, (publicKeys_spec env sq keys).2 ⟨hw, hkeys⟩, by rw [hn, sigsRequired_spec hp]⟩

end Gonuts.Lemmas.Spend
