import Batteries.Data.List.Perm
import Gonuts.Model.Spend
import Gonuts.Spec.Spendable
/-!
  Lemmas.Spend — helper lemmas for Props.C12 / Props.C13: list facts, the threshold relation `Signed`,
  the exhaustive decider `canSign`, `findKey`, the greedy loop `hvsCount`, tag parsing.
-/
namespace Gonuts.Lemmas.Spend
open Gonuts.Model.Spend Gonuts.Spec.Spendable

/-! ## lists -/

theorem perm_cons_eraseIdx {α} : ∀ (l : List α) (j : Nat) (a : α), l[j]? = some a → l.Perm (a :: l.eraseIdx j)
  | [], j, a, h => by simp at h
  | x :: xs, 0, a, h => by
    simp at h; subst h; simp
  | x :: xs, j + 1, a, h => by
    simp at h
    have ih := perm_cons_eraseIdx xs j a h
    simp only [List.eraseIdx_cons_succ]
    exact (List.Perm.cons x ih).trans (List.Perm.swap a x _)

/-- `Signed` with the key side written as Batteries' `Subperm` (definitionally the same). -/
theorem signed_iff {valid : Sig → Key → Msg → Bool} {m : Msg} {sigs : List Sig} {keys : List Key} {n : Nat} :
    Signed valid m sigs keys n ↔
      ∃ ps : List (Sig × Key), ps.length = n ∧ (ps.map Prod.fst).Sublist sigs ∧ (ps.map Prod.snd).Subperm keys ∧
        ∀ p ∈ ps, valid p.1 p.2 m = true := Iff.rfl

theorem signed_zero (valid : Sig → Key → Msg → Bool) (m : Msg) (sigs : List Sig) (keys : List Key) :
    Signed valid m sigs keys 0 :=
  ⟨[], rfl, List.nil_sublist _, ⟨[], List.Perm.nil, List.nil_sublist _⟩, by simp⟩

/-- a threshold that is met is met for every smaller threshold -/
theorem signed_mono {valid : Sig → Key → Msg → Bool} {m : Msg} {sigs : List Sig} {keys : List Key} {n n' : Nat}
    (h : Signed valid m sigs keys n) (hn : n' ≤ n) : Signed valid m sigs keys n' := by
  obtain ⟨ps, hl, hs, hk, hv⟩ := signed_iff.1 h
  refine signed_iff.2 ⟨ps.take n', by simp [hl, hn], ?_, ?_, ?_⟩
  · exact ((List.take_sublist n' ps).map Prod.fst).trans hs
  · exact (((List.take_sublist n' ps).map Prod.snd).subperm).trans hk
  · intro p hp; exact hv p (List.mem_of_mem_take hp)

/-- no more signers than signatures, no more than listed key positions -/
theorem signed_le {valid : Sig → Key → Msg → Bool} {m : Msg} {sigs : List Sig} {keys : List Key} {n : Nat}
    (h : Signed valid m sigs keys n) : n ≤ sigs.length ∧ n ≤ keys.length := by
  obtain ⟨ps, hl, hs, hk, _⟩ := signed_iff.1 h
  constructor
  · have := hs.length_le; simp at this; omega
  · have := hk.length_le; simp at this; omega

theorem signed_skip {valid : Sig → Key → Msg → Bool} {m : Msg} {s : Sig} {rest : List Sig} {keys : List Key} {n : Nat}
    (h : Signed valid m rest keys n) : Signed valid m (s :: rest) keys n := by
  obtain ⟨ps, hl, hs, hk, hv⟩ := signed_iff.1 h
  exact signed_iff.2 ⟨ps, hl, hs.cons s, hk, hv⟩

/-- pair the head signature with key position `j`, the rest with the remaining positions -/
theorem signed_take {valid : Sig → Key → Msg → Bool} {m : Msg} {s : Sig} {rest : List Sig} {keys : List Key} {n j : Nat} {k : Key}
    (hj : keys[j]? = some k) (hv : valid s k m = true) (h : Signed valid m rest (keys.eraseIdx j) n) :
    Signed valid m (s :: rest) keys (n + 1) := by
  obtain ⟨ps, hl, hs, hk, hvs⟩ := signed_iff.1 h
  refine signed_iff.2 ⟨(s, k) :: ps, by simp [hl], ?_, ?_, ?_⟩
  · simpa using hs.cons_cons s
  · have hp := perm_cons_eraseIdx keys j k hj
    simp only [List.map_cons]
    exact (hp.subperm_left).2 ((List.subperm_cons k).2 hk)
  · intro p hp
    rcases List.mem_cons.1 hp with rfl | hp
    · exact hv
    · exact hvs p hp

/-- the converse analysis: a threshold met on `s :: rest` either does not use `s`, or pairs it with some position `j`. -/
theorem signed_cons_cases {valid : Sig → Key → Msg → Bool} {m : Msg} {s : Sig} {rest : List Sig} {keys : List Key} {n : Nat}
    (h : Signed valid m (s :: rest) keys (n + 1)) :
    Signed valid m rest keys (n + 1) ∨
      ∃ j k, keys[j]? = some k ∧ valid s k m = true ∧ Signed valid m rest (keys.eraseIdx j) n := by
  obtain ⟨ps, hl, hs, hk, hv⟩ := signed_iff.1 h
  rcases List.sublist_cons_iff.1 hs with hs' | ⟨r, hr, hs'⟩
  · exact Or.inl (signed_iff.2 ⟨ps, hl, hs', hk, hv⟩)
  · right
    match ps, hl, hr, hk, hv with
    | (s', k) :: ps', hl, hr, hk, hv =>
      simp only [List.map_cons, List.cons.injEq] at hr
      obtain ⟨rfl, rfl⟩ := hr
      have hmem : k ∈ keys := hk.subset (by simp)
      obtain ⟨j, hj⟩ := List.mem_iff_getElem?.1 hmem
      refine ⟨j, k, hj, hv (s', k) (by simp), signed_iff.2 ⟨ps', by simpa using hl, hs', ?_, fun p hp => hv p (by simp [hp])⟩⟩
      have hp := perm_cons_eraseIdx keys j k hj
      have : (k :: ps'.map Prod.snd).Subperm (k :: keys.eraseIdx j) := (hp.subperm_left).1 (by simpa using hk)
      exact (List.subperm_cons k).1 this

/-! ## the exhaustive decider equals the declarative threshold -/

theorem canSign_iff (valid : Sig → Key → Msg → Bool) (m : Msg) :
    ∀ (sigs : List Sig) (keys : List Key) (n : Nat), canSign valid m sigs keys n = true ↔ Signed valid m sigs keys n := by
  intro sigs
  induction sigs with
  | nil =>
    intro keys n
    cases n with
    | zero => simp [canSign, signed_zero]
    | succ n =>
      simp only [canSign, Bool.false_eq_true, false_iff]
      intro h; have := (signed_le h).1; simp at this
  | cons s rest ih =>
    intro keys n
    cases n with
    | zero => simp [canSign, signed_zero]
    | succ n =>
      simp only [canSign, Bool.or_eq_true, List.any_eq_true, List.mem_range]
      constructor
      · rintro (h | ⟨j, _, h⟩)
        · exact signed_skip ((ih keys (n + 1)).1 h)
        · cases hk : keys[j]? with
          | none => simp [hk] at h
          | some k =>
            simp only [hk, Bool.and_eq_true] at h
            exact signed_take hk h.1 ((ih _ n).1 h.2)
      · intro h
        rcases signed_cons_cases h with h | ⟨j, k, hj, hv, h⟩
        · exact Or.inl ((ih keys (n + 1)).2 h)
        · right
          refine ⟨j, ?_, ?_⟩
          · exact (List.getElem?_eq_some_iff.1 hj).1
          · simp [hj, hv, (ih _ n).2 h]

/-! ## the Boolean deciders of `Spec.Spendable` decide the declarative statements -/

theorem nodupB_iff : ∀ (l : List Sig), nodupB l = true ↔ l.Nodup
  | [] => by simp [nodupB]
  | s :: rest => by
    simp only [nodupB, Bool.and_eq_true, Bool.not_eq_true', List.nodup_cons, nodupB_iff rest]
    simp

theorem wellFormedTagB_iff (env : Env) (t : List String) :
    wellFormedTagB env t = true ↔
      (2 ≤ t.length) ∧
      (t.head? = some SIGFLAG → t[1]? = some SIGINPUTS ∨ t[1]? = some SIGALL) ∧
      (t.head? = some NSIGS → ∃ n : Int, tagInt t = some n ∧ 0 ≤ n ∧ n ≤ 127) ∧
      (t.head? = some LOCKTIME → ∃ l : Int, tagInt t = some l ∧ -(2 ^ 63 : Int) ≤ l ∧ l < (2 ^ 63 : Int)) ∧
      ((t.head? = some PUBKEYS ∨ t.head? = some REFUND) → ∀ k ∈ t.tail, (env.parseKey k).isSome = true) := by
  unfold wellFormedTagB
  simp only [Bool.and_eq_true, decide_eq_true_eq]
  constructor
  · rintro ⟨⟨⟨⟨h1, h2⟩, h3⟩, h4⟩, h5⟩
    refine ⟨h1, ?_, ?_, ?_, ?_⟩
    · intro h; simpa [h] using h2
    · intro h
      simp only [h, if_true] at h3
      cases hi : tagInt t with
      | none => simp [hi] at h3
      | some n => simp only [hi, decide_eq_true_eq] at h3; exact ⟨n, rfl, h3⟩
    · intro h
      simp only [h, if_true] at h4
      cases hi : tagInt t with
      | none => simp [hi] at h4
      | some n => simp only [hi, decide_eq_true_eq] at h4; exact ⟨n, rfl, h4⟩
    · intro h
      simp only [h, if_true, List.all_eq_true] at h5
      exact h5
  · rintro ⟨h1, h2, h3, h4, h5⟩
    refine ⟨⟨⟨⟨h1, ?_⟩, ?_⟩, ?_⟩, ?_⟩
    · split
      · rename_i h; simpa using h2 h
      · rfl
    · split
      · rename_i h
        obtain ⟨n, hn, hr⟩ := h3 h
        simp [hn, hr]
      · rfl
    · split
      · rename_i h
        obtain ⟨n, hn, hr⟩ := h4 h
        simp only [hn, decide_eq_true_eq]
        exact hr
      · rfl
    · split
      · rename_i h; simpa [List.all_eq_true] using h5 h
      · rfl

theorem wellFormedB_iff (env : Env) (tags : List (List String)) : wellFormedB env tags = true ↔ WellFormed env tags := by
  unfold wellFormedB
  simp only [Bool.and_eq_true, decide_eq_true_eq, List.all_eq_true, wellFormedTagB_iff]
  constructor
  · rintro ⟨h5, h⟩
    exact ⟨h5, fun t ht => (h t ht).1, fun t ht => (h t ht).2.1, fun t ht => (h t ht).2.2.1,
      fun t ht => (h t ht).2.2.2.1, fun t ht => (h t ht).2.2.2.2⟩
  · rintro ⟨h5, a, b, c, d, e⟩
    exact ⟨h5, fun t ht => ⟨a t ht, b t ht, c t ht, d t ht, e t ht⟩⟩

/-- The evaluator the driver runs for `spend.spec-p2pk` IS the declarative NUT-11 statement. -/
theorem decideP2PK_iff (env : Env) (s : Secret) (m : Msg) (w : Witness) :
    decideP2PK env s m w = true ↔ spendableP2PK env s m w := by
  unfold decideP2PK spendableP2PK
  simp only [Bool.and_eq_true, wellFormedB_iff]
  apply and_congr_right
  intro _
  by_cases hx : Expired env (condOf env s.tags)
  · simp only [hx, if_true, Bool.or_eq_true, canSign_iff, List.isEmpty_iff]
  · simp only [hx, if_false]
    cases hk : env.parseKey s.data with
    | none => simp
    | some k =>
      simp only [Bool.and_eq_true, Bool.or_eq_true, decide_eq_true_eq, Bool.not_eq_true', canSign_iff, nodupB_iff,
        Option.some.injEq, exists_eq_left']
      constructor
      · rintro ⟨⟨h1, h2⟩, h3⟩
        refine ⟨?_, h2, h3⟩
        intro hpos hnil
        rcases h1 with h1 | h1
        · omega
        · simp [hnil] at h1
      · rintro ⟨h1, h2, h3⟩
        refine ⟨⟨?_, h2⟩, h3⟩
        by_cases h0 : (condOf env s.tags).nSigs = 0
        · exact Or.inl h0
        · right
          have := h1 (by omega)
          cases hp : (condOf env s.tags).pubkeys with
          | nil => exact absurd hp this
          | cons _ _ => rfl

theorem opensB_iff (env : Env) (pre data : String) : opensB env pre data = true ↔ Opens env pre data := by
  unfold opensB Opens
  simp only [Bool.and_eq_true, decide_eq_true_eq]
  apply and_congr_right
  intro _
  cases h : hexDecode pre with
  | none => simp
  | some b => simp

/-- The evaluator the driver runs for `spend.spec-htlc` IS the declarative NUT-14 statement. -/
theorem decideHTLC_iff (env : Env) (s : Secret) (m : Msg) (w : Witness) :
    decideHTLC env s m w = true ↔ spendableHTLC env s m w := by
  unfold decideHTLC spendableHTLC
  simp only [Bool.and_eq_true, wellFormedB_iff]
  apply and_congr_right
  intro _
  by_cases hx : Expired env (condOf env s.tags)
  · simp only [hx, if_true, Bool.or_eq_true, canSign_iff, List.isEmpty_iff]
  · simp only [hx, if_false, Bool.and_eq_true, opensB_iff, Bool.or_eq_true, decide_eq_true_eq, canSign_iff, nodupB_iff]
    apply and_congr_right
    intro _
    constructor
    · rintro (h | h) hpos
      · omega
      · exact h
    · intro h
      by_cases h0 : (condOf env s.tags).nSigs = 0
      · exact Or.inl h0
      · exact Or.inr (h (by omega))

/-! ## the greedy loop: facts that hold whichever way the deletion guard reads -/

/-- number of signatures that verify under SOME key of `keys` (keys may be re-used) -/
def countValid (valid : Sig → Key → Msg → Bool) (m : Msg) (sigs : List Sig) (keys : List Key) : Nat :=
  (sigs.filter fun s => keys.any fun k => valid s k m).length

theorem findKey_some {valid : Sig → Key → Msg → Bool} {m : Msg} {s : Sig} :
    ∀ {keys : List Key} {i : Nat}, findKey valid m s keys = some i → ∃ k, keys[i]? = some k ∧ valid s k m = true
  | [], i, h => by simp [findKey] at h
  | k :: ks, i, h => by
    unfold findKey at h
    by_cases hv : valid s k m = true
    · simp only [hv, if_true, Option.some.injEq] at h; subst h; exact ⟨k, by simp, hv⟩
    · simp only [hv, Bool.false_eq_true, if_false, Option.map_eq_some_iff] at h
      obtain ⟨j, hj, rfl⟩ := h
      obtain ⟨k', hk', hv'⟩ := findKey_some hj
      exact ⟨k', by simpa using hk', hv'⟩

theorem findKey_none {valid : Sig → Key → Msg → Bool} {m : Msg} {s : Sig} :
    ∀ {keys : List Key}, findKey valid m s keys = none ↔ ∀ k ∈ keys, valid s k m = false
  | [] => by simp [findKey]
  | k :: ks => by
    unfold findKey
    by_cases hv : valid s k m = true
    · simp [hv]
    · have hv' : valid s k m = false := by simpa using hv
      simp [hv', findKey_none (keys := ks)]

theorem hvsCount_le_countValid (valid : Sig → Key → Msg → Bool) (m : Msg) :
    ∀ (sigs : List Sig) (keys K : List Key), keys ⊆ K → hvsCount valid m sigs keys ≤ countValid valid m sigs K := by
  intro sigs
  induction sigs with
  | nil => intro keys K _; simp [hvsCount, countValid]
  | cons s rest ih =>
    intro keys K hsub
    unfold hvsCount
    cases hf : findKey valid m s keys with
    | none =>
      simp only
      have := ih keys K hsub
      unfold countValid at *
      rw [List.filter_cons]
      split <;> simp <;> omega
    | some i =>
      simp only
      obtain ⟨k, hk, hv⟩ := findKey_some hf
      have hkK : k ∈ K := hsub (List.mem_of_getElem? hk)
      have hsub' : (if removeMatchedKey keys = true then keys.eraseIdx i else keys) ⊆ K := by
        split
        · exact fun x hx => hsub ((List.eraseIdx_sublist keys i).subset hx)
        · exact hsub
      have := ih _ K hsub'
      unfold countValid at *
      rw [List.filter_cons]
      have hany : (K.any fun k => valid s k m) = true := List.any_eq_true.2 ⟨k, hkK, hv⟩
      simp only [hany, if_true, List.length_cons]
      omega

/-! ## ProofsSigAll -/

/-- the proof is a NUT-10 secret whose tags contain `["sigflag","SIG_ALL"]` -/
def CarriesSigAll (p : Proof) : Prop := ∃ s, p.secret = some s ∧ isSigAll s = true

theorem proofsSigAll_sound : ∀ (proofs : List Proof), proofsSigAll proofs = true → ∃ p ∈ proofs, CarriesSigAll p
  | [], h => by simp [proofsSigAll] at h
  | p :: rest, h => by
    unfold proofsSigAll at h
    cases hs : p.secret with
    | none =>
      simp only [hs] at h
      cases hm : sigAllOnPlainSecret with
      | none => simp [hm] at h
      | some u =>
        simp only [hm] at h
        obtain ⟨q, hq, hc⟩ := proofsSigAll_sound rest h
        exact ⟨q, by simp [hq], hc⟩
    | some s =>
      simp only [hs] at h
      by_cases ha : isSigAll s = true
      · exact ⟨p, by simp, s, hs, ha⟩
      · simp only [ha, Bool.false_eq_true, if_false] at h
        obtain ⟨q, hq, hc⟩ := proofsSigAll_sound rest h
        exact ⟨q, by simp [hq], hc⟩

/-- when every input is a NUT-10 secret, a SIG_ALL input is seen wherever it sits -/
theorem proofsSigAll_of_all_nut10 : ∀ (proofs : List Proof), (∀ q ∈ proofs, q.secret ≠ none) →
    (∃ p ∈ proofs, CarriesSigAll p) → proofsSigAll proofs = true
  | [], _, h => by simp at h
  | p :: rest, hall, h => by
    unfold proofsSigAll
    cases hs : p.secret with
    | none => exact absurd hs (hall p (by simp))
    | some s =>
      simp only
      by_cases ha : isSigAll s = true
      · simp [ha]
      · simp only [ha, Bool.false_eq_true, if_false]
        apply proofsSigAll_of_all_nut10 rest (fun q hq => hall q (by simp [hq]))
        obtain ⟨q, hq, s', hs', ha'⟩ := h
        rcases List.mem_cons.1 hq with rfl | hq
        · rw [hs] at hs'; cases hs'; exact absurd ha' ha
        · exact ⟨q, hq, s', hs', ha'⟩

end Gonuts.Lemmas.Spend
