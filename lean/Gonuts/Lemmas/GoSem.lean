import Gonuts.Model.GoSem
/-!
  Reasoning rules for the loop combinators of `Model/GoSem.lean` (what `extract/translate.go` emits): a loop that
  neither returns nor breaks is a fold; a loop with early exits is handled by a backwards-preserved relation
  (`rangeLoopFrom_spec`, `whileLoop_spec`); the `uint64` bit operations `AmountSplit` uses.  Core Lean only.
-/
namespace Gonuts.Model.Go

/-! ## loops that neither return nor break are folds -/
theorem rangeLoopFrom_fold {α σ ρ : Type} (body : Nat → α → σ → Ctl ρ × σ) (f : σ → α → σ)
    (h : ∀ i x s, body i x s = (.next, f s x)) (i : Nat) (xs : List α) (s : σ) :
    rangeLoopFrom body i xs s = (.next, xs.foldl f s) := by
  induction xs generalizing i s with
  | nil => rfl
  | cons x xs ih => simp only [rangeLoopFrom, h, List.foldl_cons, ih]

theorem rangeLoop_fold {α σ ρ : Type} (body : Nat → α → σ → Ctl ρ × σ) (f : σ → α → σ)
    (h : ∀ i x s, body i x s = (.next, f s x)) (xs : List α) (s : σ) :
    rangeLoop xs s body = (.next, xs.foldl f s) := rangeLoopFrom_fold body f h 0 xs s

theorem countLoop_fold {σ ρ : Type} (body : Int → σ → Ctl ρ × σ) (f : σ → σ)
    (h : ∀ i s, body i s = (.next, f s)) (lo hi : Int) (s : σ) :
    countLoop lo hi s body = (.next, (List.replicate (hi - lo).toNat ()).foldl (fun s _ => f s) s) :=
  rangeLoopFrom_fold _ (fun s _ => f s) (fun _ _ _ => h _ _) 0 _ s

theorem rangeLoopFrom_cons_next {α σ ρ : Type} {body : Nat → α → σ → Ctl ρ × σ} {i : Nat} {x : α} {xs : List α} {s s' : σ}
    (h : body i x s = (.next, s')) : rangeLoopFrom body i (x :: xs) s = rangeLoopFrom body (i + 1) xs s' := by
  simp only [rangeLoopFrom, h]

theorem rangeLoopFrom_cons_ret {α σ ρ : Type} {body : Nat → α → σ → Ctl ρ × σ} {i : Nat} {x : α} {xs : List α} {s s' : σ} {r : ρ}
    (h : body i x s = (.ret r, s')) : rangeLoopFrom body i (x :: xs) s = (.ret r, s') := by
  simp only [rangeLoopFrom, h]

theorem rangeLoopFrom_cons_brk {α σ ρ : Type} {body : Nat → α → σ → Ctl ρ × σ} {i : Nat} {x : α} {xs : List α} {s s' : σ}
    (h : body i x s = (.brk, s')) : rangeLoopFrom body i (x :: xs) s = (.next, s') := by
  simp only [rangeLoopFrom, h]

/-- reasoning rule for a loop whose body may return: a relation between the remaining elements, the carried
    state and the loop's result that holds for the empty list and is preserved backwards by every iteration -/
theorem rangeLoopFrom_spec {α σ ρ : Type} (body : Nat → α → σ → Ctl ρ × σ) (R : List α → σ → Ctl ρ × σ → Prop)
    (hnil : ∀ s, R [] s (.next, s))
    (hcons : ∀ i x xs s, match body i x s with
      | (.next, s') => ∀ r, R xs s' r → R (x :: xs) s r
      | (.brk, s') => R (x :: xs) s (.next, s')
      | (.ret v, s') => R (x :: xs) s (.ret v, s')) :
    ∀ i xs s, R xs s (rangeLoopFrom body i xs s) := by
  intro i xs
  induction xs generalizing i with
  | nil => intro s; exact hnil s
  | cons x xs ih =>
    intro s
    have h := hcons i x xs s
    simp only [rangeLoopFrom]
    rcases hb : body i x s with ⟨c, s'⟩
    rw [hb] at h
    cases c with
    | next => exact h _ (ih (i + 1) s')
    | brk => exact h
    | ret v => exact h

/-- the same rule with the three cases of a step as separate hypotheses (no `match` in the statement) -/
theorem rangeLoopFrom_spec' {α σ ρ : Type} (body : Nat → α → σ → Ctl ρ × σ) (R : List α → σ → Ctl ρ × σ → Prop)
    (hnil : ∀ s, R [] s (.next, s))
    (hnext : ∀ i x xs s s', body i x s = (.next, s') → ∀ r, R xs s' r → R (x :: xs) s r)
    (hbrk : ∀ i x xs s s', body i x s = (.brk, s') → R (x :: xs) s (.next, s'))
    (hret : ∀ i x xs s v s', body i x s = (.ret v, s') → R (x :: xs) s (.ret v, s')) :
    ∀ i xs s, R xs s (rangeLoopFrom body i xs s) := by
  refine rangeLoopFrom_spec body R hnil ?_
  intro i x xs s
  rcases hb : body i x s with ⟨c, s'⟩
  cases c with
  | next => exact hnext i x xs s s' hb
  | brk => exact hbrk i x xs s s' hb
  | ret v => exact hret i x xs s v s' hb

theorem whileLoop_spec {σ ρ : Type} (cond : σ → Bool) (body : σ → Ctl ρ × σ) (R : Nat → σ → Option (Ctl ρ × σ) → Prop)
    (hstop : ∀ fuel s, cond s = false → R fuel s (some (.next, s)))
    (hout : ∀ s, cond s = true → R 0 s none)
    (hstep : ∀ fuel s, cond s = true → match body s with
      | (.next, s') => ∀ r, R fuel s' r → R (fuel + 1) s r
      | (.brk, s') => R (fuel + 1) s (some (.next, s'))
      | (.ret v, s') => R (fuel + 1) s (some (.ret v, s'))) :
    ∀ fuel s, R fuel s (whileLoop cond body fuel s) := by
  intro fuel
  induction fuel with
  | zero =>
    intro s
    cases hc : cond s
    · simpa [whileLoop, hc] using hstop 0 s hc
    · simpa [whileLoop, hc] using hout s hc
  | succ n ih =>
    intro s
    cases hc : cond s
    · simpa [whileLoop, hc] using hstop (n + 1) s hc
    · have h := hstep n s hc
      simp only [whileLoop, hc, if_true]
      rcases hb : body s with ⟨c, s'⟩
      rw [hb] at h
      cases c with
      | next => exact h _ (ih s')
      | brk => exact h
      | ret v => exact h

theorem and_one_eq_one_iff (a : UInt64) : ((a &&& 1) == 1) = decide (a.toNat % 2 = 1) := by
  have h : (a &&& 1).toNat = a.toNat % 2 := by rw [UInt64.toNat_and]; exact Nat.and_one_is_mod _
  by_cases h1 : a.toNat % 2 = 1
  · have : a &&& 1 = 1 := UInt64.toNat_inj.mp (by rw [h, h1]; rfl)
    simp [this, h1]
  · have : ¬ (a &&& 1 = 1) := fun e => h1 (by rw [← h, e]; rfl)
    simp [this, h1]

theorem shr_one_toNat (a : UInt64) : (shr a (Int.toNat 1)).toNat = a.toNat / 2 := by
  show (shr a 1).toNat = a.toNat / 2
  unfold shr
  simp only [show (1 : Nat) < 64 by omega, if_true, UInt64.toNat_shiftRight]
  show a.toNat >>> (1 % 64) = a.toNat / 2
  rw [Nat.shiftRight_eq_div_pow]

theorem shl_one (n : Nat) : shl 1 n = UInt64.ofNat (2 ^ n) := by
  unfold shl
  apply UInt64.toNat_inj.mp
  by_cases h : n < 64
  · simp only [h, if_true, UInt64.toNat_shiftLeft, UInt64.toNat_ofNat']
    have e : n % 2 ^ 64 % 64 = n := by omega
    rw [e, Nat.shiftLeft_eq, show (1 : UInt64).toNat = 1 from rfl, Nat.one_mul]
  · simp only [h, if_false, UInt64.toNat_ofNat']
    have : 2 ^ n = 2 ^ 64 * 2 ^ (n - 64) := by rw [← Nat.pow_add]; congr 1; omega
    rw [this, Nat.mul_mod_right]; rfl


end Gonuts.Model.Go
