import Gonuts.Spec.Sha256
import Gonuts.Spec.Sha512
/-!
  FIPS 180-4 §4.2.2/§4.2.3/§5.3.3/§5.3.5 define the SHA-2 constants arithmetically:
  `K` = the first 32 (64) bits of the fractional parts of the cube roots of the first 64 (80) primes,
  `H(0)` = the first 32 (64) bits of the fractional parts of the square roots of the first 8 primes.
  The tables in `Gonuts/Spec/Sha256.lean` and `Sha512.lean` are checked against that definition here, by the
  kernel: for each prime `q` and table entry `v`, some `r = ip·2^bits + v` is verified to be the floor root of
  `q · 2^(k·bits)` (`r^k ≤ q·2^(k·bits) < (r+1)^k`), so `v` is the fractional part.  Core Lean only.
-/
namespace Gonuts.Spec.ShaConsts

/-- Trial division by every `d` with `2 ≤ d < min n 32`.  For `n < 1024 = 32²` this is primality (a composite
`n` has a divisor `d` with `d² ≤ n`, hence `d < 32`); only used below 410. -/
def isPrime (n : Nat) : Bool := 2 ≤ n && (List.range 32).all (fun d => d < 2 || n ≤ d || n % d != 0)

/-- The primes below `m`, in order. -/
def primesBelow (m : Nat) : List Nat := (List.range m).filter isPrime

/-- `v < 2^bits` is the fractional part (first `bits` bits) of the `k`-th root of `q`: for some integer part
`ip < 32` (enough for square roots below 1024), `r = ip·2^bits + v` is the floor `k`-th root of `q·2^(k·bits)`,
i.e. `r^k ≤ q·2^(k·bits) < (r+1)^k`. -/
def isFrac (k bits q v : Nat) : Bool :=
  decide (v < 2 ^ bits) &&
  (List.range 32).any (fun ip =>
    decide ((ip * 2 ^ bits + v) ^ k ≤ q * 2 ^ (k * bits)) && decide (q * 2 ^ (k * bits) < (ip * 2 ^ bits + v + 1) ^ k))

def allFrac (k bits : Nat) (qs vs : List Nat) : Bool :=
  qs.length == vs.length && (qs.zip vs).all (fun (q, v) => isFrac k bits q v)

set_option maxRecDepth 100000

theorem primes64 : (primesBelow 312).length = 64 := by decide +kernel
theorem primes80 : (primesBelow 410).length = 80 := by decide +kernel

/-- SHA-256 `K`: cube roots of the first 64 primes, 32 fractional bits. -/
theorem sha256_K : allFrac 3 32 (primesBelow 312) (Sha256.K.toList.map UInt32.toNat) = true := by decide +kernel

/-- SHA-256 `H(0)`: square roots of the first 8 primes, 32 fractional bits. -/
theorem sha256_H0 : allFrac 2 32 ((primesBelow 312).take 8)
    ([Sha256.init.a, Sha256.init.b, Sha256.init.c, Sha256.init.d, Sha256.init.e, Sha256.init.f, Sha256.init.g,
      Sha256.init.h].map UInt32.toNat) = true := by decide +kernel

/-- SHA-512 `K`: cube roots of the first 80 primes, 64 fractional bits. -/
theorem sha512_K : allFrac 3 64 (primesBelow 410) (Sha512.K.toList.map UInt64.toNat) = true := by decide +kernel

/-- SHA-512 `H(0)`: square roots of the first 8 primes, 64 fractional bits. -/
theorem sha512_H0 : allFrac 2 64 ((primesBelow 410).take 8)
    ([Sha512.init.a, Sha512.init.b, Sha512.init.c, Sha512.init.d, Sha512.init.e, Sha512.init.f, Sha512.init.g,
      Sha512.init.h].map UInt64.toNat) = true := by decide +kernel

end Gonuts.Spec.ShaConsts
