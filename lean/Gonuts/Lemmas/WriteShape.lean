import Gonuts.Lemmas.SwapCrash
/-!
  Lemmas.WriteShape — a small Hoare logic for the WRITES of a program, and with it every state a killed or faulted
  `MintTokens` can leave behind.

  A *write automaton* abstracts the tables: each write effect, with the result the storage gave, moves an abstract state
  (or is not allowed there).  `Conf a Q p`: started in abstract state `a`, every path of `p` performs only allowed writes,
  and every result `x` is returned in an abstract state satisfying `Q x` — a syntactic property of the decision tree,
  proved by walking the binds (`Conf.bind`, `Conf.pmBind`).  `conf_runN`: if the automaton is sound for the storage
  semantics (`Sound`, one case per write effect), then after ANY number of calls — kill — and with or without an armed
  fault, the tables are in the relation of SOME abstract state.
-/
namespace Gonuts.Model.Mint

structure WAuto where
  A : Type
  step : A → {β : Type} → Eff β → β → Option A

def Conf (M : WAuto) {α : Type} (Q : α → M.A → Prop) : M.A → Prog α → Prop
  | a, .ret x => Q x a
  | a, .eff e k => (e.readOnly = true ∧ ∀ r, Conf M Q a (k r)) ∨ (∀ r, ∃ a', M.step a e r = some a' ∧ Conf M Q a' (k r))

def Sound (M : WAuto) (Rel : M.A → DB → Prop) : Prop :=
  ∀ (a a' : M.A) {β : Type} (e : Eff β) (w : World), M.step a e (exec w e).2 = some a' → Rel a w.db → Rel a' (exec w e).1.db

theorem conf_runN (M : WAuto) (Rel : M.A → DB → Prop) (hs : Sound M Rel) {α : Type} (Q : α → M.A → Prop)
    (p : Prog α) (n : Nat) (w : World) (a : M.A) (hc : Conf M Q a p) (hr : Rel a w.db) :
    ∃ a', Rel a' (p.runN n w).1.db := by
  induction p generalizing n w a with
  | ret x => exact ⟨a, by cases n <;> exact hr⟩
  | eff e k ih =>
    cases n with
    | zero => exact ⟨a, hr⟩
    | succ n =>
      simp only [Prog.runN]
      rcases hc with ⟨hro, hk⟩ | hk
      · exact ih _ n _ a (hk _) (by rw [exec_readOnly_db w e hro]; exact hr)
      · obtain ⟨a', hst, hc'⟩ := hk (exec w e).2
        exact ih _ n _ a' hc' (hs a a' e w hst hr)

theorem Conf.mono (M : WAuto) {α : Type} {Q Q' : α → M.A → Prop} (hq : ∀ x a, Q x a → Q' x a) (p : Prog α) :
    ∀ a, Conf M Q a p → Conf M Q' a p := by
  induction p with
  | ret x => intro a h; exact hq x a h
  | eff e k ih =>
    intro a h
    rcases h with ⟨hro, hk⟩ | hk
    · exact Or.inl ⟨hro, fun r => ih r a (hk r)⟩
    · exact Or.inr fun r => let ⟨a', h1, h2⟩ := hk r; ⟨a', h1, ih r a' h2⟩

theorem Conf.bind (M : WAuto) {α β : Type} (Q : α → M.A → Prop) (Q' : β → M.A → Prop) (p : Prog α) (f : α → Prog β) :
    ∀ a, Conf M Q a p → (∀ x a', Q x a' → Conf M Q' a' (f x)) → Conf M Q' a (p >>= f) := by
  show ∀ a, Conf M Q a p → _ → Conf M Q' a (Prog.bind p f)
  induction p with
  | ret x => intro a h hf; exact hf x a h
  | eff e k ih =>
    intro a h hf
    rcases h with ⟨hro, hk⟩ | hk
    · exact Or.inl ⟨hro, fun r => ih r a (hk r) hf⟩
    · exact Or.inr fun r => let ⟨a', h1, h2⟩ := hk r; ⟨a', h1, ih r a' h2 hf⟩

/-- the bind of `PM = ExceptT E Prog`: an error result is passed through in the abstract state it was raised in -/
theorem Conf.pmBind (M : WAuto) {α β : Type} (Q : Except E α → M.A → Prop) (Q' : Except E β → M.A → Prop)
    (x : PM α) (f : α → PM β) (a : M.A) (hx : Conf M Q a x.run)
    (hok : ∀ v a', Q (.ok v) a' → Conf M Q' a' (f v).run)
    (herr : ∀ e a', Q (.error e) a' → Q' (.error e) a') : Conf M Q' a (x >>= f).run := by
  show Conf M Q' a (x.run >>= ExceptT.bindCont f)
  apply Conf.bind M Q Q' _ _ a hx
  intro r a' hq
  cases r with
  | ok v => exact hok v a' hq
  | error e => exact herr e a' hq

/-- a program without writes stays where it is -/
theorem Conf.ofNoWrites (M : WAuto) {α : Type} (p : Prog α) (h : NoWrites p) (a : M.A) : Conf M (fun _ a' => a' = a) a p := by
  induction p with
  | ret x => rfl
  | eff e k ih => exact Or.inl ⟨h.1, fun r => ih r (h.2 r)⟩

end Gonuts.Model.Mint
