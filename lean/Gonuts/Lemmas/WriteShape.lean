import Gonuts.Lemmas.SwapCrash
/-!
  Lemmas.WriteShape — a small Hoare logic for the WRITES of a program, and with it every state a killed or faulted
  `MintTokens` can leave behind.

  A *write automaton* abstracts the tables: each write effect, with the result the storage gave, moves an abstract state
  (or is not allowed there).  `Conf a Q p`: started in abstract state `a`, every path of `p` performs only allowed writes,
  and every result `x` is returned in an abstract state satisfying `Q x` — a syntactic property of the decision tree,
  proved by walking the binds (`Conf.bind`, `Conf.pmBind`).  `conf_runN`: if the automaton is sound for the storage
  semantics (`Sound`, one case per write effect), then after ANY number of calls — kill — and with or without an armed
  fault, the tables are in the relation of SOME abstract state.
-/
namespace Gonuts.Model.Mint

structure WAuto where
  A : Type
  /-- effects the automaton does not look at; they must not change a table -/
  isRead : {β : Type} → Eff β → Bool
  isRead_ro : ∀ {β : Type} (e : Eff β), isRead e = true → e.readOnly = true
  step : A → {β : Type} → Eff β → β → Option A

def Conf (M : WAuto) {α : Type} (Q : α → M.A → Prop) : M.A → Prog α → Prop
  | a, .ret x => Q x a
  | a, .eff e k => (M.isRead e = true ∧ ∀ r, Conf M Q a (k r)) ∨ (∀ r, ∃ a', M.step a e r = some a' ∧ Conf M Q a' (k r))

def Sound (M : WAuto) (Rel : M.A → DB → Prop) : Prop :=
  ∀ (a a' : M.A) {β : Type} (e : Eff β) (w : World), M.step a e (exec w e).2 = some a' → Rel a w.db → Rel a' (exec w e).1.db

theorem conf_runN (M : WAuto) (Rel : M.A → DB → Prop) (hs : Sound M Rel) {α : Type} (Q : α → M.A → Prop)
    (p : Prog α) (n : Nat) (w : World) (a : M.A) (hc : Conf M Q a p) (hr : Rel a w.db) :
    ∃ a', Rel a' (p.runN n w).1.db := by
  induction p generalizing n w a with
  | ret x => exact ⟨a, by cases n <;> exact hr⟩
  | eff e k ih =>
    cases n with
    | zero => exact ⟨a, hr⟩
    | succ n =>
      simp only [Prog.runN]
      rcases hc with ⟨hro, hk⟩ | hk
      · exact ih _ n _ a (hk _) (by rw [exec_readOnly_db w e (M.isRead_ro e hro)]; exact hr)
      · obtain ⟨a', hst, hc'⟩ := hk (exec w e).2
        exact ih _ n _ a' hc' (hs a a' e w hst hr)

theorem Conf.mono (M : WAuto) {α : Type} {Q Q' : α → M.A → Prop} (hq : ∀ x a, Q x a → Q' x a) (p : Prog α) :
    ∀ a, Conf M Q a p → Conf M Q' a p := by
  induction p with
  | ret x => intro a h; exact hq x a h
  | eff e k ih =>
    intro a h
    rcases h with ⟨hro, hk⟩ | hk
    · exact Or.inl ⟨hro, fun r => ih r a (hk r)⟩
    · exact Or.inr fun r => let ⟨a', h1, h2⟩ := hk r; ⟨a', h1, ih r a' h2⟩

theorem Conf.bind (M : WAuto) {α β : Type} (Q : α → M.A → Prop) (Q' : β → M.A → Prop) (p : Prog α) (f : α → Prog β) :
    ∀ a, Conf M Q a p → (∀ x a', Q x a' → Conf M Q' a' (f x)) → Conf M Q' a (p >>= f) := by
  show ∀ a, Conf M Q a p → _ → Conf M Q' a (Prog.bind p f)
  induction p with
  | ret x => intro a h hf; exact hf x a h
  | eff e k ih =>
    intro a h hf
    rcases h with ⟨hro, hk⟩ | hk
    · exact Or.inl ⟨hro, fun r => ih r a (hk r) hf⟩
    · exact Or.inr fun r => let ⟨a', h1, h2⟩ := hk r; ⟨a', h1, ih r a' h2 hf⟩

/-- the bind of `PM = ExceptT E Prog`: an error result is passed through in the abstract state it was raised in -/
theorem Conf.pmBind (M : WAuto) {α β : Type} (Q : Except E α → M.A → Prop) (Q' : Except E β → M.A → Prop)
    (x : PM α) (f : α → PM β) (a : M.A) (hx : Conf M Q a x.run)
    (hok : ∀ v a', Q (.ok v) a' → Conf M Q' a' (f v).run)
    (herr : ∀ e a', Q (.error e) a' → Q' (.error e) a') : Conf M Q' a (x >>= f).run := by
  show Conf M Q' a (x.run >>= ExceptT.bindCont f)
  apply Conf.bind M Q Q' _ _ a hx
  intro r a' hq
  cases r with
  | ok v => exact hok v a' hq
  | error e => exact herr e a' hq

/-- a program whose effects the automaton does not look at stays where it is -/
def AllRead (M : WAuto) {α : Type} : Prog α → Prop
  | .ret _ => True
  | .eff e k => M.isRead e = true ∧ ∀ r, AllRead M (k r)

theorem Conf.ofAllRead (M : WAuto) {α : Type} (p : Prog α) (h : AllRead M p) (a : M.A) : Conf M (fun _ a' => a' = a) a p := by
  induction p with
  | ret x => rfl
  | eff e k ih => exact Or.inl ⟨h.1, fun r => ih r (h.2 r)⟩

/-- for automata that look at every write (and only at writes) -/
theorem AllRead.ofNoWrites (M : WAuto) (hM : ∀ {β : Type} (e : Eff β), e.readOnly = true → M.isRead e = true)
    {α : Type} (p : Prog α) (h : NoWrites p) : AllRead M p := by
  induction p with
  | ret x => trivial
  | eff e k ih => exact ⟨hM e h.1, fun r => ih r (h.2 r)⟩

/-! ## the moment before a call

  `nextN p n w`: the world after `n` calls of `p` and the effect `p` is about to perform next (`none`: `p` has returned
  before).  `conf_next`: at that moment the tables are in the relation of an abstract state in which that effect is allowed
  — so an effect the automaton allows in ONE state only is only ever performed with the tables in that state. -/

def Prog.nextN {α : Type} : Prog α → Nat → World → Option (World × (Σ β : Type, Eff β))
  | .ret _, _, _ => none
  | .eff e _, 0, w => some (w, ⟨_, e⟩)
  | .eff e k, n + 1, w => (k (exec w e).2).nextN n (exec w e).1

theorem conf_next (M : WAuto) (Rel : M.A → DB → Prop) (hs : Sound M Rel) {α : Type} (Q : α → M.A → Prop)
    (p : Prog α) (n : Nat) (w : World) (a : M.A) (hc : Conf M Q a p) (hr : Rel a w.db)
    (w' : World) (β : Type) (e : Eff β) (hn : p.nextN n w = some (w', ⟨β, e⟩)) :
    ∃ a', Rel a' w'.db ∧ (M.isRead e = true ∨ ∀ r, ∃ a'', M.step a' e r = some a'') := by
  induction p generalizing n w a with
  | ret x => cases n <;> cases hn
  | eff e0 k ih =>
    cases n with
    | zero =>
      simp only [Prog.nextN, Option.some.injEq, Prod.mk.injEq] at hn
      obtain ⟨rfl, he⟩ := hn
      cases he
      refine ⟨a, hr, ?_⟩
      rcases hc with ⟨hro, _⟩ | hk
      · exact Or.inl hro
      · exact Or.inr fun r => let ⟨a', h1, _⟩ := hk r; ⟨a', h1⟩
    | succ n =>
      simp only [Prog.nextN] at hn
      rcases hc with ⟨hro, hk⟩ | hk
      · exact ih _ n _ a (hk _) (by rw [exec_readOnly_db w e0 (M.isRead_ro e0 hro)]; exact hr) hn
      · obtain ⟨a', hst, hc'⟩ := hk (exec w e0).2
        exact ih _ n _ a' hc' (hs a a' e0 w hst hr) hn

end Gonuts.Model.Mint
