import Gonuts.Model.Wire
/-!
  Lemmas for `Model.Wire` (C20): strings and cache keys, the cache as a finite map (lookup equations for
  `get` / `set` / `del` / `deleteExpired`, uniqueness of keys, the `limit + 1` bound), the sorted key map,
  routing facts, and the equations of `handleX` for a request that reaches a handler.
-/
namespace Gonuts.Model.Wire
open Gonuts.Model.Mint

/-! ## Strings -/

def nul : Char := Char.ofNat 0

theorem keySep_toList : keySep.toList = [nul] := by decide

theorem key_toList (r : Request) :
    r.key.toList = r.method.toList ++ nul :: (r.url.toList ++ nul :: r.body.toList) := by
  simp [Request.key, String.toList_append, keySep_toList]

/-- A string that contains `/` differs from a string that does not. -/
theorem ne_of_slash {a b : String} (ha : '/' ∈ a.toList) (hb : '/' ∉ b.toList) : a ≠ b := by
  intro h; subst h; exact hb ha

/-- The key of a cached POST contains `/` as soon as its URL does. -/
theorem key_has_slash (r : Request) (h : '/' ∈ r.url.toList) : '/' ∈ r.key.toList := by
  rw [key_toList]; simp [h]

/-- Splitting at the first occurrence of a separator is unique. -/
theorem split_at_sep {α : Type} {c : α} : ∀ {a b x y : List α}, c ∉ a → c ∉ b → a ++ c :: x = b ++ c :: y → a = b ∧ x = y
  | [], [], _, _, _, _, h => by simpa using h
  | [], d :: b, _, _, _, hb, h => by
    simp only [List.nil_append, List.cons_append, List.cons.injEq] at h
    exact absurd (h.1 ▸ List.mem_cons_self ..) hb
  | d :: a, [], _, _, ha, _, h => by
    simp only [List.nil_append, List.cons_append, List.cons.injEq] at h
    exact absurd (h.1 ▸ List.mem_cons_self ..) ha
  | d :: a, e :: b, x, y, ha, hb, h => by
    simp only [List.cons_append, List.cons.injEq] at h
    obtain ⟨h1, h2⟩ := split_at_sep (a := a) (b := b) (fun hm => ha (List.mem_cons_of_mem _ hm))
      (fun hm => hb (List.mem_cons_of_mem _ hm)) h.2
    exact ⟨by rw [h.1, h1], h2⟩

/-- Method and URL of a request never contain a NUL byte (net/http rejects control characters in the request line). -/
structure NoNul (r : Request) : Prop where
  method : nul ∉ r.method.toList
  url : nul ∉ r.url.toList

/-- The key (fix 65f9524: NUL separators) determines method, URL and body. -/
theorem key_inj {r₁ r₂ : Request} (h₁ : NoNul r₁) (h₂ : NoNul r₂) (h : r₁.key = r₂.key) :
    r₁.method = r₂.method ∧ r₁.url = r₂.url ∧ r₁.body = r₂.body := by
  have h' := congrArg String.toList h
  rw [key_toList, key_toList] at h'
  obtain ⟨hm, hrest⟩ := split_at_sep h₁.method h₂.method h'
  obtain ⟨hu, hb⟩ := split_at_sep h₁.url h₂.url hrest
  exact ⟨String.toList_inj.mp hm, String.toList_inj.mp hu, String.toList_inj.mp hb⟩

/-! ## The cache as a finite map -/

/-- Keys are unique (it is a Go map). -/
def Cache.WF (c : Cache) : Prop := (c.map (·.1)).Nodup

theorem Cache.wf_nil : Cache.WF [] := List.nodup_nil

theorem lookup_nil (k : String) : Cache.lookup [] k = none := rfl

theorem lookup_cons (e : String × String × Int) (c : Cache) (k : String) :
    Cache.lookup (e :: c) k = if e.1 = k then some e.2 else Cache.lookup c k := by
  unfold Cache.lookup
  by_cases h : e.1 = k
  · simp [h]
  · simp [h]

theorem lookup_some_mem {c : Cache} {k v : String} {e : Int} (h : c.lookup k = some (v, e)) : (k, v, e) ∈ c := by
  induction c with
  | nil => simp [lookup_nil] at h
  | cons x c ih =>
    rw [lookup_cons] at h
    by_cases hx : x.1 = k
    · simp [hx] at h
      have : x = (k, v, e) := by
        obtain ⟨a, b⟩ := x
        simp at hx h; subst hx; subst h; rfl
      simp [this]
    · simp [hx] at h
      exact List.mem_cons_of_mem _ (ih h)

theorem lookup_none_iff {c : Cache} {k : String} : c.lookup k = none ↔ ∀ e ∈ c, e.1 ≠ k := by
  induction c with
  | nil => simp [lookup_nil]
  | cons x c ih =>
    rw [lookup_cons]
    by_cases hx : x.1 = k
    · simp [hx]
    · simp [hx, ih]

/-- With unique keys a member is what `lookup` finds. -/
theorem lookup_of_mem {c : Cache} (hwf : c.WF) {k v : String} {e : Int} (h : (k, v, e) ∈ c) : c.lookup k = some (v, e) := by
  induction c with
  | nil => simp at h
  | cons x c ih =>
    rw [lookup_cons]
    have hnd : x.1 ∉ c.map (·.1) ∧ Cache.WF c := by
      simpa [Cache.WF, List.nodup_cons] using hwf
    rcases List.mem_cons.mp h with h | h
    · subst h; simp
    · have hne : x.1 ≠ k := by
        intro hk
        apply hnd.1
        rw [hk]
        exact List.mem_map.mpr ⟨(k, v, e), h, rfl⟩
      simp [hne, ih hnd.2 h]

theorem del_sub (c : Cache) (k : String) : ∀ e ∈ c.del k, e ∈ c := by
  intro e he; exact (List.mem_filter.mp he).1

theorem lookup_del_self (c : Cache) (k : String) : (c.del k).lookup k = none := by
  rw [lookup_none_iff]
  intro e he
  have := (List.mem_filter.mp he).2
  simpa using this

theorem lookup_del_ne (c : Cache) {k k' : String} (h : k' ≠ k) : (c.del k).lookup k' = c.lookup k' := by
  induction c with
  | nil => rfl
  | cons x c ih =>
    unfold Cache.del at *
    by_cases hx : x.1 = k
    · have hkk : k ≠ k' := fun h' => h h'.symm
      simp [hx, lookup_cons, hkk, ih]
    · simp [hx, lookup_cons, ih]

theorem wf_filter {c : Cache} (hwf : c.WF) (p : String × String × Int → Bool) : Cache.WF (c.filter p) := by
  unfold Cache.WF at *
  exact List.Nodup.sublist (List.Sublist.map _ List.filter_sublist) hwf

theorem wf_del {c : Cache} (hwf : c.WF) (k : String) : (c.del k).WF := wf_filter hwf _

theorem wf_deleteExpired {c : Cache} (hwf : c.WF) (now : Int) : (c.deleteExpired now).WF := wf_filter hwf _

theorem wf_set {c : Cache} (hwf : c.WF) (k v : String) (e : Int) (limit : Nat) : (c.set k v e limit).WF := by
  unfold Cache.set
  split
  · unfold Cache.WF
    simp only [List.map_cons, List.nodup_cons]
    refine ⟨?_, wf_del hwf k⟩
    intro hmem
    obtain ⟨x, hx, hk⟩ := List.mem_map.mp hmem
    have := (List.mem_filter.mp hx).2
    simp at this
    exact this hk
  · exact hwf

theorem lookup_set_self {c : Cache} {k v : String} {e : Int} {limit : Nat} (h : c.length ≤ limit) :
    (c.set k v e limit).lookup k = some (v, e) := by
  simp [Cache.set, h, lookup_cons]

theorem lookup_set_ne {c : Cache} {k k' v : String} {e : Int} {limit : Nat} (hne : k' ≠ k) :
    (c.set k v e limit).lookup k' = c.lookup k' := by
  unfold Cache.set
  split
  · rw [lookup_cons]
    have : k ≠ k' := fun h => hne h.symm
    simp [this, lookup_del_ne c hne]
  · rfl

/-- When the map already holds more than `limit` entries nothing is stored — not even over an existing key. -/
theorem set_full {c : Cache} {k v : String} {e : Int} {limit : Nat} (h : limit < c.length) : c.set k v e limit = c := by
  simp [Cache.set, Nat.not_le.mpr h]

theorem length_del_le (c : Cache) (k : String) : (c.del k).length ≤ c.length := List.length_filter_le _ _

/-- The map never grows beyond `limit + 1` entries (and reaches it: `Props.C20.cache_limit_plus_one`). -/
theorem length_set_le {c : Cache} {k v : String} {e : Int} {limit : Nat} (h : c.length ≤ limit + 1) :
    (c.set k v e limit).length ≤ limit + 1 := by
  unfold Cache.set
  split
  · simp only [List.length_cons]
    have := length_del_le c k
    omega
  · exact h

theorem get_eq (c : Cache) (k : String) (now : Int) :
    c.get k now = match c.lookup k with
      | none => (c, none)
      | some (v, exp) => (if expired now exp then c.del k else c, some v) := rfl

theorem get_none {c : Cache} {k : String} {now : Int} (h : c.lookup k = none) : c.get k now = (c, none) := by
  rw [get_eq, h]

theorem get_some {c : Cache} {k v : String} {e now : Int} (h : c.lookup k = some (v, e)) :
    c.get k now = (if expired now e then c.del k else c, some v) := by
  rw [get_eq, h]

theorem get_found_iff (c : Cache) (k : String) (now : Int) : (c.get k now).2 = none ↔ c.lookup k = none := by
  rw [get_eq]
  cases h : c.lookup k with
  | none => simp
  | some x => obtain ⟨v, e⟩ := x; simp

/-- `Get` of one key never changes what another key maps to. -/
theorem lookup_get_ne (c : Cache) {k k' : String} (now : Int) (h : k' ≠ k) : (c.get k now).1.lookup k' = c.lookup k' := by
  rw [get_eq]
  cases hk : c.lookup k with
  | none => rfl
  | some x =>
    obtain ⟨v, e⟩ := x
    simp only
    split
    · exact lookup_del_ne c h
    · rfl

/-- `Get` of a key that is not expired changes nothing. -/
theorem get_fresh {c : Cache} {k v : String} {e now : Int} (h : c.lookup k = some (v, e)) (hne : ¬ e < now) :
    c.get k now = (c, some v) := by
  rw [get_some h]
  simp [expired, hne]

theorem wf_get {c : Cache} (hwf : c.WF) (k : String) (now : Int) : (c.get k now).1.WF := by
  rw [get_eq]
  cases hk : c.lookup k with
  | none => exact hwf
  | some x =>
    obtain ⟨v, e⟩ := x
    simp only
    split
    · exact wf_del hwf k
    · exact hwf

/-- After filtering a map with unique keys, what a key maps to is unchanged or gone. -/
theorem lookup_filter {c : Cache} (hwf : c.WF) (p : String × String × Int → Bool) (k : String) :
    Cache.lookup (c.filter p) k = match c.lookup k with
      | some (v, e) => if p (k, v, e) then some (v, e) else none
      | none => none := by
  cases hk : c.lookup k with
  | none =>
    simp only
    rw [lookup_none_iff] at hk ⊢
    intro e he
    exact hk e (List.mem_filter.mp he).1
  | some x =>
    obtain ⟨v, e⟩ := x
    simp only
    have hmem := lookup_some_mem hk
    by_cases hp : p (k, v, e)
    · simp only [hp, if_true]
      exact lookup_of_mem (wf_filter hwf p) (List.mem_filter.mpr ⟨hmem, hp⟩)
    · have hp' : p (k, v, e) = false := by simpa using hp
      simp only [hp', Bool.false_eq_true, if_false]
      rw [lookup_none_iff]
      intro y hy hyk
      obtain ⟨hyc, hyp⟩ := List.mem_filter.mp hy
      obtain ⟨a, b, d⟩ := y
      simp at hyk; subst hyk
      have := lookup_of_mem hwf hyc
      rw [hk] at this
      simp at this
      obtain ⟨h1, h2⟩ := this
      subst h1; subst h2
      exact hp hyp

theorem lookup_deleteExpired {c : Cache} (hwf : c.WF) (now : Int) (k : String) :
    (c.deleteExpired now).lookup k = match c.lookup k with
      | some (v, e) => if e < now then none else some (v, e)
      | none => none := by
  unfold Cache.deleteExpired
  rw [lookup_filter hwf]
  cases c.lookup k with
  | none => rfl
  | some x =>
    obtain ⟨v, e⟩ := x
    by_cases h : e < now <;> simp [expired, h]

/-! ## Sorted key map -/

theorem insertAmt_perm (a : UInt64) (l : List UInt64) : (insertAmt a l).Perm (a :: l) := by
  induction l with
  | nil => exact List.Perm.refl _
  | cons b rest ih =>
    unfold insertAmt
    split
    · exact List.Perm.refl _
    · exact (List.Perm.cons b ih).trans (List.Perm.swap a b rest)

theorem sortAmts_perm (l : List UInt64) : (sortAmts l).Perm l := by
  induction l with
  | nil => exact List.Perm.refl _
  | cons a rest ih =>
    unfold sortAmts
    exact (insertAmt_perm a _).trans (List.Perm.cons a ih)

theorem insertAmt_sorted (a : UInt64) {l : List UInt64} (h : l.Pairwise (· ≤ ·)) : (insertAmt a l).Pairwise (· ≤ ·) := by
  induction l with
  | nil => simp [insertAmt]
  | cons b rest ih =>
    unfold insertAmt
    obtain ⟨hb, hrest⟩ := List.pairwise_cons.mp h
    split
    · rename_i hab
      refine List.pairwise_cons.mpr ⟨?_, h⟩
      intro x hx
      rcases List.mem_cons.mp hx with hx | hx
      · subst hx; exact hab
      · exact UInt64.le_trans hab (hb x hx)
    · rename_i hab
      have hba : b ≤ a := by
        rcases UInt64.le_total a b with h' | h'
        · exact absurd h' hab
        · exact h'
      refine List.pairwise_cons.mpr ⟨?_, ih hrest⟩
      intro x hx
      have := (insertAmt_perm a rest).mem_iff.mp hx
      rcases List.mem_cons.mp this with hx' | hx'
      · subst hx'; exact hba
      · exact hb x hx'

theorem sortAmts_sorted (l : List UInt64) : (sortAmts l).Pairwise (· ≤ ·) := by
  induction l with
  | nil => simp [sortAmts]
  | cons a rest ih => unfold sortAmts; exact insertAmt_sorted a ih

/-- Two ascending lists with the same elements are equal. -/
theorem sorted_perm_eq : ∀ {l₁ l₂ : List UInt64}, l₁.Pairwise (· ≤ ·) → l₂.Pairwise (· ≤ ·) → l₁.Perm l₂ → l₁ = l₂
  | [], l₂, _, _, hp => by simpa using hp.symm.eq_nil
  | a :: l₁, [], _, _, hp => by simpa using hp.eq_nil
  | a :: l₁, b :: l₂, h₁, h₂, hp => by
    obtain ⟨ha, h₁'⟩ := List.pairwise_cons.mp h₁
    obtain ⟨hb, h₂'⟩ := List.pairwise_cons.mp h₂
    have hab : a = b := by
      have ha_mem : a ∈ b :: l₂ := hp.mem_iff.mp (List.mem_cons_self ..)
      have hb_mem : b ∈ a :: l₁ := hp.mem_iff.mpr (List.mem_cons_self ..)
      rcases List.mem_cons.mp ha_mem with h | h
      · exact h
      · rcases List.mem_cons.mp hb_mem with h' | h'
        · exact h'.symm
        · exact UInt64.le_antisymm (ha b h') (hb a h)
    subst hab
    rw [sorted_perm_eq h₁' h₂' (List.Perm.cons_inv hp)]

/-- `PublicKeys.MarshalJSON` does not depend on the iteration order of the Go map. -/
theorem sortAmts_order_independent {l₁ l₂ : List UInt64} (h : l₁.Perm l₂) : sortAmts l₁ = sortAmts l₂ :=
  sorted_perm_eq (sortAmts_sorted _) (sortAmts_sorted _) ((sortAmts_perm l₁).trans (h.trans (sortAmts_perm l₂).symm))

theorem sortAmts_strict {l : List UInt64} (hnd : l.Nodup) : (sortAmts l).Pairwise (· < ·) := by
  have hs := sortAmts_sorted l
  have hn : (sortAmts l).Nodup := (sortAmts_perm l).nodup_iff.mpr hnd
  exact (hs.and hn).imp (fun ⟨hle, hne⟩ => UInt64.lt_of_le_of_ne hle hne)

/-! ## Routing -/

theorem matchPat_vars {pat : List Seg} {segs : List String} {vars : List (String × String)}
    (h : matchPat pat segs = some vars) : ∀ kv ∈ vars, kv.2 ∈ segs ∧ kv.2 ≠ "" := by
  induction pat generalizing segs vars with
  | nil =>
    cases segs with
    | nil => simp [matchPat] at h; subst h; simp
    | cons x xs => simp [matchPat] at h
  | cons p ps ih =>
    cases segs with
    | nil => cases p <;> simp [matchPat] at h
    | cons x xs =>
      cases p with
      | lit s =>
        simp only [matchPat] at h
        split at h
        · intro kv hkv
          obtain ⟨h1, h2⟩ := ih h kv hkv
          exact ⟨List.mem_cons_of_mem _ h1, h2⟩
        · simp at h
      | var n =>
        simp only [matchPat] at h
        split at h
        · simp at h
        · rename_i hx
          cases hm : matchPat ps xs with
          | none => simp [hm] at h
          | some vs =>
            simp [hm] at h
            subst h
            intro kv hkv
            rcases List.mem_cons.mp hkv with hkv | hkv
            · subst hkv
              refine ⟨List.mem_cons_self .., ?_⟩
              intro h0
              apply hx
              show (x == "") = true
              simp only at h0
              simp [h0]
            · obtain ⟨h1, h2⟩ := ih hm kv hkv
              exact ⟨List.mem_cons_of_mem _ h1, h2⟩

theorem routeGo_vars {m : String} {segs : List String} {rs : List Route} {mm : Bool} {h : Handler}
    {vars : List (String × String)} (hr : routeGo m segs rs mm = .found h vars) : ∀ kv ∈ vars, kv.2 ∈ segs ∧ kv.2 ≠ "" := by
  induction rs generalizing mm with
  | nil => simp [routeGo] at hr; split at hr <;> simp at hr
  | cons r rest ih =>
    simp only [routeGo] at hr
    cases hm : matchPat r.pat segs with
    | none => rw [hm] at hr; exact ih hr
    | some vs =>
      rw [hm] at hr
      simp only at hr
      split at hr
      · injection hr with h1 h2
        subst h2
        exact matchPat_vars hm
      · exact ih hr

/-- A path variable is one of the path's segments (and not empty). -/
theorem route_vars {m : String} {segs : List String} {h : Handler} {vars : List (String × String)}
    (hr : route m segs = .found h vars) : ∀ kv ∈ vars, kv.2 ∈ segs ∧ kv.2 ≠ "" := routeGo_vars hr

theorem var?_mem {vars : List (String × String)} {n : String} (h : var? vars n ≠ "") :
    ∃ kv ∈ vars, kv.2 = var? vars n := by
  unfold var? at *
  cases hf : vars.find? (·.1 == n) with
  | none => simp [hf] at h
  | some kv => exact ⟨kv, List.mem_of_find?_eq_some hf, by simp⟩

/-! ## Well-formed requests -/

/-- What `net/http` + `net/url` guarantee about a request whose path matched a route: no segment of
    `strings.Split(path, "/")` contains `/`, and `URL.String()` (escaped path + query) contains `/`. -/
structure ReqWF (r : Request) : Prop where
  segs : ∀ s ∈ r.segs, '/' ∉ s.toList
  url : '/' ∈ r.url.toList

/-! ## `handleX` for a request that reaches a handler -/

/-- The request gets past routing, the middleware, the `{method}` check and decoding, into handler `h`
    with decoded request `p` and operation `op`. -/
structure Reaches (r : Request) (h : Handler) (p : Parsed) (op : Op) : Prop where
  clean : unclean r.segs = false
  notOptions : (r.method == "OPTIONS") = false
  routed : ∃ vars, route r.method r.segs = .found h vars ∧ (needsMethodVar h && var? vars "method" != bolt11) = false
  plain : h ≠ .serveWS ∧ h ≠ .getActiveKeysets ∧ h ≠ .getKeysetsList ∧ h ≠ .getKeysetById ∧ h ≠ .mintInfo
  decoded : (if readsBody h then decodeBody r else .ok .none) = .ok p
  op : opOf h p r = some op

theorem callHandler_plain {s : WSess} {h : Handler} {vars : List (String × String)} {r : Request}
    (hp : h ≠ .serveWS ∧ h ≠ .getActiveKeysets ∧ h ≠ .getKeysetsList ∧ h ≠ .getKeysetById ∧ h ≠ .mintInfo) :
    callHandler s h vars r = callOp s h vars r := by
  obtain ⟨h1, h2, h3, h4, h5⟩ := hp
  cases h <;> simp_all [callHandler]

theorem handleX_reaches {s : WSess} {r : Request} {h : Handler} {p : Parsed} {op : Op} (hr : Reaches r h p op) :
    handleX s r = runHandler s h p op r := by
  obtain ⟨vars, hroute, hmeth⟩ := hr.routed
  unfold handleX
  rw [hr.clean]
  simp only [Bool.false_eq_true, if_false, hroute, hr.notOptions]
  rw [callHandler_plain hr.plain]
  unfold callOp
  rw [hmeth]
  simp only [Bool.false_eq_true, if_false]
  rw [hr.decoded]
  simp only
  rw [hr.op]

theorem handle_eq (s : WSess) (r : Request) : handle s r = ((handleX s r).1, (handleX s r).2.1) := rfl

end Gonuts.Model.Wire

namespace Gonuts.Model.Wire
open Gonuts.Model.Mint

/-! ## What one request can do to the cache -/

/-- The four ways `handleX` can treat the cache (and, alongside, the mint session and the answer). -/
inductive CacheEffect (s : WSess) (r : Request) (x : WSess × Response × Info) : Prop where
  /-- cache untouched -/
  | same (h : x.1.cache = s.cache) (hi : ∀ k, x.2.2 ≠ .hit k) (hs : ∀ h op, x.2.2 ≠ .executed h op true)
  /-- a keyset handler: `Get key`, possibly followed by `Set key`, for a key without `/` -/
  | keys (key : String) (hk : '/' ∉ key.toList)
      (h : x.1.cache = (s.cache.get key s.now).1 ∨ ∃ v e, x.1.cache = ((s.cache.get key s.now).1).set key v e cacheLimit)
      (hi : ∀ k, x.2.2 ≠ .hit k) (hs : ∀ h op, x.2.2 ≠ .executed h op true)
  /-- NUT-19 hit: the stored bytes are the answer, the mint session is untouched, an expired entry is dropped -/
  | hit (v : String) (e : Int) (hl : s.cache.lookup r.key = some (v, e))
      (h : x.1.cache = if expired s.now e then s.cache.del r.key else s.cache)
      (hr : x.2.1 = ⟨200, v⟩) (hi : x.2.2 = .hit r.key) (hm : x.1.mint = s.mint)
  /-- NUT-19 miss on a cached handler whose operation succeeded with a body below the size limit: `Set` -/
  | store (t : Json) (h : Handler) (op : Op) (hl : s.cache.lookup r.key = none) (hc : isCached h = true)
      (hcache : x.1.cache = s.cache.set r.key t.render (s.now + cacheTtl) cacheLimit)
      (hr : x.2.1 = ⟨200, t.render⟩) (hi : x.2.2 = .executed h op (decide (s.cache.length ≤ cacheLimit)))

theorem runHandler_effect (s : WSess) (h : Handler) (p : Parsed) (op : Op) (r : Request) :
    CacheEffect s r (runHandler s h p op r) := by
  unfold runHandler
  by_cases hc : isCached h = true
  · simp only [hc, if_true]
    cases hl : s.cache.lookup r.key with
    | some x =>
      obtain ⟨v, e⟩ := x
      rw [get_some hl]
      exact .hit v e hl rfl rfl rfl rfl
    | none =>
      rw [get_none hl]
      simp only
      cases hx : execOp p op (armLn s.mint r.lnFail) with
      | mk m1 res =>
        cases res with
        | error e => exact .same rfl (by intro k; simp) (by intro h' op'; simp)
        | ok t =>
          simp only
          by_cases hb : r.bodyLen < bodyLimit
          · simp only [hb, if_true]
            exact .store t h op hl hc rfl rfl rfl
          · simp only [hb, if_false]
            exact .same rfl (by intro k; simp) (by intro h' op'; simp)
  · simp only [hc]
    cases hx : execOp p op (armLn s.mint r.lnFail) with
    | mk m1 res =>
      cases res with
      | error e => exact .same rfl (by intro k; simp) (by intro h' op'; simp)
      | ok t => exact .same rfl (by intro k; simp) (by intro h' op'; simp)

theorem callOp_effect (s : WSess) (h : Handler) (vars : List (String × String)) (r : Request) :
    CacheEffect s r (callOp s h vars r) := by
  unfold callOp
  split
  · exact .same rfl (by intro k; simp) (by intro h' op'; simp)
  · split
    · exact .same rfl (by intro k; simp) (by intro h' op'; simp)
    · split
      · exact .same rfl (by intro k; simp) (by intro h' op'; simp)
      · exact runHandler_effect s h _ _ r

theorem handleKeys_effect (s : WSess) (r : Request) (key : String) (ks : Option Nat) (hk : '/' ∉ key.toList) :
    CacheEffect s r (handleKeys s key ks) := by
  unfold handleKeys
  cases hg : s.cache.get key s.now with
  | mk c1 found =>
    have hc1 : c1 = (s.cache.get key s.now).1 := by rw [hg]
    cases found with
    | some bytes => exact .keys key hk (.inl hc1) (by intro k; simp) (by intro h' op'; simp)
    | none =>
      cases ks with
      | none => exact .keys key hk (.inl hc1) (by intro k; simp) (by intro h' op'; simp)
      | some i =>
        simp only
        exact .keys key hk (.inr ⟨_, _, by rw [hc1]⟩) (by intro k; simp) (by intro h' op'; simp)

theorem activeKey_no_slash : '/' ∉ activeKeysetKey.toList := by decide

theorem handleInfo_effect (s : WSess) (r : Request) : CacheEffect s r (handleInfo s) := by
  unfold handleInfo
  split <;> exact .same rfl (by intro k; simp) (by intro h' op'; simp)

theorem handleX_effect (s : WSess) (r : Request) (hwf : ReqWF r) : CacheEffect s r (handleX s r) := by
  unfold handleX
  split
  · exact .same rfl (by intro k; simp) (by intro h' op'; simp)
  · cases hroute : route r.method r.segs with
    | notFound => exact .same rfl (by intro k; simp) (by intro h' op'; simp)
    | methodNotAllowed => exact .same rfl (by intro k; simp) (by intro h' op'; simp)
    | found h vars =>
      simp only
      split
      · exact .same rfl (by intro k; simp) (by intro h' op'; simp)
      · unfold callHandler
        split
        · exact .same rfl (by intro k; simp) (by intro h' op'; simp)
        · exact handleKeys_effect s r _ _ activeKey_no_slash
        · exact .same rfl (by intro k; simp) (by intro h' op'; simp)
        · refine handleKeys_effect s r _ _ ?_
          by_cases hv : var? vars "id" = ""
          · rw [hv]; decide
          · obtain ⟨kv, hkv, heq⟩ := var?_mem hv
            rw [← heq]
            exact hwf.segs _ (route_vars hroute kv hkv).1
        · exact handleInfo_effect s r
        · exact callOp_effect s h vars r

end Gonuts.Model.Wire

namespace Gonuts.Model.Wire
open Gonuts.Model.Mint

/-! ## Histories with a log of the answered requests -/

structure LogEntry where
  req : Request
  resp : Response
  info : Info

/-- One event, returning the log entries it produces (requests only). -/
def stepLog (s : WSess) : Event → WSess × List LogEntry
  | .req r => ((handleX s r).1, [⟨r, (handleX s r).2.1, (handleX s r).2.2⟩])
  | e => (stepEvent s e, [])

def runLog (s : WSess) : List Event → WSess × List LogEntry
  | [] => (s, [])
  | e :: rest => ((runLog (stepLog s e).1 rest).1, (stepLog s e).2 ++ (runLog (stepLog s e).1 rest).2)

theorem stepLog_fst (s : WSess) (e : Event) : (stepLog s e).1 = stepEvent s e := by
  cases e <;> rfl

theorem runLog_fst (s : WSess) (evs : List Event) : (runLog s evs).1 = runEvents s evs := by
  induction evs generalizing s with
  | nil => rfl
  | cons e rest ih => simp only [runLog, runEvents, ih, stepLog_fst]

theorem runLog_append (s : WSess) (a b : List Event) :
    runLog s (a ++ b) = ((runLog (runLog s a).1 b).1, (runLog s a).2 ++ (runLog (runLog s a).1 b).2) := by
  induction a generalizing s with
  | nil => simp [runLog]
  | cons e rest ih => simp [runLog, ih, List.append_assoc]

/-- Every log entry is the answer to a request event of the history. -/
theorem runLog_mem {s : WSess} {evs : List Event} {x : LogEntry} (h : x ∈ (runLog s evs).2) : Event.req x.req ∈ evs := by
  induction evs generalizing s with
  | nil => simp [runLog] at h
  | cons e rest ih =>
    simp only [runLog, List.mem_append] at h
    rcases h with h | h
    · cases e with
      | req r =>
        simp only [stepLog, List.mem_singleton] at h
        subst h
        exact List.mem_cons_self ..
      | advance dt => simp [stepLog] at h
      | tick stale => simp [stepLog] at h
      | mintOp op => simp [stepLog] at h
      | restart rotate fee => simp [stepLog] at h
    · exact List.mem_cons_of_mem _ (ih h)

/-- Every request of the history is well formed (what net/http and mux guarantee). -/
def EventsWF (evs : List Event) : Prop := ∀ r, Event.req r ∈ evs → ReqWF r

/-- `k ↦ v` was stored by an *executed, successful* request to a cached handler with exactly this key. -/
def Stored (log : List LogEntry) (k v : String) : Prop :=
  ∃ x ∈ log, x.req.key = k ∧ x.resp = ⟨200, v⟩ ∧ ∃ h op, x.info = .executed h op true ∧ isCached h = true

theorem Stored.mono {log log' : List LogEntry} {k v : String} (h : Stored log k v) : Stored (log ++ log') k v := by
  obtain ⟨x, hx, rest⟩ := h
  exact ⟨x, List.mem_append_left _ hx, rest⟩

/-- Invariant: unique keys, at most `limit + 1` entries, and every entry whose key contains `/` (the NUT-19
    entries; keyset entries never do) was stored by an executed successful request with that very key, holding
    that request's response bytes. -/
structure CacheInv (log : List LogEntry) (c : Cache) : Prop where
  wf : c.WF
  size : c.length ≤ cacheLimit + 1
  prov : ∀ k v e, c.lookup k = some (v, e) → '/' ∈ k.toList → Stored log k v

theorem CacheInv.nil (log : List LogEntry) : CacheInv log [] :=
  ⟨Cache.wf_nil, Nat.zero_le _, by intro k v e h; simp [lookup_nil] at h⟩

theorem length_get_le (c : Cache) (k : String) (now : Int) : (c.get k now).1.length ≤ c.length := by
  rw [get_eq]
  cases c.lookup k with
  | none => exact Nat.le_refl _
  | some x =>
    obtain ⟨v, e⟩ := x
    simp only
    split
    · exact length_del_le c k
    · exact Nat.le_refl _

theorem lookup_get_sub {c : Cache} {k k' v : String} {e now : Int} (h : (c.get k now).1.lookup k' = some (v, e)) :
    c.lookup k' = some (v, e) := by
  by_cases hk : k' = k
  · subst hk
    rw [get_eq] at h
    cases hl : c.lookup k' with
    | none => rw [hl] at h; simpa [hl] using h
    | some x =>
      obtain ⟨v', e'⟩ := x
      rw [hl] at h
      simp only at h
      split at h
      · rw [lookup_del_self] at h; simp at h
      · rw [hl] at h; exact h
  · rwa [lookup_get_ne c now hk] at h

theorem CacheInv.step_req {log : List LogEntry} {s : WSess} {r : Request} (hinv : CacheInv log s.cache) (hwf : ReqWF r) :
    CacheInv (log ++ [⟨r, (handleX s r).2.1, (handleX s r).2.2⟩]) (handleX s r).1.cache := by
  have heff := handleX_effect s r hwf
  cases heff with
  | same h _ _ =>
    rw [h]
    exact ⟨hinv.wf, hinv.size, fun k v e hl hs => (hinv.prov k v e hl hs).mono⟩
  | keys key hk h _ _ =>
    rcases h with h | ⟨v', e', h⟩
    · rw [h]
      refine ⟨wf_get hinv.wf _ _, Nat.le_trans (length_get_le _ _ _) hinv.size, ?_⟩
      intro k v e hl hs
      exact (hinv.prov k v e (lookup_get_sub hl) hs).mono
    · rw [h]
      refine ⟨wf_set (wf_get hinv.wf _ _) _ _ _ _, length_set_le (Nat.le_trans (length_get_le _ _ _) hinv.size), ?_⟩
      intro k v e hl hs
      have hne : k ≠ key := fun heq => hk (heq ▸ hs)
      rw [lookup_set_ne hne] at hl
      exact (hinv.prov k v e (lookup_get_sub hl) hs).mono
  | hit v e hl h _ _ _ =>
    rw [h]
    split
    · refine ⟨wf_del hinv.wf _, Nat.le_trans (length_del_le _ _) hinv.size, ?_⟩
      intro k v' e' hl' hs
      by_cases hk : k = r.key
      · subst hk; rw [lookup_del_self] at hl'; simp at hl'
      · rw [lookup_del_ne _ hk] at hl'
        exact (hinv.prov k v' e' hl' hs).mono
    · exact ⟨hinv.wf, hinv.size, fun k v e hl hs => (hinv.prov k v e hl hs).mono⟩
  | store t h op hl hc hcache hr hi =>
    rw [hcache]
    refine ⟨wf_set hinv.wf _ _ _ _, length_set_le hinv.size, ?_⟩
    intro k v e hlk hs
    by_cases hk : k = r.key
    · subst hk
      by_cases hlen : s.cache.length ≤ cacheLimit
      · rw [lookup_set_self hlen] at hlk
        simp at hlk
        obtain ⟨hv, _⟩ := hlk
        subst hv
        refine ⟨⟨r, _, _⟩, List.mem_append_right _ (List.mem_singleton.mpr rfl), rfl, hr, h, op, ?_, hc⟩
        simp only [hi, hlen, decide_true]
      · rw [set_full (Nat.lt_of_not_le hlen), hl] at hlk
        simp at hlk
    · rw [lookup_set_ne hk] at hlk
      exact (hinv.prov k v e hlk hs).mono

theorem tick_cache (s : WSess) (stale : Bool) :
    (tick s stale).cache =
      (if stale then ((s.cache.get activeKeysetKey s.now).1).del activeKeysetKey else (s.cache.get activeKeysetKey s.now).1).deleteExpired s.now := rfl

theorem lookup_deleteExpired_sub {c : Cache} (hwf : c.WF) {now : Int} {k v : String} {e : Int}
    (h : (c.deleteExpired now).lookup k = some (v, e)) : c.lookup k = some (v, e) := by
  rw [lookup_deleteExpired hwf] at h
  cases hl : c.lookup k with
  | none => rw [hl] at h; simp at h
  | some x =>
    obtain ⟨v', e'⟩ := x
    rw [hl] at h
    simp only at h
    split at h
    · simp at h
    · exact h

theorem CacheInv.step {log : List LogEntry} {s : WSess} (e : Event) (hinv : CacheInv log s.cache)
    (hwf : ∀ r, e = .req r → ReqWF r) : CacheInv (log ++ (stepLog s e).2) (stepLog s e).1.cache := by
  cases e with
  | req r => exact hinv.step_req (hwf r rfl)
  | advance dt => simpa [stepLog, stepEvent, advance] using hinv
  | mintOp op => simpa [stepLog, stepEvent] using hinv
  | restart rotate fee => simpa [stepLog, stepEvent, newServer] using CacheInv.nil log
  | tick stale =>
    simp only [stepLog, stepEvent, List.append_nil]
    rw [tick_cache]
    have hg := wf_get hinv.wf activeKeysetKey s.now
    have hlen := length_get_le s.cache activeKeysetKey s.now
    split
    · refine ⟨wf_deleteExpired (wf_del hg _) _, ?_, ?_⟩
      · exact Nat.le_trans (List.length_filter_le _ _) (Nat.le_trans (length_del_le _ _) (Nat.le_trans hlen hinv.size))
      · intro k v e hl hs
        have h1 := lookup_deleteExpired_sub (wf_del hg _) hl
        have hne : k ≠ activeKeysetKey := fun heq => activeKey_no_slash (heq ▸ hs)
        rw [lookup_del_ne _ hne] at h1
        exact hinv.prov k v e (lookup_get_sub h1) hs
    · refine ⟨wf_deleteExpired hg _, ?_, ?_⟩
      · exact Nat.le_trans (List.length_filter_le _ _) (Nat.le_trans hlen hinv.size)
      · intro k v e hl hs
        exact hinv.prov k v e (lookup_get_sub (lookup_deleteExpired_sub hg hl)) hs

theorem CacheInv.run {log : List LogEntry} {s : WSess} (evs : List Event) (hinv : CacheInv log s.cache)
    (hwf : EventsWF evs) : CacheInv (log ++ (runLog s evs).2) (runLog s evs).1.cache := by
  induction evs generalizing s log with
  | nil => simpa [runLog] using hinv
  | cons e rest ih =>
    simp only [runLog]
    rw [← List.append_assoc]
    apply ih
    · exact hinv.step e (fun r hr => hwf r (hr ▸ List.mem_cons_self ..))
    · exact fun r hr => hwf r (List.mem_cons_of_mem _ hr)

/-! ## Retention: an entry stays until its TTL has passed (no restart in between) -/

def noRestart : Event → Bool
  | .restart .. => false
  | _ => true

def timeForward : Event → Bool
  | .advance dt => decide (0 ≤ dt)
  | _ => true

theorem runHandler_now (s : WSess) (h : Handler) (p : Parsed) (op : Op) (r : Request) :
    (runHandler s h p op r).1.now = s.now := by
  unfold runHandler
  by_cases hc : isCached h = true
  · simp only [hc, if_true]
    cases hg : s.cache.get r.key s.now with
    | mk c1 found =>
      cases found with
      | some b => rfl
      | none =>
        simp only
        cases hx : execOp p op (armLn s.mint r.lnFail) with
        | mk m1 res =>
          cases res with
          | error e => rfl
          | ok t => simp only; split <;> rfl
  · simp only [hc]
    cases hx : execOp p op (armLn s.mint r.lnFail) with
    | mk m1 res => cases res <;> rfl

theorem handleKeys_now (s : WSess) (key : String) (ks : Option Nat) : (handleKeys s key ks).1.now = s.now := by
  unfold handleKeys
  cases hg : s.cache.get key s.now with
  | mk c1 found => cases found <;> cases ks <;> rfl

theorem handleInfo_now (s : WSess) : (handleInfo s).1.now = s.now := by
  unfold handleInfo
  cases s.mint.runPM (infoProg (cxOf s.mint)) [] with
  | mk m1 res => cases res <;> rfl

theorem callOp_now (s : WSess) (h : Handler) (vars : List (String × String)) (r : Request) :
    (callOp s h vars r).1.now = s.now := by
  unfold callOp
  split
  · rfl
  · split
    · rfl
    · split
      · rfl
      · exact runHandler_now ..

theorem handleX_now (s : WSess) (r : Request) : (handleX s r).1.now = s.now := by
  unfold handleX
  split
  · rfl
  · cases hroute : route r.method r.segs with
    | notFound => rfl
    | methodNotAllowed => rfl
    | found h vars =>
      simp only
      split
      · rfl
      · unfold callHandler
        split
        · rfl
        · exact handleKeys_now ..
        · rfl
        · exact handleKeys_now ..
        · exact handleInfo_now ..
        · exact callOp_now ..

theorem stepEvent_now (s : WSess) (e : Event) (h : timeForward e = true) : s.now ≤ (stepEvent s e).now := by
  cases e with
  | req r =>
    simp only [stepEvent, handle_eq]
    rw [handleX_now]
    exact Int.le_refl _
  | advance dt => simp [timeForward] at h; simp [stepEvent, advance]; omega
  | tick stale => simp [stepEvent, tick]
  | mintOp op => simp [stepEvent]
  | restart rotate fee => simp [stepEvent, newServer]

/-- One event keeps a NUT-19 entry that is not expired at the event's time. -/
theorem retained_step {s : WSess} {k v : String} {exp : Int} (e : Event) (hwfc : s.cache.WF)
    (hl : s.cache.lookup k = some (v, exp)) (hs : '/' ∈ k.toList) (hnr : noRestart e = true)
    (hfresh : ¬ exp < (stepEvent s e).now) (htf : timeForward e = true) (hwf : ∀ r, e = .req r → ReqWF r) :
    (stepEvent s e).cache.lookup k = some (v, exp) := by
  have hnow := stepEvent_now s e htf
  have hfresh0 : ¬ exp < s.now := by omega
  cases e with
  | restart rotate fee => simp [noRestart] at hnr
  | advance dt => simpa [stepEvent, advance] using hl
  | mintOp op => simpa [stepEvent] using hl
  | tick stale =>
    simp only [stepEvent]
    rw [tick_cache]
    have hne : k ≠ activeKeysetKey := fun heq => activeKey_no_slash (heq ▸ hs)
    have hg : (s.cache.get activeKeysetKey s.now).1.lookup k = some (v, exp) := by
      rw [lookup_get_ne _ _ hne]; exact hl
    have hwg := wf_get hwfc activeKeysetKey s.now
    split
    · rw [lookup_deleteExpired (wf_del hwg _), lookup_del_ne _ hne, hg]
      simp [hfresh0]
    · rw [lookup_deleteExpired hwg, hg]
      simp [hfresh0]
  | req r =>
    simp only [stepEvent, handle_eq]
    have heff := handleX_effect s r (hwf r rfl)
    cases heff with
    | same h _ _ => rw [h]; exact hl
    | keys key hk h _ _ =>
      have hne : k ≠ key := fun heq => hk (heq ▸ hs)
      rcases h with h | ⟨v', e', h⟩
      · rw [h, lookup_get_ne _ _ hne]; exact hl
      · rw [h, lookup_set_ne hne, lookup_get_ne _ _ hne]; exact hl
    | hit v' e' hl' h _ _ _ =>
      rw [h]
      by_cases hk : k = r.key
      · subst hk
        rw [hl] at hl'
        simp at hl'
        obtain ⟨_, he⟩ := hl'
        subst he
        simp [expired, hfresh0, hl]
      · split
        · rw [lookup_del_ne _ hk]; exact hl
        · exact hl
    | store t h op hl' hc hcache _ _ =>
      have hk : k ≠ r.key := by
        intro heq; subst heq; rw [hl] at hl'; simp at hl'
      rw [hcache, lookup_set_ne hk]; exact hl

theorem wf_step {s : WSess} (e : Event) (hwfc : s.cache.WF) (hwf : ∀ r, e = .req r → ReqWF r) : (stepEvent s e).cache.WF := by
  cases e with
  | restart rotate fee => simpa [stepEvent, newServer] using Cache.wf_nil
  | advance dt => simpa [stepEvent, advance] using hwfc
  | mintOp op => simpa [stepEvent] using hwfc
  | tick stale =>
    simp only [stepEvent]
    rw [tick_cache]
    split
    · exact wf_deleteExpired (wf_del (wf_get hwfc _ _) _) _
    · exact wf_deleteExpired (wf_get hwfc _ _) _
  | req r =>
    simp only [stepEvent, handle_eq]
    have heff := handleX_effect s r (hwf r rfl)
    cases heff with
    | same h _ _ => rw [h]; exact hwfc
    | keys key hk h _ _ =>
      rcases h with h | ⟨v', e', h⟩
      · rw [h]; exact wf_get hwfc _ _
      · rw [h]; exact wf_set (wf_get hwfc _ _) _ _ _ _
    | hit v' e' hl' h _ _ _ =>
      rw [h]; split
      · exact wf_del hwfc _
      · exact hwfc
    | store t h op hl' hc hcache _ _ => rw [hcache]; exact wf_set hwfc _ _ _ _

theorem runEvents_now_mono (s : WSess) (evs : List Event) (htf : ∀ e ∈ evs, timeForward e = true) :
    s.now ≤ (runEvents s evs).now := by
  induction evs generalizing s with
  | nil => exact Int.le_refl _
  | cons e rest ih =>
    simp only [runEvents]
    have h1 := stepEvent_now s e (htf e (List.mem_cons_self ..))
    have h2 := ih (stepEvent s e) (fun e' he' => htf e' (List.mem_cons_of_mem _ he'))
    omega

/-- A NUT-19 entry stays in the cache over any history without restart during which time does not run backwards
    and at whose end the entry's expiry has not passed. -/
theorem retained_run {s : WSess} {k v : String} {exp : Int} (evs : List Event) (hwfc : s.cache.WF)
    (hl : s.cache.lookup k = some (v, exp)) (hs : '/' ∈ k.toList) (hnr : ∀ e ∈ evs, noRestart e = true)
    (htf : ∀ e ∈ evs, timeForward e = true) (hwf : EventsWF evs) (hfresh : ¬ exp < (runEvents s evs).now) :
    (runEvents s evs).cache.lookup k = some (v, exp) := by
  induction evs generalizing s with
  | nil => exact hl
  | cons e rest ih =>
    simp only [runEvents] at hfresh ⊢
    have hmono := runEvents_now_mono (stepEvent s e) rest (fun e' he' => htf e' (List.mem_cons_of_mem _ he'))
    have hwfe : ∀ r, e = .req r → ReqWF r := fun r hr => hwf r (hr ▸ List.mem_cons_self ..)
    apply ih (wf_step e hwfc hwfe)
    · exact retained_step e hwfc hl hs (hnr e (List.mem_cons_self ..)) (by omega) (htf e (List.mem_cons_self ..)) hwfe
    · exact fun e' he' => hnr e' (List.mem_cons_of_mem _ he')
    · exact fun e' he' => htf e' (List.mem_cons_of_mem _ he')
    · exact fun r hr => hwf r (List.mem_cons_of_mem _ hr)
    · exact hfresh

end Gonuts.Model.Wire

namespace Gonuts.Model.Wire
open Gonuts.Model.Mint

/-! ## The answer of an executed request -/

/-- The response `runHandler` writes for the outcome of the operation. -/
def respOf (h : Handler) : Except E Json → Response
  | .ok t => ok200 t
  | .error e => errResp (mapErr h e)

/-- Not served from the cache: the handler is not a cached one, or the key is absent. -/
def Miss (s : WSess) (h : Handler) (r : Request) : Prop := isCached h = false ∨ s.cache.lookup r.key = none

theorem runHandler_miss {s : WSess} {h : Handler} {p : Parsed} {op : Op} {r : Request} (hm : Miss s h r) :
    (runHandler s h p op r).1.mint = (execOp p op (armLn s.mint r.lnFail)).1 ∧
    (runHandler s h p op r).2.1 = respOf h (execOp p op (armLn s.mint r.lnFail)).2 := by
  unfold runHandler
  by_cases hc : isCached h = true
  · have hl : s.cache.lookup r.key = none := by
      rcases hm with hm | hm
      · rw [hc] at hm; simp at hm
      · exact hm
    simp only [hc, if_true]
    rw [get_none hl]
    simp only
    cases hx : execOp p op (armLn s.mint r.lnFail) with
    | mk m1 res =>
      cases res with
      | error e => exact ⟨rfl, rfl⟩
      | ok t => simp only; split <;> exact ⟨rfl, rfl⟩
  · simp only [hc]
    cases hx : execOp p op (armLn s.mint r.lnFail) with
    | mk m1 res => cases res <;> exact ⟨rfl, rfl⟩

theorem runHandler_hit {s : WSess} {h : Handler} {p : Parsed} {op : Op} {r : Request} {v : String} {e : Int}
    (hc : isCached h = true) (hl : s.cache.lookup r.key = some (v, e)) :
    runHandler s h p op r =
      ({ s with cache := if expired s.now e then s.cache.del r.key else s.cache }, ⟨200, v⟩, .hit r.key) := by
  unfold runHandler
  simp only [hc, if_true]
  rw [get_some hl]

def exceptOk {ε α : Type} : Except ε α → Bool
  | .ok _ => true
  | .error _ => false

theorem respOf_status (h : Handler) (x : Except E Json) :
    (respOf h x).status = if exceptOk x then 200 else 400 := by
  cases x <;> rfl

/-- Each operation answers with its own result constructor. -/
theorem applyOp_shape (m : Sess) (op : Op) :
    match op with
    | .mintQuote .. => ∃ x, (applyOp m op).2 = .mintQuote x
    | .quoteState .. => ∃ x, (applyOp m op).2 = .quoteState x
    | .mint .. => ∃ x, (applyOp m op).2 = .sigs x
    | .swap .. => ∃ x, (applyOp m op).2 = .sigs x
    | .meltQuote .. => ∃ x, (applyOp m op).2 = .meltQuote x
    | .melt .. => ∃ x, (applyOp m op).2 = .melt x
    | .meltState .. => ∃ x, (applyOp m op).2 = .melt x
    | .checkState .. => ∃ x, (applyOp m op).2 = .states x
    | .restore .. => ∃ x, (applyOp m op).2 = .restored x
    | _ => True := by
  cases op <;> simp only [applyOp] <;> first
    | trivial
    | exact ⟨_, rfl⟩
    | (split <;> exact ⟨_, rfl⟩)
    | (split <;> split <;> exact ⟨_, rfl⟩)

/-- The handler's tree is a success exactly when the operation's result is. -/
theorem execOp_ok {h : Handler} {p : Parsed} {r : Request} {op : Op} (hop : opOf h p r = some op) (m : Sess) :
    exceptOk (execOp p op m).2 = Res.isOk (applyOp m op).2 := by
  unfold execOp
  simp only
  have hs := applyOp_shape m op
  cases h <;> cases p <;> simp [opOf] at hop <;> subst hop <;> simp only at hs <;> obtain ⟨x, hx⟩ := hs <;>
    rw [hx] <;> cases x <;> rfl

theorem errTree_keys (e : E) (h : e.1 ≠ 0) : (errTree e).keys = ["detail", "code"] := by
  unfold errTree
  have : (e.1 == 0) = false := by simpa using h
  simp [this, Json.keys]

theorem errTree_code (e : E) (h : e.1 ≠ 0) : (errTree e).field? "code" = some (.num e.1) := by
  unfold errTree
  have : (e.1 == 0) = false := by simpa using h
  simp [this, Json.field?, List.find?]

/-- `json.Marshal` of a Go `error` that is not a cashu error. -/
theorem errTree_raw (name : String) : errTree (0, name) = .obj [] := rfl

end Gonuts.Model.Wire

namespace Gonuts.Model.Wire
open Gonuts.Model.Mint

/-! ## Status codes -/

theorem runHandler_status (s : WSess) (h : Handler) (p : Parsed) (op : Op) (r : Request) :
    (runHandler s h p op r).2.1.status = 200 ∨ (runHandler s h p op r).2.1.status = 400 := by
  unfold runHandler
  by_cases hc : isCached h = true
  · simp only [hc, if_true]
    cases hg : s.cache.get r.key s.now with
    | mk c1 found =>
      cases found with
      | some b => exact .inl rfl
      | none =>
        simp only
        cases hx : execOp p op (armLn s.mint r.lnFail) with
        | mk m1 res =>
          cases res with
          | error e => exact .inr rfl
          | ok t => simp only; split <;> exact .inl rfl
  · simp only [hc]
    cases hx : execOp p op (armLn s.mint r.lnFail) with
    | mk m1 res =>
      cases res with
      | error e => exact .inr rfl
      | ok t => exact .inl rfl

theorem handleKeys_status (s : WSess) (key : String) (ks : Option Nat) :
    (handleKeys s key ks).2.1.status = 200 ∨ (handleKeys s key ks).2.1.status = 400 := by
  unfold handleKeys
  cases hg : s.cache.get key s.now with
  | mk c1 found =>
    cases found with
    | some b => exact .inl rfl
    | none => cases ks with
      | none => exact .inr rfl
      | some i => exact .inl rfl

theorem handleInfo_status (s : WSess) : (handleInfo s).2.1.status = 200 ∨ (handleInfo s).2.1.status = 400 := by
  unfold handleInfo
  cases s.mint.runPM (infoProg (cxOf s.mint)) [] with
  | mk m1 res => cases res with
    | error e => exact .inr rfl
    | ok d => exact .inl rfl

theorem mem_status_of_or {a : Nat} (h : a = 200 ∨ a = 400) : a ∈ [200, 400, 0] := by
  rcases h with h | h <;> simp [h]

theorem callOp_status (s : WSess) (h : Handler) (vars : List (String × String)) (r : Request) :
    (callOp s h vars r).2.1.status ∈ [200, 400, 0] := by
  unfold callOp
  split
  · simp [errResp]
  · split
    · simp [errResp]
    · split
      · simp
      · exact mem_status_of_or (runHandler_status s h _ _ r)

theorem handleX_status (s : WSess) (r : Request) : (handleX s r).2.1.status ∈ [200, 400, 301, 404, 405, 0] := by
  unfold handleX
  split
  · simp
  · cases hroute : route r.method r.segs with
    | notFound => simp
    | methodNotAllowed => simp
    | found h vars =>
      simp only
      split
      · simp
      · unfold callHandler
        split
        · simp
        · rcases handleKeys_status s activeKeysetKey (some s.mint.w.mem.active) with h' | h' <;> simp [h']
        · simp [ok200]
        · rcases handleKeys_status s (var? vars "id") (keysetOf s.mint.w.mem r.pathSym) with h' | h' <;> simp [h']
        · rcases handleInfo_status s with h' | h' <;> simp [h']
        · have := callOp_status s h vars r
          simp only [List.mem_cons, List.mem_nil_iff, or_false] at this ⊢
          rcases this with h' | h' | h' <;> simp [h']

end Gonuts.Model.Wire
