import Gonuts.Lemmas.MintSeq
import Gonuts.Props.C02
import Gonuts.Props.C06
/-!
  The ledger of the mint (C02): a potential function over the tables and the backend's invoices that every operation of
  a sequential, fault-free history keeps non-negative.

    1000·(signed + credit) + paidOut  ≤  1000·(received + redeemed)

  signed   = Σ amounts of all stored blind signatures (everything ever issued)
  credit   = Σ amounts of mint quotes that are PAID / PENDING (paid for, not yet issued)
  paidOut  = Σ over melt quotes that are PAID and were paid over Lightning of  1000·(amount + fee reserve)
             (an upper bound of what the backend may have sent: invoice msat ≤ 1000·amount by F2, fee ≤ reserve by F1)
  received = Σ amounts of mint quotes that are not UNPAID and whose invoice the backend reports settled
  redeemed = Σ amounts of all spent proofs
  and for every PENDING melt quote the inputs locked under it cover amount + fee reserve (`pend`), so what may still go
  out for it is covered by value that cannot be spent meanwhile.
-/
namespace Gonuts.Model.Mint

def amtP (t : List PRow) : Nat := (t.map (fun r => r.amount.toNat)).sum
def amtS (t : List BSig) : Nat := (t.map (fun r => r.amount.toNat)).sum

@[simp] theorem amtP_nil : amtP [] = 0 := rfl
@[simp] theorem amtS_nil : amtS [] = 0 := rfl
theorem amtP_append (a b : List PRow) : amtP (a ++ b) = amtP a + amtP b := by simp [amtP, List.sum_append]
theorem amtS_append (a b : List BSig) : amtS (a ++ b) = amtS a + amtS b := by simp [amtS, List.sum_append]
theorem amtP_cons (r : PRow) (t : List PRow) : amtP (r :: t) = r.amount.toNat + amtP t := by simp [amtP]

/-- The backend reports invoice `h` settled. -/
def isSettled (invs : List Invoice) (h : Nat) : Bool :=
  match invs.find? (·.id == h) with
  | some i => i.settled
  | none => false

def creditOf (q : MintQ) : Nat := if q.state == .paid || q.state == .pending then q.amount.toNat else 0
def inflowOf (invs : List Invoice) (q : MintQ) : Nat := if q.state != .unpaid && isSettled invs q.hash then q.amount.toNat else 0
def credit (db : DB) : Nat := (db.mintQ.map creditOf).sum
def received (db : DB) (invs : List Invoice) : Nat := (db.mintQ.map (inflowOf invs)).sum

/-- A melt quote that is settled over Lightning (no mint quote of this mint has its invoice). -/
def externalQ (db : DB) (m : MeltQ) : Bool := !(db.mintQ.any (·.hash == m.hash))
def needOf (m : MeltQ) : Nat := m.amount.toNat + m.feeReserve.toNat
def outOf (db : DB) (m : MeltQ) : Nat := if m.state == .paid && externalQ db m then 1000 * needOf m else 0
def paidOut (db : DB) : Nat := (db.meltQ.map (outOf db)).sum

structure Led (db : DB) (invs : List Invoice) : Prop where
  core : 1000 * (amtS db.sigs + credit db) + paidOut db ≤ 1000 * (received db invs + amtP db.spent)
  pend : ∀ m ∈ db.meltQ, m.state = .pending → needOf m ≤ amtP (db.pending.filter (·.quote == m.id))


/-! ## Sums under the table updates the operations make -/

theorem amtS_eq_natSum (t : List BSig) : amtS t = natSum (t.map (·.amount)) := by
  simp [amtS, natSum, List.map_map, Function.comp_def]
theorem amtP_rows (ps : List Proof) : amtP (ps.map Proof.row) = natSum (ps.map (·.amount)) := by
  simp [amtP, natSum, List.map_map, Function.comp_def, Proof.row]

/-- Frame: an update that leaves the two quote tables alone. -/
theorem credit_frame (db : DB) (sp pe : List PRow) (sg : List BSig) :
    credit { db with spent := sp, pending := pe, sigs := sg } = credit db := rfl
theorem received_frame (db : DB) (invs : List Invoice) (sp pe : List PRow) (sg : List BSig) :
    received { db with spent := sp, pending := pe, sigs := sg } invs = received db invs := rfl
theorem paidOut_frame (db : DB) (sp pe : List PRow) (sg : List BSig) :
    paidOut { db with spent := sp, pending := pe, sigs := sg } = paidOut db := rfl

/-- Swap keeps the ledger. -/
theorem led_swap (cx : Cx) (ps : List Proof) (outs : List BMsg) (v : Option E) (s : DL) (h : Led s.1 s.2.invoices) :
    Led (runM (swap cx ps outs v) s).1.1 (runM (swap cx ps outs v) s).1.2.invoices := by
  generalize hr : runM (swap cx ps outs v) s = x
  obtain ⟨s', r⟩ := x
  rcases swap_cases cx ps outs v s s' r hr with ⟨e, _, hs⟩ | ⟨sigs, hrr, hok⟩
  · rw [hs]; exact h
  · subst hrr
    have hbal := Gonuts.Props.C02.swap_out_le_in_minus_fee cx ps outs v s s' sigs hr
    have hm := (Gonuts.Props.C02.signatures_match_outputs cx ps outs v s s' sigs hr).1
    show Led s'.1 s'.2.invoices
    rw [hok.ln, hok.db]
    constructor
    · show 1000 * (amtS (s.1.sigs ++ sigs) + credit s.1) + paidOut s.1 ≤ 1000 * (received s.1 s.2.invoices + amtP (s.1.spent ++ ps.map Proof.row))
      rw [amtS_append, amtP_append, amtS_eq_natSum sigs, hm, amtP_rows]
      have := h.core
      omega
    · exact h.pend

/-! ## Mint quote state changes -/

theorem sum_updMintQ (f : MintQ → Nat) (qs : List MintQ) (q : MintQ) (st : MQState)
    (hn : (qs.map (·.id)).Nodup) (hq : q ∈ qs) :
    ((updMintQ qs q.id st).map f).sum + f q = (qs.map f).sum + f { q with state := st } := by
  induction qs with
  | nil => cases hq
  | cons x xs ih =>
    simp only [List.map_cons, List.nodup_cons] at hn
    simp only [updMintQ, List.map_cons, List.sum_cons] at ih ⊢
    rcases List.mem_cons.1 hq with rfl | hq'
    · -- the head is the quote; the tail has no quote with this id
      have htail : xs.map (fun y => if (y.id == q.id) = true then { y with state := st } else y) = xs := by
        conv => rhs; rw [← List.map_id xs]
        apply List.map_congr_left
        intro y hy
        have : ¬ (y.id == q.id) = true := by
          intro he; apply hn.1; rw [← (by simpa using he : y.id = q.id)]; exact List.mem_map.2 ⟨y, hy, rfl⟩
        simp [this]
      simp only [beq_self_eq_true, if_true, htail]
      omega
    · have hne : ¬ (x.id == q.id) = true := by
        intro he; apply hn.1; rw [(by simpa using he : x.id = q.id)]; exact List.mem_map.2 ⟨q, hq', rfl⟩
      rw [if_neg hne]
      have := ih hn.2 hq'
      omega

theorem updMintQ_twice (qs : List MintQ) (id : Nat) (a b : MQState) : updMintQ (updMintQ qs id a) id b = updMintQ qs id b := by
  simp only [updMintQ, List.map_map]
  apply List.map_congr_left
  intro q _
  simp only [Function.comp]
  by_cases h : (q.id == id) = true <;> simp [h]

theorem externalQ_updMintQ (db : DB) (id : Nat) (st : MQState) (m : MeltQ) :
    externalQ { db with mintQ := updMintQ db.mintQ id st } m = externalQ db m := by
  simp only [externalQ, updMintQ, List.any_map]
  congr 2
  funext q
  simp only [Function.comp]
  split <;> rfl

theorem paidOut_updMintQ (db : DB) (id : Nat) (st : MQState) :
    paidOut { db with mintQ := updMintQ db.mintQ id st } = paidOut db := by
  simp only [paidOut]
  congr 1
  apply List.map_congr_left
  intro m _
  simp only [outOf, externalQ_updMintQ]

/-- Backend facts. -/
theorem lnInvStatus_invoices (ln : LN) (h : Nat) : (lnInvStatus ln h).1.invoices = ln.invoices := by
  unfold lnInvStatus
  simp only [execLn]
  split
  · rfl
  · split <;> rfl

theorem lnInvStatus_settled (ln : LN) (h : Nat) (hs : (lnInvStatus ln h).2 = some true) : isSettled ln.invoices h = true := by
  unfold lnInvStatus at hs
  simp only [execLn] at hs
  unfold isSettled
  split at hs
  · cases hs
  · rename_i inv hf
    rw [hf]
    split at hs
    · cases hs
    · simpa using hs

/-- The quote found by id is a row of the table with that id. -/
theorem dbGetMintQ_id {db : DB} {qid : Int} {q : MintQ} (h : dbGetMintQ db qid = .ok q) : (q.id : Int) = qid := by
  unfold dbGetMintQ at h
  split at h
  · rename_i q' hf; injection h with h; subst h
    have := List.find?_some hf
    have : qid = (q'.id : Int) := by simpa [intIs] using this
    exact this.symm
  · cases h

theorem creditOf_state (q : MintQ) (st : MQState) :
    creditOf { q with state := st } = if st == .paid || st == .pending then q.amount.toNat else 0 := rfl
theorem inflowOf_state (invs : List Invoice) (q : MintQ) (st : MQState) :
    inflowOf invs { q with state := st } = if st != .unpaid && isSettled invs q.hash then q.amount.toNat else 0 := rfl

/-- UNPAID → PAID because the backend reports the invoice settled: credit and received grow by the same amount. -/
theorem led_setPaid (db : DB) (invs : List Invoice) (q : MintQ) (h : Led db invs) (hn : (db.mintQ.map (·.id)).Nodup)
    (hq : q ∈ db.mintQ) (hu : q.state = .unpaid) (hs : isSettled invs q.hash = true) :
    Led { db with mintQ := updMintQ db.mintQ q.id .paid } invs := by
  have hc := sum_updMintQ creditOf db.mintQ q .paid hn hq
  have hr := sum_updMintQ (inflowOf invs) db.mintQ q .paid hn hq
  have c0 : creditOf q = 0 := by simp [creditOf, hu]
  have r0 : inflowOf invs q = 0 := by simp [inflowOf, hu]
  have c1 : creditOf { q with state := .paid } = q.amount.toNat := rfl
  have r1 : inflowOf invs { q with state := .paid } = q.amount.toNat := by simp [inflowOf, hs]
  rw [c0, c1] at hc
  rw [r0, r1] at hr
  constructor
  · show 1000 * (amtS db.sigs + ((updMintQ db.mintQ q.id .paid).map creditOf).sum) + paidOut { db with mintQ := updMintQ db.mintQ q.id .paid }
        ≤ 1000 * (((updMintQ db.mintQ q.id .paid).map (inflowOf invs)).sum + amtP db.spent)
    rw [paidOut_updMintQ]
    have := h.core
    simp only [credit, received] at this
    omega
  · exact h.pend

/-- PAID → ISSUED with signatures for at most the quoted amount. -/
theorem led_setIssued (db : DB) (invs : List Invoice) (q : MintQ) (sigs : List BSig) (h : Led db invs)
    (hn : (db.mintQ.map (·.id)).Nodup) (hq : q ∈ db.mintQ) (hp : q.state = .paid) (ha : amtS sigs ≤ q.amount.toNat) :
    Led { db with mintQ := updMintQ db.mintQ q.id .issued, sigs := db.sigs ++ sigs } invs := by
  have hc := sum_updMintQ creditOf db.mintQ q .issued hn hq
  have hr := sum_updMintQ (inflowOf invs) db.mintQ q .issued hn hq
  have c0 : creditOf q = q.amount.toNat := by simp [creditOf, hp]
  have c1 : creditOf { q with state := .issued } = 0 := rfl
  have r01 : inflowOf invs { q with state := .issued } = inflowOf invs q := by simp [inflowOf, hp]
  rw [c0, c1] at hc
  rw [r01] at hr
  constructor
  · show 1000 * (amtS (db.sigs ++ sigs) + ((updMintQ db.mintQ q.id .issued).map creditOf).sum) +
          paidOut { db with mintQ := updMintQ db.mintQ q.id .issued, sigs := db.sigs ++ sigs }
        ≤ 1000 * (((updMintQ db.mintQ q.id .issued).map (inflowOf invs)).sum + amtP db.spent)
    have hpo : paidOut { db with mintQ := updMintQ db.mintQ q.id .issued, sigs := db.sigs ++ sigs } = paidOut db :=
      paidOut_updMintQ { db with sigs := db.sigs ++ sigs } q.id .issued
    rw [hpo, amtS_append]
    have := h.core
    simp only [credit, received] at this
    omega
  · exact h.pend

structure LedWf (db : DB) : Prop where
  mintIds : (db.mintQ.map (·.id)).Nodup
  meltIds : (db.meltQ.map (·.id)).Nodup

/-- `GetMintQuoteState` (also the leading check of `MintTokens`). -/
theorem led_gmqs (qid : Int) (s : DL) (h : Led s.1 s.2.invoices) (hw : LedWf s.1) :
    Led (gmqsSpec qid s).1.1 (gmqsSpec qid s).1.2.invoices ∧ (gmqsSpec qid s).1.2.invoices = s.2.invoices := by
  have hinv : (gmqsSpec qid s).1.2.invoices = s.2.invoices := by
    unfold gmqsSpec
    split
    · rfl
    · split
      · split
        · exact lnInvStatus_invoices _ _
        · split
          · split <;> exact lnInvStatus_invoices _ _
          · exact lnInvStatus_invoices _ _
      · rfl
  refine ⟨?_, hinv⟩
  rw [hinv]
  rcases Gonuts.Props.C06.quoteState_only_unpaid_to_paid qid s with he | ⟨q, hq, hu, hst, he⟩
  · rw [he]; exact h
  · rw [he]
    exact led_setPaid s.1 s.2.invoices q h hw.mintIds (Gonuts.Props.C06.dbGetMintQ_mem hq) hu (lnInvStatus_settled _ _ hst)

theorem LedWf.gmqs (qid : Int) (s : DL) (hw : LedWf s.1) : LedWf (gmqsSpec qid s).1.1 := by
  have h1 := Gonuts.Props.C06.mintQ_nodup_db.runM (getMintQuoteState qid) s hw.mintIds
  rw [getMintQuoteState_runM] at h1
  refine ⟨h1, ?_⟩
  rcases Gonuts.Props.C06.quoteState_only_unpaid_to_paid qid s with he | ⟨q, _, _, _, he⟩ <;> rw [he] <;> exact hw.meltIds

/-- `MintTokens` keeps the ledger. -/
theorem led_mint (cx : Cx) (qid : Int) (outs : List BMsg) (sig : QSig) (s : DL) (h : Led s.1 s.2.invoices) (hw : LedWf s.1) :
    Led (runM (mintTokens cx qid outs sig) s).1.1 (runM (mintTokens cx qid outs sig) s).1.2.invoices := by
  obtain ⟨hg, hgi⟩ := led_gmqs qid s h hw
  have hwg := hw.gmqs qid s
  generalize hr : runM (mintTokens cx qid outs sig) s = x
  obtain ⟨s', r⟩ := x
  show Led s'.1 s'.2.invoices
  rcases mintTokens_cases cx qid outs sig s s' r hr with ⟨e', _, _, hs⟩ | ⟨q, hq, hc⟩
  · rw [hs]; exact hg
  · have hmem : q ∈ (gmqsSpec qid s).1.1.mintQ := Gonuts.Props.C06.gmqs_mem qid s q hq
    rcases hc with ⟨_, _, hs⟩ | ⟨_, _, hs⟩ | ⟨_, _, hs⟩ | ⟨hp, ⟨e', _, hl, hs | hs⟩ | ⟨sigs, he, hok⟩⟩
    · rw [hs]; exact hg
    · rw [hs]; exact hg
    · rw [hs]; exact hg
    · rw [hl, hs]; exact hg
    · rw [hl, hs]
      have := Gonuts.Props.C06.updMintQ_same_state _ q hwg.mintIds hmem
      rw [hp] at this
      rw [this]; exact hg
    · rw [hok.ln, hok.db, updMintQ_twice]
      apply led_setIssued _ _ q sigs hg hwg.mintIds hmem hp
      obtain ⟨total, hac, hle⟩ := hok.amount
      have h1 := amountChecked_some _ _ hac
      have h2 := (signAll_ok hok.signed).2.1
      rw [amtS_eq_natSum, h2]
      simp only [outAmounts] at h1
      rw [← h1]
      have hle' : ¬ q.amount < total := hle
      rw [UInt64.lt_iff_toNat_lt] at hle'
      omega

/-- The invoice watcher (the backend only notifies settled invoices: `hs`). -/
theorem led_watcher (qid : Nat) (s : DL) (h : Led s.1 s.2.invoices) (hw : LedWf s.1)
    (hs : ∀ q, dbGetMintQ s.1 qid = .ok q → isSettled s.2.invoices q.hash = true) :
    Led (runM (watcherNotified qid) s).1.1 (runM (watcherNotified qid) s).1.2.invoices := by
  generalize hr : runM (watcherNotified qid) s = x
  obtain ⟨s', r⟩ := x
  obtain ⟨hl, hc⟩ := watcher_cases qid s s' r hr
  show Led s'.1 s'.2.invoices
  rw [hl]
  rcases hc with ⟨_, he⟩ | ⟨q, hq, hu, _, he⟩
  · rw [he]; exact h
  · rw [he]
    have hid : q.id = qid := by have := dbGetMintQ_id hq; exact_mod_cast this
    rw [← hid]
    exact led_setPaid s.1 s.2.invoices q h hw.mintIds (Gonuts.Props.C06.dbGetMintQ_mem hq) hu (hs q hq)

/-! ## The backend's invoices under the operations -/

theorem isSettled_append (invs : List Invoice) (i : Invoice) (hi : i.settled = false) (h : Nat) :
    isSettled (invs ++ [i]) h = isSettled invs h := by
  unfold isSettled
  rw [List.find?_append]
  cases hf : invs.find? (·.id == h) with
  | some x => rfl
  | none =>
    simp only [Option.none_or, List.find?_cons, List.find?_nil]
    by_cases hid : (i.id == h) = true
    · simp [hid, hi]
    · simp [hid]

theorem popScript_invoices (ln : LN) : (popScript ln).1.invoices = ln.invoices := by
  unfold popScript; split <;> rfl

/-- No Lightning effect changes what the backend reports as settled (a new invoice is unsettled). -/
theorem execLn_isSettled {β : Type} (ln ln' : LN) (e : Eff β) (r : β) (hx : execLn ln e = some (ln', r)) (h : Nat) :
    isSettled ln'.invoices h = isSettled ln.invoices h := by
  cases e with
  | lnCreateInvoice a =>
    simp only [execLn] at hx
    split at hx
    · injection hx with hx; injection hx with h1 _; subst h1; rfl
    · injection hx with hx; injection hx with h1 _; subst h1
      exact isSettled_append _ _ rfl h
  | lnInvoiceStatus h' =>
    simp only [execLn] at hx
    split at hx
    · injection hx with hx; injection hx with h1 _; subst h1; rfl
    · split at hx <;> (injection hx with hx; injection hx with h1 _; subst h1; rfl)
  | lnSendPayment inv maxFee =>
    simp only [execLn] at hx
    injection hx with hx; injection hx with h1 _; subst h1
    show isSettled (popScript ln).1.invoices h = _
    rw [popScript_invoices]
  | lnPayPartial inv msat maxFee =>
    simp only [execLn] at hx
    injection hx with hx; injection hx with h1 _; subst h1
    show isSettled (popScript ln).1.invoices h = _
    rw [popScript_invoices]
  | lnOutgoingStatus h' =>
    simp only [execLn] at hx
    injection hx with hx; injection hx with h1 _; subst h1
    show isSettled (popScript ln).1.invoices h = _
    rw [popScript_invoices]
  | lnFeeReserve a =>
    simp only [execLn] at hx
    injection hx with hx; injection hx with h1 _; subst h1; rfl
  | _ => simp [execLn] at hx

theorem stepDL_isSettled {β : Type} (s : DL) (e : Eff β) (h : Nat) :
    isSettled (stepDL s e).1.2.invoices h = isSettled s.2.invoices h := by
  unfold stepDL
  split
  · rfl
  · split
    · rename_i ln' r hx
      exact execLn_isSettled s.2 ln' e r hx h
    · rfl

theorem runDL_isSettled {α : Type} (p : Prog α) (s : DL) (h : Nat) :
    isSettled (runDL p s).1.2.invoices h = isSettled s.2.invoices h := by
  induction p generalizing s with
  | ret a => rfl
  | eff e k ih => simp only [runDL]; rw [ih, stepDL_isSettled]

theorem runM_isSettled {α : Type} (p : PM α) (s : DL) (h : Nat) :
    isSettled (runM p s).1.2.invoices h = isSettled s.2.invoices h := runDL_isSettled _ s h

/-- `received` only looks at `isSettled`. -/
theorem received_congr (db : DB) (i1 i2 : List Invoice) (h : ∀ x, isSettled i1 x = isSettled i2 x) :
    received db i1 = received db i2 := by
  simp only [received]
  congr 1
  apply List.map_congr_left
  intro q _
  simp only [inflowOf, h]

theorem Led.congr_invoices {db : DB} {i1 i2 : List Invoice} (h : Led db i1) (he : ∀ x, isSettled i2 x = isSettled i1 x) : Led db i2 :=
  ⟨by rw [received_congr db i2 i1 he]; exact h.core, h.pend⟩

/-- More invoices settled: the right-hand side can only grow. -/
theorem received_mono (db : DB) (i1 i2 : List Invoice) (h : ∀ x, isSettled i1 x = true → isSettled i2 x = true) :
    received db i1 ≤ received db i2 := by
  simp only [received]
  induction db.mintQ with
  | nil => simp
  | cons q qs ih =>
    simp only [List.map_cons, List.sum_cons]
    have : inflowOf i1 q ≤ inflowOf i2 q := by
      unfold inflowOf
      by_cases h1 : (q.state != .unpaid && isSettled i1 q.hash) = true
      · have h2 : (q.state != .unpaid && isSettled i2 q.hash) = true := by
          simp only [Bool.and_eq_true] at h1 ⊢; exact ⟨h1.1, h _ h1.2⟩
        simp [h1, h2]
      · simp [h1]
    omega

theorem Led.mono_invoices {db : DB} {i1 i2 : List Invoice} (h : Led db i1)
    (he : ∀ x, isSettled i1 x = true → isSettled i2 x = true) : Led db i2 :=
  ⟨by have := received_mono db i1 i2 he; have := h.core; omega, h.pend⟩


theorem led_transfer {α : Type} (p : PM α) (s : DL) (h : Led (runM p s).1.1 s.2.invoices) :
    Led (runM p s).1.1 (runM p s).1.2.invoices := h.congr_invoices (fun x => runM_isSettled p s x)

theorem sum_map_le {α : Type} (l : List α) (f g : α → Nat) (h : ∀ x ∈ l, f x ≤ g x) : (l.map f).sum ≤ (l.map g).sum := by
  induction l with
  | nil => simp
  | cons x xs ih =>
    simp only [List.map_cons, List.sum_cons]
    have := h x (List.mem_cons_self ..)
    have := ih (fun y hy => h y (List.mem_cons_of_mem _ hy))
    omega

/-- A new mint quote can only turn a melt quote from "paid over Lightning" into "settled internally". -/
theorem paidOut_append_mintQ (db : DB) (q : MintQ) : paidOut { db with mintQ := db.mintQ ++ [q] } ≤ paidOut db := by
  simp only [paidOut]
  apply sum_map_le
  intro m _
  simp only [outOf, externalQ, List.any_append, List.any_cons, List.any_nil, Bool.or_false, Bool.not_or]
  by_cases h1 : (m.state == LQState.paid) = true <;> by_cases h2 : (db.mintQ.any (·.hash == m.hash)) = true <;>
    by_cases h3 : (q.hash == m.hash) = true <;> simp [h1, h2, h3]

/-- `RequestMintQuote` keeps the ledger (the new quote is UNPAID, its invoice unsettled). -/
theorem led_mintQuote (cx : Cx) (qid : Nat) (amount : UInt64) (u : Bool) (pk : PkReq) (s : DL) (h : Led s.1 s.2.invoices) :
    Led (runM (requestMintQuote cx qid amount u pk) s).1.1 (runM (requestMintQuote cx qid amount u pk) s).1.2.invoices := by
  apply led_transfer
  generalize hr : runM (requestMintQuote cx qid amount u pk) s = x
  obtain ⟨s', r⟩ := x
  rcases requestMintQuote_cases cx qid amount u pk s s' r hr with ⟨e, _, hs⟩ | ⟨q, _, hok⟩
  · show Led s'.1 s.2.invoices
    rw [hs]; exact h
  · show Led s'.1 s.2.invoices
    rw [hok.db]
    have hst : q.state = .unpaid := by rw [hok.quote]
    have c0 : creditOf q = 0 := by simp [creditOf, hst]
    have r0 : inflowOf s.2.invoices q = 0 := by simp [inflowOf, hst]
    constructor
    · show 1000 * (amtS s.1.sigs + ((s.1.mintQ ++ [q]).map creditOf).sum) + paidOut { s.1 with mintQ := s.1.mintQ ++ [q] }
          ≤ 1000 * (((s.1.mintQ ++ [q]).map (inflowOf s.2.invoices)).sum + amtP s.1.spent)
      have := paidOut_append_mintQ s.1 q
      have := h.core
      simp only [credit, received] at this
      simp only [List.map_append, List.sum_append, List.map_cons, List.map_nil, List.sum_cons, List.sum_nil, c0, r0]
      omega
    · exact h.pend

/-- `RequestMeltQuote` keeps the ledger (the new quote is UNPAID). -/
theorem led_meltQuote (cx : Cx) (qid : Nat) (inv : InvReq) (m : Nat → UInt64) (u : Bool) (mpp : Option UInt64) (s : DL)
    (h : Led s.1 s.2.invoices) :
    Led (runM (requestMeltQuote cx qid inv m u mpp) s).1.1 (runM (requestMeltQuote cx qid inv m u mpp) s).1.2.invoices := by
  apply led_transfer
  generalize hr : runM (requestMeltQuote cx qid inv m u mpp) s = x
  obtain ⟨s', r⟩ := x
  rcases requestMeltQuote_cases cx qid inv m u mpp s s' r hr with ⟨e, _, hs⟩ | ⟨ii, hh, q, _, _, hok⟩
  · show Led s'.1 s.2.invoices
    rw [hs]; exact h
  · show Led s'.1 s.2.invoices
    rw [hok.db]
    have hst : q.state = .unpaid := hok.id.2.2.2.1
    constructor
    · show 1000 * (amtS s.1.sigs + credit s.1) + ((s.1.meltQ ++ [q]).map (outOf { s.1 with meltQ := s.1.meltQ ++ [q] })).sum
          ≤ 1000 * (received s.1 s.2.invoices + amtP s.1.spent)
      have o0 : outOf { s.1 with meltQ := s.1.meltQ ++ [q] } q = 0 := by simp [outOf, hst]
      have hsame : (s.1.meltQ.map (outOf { s.1 with meltQ := s.1.meltQ ++ [q] })) = s.1.meltQ.map (outOf s.1) := rfl
      simp only [List.map_append, List.sum_append, List.map_cons, List.map_nil, List.sum_cons, List.sum_nil, o0, hsame]
      have := h.core
      simp only [paidOut] at this
      omega
    · intro mq hmq hp
      rcases List.mem_append.1 hmq with hm | hm
      · exact h.pend mq hm hp
      · simp at hm; subst hm; rw [hst] at hp; cases hp


/-- Melt quote ids are unique in every state any execution reaches (effect-level). -/
theorem meltQ_nodup_db : DbInv (fun db => (db.meltQ.map (·.id)).Nodup) := by
  intro β e db db' r h hq
  db_cases h hq
  · rename_i q hh hany
    simp only [List.map_append, List.map_cons, List.map_nil]
    rw [List.nodup_append]
    refine ⟨hq, by simp, ?_⟩
    intro a ha b hb
    simp at hb; subst hb
    intro hab; subst hab
    apply hany
    obtain ⟨x, hx, hxe⟩ := List.mem_map.1 ha
    simp only [List.any_eq_true]; exact ⟨x, hx, by simp [hxe]⟩
  · have : ∀ (i pre : Nat) (st : LQState), (updMeltQ db.meltQ i pre st).map (·.id) = db.meltQ.map (·.id) := by
      intro i pre st
      unfold updMeltQ; simp only [List.map_map]; congr 1; funext q; simp only [Function.comp]; split <;> rfl
    show ((updMeltQ db.meltQ _ _ _).map (·.id)).Nodup
    rw [this]; exact hq

theorem LedWf.applyOp (s : Sess) (op : Op) (hw : LedWf s.w.db) : LedWf (applyOp s op).1.w.db :=
  ⟨applyOp_db Gonuts.Props.C06.mintQ_nodup_db s op hw.mintIds, applyOp_db meltQ_nodup_db s op hw.meltIds⟩


/-! ## Melt quotes and locked inputs -/

theorem sum_updMeltQ (f : MeltQ → Nat) (qs : List MeltQ) (q : MeltQ) (pre : Nat) (st : LQState)
    (hn : (qs.map (·.id)).Nodup) (hq : q ∈ qs) :
    ((updMeltQ qs q.id pre st).map f).sum + f q = (qs.map f).sum + f { q with state := st, preimage := pre } := by
  induction qs with
  | nil => cases hq
  | cons x xs ih =>
    simp only [List.map_cons, List.nodup_cons] at hn
    simp only [updMeltQ, List.map_cons, List.sum_cons] at ih ⊢
    rcases List.mem_cons.1 hq with rfl | hq'
    · have htail : xs.map (fun y => if (y.id == q.id) = true then { y with state := st, preimage := pre } else y) = xs := by
        conv => rhs; rw [← List.map_id xs]
        apply List.map_congr_left
        intro y hy
        have : ¬ (y.id == q.id) = true := by
          intro he; apply hn.1; rw [← (by simpa using he : y.id = q.id)]; exact List.mem_map.2 ⟨y, hy, rfl⟩
        simp [this]
      simp only [beq_self_eq_true, if_true, htail]
      omega
    · have hne : ¬ (x.id == q.id) = true := by
        intro he; apply hn.1; rw [(by simpa using he : x.id = q.id)]; exact List.mem_map.2 ⟨q, hq', rfl⟩
      rw [if_neg hne]
      have := ih hn.2 hq'
      omega

theorem updMeltQ_twice (qs : List MeltQ) (id p1 p2 : Nat) (a b : LQState) :
    updMeltQ (updMeltQ qs id p1 a) id p2 b = updMeltQ qs id p2 b := by
  simp only [updMeltQ, List.map_map]
  apply List.map_congr_left
  intro q _
  simp only [Function.comp]
  by_cases h : (q.id == id) = true <;> simp [h]

theorem mem_updMeltQ {qs : List MeltQ} {id pre : Nat} {st : LQState} {m : MeltQ} (h : m ∈ updMeltQ qs id pre st) :
    ∃ m0 ∈ qs, m = if (m0.id == id) = true then { m0 with state := st, preimage := pre } else m0 := by
  simp only [updMeltQ, List.mem_map] at h
  obtain ⟨m0, hm0, he⟩ := h
  exact ⟨m0, hm0, he.symm⟩

theorem dbGetMeltQ_mem {db : DB} {qid : Int} {q : MeltQ} (h : dbGetMeltQ db qid = .ok q) : q ∈ db.meltQ := by
  unfold dbGetMeltQ at h
  split at h
  · rename_i q' hf; injection h with h; subst h; exact List.mem_of_find?_eq_some hf
  · cases h

theorem amtP_filter_le (t : List PRow) (p : PRow → Bool) : amtP (t.filter p) ≤ amtP t := by
  induction t with
  | nil => simp
  | cons r rs ih =>
    simp only [List.filter_cons]
    split
    · rw [amtP_cons, amtP_cons]; omega
    · rw [amtP_cons]; omega

theorem amtP_lockRows (q : MeltQ) (ps : List Proof) : amtP (lockRows q ps) = natSum (ps.map (·.amount)) := by
  simp [amtP, natSum, lockRows, List.map_map, Function.comp_def, Proof.row]

theorem lockRows_filter_own (q : MeltQ) (ps : List Proof) : (lockRows q ps).filter (·.quote == q.id) = lockRows q ps := by
  apply List.filter_eq_self.2
  intro r hr
  simp only [lockRows, List.mem_map] at hr
  obtain ⟨r0, _, rfl⟩ := hr
  simp

/-- Locking fresh inputs and filtering them out again gives back the pending table. -/
theorem filter_locked (pend : List PRow) (q : MeltQ) (ps : List Proof) (hf : ∀ p ∈ ps, p.secret ∉ ysOf pend) :
    (pend ++ lockRows q ps).filter (fun r => !(ps.map (·.secret)).contains r.y) = pend := by
  rw [List.filter_append]
  have h1 : pend.filter (fun r => !(ps.map (·.secret)).contains r.y) = pend := by
    apply List.filter_eq_self.2
    intro r hr
    simp only [Bool.not_eq_true', List.contains_eq_mem, decide_eq_false_iff_not, List.mem_map, not_exists, not_and]
    intro p hp he
    exact hf p hp (by rw [he]; exact List.mem_map.2 ⟨r, hr, rfl⟩)
  have h2 : (lockRows q ps).filter (fun r => !(ps.map (·.secret)).contains r.y) = [] := by
    apply List.filter_eq_nil_iff.2
    intro r hr
    simp only [lockRows, List.mem_map] at hr
    obtain ⟨r0, ⟨p, hp, rfl⟩, rfl⟩ := hr
    simp only [Bool.not_eq_true', Bool.not_eq_false, List.contains_eq_mem, decide_eq_true_eq, List.mem_map]
    exact ⟨p, hp, rfl⟩
  rw [h1, h2, List.append_nil]

theorem outOf_le (db : DB) (m : MeltQ) : outOf db m ≤ 1000 * needOf m := by
  unfold outOf; split <;> omega


theorem meltQ_eq_of_id {qs : List MeltQ} (hn : (qs.map (·.id)).Nodup) {a b : MeltQ} (ha : a ∈ qs) (hb : b ∈ qs)
    (hid : a.id = b.id) : a = b := by
  induction qs with
  | nil => cases ha
  | cons y ys ih =>
    simp only [List.map_cons, List.nodup_cons] at hn
    rcases List.mem_cons.1 ha with rfl | ha' <;> rcases List.mem_cons.1 hb with rfl | hb'
    · rfl
    · exfalso; apply hn.1; rw [hid]; exact List.mem_map.2 ⟨b, hb', rfl⟩
    · exfalso; apply hn.1; rw [← hid]; exact List.mem_map.2 ⟨a, ha', rfl⟩
    · exact ih hn.2 ha' hb'

theorem amtP_filter_append (a b : List PRow) (p : PRow → Bool) :
    amtP ((a ++ b).filter p) = amtP (a.filter p) + amtP (b.filter p) := by
  rw [List.filter_append, amtP_append]

/-- The quote goes to PENDING and its (sufficient) inputs are locked under it. -/
theorem led_locked (db : DB) (invs : List Invoice) (q : MeltQ) (ps : List Proof) (h : Led db invs) (hw : LedWf db)
    (hq : q ∈ db.meltQ) (hu : q.state = .unpaid) (hn : needOf q ≤ natSum (ps.map (·.amount))) :
    Led (lockedDb db q ps) invs := by
  constructor
  · have hs := sum_updMeltQ (outOf db) db.meltQ q 0 .pending hw.meltIds hq
    have o0 : outOf db q = 0 := by simp [outOf, hu]
    have o1 : outOf db { q with state := .pending, preimage := 0 } = 0 := by simp [outOf]
    rw [o0, o1] at hs
    show 1000 * (amtS db.sigs + credit db) + ((updMeltQ db.meltQ q.id 0 .pending).map (outOf db)).sum
        ≤ 1000 * (received db invs + amtP db.spent)
    have := h.core
    simp only [paidOut] at this
    omega
  · intro m hm hp
    obtain ⟨m0, hm0, he⟩ := mem_updMeltQ hm
    show needOf m ≤ amtP ((db.pending ++ lockRows q ps).filter (·.quote == m.id))
    rw [amtP_filter_append]
    by_cases hid : (m0.id == q.id) = true
    · rw [if_pos hid] at he
      have hmq : m0 = q := meltQ_eq_of_id hw.meltIds hm0 hq (by simpa using hid)
      subst hmq
      have e1 : needOf m = needOf m0 := by rw [he]; rfl
      have e2 : m.id = m0.id := by rw [he]
      rw [e1, e2, lockRows_filter_own, amtP_lockRows]
      omega
    · rw [if_neg hid] at he
      subst he
      have := h.pend m hm0 hp
      omega

/-- A quote that was UNPAID or PENDING goes (back) to UNPAID; the pending table is as it was without its inputs. -/
theorem led_quote_unpaid (db : DB) (invs : List Invoice) (q : MeltQ) (pre : Nat) (h : Led db invs) (hw : LedWf db)
    (hq : q ∈ db.meltQ) (hs : q.state ≠ .paid) :
    Led { db with meltQ := updMeltQ db.meltQ q.id pre .unpaid } invs := by
  constructor
  · have hsum := sum_updMeltQ (outOf db) db.meltQ q pre .unpaid hw.meltIds hq
    have o0 : outOf db q = 0 := by
      unfold outOf
      have : (q.state == LQState.paid) = false := by cases hq' : q.state <;> simp_all
      simp [this]
    have o1 : outOf db { q with state := .unpaid, preimage := pre } = 0 := by simp [outOf]
    rw [o0, o1] at hsum
    show 1000 * (amtS db.sigs + credit db) + ((updMeltQ db.meltQ q.id pre .unpaid).map (outOf db)).sum
        ≤ 1000 * (received db invs + amtP db.spent)
    have := h.core
    simp only [paidOut] at this
    omega
  · intro m hm hp
    obtain ⟨m0, hm0, he⟩ := mem_updMeltQ hm
    by_cases hid : (m0.id == q.id) = true
    · rw [if_pos hid] at he; rw [he] at hp; cases hp
    · rw [if_neg hid] at he; subst he
      exact h.pend m hm0 hp


/-- The quote goes to PAID and rows worth at least amount + fee reserve move to the spent table. -/
theorem led_quote_paid (db : DB) (invs : List Invoice) (q : MeltQ) (pre : Nat) (rows : List PRow) (h : Led db invs)
    (hw : LedWf db) (hq : q ∈ db.meltQ) (hs : q.state ≠ .paid) (hr : needOf q ≤ amtP rows) :
    Led { db with spent := db.spent ++ rows, meltQ := updMeltQ db.meltQ q.id pre .paid } invs := by
  constructor
  · have hsum := sum_updMeltQ (outOf db) db.meltQ q pre .paid hw.meltIds hq
    have o0 : outOf db q = 0 := by
      unfold outOf
      have : (q.state == LQState.paid) = false := by cases hq' : q.state <;> simp_all
      simp [this]
    have o1 := outOf_le db { q with state := .paid, preimage := pre }
    have n1 : needOf { q with state := .paid, preimage := pre } = needOf q := rfl
    rw [o0] at hsum
    rw [n1] at o1
    show 1000 * (amtS db.sigs + credit db) + ((updMeltQ db.meltQ q.id pre .paid).map (outOf db)).sum
        ≤ 1000 * (received db invs + amtP (db.spent ++ rows))
    rw [amtP_append]
    have := h.core
    simp only [paidOut] at this
    omega
  · intro m hm hp
    obtain ⟨m0, hm0, he⟩ := mem_updMeltQ hm
    by_cases hid : (m0.id == q.id) = true
    · rw [if_pos hid] at he; rw [he] at hp; cases hp
    · rw [if_neg hid] at he; subst he
      exact h.pend m hm0 hp

/-- Internal settlement: the quote goes to PAID without a Lightning payment, the mint quote of the same invoice is
    credited, and rows worth at least that mint quote's amount move to the spent table. -/
theorem led_quote_paid_internal (db : DB) (invs : List Invoice) (q : MeltQ) (pre : Nat) (rows : List PRow) (mq : MintQ)
    (h : Led db invs) (hw : LedWf db) (hq : q ∈ db.meltQ) (hs : q.state ≠ .paid) (hmq : mq ∈ db.mintQ) (hh : mq.hash = q.hash)
    (hr : mq.amount.toNat ≤ amtP rows) :
    Led { db with spent := db.spent ++ rows, meltQ := updMeltQ db.meltQ q.id pre .paid,
                  mintQ := updMintQ db.mintQ mq.id .paid } invs := by
  constructor
  · have hsum := sum_updMeltQ (outOf db) db.meltQ q pre .paid hw.meltIds hq
    have o0 : outOf db q = 0 := by
      unfold outOf
      have : (q.state == LQState.paid) = false := by cases hq' : q.state <;> simp_all
      simp [this]
    have o1 : outOf db { q with state := .paid, preimage := pre } = 0 := by
      have : externalQ db { q with state := .paid, preimage := pre } = false := by
        simp only [externalQ, Bool.not_eq_false', List.any_eq_true]
        exact ⟨mq, hmq, by simp [hh]⟩
      simp [outOf, this]
    rw [o0, o1] at hsum
    have hc := sum_updMintQ creditOf db.mintQ mq .paid hw.mintIds hmq
    have hrc := sum_updMintQ (inflowOf invs) db.mintQ mq .paid hw.mintIds hmq
    have c1 : creditOf { mq with state := .paid } = mq.amount.toNat := rfl
    have r1 : inflowOf invs mq ≤ inflowOf invs { mq with state := .paid } := by
      unfold inflowOf
      by_cases hst : isSettled invs mq.hash = true
      · simp only [hst, Bool.and_true]
        split <;> simp
      · simp [hst]
    rw [c1] at hc
    have hpo : ((updMeltQ db.meltQ q.id pre .paid).map
        (outOf { db with spent := db.spent ++ rows, meltQ := updMeltQ db.meltQ q.id pre .paid, mintQ := updMintQ db.mintQ mq.id .paid })).sum
        = ((updMeltQ db.meltQ q.id pre .paid).map (outOf db)).sum := by
      congr 1
      apply List.map_congr_left
      intro m _
      simp only [outOf]
      rw [show externalQ { db with spent := db.spent ++ rows, meltQ := updMeltQ db.meltQ q.id pre .paid, mintQ := updMintQ db.mintQ mq.id .paid } m
            = externalQ { db with mintQ := updMintQ db.mintQ mq.id .paid } m from rfl, externalQ_updMintQ]
    show 1000 * (amtS db.sigs + ((updMintQ db.mintQ mq.id .paid).map creditOf).sum) +
          ((updMeltQ db.meltQ q.id pre .paid).map
            (outOf { db with spent := db.spent ++ rows, meltQ := updMeltQ db.meltQ q.id pre .paid, mintQ := updMintQ db.mintQ mq.id .paid })).sum
        ≤ 1000 * (((updMintQ db.mintQ mq.id .paid).map (inflowOf invs)).sum + amtP (db.spent ++ rows))
    rw [hpo, amtP_append]
    have := h.core
    simp only [paidOut, credit, received] at this
    omega
  · intro m hm hp
    obtain ⟨m0, hm0, he⟩ := mem_updMeltQ hm
    by_cases hid : (m0.id == q.id) = true
    · rw [if_pos hid] at he; rw [he] at hp; cases hp
    · rw [if_neg hid] at he; subst he
      exact h.pend m hm0 hp


theorem dbGetMintQByHash_mem {db : DB} {h : Nat} {mq : MintQ} (hq : dbGetMintQByHash db h = .ok mq) :
    mq ∈ db.mintQ ∧ mq.hash = h := by
  unfold dbGetMintQByHash at hq
  split at hq
  · rename_i q' hf; injection hq with hq; subst hq
    exact ⟨List.mem_of_find?_eq_some hf, by simpa using List.find?_some hf⟩
  · cases hq

theorem tailDb_locked_paid (db : DB) (q : MeltQ) (ps : List Proof) (pre : Nat)
    (hf : ∀ p ∈ ps, p.secret ∉ ysOf db.pending) :
    tailDb (lockedDb db q ps) { q with state := .pending } ps pre .paid
      = { db with spent := db.spent ++ ps.map Proof.row, meltQ := updMeltQ db.meltQ q.id pre .paid } := by
  simp only [tailDb, lockedDb, filter_locked db.pending q ps hf, updMeltQ_twice]

theorem tailDb_locked_unpaid (db : DB) (q : MeltQ) (ps : List Proof) (pre : Nat)
    (hf : ∀ p ∈ ps, p.secret ∉ ysOf db.pending) :
    tailDb (lockedDb db q ps) { q with state := .pending } ps pre .unpaid
      = { db with meltQ := updMeltQ db.meltQ q.id 0 .unpaid } := by
  simp only [tailDb, lockedDb, filter_locked db.pending q ps hf, updMeltQ_twice]

/-- Admissibility of a melt request at a state: the Go's unchecked `amount + fee_reserve + fees` does not wrap for the
    quote it names (amount and reserve are below 2^63 for every stored quote; this excludes absurd fee totals), and a
    mint quote of this mint for the same invoice is not larger than the melt quote (true whenever the invoice carries
    the mint quote's amount, i.e. for amounts a BOLT11 invoice can express). -/
def MeltOk (cx : Cx) (db : DB) (qid : Int) (ps : List Proof) : Prop :=
  ∀ q, dbGetMeltQ db qid = .ok q →
    q.amount.toNat + q.feeReserve.toNat + (transactionFees cx.mem ps).toNat < 2 ^ 64 ∧
    ∀ mq, dbGetMintQByHash db q.hash = .ok mq → mq.amount.toNat ≤ q.amount.toNat

/-- `MeltTokens` keeps the ledger. -/
theorem led_melt (cx : Cx) (qid : Int) (ps : List Proof) (s : DL) (h : Led s.1 s.2.invoices) (hw : LedWf s.1)
    (hok : MeltOk cx s.1 qid ps) :
    Led (runM (meltTokens cx qid ps) s).1.1 (runM (meltTokens cx qid ps) s).1.2.invoices := by
  apply led_transfer
  generalize hr : runM (meltTokens cx qid ps) s = x
  obtain ⟨s', r⟩ := x
  show Led s'.1 s.2.invoices
  rcases melt_cases cx qid ps s s' r hr with ⟨e, _, rfl⟩ | ⟨q, hacc, hcase⟩
  · exact h
  · obtain ⟨_, hfp, _, _, _⟩ := verifySpec_ok_fresh hacc.verified
    obtain ⟨hnw, hint⟩ := hok q hacc.quote
    have hq : q ∈ s.1.meltQ := dbGetMeltQ_mem hacc.quote
    have hburn := Gonuts.Props.C02.melt_burns_amount_reserve_fees cx qid ps s q hacc hnw
    have hneed : needOf q ≤ natSum (ps.map (·.amount)) := by unfold needOf; omega
    have hs : q.state ≠ .paid := by rw [hacc.unpaid]; simp
    rcases hcase with ⟨_, _, hdb⟩ | ⟨mq, hmq, ⟨_, hdb⟩ | ⟨_, hdb⟩⟩
    · rw [hdb]
      cases meltOutcome (ans0 s.2) (ans1 s.2) with
      | unpaid => rw [tailDb_locked_unpaid _ _ _ _ hfp]; exact led_quote_unpaid _ _ q 0 h hw hq hs
      | pending => exact led_locked _ _ q ps h hw hq hacc.unpaid hneed
      | paid =>
        rw [tailDb_locked_paid _ _ _ _ hfp]
        exact led_quote_paid _ _ q _ _ h hw hq hs (by rw [amtP_rows]; exact hneed)
    · rw [hdb, tailDb_locked_paid _ _ _ _ hfp]
      obtain ⟨hm1, hm2⟩ := dbGetMintQByHash_mem hmq
      have := hint mq hmq
      exact led_quote_paid_internal _ _ q _ _ mq h hw hq hs hm1 hm2 (by rw [amtP_rows]; unfold needOf at hneed; omega)
    · rw [hdb, tailDb_locked_unpaid _ _ _ _ hfp]; exact led_quote_unpaid _ _ q 0 h hw hq hs


/-! ## Polls of pending melts -/

theorem row_eq_of_y {t : List PRow} (hn : (ysOf t).Nodup) {a b : PRow} (ha : a ∈ t) (hb : b ∈ t) (hy : a.y = b.y) : a = b := by
  induction t with
  | nil => cases ha
  | cons x xs ih =>
    simp only [ysOf, List.map_cons, List.nodup_cons] at hn
    rcases List.mem_cons.1 ha with rfl | ha' <;> rcases List.mem_cons.1 hb with rfl | hb'
    · rfl
    · exfalso; apply hn.1; rw [hy]; exact List.mem_map.2 ⟨b, hb', rfl⟩
    · exfalso; apply hn.1; rw [← hy]; exact List.mem_map.2 ⟨a, ha', rfl⟩
    · exact ih hn.2 ha' hb'

/-- Removing rows from the pending table keeps the ledger when no PENDING quote loses a row. -/
theorem led_drop_rows (db : DB) (invs : List Invoice) (ys : List Nat) (h : Led db invs)
    (hkeep : ∀ m ∈ db.meltQ, m.state = .pending →
      (db.pending.filter (fun r => !ys.contains r.y)).filter (·.quote == m.id) = db.pending.filter (·.quote == m.id)) :
    Led { db with pending := db.pending.filter (fun r => !ys.contains r.y) } invs :=
  ⟨h.core, fun m hm hp => by
    show needOf m ≤ amtP ((db.pending.filter (fun r => !ys.contains r.y)).filter (·.quote == m.id))
    rw [hkeep m hm hp]; exact h.pend m hm hp⟩

/-- The rows of other quotes are not among the rows of quote `qid` (unique secrets in the pending table). -/
theorem other_rows_kept (db : DB) (qid mid : Nat) (hn : (ysOf db.pending).Nodup) (hne : mid ≠ qid) :
    (db.pending.filter (fun r => !(quoteYs db qid).contains r.y)).filter (·.quote == mid) = db.pending.filter (·.quote == mid) := by
  rw [List.filter_filter]
  apply List.filter_congr
  intro r hr
  by_cases hq : (r.quote == mid) = true
  · simp only [hq, Bool.true_and, Bool.not_eq_true', List.contains_eq_mem, decide_eq_false_iff_not]
    intro hmem
    simp only [quoteYs, List.mem_map, List.mem_filter] at hmem
    obtain ⟨r', ⟨hr', hq'⟩, hy⟩ := hmem
    have := row_eq_of_y hn hr' hr hy
    subst this
    apply hne
    have h1 : r'.quote = mid := by simpa using hq
    have h2 : r'.quote = qid := by simpa using hq'
    rw [← h1, h2]
  · simp [hq]

theorem amtP_quoteRows (db : DB) (qid : Nat) : amtP (quoteRows db qid) = amtP (db.pending.filter (·.quote == qid)) := by
  simp [amtP, quoteRows, List.map_map, Function.comp_def]

theorem dbGetMeltQ_id {db : DB} {qid : Int} {q : MeltQ} (h : dbGetMeltQ db qid = .ok q) : (q.id : Int) = qid := by
  unfold dbGetMeltQ at h
  split at h
  · rename_i q' hf; injection h with h; subst h
    have := List.find?_some hf
    have : qid = (q'.id : Int) := by simpa [intIs] using this
    exact this.symm
  · cases h

/-- `GetMeltQuoteState` (a poll) keeps the ledger. -/
theorem led_poll (qid : Int) (s : DL) (h : Led s.1 s.2.invoices) (hw : LedWf s.1) (hd : DbWf s.1) :
    Led (runM (getMeltQuoteState qid) s).1.1 (runM (getMeltQuoteState qid) s).1.2.invoices := by
  apply led_transfer
  generalize hr : runM (getMeltQuoteState qid) s = x
  obtain ⟨s', r⟩ := x
  show Led s'.1 s.2.invoices
  rcases poll_cases qid s s' r hd.pendingWf hr with ⟨_, _, rfl⟩ | ⟨q, hget, ⟨_, _, rfl⟩ | ⟨hp, _, hdb⟩⟩
  · exact h
  · exact h
  · have hq : q ∈ s.1.meltQ := dbGetMeltQ_mem hget
    have hs : q.state ≠ .paid := by rw [hp]; simp
    rw [hdb]
    cases pollOutcome (ans0 s.2) with
    | pending => exact h
    | paid =>
      have h1 := led_quote_paid s.1 s.2.invoices q (q.hash + 1) (quoteRows s.1 q.id) h hw hq hs
        (by rw [amtP_quoteRows]; exact h.pend q hq hp)
      have h2 := led_drop_rows _ _ (quoteYs s.1 q.id) h1 (by
        intro m hm hpm
        obtain ⟨m0, hm0, he⟩ := mem_updMeltQ hm
        by_cases hid : (m0.id == q.id) = true
        · rw [if_pos hid] at he; rw [he] at hpm; cases hpm
        · rw [if_neg hid] at he; subst he
          exact other_rows_kept s.1 q.id m.id hd.pendingNodup (by simpa using hid))
      exact h2
    | unpaid =>
      have h1 := led_quote_unpaid s.1 s.2.invoices q 0 h hw hq hs
      have h2 := led_drop_rows _ _ (quoteYs s.1 q.id) h1 (by
        intro m hm hpm
        obtain ⟨m0, hm0, he⟩ := mem_updMeltQ hm
        by_cases hid : (m0.id == q.id) = true
        · rw [if_pos hid] at he; rw [he] at hpm; cases hpm
        · rw [if_neg hid] at he; subst he
          exact other_rows_kept s.1 q.id m.id hd.pendingNodup (by simpa using hid))
      exact h2


theorem LedWf.runM {α : Type} (p : PM α) (s : DL) (hw : LedWf s.1) : LedWf (runM p s).1.1 :=
  ⟨Gonuts.Props.C06.mintQ_nodup_db.runM p s hw.mintIds, meltQ_nodup_db.runM p s hw.meltIds⟩

theorem led_pollAll (qs : List Nat) (s : DL) (h : Led s.1 s.2.invoices) (hw : LedWf s.1) (hd : DbWf s.1) :
    Led (runM (pollAll qs) s).1.1 (runM (pollAll qs) s).1.2.invoices := by
  induction qs generalizing s with
  | nil => exact h
  | cons q rest ih =>
    simp only [pollAll]
    rw [runM_bind]
    have h1 := led_poll q s h hw hd
    have h2 := hw.runM (getMeltQuoteState (q : Int)) s
    have h3 := wf_poll q s hd
    generalize runM (getMeltQuoteState (q : Int)) s = x at h1 h2 h3
    obtain ⟨s1, r1⟩ := x
    cases r1 with
    | error e => exact h1
    | ok v => exact ih s1 h1 h2 h3

/-- `ProofsStateCheck` (which re-polls the pending melts involved) keeps the ledger. -/
theorem led_checkstate (ys : List YRef) (s : DL) (h : Led s.1 s.2.invoices) (hw : LedWf s.1) (hd : DbWf s.1) :
    Led (runM (proofsStateCheck ys) s).1.1 (runM (proofsStateCheck ys) s).1.2.invoices := by
  rw [checkstate_runM]
  have h1 := led_pollAll (dedupNat ((s.1.pending.filter (fun r => yMatch ys r.y)).map (·.quote))).reverse s h hw hd
  generalize runM (pollAll _) s = x at h1
  obtain ⟨s1, r1⟩ := x
  cases r1 <;> exact h1

/-! ## Lifting to the sequential machine -/

theorem Sess.runPM_led {α : Type} (s : Sess) (p : PM α) (script : List LnAns) (hf : NoFault s.w)
    (hp : ∀ d : DL, d.1 = s.w.db → d.2.invoices = s.w.ln.invoices → Led (runM p d).1.1 (runM p d).1.2.invoices) :
    Led (s.runPM p script).1.w.db (s.runPM p script).1.w.ln.invoices := by
  obtain ⟨ln', hrun, _, _, _, _, _, _, hinv, _⟩ := Sess.runPM_bridge s p script hf
  have := hp (s.w.db, opLn s script) rfl rfl
  rw [hrun] at this
  rw [hinv]; exact this

theorem isSettled_settle (invs : List Invoice) (h x : Nat) (hx : isSettled invs x = true) :
    isSettled (invs.map (fun i => if i.id == h then { i with settled := true } else i)) x = true := by
  unfold isSettled at hx ⊢
  induction invs with
  | nil => simp at hx
  | cons i rest ih =>
    simp only [List.map_cons, List.find?_cons] at hx ⊢
    by_cases hid : (i.id == x) = true
    · have hid' : ((if (i.id == h) = true then { i with settled := true } else i).id == x) = true := by
        split <;> exact hid
      simp only [hid, hid'] at hx ⊢
      split
      · rfl
      · exact hx
    · have hid' : ¬ ((if (i.id == h) = true then { i with settled := true } else i).id == x) = true := by
        split <;> exact hid
      simp only [hid, hid'] at hx ⊢
      exact ih hx

/-- Admissibility of an operation at a state: the backend only notifies the watcher of a quote whose invoice it has
    settled; a melt request satisfies `MeltOk`. Every other operation, with any content, is admissible. -/
def OpOk (s : Sess) : Op → Prop
  | .notify q => ∀ mq, dbGetMintQ s.w.db q = .ok mq → isSettled s.w.ln.invoices mq.hash = true
  | .melt q ps _ _ => MeltOk (cxOf s) s.w.db q ps
  | _ => True

theorem applyOp_led (s : Sess) (op : Op) (ha : op.arms = false) (hf : NoFault s.w) (hd : DbWf s.w.db)
    (hn : OpOk s op) (hl : Led s.w.db s.w.ln.invoices) (hw : LedWf s.w.db) :
    Led (applyOp s op).1.w.db (applyOp s op).1.w.ln.invoices := by
  cases op <;> simp only [applyOp]
  case extInvoice id msat =>
    exact hl.congr_invoices (fun x => isSettled_append _ _ rfl x)
  case settle h =>
    exact hl.mono_invoices (fun x hx => isSettled_settle _ h x hx)
  case mintQuote amount unitSat pk lnFail =>
    have := Sess.runPM_led { s with w := { s.w with ln := { s.w.ln with failCreateInvoice := if lnFail then 1 else 0 } } }
      (requestMintQuote (cxOf s) s.w.nextMintQ amount unitSat pk) [] hf
      (fun d hd hi => led_mintQuote _ _ _ _ _ d (by rw [hd, hi]; exact hl))
    split <;> exact this
  case notify q =>
    split
    · apply Sess.runPM_led s (watcherNotified q) [] hf
      intro d hd hi
      apply led_watcher q d (by rw [hd, hi]; exact hl) (by rw [hd]; exact hw)
      intro mq hq
      rw [hi]; exact hn mq (by rw [← hd]; exact hq)
    · exact hl
  case quoteState q lnFail =>
    apply Sess.runPM_led { s with w := { s.w with ln := { s.w.ln with failInvoiceStatus := if lnFail then 1 else 0 } } }
      (getMintQuoteState q) [] hf
    intro d hd hi
    rw [getMintQuoteState_runM]
    exact (led_gmqs q d (by rw [hd, hi]; exact hl) (by rw [hd]; exact hw)).1
  case mint q outs sig =>
    apply Sess.runPM_led s _ [] hf
    intro d hd hi
    exact led_mint _ q outs sig d (by rw [hd, hi]; exact hl) (by rw [hd]; exact hw)
  case swap ps outs v =>
    apply Sess.runPM_led s _ [] hf
    intro d hd hi
    exact led_swap _ ps outs v d (by rw [hd, hi]; exact hl)
  case meltQuote inv unitSat mpp =>
    have := Sess.runPM_led s (requestMeltQuote (cxOf s) s.w.nextMeltQ inv (invMsat s.w.ln) unitSat mpp) [] hf
      (fun d hd hi => led_meltQuote _ _ _ _ _ _ d (by rw [hd, hi]; exact hl))
    split <;> exact this
  case melt q ps script lnFail =>
    apply Sess.runPM_led { s with w := { s.w with ln := { s.w.ln with failInvoiceStatus := if lnFail then 1 else 0 } } }
      (meltTokens (cxOf s) q ps) script hf
    intro d hdd hi
    exact led_melt _ q ps d (by rw [hdd, hi]; exact hl) (by rw [hdd]; exact hw) (by rw [hdd]; exact hn)
  case meltState q script =>
    apply Sess.runPM_led s _ script hf
    intro d hdd hi
    exact led_poll q d (by rw [hdd, hi]; exact hl) (by rw [hdd]; exact hw) (by rw [hdd]; exact hd)
  case checkState ys script =>
    apply Sess.runPM_led s _ script hf
    intro d hdd hi
    exact led_checkstate ys d (by rw [hdd, hi]; exact hl) (by rw [hdd]; exact hw) (by rw [hdd]; exact hd)
  case restore bs =>
    apply Sess.runPM_led s _ [] hf
    intro d hd hi
    have := Gonuts.Props.C06.restore_noop bs d
    rw [this, hd, hi]; exact hl
  case balance =>
    apply Sess.runPM_led s _ [] hf
    intro d hd hi
    have hb : (runM (balanceOp (cxOf s)) d).1 = d := (balanceOp_cases (cxOf s) d (runM (balanceOp (cxOf s)) d).1 (runM (balanceOp (cxOf s)) d).2 rfl).1
    rw [hb, hd, hi]; exact hl
  case rotate fee =>
    have hw0 : NoFault { s.w with trace := [], ln := { s.w.ln with calls := [] } } := hf
    obtain ⟨h1, _, _, _, _, _, _⟩ := run_eq_runDL (rotateKeyset s.w.mem fee) _ hw0
    obtain ⟨hln, ks, hks⟩ := rotate_cases s.w.mem fee (s.w.db, { s.w.ln with calls := [] })
    have hdb : ((rotateKeyset s.w.mem fee).run { s.w with trace := [], ln := { s.w.ln with calls := [] } }).1.db
        = { s.w.db with keysets := ks } := by
      have := congrArg Prod.fst h1
      simp only [] at this
      rw [this]; exact hks
    have hli : ((rotateKeyset s.w.mem fee).run { s.w with trace := [], ln := { s.w.ln with calls := [] } }).1.ln.invoices
        = s.w.ln.invoices := by
      have := congrArg Prod.snd h1
      simp only [] at this
      rw [this, hln]
    show Led ((rotateKeyset s.w.mem fee).run _).1.db ((rotateKeyset s.w.mem fee).run _).1.ln.invoices
    rw [hdb, hli]
    exact ⟨hl.core, hl.pend⟩
  case restart rotate fee =>
    split
    · have hw0 : NoFault { s.w with mem := memOfDb s.w.db, trace := [], ln := { s.w.ln with calls := [] } } := hf
      obtain ⟨h1, _, _, _, _, _, _⟩ := run_eq_runDL (rotateKeyset (memOfDb s.w.db) fee) _ hw0
      obtain ⟨hln, ks, hks⟩ := rotate_cases (memOfDb s.w.db) fee (s.w.db, { s.w.ln with calls := [] })
      have hdb : ((rotateKeyset (memOfDb s.w.db) fee).run
          { s.w with mem := memOfDb s.w.db, trace := [], ln := { s.w.ln with calls := [] } }).1.db
          = { s.w.db with keysets := ks } := by
        have := congrArg Prod.fst h1
        simp only [] at this
        rw [this]; exact hks
      have hli : ((rotateKeyset (memOfDb s.w.db) fee).run
          { s.w with mem := memOfDb s.w.db, trace := [], ln := { s.w.ln with calls := [] } }).1.ln.invoices
          = s.w.ln.invoices := by
        have := congrArg Prod.snd h1
        simp only [] at this
        rw [this, hln]
      show Led ((rotateKeyset (memOfDb s.w.db) fee).run _).1.db ((rotateKeyset (memOfDb s.w.db) fee).run _).1.ln.invoices
      rw [hdb, hli]
      exact ⟨hl.core, hl.pend⟩
    · exact hl
  case armFault => simp [Op.arms] at ha
  case disarm => exact hl


/-- A history whose operations are admissible at the state they are applied to. -/
def HistOk (s : Sess) : List Op → Prop
  | [] => True
  | op :: rest => op.arms = false ∧ OpOk s op ∧ HistOk (applyOp s op).1 rest

theorem runOps_led (s : Sess) (ops : List Op) (hh : HistOk s ops) (hf : NoFault s.w) (hd : DbWf s.w.db)
    (hl : Led s.w.db s.w.ln.invoices) (hw : LedWf s.w.db) :
    Led (runOps s ops).w.db (runOps s ops).w.ln.invoices := by
  induction ops generalizing s with
  | nil => exact hl
  | cons op rest ih =>
    obtain ⟨ha, hn, hrest⟩ := hh
    obtain ⟨hd', hf'⟩ := applyOp_wf s op ha hf hd
    exact ih _ hrest hf' hd' (applyOp_led s op ha hf hd hn hl hw) (hw.applyOp s op)

theorem led_init (fee : UInt64) (pct : Bool) (cfg : Cfg) :
    Led (initSess fee pct cfg).w.db (initSess fee pct cfg).w.ln.invoices ∧ LedWf (initSess fee pct cfg).w.db ∧
    DbWf (initSess fee pct cfg).w.db := by
  refine ⟨⟨by simp [initSess, credit, received, paidOut], by intro m hm; simp [initSess] at hm⟩,
          ⟨by simp [initSess], by simp [initSess]⟩,
          ⟨by simp [initSess, ysOf], by simp [initSess, ysOf], by intro r hr; simp [initSess] at hr,
           by intro r hr; simp [initSess] at hr, by simp [initSess]⟩⟩

end Gonuts.Model.Mint
