import Gonuts.Lemmas.MintSeq
import Gonuts.Props.C02
import Gonuts.Props.C06
/-!
  The ledger of the mint (C02): a potential function over the tables and the backend's invoices that every operation of
  a sequential, fault-free history keeps non-negative.

    1000·(signed + credit) + paidOut  ≤  1000·(received + redeemed)

  signed   = Σ amounts of all stored blind signatures (everything ever issued)
  credit   = Σ amounts of mint quotes that are PAID / PENDING (paid for, not yet issued)
  paidOut  = Σ over melt quotes that are PAID and were paid over Lightning of  1000·(amount + fee reserve)
             (an upper bound of what the backend may have sent: invoice msat ≤ 1000·amount by F2, fee ≤ reserve by F1)
  received = Σ amounts of mint quotes that are not UNPAID and whose invoice the backend reports settled
  redeemed = Σ amounts of all spent proofs
  and for every PENDING melt quote the inputs locked under it cover amount + fee reserve (`pend`), so what may still go
  out for it is covered by value that cannot be spent meanwhile.
-/
namespace Gonuts.Model.Mint

def amtP (t : List PRow) : Nat := (t.map (fun r => r.amount.toNat)).sum
def amtS (t : List BSig) : Nat := (t.map (fun r => r.amount.toNat)).sum

@[simp] theorem amtP_nil : amtP [] = 0 := rfl
@[simp] theorem amtS_nil : amtS [] = 0 := rfl
theorem amtP_append (a b : List PRow) : amtP (a ++ b) = amtP a + amtP b := by simp [amtP, List.sum_append]
theorem amtS_append (a b : List BSig) : amtS (a ++ b) = amtS a + amtS b := by simp [amtS, List.sum_append]
theorem amtP_cons (r : PRow) (t : List PRow) : amtP (r :: t) = r.amount.toNat + amtP t := by simp [amtP]

/-- The backend reports invoice `h` settled. -/
def isSettled (invs : List Invoice) (h : Nat) : Bool :=
  match invs.find? (·.id == h) with
  | some i => i.settled
  | none => false

def creditOf (q : MintQ) : Nat := if q.state == .paid || q.state == .pending then q.amount.toNat else 0
def inflowOf (invs : List Invoice) (q : MintQ) : Nat := if q.state != .unpaid && isSettled invs q.hash then q.amount.toNat else 0
def credit (db : DB) : Nat := (db.mintQ.map creditOf).sum
def received (db : DB) (invs : List Invoice) : Nat := (db.mintQ.map (inflowOf invs)).sum

/-- A melt quote that is settled over Lightning (no mint quote of this mint has its invoice). -/
def externalQ (db : DB) (m : MeltQ) : Bool := !(db.mintQ.any (·.hash == m.hash))
def needOf (m : MeltQ) : Nat := m.amount.toNat + m.feeReserve.toNat
def outOf (db : DB) (m : MeltQ) : Nat := if m.state == .paid && externalQ db m then 1000 * needOf m else 0
def paidOut (db : DB) : Nat := (db.meltQ.map (outOf db)).sum

structure Led (db : DB) (invs : List Invoice) : Prop where
  core : 1000 * (amtS db.sigs + credit db) + paidOut db ≤ 1000 * (received db invs + amtP db.spent)
  pend : ∀ m ∈ db.meltQ, m.state = .pending → needOf m ≤ amtP (db.pending.filter (·.quote == m.id))


/-! ## Sums under the table updates the operations make -/

theorem amtS_eq_natSum (t : List BSig) : amtS t = natSum (t.map (·.amount)) := by
  simp [amtS, natSum, List.map_map, Function.comp_def]
theorem amtP_rows (ps : List Proof) : amtP (ps.map Proof.row) = natSum (ps.map (·.amount)) := by
  simp [amtP, natSum, List.map_map, Function.comp_def, Proof.row]

/-- Frame: an update that leaves the two quote tables alone. -/
theorem credit_frame (db : DB) (sp pe : List PRow) (sg : List BSig) :
    credit { db with spent := sp, pending := pe, sigs := sg } = credit db := rfl
theorem received_frame (db : DB) (invs : List Invoice) (sp pe : List PRow) (sg : List BSig) :
    received { db with spent := sp, pending := pe, sigs := sg } invs = received db invs := rfl
theorem paidOut_frame (db : DB) (sp pe : List PRow) (sg : List BSig) :
    paidOut { db with spent := sp, pending := pe, sigs := sg } = paidOut db := rfl

/-- Swap keeps the ledger. -/
theorem led_swap (cx : Cx) (ps : List Proof) (outs : List BMsg) (v : Option E) (s : DL) (h : Led s.1 s.2.invoices) :
    Led (runM (swap cx ps outs v) s).1.1 (runM (swap cx ps outs v) s).1.2.invoices := by
  generalize hr : runM (swap cx ps outs v) s = x
  obtain ⟨s', r⟩ := x
  rcases swap_cases cx ps outs v s s' r hr with ⟨e, _, hs⟩ | ⟨sigs, hrr, hok⟩
  · rw [hs]; exact h
  · subst hrr
    have hbal := Gonuts.Props.C02.swap_out_le_in_minus_fee cx ps outs v s s' sigs hr
    have hm := (Gonuts.Props.C02.signatures_match_outputs cx ps outs v s s' sigs hr).1
    show Led s'.1 s'.2.invoices
    rw [hok.ln, hok.db]
    constructor
    · show 1000 * (amtS (s.1.sigs ++ sigs) + credit s.1) + paidOut s.1 ≤ 1000 * (received s.1 s.2.invoices + amtP (s.1.spent ++ ps.map Proof.row))
      rw [amtS_append, amtP_append, amtS_eq_natSum sigs, hm, amtP_rows]
      have := h.core
      omega
    · exact h.pend

/-! ## Mint quote state changes -/

theorem sum_updMintQ (f : MintQ → Nat) (qs : List MintQ) (q : MintQ) (st : MQState)
    (hn : (qs.map (·.id)).Nodup) (hq : q ∈ qs) :
    ((updMintQ qs q.id st).map f).sum + f q = (qs.map f).sum + f { q with state := st } := by
  induction qs with
  | nil => cases hq
  | cons x xs ih =>
    simp only [List.map_cons, List.nodup_cons] at hn
    simp only [updMintQ, List.map_cons, List.sum_cons] at ih ⊢
    rcases List.mem_cons.1 hq with rfl | hq'
    · -- the head is the quote; the tail has no quote with this id
      have htail : xs.map (fun y => if (y.id == q.id) = true then { y with state := st } else y) = xs := by
        conv => rhs; rw [← List.map_id xs]
        apply List.map_congr_left
        intro y hy
        have : ¬ (y.id == q.id) = true := by
          intro he; apply hn.1; rw [← (by simpa using he : y.id = q.id)]; exact List.mem_map.2 ⟨y, hy, rfl⟩
        simp [this]
      simp only [beq_self_eq_true, if_true, htail]
      omega
    · have hne : ¬ (x.id == q.id) = true := by
        intro he; apply hn.1; rw [(by simpa using he : x.id = q.id)]; exact List.mem_map.2 ⟨q, hq', rfl⟩
      rw [if_neg hne]
      have := ih hn.2 hq'
      omega

theorem updMintQ_twice (qs : List MintQ) (id : Nat) (a b : MQState) : updMintQ (updMintQ qs id a) id b = updMintQ qs id b := by
  simp only [updMintQ, List.map_map]
  apply List.map_congr_left
  intro q _
  simp only [Function.comp]
  by_cases h : (q.id == id) = true <;> simp [h]

theorem externalQ_updMintQ (db : DB) (id : Nat) (st : MQState) (m : MeltQ) :
    externalQ { db with mintQ := updMintQ db.mintQ id st } m = externalQ db m := by
  simp only [externalQ, updMintQ, List.any_map]
  congr 2
  funext q
  simp only [Function.comp]
  split <;> rfl

theorem paidOut_updMintQ (db : DB) (id : Nat) (st : MQState) :
    paidOut { db with mintQ := updMintQ db.mintQ id st } = paidOut db := by
  simp only [paidOut]
  congr 1
  apply List.map_congr_left
  intro m _
  simp only [outOf, externalQ_updMintQ]

/-- Backend facts. -/
theorem lnInvStatus_invoices (ln : LN) (h : Nat) : (lnInvStatus ln h).1.invoices = ln.invoices := by
  unfold lnInvStatus
  simp only [execLn]
  split
  · rfl
  · split <;> rfl

theorem lnInvStatus_settled (ln : LN) (h : Nat) (hs : (lnInvStatus ln h).2 = some true) : isSettled ln.invoices h = true := by
  unfold lnInvStatus at hs
  simp only [execLn] at hs
  unfold isSettled
  split at hs
  · cases hs
  · rename_i inv hf
    rw [hf]
    split at hs
    · cases hs
    · simpa using hs

/-- The quote found by id is a row of the table with that id. -/
theorem dbGetMintQ_id {db : DB} {qid : Int} {q : MintQ} (h : dbGetMintQ db qid = .ok q) : (q.id : Int) = qid := by
  unfold dbGetMintQ at h
  split at h
  · rename_i q' hf; injection h with h; subst h
    have := List.find?_some hf
    have : qid = (q'.id : Int) := by simpa [intIs] using this
    exact this.symm
  · cases h

theorem creditOf_state (q : MintQ) (st : MQState) :
    creditOf { q with state := st } = if st == .paid || st == .pending then q.amount.toNat else 0 := rfl
theorem inflowOf_state (invs : List Invoice) (q : MintQ) (st : MQState) :
    inflowOf invs { q with state := st } = if st != .unpaid && isSettled invs q.hash then q.amount.toNat else 0 := rfl

/-- UNPAID → PAID because the backend reports the invoice settled: credit and received grow by the same amount. -/
theorem led_setPaid (db : DB) (invs : List Invoice) (q : MintQ) (h : Led db invs) (hn : (db.mintQ.map (·.id)).Nodup)
    (hq : q ∈ db.mintQ) (hu : q.state = .unpaid) (hs : isSettled invs q.hash = true) :
    Led { db with mintQ := updMintQ db.mintQ q.id .paid } invs := by
  have hc := sum_updMintQ creditOf db.mintQ q .paid hn hq
  have hr := sum_updMintQ (inflowOf invs) db.mintQ q .paid hn hq
  have c0 : creditOf q = 0 := by simp [creditOf, hu]
  have r0 : inflowOf invs q = 0 := by simp [inflowOf, hu]
  have c1 : creditOf { q with state := .paid } = q.amount.toNat := rfl
  have r1 : inflowOf invs { q with state := .paid } = q.amount.toNat := by simp [inflowOf, hs]
  rw [c0, c1] at hc
  rw [r0, r1] at hr
  constructor
  · show 1000 * (amtS db.sigs + ((updMintQ db.mintQ q.id .paid).map creditOf).sum) + paidOut { db with mintQ := updMintQ db.mintQ q.id .paid }
        ≤ 1000 * (((updMintQ db.mintQ q.id .paid).map (inflowOf invs)).sum + amtP db.spent)
    rw [paidOut_updMintQ]
    have := h.core
    simp only [credit, received] at this
    omega
  · exact h.pend

/-- PAID → ISSUED with signatures for at most the quoted amount. -/
theorem led_setIssued (db : DB) (invs : List Invoice) (q : MintQ) (sigs : List BSig) (h : Led db invs)
    (hn : (db.mintQ.map (·.id)).Nodup) (hq : q ∈ db.mintQ) (hp : q.state = .paid) (ha : amtS sigs ≤ q.amount.toNat) :
    Led { db with mintQ := updMintQ db.mintQ q.id .issued, sigs := db.sigs ++ sigs } invs := by
  have hc := sum_updMintQ creditOf db.mintQ q .issued hn hq
  have hr := sum_updMintQ (inflowOf invs) db.mintQ q .issued hn hq
  have c0 : creditOf q = q.amount.toNat := by simp [creditOf, hp]
  have c1 : creditOf { q with state := .issued } = 0 := rfl
  have r01 : inflowOf invs { q with state := .issued } = inflowOf invs q := by simp [inflowOf, hp]
  rw [c0, c1] at hc
  rw [r01] at hr
  constructor
  · show 1000 * (amtS (db.sigs ++ sigs) + ((updMintQ db.mintQ q.id .issued).map creditOf).sum) +
          paidOut { db with mintQ := updMintQ db.mintQ q.id .issued, sigs := db.sigs ++ sigs }
        ≤ 1000 * (((updMintQ db.mintQ q.id .issued).map (inflowOf invs)).sum + amtP db.spent)
    have hpo : paidOut { db with mintQ := updMintQ db.mintQ q.id .issued, sigs := db.sigs ++ sigs } = paidOut db :=
      paidOut_updMintQ { db with sigs := db.sigs ++ sigs } q.id .issued
    rw [hpo, amtS_append]
    have := h.core
    simp only [credit, received] at this
    omega
  · exact h.pend

structure LedWf (db : DB) : Prop where
  mintIds : (db.mintQ.map (·.id)).Nodup
  meltIds : (db.meltQ.map (·.id)).Nodup

/-- `GetMintQuoteState` (also the leading check of `MintTokens`). -/
theorem led_gmqs (qid : Int) (s : DL) (h : Led s.1 s.2.invoices) (hw : LedWf s.1) :
    Led (gmqsSpec qid s).1.1 (gmqsSpec qid s).1.2.invoices ∧ (gmqsSpec qid s).1.2.invoices = s.2.invoices := by
  have hinv : (gmqsSpec qid s).1.2.invoices = s.2.invoices := by
    unfold gmqsSpec
    split
    · rfl
    · split
      · split
        · exact lnInvStatus_invoices _ _
        · split
          · split <;> exact lnInvStatus_invoices _ _
          · exact lnInvStatus_invoices _ _
      · rfl
  refine ⟨?_, hinv⟩
  rw [hinv]
  rcases Gonuts.Props.C06.quoteState_only_unpaid_to_paid qid s with he | ⟨q, hq, hu, hst, he⟩
  · rw [he]; exact h
  · rw [he]
    exact led_setPaid s.1 s.2.invoices q h hw.mintIds (Gonuts.Props.C06.dbGetMintQ_mem hq) hu (lnInvStatus_settled _ _ hst)

theorem LedWf.gmqs (qid : Int) (s : DL) (hw : LedWf s.1) : LedWf (gmqsSpec qid s).1.1 := by
  have h1 := Gonuts.Props.C06.mintQ_nodup_db.runM (getMintQuoteState qid) s hw.mintIds
  rw [getMintQuoteState_runM] at h1
  refine ⟨h1, ?_⟩
  rcases Gonuts.Props.C06.quoteState_only_unpaid_to_paid qid s with he | ⟨q, _, _, _, he⟩ <;> rw [he] <;> exact hw.meltIds

/-- `MintTokens` keeps the ledger. -/
theorem led_mint (cx : Cx) (qid : Int) (outs : List BMsg) (sig : QSig) (s : DL) (h : Led s.1 s.2.invoices) (hw : LedWf s.1) :
    Led (runM (mintTokens cx qid outs sig) s).1.1 (runM (mintTokens cx qid outs sig) s).1.2.invoices := by
  obtain ⟨hg, hgi⟩ := led_gmqs qid s h hw
  have hwg := hw.gmqs qid s
  generalize hr : runM (mintTokens cx qid outs sig) s = x
  obtain ⟨s', r⟩ := x
  show Led s'.1 s'.2.invoices
  rcases mintTokens_cases cx qid outs sig s s' r hr with ⟨e', _, _, hs⟩ | ⟨q, hq, hc⟩
  · rw [hs]; exact hg
  · have hmem : q ∈ (gmqsSpec qid s).1.1.mintQ := Gonuts.Props.C06.gmqs_mem qid s q hq
    rcases hc with ⟨_, _, hs⟩ | ⟨_, _, hs⟩ | ⟨_, _, hs⟩ | ⟨hp, ⟨e', _, hl, hs | hs⟩ | ⟨sigs, he, hok⟩⟩
    · rw [hs]; exact hg
    · rw [hs]; exact hg
    · rw [hs]; exact hg
    · rw [hl, hs]; exact hg
    · rw [hl, hs]
      have := Gonuts.Props.C06.updMintQ_same_state _ q hwg.mintIds hmem
      rw [hp] at this
      rw [this]; exact hg
    · rw [hok.ln, hok.db, updMintQ_twice]
      apply led_setIssued _ _ q sigs hg hwg.mintIds hmem hp
      obtain ⟨total, hac, hle⟩ := hok.amount
      have h1 := amountChecked_some _ _ hac
      have h2 := (signAll_ok hok.signed).2.1
      rw [amtS_eq_natSum, h2]
      simp only [outAmounts] at h1
      rw [← h1]
      have hle' : ¬ q.amount < total := hle
      rw [UInt64.lt_iff_toNat_lt] at hle'
      omega

/-- The invoice watcher (the backend only notifies settled invoices: `hs`). -/
theorem led_watcher (qid : Nat) (s : DL) (h : Led s.1 s.2.invoices) (hw : LedWf s.1)
    (hs : ∀ q, dbGetMintQ s.1 qid = .ok q → isSettled s.2.invoices q.hash = true) :
    Led (runM (watcherNotified qid) s).1.1 (runM (watcherNotified qid) s).1.2.invoices := by
  generalize hr : runM (watcherNotified qid) s = x
  obtain ⟨s', r⟩ := x
  obtain ⟨hl, hc⟩ := watcher_cases qid s s' r hr
  show Led s'.1 s'.2.invoices
  rw [hl]
  rcases hc with ⟨_, he⟩ | ⟨q, hq, hu, _, he⟩
  · rw [he]; exact h
  · rw [he]
    have hid : q.id = qid := by have := dbGetMintQ_id hq; exact_mod_cast this
    rw [← hid]
    exact led_setPaid s.1 s.2.invoices q h hw.mintIds (Gonuts.Props.C06.dbGetMintQ_mem hq) hu (hs q hq)
end Gonuts.Model.Mint
