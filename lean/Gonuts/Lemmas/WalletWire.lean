import Gonuts.Model.WalletWire
/-!
  Lemmas about `Model.WalletWire` (C08): leaves of the rendered values, security of each request builder
  (with the exact condition on the inputs), and of each operation path.
-/
namespace Gonuts.Model.WalletWire

/-! ## leaves of composite trees -/

theorem mem_leavesItems {ts : List Tree} {pl : Path × Leaf} :
    pl ∈ leavesItems ts ↔ ∃ t ∈ ts, ∃ q ∈ t.leaves, pl = ("[]" :: q.1, q.2) := by
  induction ts with
  | nil => simp [leavesItems]
  | cons t rest ih =>
    simp only [leavesItems, List.mem_append, List.mem_map, ih, List.mem_cons, exists_eq_or_imp]
    constructor
    · rintro (⟨q, hq, rfl⟩ | h)
      · exact Or.inl ⟨q, hq, rfl⟩
      · exact Or.inr h
    · rintro (⟨q, hq, rfl⟩ | h)
      · exact Or.inl ⟨q, hq, rfl⟩
      · exact Or.inr h

theorem mem_leavesFields {fs : List (String × Tree)} {pl : Path × Leaf} :
    pl ∈ leavesFields fs ↔ ∃ kt ∈ fs, ∃ q ∈ kt.2.leaves, pl = (kt.1 :: q.1, q.2) := by
  induction fs with
  | nil => simp [leavesFields]
  | cons kt rest ih =>
    obtain ⟨k, t⟩ := kt
    simp only [leavesFields, List.mem_append, List.mem_map, ih, List.mem_cons, exists_eq_or_imp]
    constructor
    · rintro (⟨q, hq, rfl⟩ | h)
      · exact Or.inl ⟨q, hq, rfl⟩
      · exact Or.inr h
    · rintro (⟨q, hq, rfl⟩ | h)
      · exact Or.inl ⟨q, hq, rfl⟩
      · exact Or.inr h

theorem leavesFields_append (a b : List (String × Tree)) : leavesFields (a ++ b) = leavesFields a ++ leavesFields b := by
  induction a with
  | nil => simp [leavesFields]
  | cons kt rest ih => obtain ⟨k, t⟩ := kt; simp [leavesFields, ih]

@[simp] theorem leaves_leaf (l : Leaf) : (Tree.leaf l).leaves = [([], l)] := by simp [Tree.leaves]
@[simp] theorem leaves_node (fs : List (String × Tree)) : (Tree.node fs).leaves = leavesFields fs := by simp [Tree.leaves]
@[simp] theorem leaves_arr (xs : List Tree) : (Tree.arr xs).leaves = leavesItems xs := by simp [Tree.leaves]

/-! ## harmless leaves -/

/-- public text, numbers and curve points -/
def Leaf.harmless : Leaf → Bool
  | .pub _ => true
  | .num _ => true
  | .point _ _ => true
  | _ => false

theorem Leaf.harmless_not_blinding {l : Leaf} (h : l.harmless = true) : l.isBlinding = false := by
  cases l <;> simp_all [Leaf.harmless, Leaf.isBlinding]
theorem Leaf.harmless_no_secret {l : Leaf} (h : l.harmless = true) : l.clearSecret = none := by
  cases l <;> simp_all [Leaf.harmless, Leaf.clearSecret]
theorem Leaf.harmless_not_transcript {l : Leaf} (h : l.harmless = true) : l.isTranscript = false := by
  cases l <;> simp_all [Leaf.harmless, Leaf.isTranscript]

/-- an output renders to amount, B_, id (and a public witness): nothing else -/
theorem renderOutput_leaves (o : Output) : ∀ q ∈ (renderOutput o).leaves, q.2.harmless = true := by
  intro q hq
  cases hw : o.witness <;> simp [renderOutput, hw, leavesFields] at hq <;>
    (rcases hq with rfl | rfl | rfl | rfl) <;> simp [Leaf.harmless]

/-! ## what a proof renders to -/

/-- the proof carries no blinding factor: no DLEQ, or a DLEQ whose `r` is empty -/
def WProof.NoR (p : WProof) : Prop := ∀ d, p.dleq = some d → d.r = none

instance (p : WProof) : Decidable p.NoR := by
  unfold WProof.NoR
  cases h : p.dleq with
  | none => exact isTrue (by simp)
  | some d =>
    cases hr : d.r with
    | none => exact isTrue (by intro d' hd; cases hd; exact hr)
    | some r => exact isFalse (by intro hh; have := hh d rfl; simp [hr] at this)

/-- every leaf of a rendered proof: harmless, its secret at `secret`, or under `dleq` (e, s, and r iff the proof has it) -/
theorem renderProof_leaves (role : Role) (p : WProof) :
    ∀ q ∈ (renderProof role p).leaves,
      q.2.harmless = true ∨ q = (["secret"], role.secretLeaf p.secret) ∨
      ∃ d, p.dleq = some d ∧ (q = (["dleq", "e"], .dleqE d.e) ∨ q = (["dleq", "s"], .dleqS d.s) ∨
        ∃ r, d.r = some r ∧ q = (["dleq", "r"], .blindingFactor r)) := by
  intro q hq
  cases hw : p.witness <;> cases hd : p.dleq with
  | none =>
    simp [renderProof, hw, hd, leavesFields] at hq
    repeat' (rcases hq with rfl | hq)
    all_goals (try subst hq)
    all_goals simp [Leaf.harmless]
  | some d =>
    cases hr : d.r with
    | none =>
      simp [renderProof, renderDLEQ, hw, hd, hr, leavesFields] at hq
      repeat' (rcases hq with rfl | hq)
      all_goals (try subst hq)
      all_goals simp [Leaf.harmless]
    | some r =>
      simp [renderProof, renderDLEQ, hw, hd, hr, leavesFields] at hq
      repeat' (rcases hq with rfl | hq)
      all_goals (try subst hq)
      all_goals simp [Leaf.harmless, hr]

/-- a proof WITH a blinding factor renders it at `dleq.r` -/
theorem renderProof_has_r (role : Role) (p : WProof) (d : DLEQ) (r : Nat) (hd : p.dleq = some d) (hr : d.r = some r) :
    (["dleq", "r"], Leaf.blindingFactor r) ∈ (renderProof role p).leaves := by
  cases hw : p.witness <;> simp [renderProof, renderDLEQ, hw, hd, hr, leavesFields]

/-- a proof with a DLEQ renders the mint's transcript -/
theorem renderProof_has_e (role : Role) (p : WProof) (d : DLEQ) (hd : p.dleq = some d) :
    (["dleq", "e"], Leaf.dleqE d.e) ∈ (renderProof role p).leaves := by
  cases hw : p.witness <;> cases hr : d.r <;> simp [renderProof, renderDLEQ, hw, hd, hr, leavesFields]

/-! ## the property on one request -/

/-- a leaf of a request body is fine w.r.t. the request's inputs: not a blinding factor, and a secret in clear only
    at `inputs[].secret` and only the secret of one of the inputs -/
def LeafOk (inputs : List WProof) (pl : Path × Leaf) : Prop :=
  (∀ x, pl.2 ≠ .blindingFactor x) ∧
  (∀ s, pl.2.clearSecret = some s → pl.1 = ["inputs", "[]", "secret"] ∧ ∃ p ∈ inputs, p.secret = s)

/-- C08 for one request -/
def Req.Secure (r : Req) : Prop := ∀ pl ∈ r.body.leaves, LeafOk r.inputs pl

/-- no leaf of the body belongs to the mint's DLEQ transcript -/
def Req.NoTranscript (r : Req) : Prop := ∀ pl ∈ r.body.leaves, pl.2.isTranscript = false

instance (r : Req) : Decidable r.NoTranscript := by unfold Req.NoTranscript; infer_instance

theorem LeafOk_of_harmless (inputs : List WProof) (path : Path) {l : Leaf} (h : l.harmless = true) : LeafOk inputs (path, l) := by
  refine ⟨?_, ?_⟩
  · intro x hx; cases hx; simp [Leaf.harmless] at h
  · intro s hs; simp [Leaf.harmless_no_secret h] at hs

theorem secureB_iff (r : Req) : r.secureB = true ↔ r.Secure := by
  simp only [Req.secureB, Tree.noBlindingB, secretsOnlyInputsB, Bool.and_eq_true, List.all_eq_true, Req.Secure, LeafOk]
  constructor
  · rintro ⟨h1, h2⟩ pl hpl
    refine ⟨?_, ?_⟩
    · intro x hx; have := h1 pl hpl; simp [hx, Leaf.isBlinding] at this
    · intro s hs
      have := h2 pl hpl
      simp only [hs, Bool.and_eq_true, beq_iff_eq, List.any_eq_true] at this
      obtain ⟨hp, p, hp1, hp2⟩ := this
      exact ⟨hp, p, hp1, by simpa using hp2⟩
  · intro h
    refine ⟨?_, ?_⟩
    · intro pl hpl
      have := (h pl hpl).1
      cases hl : pl.2 <;> simp [Leaf.isBlinding]
      exact this _ hl
    · intro pl hpl
      have := (h pl hpl).2
      cases hc : pl.2.clearSecret with
      | none => simp
      | some s =>
        obtain ⟨hp, p, hp1, hp2⟩ := this s hc
        simp only [Bool.and_eq_true, beq_iff_eq, List.any_eq_true]
        exact ⟨hp, p, hp1, by simpa using hp2⟩

instance (r : Req) : Decidable r.Secure := decidable_of_iff _ (secureB_iff r)

/-- list of proofs none of which carries a blinding factor -/
def NoRs (ps : List WProof) : Prop := ∀ p ∈ ps, p.NoR

/-- list of proofs none of which carries a DLEQ -/
def NoDLEQs (ps : List WProof) : Prop := ∀ p ∈ ps, p.dleq = none

instance (ps : List WProof) : Decidable (NoRs ps) := by unfold NoRs; infer_instance

theorem NoDLEQs.noRs {ps : List WProof} (h : NoDLEQs ps) : NoRs ps := by
  intro p hp d hd; rw [h p hp] at hd; cases hd

/-- leaves of `inputs: [...]` -/
theorem inputs_leaf_ok {ins : List WProof} {p : WProof} (hp : p ∈ ins) (hr : p.NoR)
    {q : Path × Leaf} (hq : q ∈ (renderProof .input p).leaves) : LeafOk ins ("inputs" :: "[]" :: q.1, q.2) := by
  rcases renderProof_leaves .input p q hq with h | rfl | ⟨d, hd, h⟩
  · exact LeafOk_of_harmless _ _ h
  · refine ⟨fun x hx => ?_, fun s hs => ?_⟩
    · simp [Role.secretLeaf] at hx
    · simp only [Role.secretLeaf, Leaf.clearSecret, Option.some.injEq] at hs
      exact ⟨rfl, p, hp, hs⟩
  · rcases h with rfl | rfl | ⟨r, hr', _⟩
    · exact ⟨fun x hx => by simp at hx, fun s hs => by simp [Leaf.clearSecret] at hs⟩
    · exact ⟨fun x hx => by simp at hx, fun s hs => by simp [Leaf.clearSecret] at hs⟩
    · rw [hr d hd] at hr'; cases hr'

/-! ## the request builders -/

theorem secure_getReq (w : String) : (getReq w).Secure := by
  intro pl hpl; simp [getReq, leavesFields] at hpl

theorem secure_postMintQuoteReq (a : Nat) : (postMintQuoteReq a).Secure := by
  intro pl hpl
  simp [postMintQuoteReq, leavesFields] at hpl
  rcases hpl with rfl | rfl | rfl <;> exact LeafOk_of_harmless _ _ (by simp [Leaf.harmless])

theorem secure_postMeltQuoteReq : postMeltQuoteReq.Secure := by
  intro pl hpl
  simp [postMeltQuoteReq, leavesFields] at hpl
  rcases hpl with rfl | rfl <;> exact LeafOk_of_harmless _ _ (by simp [Leaf.harmless])

theorem outputs_leaf_ok (inputs : List WProof) (k : String) (outs : List Output) {pl : Path × Leaf}
    (h : pl ∈ leavesFields [(k, Tree.arr (outs.map renderOutput))]) : LeafOk inputs pl := by
  simp only [mem_leavesFields, List.mem_singleton, exists_eq_left, leaves_arr, mem_leavesItems, List.mem_map] at h
  obtain ⟨q, ⟨t, ⟨o, _, rfl⟩, q', hq', rfl⟩, rfl⟩ := h
  exact LeafOk_of_harmless _ _ (renderOutput_leaves o q' hq')

/-- the mint request carries the quote id, the blinded messages and a signature: never a secret or r -/
theorem secure_postMintReq (q : String) (outs : List Output) (sg : Bool) : (postMintReq q outs sg).Secure := by
  intro pl hpl
  simp only [postMintReq, leaves_node] at hpl
  rw [show ([("quote", Tree.leaf (Leaf.pub q)), ("outputs", Tree.arr (outs.map renderOutput))] : List (String × Tree)) =
    [("quote", Tree.leaf (Leaf.pub q))] ++ [("outputs", Tree.arr (outs.map renderOutput))] from rfl] at hpl
  simp only [leavesFields_append, List.mem_append] at hpl
  rcases hpl with (h | h) | h
  · simp [leavesFields] at h; subst h; exact LeafOk_of_harmless _ _ (by simp [Leaf.harmless])
  · exact outputs_leaf_ok _ _ _ h
  · cases sg <;> simp [leavesFields] at h
    subst h; exact LeafOk_of_harmless _ _ (by simp [Leaf.harmless])

theorem secure_postCheckStateReq (ss : List Nat) : (postCheckStateReq ss).Secure := by
  intro pl hpl
  simp only [postCheckStateReq, leaves_node, mem_leavesFields, List.mem_singleton, exists_eq_left, leaves_arr,
    mem_leavesItems, List.mem_map] at hpl
  obtain ⟨q, ⟨t, ⟨s, _, rfl⟩, q', hq', rfl⟩, rfl⟩ := hpl
  simp at hq'; subst hq'
  exact LeafOk_of_harmless _ _ (by simp [Leaf.harmless])

theorem secure_postRestoreReq (outs : List Output) : (postRestoreReq outs).Secure := by
  intro pl hpl
  simp only [postRestoreReq, leaves_node, mem_leavesFields, List.mem_singleton, exists_eq_left, leaves_arr,
    mem_leavesItems, List.mem_map] at hpl
  obtain ⟨q, ⟨t, ⟨o, _, rfl⟩, q', hq', rfl⟩, rfl⟩ := hpl
  exact LeafOk_of_harmless _ _ (renderOutput_leaves _ q' hq')

theorem inputs_field_ok {ins : List WProof} (h : NoRs ins) {pl : Path × Leaf}
    (hpl : pl ∈ leavesFields [("inputs", Tree.arr (ins.map (renderProof .input)))]) : LeafOk ins pl := by
  simp only [mem_leavesFields, List.mem_singleton, exists_eq_left, leaves_arr, mem_leavesItems, List.mem_map] at hpl
  obtain ⟨q, ⟨t, ⟨p, hp, rfl⟩, q', hq', rfl⟩, rfl⟩ := hpl
  exact inputs_leaf_ok hp (h p hp) hq'

/-- EXACT condition: a swap request is secure iff none of the proofs passed as `Inputs:` carries a blinding factor -/
theorem secure_postSwapReq_iff (ins : List WProof) (outs : List Output) : (postSwapReq ins outs).Secure ↔ NoRs ins := by
  constructor
  · intro h p hp d hd
    cases hr : d.r with
    | none => rfl
    | some r =>
      exfalso
      have hm := renderProof_has_r .input p d r hd hr
      have : (["inputs", "[]", "dleq", "r"], Leaf.blindingFactor r) ∈ (postSwapReq ins outs).body.leaves := by
        simp only [postSwapReq, leaves_node]
        refine mem_leavesFields.2 ⟨("inputs", _), List.mem_cons_self, (["[]", "dleq", "r"], _), ?_, rfl⟩
        simp only [leaves_arr]
        exact mem_leavesItems.2 ⟨_, List.mem_map.2 ⟨p, hp, rfl⟩, _, hm, rfl⟩
      exact (h _ this).1 r rfl
  · intro h pl hpl
    simp only [postSwapReq, leaves_node] at hpl
    rw [show ([("inputs", Tree.arr (ins.map (renderProof .input))), ("outputs", Tree.arr (outs.map renderOutput))] :
        List (String × Tree)) = [("inputs", Tree.arr (ins.map (renderProof .input)))] ++
        [("outputs", Tree.arr (outs.map renderOutput))] from rfl] at hpl
    simp only [leavesFields_append, List.mem_append] at hpl
    rcases hpl with h1 | h1
    · exact inputs_field_ok h h1
    · exact outputs_leaf_ok _ _ _ h1

/-- EXACT condition for a melt request -/
theorem secure_postMeltReq_iff (q : String) (ins : List WProof) (outs : List Output) :
    (postMeltReq q ins outs).Secure ↔ NoRs ins := by
  constructor
  · intro h p hp d hd
    cases hr : d.r with
    | none => rfl
    | some r =>
      exfalso
      have hm := renderProof_has_r .input p d r hd hr
      have : (["inputs", "[]", "dleq", "r"], Leaf.blindingFactor r) ∈ (postMeltReq q ins outs).body.leaves := by
        simp only [postMeltReq, leaves_node, leavesFields_append, List.mem_append]
        refine Or.inl (mem_leavesFields.2 ⟨("inputs", Tree.arr (ins.map (renderProof .input))), by simp,
          (["[]", "dleq", "r"], _), ?_, rfl⟩)
        simp only [leaves_arr]
        exact mem_leavesItems.2 ⟨_, List.mem_map.2 ⟨p, hp, rfl⟩, _, hm, rfl⟩
      exact (h _ this).1 r rfl
  · intro h pl hpl
    simp only [postMeltReq, leaves_node] at hpl
    rw [show ([("quote", Tree.leaf (Leaf.pub q)), ("inputs", Tree.arr (ins.map (renderProof .input)))] :
        List (String × Tree)) = [("quote", Tree.leaf (Leaf.pub q))] ++
        [("inputs", Tree.arr (ins.map (renderProof .input)))] from rfl] at hpl
    simp only [leavesFields_append, List.mem_append] at hpl
    rcases hpl with (h1 | h1) | h1
    · simp [leavesFields] at h1; subst h1; exact LeafOk_of_harmless _ _ (by simp [Leaf.harmless])
    · exact inputs_field_ok h h1
    · cases he : outs.isEmpty <;> simp only [he] at h1
      · exact outputs_leaf_ok _ _ _ h1
      · simp [leavesFields] at h1

/-! ## lists of requests -/

def AllSecure (rs : List Req) : Prop := ∀ r ∈ rs, r.Secure

@[simp] theorem AllSecure_nil : AllSecure [] := by intro r hr; cases hr
@[simp] theorem AllSecure_cons (r : Req) (rs : List Req) : AllSecure (r :: rs) ↔ r.Secure ∧ AllSecure rs := by
  simp [AllSecure]
@[simp] theorem AllSecure_append (a b : List Req) : AllSecure (a ++ b) ↔ AllSecure a ∧ AllSecure b := by
  simp only [AllSecure, List.mem_append]
  exact ⟨fun h => ⟨fun r hr => h r (Or.inl hr), fun r hr => h r (Or.inr hr)⟩,
         fun h r hr => hr.elim (h.1 r) (h.2 r)⟩

theorem AllSecure_flatten_replicate (n : Nat) (round : List Req) (h : AllSecure round) :
    AllSecure (List.replicate n round).flatten := by
  induction n with
  | zero => simp
  | succ n ih => simp [List.replicate_succ, h, ih]

/-! ## helpers preserve "no blinding factor" -/

theorem NoRs_addWitnessToInputs {ps : List WProof} (h : NoRs ps) : NoRs (addWitnessToInputs ps) := by
  intro p hp
  simp only [addWitnessToInputs, List.mem_map] at hp
  obtain ⟨q, hq, rfl⟩ := hp
  exact h q hq

theorem NoDLEQs_map_reclaimCopy (ps : List WProof) : NoDLEQs (ps.map reclaimCopy) := by
  intro p hp
  simp only [List.mem_map] at hp
  obtain ⟨q, _, rfl⟩ := hp
  rfl

/-- signatures without DLEQ give proofs without DLEQ -/
theorem constructProofs_noDLEQ : ∀ (sigs : List Sig) (outs : List Output) (ps : List WProof),
    constructProofs sigs outs = some ps → (∀ sg ∈ sigs, sg.dleq = none) → NoDLEQs ps
  | [], [], ps, h, _ => by simp [constructProofs] at h; subst h; intro p hp; cases hp
  | [], _ :: _, ps, h, _ => by simp [constructProofs] at h
  | _ :: _, [], ps, h, _ => by simp [constructProofs] at h
  | sg :: sigs, o :: outs, ps, h, hs => by
    simp only [constructProofs] at h
    split at h
    · split at h
      · rename_i rest hrest
        cases h
        intro p hp
        rcases List.mem_cons.1 hp with rfl | hp
        · simp [hs sg List.mem_cons_self]
        · exact constructProofs_noDLEQ sigs outs rest hrest (fun s hs' => hs s (List.mem_cons_of_mem _ hs')) p hp
      · cases h
    · cases h

theorem takeByAmount_mem : ∀ (as : List Nat) (ps : List WProof) (p : WProof),
    p ∈ (takeByAmount as ps).1 → p ∈ ps ∨ p = { amount := 0, id := "", secret := 0 }
  | [], ps, p, h => by simp [takeByAmount] at h
  | a :: as, ps, p, h => by
    simp only [takeByAmount] at h
    split at h
    · rename_i q hq
      rcases List.mem_cons.1 h with rfl | h
      · exact Or.inl (List.mem_of_find?_eq_some hq)
      · rcases takeByAmount_mem as _ p h with h | h
        · exact Or.inl (List.mem_of_mem_erase h)
        · exact Or.inr h
    · rcases List.mem_cons.1 h with rfl | h
      · exact Or.inr rfl
      · exact takeByAmount_mem as ps p h

/-! ## operation paths (code as it is: inputs are sent as they are) -/

theorem swap_reqs (st : WState) (ins : List WProof) (outs : List Output) (ans : Option (List Sig)) :
    (swap st ins outs ans).reqs = [postSwapReq ins outs] := by
  unfold swap; split <;> rfl

theorem swapToSend_reqs (st : WState) (pts : List WProof) (send change : List Output) (ans : Option (List Sig)) :
    (swapToSend st pts send change ans).reqs = [postSwapReq pts (sortOutputs (send ++ change))] := by
  cases ans with
  | none => rfl
  | some sigs => simp only [swapToSend]; split <;> rfl

/-- proofs handed out by swapToSend come from constructProofs (or are zero values) -/
theorem swapToSend_ret_noDLEQ (st : WState) (pts : List WProof) (send change : List Output) (sigs : List Sig)
    (hs : ∀ sg ∈ sigs, sg.dleq = none) (ps : List WProof)
    (h : (swapToSend st pts send change (some sigs)).ret = some ps) : NoDLEQs ps := by
  unfold swapToSend at h
  simp only at h
  split at h
  · cases h
  · rename_i pfs hpfs
    simp only [Option.some.injEq] at h
    subst h
    intro p hp
    rcases takeByAmount_mem _ _ p hp with h1 | rfl
    · exact constructProofs_noDLEQ _ _ _ hpfs hs p h1
    · rfl

/-- the inputs of the selection carry no blinding factor -/
def Sel.InputsClean : Sel → Prop
  | .fail => True
  | .exact _ => True
  | .viaSwap pts _ _ _ => NoRs pts

/-- ... and neither do the proofs it hands on to the next request of the same operation -/
def Sel.Clean : Sel → Prop
  | .fail => True
  | .exact sel => NoRs sel
  | .viaSwap pts _ _ ans => NoRs pts ∧ ∀ sigs, ans = some sigs → ∀ sg ∈ sigs, sg.dleq = none

theorem Sel.Clean.inputs {sel : Sel} (h : sel.Clean) : sel.InputsClean := by
  cases sel <;> simp_all [Sel.Clean, Sel.InputsClean]

theorem getProofsForAmount_secure (st : WState) (sel : Sel) :
    AllSecure (getProofsForAmount st sel).reqs ↔ sel.InputsClean := by
  cases sel <;> simp [getProofsForAmount, Sel.InputsClean, swapToSend_reqs, secure_postSwapReq_iff]

theorem getProofsForAmount_ret (st : WState) (sel : Sel) (h : sel.Clean) (ps : List WProof)
    (hr : (getProofsForAmount st sel).ret = some ps) : NoRs ps := by
  cases sel with
  | fail => simp [getProofsForAmount] at hr
  | exact sel => simp [getProofsForAmount] at hr; subst hr; exact h
  | viaSwap pts send change ans =>
    simp only [getProofsForAmount] at hr
    cases ans with
    | none => simp [swapToSend] at hr
    | some sigs => exact (swapToSend_ret_noDLEQ st pts send change sigs (h.2 sigs rfl) ps hr).noRs

theorem send_reqs (st : WState) (sel : Sel) : (send st sel).reqs = (getProofsForAmount st sel).reqs := by
  unfold send; simp only; split <;> rfl

theorem sendLocked_secure (st : WState) (ok : Bool) (pts : List WProof) (s c : List Output) (ans : Option (List Sig))
    (h : NoRs pts) : AllSecure (sendLocked st ok pts s c ans).reqs := by
  cases ok <;> simp [sendLocked, secure_getReq, swapToSend_reqs, secure_postSwapReq_iff, h]

/-- MintTokens never sends anything but the quote id, blinded messages and the NUT-20 signature -/
theorem mintTokens_secure (st : WState) (q : String) (qs : Option (Option Bool)) (sg : Bool) (outs : List Output)
    (ans : Option (List Sig)) : AllSecure (mintTokens st q qs sg outs ans).reqs := by
  unfold mintTokens
  repeat' split
  all_goals simp [secure_getReq, secure_postMintReq]

theorem swapProofs_secure (st : WState) (proofs : List WProof) (o : SwapProofsOracle) (h : NoRs proofs) :
    AllSecure (swapProofs st proofs o).reqs := by
  have hround : AllSecure [postMintQuoteReq 0, postMeltQuoteReq] := by
    simp [secure_postMintQuoteReq, secure_postMeltQuoteReq]
  have hrep := AllSecure_flatten_replicate o.retries _ hround
  unfold swapProofs
  split
  · simp [hrep, secure_postMintQuoteReq]
  · simp [hrep, secure_postMintQuoteReq, secure_postMeltQuoteReq]
  · split
    · simp [hrep, secure_postMintQuoteReq, secure_postMeltQuoteReq, secure_postMeltReq_iff, h, mintTokens_secure]
    · simp [hrep, secure_postMintQuoteReq, secure_postMeltQuoteReq, secure_postMeltReq_iff, h]

/-- the melt request of swapProofs leaks exactly when a proof handed to it carries r -/
theorem swapProofs_leaks (st : WState) (proofs : List WProof) (o : SwapProofsOracle) (hl : o.loopEnd = .ok)
    (h : AllSecure (swapProofs st proofs o).reqs) : NoRs proofs := by
  unfold swapProofs at h
  simp only [hl] at h
  split at h
  · simp only [AllSecure_append, AllSecure_cons, secure_postMeltReq_iff] at h; exact h.1.2.1
  · simp only [AllSecure_append, AllSecure_cons, secure_postMeltReq_iff] at h; exact h.2.1

theorem swapAndSave_secure (st : WState) (ins : List WProof) (outs : List Output) (sa : Bool) (ans : Option (List Sig))
    (h : NoRs ins) : AllSecure (swapAndSave st ins outs sa ans).reqs := by
  unfold swapAndSave
  simp only
  split <;> simp [swap_reqs, secure_postSwapReq_iff, h]

/-- `Receive`: the token's proofs carry no r; on the SIG_ALL swap-to-trusted path the proofs the intermediate swap
    returns are melted next, so that answer must carry no DLEQ either -/
def ReceiveOracle.Clean (o : ReceiveOracle) : Prop :=
  o.swapToTrusted = true → o.p2pk = true → o.sigAll = true → ∀ sigs, o.ans = some sigs → ∀ sg ∈ sigs, sg.dleq = none

theorem receive_secure (st : WState) (token : List WProof) (o : ReceiveOracle) (ht : NoRs token) (ho : o.Clean) :
    AllSecure (receive st token o).reqs := by
  have hw : NoRs (if o.p2pk then addWitnessToInputs token else token) := by
    split
    · exact NoRs_addWitnessToInputs ht
    · exact ht
  unfold receive
  split
  · simp
  · simp only
    split
    · rename_i htr
      split
      · rename_i hsa
        simp only [Bool.and_eq_true] at hsa
        cases hans : o.ans with
        | none => simp [swap, secure_getReq, secure_postSwapReq_iff, hw]
        | some sigs =>
          simp only [swap]
          cases hc : constructProofs sigs (addWitnessToOutputs o.outs) with
          | none => simp [secure_getReq, secure_postSwapReq_iff, hw]
          | some newProofs =>
            have hn : NoRs newProofs :=
              (constructProofs_noDLEQ _ _ _ hc (ho htr hsa.1 hsa.2 sigs hans)).noRs
            simp [secure_getReq, secure_postSwapReq_iff, hw, swapProofs_secure _ _ _ hn]
      · simp [secure_getReq, swapProofs_secure _ _ _ hw]
    · exact swapAndSave_secure _ _ _ _ _ hw

theorem receiveHTLC_secure (st : WState) (token : List WProof) (d h sa : Bool) (outs : List Output)
    (ans : Option (List Sig)) (ht : NoRs token) : AllSecure (receiveHTLC st token d h sa outs ans).reqs := by
  unfold receiveHTLC
  split
  · simp
  · exact swapAndSave_secure _ _ _ _ _ (NoRs_addWitnessToInputs ht)

theorem melt_secure (st : WState) (q : String) (pc : Option Bool) (sel : Sel) (blanks : List Output) (ans : MeltAns)
    (h : sel.Clean) : AllSecure (melt st q pc sel blanks ans).reqs := by
  have hpre : AllSecure (meltPre pc) := by
    cases pc <;> simp [meltPre, secure_getReq]
  have hg := (getProofsForAmount_secure st sel).2 h.inputs
  unfold melt
  simp only
  split
  · exact hpre
  · split
    · simp [hpre, hg]
    · rename_i proofs hp
      have hn := getProofsForAmount_ret st sel h proofs hp
      cases ans with
      | err b => cases b <;> simp [hpre, hg, secure_postMeltReq_iff, hn]
      | unpaid => simp [hpre, hg, secure_postMeltReq_iff, hn]
      | pending => simp [hpre, hg, secure_postMeltReq_iff, hn]
      | paid change => simp only; split <;> simp [hpre, hg, secure_postMeltReq_iff, hn]

theorem mintSwap_secure (st : WState) (sel : Sel) (o : SwapProofsOracle) (h : sel.Clean) :
    AllSecure (mintSwap st sel o).reqs := by
  have hg := (getProofsForAmount_secure st sel).2 h.inputs
  unfold mintSwap
  simp only
  split
  · exact hg
  · rename_i proofs hp
    simp [hg, swapProofs_secure _ _ _ (getProofsForAmount_ret st sel h proofs hp)]

theorem removeSpentProofs_secure (st : WState) (ms : List PendingMint) : AllSecure (removeSpentProofs st ms).reqs := by
  induction ms with
  | nil => simp [removeSpentProofs]
  | cons m rest ih =>
    unfold removeSpentProofs
    simp only
    split <;> simp [secure_postCheckStateReq, ih]

/-- ReclaimUnspentProofs rebuilds its inputs field by field WITHOUT the DLEQ: secure for every pending list -/
theorem reclaimUnspentProofs_secure (st : WState) (ms : List PendingMint) :
    AllSecure (reclaimUnspentProofs st ms).reqs := by
  induction ms generalizing st with
  | nil => simp [reclaimUnspentProofs]
  | cons m rest ih =>
    have hc : NoRs (m.unspent.map reclaimCopy) := (NoDLEQs_map_reclaimCopy _).noRs
    unfold reclaimUnspentProofs
    simp only
    split
    · simp [secure_postCheckStateReq]
    · split
      · simp [secure_postCheckStateReq, ih]
      · split
        · simp [secure_postCheckStateReq, swap_reqs, secure_postSwapReq_iff, hc]
        · simp [secure_postCheckStateReq, swap_reqs, secure_postSwapReq_iff, hc, ih]

theorem restoreBatches_secure (bs : List RestoreBatch) : AllSecure (restoreBatches bs) := by
  induction bs with
  | nil => simp [restoreBatches]
  | cons b rest ih =>
    unfold restoreBatches
    simp only
    split <;> simp [secure_postRestoreReq, secure_postCheckStateReq, ih]

/-! ## tokens (values for the caller) -/

theorem renderProof_noDLEQ_noBlinding (role : Role) (p : WProof) (h : p.dleq = none) :
    ∀ q ∈ (renderProof role p).leaves, q.2.isBlinding = false := by
  intro q hq
  rcases renderProof_leaves role p q hq with h1 | rfl | ⟨d, hd, _⟩
  · exact Leaf.harmless_not_blinding h1
  · cases role <;> rfl
  · rw [h] at hd; cases hd

theorem all_leaves_node {P : Leaf → Prop} {fs : List (String × Tree)}
    (h : ∀ kt ∈ fs, ∀ q ∈ kt.2.leaves, P q.2) : ∀ pl ∈ (Tree.node fs).leaves, P pl.2 := by
  intro pl hpl
  simp only [leaves_node, mem_leavesFields] at hpl
  obtain ⟨kt, hkt, q, hq, rfl⟩ := hpl
  exact h kt hkt q hq

theorem all_leaves_arr {P : Leaf → Prop} {xs : List Tree}
    (h : ∀ t ∈ xs, ∀ q ∈ t.leaves, P q.2) : ∀ pl ∈ (Tree.arr xs).leaves, P pl.2 := by
  intro pl hpl
  simp only [leaves_arr, mem_leavesItems] at hpl
  obtain ⟨t, ht, q, hq, rfl⟩ := hpl
  exact h t ht q hq

/-- a V3 token built with includeDLEQ = false carries no blinding factor -/
theorem newTokenV3_strip (ps : List WProof) : ∀ pl ∈ (newTokenV3 ps false).leaves, pl.2.isBlinding = false := by
  simp only [newTokenV3, Bool.false_eq_true, if_false]
  refine all_leaves_node (P := fun l => l.isBlinding = false) ?_
  intro kt hkt
  simp only [List.mem_cons, List.not_mem_nil, or_false] at hkt
  rcases hkt with rfl | rfl
  · refine all_leaves_arr (P := fun l => l.isBlinding = false) ?_
    intro t ht
    simp only [List.mem_singleton] at ht
    subst ht
    refine all_leaves_node (P := fun l => l.isBlinding = false) ?_
    intro kt hkt
    simp only [List.mem_cons, List.not_mem_nil, or_false] at hkt
    rcases hkt with rfl | rfl
    · intro q hq; simp at hq; subst hq; rfl
    · refine all_leaves_arr (P := fun l => l.isBlinding = false) ?_
      intro t ht
      simp only [List.mem_map] at ht
      obtain ⟨p, ⟨p0, _, rfl⟩, rfl⟩ := ht
      exact renderProof_noDLEQ_noBlinding .caller (stripDLEQ p0) rfl
  · intro q hq; simp at hq; subst hq; rfl

/-- a V3 token built with includeDLEQ = true shows the blinding factor of every proof that has one: to the caller -/
theorem newTokenV3_includes (ps : List WProof) (p : WProof) (hp : p ∈ ps) (d : DLEQ) (r : Nat) (hd : p.dleq = some d)
    (hr : d.r = some r) :
    (["token", "[]", "proofs", "[]", "dleq", "r"], Leaf.blindingFactor r) ∈ (newTokenV3 ps true).leaves := by
  simp only [newTokenV3, if_true, leaves_node]
  refine mem_leavesFields.2 ⟨("token", _), List.mem_cons_self, (["[]", "proofs", "[]", "dleq", "r"], _), ?_, rfl⟩
  simp only [leaves_arr]
  refine mem_leavesItems.2 ⟨_, List.mem_singleton.2 rfl, (["proofs", "[]", "dleq", "r"], _), ?_, rfl⟩
  simp only [leaves_node]
  refine mem_leavesFields.2 ⟨("proofs", Tree.arr (ps.map (renderProof .caller))), by simp,
    (["[]", "dleq", "r"], _), ?_, rfl⟩
  simp only [leaves_arr]
  exact mem_leavesItems.2 ⟨_, List.mem_map.2 ⟨p, hp, rfl⟩, _, renderProof_has_r .caller p d r hd hr, rfl⟩

/-! ## what the partial theorem speaks about -/

/-- the stored proofs an operation's selection takes -/
def Sel.inputs : Sel → List WProof
  | .fail => []
  | .exact sel => sel
  | .viaSwap pts _ _ _ => pts

def Op.walletInputs : Op → List WProof
  | .send sel => sel.inputs
  | .sendLocked _ pts _ _ _ => pts
  | .melt _ _ sel _ _ => sel.inputs
  | .mintSwap sel _ => sel.inputs
  | _ => []

/-- the proofs of the token an operation redeems -/
def Op.token : Op → List WProof
  | .receive tok _ => tok
  | .receiveHTLC tok _ _ _ _ _ => tok
  | _ => []

/-- answers of the mint INSIDE an operation whose proofs are spent by a later request of the same operation:
    the swap of a non-exact selection before a melt, and the first swap of a SIG_ALL swap-to-trusted -/
def Op.midSigs : Op → List Sig
  | .melt _ _ (.viaSwap _ _ _ (some sigs)) _ _ => sigs
  | .mintSwap (.viaSwap _ _ _ (some sigs)) _ => sigs
  | .receive _ o => if o.swapToTrusted && o.p2pk && o.sigAll then o.ans.getD [] else []
  | _ => []

/-- operation paths that never put a wallet proof into a request as it is -/
def Op.safePath : Op → Bool
  | .requestMint _ | .requestMeltQuote | .checkMeltQuoteState | .mintTokens .. | .reclaim _ | .removeSpent _
  | .restore _ => true
  | _ => false

theorem sel_clean (sel : Sel) (h1 : NoRs sel.inputs)
    (h2 : ∀ pts s c sigs, sel = .viaSwap pts s c (some sigs) → ∀ sg ∈ sigs, sg.dleq = none) : sel.Clean := by
  cases sel with
  | fail => trivial
  | exact sel => exact h1
  | viaSwap pts s c ans => exact ⟨h1, fun sigs hs => h2 pts s c sigs (by rw [hs])⟩

end Gonuts.Model.WalletWire
