import Gonuts.Model.WalletWire
/-!
  Lemmas about `Model.WalletWire` (C08): leaves of the rendered values, security of each request builder
  (with the exact condition on the inputs), and of each operation path.
-/
namespace Gonuts.Model.WalletWire

/-! ## leaves of composite trees -/

theorem mem_leavesItems {ts : List Tree} {pl : Path × Leaf} :
    pl ∈ leavesItems ts ↔ ∃ t ∈ ts, ∃ q ∈ t.leaves, pl = ("[]" :: q.1, q.2) := by
  induction ts with
  | nil => simp [leavesItems]
  | cons t rest ih =>
    simp only [leavesItems, List.mem_append, List.mem_map, ih, List.mem_cons, exists_eq_or_imp]
    constructor
    · rintro (⟨q, hq, rfl⟩ | h)
      · exact Or.inl ⟨q, hq, rfl⟩
      · exact Or.inr h
    · rintro (⟨q, hq, rfl⟩ | h)
      · exact Or.inl ⟨q, hq, rfl⟩
      · exact Or.inr h

theorem mem_leavesFields {fs : List (String × Tree)} {pl : Path × Leaf} :
    pl ∈ leavesFields fs ↔ ∃ kt ∈ fs, ∃ q ∈ kt.2.leaves, pl = (kt.1 :: q.1, q.2) := by
  induction fs with
  | nil => simp [leavesFields]
  | cons kt rest ih =>
    obtain ⟨k, t⟩ := kt
    simp only [leavesFields, List.mem_append, List.mem_map, ih, List.mem_cons, exists_eq_or_imp]
    constructor
    · rintro (⟨q, hq, rfl⟩ | h)
      · exact Or.inl ⟨q, hq, rfl⟩
      · exact Or.inr h
    · rintro (⟨q, hq, rfl⟩ | h)
      · exact Or.inl ⟨q, hq, rfl⟩
      · exact Or.inr h

theorem leavesFields_append (a b : List (String × Tree)) : leavesFields (a ++ b) = leavesFields a ++ leavesFields b := by
  induction a with
  | nil => simp [leavesFields]
  | cons kt rest ih => obtain ⟨k, t⟩ := kt; simp [leavesFields, ih]

@[simp] theorem leaves_leaf (l : Leaf) : (Tree.leaf l).leaves = [([], l)] := by simp [Tree.leaves]
@[simp] theorem leaves_node (fs : List (String × Tree)) : (Tree.node fs).leaves = leavesFields fs := by simp [Tree.leaves]
@[simp] theorem leaves_arr (xs : List Tree) : (Tree.arr xs).leaves = leavesItems xs := by simp [Tree.leaves]

/-! ## harmless leaves -/

/-- public text, numbers and curve points -/
def Leaf.harmless : Leaf → Bool
  | .pub _ => true
  | .num _ => true
  | .point _ _ => true
  | _ => false

theorem Leaf.harmless_not_blinding {l : Leaf} (h : l.harmless = true) : l.isBlinding = false := by
  cases l <;> simp_all [Leaf.harmless, Leaf.isBlinding]
theorem Leaf.harmless_no_secret {l : Leaf} (h : l.harmless = true) : l.clearSecret = none := by
  cases l <;> simp_all [Leaf.harmless, Leaf.clearSecret]
theorem Leaf.harmless_not_transcript {l : Leaf} (h : l.harmless = true) : l.isTranscript = false := by
  cases l <;> simp_all [Leaf.harmless, Leaf.isTranscript]

/-- an output renders to amount, B_, id (and a public witness): nothing else -/
theorem renderOutput_leaves (o : Output) : ∀ q ∈ (renderOutput o).leaves, q.2.harmless = true := by
  intro q hq
  cases hw : o.witness <;> simp [renderOutput, hw, leavesFields] at hq <;>
    (rcases hq with rfl | rfl | rfl | rfl) <;> simp [Leaf.harmless]

/-! ## what a proof renders to -/

/-- the proof carries no blinding factor: no DLEQ, or a DLEQ whose `r` is empty -/
def WProof.NoR (p : WProof) : Prop := ∀ d, p.dleq = some d → d.r = none

instance (p : WProof) : Decidable p.NoR := by
  unfold WProof.NoR
  cases h : p.dleq with
  | none => exact isTrue (by simp)
  | some d =>
    cases hr : d.r with
    | none => exact isTrue (by intro d' hd; cases hd; exact hr)
    | some r => exact isFalse (by intro hh; have := hh d rfl; simp [hr] at this)

/-- every leaf of a rendered proof: harmless, its secret at `secret`, or under `dleq` (e, s, and r iff the proof has it) -/
theorem renderProof_leaves (role : Role) (p : WProof) :
    ∀ q ∈ (renderProof role p).leaves,
      q.2.harmless = true ∨ q = (["secret"], role.secretLeaf p.secret) ∨
      ∃ d, p.dleq = some d ∧ (q = (["dleq", "e"], .dleqE d.e) ∨ q = (["dleq", "s"], .dleqS d.s) ∨
        ∃ r, d.r = some r ∧ q = (["dleq", "r"], .blindingFactor r)) := by
  intro q hq
  cases hw : p.witness <;> cases hd : p.dleq with
  | none =>
    simp [renderProof, hw, hd, leavesFields] at hq
    repeat' (rcases hq with rfl | hq)
    all_goals (try subst hq)
    all_goals simp [Leaf.harmless]
  | some d =>
    cases hr : d.r with
    | none =>
      simp [renderProof, renderDLEQ, hw, hd, hr, leavesFields] at hq
      repeat' (rcases hq with rfl | hq)
      all_goals (try subst hq)
      all_goals simp [Leaf.harmless]
    | some r =>
      simp [renderProof, renderDLEQ, hw, hd, hr, leavesFields] at hq
      repeat' (rcases hq with rfl | hq)
      all_goals (try subst hq)
      all_goals simp [Leaf.harmless, hr]

/-- a proof WITH a blinding factor renders it at `dleq.r` -/
theorem renderProof_has_r (role : Role) (p : WProof) (d : DLEQ) (r : Nat) (hd : p.dleq = some d) (hr : d.r = some r) :
    (["dleq", "r"], Leaf.blindingFactor r) ∈ (renderProof role p).leaves := by
  cases hw : p.witness <;> simp [renderProof, renderDLEQ, hw, hd, hr, leavesFields]

/-- a proof with a DLEQ renders the mint's transcript -/
theorem renderProof_has_e (role : Role) (p : WProof) (d : DLEQ) (hd : p.dleq = some d) :
    (["dleq", "e"], Leaf.dleqE d.e) ∈ (renderProof role p).leaves := by
  cases hw : p.witness <;> cases hr : d.r <;> simp [renderProof, renderDLEQ, hw, hd, hr, leavesFields]

/-! ## the property on one request -/

/-- a leaf of a request body is fine w.r.t. the request's inputs: not a blinding factor, and a secret in clear only
    at `inputs[].secret` and only the secret of one of the inputs -/
def LeafOk (inputs : List WProof) (pl : Path × Leaf) : Prop :=
  (∀ x, pl.2 ≠ .blindingFactor x) ∧
  (∀ s, pl.2.clearSecret = some s → pl.1 = ["inputs", "[]", "secret"] ∧ ∃ p ∈ inputs, p.secret = s)

/-- C08 for one request -/
def Req.Secure (r : Req) : Prop := ∀ pl ∈ r.body.leaves, LeafOk r.inputs pl

/-- no leaf of the body belongs to the mint's DLEQ transcript -/
def Req.NoTranscript (r : Req) : Prop := ∀ pl ∈ r.body.leaves, pl.2.isTranscript = false

instance (r : Req) : Decidable r.NoTranscript := by unfold Req.NoTranscript; infer_instance

theorem LeafOk_of_harmless (inputs : List WProof) (path : Path) {l : Leaf} (h : l.harmless = true) : LeafOk inputs (path, l) := by
  refine ⟨?_, ?_⟩
  · intro x hx; cases hx; simp [Leaf.harmless] at h
  · intro s hs; simp [Leaf.harmless_no_secret h] at hs

theorem secureB_iff (r : Req) : r.secureB = true ↔ r.Secure := by
  simp only [Req.secureB, Tree.noBlindingB, secretsOnlyInputsB, Bool.and_eq_true, List.all_eq_true, Req.Secure, LeafOk]
  constructor
  · rintro ⟨h1, h2⟩ pl hpl
    refine ⟨?_, ?_⟩
    · intro x hx; have := h1 pl hpl; simp [hx, Leaf.isBlinding] at this
    · intro s hs
      have := h2 pl hpl
      simp only [hs, Bool.and_eq_true, beq_iff_eq, List.any_eq_true] at this
      obtain ⟨hp, p, hp1, hp2⟩ := this
      exact ⟨hp, p, hp1, by simpa using hp2⟩
  · intro h
    refine ⟨?_, ?_⟩
    · intro pl hpl
      have := (h pl hpl).1
      cases hl : pl.2 <;> simp [Leaf.isBlinding]
      exact this _ hl
    · intro pl hpl
      have := (h pl hpl).2
      cases hc : pl.2.clearSecret with
      | none => simp
      | some s =>
        obtain ⟨hp, p, hp1, hp2⟩ := this s hc
        simp only [Bool.and_eq_true, beq_iff_eq, List.any_eq_true]
        exact ⟨hp, p, hp1, by simpa using hp2⟩

instance (r : Req) : Decidable r.Secure := decidable_of_iff _ (secureB_iff r)

/-- list of proofs none of which carries a blinding factor -/
def NoRs (ps : List WProof) : Prop := ∀ p ∈ ps, p.NoR

/-- list of proofs none of which carries a DLEQ -/
def NoDLEQs (ps : List WProof) : Prop := ∀ p ∈ ps, p.dleq = none

instance (ps : List WProof) : Decidable (NoRs ps) := by unfold NoRs; infer_instance

theorem NoDLEQs.noRs {ps : List WProof} (h : NoDLEQs ps) : NoRs ps := by
  intro p hp d hd; rw [h p hp] at hd; cases hd

/-- leaves of `inputs: [...]` -/
theorem inputs_leaf_ok {ins : List WProof} {p : WProof} (hp : p ∈ ins) (hr : p.NoR)
    {q : Path × Leaf} (hq : q ∈ (renderProof .input p).leaves) : LeafOk ins ("inputs" :: "[]" :: q.1, q.2) := by
  rcases renderProof_leaves .input p q hq with h | rfl | ⟨d, hd, h⟩
  · exact LeafOk_of_harmless _ _ h
  · refine ⟨fun x hx => ?_, fun s hs => ?_⟩
    · simp [Role.secretLeaf] at hx
    · simp only [Role.secretLeaf, Leaf.clearSecret, Option.some.injEq] at hs
      exact ⟨rfl, p, hp, hs⟩
  · rcases h with rfl | rfl | ⟨r, hr', _⟩
    · exact ⟨fun x hx => by simp at hx, fun s hs => by simp [Leaf.clearSecret] at hs⟩
    · exact ⟨fun x hx => by simp at hx, fun s hs => by simp [Leaf.clearSecret] at hs⟩
    · rw [hr d hd] at hr'; cases hr'

/-! ## the request builders -/

theorem secure_getReq (w : String) : (getReq w).Secure := by
  intro pl hpl; simp [getReq, leavesFields] at hpl

theorem secure_postMintQuoteReq (a : Nat) : (postMintQuoteReq a).Secure := by
  intro pl hpl
  simp [postMintQuoteReq, leavesFields] at hpl
  rcases hpl with rfl | rfl | rfl <;> exact LeafOk_of_harmless _ _ (by simp [Leaf.harmless])

theorem secure_postMeltQuoteReq : postMeltQuoteReq.Secure := by
  intro pl hpl
  simp [postMeltQuoteReq, leavesFields] at hpl
  rcases hpl with rfl | rfl <;> exact LeafOk_of_harmless _ _ (by simp [Leaf.harmless])

theorem outputs_leaf_ok (inputs : List WProof) (k : String) (outs : List Output) {pl : Path × Leaf}
    (h : pl ∈ leavesFields [(k, Tree.arr (outs.map renderOutput))]) : LeafOk inputs pl := by
  simp only [mem_leavesFields, List.mem_singleton, exists_eq_left, leaves_arr, mem_leavesItems, List.mem_map] at h
  obtain ⟨q, ⟨t, ⟨o, _, rfl⟩, q', hq', rfl⟩, rfl⟩ := h
  exact LeafOk_of_harmless _ _ (renderOutput_leaves o q' hq')

/-- the mint request carries the quote id, the blinded messages and a signature: never a secret or r -/
theorem secure_postMintReq (q : String) (outs : List Output) (sg : Bool) : (postMintReq q outs sg).Secure := by
  intro pl hpl
  simp only [postMintReq, leaves_node] at hpl
  rw [show ([("quote", Tree.leaf (Leaf.pub q)), ("outputs", Tree.arr (outs.map renderOutput))] : List (String × Tree)) =
    [("quote", Tree.leaf (Leaf.pub q))] ++ [("outputs", Tree.arr (outs.map renderOutput))] from rfl] at hpl
  simp only [leavesFields_append, List.mem_append] at hpl
  rcases hpl with (h | h) | h
  · simp [leavesFields] at h; subst h; exact LeafOk_of_harmless _ _ (by simp [Leaf.harmless])
  · exact outputs_leaf_ok _ _ _ h
  · cases sg <;> simp [leavesFields] at h
    subst h; exact LeafOk_of_harmless _ _ (by simp [Leaf.harmless])

theorem secure_postCheckStateReq (ss : List Nat) : (postCheckStateReq ss).Secure := by
  intro pl hpl
  simp only [postCheckStateReq, leaves_node, mem_leavesFields, List.mem_singleton, exists_eq_left, leaves_arr,
    mem_leavesItems, List.mem_map] at hpl
  obtain ⟨q, ⟨t, ⟨s, _, rfl⟩, q', hq', rfl⟩, rfl⟩ := hpl
  simp at hq'; subst hq'
  exact LeafOk_of_harmless _ _ (by simp [Leaf.harmless])

theorem secure_postRestoreReq (outs : List Output) : (postRestoreReq outs).Secure := by
  intro pl hpl
  simp only [postRestoreReq, leaves_node, mem_leavesFields, List.mem_singleton, exists_eq_left, leaves_arr,
    mem_leavesItems, List.mem_map] at hpl
  obtain ⟨q, ⟨t, ⟨o, _, rfl⟩, q', hq', rfl⟩, rfl⟩ := hpl
  exact LeafOk_of_harmless _ _ (renderOutput_leaves _ q' hq')

theorem inputs_field_ok {ins : List WProof} (h : NoRs ins) {pl : Path × Leaf}
    (hpl : pl ∈ leavesFields [("inputs", Tree.arr (ins.map (renderProof .input)))]) : LeafOk ins pl := by
  simp only [mem_leavesFields, List.mem_singleton, exists_eq_left, leaves_arr, mem_leavesItems, List.mem_map] at hpl
  obtain ⟨q, ⟨t, ⟨p, hp, rfl⟩, q', hq', rfl⟩, rfl⟩ := hpl
  exact inputs_leaf_ok hp (h p hp) hq'

/-- EXACT condition: a swap request is secure iff none of the proofs passed as `Inputs:` carries a blinding factor -/
theorem secure_postSwapReq_iff (ins : List WProof) (outs : List Output) : (postSwapReq ins outs).Secure ↔ NoRs ins := by
  constructor
  · intro h p hp d hd
    cases hr : d.r with
    | none => rfl
    | some r =>
      exfalso
      have hm := renderProof_has_r .input p d r hd hr
      have : (["inputs", "[]", "dleq", "r"], Leaf.blindingFactor r) ∈ (postSwapReq ins outs).body.leaves := by
        simp only [postSwapReq, leaves_node]
        refine mem_leavesFields.2 ⟨("inputs", _), List.mem_cons_self, (["[]", "dleq", "r"], _), ?_, rfl⟩
        simp only [leaves_arr]
        exact mem_leavesItems.2 ⟨_, List.mem_map.2 ⟨p, hp, rfl⟩, _, hm, rfl⟩
      exact (h _ this).1 r rfl
  · intro h pl hpl
    simp only [postSwapReq, leaves_node] at hpl
    rw [show ([("inputs", Tree.arr (ins.map (renderProof .input))), ("outputs", Tree.arr (outs.map renderOutput))] :
        List (String × Tree)) = [("inputs", Tree.arr (ins.map (renderProof .input)))] ++
        [("outputs", Tree.arr (outs.map renderOutput))] from rfl] at hpl
    simp only [leavesFields_append, List.mem_append] at hpl
    rcases hpl with h1 | h1
    · exact inputs_field_ok h h1
    · exact outputs_leaf_ok _ _ _ h1

/-- EXACT condition for a melt request -/
theorem secure_postMeltReq_iff (q : String) (ins : List WProof) (outs : List Output) :
    (postMeltReq q ins outs).Secure ↔ NoRs ins := by
  constructor
  · intro h p hp d hd
    cases hr : d.r with
    | none => rfl
    | some r =>
      exfalso
      have hm := renderProof_has_r .input p d r hd hr
      have : (["inputs", "[]", "dleq", "r"], Leaf.blindingFactor r) ∈ (postMeltReq q ins outs).body.leaves := by
        simp only [postMeltReq, leaves_node, leavesFields_append, List.mem_append]
        refine Or.inl (mem_leavesFields.2 ⟨("inputs", Tree.arr (ins.map (renderProof .input))), by simp,
          (["[]", "dleq", "r"], _), ?_, rfl⟩)
        simp only [leaves_arr]
        exact mem_leavesItems.2 ⟨_, List.mem_map.2 ⟨p, hp, rfl⟩, _, hm, rfl⟩
      exact (h _ this).1 r rfl
  · intro h pl hpl
    simp only [postMeltReq, leaves_node] at hpl
    rw [show ([("quote", Tree.leaf (Leaf.pub q)), ("inputs", Tree.arr (ins.map (renderProof .input)))] :
        List (String × Tree)) = [("quote", Tree.leaf (Leaf.pub q))] ++
        [("inputs", Tree.arr (ins.map (renderProof .input)))] from rfl] at hpl
    simp only [leavesFields_append, List.mem_append] at hpl
    rcases hpl with (h1 | h1) | h1
    · simp [leavesFields] at h1; subst h1; exact LeafOk_of_harmless _ _ (by simp [Leaf.harmless])
    · exact inputs_field_ok h h1
    · cases he : outs.isEmpty <;> simp only [he] at h1
      · exact outputs_leaf_ok _ _ _ h1
      · simp [leavesFields] at h1

/-! ## lists of requests -/

def AllSecure (rs : List Req) : Prop := ∀ r ∈ rs, r.Secure

@[simp] theorem AllSecure_nil : AllSecure [] := by intro r hr; cases hr
@[simp] theorem AllSecure_cons (r : Req) (rs : List Req) : AllSecure (r :: rs) ↔ r.Secure ∧ AllSecure rs := by
  simp [AllSecure]
@[simp] theorem AllSecure_append (a b : List Req) : AllSecure (a ++ b) ↔ AllSecure a ∧ AllSecure b := by
  simp only [AllSecure, List.mem_append]
  exact ⟨fun h => ⟨fun r hr => h r (Or.inl hr), fun r hr => h r (Or.inr hr)⟩,
         fun h r hr => hr.elim (h.1 r) (h.2 r)⟩

theorem AllSecure_flatten_replicate (n : Nat) (round : List Req) (h : AllSecure round) :
    AllSecure (List.replicate n round).flatten := by
  induction n with
  | zero => simp
  | succ n ih => simp [List.replicate_succ, h, ih]

/-! ## helpers preserve "no blinding factor" -/

theorem NoRs_addWitnessToInputs {ps : List WProof} (h : NoRs ps) : NoRs (addWitnessToInputs ps) := by
  intro p hp
  simp only [addWitnessToInputs, List.mem_map] at hp
  obtain ⟨q, hq, rfl⟩ := hp
  exact h q hq

theorem NoDLEQs_map_reclaimCopy (ps : List WProof) : NoDLEQs (ps.map reclaimCopy) := by
  intro p hp
  simp only [List.mem_map] at hp
  obtain ⟨q, _, rfl⟩ := hp
  rfl

/-- signatures without DLEQ give proofs without DLEQ -/
theorem constructProofs_noDLEQ : ∀ (sigs : List Sig) (outs : List Output) (ps : List WProof),
    constructProofs sigs outs = some ps → (∀ sg ∈ sigs, sg.dleq = none) → NoDLEQs ps
  | [], [], ps, h, _ => by simp [constructProofs] at h; subst h; intro p hp; cases hp
  | [], _ :: _, ps, h, _ => by simp [constructProofs] at h
  | _ :: _, [], ps, h, _ => by simp [constructProofs] at h
  | sg :: sigs, o :: outs, ps, h, hs => by
    simp only [constructProofs] at h
    split at h
    · split at h
      · rename_i rest hrest
        cases h
        intro p hp
        rcases List.mem_cons.1 hp with rfl | hp
        · simp [hs sg List.mem_cons_self]
        · exact constructProofs_noDLEQ sigs outs rest hrest (fun s hs' => hs s (List.mem_cons_of_mem _ hs')) p hp
      · cases h
    · cases h

theorem takeByAmount_mem : ∀ (as : List Nat) (ps : List WProof) (p : WProof),
    p ∈ (takeByAmount as ps).1 → p ∈ ps ∨ p = { amount := 0, id := "", secret := 0 }
  | [], ps, p, h => by simp [takeByAmount] at h
  | a :: as, ps, p, h => by
    simp only [takeByAmount] at h
    split at h
    · rename_i q hq
      rcases List.mem_cons.1 h with rfl | h
      · exact Or.inl (List.mem_of_find?_eq_some hq)
      · rcases takeByAmount_mem as _ p h with h | h
        · exact Or.inl (List.mem_of_mem_erase h)
        · exact Or.inr h
    · rcases List.mem_cons.1 h with rfl | h
      · exact Or.inr rfl
      · exact takeByAmount_mem as ps p h

/-! ## the mint's DLEQ transcript -/

theorem outputs_leaf_noTranscript (k : String) (outs : List Output) {pl : Path × Leaf}
    (h : pl ∈ leavesFields [(k, Tree.arr (outs.map renderOutput))]) : pl.2.isTranscript = false := by
  simp only [mem_leavesFields, List.mem_singleton, exists_eq_left, leaves_arr, mem_leavesItems, List.mem_map] at h
  obtain ⟨q, ⟨t, ⟨o, _, rfl⟩, q', hq', rfl⟩, rfl⟩ := h
  exact Leaf.harmless_not_transcript (renderOutput_leaves o q' hq')

theorem inputs_field_noTranscript {ins : List WProof} (h : NoDLEQs ins) {pl : Path × Leaf}
    (hpl : pl ∈ leavesFields [("inputs", Tree.arr (ins.map (renderProof .input)))]) : pl.2.isTranscript = false := by
  simp only [mem_leavesFields, List.mem_singleton, exists_eq_left, leaves_arr, mem_leavesItems, List.mem_map] at hpl
  obtain ⟨q, ⟨t, ⟨p, hp, rfl⟩, q', hq', rfl⟩, rfl⟩ := hpl
  rcases renderProof_leaves .input p q' hq' with h1 | rfl | ⟨d, hd, _⟩
  · exact Leaf.harmless_not_transcript h1
  · rfl
  · rw [h p hp] at hd; cases hd

/-- EXACT condition: a swap request shows no DLEQ transcript iff none of the proofs passed as `Inputs:` has a DLEQ -/
theorem noTranscript_postSwapReq_iff (ins : List WProof) (outs : List Output) :
    (postSwapReq ins outs).NoTranscript ↔ NoDLEQs ins := by
  constructor
  · intro h p hp
    cases hd : p.dleq with
    | none => rfl
    | some d =>
      exfalso
      have hm := renderProof_has_e .input p d hd
      have : (["inputs", "[]", "dleq", "e"], Leaf.dleqE d.e) ∈ (postSwapReq ins outs).body.leaves := by
        simp only [postSwapReq, leaves_node]
        refine mem_leavesFields.2 ⟨("inputs", _), List.mem_cons_self, (["[]", "dleq", "e"], _), ?_, rfl⟩
        simp only [leaves_arr]
        exact mem_leavesItems.2 ⟨_, List.mem_map.2 ⟨p, hp, rfl⟩, _, hm, rfl⟩
      have := h _ this
      simp [Leaf.isTranscript] at this
  · intro h pl hpl
    simp only [postSwapReq, leaves_node] at hpl
    rw [show ([("inputs", Tree.arr (ins.map (renderProof .input))), ("outputs", Tree.arr (outs.map renderOutput))] :
        List (String × Tree)) = [("inputs", Tree.arr (ins.map (renderProof .input)))] ++
        [("outputs", Tree.arr (outs.map renderOutput))] from rfl] at hpl
    simp only [leavesFields_append, List.mem_append] at hpl
    rcases hpl with h1 | h1
    · exact inputs_field_noTranscript h h1
    · exact outputs_leaf_noTranscript _ _ h1

theorem noTranscript_postMeltReq (q : String) (ins : List WProof) (outs : List Output) (h : NoDLEQs ins) :
    (postMeltReq q ins outs).NoTranscript := by
  intro pl hpl
  simp only [postMeltReq, leaves_node] at hpl
  rw [show ([("quote", Tree.leaf (Leaf.pub q)), ("inputs", Tree.arr (ins.map (renderProof .input)))] :
      List (String × Tree)) = [("quote", Tree.leaf (Leaf.pub q))] ++
      [("inputs", Tree.arr (ins.map (renderProof .input)))] from rfl] at hpl
  simp only [leavesFields_append, List.mem_append] at hpl
  rcases hpl with (h1 | h1) | h1
  · simp [leavesFields] at h1; subst h1; rfl
  · exact inputs_field_noTranscript h h1
  · cases he : outs.isEmpty <;> simp only [he] at h1
    · exact outputs_leaf_noTranscript _ _ h1
    · simp [leavesFields] at h1

/-- a request without inputs built from public text, numbers, points and blinded messages -/
theorem noTranscript_of_harmless (r : Req) (h : ∀ pl ∈ r.body.leaves, pl.2.harmless = true) : r.NoTranscript :=
  fun pl hpl => Leaf.harmless_not_transcript (h pl hpl)

theorem harmless_getReq (w : String) : ∀ pl ∈ (getReq w).body.leaves, pl.2.harmless = true := by
  intro pl hpl; simp [getReq, leavesFields] at hpl

theorem harmless_postMintQuoteReq (a : Nat) : ∀ pl ∈ (postMintQuoteReq a).body.leaves, pl.2.harmless = true := by
  intro pl hpl
  simp [postMintQuoteReq, leavesFields] at hpl
  rcases hpl with rfl | rfl | rfl <;> rfl

theorem harmless_postMeltQuoteReq : ∀ pl ∈ postMeltQuoteReq.body.leaves, pl.2.harmless = true := by
  intro pl hpl
  simp [postMeltQuoteReq, leavesFields] at hpl
  rcases hpl with rfl | rfl <;> rfl

theorem harmless_outputs_field (k : String) (outs : List Output) {pl : Path × Leaf}
    (h : pl ∈ leavesFields [(k, Tree.arr (outs.map renderOutput))]) : pl.2.harmless = true := by
  simp only [mem_leavesFields, List.mem_singleton, exists_eq_left, leaves_arr, mem_leavesItems, List.mem_map] at h
  obtain ⟨q, ⟨t, ⟨o, _, rfl⟩, q', hq', rfl⟩, rfl⟩ := h
  exact renderOutput_leaves o q' hq'

theorem harmless_postMintReq (q : String) (outs : List Output) (sg : Bool) :
    ∀ pl ∈ (postMintReq q outs sg).body.leaves, pl.2.harmless = true := by
  intro pl hpl
  simp only [postMintReq, leaves_node] at hpl
  rw [show ([("quote", Tree.leaf (Leaf.pub q)), ("outputs", Tree.arr (outs.map renderOutput))] : List (String × Tree)) =
    [("quote", Tree.leaf (Leaf.pub q))] ++ [("outputs", Tree.arr (outs.map renderOutput))] from rfl] at hpl
  simp only [leavesFields_append, List.mem_append] at hpl
  rcases hpl with (h | h) | h
  · simp [leavesFields] at h; subst h; rfl
  · exact harmless_outputs_field _ _ h
  · cases sg <;> simp [leavesFields] at h
    subst h; rfl

theorem harmless_postCheckStateReq (ss : List Nat) : ∀ pl ∈ (postCheckStateReq ss).body.leaves, pl.2.harmless = true := by
  intro pl hpl
  simp only [postCheckStateReq, leaves_node, mem_leavesFields, List.mem_singleton, exists_eq_left, leaves_arr,
    mem_leavesItems, List.mem_map] at hpl
  obtain ⟨q, ⟨t, ⟨s, _, rfl⟩, q', hq', rfl⟩, rfl⟩ := hpl
  simp at hq'; subst hq'; rfl

theorem harmless_postRestoreReq (outs : List Output) : ∀ pl ∈ (postRestoreReq outs).body.leaves, pl.2.harmless = true := by
  intro pl hpl
  simp only [postRestoreReq, leaves_node, mem_leavesFields, List.mem_singleton, exists_eq_left, leaves_arr,
    mem_leavesItems, List.mem_map] at hpl
  obtain ⟨q, ⟨t, ⟨o, _, rfl⟩, q', hq', rfl⟩, rfl⟩ := hpl
  exact renderOutput_leaves _ q' hq'

/-! ## unlinkable requests: secure and without transcript -/

/-- what C08 asks of one request (`Secure`) plus the absence of the mint's own DLEQ transcript -/
def Req.Unlinkable (r : Req) : Prop := r.Secure ∧ r.NoTranscript

instance (r : Req) : Decidable r.Unlinkable := by unfold Req.Unlinkable; infer_instance

def AllOk (rs : List Req) : Prop := ∀ r ∈ rs, r.Unlinkable

@[simp] theorem AllOk_nil : AllOk [] := by intro r hr; cases hr
@[simp] theorem AllOk_cons (r : Req) (rs : List Req) : AllOk (r :: rs) ↔ r.Unlinkable ∧ AllOk rs := by
  simp [AllOk]
@[simp] theorem AllOk_append (a b : List Req) : AllOk (a ++ b) ↔ AllOk a ∧ AllOk b := by
  simp only [AllOk, List.mem_append]
  exact ⟨fun h => ⟨fun r hr => h r (Or.inl hr), fun r hr => h r (Or.inr hr)⟩,
         fun h r hr => hr.elim (h.1 r) (h.2 r)⟩

theorem AllOk_flatten_replicate (n : Nat) (round : List Req) (h : AllOk round) :
    AllOk (List.replicate n round).flatten := by
  induction n with
  | zero => simp
  | succ n ih => simp [List.replicate_succ, h, ih]

theorem ok_getReq (w : String) : (getReq w).Unlinkable := ⟨secure_getReq w, noTranscript_of_harmless _ (harmless_getReq w)⟩
theorem ok_postMintQuoteReq (a : Nat) : (postMintQuoteReq a).Unlinkable :=
  ⟨secure_postMintQuoteReq a, noTranscript_of_harmless _ (harmless_postMintQuoteReq a)⟩
theorem ok_postMeltQuoteReq : postMeltQuoteReq.Unlinkable :=
  ⟨secure_postMeltQuoteReq, noTranscript_of_harmless _ harmless_postMeltQuoteReq⟩
theorem ok_postMintReq (q : String) (outs : List Output) (sg : Bool) : (postMintReq q outs sg).Unlinkable :=
  ⟨secure_postMintReq q outs sg, noTranscript_of_harmless _ (harmless_postMintReq q outs sg)⟩
theorem ok_postCheckStateReq (ss : List Nat) : (postCheckStateReq ss).Unlinkable :=
  ⟨secure_postCheckStateReq ss, noTranscript_of_harmless _ (harmless_postCheckStateReq ss)⟩
theorem ok_postRestoreReq (outs : List Output) : (postRestoreReq outs).Unlinkable :=
  ⟨secure_postRestoreReq outs, noTranscript_of_harmless _ (harmless_postRestoreReq outs)⟩

/-- the copies made by `inputsWithoutDLEQ` carry no DLEQ, whatever the wallet holds -/
theorem NoDLEQs_inputsWithoutDLEQ (ps : List WProof) : NoDLEQs (inputsWithoutDLEQ ps) := by
  intro p hp
  simp only [inputsWithoutDLEQ, List.mem_map] at hp
  obtain ⟨q, _, rfl⟩ := hp
  rfl

/-- ... and are otherwise the same proofs: same secrets, amounts, keyset ids, witnesses, in the same order -/
theorem inputsWithoutDLEQ_same (ps : List WProof) :
    (inputsWithoutDLEQ ps).map (fun p => (p.amount, p.id, p.secret, p.witness)) =
      ps.map (fun p => (p.amount, p.id, p.secret, p.witness)) := by
  simp [inputsWithoutDLEQ, List.map_map, Function.comp_def]

theorem ok_swapReq_stripped (ins : List WProof) (outs : List Output) :
    (postSwapReq (inputsWithoutDLEQ ins) outs).Unlinkable :=
  ⟨(secure_postSwapReq_iff _ _).2 (NoDLEQs_inputsWithoutDLEQ ins).noRs,
   (noTranscript_postSwapReq_iff _ _).2 (NoDLEQs_inputsWithoutDLEQ ins)⟩

theorem ok_meltReq_stripped (q : String) (ins : List WProof) (outs : List Output) :
    (postMeltReq q (inputsWithoutDLEQ ins) outs).Unlinkable :=
  ⟨(secure_postMeltReq_iff _ _ _).2 (NoDLEQs_inputsWithoutDLEQ ins).noRs,
   noTranscript_postMeltReq _ _ _ (NoDLEQs_inputsWithoutDLEQ ins)⟩

/-! ## operation paths (fixed code: every request site strips the DLEQ) -/

theorem swap_reqs (st : WState) (ins : List WProof) (outs : List Output) (ans : Option (List Sig)) :
    (swap st ins outs ans).reqs = [postSwapReq (inputsWithoutDLEQ ins) outs] := by
  unfold swap; split <;> rfl

theorem swapToSend_reqs (st : WState) (pts : List WProof) (send change : List Output) (ans : Option (List Sig)) :
    (swapToSend st pts send change ans).reqs = [postSwapReq (inputsWithoutDLEQ pts) (sortOutputs (send ++ change))] := by
  cases ans with
  | none => rfl
  | some sigs => simp only [swapToSend]; split <;> rfl

theorem getProofsForAmount_ok (st : WState) (sel : Sel) : AllOk (getProofsForAmount st sel).reqs := by
  cases sel <;> simp [getProofsForAmount, swapToSend_reqs, ok_swapReq_stripped]

theorem send_reqs (st : WState) (sel : Sel) : (send st sel).reqs = (getProofsForAmount st sel).reqs := by
  unfold send; simp only; split <;> rfl

theorem sendLocked_ok (st : WState) (ok : Bool) (pts : List WProof) (s c : List Output) (ans : Option (List Sig)) :
    AllOk (sendLocked st ok pts s c ans).reqs := by
  cases ok <;> simp [sendLocked, ok_getReq, swapToSend_reqs, ok_swapReq_stripped]

theorem mintTokens_ok (st : WState) (q : String) (qs : Option (Option Bool)) (sg : Bool) (outs : List Output)
    (ans : Option (List Sig)) : AllOk (mintTokens st q qs sg outs ans).reqs := by
  unfold mintTokens
  repeat' split
  all_goals simp [ok_getReq, ok_postMintReq]

theorem swapProofs_ok (st : WState) (proofs : List WProof) (o : SwapProofsOracle) :
    AllOk (swapProofs st proofs o).reqs := by
  have hround : AllOk [postMintQuoteReq 0, postMeltQuoteReq] := by
    simp [ok_postMintQuoteReq, ok_postMeltQuoteReq]
  have hrep := AllOk_flatten_replicate o.retries _ hround
  unfold swapProofs
  split
  · simp [hrep, ok_postMintQuoteReq]
  · simp [hrep, ok_postMintQuoteReq, ok_postMeltQuoteReq]
  · split
    · simp [hrep, ok_postMintQuoteReq, ok_postMeltQuoteReq, ok_meltReq_stripped, mintTokens_ok]
    · simp [hrep, ok_postMintQuoteReq, ok_postMeltQuoteReq, ok_meltReq_stripped]

theorem swapAndSave_ok (st : WState) (ins : List WProof) (outs : List Output) (sa : Bool) (ans : Option (List Sig)) :
    AllOk (swapAndSave st ins outs sa ans).reqs := by
  unfold swapAndSave
  simp only
  split <;> simp [swap_reqs, ok_swapReq_stripped]

theorem receive_ok (st : WState) (token : List WProof) (o : ReceiveOracle) : AllOk (receive st token o).reqs := by
  unfold receive
  split
  · simp
  · split
    · simp
    · simp only
      split
      · split
        · split <;> simp [swap_reqs, ok_getReq, ok_swapReq_stripped, swapProofs_ok]
        · simp [ok_getReq, swapProofs_ok]
      · exact swapAndSave_ok _ _ _ _ _

theorem receiveHTLC_ok (st : WState) (token : List WProof) (d h sa : Bool) (outs : List Output)
    (ans : Option (List Sig)) : AllOk (receiveHTLC st token d h sa outs ans).reqs := by
  unfold receiveHTLC
  split
  · simp
  · exact swapAndSave_ok _ _ _ _ _

theorem melt_ok (st : WState) (q : String) (pc : Option Bool) (sel : Sel) (blanks : List Output) (ans : MeltAns) :
    AllOk (melt st q pc sel blanks ans).reqs := by
  have hpre : AllOk (meltPre pc) := by
    cases pc <;> simp [meltPre, ok_getReq]
  have hg := getProofsForAmount_ok st sel
  unfold melt
  simp only
  split
  · exact hpre
  · split
    · simp [hpre, hg]
    · cases ans with
      | err b => cases b <;> simp [hpre, hg, ok_meltReq_stripped]
      | unpaid => simp [hpre, hg, ok_meltReq_stripped]
      | pending => simp [hpre, hg, ok_meltReq_stripped]
      | paid change => simp only; split <;> simp [hpre, hg, ok_meltReq_stripped]

theorem mintSwap_ok (st : WState) (sel : Sel) (o : SwapProofsOracle) : AllOk (mintSwap st sel o).reqs := by
  have hg := getProofsForAmount_ok st sel
  unfold mintSwap
  simp only
  split
  · exact hg
  · simp [hg, swapProofs_ok]

theorem removeSpentProofs_ok (st : WState) (ms : List PendingMint) : AllOk (removeSpentProofs st ms).reqs := by
  induction ms with
  | nil => simp [removeSpentProofs]
  | cons m rest ih =>
    unfold removeSpentProofs
    simp only
    split <;> simp [ok_postCheckStateReq, ih]

theorem reclaimUnspentProofs_ok (st : WState) (ms : List PendingMint) :
    AllOk (reclaimUnspentProofs st ms).reqs := by
  induction ms generalizing st with
  | nil => simp [reclaimUnspentProofs]
  | cons m rest ih =>
    unfold reclaimUnspentProofs
    simp only
    split
    · simp [ok_postCheckStateReq]
    · split
      · simp [ok_postCheckStateReq, ih]
      · split
        · simp [ok_postCheckStateReq, swap_reqs, ok_swapReq_stripped]
        · simp [ok_postCheckStateReq, swap_reqs, ok_swapReq_stripped, ih]

theorem restoreBatches_ok (bs : List RestoreBatch) : AllOk (restoreBatches bs) := by
  induction bs with
  | nil => simp [restoreBatches]
  | cons b rest ih =>
    unfold restoreBatches
    simp only
    split <;> simp [ok_postRestoreReq, ok_postCheckStateReq, ih]

/-- every operation path, every state, every oracle -/
theorem step_ok (st : WState) (op : Op) : AllOk (step st op).1 := by
  cases op with
  | requestMint a => simp [step, ok_postMintQuoteReq]
  | requestMeltQuote => simp [step, ok_postMeltQuoteReq]
  | checkMeltQuoteState => simp [step, ok_getReq]
  | mintTokens q qs sg outs ans => exact mintTokens_ok st q qs sg outs ans
  | send sel => simp only [step, send_reqs]; exact getProofsForAmount_ok st sel
  | sendLocked ok pts s c ans => exact sendLocked_ok st ok pts s c ans
  | receive tok o => exact receive_ok st tok o
  | receiveHTLC tok d h sa outs ans => exact receiveHTLC_ok st tok d h sa outs ans
  | melt q pc sel blanks ans => exact melt_ok st q pc sel blanks ans
  | mintSwap sel o => exact mintSwap_ok st sel o
  | reclaim ms => exact reclaimUnspentProofs_ok st ms
  | removeSpent ms => exact removeSpentProofs_ok st ms
  | restore bs => simp [step, ok_getReq, restoreBatches_ok]

theorem runHist_ok (st : WState) (ops : List Op) : AllOk (runHist st ops) := by
  induction ops generalizing st with
  | nil => simp [runHist]
  | cons op ops ih => simp [runHist, step_ok, ih]

/-! ## tokens (values for the caller) -/

theorem renderProof_noDLEQ_noBlinding (role : Role) (p : WProof) (h : p.dleq = none) :
    ∀ q ∈ (renderProof role p).leaves, q.2.isBlinding = false := by
  intro q hq
  rcases renderProof_leaves role p q hq with h1 | rfl | ⟨d, hd, _⟩
  · exact Leaf.harmless_not_blinding h1
  · cases role <;> rfl
  · rw [h] at hd; cases hd

theorem all_leaves_node {P : Leaf → Prop} {fs : List (String × Tree)}
    (h : ∀ kt ∈ fs, ∀ q ∈ kt.2.leaves, P q.2) : ∀ pl ∈ (Tree.node fs).leaves, P pl.2 := by
  intro pl hpl
  simp only [leaves_node, mem_leavesFields] at hpl
  obtain ⟨kt, hkt, q, hq, rfl⟩ := hpl
  exact h kt hkt q hq

theorem all_leaves_arr {P : Leaf → Prop} {xs : List Tree}
    (h : ∀ t ∈ xs, ∀ q ∈ t.leaves, P q.2) : ∀ pl ∈ (Tree.arr xs).leaves, P pl.2 := by
  intro pl hpl
  simp only [leaves_arr, mem_leavesItems] at hpl
  obtain ⟨t, ht, q, hq, rfl⟩ := hpl
  exact h t ht q hq

/-- a V3 token built with includeDLEQ = false carries no blinding factor -/
theorem newTokenV3_strip (ps : List WProof) : ∀ pl ∈ (newTokenV3 ps false).leaves, pl.2.isBlinding = false := by
  simp only [newTokenV3, Bool.false_eq_true, if_false]
  refine all_leaves_node (P := fun l => l.isBlinding = false) ?_
  intro kt hkt
  simp only [List.mem_cons, List.not_mem_nil, or_false] at hkt
  rcases hkt with rfl | rfl
  · refine all_leaves_arr (P := fun l => l.isBlinding = false) ?_
    intro t ht
    simp only [List.mem_singleton] at ht
    subst ht
    refine all_leaves_node (P := fun l => l.isBlinding = false) ?_
    intro kt hkt
    simp only [List.mem_cons, List.not_mem_nil, or_false] at hkt
    rcases hkt with rfl | rfl
    · intro q hq; simp at hq; subst hq; rfl
    · refine all_leaves_arr (P := fun l => l.isBlinding = false) ?_
      intro t ht
      simp only [List.mem_map] at ht
      obtain ⟨p, ⟨p0, _, rfl⟩, rfl⟩ := ht
      exact renderProof_noDLEQ_noBlinding .caller (stripDLEQ p0) rfl
  · intro q hq; simp at hq; subst hq; rfl

/-- a V3 token built with includeDLEQ = true shows the blinding factor of every proof that has one: to the caller -/
theorem newTokenV3_includes (ps : List WProof) (p : WProof) (hp : p ∈ ps) (d : DLEQ) (r : Nat) (hd : p.dleq = some d)
    (hr : d.r = some r) :
    (["token", "[]", "proofs", "[]", "dleq", "r"], Leaf.blindingFactor r) ∈ (newTokenV3 ps true).leaves := by
  simp only [newTokenV3, if_true, leaves_node]
  refine mem_leavesFields.2 ⟨("token", _), List.mem_cons_self, (["[]", "proofs", "[]", "dleq", "r"], _), ?_, rfl⟩
  simp only [leaves_arr]
  refine mem_leavesItems.2 ⟨_, List.mem_singleton.2 rfl, (["proofs", "[]", "dleq", "r"], _), ?_, rfl⟩
  simp only [leaves_node]
  refine mem_leavesFields.2 ⟨("proofs", Tree.arr (ps.map (renderProof .caller))), by simp,
    (["[]", "dleq", "r"], _), ?_, rfl⟩
  simp only [leaves_arr]
  exact mem_leavesItems.2 ⟨_, List.mem_map.2 ⟨p, hp, rfl⟩, _, renderProof_has_r .caller p d r hd hr, rfl⟩

end Gonuts.Model.WalletWire
