import Gonuts.Lemmas.MintRun
/-!
  Storage-level invariants that every single effect preserves — hence every program, every
  interleaving of programs (an interleaving is a sequence of effects), every crash prefix and every
  injected fault.
-/
namespace Gonuts.Model.Mint

/-- A predicate on the tables preserved by every storage effect. -/
def DbInv (Q : DB → Prop) : Prop :=
  ∀ {β : Type} (e : Eff β) (db db' : DB) (r : β), execDb db e = some (db', r) → Q db → Q db'

theorem exec_db_cases {β : Type} (w : World) (e : Eff β) :
    (exec w e).1.db = w.db ∨ ∃ r, execDb w.db e = some ((exec w e).1.db, r) := by
  unfold exec
  split
  · split
    · left; rfl
    · split
      · rename_i db' r h; right; exact ⟨r, h⟩
      · left; rfl
  · split <;> (left; rfl)

theorem DbInv.effInv {Q : DB → Prop} (h : DbInv Q) : EffInv (fun w => Q w.db) := by
  intro β w e hw
  rcases exec_db_cases w e with heq | ⟨r, hr⟩
  · show Q (exec w e).1.db; rw [heq]; exact hw
  · exact h e _ _ r hr hw

/-! ### insertRows / insertSigs -/

theorem insertRows_sub {t rows t' : List PRow} (h : insertRows t rows = some t') : ∀ r ∈ t, r ∈ t' := by
  induction rows generalizing t with
  | nil => simp [insertRows] at h; subst h; exact fun _ hr => hr
  | cons x rest ih =>
    unfold insertRows at h
    split at h; · cases h
    split at h; · cases h
    intro r hr
    exact ih h r (List.mem_append_left _ hr)

theorem insertSigs_sub {t rows t' : List BSig} (h : insertSigs t rows = some t') : ∀ r ∈ t, r ∈ t' := by
  induction rows generalizing t with
  | nil => simp [insertSigs] at h; subst h; exact fun _ hr => hr
  | cons x rest ih =>
    unfold insertSigs at h
    split at h; · cases h
    split at h; · cases h
    intro r hr
    exact ih h r (List.mem_append_left _ hr)

/-- Keys of a proofs table. -/
def ysOf (t : List PRow) : List Nat := t.map (·.y)

theorem insertRows_nodup {t rows t' : List PRow} (h : insertRows t rows = some t') (hn : (ysOf t).Nodup) :
    (ysOf t').Nodup := by
  induction rows generalizing t with
  | nil => simp [insertRows] at h; subst h; exact hn
  | cons x rest ih =>
    unfold insertRows at h
    split at h; · cases h
    split at h; · cases h
    rename_i hany
    apply ih h
    simp only [ysOf, List.map_append, List.map_cons, List.map_nil]
    rw [List.nodup_append]
    refine ⟨hn, by simp, ?_⟩
    intro a ha b hb
    simp at hb; subst hb
    intro hab; subst hab
    simp only [List.mem_map] at ha
    obtain ⟨r, hr, hry⟩ := ha
    apply hany
    simp only [List.any_eq_true]
    exact ⟨r, hr, by simp [hry]⟩

theorem insertSigs_nodup {t rows t' : List BSig} (h : insertSigs t rows = some t') (hn : (t.map (·.b)).Nodup) :
    (t'.map (·.b)).Nodup := by
  induction rows generalizing t with
  | nil => simp [insertSigs] at h; subst h; exact hn
  | cons x rest ih =>
    unfold insertSigs at h
    split at h; · cases h
    split at h; · cases h
    rename_i hany
    apply ih h
    simp only [List.map_append, List.map_cons, List.map_nil]
    rw [List.nodup_append]
    refine ⟨hn, by simp, ?_⟩
    intro a ha b hb
    simp at hb; subst hb
    intro hab; subst hab
    simp only [List.mem_map] at ha
    obtain ⟨r, hr, hry⟩ := ha
    apply hany
    simp only [List.any_eq_true]
    exact ⟨r, hr, by simp [hry]⟩

/-! ### The invariants -/

/-- Case analysis over the storage effects: after it, only the effects that really change the table
    under consideration remain, with the equation of `execDb` split into its branches. -/
macro "db_cases" h:ident hq:ident : tactic => `(tactic|
  (cases ‹Eff _› <;> simp only [execDb] at $h:ident <;> (repeat' split at $h:ident) <;>
    simp only [Option.some.injEq, Prod.mk.injEq, reduceCtorEq] at $h:ident <;>
    (try (have hdb := And.left $h:ident; subst hdb)) <;> (try exact $hq)))

/-- A row of the spent table is never removed or altered, by any storage effect. -/
theorem spent_mono_db (row : PRow) : DbInv (fun db => row ∈ db.spent) := by
  intro β e db db' r h hq
  db_cases h hq
  exact insertRows_sub ‹_› _ hq

/-- A stored blind signature is never removed or altered. -/
theorem sigs_mono_db (row : BSig) : DbInv (fun db => row ∈ db.sigs) := by
  intro β e db db' r h hq
  db_cases h hq
  exact insertSigs_sub ‹_› _ hq

/-- The spent table never holds two rows for one secret. -/
theorem spent_nodup_db : DbInv (fun db => (ysOf db.spent).Nodup) := by
  intro β e db db' r h hq
  db_cases h hq
  exact insertRows_nodup ‹_› hq

theorem filter_ys_nodup {t : List PRow} (p : PRow → Bool) (h : (ysOf t).Nodup) : (ysOf (t.filter p)).Nodup := by
  unfold ysOf at *
  exact List.Nodup.sublist (List.Sublist.map _ List.filter_sublist) h

/-- The pending table never holds two rows for one secret. -/
theorem pending_nodup_db : DbInv (fun db => (ysOf db.pending).Nodup) := by
  intro β e db db' r h hq
  db_cases h hq
  · exact insertRows_nodup ‹_› hq
  · exact filter_ys_nodup _ hq

/-- No blinded message is stored with two signatures. -/
theorem sigs_nodup_db : DbInv (fun db => (db.sigs.map (·.b)).Nodup) := by
  intro β e db db' r h hq
  db_cases h hq
  exact insertSigs_nodup ‹_› hq

/-- A keyset row keeps its derivation index and fee forever (only `active` may change). -/
theorem keyset_stable_db (idx : Nat) (fee : UInt64) :
    DbInv (fun db => ∃ k ∈ db.keysets, k.idx = idx ∧ k.fee = fee) := by
  intro β e db db' r h hq
  db_cases h hq
  · obtain ⟨k, hk, h1, h2⟩ := hq
    exact ⟨k, List.mem_append_left _ hk, h1, h2⟩
  · obtain ⟨k, hk, h1, h2⟩ := hq
    refine ⟨if k.idx == _ then { k with active := _ } else k, List.mem_map.2 ⟨k, hk, rfl⟩, ?_, ?_⟩ <;>
      split <;> simp [h1, h2]

/-- A mint quote is never removed and keeps its amount, invoice and lock key (only `state` may change). -/
theorem mintQuote_stable_db (q : MintQ) :
    DbInv (fun db => ∃ q' ∈ db.mintQ, q'.id = q.id ∧ q'.amount = q.amount ∧ q'.hash = q.hash ∧ q'.pubkey = q.pubkey) := by
  intro β e db db' r h hq
  db_cases h hq
  · obtain ⟨k, hk, h1⟩ := hq
    exact ⟨k, List.mem_append_left _ hk, h1⟩
  · obtain ⟨k, hk, h1, h2, h3, h4⟩ := hq
    refine ⟨if k.id == _ then { k with state := _ } else k, List.mem_map.2 ⟨k, hk, rfl⟩, ?_⟩
    split <;> simp [h1, h2, h3, h4]

/-- A melt quote is never removed and keeps its invoice, amount, fee reserve and MPP data. -/
theorem meltQuote_stable_db (q : MeltQ) :
    DbInv (fun db => ∃ q' ∈ db.meltQ, q'.id = q.id ∧ q'.inv = q.inv ∧ q'.amount = q.amount ∧
      q'.feeReserve = q.feeReserve ∧ q'.isMpp = q.isMpp ∧ q'.amountMsat = q.amountMsat) := by
  intro β e db db' r h hq
  db_cases h hq
  · obtain ⟨k, hk, h1⟩ := hq
    exact ⟨k, List.mem_append_left _ hk, h1⟩
  · obtain ⟨k, hk, h1, h2, h3, h4, h5, h6⟩ := hq
    refine ⟨if k.id == _ then { k with state := _, preimage := _ } else k, List.mem_map.2 ⟨k, hk, rfl⟩, ?_⟩
    split <;> simp [h1, h2, h3, h4, h5, h6]

/-! ### Lifting to operations and histories -/

theorem runPM_db {Q : DB → Prop} (h : DbInv Q) {α : Type} (p : PM α) (w : World) (hw : Q w.db) :
    Q (runPM p w).1.db := EffInv.runPM (P := fun w => Q w.db) h.effInv p w hw

theorem Sess.runPM_db {Q : DB → Prop} (h : DbInv Q) {α : Type} (s : Sess) (p : PM α) (script : List LnAns)
    (hs : Q s.w.db) : Q (s.runPM p script).1.w.db := by
  unfold Sess.runPM
  exact EffInv.run (P := fun w => Q w.db) h.effInv _ _ hs

/-- Every operation of the sequential machine preserves a storage invariant — with or without an armed
    fault, whatever the Lightning script says. -/
theorem applyOp_db {Q : DB → Prop} (h : DbInv Q) (s : Sess) (op : Op) (hs : Q s.w.db) : Q (applyOp s op).1.w.db := by
  cases op <;> simp only [applyOp]
  case extInvoice => exact hs
  case settle => exact hs
  case mintQuote amount unitSat pk lnFail =>
    have := Sess.runPM_db h { s with w := { s.w with ln := { s.w.ln with failCreateInvoice := if lnFail then 1 else 0 } } }
      (requestMintQuote (cxOf s) s.w.nextMintQ amount unitSat pk) [] hs
    split <;> simp_all
  case notify q =>
    split
    · exact Sess.runPM_db h s (watcherNotified q) [] hs
    · exact hs
  case quoteState q lnFail =>
    exact Sess.runPM_db h { s with w := { s.w with ln := { s.w.ln with failInvoiceStatus := if lnFail then 1 else 0 } } } _ _ hs
  case mint => exact Sess.runPM_db h s _ _ hs
  case swap => exact Sess.runPM_db h s _ _ hs
  case meltQuote inv unitSat mpp =>
    have := Sess.runPM_db h s (requestMeltQuote (cxOf s) s.w.nextMeltQ inv (invMsat s.w.ln) unitSat mpp) [] hs
    split <;> simp_all
  case melt q ps script lnFail =>
    exact Sess.runPM_db h { s with w := { s.w with ln := { s.w.ln with failInvoiceStatus := if lnFail then 1 else 0 } } } _ _ hs
  case meltState => exact Sess.runPM_db h s _ _ hs
  case checkState => exact Sess.runPM_db h s _ _ hs
  case restore => exact Sess.runPM_db h s _ _ hs
  case balance => exact Sess.runPM_db h s _ _ hs
  case rotate fee => exact EffInv.run (P := fun w => Q w.db) h.effInv (rotateKeyset s.w.mem fee) _ hs
  case restart rotate fee =>
    split
    · exact EffInv.run (P := fun w => Q w.db) h.effInv (rotateKeyset (memOfDb s.w.db) fee) _ hs
    · exact hs
  case armFault => exact hs
  case disarm => exact hs

theorem runOps_db {Q : DB → Prop} (h : DbInv Q) (s : Sess) (ops : List Op) (hs : Q s.w.db) : Q (runOps s ops).w.db := by
  induction ops generalizing s with
  | nil => exact hs
  | cons op rest ih => exact ih _ (applyOp_db h s op hs)

end Gonuts.Model.Mint
