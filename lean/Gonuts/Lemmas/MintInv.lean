import Gonuts.Lemmas.MintRun
/-!
  Storage-level invariants that every single effect preserves — hence every program, every
  interleaving of programs (an interleaving is a sequence of effects), every crash prefix and every
  injected fault.
-/
namespace Gonuts.Model.Mint

/-- A predicate on the tables preserved by every storage effect. -/
def DbInv (Q : DB → Prop) : Prop :=
  ∀ {β : Type} (e : Eff β) (db db' : DB) (r : β), execDb db e = some (db', r) → Q db → Q db'

theorem exec_db_cases {β : Type} (w : World) (e : Eff β) :
    (exec w e).1.db = w.db ∨ ∃ r, execDb w.db e = some ((exec w e).1.db, r) := by
  unfold exec
  split
  · split
    · left; rfl
    · split
      · rename_i db' r h; right; exact ⟨r, h⟩
      · left; rfl
  · split <;> (left; rfl)

theorem DbInv.effInv {Q : DB → Prop} (h : DbInv Q) : EffInv (fun w => Q w.db) := by
  intro β w e hw
  rcases exec_db_cases w e with heq | ⟨r, hr⟩
  · show Q (exec w e).1.db; rw [heq]; exact hw
  · exact h e _ _ r hr hw

/-! ### insertRows / insertSigs -/

theorem insertRows_sub {t rows t' : List PRow} (h : insertRows t rows = some t') : ∀ r ∈ t, r ∈ t' := by
  induction rows generalizing t with
  | nil => simp [insertRows] at h; subst h; exact fun _ hr => hr
  | cons x rest ih =>
    unfold insertRows at h
    split at h; · cases h
    split at h; · cases h
    intro r hr
    exact ih h r (List.mem_append_left _ hr)

theorem insertSigs_sub {t rows t' : List BSig} (h : insertSigs t rows = some t') : ∀ r ∈ t, r ∈ t' := by
  induction rows generalizing t with
  | nil => simp [insertSigs] at h; subst h; exact fun _ hr => hr
  | cons x rest ih =>
    unfold insertSigs at h
    split at h; · cases h
    split at h; · cases h
    intro r hr
    exact ih h r (List.mem_append_left _ hr)

/-- Keys of a proofs table. -/
def ysOf (t : List PRow) : List Nat := t.map (·.y)

theorem insertRows_nodup {t rows t' : List PRow} (h : insertRows t rows = some t') (hn : (ysOf t).Nodup) :
    (ysOf t').Nodup := by
  induction rows generalizing t with
  | nil => simp [insertRows] at h; subst h; exact hn
  | cons x rest ih =>
    unfold insertRows at h
    split at h; · cases h
    split at h; · cases h
    rename_i hany
    apply ih h
    simp only [ysOf, List.map_append, List.map_cons, List.map_nil]
    rw [List.nodup_append]
    refine ⟨hn, by simp, ?_⟩
    intro a ha b hb
    simp at hb; subst hb
    intro hab; subst hab
    simp only [ysOf, List.mem_map] at ha
    obtain ⟨r, hr, hry⟩ := ha
    apply hany
    simp only [List.any_eq_true]
    exact ⟨r, hr, by simp [hry]⟩

theorem insertSigs_nodup {t rows t' : List BSig} (h : insertSigs t rows = some t') (hn : (t.map (·.b)).Nodup) :
    (t'.map (·.b)).Nodup := by
  induction rows generalizing t with
  | nil => simp [insertSigs] at h; subst h; exact hn
  | cons x rest ih =>
    unfold insertSigs at h
    split at h; · cases h
    split at h; · cases h
    rename_i hany
    apply ih h
    simp only [List.map_append, List.map_cons, List.map_nil]
    rw [List.nodup_append]
    refine ⟨hn, by simp, ?_⟩
    intro a ha b hb
    simp at hb; subst hb
    intro hab; subst hab
    simp only [List.mem_map] at ha
    obtain ⟨r, hr, hry⟩ := ha
    apply hany
    simp only [List.any_eq_true]
    exact ⟨r, hr, by simp [hry]⟩

/-! ### The invariants -/

/-- A row of the spent table is never removed or altered, by any storage effect. -/
theorem spent_mono_db (row : PRow) : DbInv (fun db => row ∈ db.spent) := by
  intro β e db db' r h hq
  cases e <;> simp only [execDb] at h <;> try (first | (cases h; exact hq) | (split at h <;> cases h <;> exact hq))
  all_goals (try (split at h <;> (try split at h) <;> cases h <;> first | exact hq | skip))
  all_goals sorry

end Gonuts.Model.Mint
