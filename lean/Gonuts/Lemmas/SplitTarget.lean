import Gonuts.Lemmas.Select
/-!
  `splitWalletTarget` returns sorted powers of two that sum to the amount to split (`Model.Select`).
  The only arithmetic that could wrap is `amountsSum+neededAmounts[0]`; it does not, because the needed
  amounts (at most three of each `2^i`, `i < 60`) sum to less than `3·2^60`.
-/
namespace Gonuts.Model.Select
open Gonuts.Model

theorem timesToAdd_le_three {count : Nat} (h : count < 2 ^ 63) : timesToAdd count ≤ 3 := by
  unfold timesToAdd
  simp only []
  have h0 : ¬ ((0 : UInt64) > 3 - UInt64.ofNat count) := by
    rw [gt_iff_lt, UInt64.lt_iff_toNat_lt]; simp
  rw [if_neg h0]
  split
  · rename_i hlt
    rw [UInt64.toNat_sub, UInt64.toNat_ofNat'] at hlt ⊢
    have : (3 : UInt64).toNat = 3 := rfl
    rw [this] at hlt ⊢
    omega
  · omega

theorem mem_allPossibleAmounts {x : UInt64} (hx : x ∈ allPossibleAmounts) : ∃ e, e < 60 ∧ x.toNat = 2 ^ e := by
  unfold allPossibleAmounts at hx
  obtain ⟨i, hi, rfl⟩ := List.mem_map.1 hx
  have hi' : i < 60 := List.mem_range.1 hi
  exact ⟨i, hi', toNat_ofNat_pow2 (by omega)⟩

theorem natSum_allPossibleAmounts : natSum allPossibleAmounts = 2 ^ 60 - 1 := by decide

theorem natSum_flatMap_replicate_le (t : UInt64 → Nat) (ht : ∀ a, t a ≤ 3) (l : List UInt64) :
    natSum (l.flatMap (fun a => List.replicate (t a) a)) ≤ 3 * natSum l := by
  induction l with
  | nil => simp
  | cons x xs ih =>
    rw [List.flatMap_cons, natSum_append, natSum_replicate, natSum_cons]
    have := ht x
    have : t x * x.toNat ≤ 3 * x.toNat := Nat.mul_le_mul_right _ this
    omega

theorem countEq_le_length (xs : List UInt64) (a : UInt64) : countEq xs a ≤ xs.length :=
  List.length_filter_le _ _

theorem neededAmounts_natSum_le {w : List UInt64} (hw : w.length < 2 ^ 63) :
    natSum (neededAmounts w) ≤ 3 * (2 ^ 60 - 1) := by
  unfold neededAmounts
  rw [natSum_sortU64, ← natSum_allPossibleAmounts]
  apply natSum_flatMap_replicate_le (fun a => timesToAdd (countEq w a))
  intro a
  exact timesToAdd_le_three (Nat.lt_of_le_of_lt (countEq_le_length w a) hw)

theorem mem_neededAmounts {w : List UInt64} {x : UInt64} (hx : x ∈ neededAmounts w) :
    ∃ e, e < 60 ∧ x.toNat = 2 ^ e := by
  unfold neededAmounts at hx
  have hx' := (sortU64_perm _).mem_iff.1 hx
  obtain ⟨a, ha, hxa⟩ := List.mem_flatMap.1 hx'
  have := (List.mem_replicate.1 hxa).2
  subst this
  exact mem_allPossibleAmounts ha

/-- The fill loop: the running sum is the true sum of what was taken, never exceeds the amount, and only
    needed amounts are taken — as long as `amountsSum + Σ needed` fits 64 bits (so no addition wraps). -/
theorem fillNeeded_spec (a : UInt64) (needed acc : List UInt64) (sum : UInt64)
    (hsum : sum.toNat = natSum acc) (hle : sum.toNat ≤ a.toNat) (hb : sum.toNat + natSum needed < 2 ^ 64) :
    (fillNeeded a needed acc sum).2.toNat = natSum (fillNeeded a needed acc sum).1 ∧
    (fillNeeded a needed acc sum).2.toNat ≤ a.toNat ∧
    ∀ x ∈ (fillNeeded a needed acc sum).1, x ∈ acc ∨ x ∈ needed := by
  induction needed generalizing acc sum with
  | nil => exact ⟨hsum, hle, fun x hx => Or.inl hx⟩
  | cons n rest ih =>
    rw [natSum_cons] at hb
    unfold fillNeeded
    split
    · split
      · exact ⟨hsum, hle, fun x hx => Or.inl hx⟩
      · rename_i hgt
        have hadd : (sum + n).toNat = sum.toNat + n.toNat := by
          rw [UInt64.toNat_add, Nat.mod_eq_of_lt (by omega)]
        rw [gt_iff_lt, UInt64.lt_iff_toNat_lt, hadd] at hgt
        have := ih (acc ++ [n]) (sum + n) (by rw [hadd, natSum_append, hsum]; simp) (by omega) (by omega)
        refine ⟨this.1, this.2.1, fun x hx => ?_⟩
        rcases this.2.2 x hx with h | h
        · rcases List.mem_append.1 h with h | h
          · exact Or.inl h
          · exact Or.inr (by simp at h; simp [h])
        · exact Or.inr (List.mem_cons_of_mem _ h)
    · exact ⟨hsum, hle, fun x hx => Or.inl hx⟩

theorem splitWalletTarget_spec (w : List UInt64) (a : UInt64) (hw : w.length < 2 ^ 63) :
    natSum (splitWalletTarget w a) = a.toNat ∧
    (∀ x ∈ splitWalletTarget w a, ∃ e, e < 64 ∧ x.toNat = 2 ^ e) ∧
    (splitWalletTarget w a).Pairwise (· ≤ ·) := by
  have hlen : (sortU64 w).length < 2 ^ 63 := by rw [(sortU64_perm w).length_eq]; exact hw
  have hneed := neededAmounts_natSum_le hlen
  have hspec := fillNeeded_spec a (neededAmounts (sortU64 w)) [] 0 rfl (by simp) (by simp; omega)
  unfold splitWalletTarget
  simp only []
  generalize fillNeeded a (neededAmounts (sortU64 w)) [] 0 = r at hspec
  obtain ⟨amounts, amountsSum⟩ := r
  simp only [] at hspec ⊢
  obtain ⟨h1, h2, h3⟩ := hspec
  have hrem : (a - amountsSum).toNat = a.toNat - amountsSum.toNat := by
    rw [UInt64.toNat_sub_of_le]; rw [UInt64.le_iff_toNat_le]; exact h2
  refine ⟨?_, ?_, sortU64_pairwise _⟩
  · rw [natSum_sortU64]
    split
    · rw [natSum_append, amountSplit_natSum, hrem, ← h1]; omega
    · rename_i hz
      have : ¬ (0 < (a - amountsSum).toNat) := fun h0 => hz (by rw [gt_iff_lt, UInt64.lt_iff_toNat_lt]; simpa using h0)
      rw [← h1]; omega
  · intro x hx
    have hx' := (sortU64_perm _).mem_iff.1 hx
    have hfrom : x ∈ amounts ∨ x ∈ amountSplit (a - amountsSum) := by
      split at hx'
      · exact List.mem_append.1 hx'
      · exact Or.inl hx'
    rcases hfrom with h | h
    · rcases h3 x h with h | h
      · simp at h
      · obtain ⟨e, he, hxe⟩ := mem_neededAmounts h
        exact ⟨e, by omega, hxe⟩
    · exact amountSplit_mem_pow2 _ x h

end Gonuts.Model.Select
