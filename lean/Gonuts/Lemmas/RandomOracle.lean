import Mathlib.SetTheory.Cardinal.Finite

/-!
# Counting functions with prescribed values ("uniformly random function" = random oracle, in counting form)

`Nat.card {h : X → β // P h}` counts the functions with property `P`. If `P` does not look at the value at `x'`,
then prescribing that value as well divides the count by `|β|`: under the uniform distribution on functions the event
`h x' = b'` has conditional probability exactly `1/|β|` given `P`. (For infinite `X → β` all counts are `0` and the
statements are void; `Nat.card_pos` gives positivity in the finite case.)
-/

namespace Gonuts.Algebra
open Function

/-- Fixing the value of a function at one more point divides the count by `|β|`. -/
theorem card_fix_one_more {X β : Type*} [DecidableEq X] (P : (X → β) → Prop) (x' : X) (b' : β)
    (hP : ∀ h c, P (update h x' c) ↔ P h) :
    Nat.card {h : X → β // P h ∧ b' = h x'} * Nat.card β = Nat.card {h : X → β // P h} := by
  rw [← Nat.card_prod]
  refine Nat.card_congr ⟨fun p => ⟨update p.1.1 x' p.2, (hP _ _).mpr p.1.2.1⟩,
    fun h => (⟨update h.1 x' b', (hP _ _).mpr h.2, by simp⟩, h.1 x'), ?_, ?_⟩
  · rintro ⟨⟨h, hp, hb⟩, c⟩
    simp only [update_idem, Prod.mk.injEq, Subtype.mk.injEq, update_self, and_true]
    rw [hb, update_eq_self]
  · rintro ⟨h, hp⟩
    simp only [update_idem, update_eq_self]

/-- A single prescribed value is taken by exactly a `1/|β|` fraction of all functions. -/
theorem card_fix_value {X β : Type*} [DecidableEq X] (x : X) (b : β) :
    Nat.card {h : X → β // b = h x} * Nat.card β = Nat.card (X → β) := by
  have h := card_fix_one_more (β := β) (fun _ => True) x b (fun _ _ => Iff.rfl)
  rw [Nat.card_congr (Equiv.subtypeUnivEquiv (fun _ => trivial)),
    Nat.card_congr (Equiv.subtypeEquivRight (p := fun f : X → β => True ∧ b = f x) (q := fun f => b = f x)
      (fun f => ⟨fun h => h.2, fun h => ⟨trivial, h⟩⟩))] at h
  exact h

end Gonuts.Algebra
