import Gonuts.Lemmas.WalletBooksRestore
import Gonuts.Lemmas.WalletBooksMint
/-!
  The `restore` program's batch loop follows the pure `scan` (C19 `restore_counter` for the program).
-/
namespace Gonuts.Model.WalletBooks

namespace MintView

theorem meltQuoteState_nil (m : MintView) (q : Nat) :
    (m.meltQuoteState q []).1 = m ∧ (m.meltQuoteState q []).2.2.1 = [] ∧ (m.meltQuoteState q []).2.2.2 = none := by
  unfold meltQuoteState
  split
  · exact ⟨rfl, rfl, rfl⟩
  · split
    · simp [statusOutcome]
    · exact ⟨rfl, rfl, rfl⟩

theorem checkStep_nil (m : MintView) (q : Nat) : checkStep (m, [], []) q = (m, [], []) := by
  unfold checkStep
  have h := meltQuoteState_nil m q
  simp only [h.1, h.2.1, h.2.2]

theorem checkState_nil (m : MintView) (ss : List SId) :
    m.checkState ss [] = (m, .ok (ss.map m.stateOf), [], []) := by
  unfold checkState
  have : ∀ (qs : List Nat), qs.foldl checkStep (m, [], []) = (m, [], []) := by
    intro qs
    induction qs with
    | nil => rfl
    | cons q rest ih => simp only [List.foldl_cons, checkStep_nil]; exact ih
  simp only [this]

end MintView

theorem World.setMint_self (w : World) (mi : Nat) : w.setMint mi (w.mint mi) = w := by
  unfold World.setMint World.mint
  have : w.mints.set mi (w.mints.getD mi default) = w.mints := by
    by_cases h : mi < w.mints.length
    · have : w.mints.getD mi default = w.mints[mi] := by simp [List.getD, h]
      rw [this]; exact List.set_getElem_self h
    · rw [List.set_eq_of_length_le (by omega)]
  rw [this]

def batchOuts (seed : Nat) (ks : KsId) (counter : Nat) : List SId :=
  (List.range 100).map (fun i => SId.det seed ks (counter + i))

/-- What one batch of Restore does (fault-free, no Lightning answers scripted). -/
def batchSpec (cx : Cx) (mi : Nat) (k : KsInfo) (fixed : Bool) (b : BatchSt) (w : World) :
    World × Except WErr (BatchSt × Bool) :=
  let sigs := (w.mint mi).restore (batchOuts cx.seed k.id b.counter)
  if sigs.isEmpty then (w, .ok ({ b with counter := b.counter + 100, empty := b.empty + 1 }, decide (b.empty + 1 < 3)))
  else
    let states := (sigs.map (·.out)).map (w.mint mi).stateOf
    let restored := b.restored ++ batchUnspent sigs states
    let pending := batchPending sigs states
    let w1 := w.updDb cx.wi (fun d => { d with proofs := putProofs d.proofs restored })
    let w2 := if pending.length > 0 then
        w1.updDb cx.wi (fun d => { d with pending := putPendings d.pending (pending.map (fun p => { p := p })) })
      else w1
    if (w2.wallet cx.wi).db.keysets.any (·.id == k.id) then
      (w2.updDb cx.wi (fun d => { d with keysets := incCounter d.keysets k.id (if fixed then b.counter + 100 - b.saved else b.counter + 100) }),
       .ok ({ counter := b.counter + 100, saved := b.counter + 100, empty := 0, restored := restored }, true))
    else (w2, .error "increment-counter")

theorem runPM_restoreBatch (cx : Cx) (mi : Nat) (k : KsInfo) (fixed : Bool) (b : BatchSt) (w : World)
    (hmi : mi < w.mints.length) (hs : w.script = []) :
    runPM cx.wi (restoreBatch cx mi k fixed b) w = batchSpec cx mi k fixed b w := by
  unfold restoreBatch batchSpec batchOuts
  rw [runPM_bind, runPM_forEachM_pure]
  · simp only
    rw [runPM_bind, runPM_cTry, exec_cRestore]
    simp only [hmi, if_true]
    generalize (w.mint mi).restore _ = sigs
    by_cases hE : sigs.isEmpty = true
    · simp only [hE, if_true]; rfl
    · simp only [hE, if_false, Bool.false_eq_true]
      rw [runPM_bind, runPM_cTry, exec_cCheckState]
      simp only [hmi, if_true, hs, MintView.checkState_nil, World.payInvoices, List.foldl_nil, World.setMint_self]
      have hw : ({ w with script := [] } : World) = w := by cases w; simp only at hs; subst hs; rfl
      rw [hw]
      generalize batchPending sigs _ = pending
      generalize b.restored ++ batchUnspent sigs _ = restored
      rw [runPM_bind, runPM_eff, exec_saveProofs]
      simp only
      rw [runPM_bind, runPM_whenM]
      by_cases hp : pending.length > 0
      · simp only [hp, decide_true, if_true]
        rw [runPM_eff, exec_addPending]
        simp only
        generalize (w.updDb cx.wi _).updDb cx.wi _ = w2
        rw [runPM_bind, runPM_eff, exec_incCounter]
        by_cases hk : ((w2.wallet cx.wi).db.keysets.any (·.id == k.id)) = true
        · simp only [hk, if_true]; rfl
        · simp only [hk, if_false, Bool.false_eq_true]; rfl
      · simp only [hp, decide_false, if_false, Bool.false_eq_true]
        generalize w.updDb cx.wi _ = w2
        rw [runPM_bind, runPM_eff, exec_incCounter]
        by_cases hk : ((w2.wallet cx.wi).db.keysets.any (·.id == k.id)) = true
        · simp only [hk, if_true]; rfl
        · simp only [hk, if_false, Bool.false_eq_true]; rfl
  · intro x w'
    show runPM cx.wi (pureSub "generateDeterministicSecret" () >>= fun _ => pure ()) w' = _
    rw [runPM_bind, runPM_pureSub]; rfl

end Gonuts.Model.WalletBooks
