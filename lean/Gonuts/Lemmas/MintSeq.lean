import Gonuts.Lemmas.MintOps
/-!
  From the fault-free projection (`runM`) back to the sequential machine (`applyOp`): bridging
  lemmas, the table well-formedness invariant of sequential histories, and reachable states.
-/
namespace Gonuts.Model.Mint

/-- The Lightning state an operation starts from: the session's, with the op's script and an empty call log. -/
def opLn (s : Sess) (script : List LnAns) : LN := { s.w.ln with script := script, calls := [] }

theorem Sess.runPM_bridge {α : Type} (s : Sess) (p : PM α) (script : List LnAns) (hf : NoFault s.w) :
    ∃ ln', runM p (s.w.db, opLn s script) = (((s.runPM p script).1.w.db, ln'), (s.runPM p script).2) ∧
      (s.runPM p script).1.w.mem = s.w.mem ∧ (s.runPM p script).1.w.cfg = s.w.cfg ∧
      NoFault (s.runPM p script).1.w ∧ (s.runPM p script).1.watchers = s.watchers ∧
      (s.runPM p script).1.w.nextMintQ = s.w.nextMintQ ∧ (s.runPM p script).1.w.nextMeltQ = s.w.nextMeltQ ∧
      (s.runPM p script).1.w.ln.invoices = ln'.invoices ∧ (s.runPM p script).1.w.ln.calls = ln'.calls := by
  have hw0 : NoFault { s.w with trace := [], ln := { s.w.ln with script := script, calls := [] } } := hf
  obtain ⟨h1, h2, h3, h4, h5, h6, h7⟩ := run_eq_runDL p.run _ hw0
  refine ⟨((p.run).run { s.w with trace := [], ln := { s.w.ln with script := script, calls := [] } }).1.ln, ?_, h3, h4, h7, rfl, h5, h6, rfl, rfl⟩
  exact Prod.ext h1.symm h2.symm

/-! ## Table well-formedness along sequential histories -/

/-- Well-formedness of the tables that sequential (non-overlapping, fault-free) histories maintain.
    `disjoint` is the one that interleavings can break (the swap‖melt window). -/
structure DbWf (db : DB) : Prop where
  spentNodup : (ysOf db.spent).Nodup
  pendingNodup : (ysOf db.pending).Nodup
  disjoint : ∀ r ∈ db.pending, r.y ∉ ysOf db.spent
  pendingLow : ∀ r ∈ db.pending, high r.amount = false
  sigsNodup : (db.sigs.map (·.b)).Nodup

theorem DbWf.pendingWf {db : DB} (h : DbWf db) : PendingWf db := ⟨h.pendingNodup, h.disjoint, h.pendingLow⟩

/-- Rows inserted into the pending table are never "high". -/
theorem pendingLow_db : DbInv (fun db => ∀ r ∈ db.pending, high r.amount = false) := by
  intro β e db db' r h hq
  db_cases h hq
  · rename_i rows q t hins
    obtain ⟨ht, _, _, hl⟩ := insertRows_some hins
    intro x hx
    rw [ht] at hx
    rcases List.mem_append.1 hx with hx | hx
    · exact hq x hx
    · exact hl x hx
  · intro x hx
    exact hq x (List.mem_filter.1 hx).1

/-! ## Quotes, balance, limits -/

/-- `TotalBalance` as a function of the tables. -/
def balanceOf (db : DB) : Except E UInt64 :=
  match groupSum (db.sigs.map (fun s => (s.ks, s.amount))) with
  | .error _ => .error (1, "db")
  | .ok issued =>
    match groupSum (db.spent.map (fun r => (ksIdx r.ks, r.amount))) with
    | .error _ => .error (1, "db")
    | .ok redeemed => .ok (amountWrap (issued.map (·.2)) - amountWrap (redeemed.map (·.2)))

theorem totalBalance_runM (s : DL) : runM totalBalance s = (s, balanceOf s.1) := by
  obtain ⟨db, ln⟩ := s
  simp only [totalBalance, balanceOf]
  prog_simp [runM_pure]
  cases groupSum (db.sigs.map (fun s => (s.ks, s.amount))) with
  | error e => rfl
  | ok i =>
    simp only []
    cases groupSum (db.spent.map (fun r => (ksIdx r.ks, r.amount))) <;> rfl

theorem runM_totalBalance_bind {β : Type} (f : UInt64 → PM β) (s : DL) :
    runM (totalBalance >>= f) s =
      match balanceOf s.1 with
      | .ok b => runM (f b) s
      | .error e => (s, .error e) := by
  rw [runM_bind, totalBalance_runM]
  cases balanceOf s.1 <;> rfl

/-- The `MaxBalance` check as a function of the tables. -/
def balCheck (cx : Cx) (amount : UInt64) (db : DB) : Except E Unit :=
  if cx.cfg.maxBalance > 0 then
    match balanceOf db with
    | .error e => .error e
    | .ok b => if b + amount > cx.cfg.maxBalance then .error eMintingDisabled else .ok ()
  else .ok ()

theorem checkMaxBalance_runM (cx : Cx) (amount : UInt64) (s : DL) :
    runM (checkMaxBalance cx amount) s = (s, balCheck cx amount s.1) := by
  simp only [checkMaxBalance, balCheck]
  split
  · rw [runM_totalBalance_bind]
    cases balanceOf s.1 with
    | error e => rfl
    | ok b => simp only [runM_failIf]; split <;> rfl
  · rfl

theorem runM_checkMaxBalance_bind {β : Type} (cx : Cx) (amount : UInt64) (f : Unit → PM β) (s : DL) :
    runM (checkMaxBalance cx amount >>= f) s =
      match balCheck cx amount s.1 with
      | .ok _ => runM (f ()) s
      | .error e => (s, .error e) := by
  rw [runM_bind, checkMaxBalance_runM]
  cases balCheck cx amount s.1 <;> rfl

/-- Facts about an accepted mint-quote request (C16: limits; C03: the quote starts UNPAID). -/
structure MintQuoteOk (cx : Cx) (qid : Nat) (amount : UInt64) (pk : PkReq) (s s' : DL) (q : MintQ) : Prop where
  quote : q = { id := qid, amount := amount, hash := q.hash, state := .unpaid,
                pubkey := match pk with | .key k => some k | _ => none }
  db : s'.1 = { s.1 with mintQ := s.1.mintQ ++ [q] }
  fresh : s.1.mintQ.any (·.id == qid) = false
  low : high amount = false
  maxMint : ¬ (cx.cfg.maxMint > 0 ∧ amount > cx.cfg.maxMint)
  maxBalance : balCheck cx amount s.1 = .ok ()
  invoice : (lnCreateInv s.2 amount).2 = some q.hash

theorem requestMintQuote_cases (cx : Cx) (qid : Nat) (amount : UInt64) (unitSat : Bool) (pk : PkReq)
    (s s' : DL) (r : Except E MintQ) (h : runM (requestMintQuote cx qid amount unitSat pk) s = (s', r)) :
    (∃ e, r = .error e ∧ s'.1 = s.1) ∨ (∃ q, r = .ok q ∧ MintQuoteOk cx qid amount pk s s' q) := by
  obtain ⟨db, ln⟩ := s
  simp only [requestMintQuote] at h
  prog_simp [runM_checkMaxBalance_bind] at h
  split at h; · left; cases h; exact ⟨_, rfl, rfl⟩
  split at h; · left; cases h; exact ⟨_, rfl, rfl⟩
  split at h; · left; cases h; exact ⟨_, rfl, rfl⟩
  rename_i _ _ hmax
  split at h
  rotate_left; · left; cases h; exact ⟨_, rfl, rfl⟩
  rename_i u hbal
  cases hc : (lnCreateInv ln amount).2 with
  | none => simp only [hc] at h; left; cases h; exact ⟨_, rfl, rfl⟩
  | some hh =>
    simp only [hc] at h
    prog_simp [runM_pure] at h
    split at h; · left; cases h; exact ⟨_, rfl, rfl⟩
    split at h; · left; cases h; exact ⟨_, rfl, rfl⟩
    rename_i hlow hfresh
    cases h
    right
    exact ⟨_, rfl, ⟨rfl, rfl, by simpa using hfresh, by simpa using hlow, by simpa using hmax, by cases u; exact hbal, hc⟩⟩


/-! ## Melt quote request, watcher, rotation -/

/-- The plan never quotes less than what will be paid: 1000·amount ≥ msat paid (F2), for msat below 2^63. -/
theorem ceilSat_covers (m : UInt64) (h : m.toNat < 2 ^ 63) : m.toNat ≤ (ceilSat m).toNat * 1000 := by
  unfold ceilSat
  have h999 : (999 : UInt64).toNat = 999 := by decide
  have h1000 : (1000 : UInt64).toNat = 1000 := by decide
  rw [UInt64.toNat_div, UInt64.toNat_add, h999, h1000]
  have : (m.toNat + 999) % 2 ^ 64 = m.toNat + 999 := Nat.mod_eq_of_lt (by omega)
  rw [this]
  omega

theorem meltQuotePlan_ok {cfg : Cfg} {msat : UInt64} {mpp : Option UInt64} {int : Bool} {p : Bool × UInt64 × UInt64}
    (h : meltQuotePlan cfg msat mpp int = .ok p) :
    (mpp = none ∧ p = (false, 0, ceilSat msat)) ∨
    (∃ m, mpp = some m ∧ cfg.mpp = true ∧ int = false ∧ m < msat ∧ p = (true, m, ceilSat m)) := by
  unfold meltQuotePlan at h
  cases mpp with
  | none => left; simp only [] at h; injection h with h; exact ⟨rfl, h.symm⟩
  | some m =>
    right
    simp only [] at h
    split at h
    · split at h; · cases h
      split at h; · cases h
      rename_i h1 h2 h3
      injection h with h
      exact ⟨m, rfl, h1, by simpa using h2, by simpa using h3, h.symm⟩
    · cases h

/-- Facts about an accepted melt-quote request (C16 limit; C02: the quoted amount covers the msat to be paid). -/
structure MeltQuoteOk (cx : Cx) (qid : Nat) (h : Nat) (msat : UInt64) (mpp : Option UInt64) (s s' : DL) (q : MeltQ) : Prop where
  db : s'.1 = { s.1 with meltQ := s.1.meltQ ++ [q] }
  ln : s'.2 = s.2
  id : q.id = qid ∧ q.inv = h ∧ q.hash = h ∧ q.state = .unpaid ∧ q.preimage = 0
  nonzero : msat ≠ 0
  plan : meltQuotePlan cx.cfg msat mpp (dbGetMintQByHash s.1 h).toBool = .ok (q.isMpp, q.amountMsat, q.amount)
  maxMelt : ¬ (cx.cfg.maxMelt > 0 ∧ q.amount > cx.cfg.maxMelt)
  reserve : q.feeReserve = reserveFor (dbGetMintQByHash s.1 h).toBool (lnFee s.2 q.amount)
  noOther : (dbGetMeltQByReq s.1 h).toBool = false

theorem requestMeltQuote_cases (cx : Cx) (qid : Nat) (inv : InvReq) (msatOf : Nat → UInt64) (unitSat : Bool) (mpp : Option UInt64)
    (s s' : DL) (r : Except E MeltQ) (hr : runM (requestMeltQuote cx qid inv msatOf unitSat mpp) s = (s', r)) :
    (∃ e, r = .error e ∧ s' = s) ∨
    (∃ h q, inv = .inv h ∧ r = .ok q ∧ MeltQuoteOk cx qid h (msatOf h) mpp s s' q) := by
  obtain ⟨db, ln⟩ := s
  simp only [requestMeltQuote] at hr
  prog_simp [runM_pure] at hr
  split at hr; · left; cases hr; exact ⟨_, rfl, rfl⟩
  cases inv with
  | bad => simp only [] at hr; left; cases hr; exact ⟨_, rfl, rfl⟩
  | inv h =>
    simp only [] at hr
    prog_simp [runM_pure] at hr
    split at hr; · left; cases hr; exact ⟨_, rfl, rfl⟩
    rename_i _ hnz
    split at hr
    rotate_left; · left; cases hr; exact ⟨_, rfl, rfl⟩
    rename_i plan hplan
    split at hr; · left; cases hr; exact ⟨_, rfl, rfl⟩
    split at hr; · left; cases hr; exact ⟨_, rfl, rfl⟩
    split at hr; · left; cases hr; exact ⟨_, rfl, rfl⟩
    split at hr; · left; cases hr; exact ⟨_, rfl, rfl⟩
    rename_i hmax hex _ _
    cases hr
    right
    exact ⟨h, _, rfl, rfl, ⟨rfl, rfl, ⟨rfl, rfl, rfl, rfl, rfl⟩, by simpa using hnz, by simpa using hplan, by simpa using hmax, rfl,
      by simpa using hex⟩⟩

/-- The invoice watcher after F11: it writes PAID only over UNPAID. -/
theorem watcher_cases (qid : Nat) (s s' : DL) (r : Except E Bool) (h : runM (watcherNotified qid) s = (s', r)) :
    s'.2 = s.2 ∧
    ((r = .ok false ∧ s' = s) ∨
     (∃ q, dbGetMintQ s.1 qid = .ok q ∧ q.state = .unpaid ∧ r = .ok true ∧
        s'.1 = { s.1 with mintQ := updMintQ s.1.mintQ qid .paid })) := by
  obtain ⟨db, ln⟩ := s
  simp only [watcherNotified] at h
  prog_simp [runM_pure] at h
  cases hq : dbGetMintQ db qid with
  | error e => simp only [hq] at h; cases h; exact ⟨rfl, Or.inl ⟨rfl, rfl⟩⟩
  | ok q =>
    simp only [hq] at h
    split at h
    · cases h; exact ⟨rfl, Or.inl ⟨rfl, rfl⟩⟩
    · rename_i hst
      prog_simp [runM_pure] at h
      have hany : db.mintQ.any (·.id == qid) = true := by
        unfold dbGetMintQ at hq
        split at hq
        · rename_i q' hf
          have hm := List.mem_of_find?_eq_some hf
          have hp := List.find?_some hf
          simp only [List.any_eq_true]
          refine ⟨q', hm, ?_⟩
          have : (qid : Int) = (q'.id : Int) := by simpa [intIs] using hp
          have := Int.ofNat.inj this
          simp [this]
        · cases hq
      simp only [hany, if_true] at h
      cases h
      refine ⟨rfl, Or.inr ⟨q, rfl, ?_, rfl, rfl⟩⟩
      cases hs : q.state <;> simp_all


/-! ## Balance query and keyset rotation -/

theorem runM_rawIssued_bind {β : Type} (f : List (Nat × UInt64) → PM β) (db : DB) (ln : LN) :
    runM (rawTry .getIssued >>= f) (db, ln) =
      match groupSum (db.sigs.map (fun s => (s.ks, s.amount))) with
      | .ok v => runM (f v) (db, ln)
      | .error _ => ((db, ln), .error (0, "raw")) := by
  rw [runM_bind]; simp only [rawTry]; rw [runM_eff_bind]; simp only [stepDL, execDb]
  cases groupSum (db.sigs.map (fun s => (s.ks, s.amount))) <;> rfl

theorem runM_rawRedeemed_bind {β : Type} (f : List (Nat × UInt64) → PM β) (db : DB) (ln : LN) :
    runM (rawTry .getRedeemed >>= f) (db, ln) =
      match groupSum (db.spent.map (fun r => (ksIdx r.ks, r.amount))) with
      | .ok v => runM (f v) (db, ln)
      | .error _ => ((db, ln), .error (0, "raw")) := by
  rw [runM_bind]; simp only [rawTry]; rw [runM_eff_bind]; simp only [stepDL, execDb]
  cases groupSum (db.spent.map (fun r => (ksIdx r.ks, r.amount))) <;> rfl

theorem runM_rawBalance_bind {β : Type} (f : UInt64 → PM β) (s : DL) :
    runM (rawBalance >>= f) s =
      match balanceOf s.1 with
      | .ok v => runM (f v) s
      | .error _ => (s, .error (0, "raw")) := by
  rw [runM_bind]; simp only [rawBalance]; rw [runM_liftrun_bind, totalBalance_runM]
  cases balanceOf s.1 <;> rfl

/-- The balance query only reads; what it reports is `groupSum` of the two tables and `balanceOf`. -/
theorem balanceOp_cases (cx : Cx) (s s' : DL) (r : Except E Balance) (h : runM (balanceOp cx) s = (s', r)) :
    s' = s ∧ (∀ b, r = .ok b →
      groupSum (s.1.sigs.map (fun x => (x.ks, x.amount))) = .ok b.issued ∧
      groupSum (s.1.spent.map (fun x => (ksIdx x.ks, x.amount))) = .ok b.redeemed ∧
      balanceOf s.1 = .ok b.total ∧
      b.disabled = (decide (cx.cfg.maxBalance > 0) && decide (b.total ≥ cx.cfg.maxBalance))) := by
  obtain ⟨db, ln⟩ := s
  simp only [balanceOp] at h
  prog_simp [runM_rawIssued_bind, runM_rawRedeemed_bind, runM_rawBalance_bind] at h
  cases hi : groupSum (db.sigs.map (fun s => (s.ks, s.amount))) with
  | error e => simp only [hi] at h; cases h; exact ⟨rfl, fun b hb => by cases hb⟩
  | ok i =>
    simp only [hi] at h
    cases hr : groupSum (db.spent.map (fun r => (ksIdx r.ks, r.amount))) with
    | error e => simp only [hr] at h; cases h; exact ⟨rfl, fun b hb => by cases hb⟩
    | ok rd =>
      simp only [hr] at h
      cases hb : balanceOf db with
      | error e => simp only [hb] at h; cases h; exact ⟨rfl, fun b hb => by cases hb⟩
      | ok t =>
        simp only [hb] at h
        cases h
        refine ⟨rfl, fun b hb' => ?_⟩
        injection hb' with hb'; subst hb'
        exact ⟨rfl, rfl, rfl, rfl⟩

/-- `RotateKeyset` touches only the keysets table: the old active row is deactivated, the new row appended. -/
theorem rotate_cases (mem : Mem) (fee : UInt64) (s : DL) :
    (runDL (rotateKeyset mem fee) s).1.2 = s.2 ∧
    (∃ ks, (runDL (rotateKeyset mem fee) s).1.1 = { s.1 with keysets := ks }) := by
  obtain ⟨db, ln⟩ := s
  simp only [rotateKeyset, Prog.call, bind, Prog.bind, runDL, stepDL, execDb, pure]
  by_cases h1 : (db.keysets.any fun x => x.idx == mem.active) = true
  · simp only [h1, if_true, Prog.bind, runDL, stepDL, execDb]
    by_cases h2 : (List.map (fun k => if (k.idx == mem.active) = true then ({ k with active := false } : KsRow) else k) db.keysets).any
        (fun x => x.idx == mem.active + 1) = true
    · simp only [h2, if_true, runDL]; exact ⟨trivial, _, rfl⟩
    · simp only [h2, runDL]; first | exact ⟨rfl, _, rfl⟩ | exact ⟨trivial, _, rfl⟩
  · simp only [h1, runDL]; first | exact ⟨rfl, _, rfl⟩ | exact ⟨trivial, _, rfl⟩


/-! ## `disjoint` (no secret both locked and spent) along sequential operations -/

def Disj (db : DB) : Prop := ∀ r ∈ db.pending, r.y ∉ ysOf db.spent

theorem Disj.frame {db db' : DB} (h : Disj db) (hs : db'.spent = db.spent) (hp : db'.pending = db.pending) : Disj db' := by
  intro r hr; rw [hs]; rw [hp] at hr; exact h r hr

theorem ysOf_append (a b : List PRow) : ysOf (a ++ b) = ysOf a ++ ysOf b := by simp [ysOf]

theorem ysOf_rows (ps : List Proof) : ysOf (ps.map Proof.row) = ps.map (·.secret) := by
  simp [ysOf, Proof.row, List.map_map, Function.comp_def]

theorem disj_swap (cx : Cx) (ps : List Proof) (outs : List BMsg) (v : Option E) (s s' : DL) (r : Except E (List BSig))
    (hd : Disj s.1) (h : runM (swap cx ps outs v) s = (s', r)) : Disj s'.1 := by
  rcases swap_cases cx ps outs v s s' r h with ⟨e, _, rfl⟩ | ⟨sigs, _, hok⟩
  · exact hd
  · rw [hok.db]
    intro x hx
    simp only [] at hx ⊢
    rw [ysOf_append, ysOf_rows, List.mem_append]
    rintro (hm | hm)
    · exact hd x hx hm
    · obtain ⟨p, hp, hpe⟩ := List.mem_map.1 hm
      obtain ⟨_, hfp, _⟩ := verifySpec_ok_fresh hok.verified
      apply hfp p hp
      simp only [ysOf, List.mem_map]
      exact ⟨x, hx, hpe.symm⟩

theorem mem_lockRows {q : MeltQ} {ps : List Proof} {x : PRow} (h : x ∈ lockRows q ps) : x.y ∈ ps.map (·.secret) := by
  simp only [lockRows, List.mem_map] at h
  obtain ⟨r, ⟨p, hp, rfl⟩, rfl⟩ := h
  exact List.mem_map.2 ⟨p, hp, rfl⟩

theorem disj_tail (db : DB) (q q' : MeltQ) (ps : List Proof) (pre : Nat) (st : LQState) (hd : Disj db)
    (hfs : ∀ p ∈ ps, p.secret ∉ ysOf db.spent) : Disj (tailDb (lockedDb db q ps) q' ps pre st) := by
  cases st
  · -- unpaid: locked rows removed again
    intro x hx
    simp only [tailDb, lockedDb, List.mem_filter, List.mem_append] at hx ⊢
    obtain ⟨hx | hx, hn⟩ := hx
    · exact hd x hx
    · exfalso
      have := mem_lockRows hx
      simp only [List.contains_eq_mem, this, decide_true, Bool.not_true] at hn
      exact Bool.false_ne_true hn
  · -- pending: the inputs are locked
    intro x hx
    simp only [tailDb, lockedDb, List.mem_append] at hx ⊢
    rcases hx with hx | hx
    · exact hd x hx
    · obtain ⟨p, hp, hpe⟩ := List.mem_map.1 (mem_lockRows hx)
      rw [← hpe]; exact hfs p hp
  · -- paid: locked rows moved to spent
    intro x hx
    simp only [tailDb, lockedDb, List.mem_filter, List.mem_append] at hx ⊢
    obtain ⟨hx | hx, hn⟩ := hx
    · rw [ysOf_append, ysOf_rows, List.mem_append]
      rintro (hm | hm)
      · exact hd x hx hm
      · simp only [List.contains_eq_mem, hm, decide_true, Bool.not_true] at hn
        exact Bool.false_ne_true hn
    · exfalso
      have := mem_lockRows hx
      simp only [List.contains_eq_mem, this, decide_true, Bool.not_true] at hn
      exact Bool.false_ne_true hn

theorem disj_melt (cx : Cx) (qid : Int) (ps : List Proof) (s s' : DL) (r : Except E MeltQ)
    (hd : Disj s.1) (h : runM (meltTokens cx qid ps) s = (s', r)) : Disj s'.1 := by
  rcases melt_cases cx qid ps s s' r h with ⟨e, _, rfl⟩ | ⟨q, hacc, hcase⟩
  · exact hd
  · obtain ⟨_, _, hfs, _⟩ := verifySpec_ok_fresh hacc.verified
    rcases hcase with ⟨_, _, hdb⟩ | ⟨mq, _, ⟨_, hdb⟩ | ⟨_, hdb⟩⟩
    · rw [hdb]; exact disj_tail _ _ _ _ _ _ hd hfs
    · rw [hdb]
      exact Disj.frame (disj_tail s.1 q { q with state := .pending } ps (mq.hash + 1) .paid hd hfs) rfl rfl
    · rw [hdb]; exact disj_tail _ _ _ _ _ _ hd hfs

theorem disj_poll (qid : Int) (s s' : DL) (r : Except E MeltQ) (hwf : PendingWf s.1)
    (h : runM (getMeltQuoteState qid) s = (s', r)) : Disj s'.1 := by
  have hd : Disj s.1 := hwf.disjoint
  rcases poll_cases qid s s' r hwf h with ⟨_, _, rfl⟩ | ⟨q, _, ⟨_, _, rfl⟩ | ⟨_, _, hdb⟩⟩
  · exact hd
  · exact hd
  · rw [hdb]
    cases pollOutcome (ans0 s.2)
    · intro x hx
      simp only [pollDb, List.mem_filter] at hx ⊢
      exact hd x hx.1
    · exact hd
    · intro x hx
      simp only [pollDb, List.mem_filter] at hx ⊢
      rw [ysOf_append, List.mem_append]
      rintro (hm | hm)
      · exact hd x hx.1 hm
      · have : x.y ∈ quoteYs s.1 q.id := by
          simp only [quoteRows, ysOf, List.map_map, List.mem_map, Function.comp] at hm
          obtain ⟨r0, hr0, hr0e⟩ := hm
          simp only [quoteYs, List.mem_map]
          exact ⟨r0, hr0, hr0e⟩
        have hn := hx.2
        simp only [List.contains_eq_mem, this, decide_true, Bool.not_true] at hn
        exact Bool.false_ne_true hn


end Gonuts.Model.Mint
