import Gonuts.Lemmas.MintOps
/-!
  From the fault-free projection (`runM`) back to the sequential machine (`applyOp`): bridging
  lemmas, the table well-formedness invariant of sequential histories, and reachable states.
-/
namespace Gonuts.Model.Mint

/-- The Lightning state an operation starts from: the session's, with the op's script and an empty call log. -/
def opLn (s : Sess) (script : List LnAns) : LN := { s.w.ln with script := script, calls := [] }

theorem Sess.runPM_bridge {α : Type} (s : Sess) (p : PM α) (script : List LnAns) (hf : NoFault s.w) :
    ∃ ln', runM p (s.w.db, opLn s script) = (((s.runPM p script).1.w.db, ln'), (s.runPM p script).2) ∧
      (s.runPM p script).1.w.mem = s.w.mem ∧ (s.runPM p script).1.w.cfg = s.w.cfg ∧
      NoFault (s.runPM p script).1.w ∧ (s.runPM p script).1.watchers = s.watchers ∧
      (s.runPM p script).1.w.nextMintQ = s.w.nextMintQ ∧ (s.runPM p script).1.w.nextMeltQ = s.w.nextMeltQ ∧
      (s.runPM p script).1.w.ln.invoices = ln'.invoices ∧ (s.runPM p script).1.w.ln.calls = ln'.calls := by
  have hw0 : NoFault { s.w with trace := [], ln := { s.w.ln with script := script, calls := [] } } := hf
  obtain ⟨h1, h2, h3, h4, h5, h6, h7⟩ := run_eq_runDL p.run _ hw0
  refine ⟨((p.run).run { s.w with trace := [], ln := { s.w.ln with script := script, calls := [] } }).1.ln, ?_, h3, h4, h7, rfl, h5, h6, rfl, rfl⟩
  exact Prod.ext h1.symm h2.symm

/-! ## Table well-formedness along sequential histories -/

/-- Well-formedness of the tables that sequential (non-overlapping, fault-free) histories maintain.
    `disjoint` is the one that interleavings can break (the swap‖melt window). -/
structure DbWf (db : DB) : Prop where
  spentNodup : (ysOf db.spent).Nodup
  pendingNodup : (ysOf db.pending).Nodup
  disjoint : ∀ r ∈ db.pending, r.y ∉ ysOf db.spent
  pendingLow : ∀ r ∈ db.pending, high r.amount = false
  sigsNodup : (db.sigs.map (·.b)).Nodup

theorem DbWf.pendingWf {db : DB} (h : DbWf db) : PendingWf db := ⟨h.pendingNodup, h.disjoint, h.pendingLow⟩

/-- Rows inserted into the pending table are never "high". -/
theorem pendingLow_db : DbInv (fun db => ∀ r ∈ db.pending, high r.amount = false) := by
  intro β e db db' r h hq
  db_cases h hq
  · rename_i rows q t hins
    obtain ⟨ht, _, _, hl⟩ := insertRows_some hins
    intro x hx
    rw [ht] at hx
    rcases List.mem_append.1 hx with hx | hx
    · exact hq x hx
    · exact hl x hx
  · intro x hx
    exact hq x (List.mem_filter.1 hx).1

/-! ## Quotes, balance, limits -/

/-- `TotalBalance` as a function of the tables. -/
def balanceOf (db : DB) : Except E UInt64 :=
  match groupSum (db.sigs.map (fun s => (s.ks, s.amount))) with
  | .error _ => .error (1, "db")
  | .ok issued =>
    match groupSum (db.spent.map (fun r => (ksIdx r.ks, r.amount))) with
    | .error _ => .error (1, "db")
    | .ok redeemed => .ok (amountWrap (issued.map (·.2)) - amountWrap (redeemed.map (·.2)))

theorem totalBalance_runM (s : DL) : runM totalBalance s = (s, balanceOf s.1) := by
  obtain ⟨db, ln⟩ := s
  simp only [totalBalance, balanceOf]
  prog_simp [runM_pure]
  cases groupSum (db.sigs.map (fun s => (s.ks, s.amount))) with
  | error e => rfl
  | ok i =>
    simp only []
    cases groupSum (db.spent.map (fun r => (ksIdx r.ks, r.amount))) <;> rfl

theorem runM_totalBalance_bind {β : Type} (f : UInt64 → PM β) (s : DL) :
    runM (totalBalance >>= f) s =
      match balanceOf s.1 with
      | .ok b => runM (f b) s
      | .error e => (s, .error e) := by
  rw [runM_bind, totalBalance_runM]
  cases balanceOf s.1 <;> rfl

/-- The `MaxBalance` check as a function of the tables. -/
def balCheck (cx : Cx) (amount : UInt64) (db : DB) : Except E Unit :=
  if cx.cfg.maxBalance > 0 then
    match balanceOf db with
    | .error e => .error e
    | .ok b => if b + amount > cx.cfg.maxBalance then .error eMintingDisabled else .ok ()
  else .ok ()

theorem checkMaxBalance_runM (cx : Cx) (amount : UInt64) (s : DL) :
    runM (checkMaxBalance cx amount) s = (s, balCheck cx amount s.1) := by
  simp only [checkMaxBalance, balCheck]
  split
  · rw [runM_totalBalance_bind]
    cases balanceOf s.1 with
    | error e => rfl
    | ok b => simp only [runM_failIf]; split <;> rfl
  · rfl

theorem runM_checkMaxBalance_bind {β : Type} (cx : Cx) (amount : UInt64) (f : Unit → PM β) (s : DL) :
    runM (checkMaxBalance cx amount >>= f) s =
      match balCheck cx amount s.1 with
      | .ok _ => runM (f ()) s
      | .error e => (s, .error e) := by
  rw [runM_bind, checkMaxBalance_runM]
  cases balCheck cx amount s.1 <;> rfl

/-- Facts about an accepted mint-quote request (C16: limits; C03: the quote starts UNPAID). -/
structure MintQuoteOk (cx : Cx) (qid : Nat) (amount : UInt64) (pk : PkReq) (s s' : DL) (q : MintQ) : Prop where
  quote : q = { id := qid, amount := amount, hash := q.hash, state := .unpaid,
                pubkey := match pk with | .key k => some k | _ => none }
  db : s'.1 = { s.1 with mintQ := s.1.mintQ ++ [q] }
  fresh : s.1.mintQ.any (·.id == qid) = false
  low : high amount = false
  maxMint : ¬ (cx.cfg.maxMint > 0 ∧ amount > cx.cfg.maxMint)
  maxBalance : balCheck cx amount s.1 = .ok ()
  invoice : (lnCreateInv s.2 amount).2 = some q.hash

theorem requestMintQuote_cases (cx : Cx) (qid : Nat) (amount : UInt64) (unitSat : Bool) (pk : PkReq)
    (s s' : DL) (r : Except E MintQ) (h : runM (requestMintQuote cx qid amount unitSat pk) s = (s', r)) :
    (∃ e, r = .error e ∧ s'.1 = s.1) ∨ (∃ q, r = .ok q ∧ MintQuoteOk cx qid amount pk s s' q) := by
  obtain ⟨db, ln⟩ := s
  simp only [requestMintQuote] at h
  prog_simp [runM_checkMaxBalance_bind] at h
  split at h; · left; cases h; exact ⟨_, rfl, rfl⟩
  split at h; · left; cases h; exact ⟨_, rfl, rfl⟩
  split at h; · left; cases h; exact ⟨_, rfl, rfl⟩
  rename_i _ _ hmax
  split at h
  rotate_left; · left; cases h; exact ⟨_, rfl, rfl⟩
  rename_i u hbal
  cases hc : (lnCreateInv ln amount).2 with
  | none => simp only [hc] at h; left; cases h; exact ⟨_, rfl, rfl⟩
  | some hh =>
    simp only [hc] at h
    prog_simp [runM_pure] at h
    split at h; · left; cases h; exact ⟨_, rfl, rfl⟩
    split at h; · left; cases h; exact ⟨_, rfl, rfl⟩
    rename_i hlow hfresh
    cases h
    right
    exact ⟨_, rfl, ⟨rfl, rfl, by simpa using hfresh, by simpa using hlow, by simpa using hmax, by cases u; exact hbal, hc⟩⟩


/-! ## Melt quote request, watcher, rotation -/

/-- The plan never quotes less than what will be paid: 1000·amount ≥ msat paid (F2), for msat below 2^63. -/
theorem ceilSat_covers (m : UInt64) (h : m.toNat < 2 ^ 63) : m.toNat ≤ (ceilSat m).toNat * 1000 := by
  unfold ceilSat
  have h999 : (999 : UInt64).toNat = 999 := by decide
  have h1000 : (1000 : UInt64).toNat = 1000 := by decide
  rw [UInt64.toNat_div, UInt64.toNat_add, h999, h1000]
  have : (m.toNat + 999) % 2 ^ 64 = m.toNat + 999 := Nat.mod_eq_of_lt (by omega)
  rw [this]
  omega

theorem meltQuotePlan_ok {cfg : Cfg} {msat : UInt64} {mpp : Option UInt64} {int : Bool} {p : Bool × UInt64 × UInt64}
    (h : meltQuotePlan cfg msat mpp int = .ok p) :
    (mpp = none ∧ p = (false, 0, ceilSat msat)) ∨
    (∃ m, mpp = some m ∧ cfg.mpp = true ∧ int = false ∧ m < msat ∧ p = (true, m, ceilSat m)) := by
  unfold meltQuotePlan at h
  cases mpp with
  | none => left; simp only [] at h; injection h with h; exact ⟨rfl, h.symm⟩
  | some m =>
    right
    simp only [] at h
    split at h
    · split at h; · cases h
      split at h; · cases h
      rename_i h1 h2 h3
      injection h with h
      exact ⟨m, rfl, h1, by simpa using h2, by simpa using h3, h.symm⟩
    · cases h

/-- Facts about an accepted melt-quote request (C16 limit; C02: the quoted amount covers the msat to be paid) for the
    invoice `i` with payment hash `h`. -/
structure MeltQuoteOk (cx : Cx) (qid : Nat) (i h : Nat) (msat : UInt64) (mpp : Option UInt64) (s s' : DL) (q : MeltQ) : Prop where
  db : s'.1 = { s.1 with meltQ := s.1.meltQ ++ [q] }
  ln : s'.2 = s.2
  id : q.id = qid ∧ q.inv = i ∧ q.hash = h ∧ q.state = .unpaid ∧ q.preimage = 0
  nonzero : msat ≠ 0
  /-- F17: a request that will be settled internally is the mint quote's own invoice -/
  own : (dbGetMintQByHash s.1 h).toBool = true → i = h
  plan : meltQuotePlan cx.cfg msat mpp (dbGetMintQByHash s.1 h).toBool = .ok (q.isMpp, q.amountMsat, q.amount)
  maxMelt : ¬ (cx.cfg.maxMelt > 0 ∧ q.amount > cx.cfg.maxMelt)
  reserve : q.feeReserve = reserveFor (dbGetMintQByHash s.1 h).toBool (lnFee s.2 q.amount)
  noOther : (dbGetMeltQByReq s.1 i).toBool = false

theorem meltQuoteFor_cases (cx : Cx) (qid : Nat) (i h : Nat) (msatOf : Nat → UInt64) (mpp : Option UInt64)
    (s s' : DL) (r : Except E MeltQ) (hr : runM (meltQuoteFor cx qid i h msatOf mpp) s = (s', r)) :
    (∃ e, r = .error e ∧ s' = s) ∨
    (∃ q, r = .ok q ∧ MeltQuoteOk cx qid i h (msatOf i) mpp s s' q) := by
  obtain ⟨db, ln⟩ := s
  simp only [meltQuoteFor] at hr
  prog_simp [runM_pure] at hr
  split at hr; · left; cases hr; exact ⟨_, rfl, rfl⟩
  rename_i hnz
  split at hr; · left; cases hr; exact ⟨_, rfl, rfl⟩
  rename_i hown
  split at hr
  rotate_left; · left; cases hr; exact ⟨_, rfl, rfl⟩
  rename_i plan hplan
  split at hr; · left; cases hr; exact ⟨_, rfl, rfl⟩
  split at hr; · left; cases hr; exact ⟨_, rfl, rfl⟩
  split at hr; · left; cases hr; exact ⟨_, rfl, rfl⟩
  split at hr; · left; cases hr; exact ⟨_, rfl, rfl⟩
  rename_i hmax hex _ _
  cases hr
  right
  refine ⟨_, rfl, ⟨rfl, rfl, ⟨rfl, rfl, rfl, rfl, rfl⟩, by simpa using hnz, ?_, by simpa using hplan, by simpa using hmax, rfl,
    by simpa using hex⟩⟩
  intro hm
  simp only [hm, Bool.true_and, bne_iff_ne, ne_eq, Decidable.not_not] at hown
  simpa using hown

theorem requestMeltQuote_cases (cx : Cx) (qid : Nat) (inv : InvReq) (msatOf : Nat → UInt64) (unitSat : Bool) (mpp : Option UInt64)
    (s s' : DL) (r : Except E MeltQ) (hr : runM (requestMeltQuote cx qid inv msatOf unitSat mpp) s = (s', r)) :
    (∃ e, r = .error e ∧ s' = s) ∨
    (∃ i h q, (inv = .inv h ∧ i = h ∨ inv = .forged i h) ∧ r = .ok q ∧ MeltQuoteOk cx qid i h (msatOf i) mpp s s' q) := by
  obtain ⟨db, ln⟩ := s
  simp only [requestMeltQuote] at hr
  prog_simp [runM_pure] at hr
  split at hr; · left; cases hr; exact ⟨_, rfl, rfl⟩
  cases inv with
  | bad => simp only [] at hr; left; cases hr; exact ⟨_, rfl, rfl⟩
  | inv h =>
    simp only [] at hr
    rcases meltQuoteFor_cases cx qid h h msatOf mpp (db, ln) s' r hr with h1 | ⟨q, h1, h2⟩
    · exact Or.inl h1
    · exact Or.inr ⟨h, h, q, Or.inl ⟨rfl, rfl⟩, h1, h2⟩
  | forged f h =>
    simp only [] at hr
    rcases meltQuoteFor_cases cx qid f h msatOf mpp (db, ln) s' r hr with h1 | ⟨q, h1, h2⟩
    · exact Or.inl h1
    · exact Or.inr ⟨f, h, q, Or.inr rfl, h1, h2⟩

/-- The invoice watcher after F11: it writes PAID only over UNPAID. -/
theorem watcher_cases (qid : Nat) (s s' : DL) (r : Except E Bool) (h : runM (watcherNotified qid) s = (s', r)) :
    s'.2 = s.2 ∧
    ((r = .ok false ∧ s' = s) ∨
     (∃ q, dbGetMintQ s.1 qid = .ok q ∧ q.state = .unpaid ∧ r = .ok true ∧
        s'.1 = { s.1 with mintQ := updMintQ s.1.mintQ qid .paid })) := by
  obtain ⟨db, ln⟩ := s
  simp only [watcherNotified] at h
  prog_simp [runM_pure] at h
  cases hq : dbGetMintQ db qid with
  | error e => simp only [hq] at h; cases h; exact ⟨rfl, Or.inl ⟨rfl, rfl⟩⟩
  | ok q =>
    simp only [hq] at h
    split at h
    · cases h; exact ⟨rfl, Or.inl ⟨rfl, rfl⟩⟩
    · rename_i hst
      prog_simp [runM_pure] at h
      have hany : db.mintQ.any (·.id == qid) = true := by
        unfold dbGetMintQ at hq
        split at hq
        · rename_i q' hf
          have hm := List.mem_of_find?_eq_some hf
          have hp := List.find?_some hf
          simp only [List.any_eq_true]
          refine ⟨q', hm, ?_⟩
          have : (qid : Int) = (q'.id : Int) := by simpa [intIs] using hp
          have := Int.ofNat.inj this
          simp [this]
        · cases hq
      simp only [hany, if_true] at h
      cases h
      refine ⟨rfl, Or.inr ⟨q, rfl, ?_, rfl, rfl⟩⟩
      cases hs : q.state <;> simp_all


/-! ## Balance query and keyset rotation -/

theorem runM_rawIssued_bind {β : Type} (f : List (Nat × UInt64) → PM β) (db : DB) (ln : LN) :
    runM (rawTry .getIssued >>= f) (db, ln) =
      match groupSum (db.sigs.map (fun s => (s.ks, s.amount))) with
      | .ok v => runM (f v) (db, ln)
      | .error _ => ((db, ln), .error (0, "raw")) := by
  rw [runM_bind]; simp only [rawTry]; rw [runM_eff_bind]; simp only [stepDL, execDb]
  cases groupSum (db.sigs.map (fun s => (s.ks, s.amount))) <;> rfl

theorem runM_rawRedeemed_bind {β : Type} (f : List (Nat × UInt64) → PM β) (db : DB) (ln : LN) :
    runM (rawTry .getRedeemed >>= f) (db, ln) =
      match groupSum (db.spent.map (fun r => (ksIdx r.ks, r.amount))) with
      | .ok v => runM (f v) (db, ln)
      | .error _ => ((db, ln), .error (0, "raw")) := by
  rw [runM_bind]; simp only [rawTry]; rw [runM_eff_bind]; simp only [stepDL, execDb]
  cases groupSum (db.spent.map (fun r => (ksIdx r.ks, r.amount))) <;> rfl

theorem runM_rawBalance_bind {β : Type} (f : UInt64 → PM β) (s : DL) :
    runM (rawBalance >>= f) s =
      match balanceOf s.1 with
      | .ok v => runM (f v) s
      | .error _ => (s, .error (0, "raw")) := by
  rw [runM_bind]; simp only [rawBalance]; rw [runM_liftrun_bind, totalBalance_runM]
  cases balanceOf s.1 <;> rfl

/-- The balance query only reads; what it reports is `groupSum` of the two tables and `balanceOf`. -/
theorem balanceOp_cases (cx : Cx) (s s' : DL) (r : Except E Balance) (h : runM (balanceOp cx) s = (s', r)) :
    s' = s ∧ (∀ b, r = .ok b →
      groupSum (s.1.sigs.map (fun x => (x.ks, x.amount))) = .ok b.issued ∧
      groupSum (s.1.spent.map (fun x => (ksIdx x.ks, x.amount))) = .ok b.redeemed ∧
      balanceOf s.1 = .ok b.total ∧
      b.disabled = (decide (cx.cfg.maxBalance > 0) && decide (b.total ≥ cx.cfg.maxBalance))) := by
  obtain ⟨db, ln⟩ := s
  simp only [balanceOp] at h
  prog_simp [runM_rawIssued_bind, runM_rawRedeemed_bind, runM_rawBalance_bind] at h
  cases hi : groupSum (db.sigs.map (fun s => (s.ks, s.amount))) with
  | error e => simp only [hi] at h; cases h; exact ⟨rfl, fun b hb => by cases hb⟩
  | ok i =>
    simp only [hi] at h
    cases hr : groupSum (db.spent.map (fun r => (ksIdx r.ks, r.amount))) with
    | error e => simp only [hr] at h; cases h; exact ⟨rfl, fun b hb => by cases hb⟩
    | ok rd =>
      simp only [hr] at h
      cases hb : balanceOf db with
      | error e => simp only [hb] at h; cases h; exact ⟨rfl, fun b hb => by cases hb⟩
      | ok t =>
        simp only [hb] at h
        cases h
        refine ⟨rfl, fun b hb' => ?_⟩
        injection hb' with hb'; subst hb'
        exact ⟨rfl, rfl, rfl, rfl⟩

/-- `RotateKeyset` touches only the keysets table: the old active row is deactivated, the new row appended. -/
theorem rotate_cases (mem : Mem) (fee : UInt64) (s : DL) :
    (runDL (rotateKeyset mem fee) s).1.2 = s.2 ∧
    (∃ ks, (runDL (rotateKeyset mem fee) s).1.1 = { s.1 with keysets := ks }) := by
  obtain ⟨db, ln⟩ := s
  simp only [rotateKeyset, Prog.call, bind, Prog.bind, runDL, stepDL, execDb, pure]
  by_cases h1 : (db.keysets.any fun x => x.idx == mem.active) = true
  · simp only [h1, if_true, Prog.bind, runDL, stepDL, execDb]
    by_cases h2 : (List.map (fun k => if (k.idx == mem.active) = true then ({ k with active := false } : KsRow) else k) db.keysets).any
        (fun x => x.idx == mem.active + 1) = true
    · simp only [h2, if_true, runDL]; exact ⟨trivial, _, rfl⟩
    · simp only [h2, runDL]; first | exact ⟨rfl, _, rfl⟩ | exact ⟨trivial, _, rfl⟩
  · simp only [h1, runDL]; first | exact ⟨rfl, _, rfl⟩ | exact ⟨trivial, _, rfl⟩


/-! ## `disjoint` (no secret both locked and spent) along sequential operations -/

def Disj (db : DB) : Prop := ∀ r ∈ db.pending, r.y ∉ ysOf db.spent

theorem Disj.frame {db db' : DB} (h : Disj db) (hs : db'.spent = db.spent) (hp : db'.pending = db.pending) : Disj db' := by
  intro r hr; rw [hs]; rw [hp] at hr; exact h r hr

theorem ysOf_append (a b : List PRow) : ysOf (a ++ b) = ysOf a ++ ysOf b := by simp [ysOf]

theorem ysOf_rows (ps : List Proof) : ysOf (ps.map Proof.row) = ps.map (·.secret) := by
  simp [ysOf, Proof.row, List.map_map, Function.comp_def]

theorem disj_swap (cx : Cx) (ps : List Proof) (outs : List BMsg) (v : Option E) (s s' : DL) (r : Except E (List BSig))
    (hd : Disj s.1) (h : runM (swap cx ps outs v) s = (s', r)) : Disj s'.1 := by
  rcases swap_cases cx ps outs v s s' r h with ⟨e, _, rfl⟩ | ⟨sigs, _, hok⟩
  · exact hd
  · rw [hok.db]
    intro x hx
    simp only [] at hx ⊢
    rw [ysOf_append, ysOf_rows, List.mem_append]
    rintro (hm | hm)
    · exact hd x hx hm
    · obtain ⟨p, hp, hpe⟩ := List.mem_map.1 hm
      obtain ⟨_, hfp, _⟩ := verifySpec_ok_fresh hok.verified
      apply hfp p hp
      simp only [ysOf, List.mem_map]
      exact ⟨x, hx, hpe.symm⟩

theorem mem_lockRows {q : MeltQ} {ps : List Proof} {x : PRow} (h : x ∈ lockRows q ps) : x.y ∈ ps.map (·.secret) := by
  simp only [lockRows, List.mem_map] at h
  obtain ⟨r, ⟨p, hp, rfl⟩, rfl⟩ := h
  exact List.mem_map.2 ⟨p, hp, rfl⟩

theorem disj_tail (db : DB) (q q' : MeltQ) (ps : List Proof) (pre : Nat) (st : LQState) (hd : Disj db)
    (hfs : ∀ p ∈ ps, p.secret ∉ ysOf db.spent) : Disj (tailDb (lockedDb db q ps) q' ps pre st) := by
  cases st
  · -- unpaid: locked rows removed again
    intro x hx
    simp only [tailDb, lockedDb, List.mem_filter, List.mem_append] at hx ⊢
    obtain ⟨hx | hx, hn⟩ := hx
    · exact hd x hx
    · exfalso
      have := mem_lockRows hx
      simp only [List.contains_eq_mem, this, decide_true, Bool.not_true] at hn
      exact Bool.false_ne_true hn
  · -- pending: the inputs are locked
    intro x hx
    simp only [tailDb, lockedDb, List.mem_append] at hx ⊢
    rcases hx with hx | hx
    · exact hd x hx
    · obtain ⟨p, hp, hpe⟩ := List.mem_map.1 (mem_lockRows hx)
      rw [← hpe]; exact hfs p hp
  · -- paid: locked rows moved to spent
    intro x hx
    simp only [tailDb, lockedDb, List.mem_filter, List.mem_append] at hx ⊢
    obtain ⟨hx | hx, hn⟩ := hx
    · rw [ysOf_append, ysOf_rows, List.mem_append]
      rintro (hm | hm)
      · exact hd x hx hm
      · simp only [List.contains_eq_mem, hm, decide_true, Bool.not_true] at hn
        exact Bool.false_ne_true hn
    · exfalso
      have := mem_lockRows hx
      simp only [List.contains_eq_mem, this, decide_true, Bool.not_true] at hn
      exact Bool.false_ne_true hn

theorem disj_melt (cx : Cx) (qid : Int) (ps : List Proof) (s s' : DL) (r : Except E MeltQ)
    (hd : Disj s.1) (h : runM (meltTokens cx qid ps) s = (s', r)) : Disj s'.1 := by
  rcases melt_cases cx qid ps s s' r h with ⟨e, _, rfl⟩ | ⟨q, hacc, hcase⟩
  · exact hd
  · obtain ⟨_, _, hfs, _⟩ := verifySpec_ok_fresh hacc.verified
    rcases hcase with ⟨_, _, hdb⟩ | ⟨mq, _, ⟨_, hdb⟩ | ⟨_, hdb⟩⟩
    · rw [hdb]; exact disj_tail _ _ _ _ _ _ hd hfs
    · rw [hdb]
      exact Disj.frame (disj_tail s.1 q { q with state := .pending } ps (mq.hash + 1) .paid hd hfs) rfl rfl
    · rw [hdb]; exact disj_tail _ _ _ _ _ _ hd hfs

theorem disj_poll (qid : Int) (s s' : DL) (r : Except E MeltQ) (hwf : PendingWf s.1)
    (h : runM (getMeltQuoteState qid) s = (s', r)) : Disj s'.1 := by
  have hd : Disj s.1 := hwf.disjoint
  rcases poll_cases qid s s' r hwf h with ⟨_, _, rfl⟩ | ⟨q, _, ⟨_, _, rfl⟩ | ⟨_, _, hdb⟩⟩
  · exact hd
  · exact hd
  · rw [hdb]
    cases pollOutcome (ans0 s.2)
    · intro x hx
      simp only [pollDb, List.mem_filter] at hx ⊢
      exact hd x hx.1
    · exact hd
    · intro x hx
      simp only [pollDb, List.mem_filter] at hx ⊢
      rw [ysOf_append, List.mem_append]
      rintro (hm | hm)
      · exact hd x hx.1 hm
      · have : x.y ∈ quoteYs s.1 q.id := by
          simp only [quoteRows, ysOf, List.map_map, List.mem_map, Function.comp] at hm
          obtain ⟨r0, hr0, hr0e⟩ := hm
          simp only [quoteYs, List.mem_map]
          exact ⟨r0, hr0, hr0e⟩
        have hn := hx.2
        simp only [List.contains_eq_mem, this, decide_true, Bool.not_true] at hn
        exact Bool.false_ne_true hn


/-! ## Well-formedness is preserved by every sequential fault-free operation -/

theorem DbInv.stepDL {Q : DB → Prop} (h : DbInv Q) {β : Type} (s : DL) (e : Eff β) (hs : Q s.1) : Q (stepDL s e).1.1 := by
  unfold Mint.stepDL
  cases hd : execDb s.1 e with
  | some p => obtain ⟨db', r⟩ := p; exact h e _ _ r hd hs
  | none =>
    simp only []
    cases execLn s.2 e with
    | some p => exact hs
    | none => exact hs

theorem DbInv.runDL {Q : DB → Prop} (h : DbInv Q) {α : Type} (p : Prog α) (s : DL) (hs : Q s.1) : Q (runDL p s).1.1 := by
  induction p generalizing s with
  | ret a => exact hs
  | eff e k ih => exact ih _ _ (h.stepDL s e hs)

theorem DbInv.runM {Q : DB → Prop} (h : DbInv Q) {α : Type} (p : PM α) (s : DL) (hs : Q s.1) : Q (runM p s).1.1 :=
  h.runDL p.run s hs

/-- Everything except `disjoint` is maintained by every effect, hence by every program. -/
theorem DbWf.of_run {α : Type} (p : PM α) (s : DL) (hw : DbWf s.1) (hd : Disj (runM p s).1.1) : DbWf (runM p s).1.1 :=
  ⟨spent_nodup_db.runM p s hw.spentNodup, pending_nodup_db.runM p s hw.pendingNodup, hd,
   pendingLow_db.runM p s hw.pendingLow, sigs_nodup_db.runM p s hw.sigsNodup⟩

theorem wf_poll (qid : Int) (s : DL) (hw : DbWf s.1) : DbWf (runM (getMeltQuoteState qid) s).1.1 :=
  DbWf.of_run _ s hw (disj_poll qid s _ _ hw.pendingWf rfl)

theorem wf_pollAll (qs : List Nat) (s : DL) (hw : DbWf s.1) : DbWf (runM (pollAll qs) s).1.1 := by
  induction qs generalizing s with
  | nil => exact hw
  | cons q rest ih =>
    simp only [pollAll]
    rw [runM_bind]
    have h1 := wf_poll q s hw
    generalize runM (getMeltQuoteState (q : Int)) s = x at h1
    obtain ⟨s1, r1⟩ := x
    cases r1 with
    | error e => exact h1
    | ok v => exact ih s1 h1

theorem wf_checkstate (ys : List YRef) (s : DL) (hw : DbWf s.1) : DbWf (runM (proofsStateCheck ys) s).1.1 := by
  rw [checkstate_runM]
  have h1 := wf_pollAll (dedupNat ((s.1.pending.filter (fun r => yMatch ys r.y)).map (·.quote))).reverse s hw
  generalize runM (pollAll _) s = x at h1
  obtain ⟨s1, r1⟩ := x
  cases r1 <;> exact h1

theorem wf_swap (cx : Cx) (ps : List Proof) (outs : List BMsg) (v : Option E) (s : DL) (hw : DbWf s.1) :
    DbWf (runM (swap cx ps outs v) s).1.1 :=
  DbWf.of_run _ s hw (disj_swap cx ps outs v s _ _ hw.disjoint rfl)

theorem wf_melt (cx : Cx) (qid : Int) (ps : List Proof) (s : DL) (hw : DbWf s.1) :
    DbWf (runM (meltTokens cx qid ps) s).1.1 :=
  DbWf.of_run _ s hw (disj_melt cx qid ps s _ _ hw.disjoint rfl)

/-- Operations that write neither `proofs` nor `pending_proofs`. -/
theorem wf_frame {α : Type} (p : PM α) (s : DL) (hw : DbWf s.1)
    (hf : ∀ s' r, runM p s = (s', r) → s'.1.spent = s.1.spent ∧ s'.1.pending = s.1.pending) : DbWf (runM p s).1.1 := by
  have := hf (runM p s).1 (runM p s).2 rfl
  exact DbWf.of_run _ s hw (Disj.frame hw.disjoint this.1 this.2)

theorem gmqs_frame (qid : Int) (s : DL) :
    (gmqsSpec qid s).1.1.spent = s.1.spent ∧ (gmqsSpec qid s).1.1.pending = s.1.pending ∧ (gmqsSpec qid s).1.1.sigs = s.1.sigs := by
  unfold gmqsSpec
  repeat' split
  all_goals exact ⟨rfl, rfl, rfl⟩

theorem wf_quoteState (qid : Int) (s : DL) (hw : DbWf s.1) : DbWf (runM (getMintQuoteState qid) s).1.1 := by
  apply wf_frame _ s hw
  intro s' r h
  rw [getMintQuoteState_runM] at h
  have := gmqs_frame qid s
  rw [h] at this
  exact ⟨this.1, this.2.1⟩

theorem mintTokens_frame (cx : Cx) (qid : Int) (outs : List BMsg) (sig : QSig) (s s' : DL) (r : Except E (List BSig))
    (h : runM (mintTokens cx qid outs sig) s = (s', r)) : s'.1.spent = s.1.spent ∧ s'.1.pending = s.1.pending := by
  have hc := mintTokens_cases cx qid outs sig s s' r h
  obtain ⟨g1, g2, _⟩ := gmqs_frame qid s
  rcases hc with ⟨e, _, _, hs⟩ | ⟨q, _, ⟨_, _, hs⟩ | ⟨_, _, hs⟩ | ⟨_, _, hs⟩ | ⟨_, ⟨e, _, _, hs | hs⟩ | ⟨sigs, _, hok⟩⟩⟩
  · rw [hs]; exact ⟨g1, g2⟩
  · rw [hs]; exact ⟨g1, g2⟩
  · rw [hs]; exact ⟨g1, g2⟩
  · rw [hs]; exact ⟨g1, g2⟩
  · rw [hs]; exact ⟨g1, g2⟩
  · rw [hs]; exact ⟨g1, g2⟩
  · rw [hok.db]; exact ⟨g1, g2⟩

theorem wf_mint (cx : Cx) (qid : Int) (outs : List BMsg) (sig : QSig) (s : DL) (hw : DbWf s.1) :
    DbWf (runM (mintTokens cx qid outs sig) s).1.1 :=
  wf_frame _ s hw (fun s' r h => mintTokens_frame cx qid outs sig s s' r h)

theorem wf_mintQuote (cx : Cx) (qid : Nat) (amount : UInt64) (u : Bool) (pk : PkReq) (s : DL) (hw : DbWf s.1) :
    DbWf (runM (requestMintQuote cx qid amount u pk) s).1.1 := by
  apply wf_frame _ s hw
  intro s' r h
  rcases requestMintQuote_cases cx qid amount u pk s s' r h with ⟨e, _, hs⟩ | ⟨q, _, hok⟩
  · rw [hs]; exact ⟨rfl, rfl⟩
  · rw [hok.db]; exact ⟨rfl, rfl⟩

theorem wf_meltQuote (cx : Cx) (qid : Nat) (inv : InvReq) (m : Nat → UInt64) (u : Bool) (mpp : Option UInt64) (s : DL)
    (hw : DbWf s.1) : DbWf (runM (requestMeltQuote cx qid inv m u mpp) s).1.1 := by
  apply wf_frame _ s hw
  intro s' r h
  rcases requestMeltQuote_cases cx qid inv m u mpp s s' r h with ⟨e, _, hs⟩ | ⟨ii, hh, q, _, _, hok⟩
  · rw [hs]; exact ⟨rfl, rfl⟩
  · rw [hok.db]; exact ⟨rfl, rfl⟩

theorem wf_watcher (qid : Nat) (s : DL) (hw : DbWf s.1) : DbWf (runM (watcherNotified qid) s).1.1 := by
  apply wf_frame _ s hw
  intro s' r h
  rcases (watcher_cases qid s s' r h).2 with ⟨_, hs⟩ | ⟨q, _, _, _, hs⟩
  · rw [hs]; exact ⟨rfl, rfl⟩
  · rw [hs]; exact ⟨rfl, rfl⟩

theorem wf_restore (bs : List Nat) (s : DL) (hw : DbWf s.1) : DbWf (runM (restoreSigs bs) s).1.1 := by
  rw [restore_runM]; exact hw

theorem wf_balance (cx : Cx) (s : DL) (hw : DbWf s.1) : DbWf (runM (balanceOp cx) s).1.1 := by
  apply wf_frame _ s hw
  intro s' r h
  rw [(balanceOp_cases cx s s' r h).1]; exact ⟨rfl, rfl⟩


/-! ## The sequential machine keeps the tables well-formed -/

theorem Sess.runPM_wf {α : Type} (s : Sess) (p : PM α) (script : List LnAns) (hf : NoFault s.w)
    (hp : ∀ d : DL, d.1 = s.w.db → DbWf (runM p d).1.1) : DbWf (s.runPM p script).1.w.db ∧ NoFault (s.runPM p script).1.w := by
  obtain ⟨ln', hrun, _, _, hnf, _⟩ := Sess.runPM_bridge s p script hf
  have := hp (s.w.db, opLn s script) rfl
  rw [hrun] at this
  exact ⟨this, hnf⟩

def Op.arms : Op → Bool
  | .armFault _ => true
  | _ => false

theorem applyOp_wf (s : Sess) (op : Op) (ha : op.arms = false) (hf : NoFault s.w) (hw : DbWf s.w.db) :
    DbWf (applyOp s op).1.w.db ∧ NoFault (applyOp s op).1.w := by
  cases op <;> simp only [applyOp]
  case extInvoice => exact ⟨hw, hf⟩
  case settle => exact ⟨hw, hf⟩
  case mintQuote amount unitSat pk lnFail =>
    have := Sess.runPM_wf { s with w := { s.w with ln := { s.w.ln with failCreateInvoice := if lnFail then 1 else 0 } } }
      (requestMintQuote (cxOf s) s.w.nextMintQ amount unitSat pk) [] hf
      (fun d hd => wf_mintQuote _ _ _ _ _ d (hd ▸ hw))
    split <;> exact this
  case notify q =>
    split
    · exact Sess.runPM_wf s (watcherNotified q) [] hf (fun d hd => wf_watcher _ d (hd ▸ hw))
    · exact ⟨hw, hf⟩
  case quoteState q lnFail =>
    exact Sess.runPM_wf { s with w := { s.w with ln := { s.w.ln with failInvoiceStatus := if lnFail then 1 else 0 } } }
      (getMintQuoteState q) [] hf (fun d hd => wf_quoteState _ d (hd ▸ hw))
  case mint q outs sig => exact Sess.runPM_wf s _ [] hf (fun d hd => wf_mint _ _ _ _ d (hd ▸ hw))
  case swap ps outs v => exact Sess.runPM_wf s _ [] hf (fun d hd => wf_swap _ _ _ _ d (hd ▸ hw))
  case meltQuote inv unitSat mpp =>
    have := Sess.runPM_wf s (requestMeltQuote (cxOf s) s.w.nextMeltQ inv (invMsat s.w.ln) unitSat mpp) [] hf
      (fun d hd => wf_meltQuote _ _ _ _ _ _ d (hd ▸ hw))
    split <;> exact this
  case melt q ps script lnFail =>
    exact Sess.runPM_wf { s with w := { s.w with ln := { s.w.ln with failInvoiceStatus := if lnFail then 1 else 0 } } }
      (meltTokens (cxOf s) q ps) script hf (fun d hd => wf_melt _ _ _ d (hd ▸ hw))
  case meltState q script => exact Sess.runPM_wf s _ script hf (fun d hd => wf_poll _ d (hd ▸ hw))
  case checkState ys script => exact Sess.runPM_wf s _ script hf (fun d hd => wf_checkstate _ d (hd ▸ hw))
  case restore bs => exact Sess.runPM_wf s _ [] hf (fun d hd => wf_restore _ d (hd ▸ hw))
  case balance => exact Sess.runPM_wf s _ [] hf (fun d hd => wf_balance _ d (hd ▸ hw))
  case rotate fee =>
    have hw0 : NoFault { s.w with trace := [], ln := { s.w.ln with calls := [] } } := hf
    obtain ⟨h1, _, _, _, _, _, h7⟩ := run_eq_runDL (rotateKeyset s.w.mem fee) _ hw0
    obtain ⟨_, ks, hks⟩ := rotate_cases s.w.mem fee (s.w.db, { s.w.ln with calls := [] })
    refine ⟨?_, h7⟩
    have hdb : ((rotateKeyset s.w.mem fee).run { s.w with trace := [], ln := { s.w.ln with calls := [] } }).1.db
        = { s.w.db with keysets := ks } := by
      have := congrArg Prod.fst h1
      simp only [] at this
      rw [this]; exact hks
    show DbWf ((rotateKeyset s.w.mem fee).run _).1.db
    rw [hdb]
    exact ⟨hw.spentNodup, hw.pendingNodup, hw.disjoint, hw.pendingLow, hw.sigsNodup⟩
  case restart rotate fee =>
    split
    · have hw0 : NoFault { s.w with mem := memOfDb s.w.db, trace := [], ln := { s.w.ln with calls := [] } } := hf
      obtain ⟨h1, _, _, _, _, _, h7⟩ := run_eq_runDL (rotateKeyset (memOfDb s.w.db) fee) _ hw0
      obtain ⟨_, ks, hks⟩ := rotate_cases (memOfDb s.w.db) fee (s.w.db, { s.w.ln with calls := [] })
      refine ⟨?_, h7⟩
      have hdb : ((rotateKeyset (memOfDb s.w.db) fee).run
          { s.w with mem := memOfDb s.w.db, trace := [], ln := { s.w.ln with calls := [] } }).1.db
          = { s.w.db with keysets := ks } := by
        have := congrArg Prod.fst h1
        simp only [] at this
        rw [this]; exact hks
      show DbWf ((rotateKeyset (memOfDb s.w.db) fee).run _).1.db
      rw [hdb]
      exact ⟨hw.spentNodup, hw.pendingNodup, hw.disjoint, hw.pendingLow, hw.sigsNodup⟩
    · exact ⟨hw, hf⟩
  case armFault => simp [Op.arms] at ha
  case disarm => exact ⟨hw, rfl⟩

/-- States reachable by sequential histories that never arm a storage fault. -/
def Reach (s : Sess) : Prop :=
  ∃ (fee : UInt64) (feePct : Bool) (cfg : Cfg) (ops : List Op), (∀ op ∈ ops, op.arms = false) ∧
    s = runOps (initSess fee feePct cfg) ops

theorem runOps_wf (s : Sess) (ops : List Op) (ha : ∀ op ∈ ops, op.arms = false) (hf : NoFault s.w) (hw : DbWf s.w.db) :
    DbWf (runOps s ops).w.db ∧ NoFault (runOps s ops).w := by
  induction ops generalizing s with
  | nil => exact ⟨hw, hf⟩
  | cons op rest ih =>
    obtain ⟨h1, h2⟩ := applyOp_wf s op (ha op (List.mem_cons_self ..)) hf hw
    exact ih _ (fun o ho => ha o (List.mem_cons_of_mem _ ho)) h2 h1

theorem Reach.wf {s : Sess} (h : Reach s) : DbWf s.w.db ∧ NoFault s.w := by
  obtain ⟨fee, feePct, cfg, ops, ha, rfl⟩ := h
  apply runOps_wf _ _ ha (show NoFault (initSess fee feePct cfg).w from rfl)
  exact ⟨by simp [initSess, ysOf], by simp [initSess, ysOf], by intro r hr; simp [initSess] at hr,
         by intro r hr; simp [initSess] at hr, by simp [initSess]⟩

theorem Reach.step {s : Sess} (h : Reach s) (op : Op) (ha : op.arms = false) : Reach (applyOp s op).1 := by
  obtain ⟨fee, feePct, cfg, ops, hops, rfl⟩ := h
  refine ⟨fee, feePct, cfg, ops ++ [op], ?_, ?_⟩
  · intro o ho
    rcases List.mem_append.1 ho with ho | ho
    · exact hops o ho
    · simp at ho; subst ho; exact ha
  · have : ∀ (s0 : Sess) (l : List Op), runOps s0 (l ++ [op]) = (applyOp (runOps s0 l) op).1 := by
      intro s0 l
      induction l generalizing s0 with
      | nil => rfl
      | cons o rest ih => exact ih _
    exact (this _ _).symm


/-! ## Lightning calls made by a melt (C02: the fee limit is the fee reserve) -/

def isPay (c : LnCall) : Bool := c.kind == "SendPayment" || c.kind == "PayPartialAmount"

/-- Payment attempts recorded in a Lightning state. -/
def payCalls (ln : LN) : List LnCall := ln.calls.filter isPay

theorem isPay_send (h : Int) (m f : UInt64) (a : String) : isPay ⟨"SendPayment", h, m, f, a⟩ = true := by simp [isPay]
theorem isPay_partial (h : Int) (m f : UInt64) (a : String) : isPay ⟨"PayPartialAmount", h, m, f, a⟩ = true := by simp [isPay]
theorem isPay_status (h : Int) (m f : UInt64) (a : String) : isPay ⟨"OutgoingPaymentStatus", h, m, f, a⟩ = false := by simp [isPay]

theorem payCalls_lnPop (ln : LN) (c : LnAns → LnCall) : payCalls (lnPop ln c) = payCalls ln ++ (if isPay (c (popScript ln).2) then [c (popScript ln).2] else []) := by
  obtain ⟨inv, script, f1, f2, fp, calls⟩ := ln
  cases script <;> simp [payCalls, lnPop, record, popScript, List.filter_append, List.filter_cons] <;> rfl

theorem payCalls_invStatus (ln : LN) (h : Nat) : payCalls (lnInvStatus ln h).1 = payCalls ln := by
  unfold lnInvStatus
  simp only [execLn]
  repeat' split
  all_goals simp [payCalls, record, List.filter_append, isPay, Option.getD]

theorem meltAfterPay_pay (q : MeltQ) (ps : List Proof) (a0 : LnAns) (s : DL) :
    payCalls (runM (meltAfterPay q ps a0) s).1.2 = payCalls s.2 := by
  obtain ⟨db, ln⟩ := s
  have hst : payCalls (lnPop ln fun a => ⟨"OutgoingPaymentStatus", q.hash, 0, 0, a.str⟩) = payCalls ln := by
    rw [payCalls_lnPop, isPay_status]; simp
  cases a0 <;> simp only [meltAfterPay]
  case succ =>
    prog_simp [runM_settleProofs_bind]
    repeat' split
    all_goals rfl
  case pending => rfl
  all_goals
    prog_simp [runM_pure]
    cases (popScript ln).2
    all_goals
      simp only []
      first
        | exact hst
        | (prog_simp [runM_settleProofs_bind]
           repeat' split
           all_goals exact hst)

theorem meltInternal_pay (q : MeltQ) (ps : List Proof) (mq : MintQ) (s : DL) :
    payCalls (runM (meltInternal q ps mq) s).1.2 = payCalls s.2 := by
  obtain ⟨db, ln⟩ := s
  simp only [meltInternal]
  prog_simp [runM_pure]
  cases (lnInvStatus ln mq.hash).2 with
  | none =>
    simp only []
    prog_simp [runM_pure]
    repeat' split
    all_goals exact payCalls_invStatus ln mq.hash
  | some b =>
    simp only []
    prog_simp [runM_pure]
    repeat' split
    all_goals exact payCalls_invStatus ln mq.hash

/-- The payment attempt of a melt: at most one, for the quote's invoice, with the quote's msat amount, and with the
    quote's FEE RESERVE as the fee limit (F1). -/
theorem melt_payCalls (cx : Cx) (qid : Int) (ps : List Proof) (s s' : DL) (r : Except E MeltQ)
    (h : runM (meltTokens cx qid ps) s = (s', r)) :
    payCalls s'.2 = payCalls s.2 ∨
    ∃ q c, dbGetMeltQ s.1 qid = .ok q ∧ payCalls s'.2 = payCalls s.2 ++ [c] ∧ c.maxFee = q.feeReserve ∧
      c.hash = (q.inv : Int) ∧
      c.msat = (if q.isMpp then (if q.amountMsat == 0 then invMsat s.2 q.inv else q.amountMsat) else invMsat s.2 q.inv) := by
  obtain ⟨db, ln⟩ := s
  prog_simp [meltTokens] at h
  cases hq : dbGetMeltQ db qid with
  | error e => simp only [hq] at h; left; cases h; rfl
  | ok q =>
    simp only [hq] at h
    prog_simp [runM_verifyProofs_bind] at h
    split at h; · left; cases h; rfl
    split at h; · left; cases h; rfl
    split at h
    rotate_left; · left; cases h; rfl
    split at h; · left; cases h; rfl
    split at h; · left; cases h; rfl
    split at h
    rotate_left; · left; cases h; rfl
    split at h
    rotate_left; · left; cases h; rfl
    cases hmq : dbGetMintQByHash db q.hash with
    | ok mq =>
      left
      simp only [dbGetMintQByHash_upd, hmq] at h
      have key : ∀ (S : DL), runM (meltInternal { q with state := .pending } ps mq) S = (s', r) → payCalls s'.2 = payCalls S.2 :=
        fun S hS => by have := meltInternal_pay { q with state := .pending } ps mq S; rw [hS] at this; exact this
      have h2 := key _ h
      exact h2
    | error e =>
      right
      simp only [dbGetMintQByHash_upd, hmq] at h
      split at h
      · rename_i hmpp
        prog_simp [runM_pure] at h
        have key : ∀ (S : DL), runM (meltAfterPay { q with state := .pending } ps (popScript ln).2) S = (s', r) →
            payCalls s'.2 = payCalls S.2 :=
          fun S hS => by have := meltAfterPay_pay { q with state := .pending } ps (popScript ln).2 S; rw [hS] at this; exact this
        have := key _ h
        refine ⟨q, ⟨"PayPartialAmount", q.inv, if q.amountMsat == 0 then invMsat ln q.inv else q.amountMsat, q.feeReserve, (popScript ln).2.str⟩,
          rfl, ?_, rfl, rfl, ?_⟩
        · rw [this, payCalls_lnPop, isPay_partial]; rfl
        · simp [hmpp]
      · rename_i hmpp
        prog_simp [runM_pure] at h
        have key : ∀ (S : DL), runM (meltAfterPay { q with state := .pending } ps (popScript ln).2) S = (s', r) →
            payCalls s'.2 = payCalls S.2 :=
          fun S hS => by have := meltAfterPay_pay { q with state := .pending } ps (popScript ln).2 S; rw [hS] at this; exact this
        have := key _ h
        refine ⟨q, ⟨"SendPayment", q.inv, invMsat ln q.inv, q.feeReserve, (popScript ln).2.str⟩, rfl, ?_, rfl, rfl, ?_⟩
        · rw [this, payCalls_lnPop, isPay_send]; rfl
        · simp [hmpp]


end Gonuts.Model.Mint
