import Gonuts.Lemmas.MintOps
/-!
  From the fault-free projection (`runM`) back to the sequential machine (`applyOp`): bridging
  lemmas, the table well-formedness invariant of sequential histories, and reachable states.
-/
namespace Gonuts.Model.Mint

/-- The Lightning state an operation starts from: the session's, with the op's script and an empty call log. -/
def opLn (s : Sess) (script : List LnAns) : LN := { s.w.ln with script := script, calls := [] }

theorem Sess.runPM_bridge {α : Type} (s : Sess) (p : PM α) (script : List LnAns) (hf : NoFault s.w) :
    ∃ ln', runM p (s.w.db, opLn s script) = (((s.runPM p script).1.w.db, ln'), (s.runPM p script).2) ∧
      (s.runPM p script).1.w.mem = s.w.mem ∧ (s.runPM p script).1.w.cfg = s.w.cfg ∧
      NoFault (s.runPM p script).1.w ∧ (s.runPM p script).1.watchers = s.watchers ∧
      (s.runPM p script).1.w.nextMintQ = s.w.nextMintQ ∧ (s.runPM p script).1.w.nextMeltQ = s.w.nextMeltQ ∧
      (s.runPM p script).1.w.ln.invoices = ln'.invoices ∧ (s.runPM p script).1.w.ln.calls = ln'.calls := by
  have hw0 : NoFault { s.w with trace := [], ln := { s.w.ln with script := script, calls := [] } } := hf
  obtain ⟨h1, h2, h3, h4, h5, h6, h7⟩ := run_eq_runDL p.run _ hw0
  refine ⟨((p.run).run { s.w with trace := [], ln := { s.w.ln with script := script, calls := [] } }).1.ln, ?_, h3, h4, h7, rfl, h5, h6, rfl, rfl⟩
  exact Prod.ext h1.symm h2.symm

/-! ## Table well-formedness along sequential histories -/

/-- Well-formedness of the tables that sequential (non-overlapping, fault-free) histories maintain.
    `disjoint` is the one that interleavings can break (the swap‖melt window). -/
structure DbWf (db : DB) : Prop where
  spentNodup : (ysOf db.spent).Nodup
  pendingNodup : (ysOf db.pending).Nodup
  disjoint : ∀ r ∈ db.pending, r.y ∉ ysOf db.spent
  pendingLow : ∀ r ∈ db.pending, high r.amount = false
  sigsNodup : (db.sigs.map (·.b)).Nodup

theorem DbWf.pendingWf {db : DB} (h : DbWf db) : PendingWf db := ⟨h.pendingNodup, h.disjoint, h.pendingLow⟩

/-- Rows inserted into the pending table are never "high". -/
theorem pendingLow_db : DbInv (fun db => ∀ r ∈ db.pending, high r.amount = false) := by
  intro β e db db' r h hq
  db_cases h hq
  · rename_i rows q t hins
    obtain ⟨ht, _, _, hl⟩ := insertRows_some hins
    intro x hx
    rw [ht] at hx
    rcases List.mem_append.1 hx with hx | hx
    · exact hq x hx
    · exact hl x hx
  · intro x hx
    exact hq x (List.mem_filter.1 hx).1

/-! ## Quotes, balance, limits -/

/-- `TotalBalance` as a function of the tables. -/
def balanceOf (db : DB) : Except E UInt64 :=
  match groupSum (db.sigs.map (fun s => (s.ks, s.amount))) with
  | .error _ => .error (1, "db")
  | .ok issued =>
    match groupSum (db.spent.map (fun r => (ksIdx r.ks, r.amount))) with
    | .error _ => .error (1, "db")
    | .ok redeemed => .ok (amountWrap (issued.map (·.2)) - amountWrap (redeemed.map (·.2)))

theorem totalBalance_runM (s : DL) : runM totalBalance s = (s, balanceOf s.1) := by
  obtain ⟨db, ln⟩ := s
  simp only [totalBalance, balanceOf]
  prog_simp [runM_pure]
  cases groupSum (db.sigs.map (fun s => (s.ks, s.amount))) with
  | error e => rfl
  | ok i =>
    simp only []
    cases groupSum (db.spent.map (fun r => (ksIdx r.ks, r.amount))) <;> rfl

theorem runM_totalBalance_bind {β : Type} (f : UInt64 → PM β) (s : DL) :
    runM (totalBalance >>= f) s =
      match balanceOf s.1 with
      | .ok b => runM (f b) s
      | .error e => (s, .error e) := by
  rw [runM_bind, totalBalance_runM]
  cases balanceOf s.1 <;> rfl

/-- The `MaxBalance` check as a function of the tables. -/
def balCheck (cx : Cx) (amount : UInt64) (db : DB) : Except E Unit :=
  if cx.cfg.maxBalance > 0 then
    match balanceOf db with
    | .error e => .error e
    | .ok b => if b + amount > cx.cfg.maxBalance then .error eMintingDisabled else .ok ()
  else .ok ()

theorem checkMaxBalance_runM (cx : Cx) (amount : UInt64) (s : DL) :
    runM (checkMaxBalance cx amount) s = (s, balCheck cx amount s.1) := by
  simp only [checkMaxBalance, balCheck]
  split
  · rw [runM_totalBalance_bind]
    cases balanceOf s.1 with
    | error e => rfl
    | ok b => simp only [runM_failIf]; split <;> rfl
  · rfl

theorem runM_checkMaxBalance_bind {β : Type} (cx : Cx) (amount : UInt64) (f : Unit → PM β) (s : DL) :
    runM (checkMaxBalance cx amount >>= f) s =
      match balCheck cx amount s.1 with
      | .ok _ => runM (f ()) s
      | .error e => (s, .error e) := by
  rw [runM_bind, checkMaxBalance_runM]
  cases balCheck cx amount s.1 <;> rfl

/-- Facts about an accepted mint-quote request (C16: limits; C03: the quote starts UNPAID). -/
structure MintQuoteOk (cx : Cx) (qid : Nat) (amount : UInt64) (pk : PkReq) (s s' : DL) (q : MintQ) : Prop where
  quote : q = { id := qid, amount := amount, hash := q.hash, state := .unpaid,
                pubkey := match pk with | .key k => some k | _ => none }
  db : s'.1 = { s.1 with mintQ := s.1.mintQ ++ [q] }
  fresh : s.1.mintQ.any (·.id == qid) = false
  low : high amount = false
  maxMint : ¬ (cx.cfg.maxMint > 0 ∧ amount > cx.cfg.maxMint)
  maxBalance : balCheck cx amount s.1 = .ok ()
  invoice : (lnCreateInv s.2 amount).2 = some q.hash

theorem requestMintQuote_cases (cx : Cx) (qid : Nat) (amount : UInt64) (unitSat : Bool) (pk : PkReq)
    (s s' : DL) (r : Except E MintQ) (h : runM (requestMintQuote cx qid amount unitSat pk) s = (s', r)) :
    (∃ e, r = .error e ∧ s'.1 = s.1) ∨ (∃ q, r = .ok q ∧ MintQuoteOk cx qid amount pk s s' q) := by
  obtain ⟨db, ln⟩ := s
  simp only [requestMintQuote] at h
  prog_simp [runM_checkMaxBalance_bind] at h
  split at h; · left; cases h; exact ⟨_, rfl, rfl⟩
  split at h; · left; cases h; exact ⟨_, rfl, rfl⟩
  split at h; · left; cases h; exact ⟨_, rfl, rfl⟩
  rename_i _ _ hmax
  split at h
  rotate_left; · left; cases h; exact ⟨_, rfl, rfl⟩
  rename_i u hbal
  cases hc : (lnCreateInv ln amount).2 with
  | none => simp only [hc] at h; left; cases h; exact ⟨_, rfl, rfl⟩
  | some hh =>
    simp only [hc] at h
    prog_simp [runM_pure] at h
    split at h; · left; cases h; exact ⟨_, rfl, rfl⟩
    split at h; · left; cases h; exact ⟨_, rfl, rfl⟩
    rename_i hlow hfresh
    cases h
    right
    exact ⟨_, rfl, ⟨rfl, rfl, by simpa using hfresh, by simpa using hlow, by simpa using hmax, by cases u; exact hbal, hc⟩⟩


end Gonuts.Model.Mint
