import Gonuts.Lemmas.MintCrash
/-!
  WHEN `MeltTokens` asks the backend to pay (`melt_pays_only_when_locked`): for every request, every world, with or without
  an armed storage fault, at the moment the program is about to call `SendPayment` / `PayPartialAmount` the tables are
  EXACTLY the ones it started with plus the inputs in the pending table under the quote and the quote's state PENDING —
  nothing else has been written — and on no path does the program ask for a payment a second time.

  Instance of `Lemmas/WriteShape.lean` with the payment calls as events the automaton looks at.
-/
namespace Gonuts.Model.Mint

def isPayEff : {β : Type} → Eff β → Bool
  | _, .lnSendPayment _ _ => true
  | _, .lnPayPartial _ _ _ => true
  | _, _ => false

inductive PSt where
  | init
  | locked (id : Nat)
  | pend (id : Nat)
  | tail

def payStep (rows : List PRow) : PSt → {β : Type} → Eff β → β → Option PSt
  | .init, _, .addPending rs q, r =>
    if rs = rows then (match r with | .ok _ => some (.locked q) | .error _ => some .init) else none
  | .locked id0, _, .updateMeltQuote id pre st, r =>
    if id = id0 ∧ pre = 0 ∧ st = .pending then (match r with | .ok _ => some (.pend id0) | .error _ => some (.locked id0)) else none
  | .pend _, _, _, _ => some .tail
  | .tail, _, e, _ => if isPayEff e then none else some .tail
  | _, _, _, _ => none

def payAuto (rows : List PRow) : WAuto :=
  ⟨PSt, fun e => e.readOnly && !isPayEff e, fun _ h => by simp only [Bool.and_eq_true] at h; exact h.1, payStep rows⟩

def pendRows (rows : List PRow) (id : Nat) : List PRow := rows.map (fun r => { r with quote := id })

def payRel (db0 : DB) (rows : List PRow) : PSt → DB → Prop
  | .init, db => db = db0
  | .locked id, db => ∃ t, insertRows db0.pending (pendRows rows id) = some t ∧ db = { db0 with pending := t }
  | .pend id, db => ∃ t, insertRows db0.pending (pendRows rows id) = some t ∧
      db = { db0 with pending := t, meltQ := updMeltQ db0.meltQ id 0 .pending }
  | .tail, _ => True

theorem exec_addPending_cases (w : World) (rows : List PRow) (q : Nat) :
    ((exec w (.addPending rows q)).2 = .ok () ∧
        ∃ t, insertRows w.db.pending (pendRows rows q) = some t ∧ (exec w (.addPending rows q)).1.db = { w.db with pending := t }) ∨
    ((∃ e, (exec w (.addPending rows q)).2 = .error e) ∧ (exec w (.addPending rows q)).1.db = w.db) := by
  unfold exec
  simp only [Eff.label]
  by_cases hf : (w.faultAt == some w.nDb) = true
  · right; simp [hf, Eff.faultValue]
  · simp only [hf, execDb]
    cases hi : insertRows w.db.pending (rows.map (fun r => { r with quote := q })) with
    | some t => left; exact ⟨rfl, t, hi, rfl⟩
    | none => right; simp

theorem exec_updMeltQ_cases (w : World) (id pre : Nat) (s : LQState) :
    ((exec w (.updateMeltQuote id pre s)).2 = .ok () ∧
        (exec w (.updateMeltQuote id pre s)).1.db = { w.db with meltQ := updMeltQ w.db.meltQ id pre s }) ∨
    ((∃ e, (exec w (.updateMeltQuote id pre s)).2 = .error e) ∧ (exec w (.updateMeltQuote id pre s)).1.db = w.db) := by
  unfold exec
  simp only [Eff.label]
  by_cases hf : (w.faultAt == some w.nDb) = true
  · right; simp [hf, Eff.faultValue]
  · simp only [hf, execDb]
    by_cases ha : (w.db.meltQ.any (·.id == id)) = true
    · left; simp [ha]
    · right; simp [ha]

theorem pay_sound (db0 : DB) (rows : List PRow) : Sound (payAuto rows) (payRel db0 rows) := by
  intro a a' β e w hst hr
  cases a with
  | init =>
    cases e <;> simp only [payAuto, payStep] at hst <;> try cases hst
    rename_i rs q
    by_cases hrs : rs = rows
    · subst hrs
      simp only [if_true] at hst
      rcases exec_addPending_cases w rs q with ⟨hok, t, hins, hdb⟩ | ⟨⟨er, herr⟩, hdb⟩
      · rw [hok] at hst; cases hst
        simp only [payRel] at hr ⊢
        exact ⟨t, by rw [hr] at hins; exact hins, by rw [hdb, hr]⟩
      · rw [herr] at hst; cases hst
        simp only [payRel] at hr ⊢; rw [hdb, hr]
    · simp [hrs] at hst
  | locked id0 =>
    cases e <;> simp only [payAuto, payStep] at hst <;> try cases hst
    rename_i id pre st
    by_cases hc : id = id0 ∧ pre = 0 ∧ st = .pending
    · obtain ⟨rfl, rfl, rfl⟩ := hc
      simp only [and_self, if_true] at hst
      obtain ⟨t, hins, hdb0⟩ := hr
      rcases exec_updMeltQ_cases w id 0 .pending with ⟨hok, hdb⟩ | ⟨⟨er, herr⟩, hdb⟩
      · rw [hok] at hst; cases hst
        exact ⟨t, hins, by rw [hdb, hdb0]⟩
      · rw [herr] at hst; cases hst
        exact ⟨t, hins, by rw [hdb, hdb0]⟩
    · simp [hc] at hst
  | pend id => simp only [payAuto, payStep] at hst; cases hst; trivial
  | tail =>
    simp only [payAuto, payStep] at hst
    split at hst
    · cases hst
    · cases hst; trivial

/-! ## programs that never ask for a payment -/

def NoPay {α : Type} : Prog α → Prop
  | .ret _ => True
  | .eff e k => isPayEff e = false ∧ ∀ r, NoPay (k r)

theorem NoPay.bind {α β : Type} (p : Prog α) (f : α → Prog β) (hp : NoPay p) (hf : ∀ a, NoPay (f a)) : NoPay (p >>= f) := by
  show NoPay (Prog.bind p f)
  induction p with
  | ret a => exact hf a
  | eff e k ih => exact ⟨hp.1, fun r => ih r (hp.2 r)⟩

theorem NoPay.pmBind {α β : Type} (x : PM α) (f : α → PM β) (hx : NoPay x.run) (hf : ∀ a, NoPay (f a).run) :
    NoPay (x >>= f).run := by
  show NoPay (x.run >>= ExceptT.bindCont f)
  apply NoPay.bind _ _ hx
  intro r
  cases r with
  | ok a => exact hf a
  | error e => trivial

theorem noPay_pure {α : Type} (v : α) : NoPay (pure v : PM α).run := trivial
theorem noPay_throw {α : Type} (e : E) : NoPay (throw e : PM α).run := trivial
theorem noPay_eff {β : Type} (e : Eff β) (h : isPayEff e = false) : NoPay (eff e : PM β).run := ⟨h, fun _ => trivial⟩
theorem noPay_dbTry {β : Type} (e : Eff (DbRes β)) (h : isPayEff e = false) : NoPay (dbTry e).run := by
  unfold dbTry
  refine NoPay.pmBind _ _ (noPay_eff e h) (fun r => ?_)
  cases r <;> trivial

/-- from the tail state a program that never pays conforms -/
theorem conf_tail_of_noPay (rows : List PRow) {α : Type} (p : Prog α) (h : NoPay p) :
    Conf (payAuto rows) (fun _ _ => True) .tail p := by
  induction p with
  | ret x => trivial
  | eff e k ih =>
    refine Or.inr fun r => ⟨.tail, ?_, ih r (h.2 r)⟩
    simp [payAuto, payStep, h.1]

/-- … and so it does from the PENDING state (its first write moves to the tail) -/
theorem conf_pend_of_noPay (rows : List PRow) (id : Nat) {α : Type} (p : Prog α) (h : NoPay p) :
    Conf (payAuto rows) (fun _ _ => True) (.pend id) p := by
  induction p with
  | ret x => trivial
  | eff e k ih =>
    exact Or.inr fun r => ⟨.tail, rfl, conf_tail_of_noPay rows _ (h.2 r)⟩

/-! ## the shape of `MeltTokens` -/

theorem noPay_settleProofs (ps : List Proof) : NoPay (settleProofs ps).run := by
  unfold settleProofs
  exact NoPay.pmBind _ _ (noPay_dbTry _ rfl) (fun _ => noPay_dbTry _ rfl)

theorem noPay_meltInternal (q : MeltQ) (ps : List Proof) (mq : MintQ) : NoPay (meltInternal q ps mq).run := by
  unfold meltInternal
  refine NoPay.pmBind _ _ (noPay_eff _ rfl) (fun r => ?_)
  cases r with
  | none =>
    refine NoPay.pmBind _ _ (noPay_eff _ rfl) (fun _ => ?_)
    exact NoPay.pmBind _ _ (noPay_eff _ rfl) (fun _ => noPay_throw _)
  | some _ =>
    refine NoPay.pmBind _ _ (noPay_dbTry _ rfl) (fun _ => ?_)
    refine NoPay.pmBind _ _ (noPay_dbTry _ rfl) (fun _ => ?_)
    refine NoPay.pmBind _ _ (noPay_dbTry _ rfl) (fun _ => ?_)
    exact NoPay.pmBind _ _ (noPay_dbTry _ rfl) (fun _ => noPay_pure _)

theorem noPay_unpaidTail (q : MeltQ) (ps : List Proof) :
    NoPay (dbTry (.updateMeltQuote q.id 0 .unpaid) >>= fun _ =>
      (dbTry (.removePending (ps.map (·.secret))) >>= fun _ => (pure { q with state := .unpaid } : PM MeltQ))).run :=
  NoPay.pmBind _ _ (noPay_dbTry _ rfl) (fun _ => NoPay.pmBind _ _ (noPay_dbTry _ rfl) (fun _ => noPay_pure _))

theorem noPay_paidTail (q : MeltQ) (ps : List Proof) :
    NoPay (settleProofs ps >>= fun _ =>
      (dbTry (.updateMeltQuote q.id (q.hash + 1) .paid) >>= fun _ =>
        (pure { q with state := .paid, preimage := q.hash + 1 } : PM MeltQ))).run :=
  NoPay.pmBind _ _ (noPay_settleProofs ps) (fun _ => NoPay.pmBind _ _ (noPay_dbTry _ rfl) (fun _ => noPay_pure _))

theorem noPay_meltAfterPay (q : MeltQ) (ps : List Proof) (a : LnAns) : NoPay (meltAfterPay q ps a).run := by
  unfold meltAfterPay
  cases a
  case succ => exact noPay_paidTail q ps
  case pending => exact noPay_pure _
  all_goals
    refine NoPay.pmBind _ _ (noPay_eff _ rfl) (fun st => ?_)
    cases st
    case succ => exact noPay_paidTail q ps
    case failed => exact noPay_unpaidTail q ps
    case notfound => exact noPay_unpaidTail q ps
    case notfoundGrpc => exact noPay_unpaidTail q ps
    all_goals exact noPay_pure _

/-- reads (and everything else the automaton does not look at) keep the abstract state -/
theorem conf_read (rows : List PRow) {α : Type} (x : PM α) (h : NoWrites x.run) (hp : NoPay x.run) (a : PSt) :
    Conf (payAuto rows) (fun _ a' => a' = a) a x.run := by
  apply Conf.ofAllRead
  generalize x.run = p at h hp
  induction p with
  | ret v => trivial
  | eff e k ih => exact ⟨by simp [payAuto, h.1, hp.1], fun r => ih r (h.2 r) (hp.2 r)⟩

theorem noPay_of_noWrites_failIf (c : Prop) [Decidable c] (e : E) : NoPay (failIf c e).run := by
  unfold failIf; split <;> trivial

theorem noPay_verifyProofs (cx : Cx) (ps : List Proof) : NoPay (verifyProofs cx ps).run := by
  unfold verifyProofs
  refine NoPay.pmBind _ _ (noPay_of_noWrites_failIf _ _) (fun _ => ?_)
  refine NoPay.pmBind _ _ (noPay_dbTry _ rfl) (fun _ => ?_)
  refine NoPay.pmBind _ _ (noPay_of_noWrites_failIf _ _) (fun _ => ?_)
  refine NoPay.pmBind _ _ (noPay_dbTry _ rfl) (fun _ => ?_)
  refine NoPay.pmBind _ _ (noPay_of_noWrites_failIf _ _) (fun _ => ?_)
  refine NoPay.pmBind _ _ (noPay_of_noWrites_failIf _ _) (fun _ => ?_)
  unfold liftE; split <;> trivial

theorem conf_meltTokens (cx : Cx) (qid : Int) (ps : List Proof) :
    Conf (payAuto (ps.map Proof.row)) (fun _ _ => True) .init (meltTokens cx qid ps).run := by
  let rows := ps.map Proof.row
  have herr : ∀ (a : PSt) (e : E) (a' : PSt), a' = a → (fun (_ : Except E MeltQ) (_ : PSt) => True) (.error e) a' :=
    fun _ _ _ _ => trivial
  unfold meltTokens
  simp only []
  refine Conf.pmBind (payAuto rows) _ _ _ _ .init (conf_eff_ro (payAuto rows) _ rfl .init) ?_ ?_
  · intro v a' ⟨ha, _⟩; subst ha
    cases v with
    | error er => exact conf_throw (payAuto rows) _ _ _ trivial
    | ok q =>
      simp only
      refine Conf.pmBind (payAuto rows) _ _ _ _ _ (conf_read rows _ (noWrites_failIf _ _) (noPay_of_noWrites_failIf _ _) _) ?_ (herr _)
      intro _ a' ha; subst ha
      refine Conf.pmBind (payAuto rows) _ _ _ _ _ (conf_read rows _ (noWrites_failIf _ _) (noPay_of_noWrites_failIf _ _) _) ?_ (herr _)
      intro _ a' ha; subst ha
      refine Conf.pmBind (payAuto rows) _ _ _ _ _ (conf_read rows _ (noWrites_verifyProofs _ _) (noPay_verifyProofs _ _) _) ?_ (herr _)
      intro _ a' ha; subst ha
      refine Conf.pmBind (payAuto rows) _ _ _ _ _ (conf_read rows _ (noWrites_failIf _ _) (noPay_of_noWrites_failIf _ _) _) ?_ (herr _)
      intro _ a' ha; subst ha
      refine Conf.pmBind (payAuto rows) _ _ _ _ _ (conf_read rows _ (noWrites_failIf _ _) (noPay_of_noWrites_failIf _ _) _) ?_ (herr _)
      intro _ a' ha; subst ha
      -- AddPendingProofs
      refine Conf.pmBind (payAuto rows) (fun r a' => match r with | .ok _ => a' = PSt.locked q.id | .error _ => a' = PSt.init) _ _ _ _ ?_ ?_ (fun _ _ _ => trivial)
      · apply conf_dbTry_write
        intro r
        cases r with
        | ok u => exact ⟨.locked q.id, by simp [payAuto, payStep, rows], rfl⟩
        | error er => exact ⟨.init, by simp [payAuto, payStep, rows], rfl⟩
      · intro _ a' ha; simp only at ha; subst ha
        -- UpdateMeltQuote(PENDING)
        refine Conf.pmBind (payAuto rows) (fun r a' => match r with | .ok _ => a' = PSt.pend q.id | .error _ => a' = PSt.locked q.id) _ _ _ _ ?_ ?_ (fun _ _ _ => trivial)
        · apply conf_dbTry_write
          intro r
          cases r with
          | ok u => exact ⟨.pend q.id, by simp [payAuto, payStep], rfl⟩
          | error er => exact ⟨.locked q.id, by simp [payAuto, payStep], rfl⟩
        · intro _ a' ha; simp only at ha; subst ha
          -- the lookup of a mint quote with the same payment hash
          refine Conf.pmBind (payAuto rows) _ _ _ _ _ (conf_eff_ro (payAuto rows) _ rfl _) ?_ (fun _ _ _ => trivial)
          intro v a' ⟨ha, _⟩; subst ha
          cases v with
          | ok mq => exact conf_pend_of_noPay rows q.id _ (noPay_meltInternal _ ps mq)
          | error er =>
            simp only
            -- the ONE payment call, in state PENDING; afterwards the tail, where no payment call is allowed
            split
            all_goals
              refine Conf.pmBind (payAuto rows) (fun _ a' => a' = PSt.tail) (fun _ _ => True) _ _ _ ?_ ?_ (fun _ _ _ => trivial)
              · exact Or.inr fun r => ⟨.tail, rfl, rfl⟩
              · intro a a' ha; subst ha
                exact conf_tail_of_noPay rows _ (noPay_meltAfterPay _ ps a)
  · intro er a' ⟨_, v, hv⟩; cases hv

/-- **When `MeltTokens` pays.**  Whenever the program — after any number `n` of calls, in any world, with or without an armed
    storage fault — is about to call `SendPayment` or `PayPartialAmount`, the tables are exactly the initial ones plus the
    request's inputs in the pending table under the quote and the quote's state PENDING. -/
theorem melt_pays_only_when_locked (cx : Cx) (qid : Int) (ps : List Proof) (n : Nat) (w w' : World) (β : Type) (e : Eff β)
    (hn : (meltTokens cx qid ps).run.nextN n w = some (w', ⟨β, e⟩)) (hp : isPayEff e = true) :
    ∃ id t, insertRows w.db.pending (pendRows (ps.map Proof.row) id) = some t ∧
      w'.db = { w.db with pending := t, meltQ := updMeltQ w.db.meltQ id 0 .pending } := by
  obtain ⟨a', hr, hallow⟩ := conf_next (payAuto (ps.map Proof.row)) (payRel w.db (ps.map Proof.row))
    (pay_sound w.db _) _ _ n w .init (conf_meltTokens cx qid ps) rfl w' β e hn
  rcases hallow with hread | hstep
  · simp [payAuto, hp] at hread
  · cases a' with
    | pend id => exact ⟨id, hr⟩
    | init =>
      obtain ⟨a'', h⟩ := hstep e.faultValue
      cases e <;> simp [isPayEff] at hp <;> simp [payAuto, payStep] at h
    | locked id =>
      obtain ⟨a'', h⟩ := hstep e.faultValue
      cases e <;> simp [isPayEff] at hp <;> simp [payAuto, payStep] at h
    | tail =>
      obtain ⟨a'', h⟩ := hstep e.faultValue
      simp [payAuto, payStep, hp] at h

end Gonuts.Model.Mint
