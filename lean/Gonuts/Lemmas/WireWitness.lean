import Gonuts.Gen.Facts
import Gonuts.Lemmas.Wire
/-!
  Data used by the statements and witnesses of `Props/C20.lean` (kept out of the property file, which holds
  theorems only): Go constant names of the state enums, a table lookup, the constant `StandardErr` body, and the
  concrete sessions / requests of the decide-checked witnesses.
-/
namespace Gonuts.Model.Wire.Witness
open Gonuts.Model.Mint Gonuts.Model.Wire

def mqName : MQState → String
  | .unpaid => "Unpaid" | .paid => "Paid" | .issued => "Issued" | .pending => "Pending"
def lqName : LQState → String
  | .unpaid => "Unpaid" | .pending => "Pending" | .paid => "Paid"
def psName : PState → String
  | .unspent => "Unspent" | .pending => "Pending" | .spent => "Spent"

def tbl (t : List (String × String)) (k : String) : Option String :=
  match t.find? (·.1 == k) with
  | some kv => some kv.2
  | none => none

def sPaid : WSess :=
  let s0 : WSess := { mint := initSess 0 false {} }
  let s1 := (applyOp s0.mint (.mintQuote 4 true .none false)).1
  let s2 := (applyOp s1 (.settle 0)).1
  { s0 with mint := (applyOp s2 (.armFault 3)).1 }

def rMintOver : Request := {
  method := "POST"
  segs := ["v1", "mint", "bolt11"]
  url := "/v1/mint/bolt11"
  ctype := "application/json"
  body := "{…}"
  bodyLen := 5
  dec := Decode.ok (Parsed.mint 0 [{ amount := 8, ks := .known 0, b := .pt 1, witness := 0 }] .none) }

def stdBody : String := "{\"detail\":\"mint is currently unable to process request\",\"code\":10000}"

def pr7 : Proof := { amount := 1, ks := .known 0, secret := 7, long := false, c := .sig 0 1 7, cEnc := 0, witness := 0, dleq := 0, lock := .plain }
def out3 : BMsg := { amount := 1, ks := .known 0, b := .pt 3, witness := 0 }
def sFresh : WSess := { mint := initSess 0 false {} }
def rFirst : Request := {
  method := "POST"
  segs := ["v1", "swap"]
  url := "/v1/swap?x"
  body := "{A}null"
  bodyLen := 7
  dec := Decode.ok (Parsed.swap [pr7] [out3] none) }
def rSecond : Request := {
  method := "POST"
  segs := ["v1", "swap"]
  url := "/v1/swap?x{A}"
  body := "null"
  bodyLen := 4
  dec := Decode.ok (Parsed.swap [] [] none) }

def rSwap : Request := {
  method := "POST"
  segs := ["v1", "swap"]
  url := "/v1/swap"
  ctype := "application/json"
  body := "{swap}"
  bodyLen := 6
  dec := Decode.ok (Parsed.swap [pr7] [out3] none) }
def s1 : WSess := (handle sFresh rSwap).1

end Gonuts.Model.Wire.Witness
