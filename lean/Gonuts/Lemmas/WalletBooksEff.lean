import Gonuts.Lemmas.WalletBooksRun
/-!
  Invariants that EVERY single effect preserves (whatever program issues it, whatever it is given as
  arguments): they hold after every history, after every crash prefix of every operation, for every
  selection function.

  * `Keyed`   — each bucket of each wallet holds pairwise distinct secrets (bbolt: one value per key);
  * `MintOK`  — at each mint: no output is signed twice; spent and melt-locked secrets are distinct, disjoint,
                and every one of them was signed by this mint.
-/
namespace Gonuts.Model.WalletBooks

/-! ## buckets -/

theorem putProof_secrets (b : List WProof) (p : WProof) :
    (putProof b p).map (·.secret) = if b.any (·.secret == p.secret) then b.map (·.secret) else b.map (·.secret) ++ [p.secret] := by
  unfold putProof
  split
  · rw [List.map_map]
    apply List.map_congr_left
    intro q _
    simp only [Function.comp]
    split
    · rename_i h; simp only [beq_iff_eq] at h; exact h.symm
    · rfl
  · simp only [List.map_append, List.map_cons, List.map_nil]

theorem putProof_nodup (b : List WProof) (p : WProof) (h : (b.map (·.secret)).Nodup) :
    ((putProof b p).map (·.secret)).Nodup := by
  rw [putProof_secrets]
  split
  · exact h
  · rename_i hn
    rw [List.nodup_append]
    refine ⟨h, by simp, ?_⟩
    intro a ha b' hb'
    simp only [List.mem_singleton] at hb'
    subst hb'
    intro heq
    subst heq
    apply hn
    simp only [List.any_eq_true, beq_iff_eq]
    simp only [List.mem_map] at ha
    obtain ⟨q, hq, hqs⟩ := ha
    exact ⟨q, hq, hqs⟩

theorem putProofs_nodup (b : List WProof) (ps : List WProof) (h : (b.map (·.secret)).Nodup) :
    ((putProofs b ps).map (·.secret)).Nodup := by
  unfold putProofs
  induction ps generalizing b with
  | nil => exact h
  | cons p rest ih => exact ih _ (putProof_nodup b p h)

theorem putPending_secrets (b : List PProof) (p : PProof) :
    (putPending b p).map (·.p.secret) =
      if b.any (·.p.secret == p.p.secret) then b.map (·.p.secret) else b.map (·.p.secret) ++ [p.p.secret] := by
  unfold putPending
  split
  · rw [List.map_map]
    apply List.map_congr_left
    intro q _
    simp only [Function.comp]
    split
    · rename_i h; simp only [beq_iff_eq] at h; exact h.symm
    · rfl
  · simp only [List.map_append, List.map_cons, List.map_nil]

theorem putPending_nodup (b : List PProof) (p : PProof) (h : (b.map (·.p.secret)).Nodup) :
    ((putPending b p).map (·.p.secret)).Nodup := by
  rw [putPending_secrets]
  split
  · exact h
  · rename_i hn
    rw [List.nodup_append]
    refine ⟨h, by simp, ?_⟩
    intro a ha b' hb'
    simp only [List.mem_singleton] at hb'
    subst hb'
    intro heq
    subst heq
    apply hn
    simp only [List.any_eq_true, beq_iff_eq]
    simp only [List.mem_map] at ha
    obtain ⟨q, hq, hqs⟩ := ha
    exact ⟨q, hq, hqs⟩

theorem putPendings_nodup (b : List PProof) (ps : List PProof) (h : (b.map (·.p.secret)).Nodup) :
    ((putPendings b ps).map (·.p.secret)).Nodup := by
  unfold putPendings
  induction ps generalizing b with
  | nil => exact h
  | cons p rest ih => exact ih _ (putPending_nodup b p h)

theorem filter_map_nodup {α β : Type} (f : α → β) (p : α → Bool) (l : List α) (h : (l.map f).Nodup) :
    ((l.filter p).map f).Nodup :=
  List.Nodup.sublist (List.Sublist.map f List.filter_sublist) h

/-- Each bucket of a wallet holds pairwise distinct secrets. -/
def Wallet.Keyed (x : Wallet) : Prop :=
  (x.db.proofs.map (·.secret)).Nodup ∧ (x.db.pending.map (·.p.secret)).Nodup

def Keyed (w : World) : Prop := ∀ x ∈ w.wallets, x.Keyed

instance (x : Wallet) : Decidable x.Keyed := inferInstanceAs (Decidable (_ ∧ _))
instance (w : World) : Decidable (Keyed w) := inferInstanceAs (Decidable (∀ x ∈ w.wallets, x.Keyed))

theorem mem_set {α : Type} {l : List α} {i : Nat} {a b : α} (h : b ∈ l.set i a) : b = a ∨ b ∈ l := by
  induction l generalizing i with
  | nil => simp at h
  | cons x xs ih =>
    cases i with
    | zero =>
      simp only [List.set_cons_zero, List.mem_cons] at h
      rcases h with h | h
      · exact Or.inl h
      · exact Or.inr (List.mem_cons_of_mem _ h)
    | succ i =>
      simp only [List.set_cons_succ, List.mem_cons] at h
      rcases h with h | h
      · exact Or.inr (by rw [h]; exact List.mem_cons_self)
      · rcases ih h with h | h
        · exact Or.inl h
        · exact Or.inr (List.mem_cons_of_mem _ h)

theorem World.wallet_keyed {w : World} (h : Keyed w) (i : Nat) : (w.wallet i).Keyed := by
  unfold World.wallet
  by_cases hi : i < w.wallets.length
  · have : w.wallets.getD i default = w.wallets[i] := by simp [List.getD, hi]
    rw [this]
    exact h _ (List.getElem_mem hi)
  · have : w.wallets.getD i default = default := by
      simp only [List.getD_eq_getElem?_getD]
      rw [List.getElem?_eq_none (by omega)]
      rfl
    rw [this]
    exact ⟨List.nodup_nil, List.nodup_nil⟩

theorem Keyed_setWallet {w : World} (h : Keyed w) (i : Nat) (x : Wallet) (hx : x.Keyed) : Keyed (w.setWallet i x) := by
  intro y hy
  unfold World.setWallet at hy
  rcases mem_set hy with h1 | h1
  · rw [h1]; exact hx
  · exact h y h1

theorem Keyed_updDb {w : World} (h : Keyed w) (i : Nat) (f : WDb → WDb)
    (hf : ∀ d : WDb, (d.proofs.map (·.secret)).Nodup → (d.pending.map (·.p.secret)).Nodup →
      ((f d).proofs.map (·.secret)).Nodup ∧ ((f d).pending.map (·.p.secret)).Nodup) : Keyed (w.updDb i f) := by
  unfold World.updDb
  apply Keyed_setWallet h
  have hk := World.wallet_keyed h i
  exact hf _ hk.1 hk.2

theorem Keyed_of_wallets_eq {w w' : World} (h : Keyed w) (he : w'.wallets = w.wallets) : Keyed w' := by
  intro x hx; rw [he] at hx; exact h x hx

@[simp] theorem World.payInvoice_wallets (w : World) (i : Option InvRef) : (w.payInvoice i).wallets = w.wallets := by
  unfold World.payInvoice
  split <;> rfl

@[simp] theorem World.payInvoices_wallets (w : World) (is : List InvRef) : (w.payInvoices is).wallets = w.wallets := by
  unfold World.payInvoices
  induction is generalizing w with
  | nil => rfl
  | cons i rest ih => simp only [List.foldl_cons]; rw [ih]; exact World.payInvoice_wallets w (some i)

theorem execClient_wallets {β : Type} (w : World) (e : Eff β) (r : World × β) (h : execClient w e = some r) :
    r.1.wallets = w.wallets := by
  cases e <;> simp only [execClient] at h <;> try (cases h)
  all_goals (split at h <;> cases h <;> simp [World.setMint])

theorem exec_client_wallets {β : Type} (wi : Nat) (w : World) (e : Eff β) (h : execDb wi w e = none) :
    (exec wi w e).1.wallets = w.wallets := by
  rw [exec_client wi w e h]
  cases hc : execClient w e with
  | some r => exact execClient_wallets w e r hc
  | none => rfl

theorem Keyed_exec : EffInv Keyed := by
  intro β wi w e hw
  cases e
  case getMintQuote id => exact hw
  case saveMintQuote q => rw [exec_saveMintQuote]; exact Keyed_updDb hw _ _ (fun d h1 h2 => ⟨h1, h2⟩)
  case getMeltQuote id => exact hw
  case saveMeltQuote q => rw [exec_saveMeltQuote]; exact Keyed_updDb hw _ _ (fun d h1 h2 => ⟨h1, h2⟩)
  case getProofsByKs ks => exact hw
  case saveProofs ps => rw [exec_saveProofs]; exact Keyed_updDb hw _ _ (fun d h1 h2 => ⟨putProofs_nodup _ _ h1, h2⟩)
  case deleteProof s => rw [exec_deleteProof]; exact Keyed_updDb hw _ _ (fun d h1 h2 => ⟨filter_map_nodup _ _ _ h1, h2⟩)
  case addPending ps => rw [exec_addPending]; exact Keyed_updDb hw _ _ (fun d h1 h2 => ⟨h1, putPendings_nodup _ _ h2⟩)
  case addPendingByQuote ps q =>
    rw [exec_addPendingByQuote]; exact Keyed_updDb hw _ _ (fun d h1 h2 => ⟨h1, putPendings_nodup _ _ h2⟩)
  case getPending => exact hw
  case getPendingByQuote q => exact hw
  case deletePending ss =>
    rw [exec_deletePending]; exact Keyed_updDb hw _ _ (fun d h1 h2 => ⟨h1, filter_map_nodup _ _ _ h2⟩)
  case deletePendingByQuote q =>
    rw [exec_deletePendingByQuote]; exact Keyed_updDb hw _ _ (fun d h1 h2 => ⟨h1, filter_map_nodup _ _ _ h2⟩)
  case saveKeyset k => rw [exec_saveKeyset]; exact Keyed_updDb hw _ _ (fun d h1 h2 => ⟨h1, h2⟩)
  case getKeyset id => exact hw
  case getKeysets => exact hw
  case incCounter ks n =>
    rw [exec_incCounter]
    split
    · exact Keyed_updDb hw _ _ (fun d h1 h2 => ⟨h1, h2⟩)
    · exact hw
  case getCounter ks => exact hw
  case saveSeed => exact hw
  case close => exact hw
  case memGet => exact hw
  case memSet m => rw [exec_memSet]; exact Keyed_setWallet hw _ _ (World.wallet_keyed hw wi)
  case emitToken mi ps pend => exact hw
  case fresh => exact hw
  all_goals exact Keyed_of_wallets_eq hw (exec_client_wallets wi w _ rfl)

/-- Buckets stay keyed through every operation of every history, and through every crash prefix. -/
theorem Keyed_opPre (w : World) (op : Op) (h : Keyed w) : Keyed (opPre w op) := by
  cases op <;> simp only [opPre] <;> try exact h
  case reopen wi => exact Keyed_setWallet h _ _ (World.wallet_keyed h wi)
  case restore wi ms => exact Keyed_setWallet h _ _ ⟨List.nodup_nil, List.nodup_nil⟩

theorem Keyed_applyOp (sel : Sel) (w : World) (op : Op) (h : Keyed w) : Keyed (applyOp sel w op).1 := by
  unfold applyOp
  have h0 : Keyed { (opPre w op) with script := opScript op } := Keyed_of_wallets_eq (Keyed_opPre w op h) rfl
  simp only
  split
  · exact h0
  · exact Keyed_exec.run _ _ _ h0

theorem Keyed_applyOpN (sel : Sel) (w : World) (op : Op) (n : Nat) (h : Keyed w) : Keyed (applyOpN sel w op n).1 := by
  unfold applyOpN
  have h0 : Keyed { (opPre w op) with script := opScript op } := Keyed_of_wallets_eq (Keyed_opPre w op h) rfl
  simp only
  split
  · exact h0
  · rename_i wi p _
    have := Keyed_exec.runN wi p.run n _ h0
    split
    · rename_i heq; rw [heq] at this; exact this
    · rename_i heq; rw [heq] at this; exact this

theorem Keyed_runHist (sel : Sel) (w : World) (ops : List Op) (h : Keyed w) : Keyed (runHist sel w ops) := by
  unfold runHist
  induction ops generalizing w with
  | nil => exact h
  | cons op rest ih => exact ih _ (Keyed_applyOp sel w op h)

end Gonuts.Model.WalletBooks
