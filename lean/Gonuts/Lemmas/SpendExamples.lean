import Gonuts.Lemmas.Spend
/-! Concrete symbolic worlds used by the non-vacuity examples and regression examples of Props.C12 / Props.C13. -/

namespace Gonuts.Lemmas.SpendExamples.C12
open Gonuts.Model.Spend Gonuts.Spec.Spendable Gonuts.Lemmas.Spend

/-! ## concrete values for the non-vacuity examples
  keys 1 ("K1"), 2 ("K2"), 3 ("K3"); `sign k m = 100*k + m`; a signature verifies exactly for its own (key, digest);
  additionally 912 is a SECOND signature string of key 2 on digest 7 (another nonce). -/
def xSign : Key → Msg → Sig := fun k m => 100 * k + m
def xValid : Sig → Key → Msg → Bool := fun (s k m : Nat) => s == 100 * k + m || (s == 912 && k == 2 && m == 7)
def xEnv : Env where
  valid := xValid
  parseKey := fun s => if s = "K1" then some 1 else if s = "K2" then some 2 else if s = "K3" then some 3 else none
  sha256hex := fun _ => ""
  now := 1000
theorem xSign_valid (k : Key) (m : Msg) : xEnv.valid (xSign k m) k m = true := by simp [xEnv, xValid, xSign]
theorem xValid_unique_aux (s k k' m : Nat) (h1 : xValid s k m = true) (h2 : xValid s k' m = true) : k = k' := by
  simp [xValid] at h1 h2
  rcases h1 with h1 | ⟨⟨h1, h1'⟩, h1''⟩ <;> rcases h2 with h2 | ⟨⟨h2, h2'⟩, h2''⟩ <;> omega
theorem xValid_unique (m : Msg) (keys : List Key) : UniqueSigner xValid m keys :=
  fun s k k' _ _ h1 h2 => xValid_unique_aux s k k' m h1 h2

end Gonuts.Lemmas.SpendExamples.C12

namespace Gonuts.Lemmas.SpendExamples.C13
open Gonuts.Model.Spend Gonuts.Spec.Spendable Gonuts.Lemmas.Spend

/-! ## concrete values: keys 1 ("K1"), 2 ("K2"); `sign k m = 100*k + m`; 912 = a second signature string of key 1 on digest 7;
    the preimage "ab" (one byte 0xab) hashes to the 64-character lock value `xHash`. -/
def xSign : Key → Msg → Sig := fun k m => 100 * k + m
def xValid : Sig → Key → Msg → Bool := fun (s k m : Nat) => s == 100 * k + m || (s == 912 && k == 1 && m == 7)
def xHash : String := "HASHHASHHASHHASHHASHHASHHASHHASHHASHHASHHASHHASHHASHHASHHASHHASH"
def xEnv : Env where
  valid := xValid
  parseKey := fun s => if s = "K1" then some 1 else if s = "K2" then some 2 else none
  sha256hex := fun b => if b = [0xab] then xHash else "e3b0"
  now := 1000
theorem xSign_valid (k : Key) (m : Msg) : xEnv.valid (xSign k m) k m = true := by simp [xEnv, xValid, xSign]
theorem xOpens : Opens xEnv "ab" xHash := ⟨by decide, [0xab], by decide, by decide⟩
theorem xValid_unique_aux (s k k' m : Nat) (h1 : xValid s k m = true) (h2 : xValid s k' m = true) : k = k' := by
  simp [xValid] at h1 h2
  rcases h1 with h1 | ⟨⟨h1, h1'⟩, h1''⟩ <;> rcases h2 with h2 | ⟨⟨h2, h2'⟩, h2''⟩ <;> omega
theorem xValid_unique (m : Msg) (keys : List Key) : UniqueSigner xValid m keys :=
  fun s k k' _ _ h1 h2 => xValid_unique_aux s k k' m h1 h2

end Gonuts.Lemmas.SpendExamples.C13
