import Gonuts.Model.WalletBooks
/-!
  Running wallet programs: equations for `Prog.run` through `bind`, the `ExceptT` layer and the structure
  combinators (`subM`, `blockM`, `whenM`, `iteM`, `loopM`, `forEachM`), and the lifting of a one-effect
  invariant to whole programs, crash prefixes (`runN`) and histories.
-/
namespace Gonuts.Model.WalletBooks

/-- Big-step execution of a `PM` program by wallet `wi`. -/
def runPM {α : Type} (wi : Nat) (p : PM α) (w : World) : World × Except WErr α := (p.run).run wi w

@[simp] theorem Prog.run_ret {α : Type} (wi : Nat) (a : α) (w : World) : (Prog.ret a).run wi w = (w, a) := rfl
@[simp] theorem Prog.run_pure {α : Type} (wi : Nat) (a : α) (w : World) : (pure a : Prog α).run wi w = (w, a) := rfl
@[simp] theorem Prog.run_eff {α β : Type} (wi : Nat) (e : Eff β) (k : β → Prog α) (w : World) :
    (Prog.eff e k).run wi w = (k (exec wi w e).2).run wi (exec wi w e).1 := rfl
@[simp] theorem Prog.run_sub {α β : Type} (wi : Nat) (n : String) (b : Prog β) (k : β → Prog α) (w : World) :
    (Prog.sub n b k).run wi w = (k (b.run wi w).2).run wi (b.run wi w).1 := rfl
@[simp] theorem Prog.run_block {α β : Type} (wi : Nat) (o c : String) (r : Bool) (b : Prog β) (d : β) (k : β → Prog α)
    (w : World) :
    (Prog.block o c r b d k).run wi w = if r then (k (b.run wi w).2).run wi (b.run wi w).1 else (k d).run wi w := rfl
@[simp] theorem Prog.run_loop {α σ ε : Type} (wi : Nat) (s : σ) (n : Nat) (i : σ)
    (body : σ → Prog (Except ε (σ × Bool))) (k : Except ε σ → Prog α) (w : World) :
    (Prog.loop s n i body k).run wi w =
      (k (loopRun (fun st w' => (body st).run wi w') n i w).2).run wi (loopRun (fun st w' => (body st).run wi w') n i w).1 := rfl

theorem Prog.run_bind {α β : Type} (wi : Nat) (p : Prog α) (f : α → Prog β) (w : World) :
    (p >>= f).run wi w = (f (p.run wi w).2).run wi (p.run wi w).1 := by
  show (Prog.bind p f).run wi w = _
  induction p generalizing w with
  | ret a => rfl
  | eff e k ih => simp only [Prog.bind, Prog.run_eff]; exact ih _ _ _
  | sub n b k _ ih => simp only [Prog.bind, Prog.run_sub]; exact ih _ _ _
  | block o c r b d k _ ih =>
    simp only [Prog.bind, Prog.run_block]
    split
    · exact ih _ _ _
    · exact ih _ _ _
  | loop s n i body k _ ih => simp only [Prog.bind, Prog.run_loop]; exact ih _ _ _

@[simp] theorem runPM_pure {α : Type} (wi : Nat) (a : α) (w : World) : runPM wi (pure a : PM α) w = (w, .ok a) := rfl
@[simp] theorem runPM_throw {α : Type} (wi : Nat) (e : WErr) (w : World) : runPM wi (throw e : PM α) w = (w, .error e) := rfl

theorem runPM_bind {α β : Type} (wi : Nat) (p : PM α) (f : α → PM β) (w : World) :
    runPM wi (p >>= f) w =
      match runPM wi p w with
      | (w', .ok a) => runPM wi (f a) w'
      | (w', .error e) => (w', .error e) := by
  unfold runPM
  show ((ExceptT.bind p f).run).run wi w = _
  unfold ExceptT.bind ExceptT.bindCont ExceptT.run ExceptT.mk
  rw [Prog.run_bind]
  generalize (Prog.run wi p w) = r
  obtain ⟨w', x⟩ := r
  cases x <;> rfl

@[simp] theorem runPM_eff {β : Type} (wi : Nat) (e : Eff β) (w : World) :
    runPM wi (eff e) w = ((exec wi w e).1, .ok (exec wi w e).2) := rfl

@[simp] theorem runPM_subM {β : Type} (wi : Nat) (n : String) (b : PM β) (w : World) :
    runPM wi (subM n b) w = runPM wi b w := rfl

@[simp] theorem runPM_pureSub {β : Type} (wi : Nat) (n : String) (v : β) (w : World) :
    runPM wi (pureSub n v) w = (w, .ok v) := rfl

theorem runPM_blockM {β : Type} (wi : Nat) (o c : String) (r : Bool) (b : PM β) (d : β) (w : World) :
    runPM wi (blockM o c r b d) w = if r then runPM wi b w else (w, .ok d) := by
  unfold blockM runPM
  show (Prog.block o c r b.run (.ok d) .ret).run wi w = _
  simp only [Prog.run_block, Prog.run_ret]

theorem runPM_whenM {β : Type} (wi : Nat) (c : Bool) (b : PM β) (d : β) (w : World) :
    runPM wi (whenM c b d) w = if c then runPM wi b w else (w, .ok d) := runPM_blockM wi _ _ c b d w

theorem runPM_iteM {β : Type} (wi : Nat) (c : Bool) (t e : PM β) (d : β) (w : World) :
    runPM wi (iteM c t e d) w = if c then runPM wi t w else runPM wi e w := by
  unfold iteM
  rw [runPM_bind, runPM_blockM]
  cases c
  · simp only [Bool.false_eq_true, if_false, runPM_bind, runPM_blockM, Bool.not_false, if_true]
    generalize runPM wi e w = r
    obtain ⟨w', x⟩ := r
    cases x <;> rfl
  · simp only [if_true]
    generalize runPM wi t w = r
    obtain ⟨w', x⟩ := r
    cases x with
    | error e => rfl
    | ok a => simp only [runPM_bind, runPM_blockM, Bool.not_true, Bool.false_eq_true, if_false, runPM_pure]

theorem runPM_loopM {σ : Type} (wi : Nat) (sample : σ) (fuel : Nat) (init : σ) (body : σ → PM (σ × Bool)) (w : World) :
    runPM wi (loopM sample fuel init body) w = loopRun (fun st w' => runPM wi (body st) w') fuel init w := rfl

/-- A loop whose body never touches the world and never fails leaves the world alone. -/
theorem loopRun_pure {σ : Type} (step : σ → World → World × Except WErr (σ × Bool))
    (hstep : ∀ st w, ∃ r, step st w = (w, .ok r)) (n : Nat) (st : σ) (w : World) :
    ∃ st', loopRun step n st w = (w, .ok st') := by
  induction n generalizing st with
  | zero => exact ⟨st, rfl⟩
  | succ n ih =>
    obtain ⟨r, hr⟩ := hstep st w
    unfold loopRun
    rw [hr]
    obtain ⟨st', c⟩ := r
    cases c
    · exact ⟨st', rfl⟩
    · exact ih st'

theorem runPM_forEachM_pure {X : Type} (wi : Nat) (sample : X) (xs : List X) (body : X → PM Unit)
    (hb : ∀ x w, runPM wi (body x) w = (w, .ok ())) (w : World) :
    runPM wi (forEachM sample xs body) w = (w, .ok ()) := by
  unfold forEachM
  rw [runPM_bind, runPM_loopM]
  obtain ⟨st', h⟩ := loopRun_pure (fun st w' => runPM wi (forEachStep body st) w') (by
        intro st w'
        cases st with
        | nil => exact ⟨_, rfl⟩
        | cons x rest =>
          refine ⟨(rest, !rest.isEmpty), ?_⟩
          show runPM wi (body x >>= fun _ => pure (rest, !rest.isEmpty)) w' = _
          rw [runPM_bind, hb]; rfl) xs.length xs w
  rw [h]; rfl

/-- `cTry`: a client call whose error is the wallet's error. -/
theorem runPM_cTry {β : Type} (wi : Nat) (e : Eff (CRes β)) (w : World) :
    runPM wi (cTry e) w =
      match (exec wi w e).2 with
      | .ok v => ((exec wi w e).1, .ok v)
      | .error (.mint c) => ((exec wi w e).1, .error s!"mint-{c}")
      | .error .net => ((exec wi w e).1, .error "net") := by
  unfold cTry
  rw [runPM_bind, runPM_eff]
  cases h : (exec wi w e).2 with
  | ok v => rfl
  | error c => cases c <;> rfl


/-! ## one equation per effect -/

section exec
variable (wi : Nat) (w : World)

@[simp] theorem exec_getMintQuote (id : Nat) :
    exec wi w (.getMintQuote id) = (w, (w.wallet wi).db.mintQ.find? (·.id == id)) := rfl
@[simp] theorem exec_saveMintQuote (q : WMintQ) :
    exec wi w (.saveMintQuote q) = (w.updDb wi (fun d => { d with mintQ := putMintQ d.mintQ q }), ()) := rfl
@[simp] theorem exec_getMeltQuote (id : Nat) :
    exec wi w (.getMeltQuote id) = (w, (w.wallet wi).db.meltQ.find? (·.id == id)) := rfl
@[simp] theorem exec_saveMeltQuote (q : WMeltQ) :
    exec wi w (.saveMeltQuote q) = (w.updDb wi (fun d => { d with meltQ := putMeltQ d.meltQ q }), ()) := rfl
@[simp] theorem exec_getProofsByKs (ks : KsId) :
    exec wi w (.getProofsByKs ks) = (w, (w.wallet wi).db.proofs.filter (·.ks == ks)) := rfl
@[simp] theorem exec_saveProofs (ps : List WProof) :
    exec wi w (.saveProofs ps) = (w.updDb wi (fun d => { d with proofs := putProofs d.proofs ps }), ()) := rfl
@[simp] theorem exec_deleteProof (s : SId) :
    exec wi w (.deleteProof s) = (w.updDb wi (fun d => { d with proofs := d.proofs.filter (·.secret != s) }), ()) := rfl
@[simp] theorem exec_addPending (ps : List WProof) :
    exec wi w (.addPending ps) =
      (w.updDb wi (fun d => { d with pending := putPendings d.pending (ps.map (fun p => { p := p })) }), ()) := rfl
@[simp] theorem exec_addPendingByQuote (ps : List WProof) (q : Nat) :
    exec wi w (.addPendingByQuote ps q) =
      (w.updDb wi (fun d => { d with pending := putPendings d.pending (ps.map (fun p => { p := p, quote := some q })) }), ()) := rfl
@[simp] theorem exec_getPending : exec wi w .getPending = (w, (w.wallet wi).db.pending) := rfl
@[simp] theorem exec_getPendingByQuote (q : Nat) :
    exec wi w (.getPendingByQuote q) = (w, (w.wallet wi).db.pending.filter (·.quote == some q)) := rfl
@[simp] theorem exec_deletePending (ss : List SId) :
    exec wi w (.deletePending ss) =
      (w.updDb wi (fun d => { d with pending := d.pending.filter (fun x => !ss.contains x.p.secret) }), ()) := rfl
@[simp] theorem exec_deletePendingByQuote (q : Nat) :
    exec wi w (.deletePendingByQuote q) =
      (w.updDb wi (fun d => { d with pending := d.pending.filter (·.quote != some q) }), ()) := rfl
@[simp] theorem exec_saveKeyset (k : KsRow) :
    exec wi w (.saveKeyset k) = (w.updDb wi (fun d => { d with keysets := putKeyset d.keysets k }), ()) := rfl
@[simp] theorem exec_getKeyset (id : KsId) :
    exec wi w (.getKeyset id) = (w, (w.wallet wi).db.keysets.find? (·.id == id)) := rfl
@[simp] theorem exec_getKeysets : exec wi w .getKeysets = (w, (w.wallet wi).db.keysets) := rfl
theorem exec_incCounter (ks : KsId) (n : Nat) :
    exec wi w (.incCounter ks n) =
      if (w.wallet wi).db.keysets.any (·.id == ks) then
        (w.updDb wi (fun d => { d with keysets := incCounter d.keysets ks n }), true)
      else (w, false) := by
  by_cases h : (w.wallet wi).db.keysets.any (·.id == ks) = true <;> simp only [exec, execDb, h] <;> rfl
@[simp] theorem exec_getCounter (ks : KsId) :
    exec wi w (.getCounter ks) = (w, counterOf (w.wallet wi).db.keysets ks) := rfl
@[simp] theorem exec_saveSeed : exec wi w .saveSeed = (w, ()) := rfl
@[simp] theorem exec_close : exec wi w .close = (w, ()) := rfl
@[simp] theorem exec_memGet : exec wi w .memGet = (w, (w.wallet wi).mem) := rfl
@[simp] theorem exec_memSet (m : WMem) :
    exec wi w (.memSet m) = (w.setWallet wi { w.wallet wi with mem := m }, ()) := rfl
@[simp] theorem exec_emitToken (mi : Nat) (ps : List WProof) (pend : Bool) :
    exec wi w (.emitToken mi ps pend) =
      ({ w with tokens := w.tokens ++ [{ id := w.tokens.length, mint := mi, proofs := ps, sender := if pend then some wi else none }] }, ()) := rfl
@[simp] theorem exec_fresh : exec wi w .fresh = ({ w with nextId := w.nextId + 1 }, w.nextId) := rfl

theorem exec_cInfo (mi : Nat) :
    exec wi w (.cInfo mi) = if mi < w.mints.length then (w, .ok ()) else (w, .error .net) := by
  by_cases h : mi < w.mints.length <;> simp only [exec, execDb, execClient, h, if_true, if_false]
theorem exec_cKeysets (mi : Nat) :
    exec wi w (.cKeysets mi) = if mi < w.mints.length then (w, .ok (w.mint mi).keysets) else (w, .error .net) := by
  by_cases h : mi < w.mints.length <;> simp only [exec, execDb, execClient, h, if_true, if_false]
theorem exec_cKeysetById (mi : Nat) (ks : KsId) :
    exec wi w (.cKeysetById mi ks) =
      if mi < w.mints.length then (w, if (w.mint mi).hasKs ks then .ok () else .error (.mint 12001)) else (w, .error .net) := by
  by_cases h : mi < w.mints.length <;> simp only [exec, execDb, execClient, h, if_true, if_false]
theorem exec_cMintQuote (mi : Nat) (a : UInt64) :
    exec wi w (.cMintQuote mi a) =
      if mi < w.mints.length then
        ({ (w.setMint mi ((w.mint mi).mintQuote w.nextId a).1) with nextId := w.nextId + 1 }, ((w.mint mi).mintQuote w.nextId a).2)
      else (w, .error .net) := by
  by_cases h : mi < w.mints.length <;> simp only [exec, execDb, execClient, h, if_true, if_false]
theorem exec_cMintQuoteState (mi q : Nat) :
    exec wi w (.cMintQuoteState mi q) =
      if mi < w.mints.length then (w.setMint mi ((w.mint mi).mintQuoteState q).1, ((w.mint mi).mintQuoteState q).2)
      else (w, .error .net) := by
  by_cases h : mi < w.mints.length <;> simp only [exec, execDb, execClient, h, if_true, if_false]
theorem exec_cMint (mi q : Nat) (outs : List Out) :
    exec wi w (.cMint mi q outs) =
      if mi < w.mints.length then (w.setMint mi ((w.mint mi).mint q outs).1, ((w.mint mi).mint q outs).2)
      else (w, .error .net) := by
  by_cases h : mi < w.mints.length <;> simp only [exec, execDb, execClient, h, if_true, if_false]
theorem exec_cSwap (mi : Nat) (ins : List WProof) (outs : List Out) :
    exec wi w (.cSwap mi ins outs) =
      if mi < w.mints.length then (w.setMint mi ((w.mint mi).swap ins outs).1, ((w.mint mi).swap ins outs).2)
      else (w, .error .net) := by
  by_cases h : mi < w.mints.length <;> simp only [exec, execDb, execClient, h, if_true, if_false]
theorem exec_cMeltQuote (mi : Nat) (inv : InvRef) :
    exec wi w (.cMeltQuote mi inv) =
      if mi < w.mints.length then
        ({ (w.setMint mi ((w.mint mi).meltQuote w.nextId inv).1) with nextId := w.nextId + 1 }, ((w.mint mi).meltQuote w.nextId inv).2)
      else (w, .error .net) := by
  by_cases h : mi < w.mints.length <;> simp only [exec, execDb, execClient, h, if_true, if_false]
theorem exec_cMeltQuoteState (mi q : Nat) :
    exec wi w (.cMeltQuoteState mi q) =
      if mi < w.mints.length then
        (({ (w.setMint mi ((w.mint mi).meltQuoteState q w.script).1) with script := ((w.mint mi).meltQuoteState q w.script).2.2.1 }).payInvoice
            ((w.mint mi).meltQuoteState q w.script).2.2.2,
          ((w.mint mi).meltQuoteState q w.script).2.1)
      else (w, .error .net) := by
  by_cases h : mi < w.mints.length <;> simp only [exec, execDb, execClient, h, if_true, if_false]
theorem exec_cMelt (mi q : Nat) (ins : List WProof) (outs : List Out) :
    exec wi w (.cMelt mi q ins outs) =
      if mi < w.mints.length then
        (({ (w.setMint mi ((w.mint mi).melt q ins outs w.script).1) with script := ((w.mint mi).melt q ins outs w.script).2.2.1 }).payInvoice
            ((w.mint mi).melt q ins outs w.script).2.2.2,
          ((w.mint mi).melt q ins outs w.script).2.1)
      else (w, .error .net) := by
  by_cases h : mi < w.mints.length <;> simp only [exec, execDb, execClient, h, if_true, if_false]
theorem exec_cCheckState (mi : Nat) (ss : List SId) :
    exec wi w (.cCheckState mi ss) =
      if mi < w.mints.length then
        (({ (w.setMint mi ((w.mint mi).checkState ss w.script).1) with script := ((w.mint mi).checkState ss w.script).2.2.1 }).payInvoices
            ((w.mint mi).checkState ss w.script).2.2.2,
          ((w.mint mi).checkState ss w.script).2.1)
      else (w, .error .net) := by
  by_cases h : mi < w.mints.length <;> simp only [exec, execDb, execClient, h, if_true, if_false]
theorem exec_cRestore (mi : Nat) (outs : List SId) :
    exec wi w (.cRestore mi outs) =
      if mi < w.mints.length then (w, .ok ((w.mint mi).restore outs)) else (w, .error .net) := by
  by_cases h : mi < w.mints.length <;> simp only [exec, execDb, execClient, h, if_true, if_false]

theorem exec_client {β : Type} (e : Eff β) (h : execDb wi w e = none) :
    exec wi w e = match execClient w e with | some r => r | none => (w, e.dflt) := by
  unfold exec; simp only [h]; rfl

end exec

/-! ## Lifting a one-effect invariant -/

/-- `P` is preserved by every single effect of every wallet, whatever it returns. -/
def EffInv (P : World → Prop) : Prop := ∀ {β : Type} (wi : Nat) (w : World) (e : Eff β), P w → P (exec wi w e).1

theorem loopRun_inv {P : World → Prop} {σ ε : Type} (step : σ → World → World × Except ε (σ × Bool))
    (hstep : ∀ st w, P w → P (step st w).1) (n : Nat) (st : σ) (w : World) (hw : P w) :
    P (loopRun step n st w).1 := by
  induction n generalizing st w with
  | zero => exact hw
  | succ n ih =>
    unfold loopRun
    have h1 := hstep st w hw
    split
    · rename_i w' st' heq; rw [heq] at h1; exact ih _ _ h1
    · rename_i w' st' heq; rw [heq] at h1; exact h1
    · rename_i w' e heq; rw [heq] at h1; exact h1

theorem EffInv.run {P : World → Prop} (h : EffInv P) {α : Type} (wi : Nat) (p : Prog α) (w : World) (hw : P w) :
    P (p.run wi w).1 := by
  induction p generalizing w with
  | ret a => exact hw
  | eff e k ih => exact ih _ _ (h wi w e hw)
  | sub n b k ihb ihk => exact ihk _ _ (ihb _ hw)
  | block o c r b d k ihb ihk =>
    simp only [Prog.run_block]
    split
    · exact ihk _ _ (ihb _ hw)
    · exact ihk _ _ hw
  | loop s n i body k ihb ihk =>
    simp only [Prog.run_loop]
    exact ihk _ _ (loopRun_inv _ (fun st w' hw' => ihb st w' hw') n i w hw)

theorem loopRunN_inv {P : World → Prop} {σ ε : Type}
    (step : σ → Nat → World → World × Option (Except ε (σ × Bool)) × Nat)
    (hstep : ∀ st b w, P w → P (step st b w).1) (n : Nat) (st : σ) (b : Nat) (w : World) (hw : P w) :
    P (loopRunN step n st b w).1 := by
  induction n generalizing st b w with
  | zero => exact hw
  | succ n ih =>
    unfold loopRunN
    have h1 := hstep st b w hw
    split
    · rename_i w' st' b' heq; rw [heq] at h1; exact ih _ _ _ h1
    · rename_i w' st' b' heq; rw [heq] at h1; exact h1
    · rename_i w' e b' heq; rw [heq] at h1; exact h1
    · rename_i w' b' heq; rw [heq] at h1; exact h1

/-- … also when the wallet is killed after any number `n` of calls. -/
theorem EffInv.runN {P : World → Prop} (h : EffInv P) {α : Type} (wi : Nat) (p : Prog α) (n : Nat) (w : World)
    (hw : P w) : P (p.runN wi n w).1 := by
  induction p generalizing w n with
  | ret a => exact hw
  | eff e k ih =>
    unfold Prog.runN
    split
    · cases n with
      | zero => exact hw
      | succ n => exact ih _ _ _ (h wi w e hw)
    · exact ih _ _ _ (h wi w e hw)
  | sub nm b k ihb ihk =>
    unfold Prog.runN
    have hb := ihb n w hw
    split
    · rename_i w' r n' heq; rw [heq] at hb; exact ihk _ _ _ hb
    · rename_i w' n' heq; rw [heq] at hb; exact hb
  | block o c r b d k ihb ihk =>
    unfold Prog.runN
    split
    · have hb := ihb n w hw
      split
      · rename_i w' r n' heq; rw [heq] at hb; exact ihk _ _ _ hb
      · rename_i w' n' heq; rw [heq] at hb; exact hb
    · exact ihk _ _ _ hw
  | loop s f i body k ihb ihk =>
    unfold Prog.runN
    have hl := loopRunN_inv (fun st b w' => (body st).runN wi b w') (fun st b w' hw' => ihb st b w' hw') f i n w hw
    split
    · rename_i w' r n' heq; rw [heq] at hl; exact ihk _ _ _ hl
    · rename_i w' n' heq; rw [heq] at hl; exact hl

theorem EffInv.runPM {P : World → Prop} (h : EffInv P) {α : Type} (wi : Nat) (p : PM α) (w : World) (hw : P w) :
    P (runPM wi p w).1 := h.run wi _ w hw

end Gonuts.Model.WalletBooks
