import Gonuts.Model.Amount
/-! Helper lemmas about the amount arithmetic (`Model.Amount`). -/
namespace Gonuts.Model

theorem overflowAdd_ok_iff (a b : UInt64) :
    (overflowAdd a b).2 = false ↔ a.toNat + b.toNat < 2 ^ 64 := by
  unfold overflowAdd
  simp only []
  have ha := a.toNat_lt
  have hb := b.toNat_lt
  by_cases h : a.toNat + b.toNat < 2 ^ 64
  · have hs : (a + b).toNat = a.toNat + b.toNat := by
      rw [UInt64.toNat_add]; exact Nat.mod_eq_of_lt h
    have h1 : ¬ (a + b < a) := by rw [UInt64.lt_iff_toNat_lt]; omega
    have h2 : ¬ (a + b < b) := by rw [UInt64.lt_iff_toNat_lt]; omega
    simp [h1, h2, h]
  · have hs : (a + b).toNat = a.toNat + b.toNat - 2 ^ 64 := by
      rw [UInt64.toNat_add]
      have : a.toNat + b.toNat < 2 * 2 ^ 64 := by omega
      omega
    have h1 : a + b < a := by rw [UInt64.lt_iff_toNat_lt]; omega
    simp [h1, h]

theorem overflowAdd_ok_val (a b : UInt64) (h : (overflowAdd a b).2 = false) :
    (overflowAdd a b).1.toNat = a.toNat + b.toNat := by
  have hlt := (overflowAdd_ok_iff a b).1 h
  unfold overflowAdd at h ⊢
  simp only [] at h ⊢
  split
  · rename_i hc; simp [hc] at h
  · simp only []; rw [UInt64.toNat_add]; exact Nat.mod_eq_of_lt hlt

theorem underflowSub_ok_iff (a b : UInt64) :
    (underflowSub a b).2 = false ↔ b.toNat ≤ a.toNat := by
  unfold underflowSub
  by_cases h : b > a
  · have : a.toNat < b.toNat := by rwa [gt_iff_lt, UInt64.lt_iff_toNat_lt] at h
    simp [h]; omega
  · have : ¬ a.toNat < b.toNat := by rwa [gt_iff_lt, UInt64.lt_iff_toNat_lt] at h
    simp [h]; omega

theorem underflowSub_ok_val (a b : UInt64) (h : (underflowSub a b).2 = false) :
    (underflowSub a b).1.toNat = a.toNat - b.toNat := by
  have hle := (underflowSub_ok_iff a b).1 h
  unfold underflowSub at h ⊢
  split
  · rename_i hc; simp [hc] at h
  · simp only []
    rw [UInt64.toNat_sub_of_le]
    rw [UInt64.le_iff_toNat_le]; exact hle

/-- Nat-valued sum of a list of amounts. -/
def natSum (xs : List UInt64) : Nat := (xs.map UInt64.toNat).sum

theorem amountChecked_go_spec (acc : UInt64) (xs : List UInt64) :
    (amountChecked.go acc xs = none ↔ 2 ^ 64 ≤ acc.toNat + natSum xs) ∧
    (∀ r, amountChecked.go acc xs = some r → r.toNat = acc.toNat + natSum xs) := by
  induction xs generalizing acc with
  | nil =>
    have := acc.toNat_lt
    simp [amountChecked.go, natSum]; omega
  | cons x rest ih =>
    simp only [amountChecked.go, natSum, List.map_cons, List.sum_cons]
    by_cases ho : (overflowAdd acc x).2 = false
    · have hv := overflowAdd_ok_val acc x ho
      have hlt := (overflowAdd_ok_iff acc x).1 ho
      simp only [ho]
      have := ih (overflowAdd acc x).1
      simp only [natSum] at this
      rw [hv] at this
      constructor
      · simp only [Bool.false_eq_true, if_false]; rw [this.1]; omega
      · intro r hr; simp only [Bool.false_eq_true, if_false] at hr; rw [this.2 r hr]; omega
    · have ho' : (overflowAdd acc x).2 = true := by simpa using ho
      have hge : ¬ (acc.toNat + x.toNat < 2 ^ 64) := fun h => by
        have := (overflowAdd_ok_iff acc x).2 h; simp [ho'] at this
      simp only [ho', if_true]
      constructor
      · simp; omega
      · intro r hr; simp at hr

/-- `AmountChecked` fails exactly when the true (ℕ) sum does not fit in 64 bits … -/
theorem amountChecked_none_iff (xs : List UInt64) :
    amountChecked xs = none ↔ 2 ^ 64 ≤ natSum xs := by
  have := (amountChecked_go_spec 0 xs).1
  simpa [amountChecked] using this

/-- … and otherwise returns the true sum. -/
theorem amountChecked_some (xs : List UInt64) (r : UInt64) (h : amountChecked xs = some r) :
    r.toNat = natSum xs := by
  have := (amountChecked_go_spec 0 xs).2 r
  simpa [amountChecked] using this h

theorem amountWrap_foldl (acc : UInt64) (xs : List UInt64) :
    (xs.foldl (· + ·) acc).toNat = (acc.toNat + natSum xs) % 2 ^ 64 := by
  induction xs generalizing acc with
  | nil => simp [natSum, Nat.mod_eq_of_lt acc.toNat_lt]
  | cons x rest ih =>
    simp only [List.foldl_cons, natSum, List.map_cons, List.sum_cons]
    rw [ih, UInt64.toNat_add]
    simp only [natSum]
    omega

/-- The unchecked `Amount()` is the true sum modulo 2^64. -/
theorem amountWrap_toNat (xs : List UInt64) : (amountWrap xs).toNat = natSum xs % 2 ^ 64 := by
  simpa [amountWrap] using amountWrap_foldl 0 xs

theorem amountWrap_exact (xs : List UInt64) (h : natSum xs < 2 ^ 64) :
    (amountWrap xs).toNat = natSum xs := by
  rw [amountWrap_toNat, Nat.mod_eq_of_lt h]

/-! ## `natSum` algebra -/

@[simp] theorem natSum_nil : natSum [] = 0 := rfl
@[simp] theorem natSum_cons (x : UInt64) (xs : List UInt64) : natSum (x :: xs) = x.toNat + natSum xs := by
  simp [natSum]
theorem natSum_append (xs ys : List UInt64) : natSum (xs ++ ys) = natSum xs + natSum ys := by
  simp [natSum, List.sum_append]
theorem natSum_perm {xs ys : List UInt64} (h : xs.Perm ys) : natSum xs = natSum ys :=
  (h.map UInt64.toNat).sum_nat
theorem natSum_replicate (n : Nat) (x : UInt64) : natSum (List.replicate n x) = n * x.toNat := by
  induction n with
  | zero => simp
  | succ n ih => rw [List.replicate_succ, natSum_cons, ih, Nat.succ_mul]; omega

/-! ## the fee formula `(fees + 999) / 1000` -/

/-- `⌈s / 1000⌉` as Go writes it. -/
def ceilDiv1000 (s : Nat) : Nat := (s + 999) / 1000

/-- It is the ceiling: the least `n` with `s ≤ 1000 n`. -/
theorem ceilDiv1000_spec (s : Nat) : s ≤ 1000 * ceilDiv1000 s ∧ 1000 * ceilDiv1000 s < s + 1000 := by
  unfold ceilDiv1000; omega
theorem ceilDiv1000_least (s n : Nat) (h : s ≤ 1000 * n) : ceilDiv1000 s ≤ n := by
  unfold ceilDiv1000; omega
theorem ceilDiv1000_mono {a b : Nat} (h : a ≤ b) : ceilDiv1000 a ≤ ceilDiv1000 b := by
  unfold ceilDiv1000; omega
/-- `⌈a⌉ + ⌈b⌉ ≥ ⌈a + b⌉` … -/
theorem ceilDiv1000_add_le (a b : Nat) : ceilDiv1000 (a + b) ≤ ceilDiv1000 a + ceilDiv1000 b := by
  unfold ceilDiv1000; omega
/-- … and by at most one. -/
theorem ceilDiv1000_add_ge (a b : Nat) : ceilDiv1000 a + ceilDiv1000 b ≤ ceilDiv1000 (a + b) + 1 := by
  unfold ceilDiv1000; omega

/-- `feesOfPpks` for every input: both the accumulation and the `+ 999` wrap modulo 2^64. -/
theorem feesOfPpks_toNat (l : List UInt64) :
    (feesOfPpks l).toNat = ((natSum l % 2 ^ 64 + 999) % 2 ^ 64) / 1000 := by
  unfold feesOfPpks
  rw [UInt64.toNat_div, UInt64.toNat_add, amountWrap_toNat]
  rfl

/-- Without wrap-around it is `⌈Σ ppk / 1000⌉`. -/
theorem feesOfPpks_exact (l : List UInt64) (h : natSum l + 999 < 2 ^ 64) :
    (feesOfPpks l).toNat = ceilDiv1000 (natSum l) := by
  rw [feesOfPpks_toNat, Nat.mod_eq_of_lt (by omega : natSum l < 2 ^ 64), Nat.mod_eq_of_lt h]
  rfl

/-! ## `AmountSplit` -/

/-- The exponents `AmountSplit` emits (same recursion as `amountSplitAux`). -/
def splitExps : Nat → Nat → Nat → List Nat
  | 0, _, _ => []
  | fuel + 1, pos, amount =>
    if amount = 0 then []
    else
      let rest := splitExps fuel (pos + 1) (amount / 2)
      if amount % 2 = 1 then pos :: rest else rest

theorem amountSplitAux_eq_map (fuel pos n : Nat) :
    amountSplitAux fuel pos n = (splitExps fuel pos n).map (2 ^ ·) := by
  induction fuel generalizing pos n with
  | zero => simp [amountSplitAux, splitExps]
  | succ fuel ih =>
    simp only [amountSplitAux, splitExps]
    split
    · simp
    · split <;> simp [ih]

theorem splitExps_bounds (fuel pos n : Nat) : ∀ e ∈ splitExps fuel pos n, pos ≤ e ∧ e < pos + fuel := by
  induction fuel generalizing pos n with
  | zero => simp [splitExps]
  | succ fuel ih =>
    intro e he
    simp only [splitExps] at he
    split at he
    · simp at he
    · split at he
      · rcases List.mem_cons.1 he with h | h
        · omega
        · have := ih _ _ e h; omega
      · have := ih _ _ e he; omega

theorem splitExps_pairwise (fuel pos n : Nat) : (splitExps fuel pos n).Pairwise (· < ·) := by
  induction fuel generalizing pos n with
  | zero => simp [splitExps]
  | succ fuel ih =>
    simp only [splitExps]
    split
    · simp
    · split
      · refine List.pairwise_cons.2 ⟨?_, ih _ _⟩
        intro e he
        have := splitExps_bounds _ _ _ e he; omega
      · exact ih _ _

theorem splitExps_sum (fuel pos n : Nat) (h : n < 2 ^ fuel) :
    ((splitExps fuel pos n).map (2 ^ ·)).sum = n * 2 ^ pos := by
  induction fuel generalizing pos n with
  | zero =>
    have : n = 0 := by simpa using h
    simp [splitExps, this]
  | succ fuel ih =>
    simp only [splitExps]
    split
    · rename_i h0; simp [h0]
    · have hq : n / 2 < 2 ^ fuel := by rw [Nat.pow_succ] at h; omega
      have ihq := ih (pos + 1) (n / 2) hq
      rw [Nat.pow_succ] at ihq
      split
      · rename_i h1
        simp only [List.map_cons, List.sum_cons, ihq]
        have hn : n = 2 * (n / 2) + 1 := by omega
        generalize n / 2 = q at hn ihq
        subst hn
        have e1 : q * (2 ^ pos * 2) = 2 * (q * 2 ^ pos) := by rw [Nat.mul_comm (2 ^ pos) 2, Nat.mul_left_comm]
        have e2 : (2 * q + 1) * 2 ^ pos = 2 * (q * 2 ^ pos) + 2 ^ pos := by
          rw [Nat.add_mul, Nat.mul_assoc, Nat.one_mul]
        omega
      · rename_i h1
        rw [ihq]
        have hn : n = 2 * (n / 2) := by omega
        generalize n / 2 = q at hn
        subst hn
        have e1 : q * (2 ^ pos * 2) = 2 * (q * 2 ^ pos) := by rw [Nat.mul_comm (2 ^ pos) 2, Nat.mul_left_comm]
        have e2 : (2 * q) * 2 ^ pos = 2 * (q * 2 ^ pos) := by rw [Nat.mul_assoc]
        omega

/-- The exponents of `amountSplit a`. -/
def amountSplitExps (a : UInt64) : List Nat := splitExps 64 0 a.toNat

theorem amountSplit_eq_map (a : UInt64) :
    amountSplit a = (amountSplitExps a).map (fun e => UInt64.ofNat (2 ^ e)) := by
  simp [amountSplit, amountSplitExps, amountSplitAux_eq_map, List.map_map, Function.comp_def]

theorem amountSplitExps_lt (a : UInt64) : ∀ e ∈ amountSplitExps a, e < 64 := by
  intro e he
  have := splitExps_bounds 64 0 a.toNat e he; omega

theorem amountSplitExps_pairwise (a : UInt64) : (amountSplitExps a).Pairwise (· < ·) :=
  splitExps_pairwise _ _ _

theorem toNat_ofNat_pow2 {e : Nat} (he : e < 64) : (UInt64.ofNat (2 ^ e)).toNat = 2 ^ e :=
  UInt64.toNat_ofNat_of_lt' (Nat.pow_lt_pow_right (by decide) he)

/-- Σ AmountSplit(a) = a, in ℕ (no entry and no partial sum wraps). -/
theorem amountSplit_natSum (a : UInt64) : natSum (amountSplit a) = a.toNat := by
  have hs := splitExps_sum 64 0 a.toNat a.toNat_lt
  rw [amountSplit_eq_map, natSum, List.map_map]
  have : (amountSplitExps a).map (UInt64.toNat ∘ fun e => UInt64.ofNat (2 ^ e)) = (amountSplitExps a).map (2 ^ ·) := by
    apply List.map_congr_left
    intro e he
    exact toNat_ofNat_pow2 (amountSplitExps_lt a e he)
  rw [this]
  simpa [amountSplitExps] using hs

theorem amountSplit_length (a : UInt64) : (amountSplit a).length = (amountSplitExps a).length := by
  simp [amountSplit_eq_map]

/-- Every entry of `amountSplit a` is at most `a` (so at most 2^64-1) and positive. -/
theorem amountSplit_mem_pow2 (a : UInt64) : ∀ x ∈ amountSplit a, ∃ e, e < 64 ∧ x.toNat = 2 ^ e := by
  intro x hx
  rw [amountSplit_eq_map] at hx
  obtain ⟨e, he, rfl⟩ := List.mem_map.1 hx
  exact ⟨e, amountSplitExps_lt a e he, toNat_ofNat_pow2 (amountSplitExps_lt a e he)⟩

/-- The entries ascend strictly (as `UInt64`). -/
theorem amountSplit_pairwise_lt (a : UInt64) : (amountSplit a).Pairwise (· < ·) := by
  rw [amountSplit_eq_map, List.pairwise_map]
  refine (amountSplitExps_pairwise a).imp_of_mem ?_
  intro e f he hf hlt
  rw [UInt64.lt_iff_toNat_lt, toNat_ofNat_pow2 (amountSplitExps_lt a e he), toNat_ofNat_pow2 (amountSplitExps_lt a f hf)]
  exact Nat.pow_lt_pow_right (by decide) hlt

end Gonuts.Model
