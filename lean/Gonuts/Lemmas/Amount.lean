import Gonuts.Model.Amount
/-! Helper lemmas about the amount arithmetic (`Model.Amount`). -/
namespace Gonuts.Model

theorem overflowAdd_ok_iff (a b : UInt64) :
    (overflowAdd a b).2 = false ↔ a.toNat + b.toNat < 2 ^ 64 := by
  unfold overflowAdd
  simp only []
  have ha := a.toNat_lt
  have hb := b.toNat_lt
  by_cases h : a.toNat + b.toNat < 2 ^ 64
  · have hs : (a + b).toNat = a.toNat + b.toNat := by
      rw [UInt64.toNat_add]; exact Nat.mod_eq_of_lt h
    have h1 : ¬ (a + b < a) := by rw [UInt64.lt_iff_toNat_lt]; omega
    have h2 : ¬ (a + b < b) := by rw [UInt64.lt_iff_toNat_lt]; omega
    simp [h1, h2, h]
  · have hs : (a + b).toNat = a.toNat + b.toNat - 2 ^ 64 := by
      rw [UInt64.toNat_add]
      have : a.toNat + b.toNat < 2 * 2 ^ 64 := by omega
      omega
    have h1 : a + b < a := by rw [UInt64.lt_iff_toNat_lt]; omega
    simp [h1, h]

theorem overflowAdd_ok_val (a b : UInt64) (h : (overflowAdd a b).2 = false) :
    (overflowAdd a b).1.toNat = a.toNat + b.toNat := by
  have hlt := (overflowAdd_ok_iff a b).1 h
  unfold overflowAdd at h ⊢
  simp only [] at h ⊢
  split
  · rename_i hc; simp [hc] at h
  · simp only []; rw [UInt64.toNat_add]; exact Nat.mod_eq_of_lt hlt

theorem underflowSub_ok_iff (a b : UInt64) :
    (underflowSub a b).2 = false ↔ b.toNat ≤ a.toNat := by
  unfold underflowSub
  by_cases h : b > a
  · have : a.toNat < b.toNat := by rwa [gt_iff_lt, UInt64.lt_iff_toNat_lt] at h
    simp [h]; omega
  · have : ¬ a.toNat < b.toNat := by rwa [gt_iff_lt, UInt64.lt_iff_toNat_lt] at h
    simp [h]; omega

theorem underflowSub_ok_val (a b : UInt64) (h : (underflowSub a b).2 = false) :
    (underflowSub a b).1.toNat = a.toNat - b.toNat := by
  have hle := (underflowSub_ok_iff a b).1 h
  unfold underflowSub at h ⊢
  split
  · rename_i hc; simp [hc] at h
  · simp only []
    rw [UInt64.toNat_sub_of_le]
    rw [UInt64.le_iff_toNat_le]; exact hle

/-- Nat-valued sum of a list of amounts. -/
def natSum (xs : List UInt64) : Nat := (xs.map UInt64.toNat).sum

theorem amountChecked_go_spec (acc : UInt64) (xs : List UInt64) :
    (amountChecked.go acc xs = none ↔ 2 ^ 64 ≤ acc.toNat + natSum xs) ∧
    (∀ r, amountChecked.go acc xs = some r → r.toNat = acc.toNat + natSum xs) := by
  induction xs generalizing acc with
  | nil =>
    have := acc.toNat_lt
    simp [amountChecked.go, natSum]; omega
  | cons x rest ih =>
    simp only [amountChecked.go, natSum, List.map_cons, List.sum_cons]
    by_cases ho : (overflowAdd acc x).2 = false
    · have hv := overflowAdd_ok_val acc x ho
      have hlt := (overflowAdd_ok_iff acc x).1 ho
      simp only [ho]
      have := ih (overflowAdd acc x).1
      simp only [natSum] at this
      rw [hv] at this
      constructor
      · simp only [Bool.false_eq_true, if_false]; rw [this.1]; omega
      · intro r hr; simp only [Bool.false_eq_true, if_false] at hr; rw [this.2 r hr]; omega
    · have ho' : (overflowAdd acc x).2 = true := by simpa using ho
      have hge : ¬ (acc.toNat + x.toNat < 2 ^ 64) := fun h => by
        have := (overflowAdd_ok_iff acc x).2 h; simp [ho'] at this
      simp only [ho', if_true]
      constructor
      · simp; omega
      · intro r hr; simp at hr

/-- `AmountChecked` fails exactly when the true (ℕ) sum does not fit in 64 bits … -/
theorem amountChecked_none_iff (xs : List UInt64) :
    amountChecked xs = none ↔ 2 ^ 64 ≤ natSum xs := by
  have := (amountChecked_go_spec 0 xs).1
  simpa [amountChecked] using this

/-- … and otherwise returns the true sum. -/
theorem amountChecked_some (xs : List UInt64) (r : UInt64) (h : amountChecked xs = some r) :
    r.toNat = natSum xs := by
  have := (amountChecked_go_spec 0 xs).2 r
  simpa [amountChecked] using this h

theorem amountWrap_foldl (acc : UInt64) (xs : List UInt64) :
    (xs.foldl (· + ·) acc).toNat = (acc.toNat + natSum xs) % 2 ^ 64 := by
  induction xs generalizing acc with
  | nil => simp [natSum, Nat.mod_eq_of_lt acc.toNat_lt]
  | cons x rest ih =>
    simp only [List.foldl_cons, natSum, List.map_cons, List.sum_cons]
    rw [ih, UInt64.toNat_add]
    simp only [natSum]
    omega

/-- The unchecked `Amount()` is the true sum modulo 2^64. -/
theorem amountWrap_toNat (xs : List UInt64) : (amountWrap xs).toNat = natSum xs % 2 ^ 64 := by
  simpa [amountWrap] using amountWrap_foldl 0 xs

theorem amountWrap_exact (xs : List UInt64) (h : natSum xs < 2 ^ 64) :
    (amountWrap xs).toNat = natSum xs := by
  rw [amountWrap_toNat, Nat.mod_eq_of_lt h]

end Gonuts.Model
