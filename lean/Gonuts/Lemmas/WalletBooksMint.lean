import Gonuts.Lemmas.WalletBooksEff
/-!
  Invariants of the abstract honest mint, preserved by every request (hence by every effect of every wallet
  program, every history, every crash prefix):

  * no output (`B_`) is signed twice;
  * spent secrets are pairwise distinct, secrets locked by a melt are pairwise distinct, no secret is both;
  * every spent / locked secret was signed by this mint with that amount.
-/
namespace Gonuts.Model.WalletBooks
namespace MintView

theorem dupSecrets_false_nodup : ∀ {l : List SId}, dupSecrets l = false → l.Nodup
  | [], _ => List.nodup_nil
  | s :: rest, h => by
    simp only [dupSecrets, Bool.or_eq_false_iff] at h
    rw [List.nodup_cons]
    refine ⟨?_, dupSecrets_false_nodup h.2⟩
    intro hm
    have : rest.contains s = true := by simpa using hm
    rw [this] at h
    exact absurd h.1 (by decide)

structure OK (m : MintView) : Prop where
  sigsOnce : (m.sigs.map (·.out)).Nodup
  spentNodup : (m.spent.map (·.1)).Nodup
  pendNodup : (m.pending.map (·.1)).Nodup
  disj : ∀ s, s ∈ m.spent.map (·.1) → s ∉ m.pending.map (·.1)
  spentSigned : ∀ r ∈ m.spent, ∃ sg ∈ m.sigs, sg.out = r.1 ∧ sg.amount = r.2
  pendSigned : ∀ r ∈ m.pending, ∃ sg ∈ m.sigs, sg.out = r.1 ∧ sg.amount = r.2.1
  quoteOuts : ∀ q ∈ m.meltQ, (q.outs.map (·.secret)).Nodup

theorem isSpent_iff (m : MintView) (s : SId) : m.isSpent s = true ↔ s ∈ m.spent.map (·.1) := by
  unfold isSpent
  simp only [List.any_eq_true, beq_iff_eq, List.mem_map]

theorem isPending_iff (m : MintView) (s : SId) : m.isPending s = true ↔ s ∈ m.pending.map (·.1) := by
  unfold isPending
  simp only [List.any_eq_true, beq_iff_eq, List.mem_map]

theorem isSigned_iff (m : MintView) (s : SId) : m.isSigned s = true ↔ s ∈ m.sigs.map (·.out) := by
  unfold isSigned
  simp only [List.any_eq_true, beq_iff_eq, List.mem_map]

/-- What an accepted input list satisfies. -/
structure InputsOK (m : MintView) (ins : List WProof) : Prop where
  nonempty : ins ≠ []
  notPending : ∀ p ∈ ins, p.secret ∉ m.pending.map (·.1)
  notSpent : ∀ p ∈ ins, p.secret ∉ m.spent.map (·.1)
  nodup : (ins.map (·.secret)).Nodup
  genuine : ∀ p ∈ ins, m.genuine p = true

theorem verifyInputs_none {m : MintView} {ins : List WProof} (h : m.verifyInputs ins = none) : InputsOK m ins := by
  unfold verifyInputs at h
  split at h; · cases h
  split at h; · cases h
  split at h; · cases h
  split at h; · cases h
  split at h; · cases h
  split at h; · cases h
  rename_i h1 h2 h3 h4 _ h6
  refine ⟨by simpa using h1, ?_, ?_, dupSecrets_false_nodup (by simpa using h4), ?_⟩
  · intro p hp hm
    apply h2
    simp only [List.any_eq_true]
    exact ⟨p, hp, (isPending_iff m _).2 hm⟩
  · intro p hp hm
    apply h3
    simp only [List.any_eq_true]
    exact ⟨p, hp, (isSpent_iff m _).2 hm⟩
  · intro p hp
    cases hg : m.genuine p with
    | true => rfl
    | false =>
      exfalso
      apply h6
      simp only [List.any_eq_true, Bool.not_eq_true']
      exact ⟨p, hp, hg⟩

structure OutputsOK (m : MintView) (outs : List Out) : Prop where
  nodup : (outs.map (·.secret)).Nodup
  fresh : ∀ o ∈ outs, o.secret ∉ m.sigs.map (·.out)
  active : ∀ o ∈ outs, m.isActive o.ks = true

theorem verifyOutputs_none {m : MintView} {outs : List Out} (h : m.verifyOutputs outs = none) : OutputsOK m outs := by
  unfold verifyOutputs at h
  split at h; · cases h
  split at h; · cases h
  split at h; · cases h
  split at h; · cases h
  rename_i h1 h2 _ h4
  refine ⟨dupSecrets_false_nodup (by simpa using h1), ?_, ?_⟩
  · intro o ho hm
    apply h2
    simp only [List.any_eq_true]
    exact ⟨o, ho, (isSigned_iff m _).2 hm⟩
  · intro o ho
    cases hn : m.isActive o.ks with
    | true => rfl
    | false =>
      exfalso
      apply h4
      simp only [List.any_eq_true, Bool.not_eq_true']
      exact ⟨o, ho, hn⟩

theorem genuine_sig {m : MintView} {p : WProof} (h : m.genuine p = true) :
    ∃ sg ∈ m.sigs, sg.out = p.secret ∧ sg.amount = p.amount := by
  unfold genuine at h
  simp only [List.any_eq_true, Bool.and_eq_true, beq_iff_eq] at h
  obtain ⟨sg, hsg, ⟨h1, h2⟩, _⟩ := h
  exact ⟨sg, hsg, h1, h2⟩

@[simp] theorem sigsOf_outs (outs : List Out) : (sigsOf outs).map (·.out) = outs.map (·.secret) := by
  unfold sigsOf; simp [List.map_map, Function.comp]

theorem nodup_append_of {α : Type} {a b : List α} (ha : a.Nodup) (hb : b.Nodup) (hd : ∀ x ∈ b, x ∉ a) : (a ++ b).Nodup := by
  rw [List.nodup_append]
  refine ⟨ha, hb, ?_⟩
  intro x hx y hy heq
  subst heq
  exact hd x hy hx

/-- Adding signatures for verified outputs. -/
theorem OK.addSigs {m : MintView} (h : m.OK) {outs : List Out} (ho : OutputsOK m outs) (m' : MintView)
    (hs : m'.sigs = m.sigs ++ sigsOf outs) (hsp : m'.spent = m.spent) (hp : m'.pending = m.pending)
    (hq : m'.meltQ = m.meltQ) : m'.OK := by
  refine ⟨?_, by rw [hsp]; exact h.spentNodup, by rw [hp]; exact h.pendNodup, by rw [hsp, hp]; exact h.disj, ?_, ?_,
    by rw [hq]; exact h.quoteOuts⟩
  · rw [hs, List.map_append, sigsOf_outs]
    apply nodup_append_of h.sigsOnce ho.nodup
    intro x hx
    simp only [List.mem_map] at hx
    obtain ⟨o, ho', rfl⟩ := hx
    exact ho.fresh o ho'
  · rw [hsp, hs]
    intro r hr
    obtain ⟨sg, hsg, h1⟩ := h.spentSigned r hr
    exact ⟨sg, List.mem_append_left _ hsg, h1⟩
  · rw [hp, hs]
    intro r hr
    obtain ⟨sg, hsg, h1⟩ := h.pendSigned r hr
    exact ⟨sg, List.mem_append_left _ hsg, h1⟩

/-- Spending verified inputs. -/
theorem OK.spend {m : MintView} (h : m.OK) {ins : List WProof} (hi : InputsOK m ins) (m' : MintView)
    (hs : m'.sigs = m.sigs) (hsp : m'.spent = m.spent ++ ins.map (fun p => (p.secret, p.amount)))
    (hp : m'.pending = m.pending) (hq : m'.meltQ = m.meltQ) : m'.OK := by
  have hmap : (ins.map (fun p => (p.secret, p.amount))).map (·.1) = ins.map (·.secret) := by
    simp [List.map_map, Function.comp]
  refine ⟨by rw [hs]; exact h.sigsOnce, ?_, by rw [hp]; exact h.pendNodup, ?_, ?_, ?_, by rw [hq]; exact h.quoteOuts⟩
  · rw [hsp, List.map_append, hmap]
    apply nodup_append_of h.spentNodup hi.nodup
    intro x hx
    simp only [List.mem_map] at hx
    obtain ⟨p, hp', rfl⟩ := hx
    exact hi.notSpent p hp'
  · rw [hsp, hp, List.map_append, hmap]
    intro s hs'
    rcases List.mem_append.1 hs' with h1 | h1
    · exact h.disj s h1
    · simp only [List.mem_map] at h1
      obtain ⟨p, hp', rfl⟩ := h1
      exact hi.notPending p hp'
  · rw [hsp, hs]
    intro r hr
    rcases List.mem_append.1 hr with h1 | h1
    · exact h.spentSigned r h1
    · simp only [List.mem_map] at h1
      obtain ⟨p, hp', rfl⟩ := h1
      exact genuine_sig (hi.genuine p hp')
  · rw [hp, hs]; exact h.pendSigned

theorem OK.of_eq {m m' : MintView} (h : m.OK) (hs : m'.sigs = m.sigs) (hsp : m'.spent = m.spent)
    (hp : m'.pending = m.pending) (hq : ∀ q ∈ m'.meltQ, (q.outs.map (·.secret)).Nodup) : m'.OK :=
  ⟨by rw [hs]; exact h.sigsOnce, by rw [hsp]; exact h.spentNodup, by rw [hp]; exact h.pendNodup,
   by rw [hsp, hp]; exact h.disj, by rw [hsp, hs]; exact h.spentSigned, by rw [hp, hs]; exact h.pendSigned, hq⟩

/-- Locking verified inputs for a melt quote. -/
theorem OK.lock {m : MintView} (h : m.OK) {ins : List WProof} (hi : InputsOK m ins) (q : Nat) (m' : MintView)
    (hs : m'.sigs = m.sigs) (hsp : m'.spent = m.spent)
    (hp : m'.pending = m.pending ++ ins.map (fun p => (p.secret, p.amount, q)))
    (hq : ∀ x ∈ m'.meltQ, (x.outs.map (·.secret)).Nodup) : m'.OK := by
  have hmap : (ins.map (fun p => (p.secret, p.amount, q))).map (·.1) = ins.map (·.secret) := by
    simp [List.map_map, Function.comp]
  refine ⟨by rw [hs]; exact h.sigsOnce, by rw [hsp]; exact h.spentNodup, ?_, ?_, by rw [hsp, hs]; exact h.spentSigned, ?_, hq⟩
  · rw [hp, List.map_append, hmap]
    apply nodup_append_of h.pendNodup hi.nodup
    intro x hx
    simp only [List.mem_map] at hx
    obtain ⟨p, hp', rfl⟩ := hx
    exact hi.notPending p hp'
  · rw [hsp, hp, List.map_append, hmap]
    intro s hs' hm
    rcases List.mem_append.1 hm with h1 | h1
    · exact h.disj s hs' h1
    · simp only [List.mem_map] at h1
      obtain ⟨p, hp', rfl⟩ := h1
      exact hi.notSpent p hp' hs'
  · rw [hp, hs]
    intro r hr
    rcases List.mem_append.1 hr with h1 | h1
    · exact h.pendSigned r h1
    · simp only [List.mem_map] at h1
      obtain ⟨p, hp', rfl⟩ := h1
      exact genuine_sig (hi.genuine p hp')

@[simp] theorem noteReuse_sigs (m : MintView) (outs : List Out) : (m.noteReuse outs).sigs = m.sigs := rfl
@[simp] theorem noteReuse_spent (m : MintView) (outs : List Out) : (m.noteReuse outs).spent = m.spent := rfl
@[simp] theorem noteReuse_pending (m : MintView) (outs : List Out) : (m.noteReuse outs).pending = m.pending := rfl

theorem OK.noteReuse {m : MintView} (h : m.OK) (outs : List Out) : (m.noteReuse outs).OK := h.of_eq rfl rfl rfl h.quoteOuts

@[simp] theorem setMintQ_sigs (m : MintView) (id : Nat) (s : MQState) : (m.setMintQ id s).sigs = m.sigs := rfl
@[simp] theorem setMintQ_spent (m : MintView) (id : Nat) (s : MQState) : (m.setMintQ id s).spent = m.spent := rfl
@[simp] theorem setMintQ_pending (m : MintView) (id : Nat) (s : MQState) : (m.setMintQ id s).pending = m.pending := rfl
@[simp] theorem setMeltQ_sigs (m : MintView) (id : Nat) (f : MMeltQ → MMeltQ) : (m.setMeltQ id f).sigs = m.sigs := rfl
@[simp] theorem setMeltQ_spent (m : MintView) (id : Nat) (f : MMeltQ → MMeltQ) : (m.setMeltQ id f).spent = m.spent := rfl
@[simp] theorem setMeltQ_pending (m : MintView) (id : Nat) (f : MMeltQ → MMeltQ) : (m.setMeltQ id f).pending = m.pending := rfl

theorem OK.swap {m : MintView} (h : m.OK) (ins : List WProof) (outs : List Out) : (m.swap ins outs).1.OK := by
  unfold MintView.swap
  have h0 := h.noteReuse outs
  generalize m.noteReuse outs = m0 at h0
  simp only
  split
  · exact h0
  · split
    · exact h0
    · split
      · exact h0
      · split
        · exact h0
        · split
          · exact h0
          · split
            · exact h0
            · rename_i _ _ _ _ _ _ _ hin
              split
              · exact h0
              · rename_i hout
                split
                · exact h0
                · have hi := verifyInputs_none hin
                  have ho := verifyOutputs_none hout
                  have h1 : ({ m0 with spent := m0.spent ++ ins.map (fun p => (p.secret, p.amount)) } : MintView).OK :=
                    h0.spend hi _ rfl rfl rfl rfl
                  exact h1.addSigs ⟨ho.nodup, ho.fresh, ho.active⟩ _ rfl rfl rfl rfl

theorem OK.mint {m : MintView} (h : m.OK) (id : Nat) (outs : List Out) : (m.mint id outs).1.OK := by
  unfold MintView.mint
  have h0 := h.noteReuse outs
  generalize m.noteReuse outs = m0 at h0
  simp only
  split
  · exact h0
  · split
    · exact h0
    · split
      · exact h0
      · exact h0
      · split
        · exact h0
        · split
          · exact h0
          · split
            · exact h0
            · rename_i hout
              have ho := verifyOutputs_none hout
              exact h0.addSigs ho _ rfl rfl rfl rfl

theorem OK.mintQuote {m : MintView} (h : m.OK) (id : Nat) (a : UInt64) : (m.mintQuote id a).1.OK := by
  unfold MintView.mintQuote
  split
  · exact h
  · exact h.of_eq rfl rfl rfl h.quoteOuts

theorem OK.mintQuoteState {m : MintView} (h : m.OK) (id : Nat) : (m.mintQuoteState id).1.OK := by
  unfold MintView.mintQuoteState
  split <;> exact h

theorem OK.meltQuote {m : MintView} (h : m.OK) (id : Nat) (inv : InvRef) : (m.meltQuote id inv).1.OK := by
  unfold MintView.meltQuote
  split
  · exact h
  · split
    · exact h
    · refine h.of_eq rfl rfl rfl ?_
      intro q hq
      rcases List.mem_append.1 hq with h1 | h1
      · exact h.quoteOuts q h1
      · simp only [List.mem_singleton] at h1
        subst h1
        exact List.nodup_nil

theorem setMeltQ_quoteOuts {m : MintView} (h : ∀ q ∈ m.meltQ, (q.outs.map (·.secret)).Nodup) (id : Nat) (f : MMeltQ → MMeltQ)
    (hf : ∀ q, (q.outs.map (·.secret)).Nodup → ((f q).outs.map (·.secret)).Nodup) :
    ∀ q ∈ (m.setMeltQ id f).meltQ, (q.outs.map (·.secret)).Nodup := by
  intro q hq
  unfold setMeltQ at hq
  simp only [List.mem_map] at hq
  obtain ⟨x, hx, rfl⟩ := hq
  split
  · exact hf x (h x hx)
  · exact h x hx

theorem OK.settleUnpaid {m : MintView} (h : m.OK) (q : MMeltQ) : (m.settleUnpaid q).OK := by
  unfold MintView.settleUnpaid
  refine ⟨h.sigsOnce, h.spentNodup, ?_, ?_, h.spentSigned, ?_, setMeltQ_quoteOuts h.quoteOuts _ _ (fun _ hq => hq)⟩
  · exact filter_map_nodup _ _ _ h.pendNodup
  · intro s hs hm
    simp only [setMeltQ_pending, List.mem_map, List.mem_filter] at hm
    obtain ⟨r, ⟨hr, _⟩, rfl⟩ := hm
    exact h.disj _ hs (List.mem_map.2 ⟨r, hr, rfl⟩)
  · intro r hr
    simp only [setMeltQ_pending, List.mem_filter] at hr
    exact h.pendSigned r hr.1

theorem nodup_map_inj {α β : Type} {f : α → β} : ∀ {l : List α}, (l.map f).Nodup → ∀ {a b : α}, a ∈ l → b ∈ l → f a = f b → a = b
  | [], _, _, _, ha, _, _ => by cases ha
  | x :: rest, h, a, b, ha, hb, hab => by
    simp only [List.map_cons, List.nodup_cons, List.mem_map, not_exists, not_and] at h
    rcases List.mem_cons.1 ha with rfl | ha'
    · rcases List.mem_cons.1 hb with rfl | hb'
      · rfl
      · exact absurd hab.symm (h.1 b hb')
    · rcases List.mem_cons.1 hb with rfl | hb'
      · exact absurd hab (h.1 a ha')
      · exact nodup_map_inj h.2 ha' hb' hab

theorem map_fst_zip_sublist {α β : Type} : ∀ (l : List α) (l' : List β), ((l.zip l').map (·.1)).Sublist l
  | [], _ => by simp
  | _ :: _, [] => by simp
  | a :: l, b :: l' => by
    simp only [List.zip_cons_cons, List.map_cons]
    exact List.Sublist.cons_cons a (map_fst_zip_sublist l l')

theorem OK.settlePaid {m : MintView} (h : m.OK) (q : MMeltQ) (hq : (q.outs.map (·.secret)).Nodup) (refund : UInt64) :
    (m.settlePaid q refund).1.OK := by
  unfold MintView.settlePaid
  simp only
  refine ⟨?_, ?_, ?_, ?_, ?_, ?_, setMeltQ_quoteOuts h.quoteOuts _ _ (fun _ hx => hx)⟩
  · -- change is signed on outputs that are not signed yet, pairwise distinct
    simp only [setMeltQ_sigs, List.map_append, List.map_map]
    apply nodup_append_of h.sigsOnce
    · have hsub : (List.map ((fun x : Sig => x.out) ∘ fun (oa : Out × UInt64) => ({ out := oa.1.secret, amount := oa.2, ks := oa.1.ks } : Sig))
          (List.filter (fun (oa : Out × UInt64) => !m.isSigned oa.1.secret && m.isActive oa.1.ks)
            (q.outs.zip (if m.nut08 = true then changeAmounts refund q.outs.length else [])))).Sublist (q.outs.map (·.secret)) := by
        have h1 : (List.map ((fun x : Sig => x.out) ∘ fun (oa : Out × UInt64) => ({ out := oa.1.secret, amount := oa.2, ks := oa.1.ks } : Sig))
          (List.filter (fun (oa : Out × UInt64) => !m.isSigned oa.1.secret && m.isActive oa.1.ks)
            (q.outs.zip (if m.nut08 = true then changeAmounts refund q.outs.length else [])))) =
            ((List.filter (fun (oa : Out × UInt64) => !m.isSigned oa.1.secret && m.isActive oa.1.ks)
            (q.outs.zip (if m.nut08 = true then changeAmounts refund q.outs.length else []))).map (·.1)).map (·.secret) := by
          rw [List.map_map]; rfl
        rw [h1]
        apply List.Sublist.map
        exact List.Sublist.trans (List.Sublist.map _ List.filter_sublist) (map_fst_zip_sublist _ _)
      exact List.Nodup.sublist hsub hq
    · intro x hx
      simp only [List.mem_map, List.mem_filter, Function.comp, Bool.and_eq_true, Bool.not_eq_true'] at hx
      obtain ⟨oa, ⟨_, hns, _⟩, rfl⟩ := hx
      intro hm
      have := (isSigned_iff m oa.1.secret).2 (by simpa [List.map_map, Function.comp] using hm)
      rw [this] at hns
      cases hns
  · simp only [setMeltQ_spent, List.map_append, List.map_map]
    apply nodup_append_of h.spentNodup
    · have : (List.map ((fun x : SId × UInt64 => x.1) ∘ fun (r : SId × UInt64 × Nat) => (r.1, r.2.1))
          (List.filter (fun (r : SId × UInt64 × Nat) => r.2.2 == q.id) m.pending)) =
          (List.filter (fun (r : SId × UInt64 × Nat) => r.2.2 == q.id) m.pending).map (·.1) := by
        apply List.map_congr_left; intro r _; rfl
      rw [this]
      exact filter_map_nodup _ _ _ h.pendNodup
    · intro x hx hs
      simp only [List.mem_map, List.mem_filter, Function.comp] at hx
      obtain ⟨r, ⟨hr, _⟩, rfl⟩ := hx
      exact h.disj _ hs (List.mem_map.2 ⟨r, hr, rfl⟩)
  · simp only [setMeltQ_pending]
    exact filter_map_nodup _ _ _ h.pendNodup
  · simp only [setMeltQ_spent, setMeltQ_pending, List.map_append]
    intro s hs hm
    simp only [List.mem_map, List.mem_filter] at hm
    obtain ⟨r', ⟨hr', hne⟩, rfl⟩ := hm
    rcases List.mem_append.1 hs with h1 | h1
    · exact h.disj _ h1 (List.mem_map.2 ⟨r', hr', rfl⟩)
    · simp only [List.mem_map, List.mem_filter] at h1
      obtain ⟨x, ⟨r, ⟨hr, heq⟩, rfl⟩, hx⟩ := h1
      simp only at hx
      have := nodup_map_inj h.pendNodup hr hr' hx
      subst this
      simp only [beq_iff_eq] at heq
      simp only [bne_iff_ne, ne_eq] at hne
      exact hne heq
  · simp only [setMeltQ_spent, setMeltQ_sigs]
    intro r hr
    rcases List.mem_append.1 hr with h1 | h1
    · obtain ⟨sg, hsg, h2⟩ := h.spentSigned r h1
      exact ⟨sg, List.mem_append_left _ hsg, h2⟩
    · simp only [List.mem_map, List.mem_filter] at h1
      obtain ⟨x, ⟨hx, _⟩, rfl⟩ := h1
      obtain ⟨sg, hsg, h2⟩ := h.pendSigned x hx
      exact ⟨sg, List.mem_append_left _ hsg, h2⟩
  · simp only [setMeltQ_pending, setMeltQ_sigs]
    intro r hr
    simp only [List.mem_filter] at hr
    obtain ⟨sg, hsg, h2⟩ := h.pendSigned r hr.1
    exact ⟨sg, List.mem_append_left _ hsg, h2⟩

theorem find_mem {α : Type} {p : α → Bool} {l : List α} {a : α} (h : l.find? p = some a) : a ∈ l :=
  List.mem_of_find?_eq_some h

theorem OK.melt {m : MintView} (h : m.OK) (id : Nat) (ins : List WProof) (outs : List Out) (script : List LnAns) :
    (m.melt id ins outs script).1.OK := by
  unfold MintView.melt
  have h0 := h.noteReuse outs
  generalize m.noteReuse outs = m0 at h0
  simp only
  split
  · exact h0
  · rename_i q hfind
    split
    · exact h0
    · exact h0
    · split
      · exact h0
      · rename_i hin
        have hi := verifyInputs_none hin
        split
        · exact h0
        · rename_i hdup
          have hod : (outs.map (·.secret)).Nodup := dupSecrets_false_nodup (by simpa using hdup)
          split
          · exact h0
          · split
            · exact h0
            · have h1 : (({ m0 with pending := m0.pending ++ ins.map (fun (p : WProof) => (p.secret, p.amount, id)) } : MintView).setMeltQ id
                  (fun x => { x with state := .pending, outs := outs })).OK := by
                refine MintView.OK.lock h0 hi id _ ?_ ?_ ?_ ?_
                · rfl
                · rfl
                · rfl
                · exact setMeltQ_quoteOuts (m := { m0 with pending := m0.pending ++ ins.map (fun (p : WProof) => (p.secret, p.amount, id)) })
                    h0.quoteOuts _ _ (fun _ _ => hod)
              split
              · exact h1.settlePaid _ hod _
              · exact h1.settleUnpaid _
              · exact h1

theorem OK.meltQuoteState {m : MintView} (h : m.OK) (id : Nat) (script : List LnAns) :
    (m.meltQuoteState id script).1.OK := by
  unfold MintView.meltQuoteState
  split
  · exact h
  · rename_i q hfind
    have hq := h.quoteOuts q (find_mem hfind)
    split
    · split
      · exact h.settlePaid _ hq _
      · exact h.settleUnpaid _
      · exact h
    · exact h

theorem OK.checkStep {acc : MintView × List LnAns × List InvRef} (h : acc.1.OK) (q : Nat) : (checkStep acc q).1.OK :=
  h.meltQuoteState _ _

theorem OK.checkState {m : MintView} (h : m.OK) (ss : List SId) (script : List LnAns) :
    (m.checkState ss script).1.OK := by
  unfold MintView.checkState
  simp only
  generalize m.pendingQuotesOf ss = quotes
  suffices ∀ (acc : MintView × List LnAns × List InvRef), acc.1.OK → (quotes.foldl MintView.checkStep acc).1.OK from this _ h
  induction quotes with
  | nil => intro acc ha; exact ha
  | cons q rest ih =>
    intro acc ha
    simp only [List.foldl_cons]
    exact ih _ (OK.checkStep ha q)

theorem OK.rotate {m : MintView} (h : m.OK) (ks : KsId) (ppk : UInt64) : (m.rotate ks ppk).OK :=
  h.of_eq rfl rfl rfl h.quoteOuts

theorem OK.setMintQ {m : MintView} (h : m.OK) (id : Nat) (s : MQState) : (m.setMintQ id s).OK :=
  h.of_eq rfl rfl rfl h.quoteOuts

end MintView

/-! ## lifted to the world -/

def MintsOK (w : World) : Prop := ∀ m ∈ w.mints, m.OK

theorem MintView.OK_default : (default : MintView).OK :=
  ⟨List.nodup_nil, List.nodup_nil, List.nodup_nil, (fun _ h => by cases h), (fun _ h => by cases h),
   (fun _ h => by cases h), (fun _ h => by cases h)⟩

theorem World.mint_ok {w : World} (h : MintsOK w) (i : Nat) : (w.mint i).OK := by
  unfold World.mint
  by_cases hi : i < w.mints.length
  · have : w.mints.getD i default = w.mints[i] := by simp [List.getD, hi]
    rw [this]
    exact h _ (List.getElem_mem hi)
  · have : w.mints.getD i default = default := by
      simp only [List.getD_eq_getElem?_getD]
      rw [List.getElem?_eq_none (by omega)]
      rfl
    rw [this]
    exact MintView.OK_default

theorem MintsOK_setMint {w : World} (h : MintsOK w) (i : Nat) (m : MintView) (hm : m.OK) : MintsOK (w.setMint i m) := by
  intro y hy
  unfold World.setMint at hy
  rcases mem_set hy with h1 | h1
  · rw [h1]; exact hm
  · exact h y h1

theorem MintsOK_of_mints_eq {w w' : World} (h : MintsOK w) (he : w'.mints = w.mints) : MintsOK w' := by
  intro x hx; rw [he] at hx; exact h x hx

theorem MintsOK_payInvoice {w : World} (h : MintsOK w) (i : Option InvRef) : MintsOK (w.payInvoice i) := by
  unfold World.payInvoice
  split
  · apply MintsOK_setMint h
    exact (World.mint_ok h _).of_eq rfl rfl rfl (World.mint_ok h _).quoteOuts
  · exact h

theorem MintsOK_payInvoices {w : World} (h : MintsOK w) (is : List InvRef) : MintsOK (w.payInvoices is) := by
  unfold World.payInvoices
  induction is generalizing w with
  | nil => exact h
  | cons i rest ih => simp only [List.foldl_cons]; exact ih (MintsOK_payInvoice h (some i))

theorem MintsOK_exec : EffInv MintsOK := by
  intro β wi w e hw
  cases e
  case cInfo mi => rw [exec_cInfo]; split <;> exact hw
  case cKeysets mi => rw [exec_cKeysets]; split <;> exact hw
  case cKeysetById mi ks => rw [exec_cKeysetById]; split <;> exact hw
  case cMintQuote mi a =>
    rw [exec_cMintQuote]; split
    · exact MintsOK_of_mints_eq (MintsOK_setMint hw mi _ ((World.mint_ok hw mi).mintQuote _ _)) rfl
    · exact hw
  case cMintQuoteState mi q =>
    rw [exec_cMintQuoteState]; split
    · exact MintsOK_setMint hw mi _ ((World.mint_ok hw mi).mintQuoteState _)
    · exact hw
  case cMint mi q outs =>
    rw [exec_cMint]; split
    · exact MintsOK_setMint hw mi _ ((World.mint_ok hw mi).mint _ _)
    · exact hw
  case cSwap mi ins outs =>
    rw [exec_cSwap]; split
    · exact MintsOK_setMint hw mi _ ((World.mint_ok hw mi).swap _ _)
    · exact hw
  case cMeltQuote mi inv =>
    rw [exec_cMeltQuote]; split
    · exact MintsOK_of_mints_eq (MintsOK_setMint hw mi _ ((World.mint_ok hw mi).meltQuote _ _)) rfl
    · exact hw
  case cMeltQuoteState mi q =>
    rw [exec_cMeltQuoteState]; split
    · apply MintsOK_payInvoice
      exact MintsOK_of_mints_eq (MintsOK_setMint hw mi _ ((World.mint_ok hw mi).meltQuoteState _ _)) rfl
    · exact hw
  case cMelt mi q ins outs =>
    rw [exec_cMelt]; split
    · apply MintsOK_payInvoice
      exact MintsOK_of_mints_eq (MintsOK_setMint hw mi _ ((World.mint_ok hw mi).melt _ _ _ _)) rfl
    · exact hw
  case cCheckState mi ss =>
    rw [exec_cCheckState]; split
    · apply MintsOK_payInvoices
      exact MintsOK_of_mints_eq (MintsOK_setMint hw mi _ ((World.mint_ok hw mi).checkState _ _)) rfl
    · exact hw
  case cRestore mi outs => rw [exec_cRestore]; split <;> exact hw
  case incCounter ks n => rw [exec_incCounter]; split <;> exact hw
  all_goals exact hw

theorem MintsOK_opPre (w : World) (op : Op) (h : MintsOK w) : MintsOK (opPre w op) := by
  cases op <;> simp only [opPre] <;> try exact h
  case settle mi q => exact MintsOK_setMint h _ _ ((World.mint_ok h mi).setMintQ _ _)
  case rotate mi ks ppk => exact MintsOK_setMint h _ _ ((World.mint_ok h mi).rotate _ _)

theorem MintsOK_applyOp (sel : Sel) (w : World) (op : Op) (h : MintsOK w) : MintsOK (applyOp sel w op).1 := by
  unfold applyOp
  have h0 : MintsOK { (opPre w op) with script := opScript op } := MintsOK_of_mints_eq (MintsOK_opPre w op h) rfl
  simp only
  split
  · exact h0
  · exact MintsOK_exec.run _ _ _ h0

theorem MintsOK_applyOpN (sel : Sel) (w : World) (op : Op) (n : Nat) (h : MintsOK w) : MintsOK (applyOpN sel w op n).1 := by
  unfold applyOpN
  have h0 : MintsOK { (opPre w op) with script := opScript op } := MintsOK_of_mints_eq (MintsOK_opPre w op h) rfl
  simp only
  split
  · exact h0
  · rename_i wi p _
    have := MintsOK_exec.runN wi p.run n _ h0
    split
    · rename_i heq; rw [heq] at this; exact this
    · rename_i heq; rw [heq] at this; exact this

theorem MintsOK_runHist (sel : Sel) (w : World) (ops : List Op) (h : MintsOK w) : MintsOK (runHist sel w ops) := by
  unfold runHist
  induction ops generalizing w with
  | nil => exact h
  | cons op rest ih => exact ih _ (MintsOK_applyOp sel w op h)

end Gonuts.Model.WalletBooks
