import Gonuts.Spec.Hmac
import Gonuts.Lemmas.SpecBytes
/-! Output lengths and padding shape of the hash functions of `Gonuts.Spec` (core Lean only). -/
namespace Gonuts.Spec

/-- A SHA-256 digest is 32 bytes, whatever the message. -/
@[simp] theorem sha256_length (m : Bytes) : (sha256 m).length = 32 := by
  simp [sha256, Sha256.digest, Sha256.wordBytes]

/-- A SHA-512 digest is 64 bytes. -/
@[simp] theorem sha512_length (m : Bytes) : (sha512 m).length = 64 := by
  simp [sha512, Sha512.digest, Sha512.wordBytes]

/-- FIPS 180-4 §5.1.1: the padded message is a whole number of 512-bit blocks … -/
theorem Sha256.pad_length_mod (m : Bytes) : (Sha256.pad m).length % 64 = 0 := by
  simp only [Sha256.pad, List.length_append, List.length_cons, List.length_nil, List.length_replicate, natToBE_length]
  omega

/-- … it extends the message, and the padding is the shortest possible (at most one extra block). -/
theorem Sha256.pad_length_bounds (m : Bytes) :
    m.length + 9 ≤ (Sha256.pad m).length ∧ (Sha256.pad m).length < m.length + 9 + 64 := by
  simp only [Sha256.pad, List.length_append, List.length_cons, List.length_nil, List.length_replicate, natToBE_length]
  omega

theorem Sha256.pad_prefix (m : Bytes) : (Sha256.pad m).take m.length = m := by
  simp [Sha256.pad]

/-- FIPS 180-4 §5.1.2: whole number of 1024-bit blocks. -/
theorem Sha512.pad_length_mod (m : Bytes) : (Sha512.pad m).length % 128 = 0 := by
  simp only [Sha512.pad, List.length_append, List.length_cons, List.length_nil, List.length_replicate, natToBE_length]
  omega

theorem Sha512.pad_length_bounds (m : Bytes) :
    m.length + 17 ≤ (Sha512.pad m).length ∧ (Sha512.pad m).length < m.length + 17 + 128 := by
  simp only [Sha512.pad, List.length_append, List.length_cons, List.length_nil, List.length_replicate, natToBE_length]
  omega

/-- An HMAC-SHA512 tag is 64 bytes, whatever key and text. -/
@[simp] theorem hmacSha512_length (key text : Bytes) : (hmacSha512 key text).length = 64 := by
  simp [hmacSha512, hmac]

/-- RFC 2104: the key block is exactly `B` bytes when the hash output is not longer than `B`. -/
theorem hmacKey_length (H : Bytes → Bytes) (B L : Nat) (hH : ∀ m, (H m).length = L) (hL : L ≤ B) (key : Bytes) :
    (hmacKey H B key).length = B := by
  unfold hmacKey
  by_cases h : key.length > B
  · simp only [h, if_true, List.length_append, List.length_replicate, hH]; omega
  · simp only [h, if_false, List.length_append, List.length_replicate]; omega

end Gonuts.Spec
