import Gonuts.Model.Select
/-! `calculateBlankOutputs` (integer model): enough blank outputs for any change up to the fee reserve. -/
namespace Gonuts.Model.Select

theorem bitLen_spec (fuel n : Nat) (h : n < 2 ^ fuel) : n < 2 ^ bitLen fuel n := by
  induction fuel generalizing n with
  | zero => simp at h; simp [bitLen, h]
  | succ fuel ih =>
    unfold bitLen
    split
    · rename_i h0; simp [h0]
    · have := ih (n / 2) (by rw [Nat.pow_succ] at h; omega)
      rw [Nat.pow_succ]; omega

theorem bitLen_le (fuel n k : Nat) (h : n < 2 ^ k) : bitLen fuel n ≤ k := by
  induction fuel generalizing n k with
  | zero => simp [bitLen]
  | succ fuel ih =>
    unfold bitLen
    split
    · omega
    · rename_i h0
      cases k with
      | zero => simp at h; exact absurd h h0
      | succ k =>
        have := ih (n / 2) k (by rw [Nat.pow_succ] at h; omega)
        omega

theorem roundTo53_small {x : Nat} (h : x < 2 ^ 53) : roundTo53 x = x := by
  unfold roundTo53
  simp only []
  rw [if_pos (bitLen_le 64 x 53 h)]

/-- For fee reserves below 2^53 (exactly representable as float64) the number of blank outputs `n` satisfies
    `feeReserve ≤ 2^n`: every change amount up to the reserve fits `n` power-of-two outputs. -/
theorem calculateBlankOutputs_enough (x : UInt64) (hx : x.toNat < 2 ^ 53) :
    x.toNat ≤ 2 ^ calculateBlankOutputs x := by
  unfold calculateBlankOutputs
  split
  · rename_i h0; simp [h0]
  · simp only []
    rw [roundTo53_small hx]
    have h1 := bitLen_spec 65 (x.toNat - 1) (by omega)
    have h2 : 2 ^ bitLen 65 (x.toNat - 1) ≤ 2 ^ max (bitLen 65 (x.toNat - 1)) 1 :=
      Nat.pow_le_pow_right (by decide) (Nat.le_max_left _ _)
    omega

end Gonuts.Model.Select
