import Gonuts.Lemmas.MeltPay
/-!
  Every state a KILLED or FAULTED poll of a melt quote (`GetMeltQuoteState`, also run by the state check for every pending
  quote) can leave behind (`poll_crash_states`):

      nothing
      | succeeded path:  pending rows of some secrets removed  →  + some rows spent  →  + the quote PAID
      | failed path:     the quote UNPAID                      →  + pending rows of some secrets removed

  The second state of the succeeded path — inputs no longer locked and not yet spent although the payment went through — is
  the window of `C07.melt_safety_full_false`; the theorem says there is no OTHER partial state, for every quote, world,
  interruption point and armed fault.  Instance of `Lemmas/WriteShape.lean`.
-/
namespace Gonuts.Model.Mint

inductive GSt where
  | init
  | removed (ys : List Nat)
  | spent (ys : List Nat) (rows : List PRow)
  | paid (ys : List Nat) (rows : List PRow) (id pre : Nat)
  | unpaid (id : Nat)
  | unpaidRemoved (id : Nat) (ys : List Nat)

def pollStep : GSt → {β : Type} → Eff β → β → Option GSt
  | .init, _, .removePending ys, r => match r with | .ok _ => some (.removed ys) | .error _ => some .init
  | .init, _, .updateMeltQuote id pre st, r =>
    if pre = 0 ∧ st = .unpaid then (match r with | .ok _ => some (.unpaid id) | .error _ => some .init) else none
  | .removed ys, _, .saveProofs rows, r => match r with | .ok _ => some (.spent ys rows) | .error _ => some (.removed ys)
  | .spent ys rows, _, .updateMeltQuote id pre st, r =>
    if st = .paid then (match r with | .ok _ => some (.paid ys rows id pre) | .error _ => some (.spent ys rows)) else none
  | .unpaid id, _, .removePending ys, r => match r with | .ok _ => some (.unpaidRemoved id ys) | .error _ => some (.unpaid id)
  | _, _, _, _ => none

def pollAuto : WAuto := ⟨GSt, fun e => e.readOnly, fun _ h => h, pollStep⟩

def dropPending (db : DB) (ys : List Nat) : List PRow := db.pending.filter (fun r => !ys.contains r.y)

def pollRel (db0 : DB) : GSt → DB → Prop
  | .init, db => db = db0
  | .removed ys, db => db = { db0 with pending := dropPending db0 ys }
  | .spent ys rows, db => ∃ t, insertRows db0.spent rows = some t ∧ db = { db0 with pending := dropPending db0 ys, spent := t }
  | .paid ys rows id pre, db => ∃ t, insertRows db0.spent rows = some t ∧
      db = { db0 with pending := dropPending db0 ys, spent := t, meltQ := updMeltQ db0.meltQ id pre .paid }
  | .unpaid id, db => db = { db0 with meltQ := updMeltQ db0.meltQ id 0 .unpaid }
  | .unpaidRemoved id ys, db => db = { db0 with meltQ := updMeltQ db0.meltQ id 0 .unpaid, pending := dropPending db0 ys }

theorem exec_removePending_cases (w : World) (ys : List Nat) :
    ((exec w (.removePending ys)).2 = .ok () ∧
        (exec w (.removePending ys)).1.db = { w.db with pending := w.db.pending.filter (fun r => !ys.contains r.y) }) ∨
    ((∃ e, (exec w (.removePending ys)).2 = .error e) ∧ (exec w (.removePending ys)).1.db = w.db) := by
  unfold exec
  simp only [Eff.label]
  by_cases hf : (w.faultAt == some w.nDb) = true
  · right; simp [hf, Eff.faultValue]
  · left; simp [hf, execDb]

theorem exec_saveProofs_cases' (w : World) (rows : List PRow) :
    ((exec w (.saveProofs rows)).2 = .ok () ∧
        ∃ t, insertRows w.db.spent rows = some t ∧ (exec w (.saveProofs rows)).1.db = { w.db with spent := t }) ∨
    ((∃ e, (exec w (.saveProofs rows)).2 = .error e) ∧ (exec w (.saveProofs rows)).1.db = w.db) := by
  rcases exec_saveProofs_cases w rows with ⟨hok, t, hins, hdb⟩ | ⟨hno, hdb⟩
  · exact Or.inl ⟨hok, t, hins, hdb⟩
  · right
    refine ⟨?_, hdb⟩
    cases h : (exec w (.saveProofs rows)).2 with
    | ok u => cases u; exact absurd h hno
    | error e => exact ⟨e, rfl⟩

theorem poll_sound (db0 : DB) : Sound pollAuto (pollRel db0) := by
  intro a a' β e w hst hr
  cases a with
  | init =>
    cases e <;> simp only [pollAuto, pollStep] at hst <;> try cases hst
    · rename_i ys
      rcases exec_removePending_cases w ys with ⟨hok, hdb⟩ | ⟨⟨er, herr⟩, hdb⟩
      · rw [hok] at hst; cases hst
        simp only [pollRel] at hr ⊢; rw [hdb, hr]; rfl
      · rw [herr] at hst; cases hst
        simp only [pollRel] at hr ⊢; rw [hdb, hr]
    · rename_i id pre st
      by_cases hc : pre = 0 ∧ st = .unpaid
      · obtain ⟨rfl, rfl⟩ := hc
        simp only [and_self, if_true] at hst
        rcases exec_updMeltQ_cases w id 0 .unpaid with ⟨hok, hdb⟩ | ⟨⟨er, herr⟩, hdb⟩
        · rw [hok] at hst; cases hst
          simp only [pollRel] at hr ⊢; rw [hdb, hr]
        · rw [herr] at hst; cases hst
          simp only [pollRel] at hr ⊢; rw [hdb, hr]
      · simp [hc] at hst
  | removed ys =>
    cases e <;> simp only [pollAuto, pollStep] at hst <;> try cases hst
    rename_i rows
    rcases exec_saveProofs_cases' w rows with ⟨hok, t, hins, hdb⟩ | ⟨⟨er, herr⟩, hdb⟩
    · rw [hok] at hst; cases hst
      simp only [pollRel] at hr ⊢
      exact ⟨t, by rw [hr] at hins; exact hins, by rw [hdb, hr]⟩
    · rw [herr] at hst; cases hst
      simp only [pollRel] at hr ⊢; rw [hdb, hr]
  | spent ys rows =>
    cases e <;> simp only [pollAuto, pollStep] at hst <;> try cases hst
    rename_i id pre st
    by_cases hc : st = .paid
    · subst hc
      simp only [if_true] at hst
      obtain ⟨t, hins, hdb0⟩ := hr
      rcases exec_updMeltQ_cases w id pre .paid with ⟨hok, hdb⟩ | ⟨⟨er, herr⟩, hdb⟩
      · rw [hok] at hst; cases hst
        exact ⟨t, hins, by rw [hdb, hdb0]⟩
      · rw [herr] at hst; cases hst
        exact ⟨t, hins, by rw [hdb, hdb0]⟩
    · simp [hc] at hst
  | paid ys rows id pre => cases e <;> simp only [pollAuto, pollStep] at hst <;> cases hst
  | unpaid id =>
    cases e <;> simp only [pollAuto, pollStep] at hst <;> try cases hst
    rename_i ys
    rcases exec_removePending_cases w ys with ⟨hok, hdb⟩ | ⟨⟨er, herr⟩, hdb⟩
    · rw [hok] at hst; cases hst
      simp only [pollRel] at hr ⊢; rw [hdb, hr]; rfl
    · rw [herr] at hst; cases hst
      simp only [pollRel] at hr ⊢; rw [hdb, hr]
  | unpaidRemoved id ys => cases e <;> simp only [pollAuto, pollStep] at hst <;> cases hst

/-! ## the shape of `GetMeltQuoteState` -/

theorem conf_removePendingForQuote_init (qid : Nat) :
    Conf pollAuto (fun r a => match r with | .ok _ => ∃ ys, a = GSt.removed ys | .error _ => a = GSt.init) .init
      (removePendingForQuote qid).run := by
  unfold removePendingForQuote
  refine Conf.pmBind pollAuto (fun _ a' => a' = GSt.init) _ _ _ _ (conf_noWrites pollAuto (fun _ h => h) _ (noWrites_dbTry _ rfl) _) ?_
    (fun _ _ h => h)
  intro rows a' ha; subst ha
  refine Conf.pmBind pollAuto (fun r a' => match r with | .ok _ => a' = GSt.removed (rows.map (·.y)) | .error _ => a' = GSt.init) _ _ _ _ ?_ ?_
    (fun _ _ h => h)
  · apply conf_dbTry_write
    intro r
    cases r with
    | ok u => exact ⟨_, rfl, rfl⟩
    | error er => exact ⟨_, rfl, rfl⟩
  · intro _ a' ha; simp only at ha; subst ha
    exact conf_pure pollAuto _ _ _ ⟨_, rfl⟩

theorem conf_removePendingForQuote_unpaid (qid id : Nat) :
    Conf pollAuto (fun _ _ => True) (.unpaid id) (removePendingForQuote qid).run := by
  unfold removePendingForQuote
  refine Conf.pmBind pollAuto (fun _ a' => a' = GSt.unpaid id) _ _ _ _ (conf_noWrites pollAuto (fun _ h => h) _ (noWrites_dbTry _ rfl) _) ?_
    (fun _ _ _ => trivial)
  intro rows a' ha; subst ha
  refine Conf.pmBind pollAuto (fun _ _ => True) (fun _ _ => True) _ _ _ ?_ ?_ (fun _ _ _ => trivial)
  · apply conf_dbTry_write
    intro r
    cases r with
    | ok u => exact ⟨_, rfl, trivial⟩
    | error er => exact ⟨_, rfl, trivial⟩
  · intro _ a' _
    exact conf_pure pollAuto _ _ _ trivial

theorem conf_getMeltQuoteState (qid : Int) : Conf pollAuto (fun _ _ => True) .init (getMeltQuoteState qid).run := by
  unfold getMeltQuoteState
  refine Conf.pmBind pollAuto _ (fun _ _ => True) _ _ .init (conf_eff_ro pollAuto _ rfl .init) ?_ (fun _ _ _ => trivial)
  intro v a' ⟨ha, _⟩; subst ha
  cases v with
  | error er => exact conf_throw pollAuto _ _ _ trivial
  | ok q =>
    simp only
    split
    · exact conf_pure pollAuto _ _ _ trivial
    · refine Conf.pmBind pollAuto _ (fun _ _ => True) _ _ .init (conf_eff_ro pollAuto _ rfl .init) ?_ (fun _ _ _ => trivial)
      intro a a' ⟨ha, _⟩; subst ha
      split
      · exact conf_pure pollAuto _ _ _ trivial
      · cases a
        case succ =>
          simp only
          refine Conf.pmBind pollAuto _ (fun _ _ => True) _ _ .init (conf_removePendingForQuote_init q.id) ?_ (fun _ _ _ => trivial)
          intro rows a' ⟨ys, ha⟩; subst ha
          refine Conf.pmBind pollAuto (fun r a' => match r with | .ok _ => a' = GSt.spent ys rows | .error _ => a' = GSt.removed ys)
            (fun _ _ => True) _ _ _ ?_ ?_ (fun _ _ _ => trivial)
          · apply conf_dbTry_write
            intro r
            cases r with
            | ok u => exact ⟨_, rfl, rfl⟩
            | error er => exact ⟨_, rfl, rfl⟩
          · intro _ a' ha; simp only at ha; subst ha
            refine Conf.pmBind pollAuto (fun _ _ => True) (fun _ _ => True) _ _ _ ?_ ?_ (fun _ _ _ => trivial)
            · apply conf_dbTry_write
              intro r
              cases r with
              | ok u => exact ⟨.paid ys rows q.id (q.hash + 1), by simp [pollAuto, pollStep], trivial⟩
              | error er => exact ⟨.spent ys rows, by simp [pollAuto, pollStep], trivial⟩
            · intro _ a' _; exact conf_pure pollAuto _ _ _ trivial
        case failed =>
          simp only
          refine Conf.pmBind pollAuto (fun r a' => match r with | .ok _ => a' = GSt.unpaid q.id | .error _ => a' = GSt.init)
            (fun _ _ => True) _ _ _ ?_ ?_ (fun _ _ _ => trivial)
          · apply conf_dbTry_write
            intro r
            cases r with
            | ok u => exact ⟨.unpaid q.id, by simp [pollAuto, pollStep], rfl⟩
            | error er => exact ⟨.init, by simp [pollAuto, pollStep], rfl⟩
          · intro _ a' ha; simp only at ha; subst ha
            refine Conf.pmBind pollAuto (fun _ _ => True) (fun _ _ => True) _ _ _ (conf_removePendingForQuote_unpaid q.id q.id) ?_
              (fun _ _ _ => trivial)
            intro _ a' _; exact conf_pure pollAuto _ _ _ trivial
        all_goals exact conf_pure pollAuto _ _ _ trivial

/-- **Every state a killed or faulted poll of a melt quote can leave behind.** -/
theorem poll_crash_states (qid : Int) (n : Nat) (w : World) :
    let db' := ((getMeltQuoteState qid).run.runN n w).1.db
    db' = w.db ∨
    (∃ ys, db' = { w.db with pending := dropPending w.db ys }) ∨
    (∃ ys rows t, insertRows w.db.spent rows = some t ∧ db' = { w.db with pending := dropPending w.db ys, spent := t }) ∨
    (∃ ys rows t id pre, insertRows w.db.spent rows = some t ∧
      db' = { w.db with pending := dropPending w.db ys, spent := t, meltQ := updMeltQ w.db.meltQ id pre .paid }) ∨
    (∃ id, db' = { w.db with meltQ := updMeltQ w.db.meltQ id 0 .unpaid }) ∨
    (∃ id ys, db' = { w.db with meltQ := updMeltQ w.db.meltQ id 0 .unpaid, pending := dropPending w.db ys }) := by
  obtain ⟨a', hr⟩ := conf_runN pollAuto (pollRel w.db) (poll_sound w.db) _ _ n w .init (conf_getMeltQuoteState qid) rfl
  cases a' with
  | init => exact Or.inl hr
  | removed ys => exact Or.inr (Or.inl ⟨ys, hr⟩)
  | spent ys rows => obtain ⟨t, h1, h2⟩ := hr; exact Or.inr (Or.inr (Or.inl ⟨ys, rows, t, h1, h2⟩))
  | paid ys rows id pre => obtain ⟨t, h1, h2⟩ := hr; exact Or.inr (Or.inr (Or.inr (Or.inl ⟨ys, rows, t, id, pre, h1, h2⟩)))
  | unpaid id => exact Or.inr (Or.inr (Or.inr (Or.inr (Or.inl ⟨id, hr⟩))))
  | unpaidRemoved id ys => exact Or.inr (Or.inr (Or.inr (Or.inr (Or.inr ⟨id, ys, hr⟩))))

/-- a poll never touches the signatures, the mint quotes or the keysets, and it marks proofs spent only in states where
    pending rows have been removed before -/
theorem poll_touches (qid : Int) (n : Nat) (w : World) :
    let db' := ((getMeltQuoteState qid).run.runN n w).1.db
    db'.sigs = w.db.sigs ∧ db'.mintQ = w.db.mintQ ∧ db'.keysets = w.db.keysets := by
  rcases poll_crash_states qid n w with h | ⟨ys, h⟩ | ⟨ys, rows, t, _, h⟩ | ⟨ys, rows, t, id, pre, _, h⟩ | ⟨id, h⟩ | ⟨id, ys, h⟩ <;> simp [h]

end Gonuts.Model.Mint
