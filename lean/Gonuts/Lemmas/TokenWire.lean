import Gonuts.Model.TokenWire
import Gonuts.Lemmas.Token
/-! Lemmas about `Model.TokenWire`: the canonical parsers invert the modelled marshallers (C14). -/
namespace Gonuts.Model.Token.Wire
open Gonuts.Model.Token

/-! ## struct tags (the third column of `Gen.fields_*`) -/

/-! ## encoding/json -/

/-! ## fxamacker/cbor (default options: definite lengths, struct fields in declaration order) -/

/-! ## a parser for the canonical JSON form, and `parse (encode t) = t` -/

theorem bytesToString_strBytes (s : String) : bytesToString? (strBytes s) = some s := by
  unfold bytesToString? strBytes
  have : (⟨s.toByteArray.data.toList.toArray⟩ : ByteArray) = s.toByteArray := by simp
  rw [this]
  simp [String.fromUTF8?, s.isValidUTF8]
  rfl

/-! ### numbers -/

theorem isDigit_digit (d : Nat) (h : d < 10) : isDigit (UInt8.ofNat (48 + d)) = true ∧ (UInt8.ofNat (48 + d)).toNat - 48 = d := by
  have : (UInt8.ofNat (48 + d)).toNat = 48 + d := by simp [UInt8.toNat_ofNat']; omega
  refine ⟨?_, by omega⟩
  simp only [isDigit, Bool.and_eq_true, decide_eq_true_eq, UInt8.le_iff_toNat_le, this]
  constructor
  · simp
  · simp; omega

theorem pDigits_natDigits (f : Nat) : ∀ n acc rest, n < 10 ^ f →
    ∃ k, pDigits acc (natDigits f n ++ rest) = pDigits (acc * 10 ^ k + n) rest := by
  induction f with
  | zero => intro n acc rest h; simp at h; subst h; exact ⟨0, by simp [natDigits]⟩
  | succ f ih =>
    intro n acc rest h
    unfold natDigits
    by_cases hn : n < 10
    · obtain ⟨h1, h2⟩ := isDigit_digit n hn
      refine ⟨1, ?_⟩
      simp only [hn, if_true, List.cons_append, List.nil_append, pDigits, h1, h2, Nat.pow_one]
    · have hlt : n / 10 < 10 ^ f := by
        rw [Nat.div_lt_iff_lt_mul (by decide)]; rw [Nat.pow_succ] at h; exact h
      obtain ⟨k, hk⟩ := ih (n / 10) acc ([UInt8.ofNat (48 + n % 10)] ++ rest) hlt
      obtain ⟨h1, h2⟩ := isDigit_digit (n % 10) (Nat.mod_lt _ (by decide))
      refine ⟨k + 1, ?_⟩
      simp only [hn, if_false]
      rw [List.append_assoc, hk]
      simp only [List.cons_append, List.nil_append, pDigits, h1, h2, if_true]
      congr 1
      rw [Nat.pow_succ]
      have := Nat.div_add_mod n 10
      rw [Nat.add_mul, Nat.mul_assoc, Nat.add_assoc]
      omega

theorem natDigits_head (f n : Nat) (hn : 0 < n) (hf : n < 10 ^ f) :
    ∃ b tl, natDigits f n = b :: tl ∧ isDigit b = true ∧ b ≠ 48 := by
  induction f generalizing n with
  | zero => simp at hf; omega
  | succ f ih =>
    unfold natDigits
    by_cases h : n < 10
    · obtain ⟨h1, _⟩ := isDigit_digit n h
      refine ⟨_, [], by simp [h], h1, ?_⟩
      intro e
      have : (UInt8.ofNat (48 + n)).toNat = 48 + n := by simp [UInt8.toNat_ofNat']; omega
      rw [e] at this
      simp at this
      omega
    · have hlt : n / 10 < 10 ^ f := by
        rw [Nat.div_lt_iff_lt_mul (by decide)]; rw [Nat.pow_succ] at hf; exact hf
      obtain ⟨b, tl, e, hb, hb'⟩ := ih (n / 10) (by omega) hlt
      exact ⟨b, tl ++ [UInt8.ofNat (48 + n % 10)], by simp [h, e], hb, hb'⟩

theorem pDigits_stop (acc : Nat) (rest : Bytes) (h : noDigitHead rest) : pDigits acc rest = (acc, rest) := by
  cases rest with
  | nil => rfl
  | cons b tl => simp only [noDigitHead] at h; simp [pDigits, h]

theorem pNat_enc (n : Nat) (rest : Bytes) (hn : n < 2 ^ 64) (hrest : noDigitHead rest) :
    pNat (jsonNat n ++ rest) = some (n, rest) := by
  have hf : n < 10 ^ 20 := by omega
  unfold jsonNat
  by_cases h0 : n = 0
  · subst h0
    cases rest with
    | nil => simp [natDigits, pNat, isDigit]
    | cons b tl =>
      simp only [noDigitHead] at hrest
      simp [natDigits, pNat, hrest]
      decide
  · obtain ⟨b, tl, e, hb, hb'⟩ := natDigits_head 20 n (by omega) hf
    obtain ⟨k, hk⟩ := pDigits_natDigits 20 n 0 rest hf
    rw [e] at hk ⊢
    simp only [List.cons_append, pNat, hb, if_true, hb', if_false]
    rw [List.cons_append] at hk
    rw [hk, Nat.zero_mul, Nat.zero_add, pDigits_stop _ _ hrest]

/-! ### strings -/

theorem toNat_ofNat_lt (n : Nat) (h : n < 256) : (UInt8.ofNat n).toNat = n := by
  simp [UInt8.toNat_ofNat']; omega

theorem hexVal_hexLower : ∀ k, k < 16 → hexVal? (hexLower k) = some (UInt8.ofNat k) := by decide

theorem utf8EncodeChar_lt (c : Char) (h : c.toNat < 128) : String.utf8EncodeChar c = [UInt8.ofNat c.toNat] := by
  have : c.val.toNat = c.toNat := rfl
  unfold String.utf8EncodeChar
  simp only [this]
  rw [if_pos (by omega)]

theorem push_push (a b : Bytes) (o : Option (Bytes × Bytes)) : push a (push b o) = push (a ++ b) o := by
  cases o <;> simp [push]

theorem push_nil (o : Option (Bytes × Bytes)) : push [] o = o := by
  cases o <;> simp [push]

/-- Raw bytes ≥ 0x80 are copied. -/
theorem pStrBody_high (l : Bytes) (h : ∀ b ∈ l, 128 ≤ b.toNat) (more : Bytes) :
    pStrGo .normal (l ++ more) = push l (pStrGo .normal more) := by
  induction l with
  | nil => simp [push_nil]
  | cons b tl ih =>
    have hb := h b (by simp)
    have ih := ih (fun x hx => h x (by simp [hx]))
    rw [List.cons_append, pStrGo]
    rw [if_neg (by omega), if_neg (by omega), if_neg (by omega), ih, push_push]
    rfl

theorem utf8EncodeChar_high (c : Char) (h : 128 ≤ c.toNat) : ∀ b ∈ String.utf8EncodeChar c, 128 ≤ b.toNat := by
  have hv : c.val.toNat = c.toNat := rfl
  intro b hb
  unfold String.utf8EncodeChar at hb
  simp only [hv] at hb
  rw [if_neg (by omega)] at hb
  split at hb
  · simp only [List.mem_cons, List.not_mem_nil, or_false] at hb
    rcases hb with rfl | rfl <;> rw [toNat_ofNat_lt _ (by omega)] <;> omega
  · split at hb
    · simp only [List.mem_cons, List.not_mem_nil, or_false] at hb
      rcases hb with rfl | rfl | rfl <;> rw [toNat_ofNat_lt _ (by omega)] <;> omega
    · simp only [List.mem_cons, List.not_mem_nil, or_false] at hb
      rcases hb with rfl | rfl | rfl | rfl <;> rw [toNat_ofNat_lt _ (by omega)] <;> omega

theorem char_of_toNat (c : Char) (n : Nat) (h : c.toNat = n) : c = Char.ofNat n := by
  rw [← h, Char.ofNat_toNat]

theorem esc_simple (e : UInt8) (x : UInt8) (more : Bytes) (he : e.toNat ≠ 117) (hx : simpleEscape e.toNat = some x) :
    pStrGo .normal (92 :: e :: more) = push [x] (pStrGo .normal more) := by
  rw [pStrGo]
  rw [if_neg (by decide), if_pos (by decide), pStrGo, if_neg he]
  simp only [hx]

theorem esc_u (h1 h2 h3 h4 : UInt8) (d1 d2 d3 d4 : UInt8) (bs more : Bytes)
    (e1 : hexVal? h1 = some d1) (e2 : hexVal? h2 = some d2) (e3 : hexVal? h3 = some d3) (e4 : hexVal? h4 = some d4)
    (hu : uEscape ((((0 * 16 + d1.toNat) * 16 + d2.toNat) * 16 + d3.toNat) * 16 + d4.toNat) = some bs) :
    pStrGo .normal (92 :: 117 :: h1 :: h2 :: h3 :: h4 :: more) = push bs (pStrGo .normal more) := by
  rw [pStrGo]
  rw [if_neg (by decide), if_pos (by decide), pStrGo, if_pos (by decide)]
  rw [pStrGo]; simp only [e1]; rw [if_neg (by decide)]
  rw [pStrGo]; simp only [e2]; rw [if_neg (by decide)]
  rw [pStrGo]; simp only [e3]; rw [if_neg (by decide)]
  rw [pStrGo]; simp only [e4, if_true, hu]

/-- One character: the parser undoes `jsonChar`. -/
theorem pStrBody_char (c : Char) (more : Bytes) :
    pStrGo .normal (jsonChar c ++ more) = push (String.utf8EncodeChar c) (pStrGo .normal more) := by
  unfold jsonChar
  simp only []
  by_cases hlt : c.toNat < 0x80
  · rw [if_pos hlt, utf8EncodeChar_lt c hlt]
    by_cases h1 : c.toNat = 92
    · rw [if_pos h1, h1]; exact esc_simple 92 92 more (by decide) (by decide)
    by_cases h2 : c.toNat = 34
    · rw [if_neg h1, if_pos h2, h2]; exact esc_simple 34 34 more (by decide) (by decide)
    by_cases h3 : c.toNat = 8
    · rw [if_neg h1, if_neg h2, if_pos h3, h3]; exact esc_simple 98 8 more (by decide) (by decide)
    by_cases h4 : c.toNat = 12
    · rw [if_neg h1, if_neg h2, if_neg h3, if_pos h4, h4]; exact esc_simple 102 12 more (by decide) (by decide)
    by_cases h5 : c.toNat = 10
    · rw [if_neg h1, if_neg h2, if_neg h3, if_neg h4, if_pos h5, h5]; exact esc_simple 110 10 more (by decide) (by decide)
    by_cases h6 : c.toNat = 13
    · rw [if_neg h1, if_neg h2, if_neg h3, if_neg h4, if_neg h5, if_pos h6, h6]
      exact esc_simple 114 13 more (by decide) (by decide)
    by_cases h7 : c.toNat = 9
    · rw [if_neg h1, if_neg h2, if_neg h3, if_neg h4, if_neg h5, if_neg h6, if_pos h7, h7]
      exact esc_simple 116 9 more (by decide) (by decide)
    by_cases h8 : c.toNat < 0x20 ∨ c.toNat = 60 ∨ c.toNat = 62 ∨ c.toNat = 38
    · rw [if_neg h1, if_neg h2, if_neg h3, if_neg h4, if_neg h5, if_neg h6, if_neg h7, if_pos h8]
      have e1 := hexVal_hexLower (c.toNat / 16) (by omega)
      have e2 := hexVal_hexLower (c.toNat % 16) (by omega)
      have e0 : hexVal? 48 = some 0 := by decide
      have t1 := toNat_ofNat_lt (c.toNat / 16) (by omega)
      have t2 := toNat_ofNat_lt (c.toNat % 16) (by omega)
      apply esc_u 48 48 _ _ 0 0 _ _ _ more e0 e0 e1 e2
      have : (((0 * 16 + (0 : UInt8).toNat) * 16 + (0 : UInt8).toNat) * 16 + (UInt8.ofNat (c.toNat / 16)).toNat) * 16 +
          (UInt8.ofNat (c.toNat % 16)).toNat = c.toNat := by
        rw [t1, t2]; simp; omega
      rw [this]
      simp [uEscape, hlt]
    · rw [if_neg h1, if_neg h2, if_neg h3, if_neg h4, if_neg h5, if_neg h6, if_neg h7, if_neg h8]
      have t := toNat_ofNat_lt c.toNat (by omega)
      rw [List.cons_append, List.nil_append, pStrGo, t]
      rw [if_neg h2, if_neg h1, if_neg (by omega)]
  · rw [if_neg hlt]
    by_cases h1 : c.toNat = 0x2028
    · have hc := char_of_toNat c _ h1
      subst hc
      have e : String.utf8EncodeChar (Char.ofNat 0x2028) = [0xE2, 0x80, 0xA8] := by decide
      rw [if_pos (by decide), e]
      exact esc_u 50 48 50 56 2 0 2 8 _ more (by decide) (by decide) (by decide) (by decide) (by decide)
    by_cases h2 : c.toNat = 0x2029
    · have hc := char_of_toNat c _ h2
      subst hc
      have e : String.utf8EncodeChar (Char.ofNat 0x2029) = [0xE2, 0x80, 0xA9] := by decide
      rw [if_neg (by decide), if_pos (by decide), e]
      exact esc_u 50 48 50 57 2 0 2 9 _ more (by decide) (by decide) (by decide) (by decide) (by decide)
    · rw [if_neg h1, if_neg h2]
      exact pStrBody_high _ (utf8EncodeChar_high c (by omega)) more

/-- A whole string: the parser returns the UTF-8 bytes of the string. -/
theorem pStrGo_chars (cs : List Char) (rest : Bytes) :
    pStrGo .normal (cs.flatMap jsonChar ++ 34 :: rest) = some (cs.flatMap String.utf8EncodeChar, rest) := by
  induction cs with
  | nil => simp [pStrGo]
  | cons c cs ih =>
    simp only [List.flatMap_cons, List.append_assoc]
    rw [pStrBody_char, ih]
    rfl

theorem pString_enc (s : String) (rest : Bytes) : pString (jsonString s ++ rest) = some (s, rest) := by
  unfold jsonString pString
  simp only [List.cons_append, List.nil_append, List.append_assoc]
  have : (34 : UInt8).toNat = 34 := by decide
  rw [if_pos this]
  unfold pStrBody
  rw [pStrGo_chars, ← strBytes_eq_flatMap]
  simp only [bytesToString_strBytes]

/-! ### literals, arrays -/

theorem expect_prefix (lit rest : Bytes) : expect lit (lit ++ rest) = some rest := by
  simp [expect]

theorem expect_one (x : UInt8) (rest : Bytes) : expect [x] (x :: rest) = some rest := by
  simp [expect]

theorem expect_one_ne (x y : UInt8) (rest : Bytes) (h : x ≠ y) : expect [x] (y :: rest) = none := by
  simp [expect, h]

theorem pjItems_enc {α : Type} (p : Bytes → Option (α × Bytes)) (enc : α → Bytes) (xs : List α) (rest : Bytes)
    (hne : xs ≠ []) (h : ∀ x ∈ xs, ∀ r, p (enc x ++ r) = some (x, r)) :
    ∀ f, xs.length ≤ f → pjItems p f (joinBytes [44] (xs.map enc) ++ 93 :: rest) = some (xs, rest) := by
  induction xs with
  | nil => exact absurd rfl hne
  | cons x xs ih =>
    intro f hf
    cases f with
    | zero => simp at hf
    | succ f =>
      cases xs with
      | nil =>
        simp only [List.map_cons, List.map_nil, joinBytes, pjItems, h x (by simp)]
        simp
      | cons y ys =>
        have ih := ih (by simp) (fun z hz => h z (by simp [hz])) f (by simp at hf ⊢; omega)
        simp only [List.map_cons, joinBytes, List.append_assoc, pjItems, h x (by simp)]
        simp only [List.map_cons] at ih
        simp [ih]

theorem joinBytes_length {α : Type} (enc : α → Bytes) (xs : List α) (h : ∀ x ∈ xs, 1 ≤ (enc x).length) :
    xs.length ≤ (joinBytes [44] (xs.map enc)).length := by
  induction xs with
  | nil => simp [joinBytes]
  | cons x xs ih =>
    cases xs with
    | nil => simp [joinBytes]; exact h x (by simp)
    | cons y ys =>
      have := ih (fun z hz => h z (by simp [hz]))
      have hx := h x (by simp)
      simp only [List.map_cons, joinBytes, List.length_append, List.length_cons, List.length_nil] at this ⊢
      omega

theorem pjArray_enc {α : Type} (p : Bytes → Option (α × Bytes)) (enc : α → Bytes) (xs : List α) (rest : Bytes)
    (hstart : ∀ x ∈ xs, ∃ tl, enc x = 123 :: tl) (h : ∀ x ∈ xs, ∀ r, p (enc x ++ r) = some (x, r)) :
    pjArray p (jsonArray (xs.map enc) ++ rest) = some (xs, rest) := by
  unfold jsonArray
  cases xs with
  | nil => simp [joinBytes, pjArray]
  | cons x ys =>
    obtain ⟨tl, htl⟩ := hstart x (by simp)
    have hlen : (x :: ys).length ≤ (joinBytes [44] ((x :: ys).map enc)).length :=
      joinBytes_length enc (x :: ys) (fun z hz => by obtain ⟨t, ht⟩ := hstart z hz; simp [ht])
    have key := pjItems_enc p enc (x :: ys) rest (by simp) h
      (joinBytes [44] ((x :: ys).map enc) ++ 93 :: rest).length (by simp at hlen ⊢; omega)
    have hhead : ∃ tl', joinBytes [44] ((x :: ys).map enc) ++ 93 :: rest = 123 :: tl' := by
      cases ys with
      | nil => exact ⟨tl ++ 93 :: rest, by simp [joinBytes, htl]⟩
      | cons y zs => exact ⟨tl ++ [44] ++ joinBytes [44] ((y :: zs).map enc) ++ 93 :: rest, by simp [joinBytes, htl]⟩
    obtain ⟨tl', htl'⟩ := hhead
    simp only [List.cons_append, List.nil_append, List.append_assoc, pjArray]
    rw [htl'] at key ⊢
    have h91 : (91 : UInt8).toNat = 91 := by decide
    have h123 : ¬ (123 : UInt8).toNat = 93 := by decide
    rw [if_pos h91]
    simp only [h123, if_false]
    exact key

/-! ### structs -/

theorem expect_kv (name : String) (x : Bytes) : expect (kvKey name) (jsonString name ++ 58 :: x) = some x := by
  have : jsonString name ++ 58 :: x = kvKey name ++ x := by simp [kvKey]
  rw [this, expect_prefix]

theorem toU64_toNat (a : UInt64) : toU64? a.toNat = some a := by
  simp [toU64?, a.toNat_lt]

theorem expect_44_125 (rest : Bytes) : expect [44] (125 :: rest) = none := expect_one_ne _ _ _ (by decide)

theorem pjDLEQ_enc (d : DLEQ) (rest : Bytes) : pjDLEQ (jsonDLEQ d ++ rest) = some (d, rest) := by
  obtain ⟨e, sv, rv⟩ := d
  by_cases hr : rv.isEmpty = true
  · have : rv = "" := String.isEmpty_iff.1 hr
    subst this
    simp [pjDLEQ, jsonDLEQ, jsonObject, emitted, tagsDLEQProof, joinBytes, List.append_assoc, expect_one, expect_kv,
      pString_enc, expect_44_125]
  · have hr' : rv.isEmpty = false := by simpa using hr
    simp [pjDLEQ, jsonDLEQ, jsonObject, emitted, tagsDLEQProof, joinBytes, List.append_assoc, expect_one, expect_kv,
      pString_enc, hr']

theorem kvKey_witness : kvKey "witness" = [34, 119, 105, 116, 110, 101, 115, 115, 34, 58] := by decide
theorem jsonString_dleq : jsonString "dleq" = [34, 100, 108, 101, 113, 34] := by decide

theorem expect_witness_dleq (x : Bytes) : expect (kvKey "witness") (jsonString "dleq" ++ 58 :: x) = none := by
  rw [kvKey_witness, jsonString_dleq]
  simp [expect]

theorem pNat_amount (a : UInt64) (x : Bytes) : pNat (jsonNat a.toNat ++ 44 :: x) = some (a.toNat, 44 :: x) :=
  pNat_enc a.toNat (44 :: x) a.toNat_lt (by simp [noDigitHead, isDigit])

theorem pjProof_enc (p : Proof) (rest : Bytes) : pjProof (jsonProof p ++ rest) = some (p, rest) := by
  obtain ⟨a, id, sec, c, w, dl⟩ := p
  by_cases hw : w.isEmpty = true
  · have hw' : w = "" := String.isEmpty_iff.1 hw
    subst hw'
    cases dl with
    | none =>
      simp [pjProof, jsonProof, jsonObject, emitted, tagsProof, joinBytes, List.append_assoc, expect_one, expect_kv,
        pString_enc, expect_44_125, pNat_amount, toU64_toNat]
    | some d =>
      simp [pjProof, jsonProof, jsonObject, emitted, tagsProof, joinBytes, List.append_assoc, expect_one, expect_kv,
        pString_enc, pNat_amount, toU64_toNat, expect_witness_dleq, pjDLEQ_enc]
  · have hw' : w.isEmpty = false := by simpa using hw
    cases dl with
    | none =>
      simp [pjProof, jsonProof, jsonObject, emitted, tagsProof, joinBytes, List.append_assoc, expect_one, expect_kv,
        pString_enc, expect_44_125, pNat_amount, toU64_toNat, hw']
    | some d =>
      simp [pjProof, jsonProof, jsonObject, emitted, tagsProof, joinBytes, List.append_assoc, expect_one, expect_kv,
        pString_enc, pNat_amount, toU64_toNat, pjDLEQ_enc, hw']

theorem jsonProof_head (p : Proof) : ∃ tl, jsonProof p = 123 :: tl := ⟨_, by simp [jsonProof, jsonObject]; rfl⟩

theorem pjEntry_enc (e : TokenV3Proof) (rest : Bytes) : pjEntry (jsonTokenV3Proof e ++ rest) = some (e, rest) := by
  obtain ⟨m, ps⟩ := e
  have harr : ∀ r, pjArray pjProof (jsonArray (ps.map jsonProof) ++ r) = some (ps, r) :=
    fun r => pjArray_enc pjProof jsonProof ps r (fun x _ => jsonProof_head x) (fun x _ r' => pjProof_enc x r')
  simp [pjEntry, jsonTokenV3Proof, jsonObject, emitted, tagsTokenV3Proof, joinBytes, List.append_assoc, expect_one,
    expect_kv, pString_enc, harr]

theorem jsonEntry_head (e : TokenV3Proof) : ∃ tl, jsonTokenV3Proof e = 123 :: tl :=
  ⟨_, by simp [jsonTokenV3Proof, jsonObject]; rfl⟩

theorem pjTokenV3_enc (t : TokenV3) (rest : Bytes) : pjTokenV3 (jsonTokenV3 t ++ rest) = some (t, rest) := by
  obtain ⟨es, u, memo⟩ := t
  have harr : ∀ r, pjArray pjEntry (jsonArray (es.map jsonTokenV3Proof) ++ r) = some (es, r) :=
    fun r => pjArray_enc pjEntry jsonTokenV3Proof es r (fun x _ => jsonEntry_head x) (fun x _ r' => pjEntry_enc x r')
  by_cases hm : memo.isEmpty = true
  · have hm' : memo = "" := String.isEmpty_iff.1 hm
    subst hm'
    simp [pjTokenV3, jsonTokenV3, jsonObject, emitted, tagsTokenV3, joinBytes, List.append_assoc, expect_one,
      expect_kv, pString_enc, harr, expect_44_125]
  · have hm' : memo.isEmpty = false := by simpa using hm
    simp [pjTokenV3, jsonTokenV3, jsonObject, emitted, tagsTokenV3, joinBytes, List.append_assoc, expect_one,
      expect_kv, pString_enc, harr, hm']

/-- **The JSON encoding of a V3 token loses nothing**: the canonical parser reads back exactly the token —
    for every token, whatever its strings contain. -/
theorem jsonParse_enc (t : TokenV3) : jsonParse (jsonTokenV3 t) = some t := by
  have := pjTokenV3_enc t []
  simp only [List.append_nil] at this
  simp [jsonParse, this]

theorem jsonTokenV3_injective (t1 t2 : TokenV3) (h : jsonTokenV3 t1 = jsonTokenV3 t2) : t1 = t2 := by
  have e1 := jsonParse_enc t1
  rw [h, jsonParse_enc t2] at e1
  exact (Option.some.inj e1).symm

/-! ## a parser for the canonical CBOR form, and `parse (encode t) = t` -/

theorem beVal_beBytes_mod (k n : Nat) (rest : Bytes) : beVal k (beBytes n k ++ rest) = some (n % 256 ^ k, rest) := by
  induction k with
  | zero => simp [beBytes, beVal, Nat.mod_one]
  | succ k ih =>
    have hb : (UInt8.ofNat (n / 256 ^ k % 256)).toNat = n / 256 ^ k % 256 := by
      simp [UInt8.toNat_ofNat']
    simp only [beBytes, List.cons_append, beVal, ih, hb]
    rw [Nat.mod_pow_succ]
    congr 2
    rw [Nat.mul_comm, Nat.add_comm]

theorem beVal_beBytes (k n : Nat) (rest : Bytes) (h : n < 256 ^ k) : beVal k (beBytes n k ++ rest) = some (n, rest) := by
  rw [beVal_beBytes_mod, Nat.mod_eq_of_lt h]

theorem parseHead_cborHead (major n : Nat) (rest : Bytes) (hm : major < 8) (hn : n < 2 ^ 64) :
    parseHead (cborHead major n ++ rest) = some (major, n, rest) := by
  unfold cborHead
  simp only []
  split
  · rename_i h
    have : (UInt8.ofNat (major * 32 + n)).toNat = major * 32 + n := by simp [UInt8.toNat_ofNat']; omega
    simp only [List.cons_append, List.nil_append, parseHead, this]
    have h1 : (major * 32 + n) % 32 = n := by omega
    have h2 : (major * 32 + n) / 32 = major := by omega
    simp [h1, h2, h]
  · split
    · rename_i h0 h
      have : (UInt8.ofNat (major * 32 + 24)).toNat = major * 32 + 24 := by simp [UInt8.toNat_ofNat']; omega
      simp only [List.cons_append, parseHead, this]
      have h1 : (major * 32 + 24) % 32 = 24 := by omega
      have h2 : (major * 32 + 24) / 32 = major := by omega
      simp [h1, h2, beVal_beBytes 1 n rest (by simpa using h)]
    · split
      · rename_i h0 h1' h
        have : (UInt8.ofNat (major * 32 + 25)).toNat = major * 32 + 25 := by simp [UInt8.toNat_ofNat']; omega
        simp only [List.cons_append, parseHead, this]
        have h1 : (major * 32 + 25) % 32 = 25 := by omega
        have h2 : (major * 32 + 25) / 32 = major := by omega
        simp [h1, h2, beVal_beBytes 2 n rest (by simpa using h)]
      · split
        · rename_i h0 h1' h2' h
          have : (UInt8.ofNat (major * 32 + 26)).toNat = major * 32 + 26 := by simp [UInt8.toNat_ofNat']; omega
          simp only [List.cons_append, parseHead, this]
          have h1 : (major * 32 + 26) % 32 = 26 := by omega
          have h2 : (major * 32 + 26) / 32 = major := by omega
          simp [h1, h2, beVal_beBytes 4 n rest (by simpa using h)]
        · have : (UInt8.ofNat (major * 32 + 27)).toNat = major * 32 + 27 := by simp [UInt8.toNat_ofNat']; omega
          simp only [List.cons_append, parseHead, this]
          have h1 : (major * 32 + 27) % 32 = 27 := by omega
          have h2 : (major * 32 + 27) / 32 = major := by omega
          simp [h1, h2, beVal_beBytes 8 n rest (by simpa using hn)]

/-! ### items -/

theorem pUInt_enc (n : Nat) (rest : Bytes) (h : n < 2 ^ 64) : pUInt (cborUInt n ++ rest) = some (n, rest) := by
  simp [pUInt, cborUInt, parseHead_cborHead 0 n rest (by decide) h]

theorem pBytes_enc (b rest : Bytes) (h : b.length < 2 ^ 64) : pBytes (cborBytes b ++ rest) = some (b, rest) := by
  simp [pBytes, cborBytes, List.append_assoc, parseHead_cborHead 2 b.length (b ++ rest) (by decide) h]

theorem pText_enc (s : String) (rest : Bytes) (h : (strBytes s).length < 2 ^ 64) :
    pText (cborText s ++ rest) = some (s, rest) := by
  simp [pText, cborText, List.append_assoc, parseHead_cborHead 3 _ (strBytes s ++ rest) (by decide) h,
    bytesToString_strBytes]

theorem pKey_enc (name : String) (rest : Bytes) : pKey name (cborText name ++ rest) = some rest := by
  simp [pKey]

theorem pItems_enc {α : Type} (p : Bytes → Option (α × Bytes)) (enc : α → Bytes) (xs : List α) (rest : Bytes)
    (h : ∀ x ∈ xs, ∀ r, p (enc x ++ r) = some (x, r)) :
    pItems p xs.length ((xs.map enc).flatten ++ rest) = some (xs, rest) := by
  induction xs with
  | nil => simp [pItems]
  | cons x xs ih =>
    simp only [List.length_cons, List.map_cons, List.flatten_cons, List.append_assoc, pItems,
      h x (by simp), ih (fun y hy => h y (by simp [hy]))]

theorem pArray_enc {α : Type} (p : Bytes → Option (α × Bytes)) (enc : α → Bytes) (xs : List α) (rest : Bytes)
    (hlen : xs.length < 2 ^ 64) (h : ∀ x ∈ xs, ∀ r, p (enc x ++ r) = some (x, r)) :
    pArray p (cborArray (xs.map enc) ++ rest) = some (xs, rest) := by
  have := parseHead_cborHead 4 xs.length ((xs.map enc).flatten ++ rest) (by decide) hlen
  simp only [pArray, cborArray, List.length_map, List.append_assoc, this]
  exact pItems_enc p enc xs rest h

/-! ### structs -/

/-! ### size bounds (CBOR lengths are 64-bit; Go slices and strings are shorter than 2^63) -/

theorem pMapHead_enc (n : Nat) (rest : Bytes) (h : n < 2 ^ 64) : pMapHead (cborHead 5 n ++ rest) = some (n, rest) := by
  simp [pMapHead, parseHead_cborHead 5 n rest (by decide) h]

theorem pDLEQ_enc (d : DLEQV4) (rest : Bytes) (h : smallDLEQ d) : pDLEQ (cborDLEQ d ++ rest) = some (d, rest) := by
  obtain ⟨h1, h2, h3⟩ := h
  simp [pDLEQ, cborDLEQ, cborMap, emitted, tagsDLEQV4, List.append_assoc, pMapHead_enc, pKey_enc, pBytes_enc, h1, h2, h3]

theorem cborText_w : cborText "w" = [0x61, 0x77] := by decide
theorem cborText_d : cborText "d" = [0x61, 0x64] := by decide

theorem pKey_w_d (rest : Bytes) : pKey "w" (cborText "d" ++ rest) = none := by
  simp [pKey, cborText_w, cborText_d]

theorem pProof_enc (p : ProofV4) (rest : Bytes) (h : smallProof p) : pProof (cborProof p ++ rest) = some (p, rest) := by
  obtain ⟨h1, h2, h3, h4⟩ := h
  obtain ⟨a, sec, c, w, dl⟩ := p
  simp only [] at h1 h2 h3 h4
  have hbase : ∀ r, pUInt (cborUInt a.toNat ++ r) = some (a.toNat, r) := fun r => pUInt_enc _ r a.toNat_lt
  by_cases hw : w.isEmpty = true
  · have hw' : w = "" := String.isEmpty_iff.1 hw
    subst hw'
    cases dl with
    | none =>
      simp [pProof, cborProof, cborMap, emitted, tagsProofV4, List.append_assoc, pMapHead_enc, pKey_enc, pBytes_enc,
        pText_enc, hbase, toU64_toNat, h1, h2]
    | some d =>
      have hd := h4 d rfl
      simp [pProof, cborProof, cborMap, emitted, tagsProofV4, List.append_assoc, pMapHead_enc, pKey_enc, pBytes_enc,
        pText_enc, hbase, toU64_toNat, h1, h2, pKey_w_d, pDLEQ_enc, hd]
  · have hw' : w.isEmpty = false := by simpa using hw
    cases dl with
    | none =>
      simp [pProof, cborProof, cborMap, emitted, tagsProofV4, List.append_assoc, pMapHead_enc, pKey_enc, pBytes_enc,
        pText_enc, hbase, toU64_toNat, h1, h2, h3, hw']
    | some d =>
      have hd := h4 d rfl
      simp [pProof, cborProof, cborMap, emitted, tagsProofV4, List.append_assoc, pMapHead_enc, pKey_enc, pBytes_enc,
        pText_enc, hbase, toU64_toNat, h1, h2, h3, hw', pDLEQ_enc, hd]

theorem pGroup_enc (g : TokenV4Proof) (rest : Bytes) (h : smallGroup g) : pGroup (cborGroup g ++ rest) = some (g, rest) := by
  obtain ⟨h1, h2, h3⟩ := h
  obtain ⟨i, ps⟩ := g
  simp only [] at h1 h2 h3
  have harr : ∀ r, pArray pProof (cborArray (ps.map cborProof) ++ r) = some (ps, r) :=
    fun r => pArray_enc pProof cborProof ps r h2 (fun x hx r' => pProof_enc x r' (h3 x hx))
  simp [pGroup, cborGroup, cborMap, emitted, tagsTokenV4Proof, List.append_assoc, pMapHead_enc, pKey_enc, pBytes_enc,
    h1, harr]

theorem cborText_m : cborText "m" = [0x61, 0x6d] := by decide

theorem pTokenV4_enc (t : TokenV4) (rest : Bytes) (h : smallToken t) : pTokenV4 (cborTokenV4 t ++ rest) = some (t, rest) := by
  obtain ⟨h1, h2, h3, h4, h5⟩ := h
  obtain ⟨gs, memo, m, u⟩ := t
  simp only [] at h1 h2 h3 h4 h5
  have harr : ∀ r, pArray pGroup (cborArray (gs.map cborGroup) ++ r) = some (gs, r) :=
    fun r => pArray_enc pGroup cborGroup gs r h1 (fun x hx r' => pGroup_enc x r' (h2 x hx))
  by_cases hd : memo.isEmpty = true
  · have hd' : memo = "" := String.isEmpty_iff.1 hd
    subst hd'
    simp [pTokenV4, cborTokenV4, cborMap, emitted, tagsTokenV4, List.append_assoc, pMapHead_enc, pKey_enc, pText_enc,
      harr, h4, h5]
  · have hd' : memo.isEmpty = false := by simpa using hd
    simp [pTokenV4, cborTokenV4, cborMap, emitted, tagsTokenV4, List.append_assoc, pMapHead_enc, pKey_enc, pText_enc,
      harr, h3, h4, h5, hd']

/-- **The CBOR encoding of a V4 token loses nothing**: the canonical parser reads back exactly the token. -/
theorem cborParse_enc (t : TokenV4) (h : smallToken t) : cborParse (cborTokenV4 t) = some t := by
  have := pTokenV4_enc t [] h
  simp only [List.append_nil] at this
  simp [cborParse, this]

/-- … hence the encoding is injective. -/
theorem cborTokenV4_injective (t1 t2 : TokenV4) (h1 : smallToken t1) (h2 : smallToken t2)
    (h : cborTokenV4 t1 = cborTokenV4 t2) : t1 = t2 := by
  have e1 := cborParse_enc t1 h1
  have e2 := cborParse_enc t2 h2
  rw [h, e2] at e1
  exact (Option.some.inj e1).symm

end Gonuts.Model.Token.Wire
