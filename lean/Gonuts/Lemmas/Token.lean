import Gonuts.Model.Token
import Gonuts.Lemmas.Amount
/-! Helper lemmas about `Model.Token` (property C14). -/
namespace Gonuts.Model.Token

/-! ## bytes of strings -/

theorem strBytes_append (a b : String) : strBytes (a ++ b) = strBytes a ++ strBytes b := by
  simp [strBytes, String.toByteArray_append, ByteArray.data_append]

theorem strBytes_ofList (cs : List Char) : strBytes (String.ofList cs) = cs.flatMap String.utf8EncodeChar := by
  simp [strBytes, String.toByteArray_ofList, List.utf8Encode, List.data_toByteArray]

theorem strBytes_eq_flatMap (s : String) : strBytes s = s.toList.flatMap String.utf8EncodeChar := by
  rw [← strBytes_ofList, String.ofList_toList]

/-- UTF-8 encoding of an ASCII character. -/
theorem utf8EncodeChar_ascii (b : UInt8) (h : b < 128) :
    String.utf8EncodeChar (Char.ofNat b.toNat) = [b] := by
  have hb : b.toNat < 128 := by simpa [UInt8.lt_iff_toNat_lt] using h
  have hv : (Char.ofNat b.toNat).val.toNat = b.toNat := by
    have : b.toNat.isValidChar := by left; omega
    simp [Char.ofNat, this, Char.ofNatAux]
  unfold String.utf8EncodeChar
  simp only [hv]
  rw [if_pos (by omega)]
  simp

theorem strBytes_asciiStr (bs : Bytes) (h : ∀ b ∈ bs, b < 128) : strBytes (asciiStr bs) = bs := by
  unfold asciiStr
  rw [strBytes_ofList]
  induction bs with
  | nil => rfl
  | cons b rest ih =>
    simp only [List.map_cons, List.flatMap_cons]
    rw [utf8EncodeChar_ascii b (h b (by simp)), ih (fun x hx => h x (by simp [hx]))]
    rfl

/-- A character all of whose UTF-8 bytes are below 128 is the ASCII character of its single byte. -/
theorem utf8EncodeChar_all_lt (c : Char) (h : ∀ b ∈ String.utf8EncodeChar c, b < 128) :
    ∃ b, String.utf8EncodeChar c = [b] ∧ Char.ofNat b.toNat = c := by
  by_cases hv : c.val.toNat ≤ 127
  · refine ⟨UInt8.ofNat c.val.toNat, ?_, ?_⟩
    · unfold String.utf8EncodeChar; simp only []; rw [if_pos hv]
    · have : (UInt8.ofNat c.val.toNat).toNat = c.val.toNat := by
        have hc : c.toNat = c.val.toNat := rfl
        simp [UInt8.toNat_ofNat']; omega
      rw [this]; exact Char.ofNat_toNat c
  · exfalso
    unfold String.utf8EncodeChar at h
    simp only [] at h
    rw [if_neg hv] at h
    split at h
    · have := h _ (List.mem_cons_self)
      rw [UInt8.lt_iff_toNat_lt] at this
      simp [UInt8.toNat_ofNat'] at this
      omega
    · split at h
      · have := h _ (List.mem_cons_self)
        rw [UInt8.lt_iff_toNat_lt] at this
        simp [UInt8.toNat_ofNat'] at this
        omega
      · have := h _ (List.mem_cons_self)
        rw [UInt8.lt_iff_toNat_lt] at this
        simp [UInt8.toNat_ofNat'] at this
        omega

theorem asciiStr_strBytes (s : String) (h : ∀ b ∈ strBytes s, b < 128) : asciiStr (strBytes s) = s := by
  rw [strBytes_eq_flatMap] at h ⊢
  have : ∀ cs : List Char, (∀ b ∈ cs.flatMap String.utf8EncodeChar, b < 128) →
      (cs.flatMap String.utf8EncodeChar).map (fun b => Char.ofNat b.toNat) = cs := by
    intro cs
    induction cs with
    | nil => intro _; rfl
    | cons c rest ih =>
      intro hc
      simp only [List.flatMap_cons, List.mem_append] at hc ⊢
      obtain ⟨b, hb, hcb⟩ := utf8EncodeChar_all_lt c (fun b hb => hc b (Or.inl hb))
      rw [hb, List.map_append, ih (fun b hb => hc b (Or.inr hb))]
      simp [hcb]
  unfold asciiStr
  rw [this _ h, String.ofList_toList]

/-! ## encoding/hex -/

theorem forall_uint8 (P : UInt8 → Prop) (h : ∀ n, n < 256 → P (UInt8.ofNat n)) : ∀ b, P b := by
  intro b
  have := h b.toNat b.toNat_lt
  rwa [UInt8.ofNat_toNat] at this

set_option maxRecDepth 100000 in
theorem hex_byte_roundtrip : ∀ b : UInt8,
    hexVal? (hexDigitByte (b >>> 4)) = some (b >>> 4) ∧
    hexVal? (hexDigitByte (b &&& 15)) = some (b &&& 15) ∧
    ((b >>> 4) <<< 4 ||| (b &&& 15)) = b ∧
    hexDigitByte (b >>> 4) < 128 ∧ hexDigitByte (b &&& 15) < 128 := by
  apply forall_uint8
  decide

theorem hexDecodeBytes_encode (b : Bytes) : hexDecodeBytes (hexEncodeBytes b) = .ok b := by
  induction b with
  | nil => rfl
  | cons x rest ih =>
    obtain ⟨h1, h2, h3, _, _⟩ := hex_byte_roundtrip x
    simp only [hexEncodeBytes, hexDecodeBytes, h1, h2, ih, h3]

theorem hexEncodeBytes_ascii (b : Bytes) : ∀ c ∈ hexEncodeBytes b, c < 128 := by
  induction b with
  | nil => intro c hc; simp [hexEncodeBytes] at hc
  | cons x rest ih =>
    obtain ⟨_, _, _, h4, h5⟩ := hex_byte_roundtrip x
    intro c hc
    simp only [hexEncodeBytes, List.mem_cons] at hc
    rcases hc with rfl | rfl | hc
    · exact h4
    · exact h5
    · exact ih c hc

/-- `hex.DecodeString (hex.EncodeToString b) = b`. -/
theorem hexDecode_hexEncode (b : Bytes) : hexDecode (hexEncode b) = .ok b := by
  unfold hexDecode hexEncode
  rw [strBytes_asciiStr _ (hexEncodeBytes_ascii b), hexDecodeBytes_encode]

set_option maxRecDepth 100000 in
theorem hexVal_spec : ∀ p : UInt8, ∀ a, hexVal? p = some a →
    a < 16 ∧ hexDigitByte a = lowerHexByte p ∧ p < 128 := by
  apply forall_uint8
  decide

set_option maxRecDepth 100000 in
theorem nibbles_join_nat : ∀ n, n < 16 → ∀ m, m < 16 →
    ((UInt8.ofNat n <<< 4 ||| UInt8.ofNat m) >>> 4 = UInt8.ofNat n ∧
     (UInt8.ofNat n <<< 4 ||| UInt8.ofNat m) &&& 15 = UInt8.ofNat m) := by
  decide

theorem nibbles_join (a b : UInt8) (ha : a < 16) (hb : b < 16) :
    (a <<< 4 ||| b) >>> 4 = a ∧ (a <<< 4 ||| b) &&& 15 = b := by
  have := nibbles_join_nat a.toNat (by simpa [UInt8.lt_iff_toNat_lt] using ha) b.toNat
    (by simpa [UInt8.lt_iff_toNat_lt] using hb)
  simpa [UInt8.ofNat_toNat] using this

/-- Re-encoding what `hex.DecodeString` accepted yields the input with `A-F` lowered. -/
theorem hexEncodeBytes_of_decode (s : Bytes) : ∀ b, hexDecodeBytes s = .ok b →
    hexEncodeBytes b = s.map lowerHexByte ∧ ∀ c ∈ s, c < 128 := by
  induction s using hexDecodeBytes.induct with
  | case1 => intro b h; simp [hexDecodeBytes] at h; subst h; simp [hexEncodeBytes]
  | case2 p hp => intro b h; simp [hexDecodeBytes, hp] at h
  | case3 p a hp => intro b h; simp [hexDecodeBytes, hp] at h
  | case4 p q rest hp => intro b h; simp [hexDecodeBytes, hp] at h
  | case5 p q rest a hp hq => intro b h; simp [hexDecodeBytes, hp, hq] at h
  | case6 p q rest a hp b' hq out hrest ih =>
    intro b h
    simp [hexDecodeBytes, hp, hq, hrest] at h
    subst h
    obtain ⟨ha, hda, hpa⟩ := hexVal_spec p a hp
    obtain ⟨hb, hdb, hqa⟩ := hexVal_spec q b' hq
    obtain ⟨j1, j2⟩ := nibbles_join a b' ha hb
    obtain ⟨ih1, ih2⟩ := ih out hrest
    constructor
    · simp [hexEncodeBytes, j1, j2, hda, hdb, ih1]
    · intro c hc
      simp only [List.mem_cons] at hc
      rcases hc with rfl | rfl | hc
      · exact hpa
      · exact hqa
      · exact ih2 c hc
  | case7 p q rest a hp b' hq e hrest ih => intro b h; simp [hexDecodeBytes, hp, hq, hrest] at h

theorem map_lowerHexByte_ascii (s : Bytes) (h : ∀ c ∈ s, c < 128) : ∀ c ∈ s.map lowerHexByte, c < 128 := by
  intro c hc
  simp only [List.mem_map] at hc
  obtain ⟨x, hx, rfl⟩ := hc
  have := h x hx
  unfold lowerHexByte
  split
  · rename_i h2
    rw [UInt8.lt_iff_toNat_lt] at *
    rw [UInt8.le_iff_toNat_le, UInt8.le_iff_toNat_le] at h2
    simp only [UInt8.toNat_add, UInt8.reduceToNat] at *
    omega
  · exact this

/-- `hex.EncodeToString` of what `hex.DecodeString s` returned is `s` with `A-F` in lower case. -/
theorem hexEncode_of_hexDecode (s : String) (b : Bytes) (h : hexDecode s = .ok b) : hexEncode b = lowerHex s := by
  unfold hexDecode at h
  unfold hexEncode lowerHex
  rw [(hexEncodeBytes_of_decode _ b h).1]

set_option maxRecDepth 100000 in
theorem isLowerHexByte_spec : ∀ c : UInt8, isLowerHexByte c = true →
    lowerHexByte c = c ∧ c < 128 ∧ (hexVal? c).isSome = true := by
  apply forall_uint8
  decide

theorem hexDecodeBytes_of_lower (s : Bytes) (hlen : s.length % 2 = 0) (hall : ∀ c ∈ s, isLowerHexByte c = true) :
    ∃ b, hexDecodeBytes s = .ok b := by
  induction s using hexDecodeBytes.induct with
  | case1 => exact ⟨[], rfl⟩
  | case2 p hp => simp at hlen
  | case3 p a hp => simp at hlen
  | case4 p q rest hp =>
    obtain ⟨_, _, ha⟩ := isLowerHexByte_spec p (hall p (by simp)); simp [hp] at ha
  | case5 p q rest a hp hq =>
    obtain ⟨_, _, ha⟩ := isLowerHexByte_spec q (hall q (by simp)); simp [hq] at ha
  | case6 p q rest a hp b' hq out hrest ih =>
    exact ⟨(a <<< 4 ||| b') :: out, by simp [hexDecodeBytes, hp, hq, hrest]⟩
  | case7 p q rest a hp b' hq e hrest ih =>
    have : ∃ b, hexDecodeBytes rest = .ok b := ih (by simp at hlen; omega) (fun c hc => hall c (by simp [hc]))
    obtain ⟨b, hb⟩ := this
    simp [hrest] at hb

theorem isLowerHex_iff (s : String) : isLowerHex s = true ↔
    (strBytes s).length % 2 = 0 ∧ ∀ c ∈ strBytes s, isLowerHexByte c = true := by
  simp [isLowerHex, List.all_eq_true]

/-- A lower-case hex string decodes, and re-encoding gives the string back exactly. -/
theorem hex_roundtrip_of_isLowerHex (s : String) (h : isLowerHex s = true) :
    ∃ b, hexDecode s = .ok b ∧ hexEncode b = s := by
  obtain ⟨hlen, hall⟩ := (isLowerHex_iff s).1 h
  obtain ⟨b, hb⟩ := hexDecodeBytes_of_lower _ hlen hall
  refine ⟨b, hb, ?_⟩
  rw [hexEncode_of_hexDecode s b hb]
  unfold lowerHex
  have : (strBytes s).map lowerHexByte = strBytes s := by
    have : (strBytes s).map lowerHexByte = (strBytes s).map id :=
      List.map_congr_left (fun c hc => (isLowerHexByte_spec c (hall c hc)).1)
    simpa using this
  rw [this]
  exact asciiStr_strBytes s (fun c hc => (isLowerHexByte_spec c (hall c hc)).2.1)

/-! ## encoding/base64 -/

theorem b64_char_spec : ∀ n, n < 64 →
    b64Val? (b64Char n) = some n ∧ b64Char n < 128 := by
  decide

theorem b64Go_val (pd : Bool) (n si : Nat) (c : UInt8) (v : Nat) (rest : Bytes) (sx : List Nat)
    (hv : b64Val? c = some v) (hlen : sx.length ≠ 3) :
    b64Go pd n (c :: rest) si (.q sx) = b64Go pd n rest (si + 1) (.q (sx ++ [v])) := by
  rw [b64Go]; simp only [hv, hlen, if_false]

theorem b64Go_val3 (pd : Bool) (n si : Nat) (c : UInt8) (v : Nat) (rest : Bytes) (sx : List Nat)
    (hv : b64Val? c = some v) (hlen : sx.length = 3) :
    b64Go pd n (c :: rest) si (.q sx) =
      match b64Go pd n rest (si + 1) (.q []) with
      | .ok out => .ok (b64Emit (sx ++ [v]) ++ out)
      | .error e => .error e := by
  rw [b64Go]; simp only [hv, hlen, if_true]; rfl

/-- One full quantum: three bytes encoded as four characters decode to the same three bytes. -/
theorem b64Go_quantum (pd : Bool) (n si : Nat) (a b c : UInt8) (t : Bytes) :
    b64Go pd n (b64Char (a.toNat / 4) :: b64Char (a.toNat % 4 * 16 + b.toNat / 16) ::
      b64Char (b.toNat % 16 * 4 + c.toNat / 64) :: b64Char (c.toNat % 64) :: t) si (.q []) =
    match b64Go pd n t (si + 4) (.q []) with
    | .ok out => .ok (a :: b :: c :: out)
    | .error e => .error e := by
  have ha := a.toNat_lt
  have hb := b.toNat_lt
  have hc := c.toNat_lt
  have h0 := (b64_char_spec (a.toNat / 4) (by omega)).1
  have h1 := (b64_char_spec (a.toNat % 4 * 16 + b.toNat / 16) (by omega)).1
  have h2 := (b64_char_spec (b.toNat % 16 * 4 + c.toNat / 64) (by omega)).1
  have h3 := (b64_char_spec (c.toNat % 64) (by omega)).1
  rw [b64Go_val _ _ _ _ _ _ _ h0 (by simp), b64Go_val _ _ _ _ _ _ _ h1 (by simp),
    b64Go_val _ _ _ _ _ _ _ h2 (by simp), b64Go_val3 _ _ _ _ _ _ _ h3 (by simp)]
  have e0 : UInt8.ofNat (a.toNat / 4 * 4 + (a.toNat % 4 * 16 + b.toNat / 16) / 16) = a := by
    have : a.toNat / 4 * 4 + (a.toNat % 4 * 16 + b.toNat / 16) / 16 = a.toNat := by omega
    rw [this, UInt8.ofNat_toNat]
  have e1 : UInt8.ofNat ((a.toNat % 4 * 16 + b.toNat / 16) % 16 * 16 + (b.toNat % 16 * 4 + c.toNat / 64) / 4) = b := by
    have : (a.toNat % 4 * 16 + b.toNat / 16) % 16 * 16 + (b.toNat % 16 * 4 + c.toNat / 64) / 4 = b.toNat := by omega
    rw [this, UInt8.ofNat_toNat]
  have e2 : UInt8.ofNat ((b.toNat % 16 * 4 + c.toNat / 64) % 4 * 64 + c.toNat % 64) = c := by
    have : (b.toNat % 16 * 4 + c.toNat / 64) % 4 * 64 + c.toNat % 64 = c.toNat := by omega
    rw [this, UInt8.ofNat_toNat]
  simp only [List.nil_append, List.cons_append, b64Emit, e0, e1, e2]


theorem b64Go_nil (pd : Bool) (n si : Nat) : b64Go pd n [] si (.q []) = .ok [] := by
  rw [b64Go]; rfl

theorem b64Val_pad : b64Val? 61 = none := by decide

/-- Decoding (with padding flag `pd`) what `EncodeToString` (with padding flag `pe`) produced: the same
    flag always gives the bytes back; `URLEncoding.DecodeString` on `RawURLEncoding` output gives them back
    when no padding was needed and an error otherwise. -/
theorem b64Go_encode (pe pd : Bool) (n : Nat) (bs : Bytes) : ∀ si,
    (pd = pe → b64Go pd n (b64Encode pe bs) si (.q []) = .ok bs) ∧
    (b64Go pd n (b64Encode pe bs) si (.q []) = .ok bs ∨ ∃ e, b64Go pd n (b64Encode pe bs) si (.q []) = .error e) := by
  induction bs using b64Encode.induct with
  | case1 => intro si; simp [b64Encode, b64Go_nil]
  | case2 a =>
    intro si
    have ha := a.toNat_lt
    have h0 := (b64_char_spec (a.toNat / 4) (by omega)).1
    have h1 := (b64_char_spec (a.toNat % 4 * 16) (by omega)).1
    have e0 : UInt8.ofNat (a.toNat / 4 * 4 + a.toNat % 4 * 16 / 16) = a := by
      have : a.toNat / 4 * 4 + a.toNat % 4 * 16 / 16 = a.toNat := by omega
      rw [this, UInt8.ofNat_toNat]
    have hE : b64Emit [a.toNat / 4, a.toNat % 4 * 16] = [a] := by simp only [b64Emit, e0]
    cases pe <;> cases pd <;> simp [b64Encode, b64Go, h0, h1, b64Val_pad, hE]
  | case3 a b =>
    intro si
    have ha := a.toNat_lt
    have hb := b.toNat_lt
    have h0 := (b64_char_spec (a.toNat / 4) (by omega)).1
    have h1 := (b64_char_spec (a.toNat % 4 * 16 + b.toNat / 16) (by omega)).1
    have h2 := (b64_char_spec (b.toNat % 16 * 4) (by omega)).1
    have e0 : UInt8.ofNat (a.toNat / 4 * 4 + (a.toNat % 4 * 16 + b.toNat / 16) / 16) = a := by
      have : a.toNat / 4 * 4 + (a.toNat % 4 * 16 + b.toNat / 16) / 16 = a.toNat := by omega
      rw [this, UInt8.ofNat_toNat]
    have e1 : UInt8.ofNat ((a.toNat % 4 * 16 + b.toNat / 16) % 16 * 16 + b.toNat % 16 * 4 / 4) = b := by
      have : (a.toNat % 4 * 16 + b.toNat / 16) % 16 * 16 + b.toNat % 16 * 4 / 4 = b.toNat := by omega
      rw [this, UInt8.ofNat_toNat]
    have hE : b64Emit [a.toNat / 4, a.toNat % 4 * 16 + b.toNat / 16, b.toNat % 16 * 4] = [a, b] := by
      simp only [b64Emit, e0, e1]
    cases pe <;> cases pd <;> simp [b64Encode, b64Go, h0, h1, h2, b64Val_pad, hE]
  | case4 a b c rest ih =>
    intro si
    simp only [b64Encode]
    rw [b64Go_quantum]
    obtain ⟨ih1, ih2⟩ := ih (si + 4)
    constructor
    · intro h; rw [ih1 h]
    · rcases ih2 with h | ⟨e, h⟩
      · left; rw [h]
      · right; exact ⟨e, by rw [h]⟩


/-- `enc.DecodeString (enc.EncodeToString bs) = bs` for `URLEncoding` and for `RawURLEncoding`. -/
theorem b64Decode_encode (p : Bool) (bs : Bytes) : b64Decode p (b64Encode p bs) = .ok bs :=
  ((b64Go_encode p p _ bs) 0).1 rfl

/-- The two attempts of `DecodeTokenV3/V4` recover the bytes from either encoding. -/
theorem b64Stage_encode (pe : Bool) (bs : Bytes) : b64Stage (b64Encode pe bs) = .ok bs := by
  unfold b64Stage
  cases pe with
  | true => rw [b64Decode_encode]
  | false =>
    rcases ((b64Go_encode false true (b64Encode false bs).length bs) 0).2 with h | ⟨e, h⟩
    · unfold b64Decode; rw [h]
    · unfold b64Decode at *; rw [h]; exact b64Decode_encode false bs

theorem b64Encode_ascii (p : Bool) (bs : Bytes) : ∀ c ∈ b64Encode p bs, c < 128 := by
  induction bs using b64Encode.induct with
  | case1 => intro c hc; simp [b64Encode] at hc
  | case2 a =>
    intro c hc
    have ha := a.toNat_lt
    have h0 := (b64_char_spec (a.toNat / 4) (by omega)).2
    have h1 := (b64_char_spec (a.toNat % 4 * 16) (by omega)).2
    cases p <;> simp [b64Encode] at hc <;> rcases hc with rfl | rfl | rfl <;> first | assumption | decide
  | case3 a b =>
    intro c hc
    have ha := a.toNat_lt
    have hb := b.toNat_lt
    have h0 := (b64_char_spec (a.toNat / 4) (by omega)).2
    have h1 := (b64_char_spec (a.toNat % 4 * 16 + b.toNat / 16) (by omega)).2
    have h2 := (b64_char_spec (b.toNat % 16 * 4) (by omega)).2
    cases p <;> simp [b64Encode] at hc <;> rcases hc with rfl | rfl | rfl | rfl <;> first | assumption | decide
  | case4 a b c rest ih =>
    intro x hx
    have ha := a.toNat_lt
    have hb := b.toNat_lt
    have hc := c.toNat_lt
    have h0 := (b64_char_spec (a.toNat / 4) (by omega)).2
    have h1 := (b64_char_spec (a.toNat % 4 * 16 + b.toNat / 16) (by omega)).2
    have h2 := (b64_char_spec (b.toNat % 16 * 4 + c.toNat / 64) (by omega)).2
    have h3 := (b64_char_spec (c.toNat % 64) (by omega)).2
    simp only [b64Encode, List.mem_cons] at hx
    rcases hx with rfl | rfl | rfl | rfl | hx
    · exact h0
    · exact h1
    · exact h2
    · exact h3
    · exact ih x hx

/-! ## the string front end on serialised tokens -/

theorem prefixV3_length : prefixV3.length = 6 := by decide
theorem prefixV4_length : prefixV4.length = 6 := by decide
theorem prefixV3_ne_V4 : prefixV3 ≠ prefixV4 := by decide

theorem front_own (pfx : Bytes) (bad : DecErr) (hlen : pfx.length = 6) (pe : Bool) (payload : Bytes) :
    front pfx bad (pfx ++ b64Encode pe payload) = .ok payload := by
  unfold front
  have h1 : ¬ (pfx ++ b64Encode pe payload).length < 6 := by simp [hlen]
  simp only [h1, if_false, List.take_left' hlen, List.drop_left' hlen, ne_eq, not_true_eq_false,
    b64Stage_encode]

theorem front_other (pfx pfx' : Bytes) (bad : DecErr) (hlen : pfx'.length = 6) (hne : pfx' ≠ pfx) (rest : Bytes) :
    front pfx bad (pfx' ++ rest) = .err bad := by
  unfold front
  have h1 : ¬ (pfx' ++ rest).length < 6 := by simp [hlen]
  simp only [h1, if_false, List.take_left' hlen, ne_eq, hne, not_false_eq_true, if_true]

theorem strBytes_serializeV3 (js : Bytes) :
    strBytes ("cashuA" ++ asciiStr (b64Encode true js)) = prefixV3 ++ b64Encode true js := by
  rw [strBytes_append, strBytes_asciiStr _ (b64Encode_ascii true js)]; rfl

theorem strBytes_serializeV4 (cb : Bytes) :
    strBytes ("cashuB" ++ asciiStr (b64Encode false cb)) = prefixV4 ++ b64Encode false cb := by
  rw [strBytes_append, strBytes_asciiStr _ (b64Encode_ascii false cb)]; rfl

theorem checkV3_of_ne (t : TokenV3) (hne : t.token ≠ []) : checkV3 t = .ok t := by
  unfold checkV3
  cases h : t.token with
  | nil => exact absurd h hne
  | cons a b => simp

theorem checkV3_ok (t t' : TokenV3) (h : checkV3 t = .ok t') : t' = t ∧ t.token ≠ [] := by
  unfold checkV3 at h
  split at h
  · cases h
  · rename_i hl
    cases h
    exact ⟨rfl, fun e => hl (by simp [e])⟩

/-- `DecodeToken (t.Serialize())` for a V3 token, given that `json.Unmarshal` inverts `json.Marshal` on `t`. -/
theorem decodeToken_serializeV3 (cod : Codec) (t : TokenV3) (js : Bytes)
    (henc : cod.encJson t = some js) (hdec : cod.decJson js = some t) (hne : t.token ≠ []) :
    ∃ s, serializeV3 cod t = some s ∧ decodeToken cod s = .ok (.v3 t) ∧ decodeTokenV3 cod s = .ok t := by
  refine ⟨"cashuA" ++ asciiStr (b64Encode true js), by simp only [serializeV3, henc], ?_, ?_⟩
  · unfold decodeToken decodeTokenBytes decodeV4Bytes decodeV3Bytes frontV4 frontV3
    rw [strBytes_serializeV3, front_other _ _ _ prefixV3_length prefixV3_ne_V4,
      front_own _ _ prefixV3_length]
    simp only [hdec, checkV3_of_ne t hne]
  · unfold decodeTokenV3 decodeV3Bytes frontV3
    rw [strBytes_serializeV3, front_own _ _ prefixV3_length]
    simp only [hdec, checkV3_of_ne t hne]

/-- `DecodeToken (t.Serialize())` for a V4 token, given that `cbor.Unmarshal` inverts `cbor.Marshal` on `t`. -/
theorem decodeToken_serializeV4 (cod : Codec) (t : TokenV4) (cb : Bytes)
    (henc : cod.encCbor t = some cb) (hdec : cod.decCbor cb = some t) :
    ∃ s, serializeV4 cod t = some s ∧ decodeToken cod s = .ok (.v4 t) ∧ decodeTokenV4 cod s = .ok t := by
  refine ⟨"cashuB" ++ asciiStr (b64Encode false cb), by simp only [serializeV4, henc], ?_, ?_⟩
  · unfold decodeToken decodeTokenBytes decodeV4Bytes frontV4
    rw [strBytes_serializeV4, front_own _ _ prefixV4_length]
    simp only [hdec]
  · unfold decodeTokenV4 decodeV4Bytes frontV4
    rw [strBytes_serializeV4, front_own _ _ prefixV4_length]
    simp only [hdec]

/-! ## V3 accessors -/

theorem foldl_append_eq_flatMap {α β : Type} (f : α → List β) (l : List α) (init : List β) :
    l.foldl (fun acc a => acc ++ f a) init = init ++ l.flatMap f := by
  induction l generalizing init with
  | nil => simp
  | cons a rest ih => simp [ih, List.append_assoc]

theorem proofsV3_eq (t : TokenV3) : proofsV3 t = t.token.flatMap (·.proofs) := by
  unfold proofsV3; rw [foldl_append_eq_flatMap]; rfl

theorem proofsV4_eq (t : TokenV4) :
    proofsV4 t = t.tokenProofs.flatMap (fun g => g.proofs.map (fromV4 (hexEncode g.id))) := by
  unfold proofsV4; rw [foldl_append_eq_flatMap]; rfl

theorem amountWrap_append (xs ys : List UInt64) :
    amountWrap (xs ++ ys) = ys.foldl (· + ·) (amountWrap xs) := by
  unfold amountWrap; rw [List.foldl_append]

theorem amountV3_eq (t : TokenV3) : amountV3 t = amountWrap ((proofsV3 t).map (·.amount)) := by
  rw [proofsV3_eq]
  unfold amountV3
  have : ∀ (l : List TokenV3Proof) (acc : UInt64) (pre : List UInt64), acc = amountWrap pre →
      l.foldl (fun acc tp => tp.proofs.foldl (fun acc p => acc + p.amount) acc) acc =
        amountWrap (pre ++ (l.flatMap (·.proofs)).map (·.amount)) := by
    intro l
    induction l with
    | nil => intro acc pre h; simp [h]
    | cons tp rest ih =>
      intro acc pre h
      simp only [List.foldl_cons, List.flatMap_cons, List.map_append]
      rw [← List.append_assoc]
      apply ih
      rw [amountWrap_append, ← h, List.foldl_map]
  simpa using this t.token 0 [] rfl

/-- The wrapping sum does not depend on the order. -/
theorem amountWrap_perm {xs ys : List UInt64} (h : xs.Perm ys) : amountWrap xs = amountWrap ys := by
  unfold amountWrap
  apply List.Perm.foldl_eq' h
  intro x _ y _ z
  rw [UInt64.add_assoc, UInt64.add_comm x y, ← UInt64.add_assoc]

/-! ## NewTokenV4 -/

/-- What the property promises for one input proof after a V4 round trip: hex fields as
    `EncodeToString (DecodeString ·)` leaves them (`A-F` lowered), DLEQ kept iff requested. -/
def DLEQ.lower (d : DLEQ) : DLEQ := { e := lowerHex d.e, s := lowerHex d.s, r := lowerHex d.r }

def normV4 (includeDLEQ : Bool) (p : Proof) : Proof :=
  { amount := p.amount, id := lowerHex p.id, secret := p.secret, c := lowerHex p.c, witness := p.witness,
    dleq := if includeDLEQ then p.dleq.map DLEQ.lower else none }

/-- The proof passes the checks of the first loop of `NewTokenV4`. -/
def V4Acceptable (includeDLEQ : Bool) (p : Proof) : Prop :=
  (∃ c, hexDecode p.c = .ok c) ∧
  (includeDLEQ = true → ∀ d, p.dleq = some d →
    (∃ e, hexDecode d.e = .ok e) ∧ (∃ s, hexDecode d.s = .ok s) ∧ (strBytes d.r).length > 0 ∧ (∃ r, hexDecode d.r = .ok r))

theorem toV4_ok (d : Bool) (p : Proof) (q : ProofV4) (h : toV4 d p = .ok q) :
    V4Acceptable d p ∧ fromV4 (lowerHex p.id) q = normV4 d p := by
  unfold toV4 at h
  split at h
  · cases h
  · rename_i c hc
    cases d with
    | false =>
      simp only [Bool.false_eq_true, if_false] at h
      cases h
      refine ⟨⟨⟨c, hc⟩, by simp⟩, ?_⟩
      simp [fromV4, normV4, hexEncode_of_hexDecode _ _ hc]
    | true =>
      simp only [if_true] at h
      split at h
      · rename_i hd
        cases h
        refine ⟨⟨⟨c, hc⟩, by simp [hd]⟩, ?_⟩
        simp [fromV4, normV4, hexEncode_of_hexDecode _ _ hc, hd]
      · rename_i dl hd
        split at h
        · cases h
        · rename_i e he
          split at h
          · cases h
          · rename_i s hs
            split at h
            · rename_i hr
              split at h
              · cases h
              · rename_i r hrr
                cases h
                refine ⟨⟨⟨c, hc⟩, ?_⟩, ?_⟩
                · intro _ d' hd'
                  rw [hd] at hd'; cases hd'
                  exact ⟨⟨e, he⟩, ⟨s, hs⟩, hr, ⟨r, hrr⟩⟩
                · simp [fromV4, normV4, DLEQ.lower, hexEncode_of_hexDecode _ _ hc,
                    hexEncode_of_hexDecode _ _ he, hexEncode_of_hexDecode _ _ hs, hexEncode_of_hexDecode _ _ hrr, hd]
            · cases h

theorem toV4_of_acceptable (d : Bool) (p : Proof) (h : V4Acceptable d p) : ∃ q, toV4 d p = .ok q := by
  obtain ⟨⟨c, hc⟩, hd⟩ := h
  unfold toV4
  simp only [hc]
  cases d with
  | false => exact ⟨_, rfl⟩
  | true =>
    simp only [if_true]
    cases hdl : p.dleq with
    | none => exact ⟨_, rfl⟩
    | some dl =>
      obtain ⟨⟨e, he⟩, ⟨s, hs⟩, hr, ⟨r, hrr⟩⟩ := hd rfl dl hdl
      simp only [he, hs, hr, hrr, if_true]
      exact ⟨_, rfl⟩


/-! ### the Go map -/

theorem GoMap.get_push (m : GoMap) (k k' : String) (p : ProofV4) :
    (m.push k p).get k' = if k' = k then m.get k ++ [p] else m.get k' := by
  induction m with
  | nil =>
    by_cases h : k' = k
    · subst h; simp [GoMap.push, GoMap.get]
    · have h' : ¬ k = k' := fun e => h e.symm
      simp [GoMap.push, GoMap.get, h, h']
  | cons kv rest ih =>
    obtain ⟨k0, v0⟩ := kv
    by_cases h0 : k0 = k
    · subst h0
      by_cases h : k' = k0
      · subst h; simp [GoMap.push, GoMap.get]
      · have h' : ¬ k0 = k' := fun e => h e.symm
        simp [GoMap.push, GoMap.get, h, h']
    · by_cases h : k' = k
      · subst h
        simp [GoMap.push, GoMap.get, h0, ih]
      · by_cases h1 : k0 = k'
        · subst h1; simp [GoMap.push, GoMap.get, h0]
        · simp [GoMap.push, GoMap.get, h0, h1, ih, h]

theorem GoMap.mem_keys_push (m : GoMap) (k k' : String) (p : ProofV4) :
    k' ∈ (m.push k p).keys ↔ k' ∈ m.keys ∨ k' = k := by
  induction m with
  | nil => simp [GoMap.push, GoMap.keys]
  | cons kv rest ih =>
    obtain ⟨k0, v0⟩ := kv
    by_cases h0 : k0 = k
    · subst h0; simp [GoMap.push, GoMap.keys]; intro h; exact Or.inl h
    · simp only [GoMap.keys] at ih
      simp [GoMap.push, GoMap.keys, h0, ih, or_assoc]

/-- The total version of `toV4` (only used where `toV4` succeeds). -/
def toV4D (d : Bool) (p : Proof) : ProofV4 :=
  match toV4 d p with
  | .ok q => q
  | .error _ => default

/-- First loop of `NewTokenV4`: it succeeds iff every proof is acceptable, and then the map holds, under
    each keyset id, the `ProofV4`s of the proofs with that id, in their input order. -/
theorem buildMap_ok (d : Bool) (ps : List Proof) : ∀ (m m' : GoMap), buildMap d ps m = .ok m' →
    (∀ p ∈ ps, ∃ q, toV4 d p = .ok q) ∧
    (∀ k, m'.get k = m.get k ++ (ps.filter (fun p => p.id = k)).map (toV4D d)) ∧
    (∀ k, k ∈ m'.keys ↔ k ∈ m.keys ∨ ∃ p ∈ ps, p.id = k) := by
  induction ps with
  | nil => intro m m' h; simp [buildMap] at h; subst h; simp
  | cons p rest ih =>
    intro m m' h
    unfold buildMap at h
    split at h
    · cases h
    · rename_i q hq
      obtain ⟨h1, h2, h3⟩ := ih _ _ h
      refine ⟨?_, ?_, ?_⟩
      · intro x hx
        simp only [List.mem_cons] at hx
        rcases hx with rfl | hx
        · exact ⟨q, hq⟩
        · exact h1 x hx
      · intro k
        rw [h2 k, GoMap.get_push]
        by_cases hk : k = p.id
        · subst hk
          simp [toV4D, hq]
        · have hk' : ¬ p.id = k := fun e => hk e.symm
          simp [hk, hk']
      · intro k
        rw [h3 k, GoMap.mem_keys_push]
        simp only [List.mem_cons, exists_eq_or_imp]
        constructor
        · rintro ((h | h) | h)
          · exact Or.inl h
          · exact Or.inr (Or.inl h.symm)
          · exact Or.inr (Or.inr h)
        · rintro (h | h | h)
          · exact Or.inl (Or.inl h)
          · exact Or.inl (Or.inr h.symm)
          · exact Or.inr h

theorem buildMap_of_acceptable (d : Bool) (ps : List Proof) (h : ∀ p ∈ ps, V4Acceptable d p) :
    ∀ m, ∃ m', buildMap d ps m = .ok m' := by
  induction ps with
  | nil => intro m; exact ⟨m, rfl⟩
  | cons p rest ih =>
    intro m
    obtain ⟨q, hq⟩ := toV4_of_acceptable d p (h p (by simp))
    unfold buildMap
    simp only [hq]
    exact ih (fun x hx => h x (by simp [hx])) _

/-- Second loop of `NewTokenV4`: it succeeds iff every visited key is hex, and then there is one group per
    visited key, in the visiting order. -/
theorem buildGroups_ok (m : GoMap) (ord : List String) : ∀ gs, buildGroups m ord = .ok gs →
    (∀ k ∈ ord, ∃ b, hexDecode k = .ok b) ∧
    gs.flatMap (fun g => g.proofs.map (fromV4 (hexEncode g.id))) =
      ord.flatMap (fun k => (m.get k).map (fromV4 (lowerHex k))) := by
  induction ord with
  | nil => intro gs h; simp [buildGroups] at h; subst h; simp
  | cons k ks ih =>
    intro gs h
    unfold buildGroups at h
    split at h
    · cases h
    · rename_i idb hk
      split at h
      · cases h
      · rename_i gs' hgs
        cases h
        obtain ⟨h1, h2⟩ := ih gs' hgs
        refine ⟨?_, ?_⟩
        · intro x hx
          simp only [List.mem_cons] at hx
          rcases hx with rfl | hx
          · exact ⟨idb, hk⟩
          · exact h1 x hx
        · simp only [List.flatMap_cons, h2, hexEncode_of_hexDecode _ _ hk]

theorem buildGroups_of_hex (m : GoMap) (ord : List String) (h : ∀ k ∈ ord, ∃ b, hexDecode k = .ok b) :
    ∃ gs, buildGroups m ord = .ok gs := by
  induction ord with
  | nil => exact ⟨[], rfl⟩
  | cons k ks ih =>
    obtain ⟨b, hb⟩ := h k (by simp)
    obtain ⟨gs, hgs⟩ := ih (fun x hx => h x (by simp [hx]))
    exact ⟨{ id := b, proofs := m.get k } :: gs, by simp only [buildGroups, hb, hgs]⟩


/-- `NewTokenV4` succeeded: every proof passed the checks, every visited key is hex, and `Proofs()` of the
    result is, keyset by keyset in visiting order, the input proofs of that keyset (input order) with their hex
    fields in canonical form. -/
theorem newV4_ok (ord : List String) (ps : List Proof) (mint : String) (unit : Int) (d : Bool) (t : TokenV4)
    (h : newV4 ord ps mint unit d = .ok t) :
    unit = 0 ∧ (∀ p ∈ ps, V4Acceptable d p) ∧ (∀ k ∈ ord, ∃ b, hexDecode k = .ok b) ∧
    t.mintURL = mint ∧ t.unit = "sat" ∧ t.memo = "" ∧
    proofsV4 t = ord.flatMap (fun k => (ps.filter (fun p => p.id = k)).map (normV4 d)) := by
  unfold newV4 newV4With at h
  split at h
  · cases h
  · rename_i hu
    have hu : unit = 0 := by simpa using hu
    split at h
    · cases h
    · rename_i m hm
      split at h
      · cases h
      · rename_i gs hgs
        cases h
        obtain ⟨h1, h2, _⟩ := buildMap_ok d ps [] m hm
        obtain ⟨h4, h5⟩ := buildGroups_ok m ord gs hgs
        refine ⟨hu, fun p hp => ?_, h4, rfl, by simp [unitString, hu], rfl, ?_⟩
        · obtain ⟨q, hq⟩ := h1 p hp
          exact (toV4_ok d p q hq).1
        · rw [proofsV4_eq]
          simp only []
          rw [h5]
          congr 1
          funext k
          rw [h2 k]
          simp only [GoMap.get, List.nil_append, List.map_map]
          apply List.map_congr_left
          intro p hp
          simp only [List.mem_filter, decide_eq_true_eq] at hp
          obtain ⟨q, hq⟩ := h1 p hp.1
          simp only [Function.comp, toV4D, hq]
          rw [← hp.2]
          exact (toV4_ok d p q hq).2

/-- Conversely `NewTokenV4` succeeds whenever the unit is `Sat`, every proof is acceptable and every visited key is hex. -/
theorem newV4_of_acceptable (ord : List String) (ps : List Proof) (mint : String) (d : Bool)
    (hps : ∀ p ∈ ps, V4Acceptable d p) (hord : ∀ k ∈ ord, ∃ b, hexDecode k = .ok b) :
    ∃ t, newV4 ord ps mint 0 d = .ok t := by
  obtain ⟨m, hm⟩ := buildMap_of_acceptable d ps hps []
  obtain ⟨gs, hgs⟩ := buildGroups_of_hex m ord hord
  exact ⟨{ tokenProofs := gs, memo := "", mintURL := mint, unit := unitString 0 },
    by simp [newV4, newV4With, hm, hgs]⟩

/-- The first loop of `NewTokenV4` returns the error of the FIRST proof that fails a check. -/
theorem buildMap_first_error (d : Bool) (pre : List Proof) (p : Proof) (post : List Proof) (e : NewErr)
    (hpre : ∀ x ∈ pre, V4Acceptable d x) (hp : toV4 d p = .error e) :
    ∀ m, buildMap d (pre ++ p :: post) m = .error e := by
  induction pre with
  | nil => intro m; simp [buildMap, hp]
  | cons x rest ih =>
    intro m
    obtain ⟨q, hq⟩ := toV4_of_acceptable d x (hpre x (by simp))
    simp only [List.cons_append, buildMap, hq]
    exact ih (fun y hy => hpre y (by simp [hy])) _

theorem buildGroups_length (m : GoMap) (ord : List String) : ∀ gs, buildGroups m ord = .ok gs →
    gs.length = ord.length ∧ ∀ g ∈ gs, ∃ k ∈ ord, hexDecode k = .ok g.id ∧ g.proofs = m.get k := by
  induction ord with
  | nil => intro gs h; simp [buildGroups] at h; subst h; simp
  | cons k ks ih =>
    intro gs h
    unfold buildGroups at h
    split at h
    · cases h
    · rename_i idb hk
      split at h
      · cases h
      · rename_i gs' hgs
        cases h
        obtain ⟨h1, h2⟩ := ih gs' hgs
        refine ⟨by simp [h1], ?_⟩
        intro g hg
        simp only [List.mem_cons] at hg
        rcases hg with rfl | hg
        · exact ⟨k, by simp, hk, rfl⟩
        · obtain ⟨k', hk', h3⟩ := h2 g hg
          exact ⟨k', by simp [hk'], h3⟩

/-! ### grouping by keyset id is a permutation that keeps the order inside each keyset -/

theorem flatMap_filter_perm_aux (ps : List Proof) (ks : List String) (hnd : ks.Nodup) :
    (ks.flatMap (fun k => ps.filter (fun p => p.id = k))).Perm (ps.filter (fun p => decide (p.id ∈ ks))) := by
  induction ks with
  | nil => simp
  | cons k ks ih =>
    have hk : k ∉ ks := (List.nodup_cons.1 hnd).1
    have ih := ih (List.nodup_cons.1 hnd).2
    simp only [List.flatMap_cons]
    refine (List.Perm.append_left _ ih).trans ?_
    have key := List.filter_append_perm (fun p : Proof => decide (p.id = k)) (ps.filter (fun p => decide (p.id ∈ k :: ks)))
    rw [List.filter_filter, List.filter_filter] at key
    have e1 : ps.filter (fun p => decide (p.id = k) && decide (p.id ∈ k :: ks)) = ps.filter (fun p => decide (p.id = k)) := by
      apply List.filter_congr
      intro p _
      by_cases h : p.id = k <;> simp [h]
    have e2 : ps.filter (fun p => (!decide (p.id = k)) && decide (p.id ∈ k :: ks)) = ps.filter (fun p => decide (p.id ∈ ks)) := by
      apply List.filter_congr
      intro p _
      by_cases h : p.id = k
      · subst h; simp [hk]
      · simp [h]
    rw [e1, e2] at key
    exact key

theorem flatMap_filter_perm (ps : List Proof) (ord : List String) (h : OrderOf ps ord) :
    (ord.flatMap (fun k => ps.filter (fun p => p.id = k))).Perm ps := by
  have := flatMap_filter_perm_aux ps ord h.1
  have e : ps.filter (fun p => decide (p.id ∈ ord)) = ps := by
    apply List.filter_eq_self.2
    intro p hp
    simpa using (h.2 p.id).2 ⟨p, hp, rfl⟩
  rwa [e] at this

theorem normV4_amount (d : Bool) (p : Proof) : (normV4 d p).amount = p.amount := rfl

/-! ### lower-case hex proofs: the round trip is exact -/

theorem strBytes_eq_nil (s : String) (h : strBytes s = []) : s = "" := by
  have := asciiStr_strBytes s (by rw [h]; intro b hb; cases hb)
  rw [h] at this
  exact this.symm

/-- `NewTokenV3`'s treatment of the DLEQ: kept iff requested. -/
def Proof.keep (includeDLEQ : Bool) (p : Proof) : Proof := if includeDLEQ then p else p.clearDLEQ

/-- Keyset id, `C` and (when the DLEQ is to be included and present) `e`, `s`, `r` are lower-case hex, and `r`
    is not empty. -/
def LowerHexProof (includeDLEQ : Bool) (p : Proof) : Prop :=
  isLowerHex p.id = true ∧ isLowerHex p.c = true ∧
  (includeDLEQ = true → ∀ d, p.dleq = some d →
    isLowerHex d.e = true ∧ isLowerHex d.s = true ∧ isLowerHex d.r = true ∧ d.r ≠ "")

theorem lowerHex_of_isLowerHex (s : String) (h : isLowerHex s = true) : lowerHex s = s := by
  obtain ⟨b, hb, he⟩ := hex_roundtrip_of_isLowerHex s h
  rw [← hexEncode_of_hexDecode s b hb, he]

theorem LowerHexProof.acceptable {d : Bool} {p : Proof} (h : LowerHexProof d p) : V4Acceptable d p := by
  obtain ⟨_, hc, hd⟩ := h
  refine ⟨?_, ?_⟩
  · obtain ⟨b, hb, _⟩ := hex_roundtrip_of_isLowerHex _ hc; exact ⟨b, hb⟩
  · intro hd' dl hdl
    obtain ⟨he, hs, hr, hne⟩ := hd hd' dl hdl
    obtain ⟨be, hbe, _⟩ := hex_roundtrip_of_isLowerHex _ he
    obtain ⟨bs, hbs, _⟩ := hex_roundtrip_of_isLowerHex _ hs
    obtain ⟨br, hbr, _⟩ := hex_roundtrip_of_isLowerHex _ hr
    refine ⟨⟨be, hbe⟩, ⟨bs, hbs⟩, ?_, ⟨br, hbr⟩⟩
    cases hlen : strBytes dl.r with
    | nil => exact absurd (strBytes_eq_nil _ hlen) hne
    | cons _ _ => simp

theorem LowerHexProof.norm {d : Bool} {p : Proof} (h : LowerHexProof d p) : normV4 d p = p.keep d := by
  obtain ⟨hid, hc, hd⟩ := h
  cases d with
  | false =>
    simp [normV4, Proof.keep, Proof.clearDLEQ, lowerHex_of_isLowerHex _ hid, lowerHex_of_isLowerHex _ hc]
  | true =>
    cases hdl : p.dleq with
    | none =>
      cases p
      simp_all [normV4, Proof.keep, lowerHex_of_isLowerHex]
    | some dl =>
      obtain ⟨he, hs, hr, _⟩ := hd rfl dl hdl
      cases p
      cases dl
      simp_all [normV4, Proof.keep, DLEQ.lower, lowerHex_of_isLowerHex]

theorem Proof.keep_true : Proof.keep true = fun p => p := by funext p; rfl
theorem Proof.keep_false : Proof.keep false = Proof.clearDLEQ := by funext p; rfl

/-! ## the front end never panics; the code before the fix panics exactly below 6 bytes -/

theorem front_no_panic (pfx : Bytes) (bad : DecErr) (s : Bytes) (p : Panic) : front pfx bad s ≠ .panic p := by
  unfold front
  by_cases h1 : s.length < cut
  · simp [h1]
  · by_cases h2 : s.take cut = pfx
    · simp only [h1, if_false, ne_eq, h2, not_true_eq_false]
      cases b64Stage (s.drop cut) <;> simp
    · simp [h1, h2]

theorem front_short (pfx : Bytes) (bad : DecErr) (s : Bytes) (h : s.length < 6) : front pfx bad s = .err bad := by
  unfold front; simp [h]

theorem decodeV4Bytes_no_panic (cod : Codec) (s : Bytes) (p : Panic) : decodeV4Bytes cod s ≠ .panic p := by
  unfold decodeV4Bytes frontV4
  have := front_no_panic prefixV4 .invalidTokenV4 s
  repeat' split
  all_goals simp_all

theorem decodeV3Bytes_no_panic (cod : Codec) (s : Bytes) (p : Panic) : decodeV3Bytes cod s ≠ .panic p := by
  unfold decodeV3Bytes frontV3 checkV3
  have := front_no_panic prefixV3 .invalidTokenV3 s
  repeat' split
  all_goals simp_all

theorem decodeV3Bytes_ok (cod : Codec) (s : Bytes) (t : TokenV3) (h : decodeV3Bytes cod s = .ok t) : t.token ≠ [] := by
  unfold decodeV3Bytes at h
  split at h
  · cases h
  · cases h
  · split at h
    · cases h
    · exact (checkV3_ok _ _ h).1 ▸ (checkV3_ok _ _ h).2

theorem decodeTokenBytes_no_panic (cod : Codec) (s : Bytes) (p : Panic) : decodeTokenBytes cod s ≠ .panic p := by
  unfold decodeTokenBytes
  have h4 := decodeV4Bytes_no_panic cod s
  have h3 := decodeV3Bytes_no_panic cod s
  repeat' split
  all_goals simp_all

theorem decodeTokenBytes_ok_v3 (cod : Codec) (s : Bytes) (t : TokenV3) (h : decodeTokenBytes cod s = .ok (.v3 t)) :
    t.token ≠ [] := by
  unfold decodeTokenBytes at h
  split at h
  · cases h
  · cases h
  · split at h
    · cases h
    · rename_i t' ht
      cases h
      exact decodeV3Bytes_ok cod s t ht
    · cases h

theorem decodeTokenBytes_short (cod : Codec) (s : Bytes) (h : s.length < 6) :
    decodeTokenBytes cod s = .err .invalidTokenV3 := by
  unfold decodeTokenBytes decodeV4Bytes decodeV3Bytes frontV4 frontV3
  rw [front_short _ _ _ h, front_short _ _ _ h]

theorem frontOld_cases (pfx : Bytes) (bad : DecErr) (s : Bytes) :
    (s.length < 6 ∧ frontOld pfx bad s = .panic (.sliceBounds 6 s.length)) ∨
    (6 ≤ s.length ∧ ((∃ e, frontOld pfx bad s = .err e) ∨ ∃ b, frontOld pfx bad s = .ok b)) := by
  unfold frontOld
  by_cases h : s.length < 6
  · left; simp [h]
  · right
    refine ⟨by omega, ?_⟩
    simp only [h, if_false]
    split
    · exact Or.inl ⟨_, rfl⟩
    · split
      · exact Or.inl ⟨_, rfl⟩
      · exact Or.inr ⟨_, rfl⟩

/-- Before the fix `DecodeToken` panicked exactly on inputs of fewer than 6 bytes (in `DecodeTokenV4`). -/
theorem decodeTokenBytesOld_panic_iff (cod : Codec) (s : Bytes) (p : Panic) :
    decodeTokenBytesOld cod s = .panic p ↔ s.length < 6 ∧ p = .sliceBounds 6 s.length := by
  unfold decodeTokenBytesOld
  rcases frontOld_cases prefixV4 .invalidTokenV4 s with ⟨h, e⟩ | ⟨h, ⟨e, he⟩ | ⟨b, hb⟩⟩
  · simp only [e]
    constructor
    · intro hp; cases hp; exact ⟨h, rfl⟩
    · intro hp; rw [hp.2]
  · have h3 : ∀ q, frontOld prefixV3 .invalidTokenV3 s ≠ .panic q := by
      intro q hq
      rcases frontOld_cases prefixV3 .invalidTokenV3 s with ⟨h', _⟩ | ⟨_, ⟨e', he'⟩ | ⟨b', hb'⟩⟩
      · omega
      · rw [he'] at hq; cases hq
      · rw [hb'] at hq; cases hq
    simp only [he]
    constructor
    · intro hp
      exfalso
      repeat' split at hp
      all_goals simp_all
    · intro hp; omega
  · have h3 : ∀ q, frontOld prefixV3 .invalidTokenV3 s ≠ .panic q := by
      intro q hq
      rcases frontOld_cases prefixV3 .invalidTokenV3 s with ⟨h', _⟩ | ⟨_, ⟨e', he'⟩ | ⟨b', hb'⟩⟩
      · omega
      · rw [he'] at hq; cases hq
      · rw [hb'] at hq; cases hq
    simp only [hb]
    constructor
    · intro hp
      exfalso
      cases hdc : cod.decCbor b with
      | some t => simp [hdc] at hp
      | none =>
        simp only [hdc] at hp
        repeat' split at hp
        all_goals simp_all
    · intro hp; omega

/-! ## concrete instances used by the non-vacuity examples of `Props/C14.lean` -/

/-- Three proofs over two keysets, interleaved; a NUT-10 secret with quotes, a witness, complete DLEQs. -/
def psEx : List Proof :=
  [ { amount := 1, id := "00ab", secret := "[\"P2PK\",{\"nonce\":\"🥜\\\\\"}]", c := "02ff", witness := "", 
      dleq := some { e := "0a", s := "0b", r := "0c" } },
    { amount := 18446744073709551615, id := "00cd", secret := "s2", c := "03", witness := "{\"signatures\":[\"ab\"]}", dleq := none },
    { amount := 2, id := "00ab", secret := "s3", c := "02", witness := "w", dleq := some { e := "01", s := "02", r := "03" } } ]

/-- A toy codec that inverts itself on exactly one V3 and one V4 token (any codec with `dec (enc t) = some t`
    on the token at hand will do; the real libraries are exercised by the stream). -/
def codEx (t3 : TokenV3) (t4 : TokenV4) : Codec :=
  { encJson := fun t => if t = t3 then some [123, 125] else none
    decJson := fun b => if b = [123, 125] then some t3 else none
    encCbor := fun t => if t = t4 then some [160, 1, 2, 3] else none
    decCbor := fun b => if b = [160, 1, 2, 3] then some t4 else none }

theorem orderEx : OrderOf psEx ["00cd", "00ab"] := by
  refine ⟨by decide, ?_⟩
  intro k
  simp only [psEx, List.mem_cons, List.not_mem_nil, or_false, exists_eq_or_imp, exists_eq_left]
  constructor
  · rintro (h | h) <;> simp [h]
  · rintro (h | h | h) <;> simp [← h]

theorem lowerEx : ∀ p ∈ psEx, LowerHexProof true p := by
  intro p hp
  simp only [psEx, List.mem_cons, List.not_mem_nil, or_false] at hp
  rcases hp with rfl | rfl | rfl
  · exact ⟨by decide, by decide, fun _ d h => by cases h; decide⟩
  · exact ⟨by decide, by decide, fun _ d h => by cases h⟩
  · exact ⟨by decide, by decide, fun _ d h => by cases h; decide⟩

end Gonuts.Model.Token
