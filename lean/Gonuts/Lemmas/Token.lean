import Gonuts.Model.Token
import Gonuts.Lemmas.Amount
/-! Helper lemmas about `Model.Token` (property C14). -/
namespace Gonuts.Model.Token

/-! ## bytes of strings -/

theorem strBytes_append (a b : String) : strBytes (a ++ b) = strBytes a ++ strBytes b := by
  simp [strBytes, String.toByteArray_append, ByteArray.data_append]

theorem strBytes_ofList (cs : List Char) : strBytes (String.ofList cs) = cs.flatMap String.utf8EncodeChar := by
  simp [strBytes, String.toByteArray_ofList, List.utf8Encode, List.data_toByteArray]

theorem strBytes_eq_flatMap (s : String) : strBytes s = s.toList.flatMap String.utf8EncodeChar := by
  rw [← strBytes_ofList, String.ofList_toList]

/-- UTF-8 encoding of an ASCII character. -/
theorem utf8EncodeChar_ascii (b : UInt8) (h : b < 128) :
    String.utf8EncodeChar (Char.ofNat b.toNat) = [b] := by
  have hb : b.toNat < 128 := by simpa [UInt8.lt_iff_toNat_lt] using h
  have hv : (Char.ofNat b.toNat).val.toNat = b.toNat := by
    have : b.toNat.isValidChar := by left; omega
    simp [Char.ofNat, this, Char.ofNatAux]
  unfold String.utf8EncodeChar
  simp only [hv]
  rw [if_pos (by omega)]
  simp

theorem strBytes_asciiStr (bs : Bytes) (h : ∀ b ∈ bs, b < 128) : strBytes (asciiStr bs) = bs := by
  unfold asciiStr
  rw [strBytes_ofList]
  induction bs with
  | nil => rfl
  | cons b rest ih =>
    simp only [List.map_cons, List.flatMap_cons]
    rw [utf8EncodeChar_ascii b (h b (by simp)), ih (fun x hx => h x (by simp [hx]))]
    rfl

/-- A character all of whose UTF-8 bytes are below 128 is the ASCII character of its single byte. -/
theorem utf8EncodeChar_all_lt (c : Char) (h : ∀ b ∈ String.utf8EncodeChar c, b < 128) :
    ∃ b, String.utf8EncodeChar c = [b] ∧ Char.ofNat b.toNat = c := by
  by_cases hv : c.val.toNat ≤ 127
  · refine ⟨UInt8.ofNat c.val.toNat, ?_, ?_⟩
    · unfold String.utf8EncodeChar; simp only []; rw [if_pos hv]
    · have : (UInt8.ofNat c.val.toNat).toNat = c.val.toNat := by
        have hc : c.toNat = c.val.toNat := rfl
        simp [UInt8.toNat_ofNat']; omega
      rw [this]; exact Char.ofNat_toNat c
  · exfalso
    unfold String.utf8EncodeChar at h
    simp only [] at h
    rw [if_neg hv] at h
    split at h
    · have := h _ (List.mem_cons_self)
      rw [UInt8.lt_iff_toNat_lt] at this
      simp [UInt8.toNat_ofNat'] at this
      omega
    · split at h
      · have := h _ (List.mem_cons_self)
        rw [UInt8.lt_iff_toNat_lt] at this
        simp [UInt8.toNat_ofNat'] at this
        omega
      · have := h _ (List.mem_cons_self)
        rw [UInt8.lt_iff_toNat_lt] at this
        simp [UInt8.toNat_ofNat'] at this
        omega

theorem asciiStr_strBytes (s : String) (h : ∀ b ∈ strBytes s, b < 128) : asciiStr (strBytes s) = s := by
  rw [strBytes_eq_flatMap] at h ⊢
  have : ∀ cs : List Char, (∀ b ∈ cs.flatMap String.utf8EncodeChar, b < 128) →
      (cs.flatMap String.utf8EncodeChar).map (fun b => Char.ofNat b.toNat) = cs := by
    intro cs
    induction cs with
    | nil => intro _; rfl
    | cons c rest ih =>
      intro hc
      simp only [List.flatMap_cons, List.mem_append] at hc ⊢
      obtain ⟨b, hb, hcb⟩ := utf8EncodeChar_all_lt c (fun b hb => hc b (Or.inl hb))
      rw [hb, List.map_append, ih (fun b hb => hc b (Or.inr hb))]
      simp [hcb]
  unfold asciiStr
  rw [this _ h, String.ofList_toList]

/-! ## encoding/hex -/

theorem forall_uint8 (P : UInt8 → Prop) (h : ∀ n, n < 256 → P (UInt8.ofNat n)) : ∀ b, P b := by
  intro b
  have := h b.toNat b.toNat_lt
  rwa [UInt8.ofNat_toNat] at this

set_option maxRecDepth 100000 in
theorem hex_byte_roundtrip : ∀ b : UInt8,
    hexVal? (hexDigitByte (b >>> 4)) = some (b >>> 4) ∧
    hexVal? (hexDigitByte (b &&& 15)) = some (b &&& 15) ∧
    ((b >>> 4) <<< 4 ||| (b &&& 15)) = b ∧
    hexDigitByte (b >>> 4) < 128 ∧ hexDigitByte (b &&& 15) < 128 := by
  apply forall_uint8
  decide

theorem hexDecodeBytes_encode (b : Bytes) : hexDecodeBytes (hexEncodeBytes b) = .ok b := by
  induction b with
  | nil => rfl
  | cons x rest ih =>
    obtain ⟨h1, h2, h3, _, _⟩ := hex_byte_roundtrip x
    simp only [hexEncodeBytes, hexDecodeBytes, h1, h2, ih, h3]

theorem hexEncodeBytes_ascii (b : Bytes) : ∀ c ∈ hexEncodeBytes b, c < 128 := by
  induction b with
  | nil => intro c hc; simp [hexEncodeBytes] at hc
  | cons x rest ih =>
    obtain ⟨_, _, _, h4, h5⟩ := hex_byte_roundtrip x
    intro c hc
    simp only [hexEncodeBytes, List.mem_cons] at hc
    rcases hc with rfl | rfl | hc
    · exact h4
    · exact h5
    · exact ih c hc

/-- `hex.DecodeString (hex.EncodeToString b) = b`. -/
theorem hexDecode_hexEncode (b : Bytes) : hexDecode (hexEncode b) = .ok b := by
  unfold hexDecode hexEncode
  rw [strBytes_asciiStr _ (hexEncodeBytes_ascii b), hexDecodeBytes_encode]

set_option maxRecDepth 100000 in
theorem hexVal_spec : ∀ p : UInt8, ∀ a, hexVal? p = some a →
    a < 16 ∧ hexDigitByte a = lowerHexByte p ∧ p < 128 := by
  apply forall_uint8
  decide

set_option maxRecDepth 100000 in
theorem nibbles_join_nat : ∀ n, n < 16 → ∀ m, m < 16 →
    ((UInt8.ofNat n <<< 4 ||| UInt8.ofNat m) >>> 4 = UInt8.ofNat n ∧
     (UInt8.ofNat n <<< 4 ||| UInt8.ofNat m) &&& 15 = UInt8.ofNat m) := by
  decide

theorem nibbles_join (a b : UInt8) (ha : a < 16) (hb : b < 16) :
    (a <<< 4 ||| b) >>> 4 = a ∧ (a <<< 4 ||| b) &&& 15 = b := by
  have := nibbles_join_nat a.toNat (by simpa [UInt8.lt_iff_toNat_lt] using ha) b.toNat
    (by simpa [UInt8.lt_iff_toNat_lt] using hb)
  simpa [UInt8.ofNat_toNat] using this

/-- Re-encoding what `hex.DecodeString` accepted yields the input with `A-F` lowered. -/
theorem hexEncodeBytes_of_decode (s : Bytes) : ∀ b, hexDecodeBytes s = .ok b →
    hexEncodeBytes b = s.map lowerHexByte ∧ ∀ c ∈ s, c < 128 := by
  induction s using hexDecodeBytes.induct with
  | case1 => intro b h; simp [hexDecodeBytes] at h; subst h; simp [hexEncodeBytes]
  | case2 p hp => intro b h; simp [hexDecodeBytes, hp] at h
  | case3 p a hp => intro b h; simp [hexDecodeBytes, hp] at h
  | case4 p q rest hp => intro b h; simp [hexDecodeBytes, hp] at h
  | case5 p q rest a hp hq => intro b h; simp [hexDecodeBytes, hp, hq] at h
  | case6 p q rest a hp b' hq out hrest ih =>
    intro b h
    simp [hexDecodeBytes, hp, hq, hrest] at h
    subst h
    obtain ⟨ha, hda, hpa⟩ := hexVal_spec p a hp
    obtain ⟨hb, hdb, hqa⟩ := hexVal_spec q b' hq
    obtain ⟨j1, j2⟩ := nibbles_join a b' ha hb
    obtain ⟨ih1, ih2⟩ := ih out hrest
    constructor
    · simp [hexEncodeBytes, j1, j2, hda, hdb, ih1]
    · intro c hc
      simp only [List.mem_cons] at hc
      rcases hc with rfl | rfl | hc
      · exact hpa
      · exact hqa
      · exact ih2 c hc
  | case7 p q rest a hp b' hq e hrest ih => intro b h; simp [hexDecodeBytes, hp, hq, hrest] at h

theorem map_lowerHexByte_ascii (s : Bytes) (h : ∀ c ∈ s, c < 128) : ∀ c ∈ s.map lowerHexByte, c < 128 := by
  intro c hc
  simp only [List.mem_map] at hc
  obtain ⟨x, hx, rfl⟩ := hc
  have := h x hx
  unfold lowerHexByte
  split
  · rename_i h2
    rw [UInt8.lt_iff_toNat_lt] at *
    rw [UInt8.le_iff_toNat_le, UInt8.le_iff_toNat_le] at h2
    simp only [UInt8.toNat_add, UInt8.reduceToNat] at *
    omega
  · exact this

/-- `hex.EncodeToString` of what `hex.DecodeString s` returned is `s` with `A-F` in lower case. -/
theorem hexEncode_of_hexDecode (s : String) (b : Bytes) (h : hexDecode s = .ok b) : hexEncode b = lowerHex s := by
  unfold hexDecode at h
  unfold hexEncode lowerHex
  rw [(hexEncodeBytes_of_decode _ b h).1]

set_option maxRecDepth 100000 in
theorem isLowerHexByte_spec : ∀ c : UInt8, isLowerHexByte c = true →
    lowerHexByte c = c ∧ c < 128 ∧ (hexVal? c).isSome = true := by
  apply forall_uint8
  decide

theorem hexDecodeBytes_of_lower (s : Bytes) (hlen : s.length % 2 = 0) (hall : ∀ c ∈ s, isLowerHexByte c = true) :
    ∃ b, hexDecodeBytes s = .ok b := by
  induction s using hexDecodeBytes.induct with
  | case1 => exact ⟨[], rfl⟩
  | case2 p hp => simp at hlen
  | case3 p a hp => simp at hlen
  | case4 p q rest hp =>
    obtain ⟨_, _, ha⟩ := isLowerHexByte_spec p (hall p (by simp)); simp [hp] at ha
  | case5 p q rest a hp hq =>
    obtain ⟨_, _, ha⟩ := isLowerHexByte_spec q (hall q (by simp)); simp [hq] at ha
  | case6 p q rest a hp b' hq out hrest ih =>
    exact ⟨(a <<< 4 ||| b') :: out, by simp [hexDecodeBytes, hp, hq, hrest]⟩
  | case7 p q rest a hp b' hq e hrest ih =>
    have : ∃ b, hexDecodeBytes rest = .ok b := ih (by simp at hlen; omega) (fun c hc => hall c (by simp [hc]))
    obtain ⟨b, hb⟩ := this
    simp [hrest] at hb

theorem isLowerHex_iff (s : String) : isLowerHex s = true ↔
    (strBytes s).length % 2 = 0 ∧ ∀ c ∈ strBytes s, isLowerHexByte c = true := by
  simp [isLowerHex, List.all_eq_true]

/-- A lower-case hex string decodes, and re-encoding gives the string back exactly. -/
theorem hex_roundtrip_of_isLowerHex (s : String) (h : isLowerHex s = true) :
    ∃ b, hexDecode s = .ok b ∧ hexEncode b = s := by
  obtain ⟨hlen, hall⟩ := (isLowerHex_iff s).1 h
  obtain ⟨b, hb⟩ := hexDecodeBytes_of_lower _ hlen hall
  refine ⟨b, hb, ?_⟩
  rw [hexEncode_of_hexDecode s b hb]
  unfold lowerHex
  have : (strBytes s).map lowerHexByte = strBytes s := by
    have : (strBytes s).map lowerHexByte = (strBytes s).map id :=
      List.map_congr_left (fun c hc => (isLowerHexByte_spec c (hall c hc)).1)
    simpa using this
  rw [this]
  exact asciiStr_strBytes s (fun c hc => (isLowerHexByte_spec c (hall c hc)).2.1)

/-! ## encoding/base64 -/

theorem b64_char_spec : ∀ n, n < 64 →
    b64Val? (b64Char n) = some n ∧ b64Char n < 128 := by
  decide

theorem b64Go_val (pd : Bool) (n si : Nat) (c : UInt8) (v : Nat) (rest : Bytes) (sx : List Nat)
    (hv : b64Val? c = some v) (hlen : sx.length ≠ 3) :
    b64Go pd n (c :: rest) si (.q sx) = b64Go pd n rest (si + 1) (.q (sx ++ [v])) := by
  rw [b64Go]; simp only [hv, hlen, if_false]

theorem b64Go_val3 (pd : Bool) (n si : Nat) (c : UInt8) (v : Nat) (rest : Bytes) (sx : List Nat)
    (hv : b64Val? c = some v) (hlen : sx.length = 3) :
    b64Go pd n (c :: rest) si (.q sx) =
      match b64Go pd n rest (si + 1) (.q []) with
      | .ok out => .ok (b64Emit (sx ++ [v]) ++ out)
      | .error e => .error e := by
  rw [b64Go]; simp only [hv, hlen, if_true]; rfl

/-- One full quantum: three bytes encoded as four characters decode to the same three bytes. -/
theorem b64Go_quantum (pd : Bool) (n si : Nat) (a b c : UInt8) (t : Bytes) :
    b64Go pd n (b64Char (a.toNat / 4) :: b64Char (a.toNat % 4 * 16 + b.toNat / 16) ::
      b64Char (b.toNat % 16 * 4 + c.toNat / 64) :: b64Char (c.toNat % 64) :: t) si (.q []) =
    match b64Go pd n t (si + 4) (.q []) with
    | .ok out => .ok (a :: b :: c :: out)
    | .error e => .error e := by
  have ha := a.toNat_lt
  have hb := b.toNat_lt
  have hc := c.toNat_lt
  have h0 := (b64_char_spec (a.toNat / 4) (by omega)).1
  have h1 := (b64_char_spec (a.toNat % 4 * 16 + b.toNat / 16) (by omega)).1
  have h2 := (b64_char_spec (b.toNat % 16 * 4 + c.toNat / 64) (by omega)).1
  have h3 := (b64_char_spec (c.toNat % 64) (by omega)).1
  rw [b64Go_val _ _ _ _ _ _ _ h0 (by simp), b64Go_val _ _ _ _ _ _ _ h1 (by simp),
    b64Go_val _ _ _ _ _ _ _ h2 (by simp), b64Go_val3 _ _ _ _ _ _ _ h3 (by simp)]
  have e0 : UInt8.ofNat (a.toNat / 4 * 4 + (a.toNat % 4 * 16 + b.toNat / 16) / 16) = a := by
    have : a.toNat / 4 * 4 + (a.toNat % 4 * 16 + b.toNat / 16) / 16 = a.toNat := by omega
    rw [this, UInt8.ofNat_toNat]
  have e1 : UInt8.ofNat ((a.toNat % 4 * 16 + b.toNat / 16) % 16 * 16 + (b.toNat % 16 * 4 + c.toNat / 64) / 4) = b := by
    have : (a.toNat % 4 * 16 + b.toNat / 16) % 16 * 16 + (b.toNat % 16 * 4 + c.toNat / 64) / 4 = b.toNat := by omega
    rw [this, UInt8.ofNat_toNat]
  have e2 : UInt8.ofNat ((b.toNat % 16 * 4 + c.toNat / 64) % 4 * 64 + c.toNat % 64) = c := by
    have : (b.toNat % 16 * 4 + c.toNat / 64) % 4 * 64 + c.toNat % 64 = c.toNat := by omega
    rw [this, UInt8.ofNat_toNat]
  simp only [List.nil_append, List.cons_append, b64Emit, e0, e1, e2]


theorem b64Go_nil (pd : Bool) (n si : Nat) : b64Go pd n [] si (.q []) = .ok [] := by
  rw [b64Go]; rfl

theorem b64Val_pad : b64Val? 61 = none := by decide

/-- Decoding (with padding flag `pd`) what `EncodeToString` (with padding flag `pe`) produced: the same
    flag always gives the bytes back; `URLEncoding.DecodeString` on `RawURLEncoding` output gives them back
    when no padding was needed and an error otherwise. -/
theorem b64Go_encode (pe pd : Bool) (n : Nat) (bs : Bytes) : ∀ si,
    (pd = pe → b64Go pd n (b64Encode pe bs) si (.q []) = .ok bs) ∧
    (b64Go pd n (b64Encode pe bs) si (.q []) = .ok bs ∨ ∃ e, b64Go pd n (b64Encode pe bs) si (.q []) = .error e) := by
  induction bs using b64Encode.induct with
  | case1 => intro si; simp [b64Encode, b64Go_nil]
  | case2 a =>
    intro si
    have ha := a.toNat_lt
    have h0 := (b64_char_spec (a.toNat / 4) (by omega)).1
    have h1 := (b64_char_spec (a.toNat % 4 * 16) (by omega)).1
    have e0 : UInt8.ofNat (a.toNat / 4 * 4 + a.toNat % 4 * 16 / 16) = a := by
      have : a.toNat / 4 * 4 + a.toNat % 4 * 16 / 16 = a.toNat := by omega
      rw [this, UInt8.ofNat_toNat]
    have hE : b64Emit [a.toNat / 4, a.toNat % 4 * 16] = [a] := by simp only [b64Emit, e0]
    cases pe <;> cases pd <;> simp [b64Encode, b64Go, h0, h1, b64Val_pad, hE]
  | case3 a b =>
    intro si
    have ha := a.toNat_lt
    have hb := b.toNat_lt
    have h0 := (b64_char_spec (a.toNat / 4) (by omega)).1
    have h1 := (b64_char_spec (a.toNat % 4 * 16 + b.toNat / 16) (by omega)).1
    have h2 := (b64_char_spec (b.toNat % 16 * 4) (by omega)).1
    have e0 : UInt8.ofNat (a.toNat / 4 * 4 + (a.toNat % 4 * 16 + b.toNat / 16) / 16) = a := by
      have : a.toNat / 4 * 4 + (a.toNat % 4 * 16 + b.toNat / 16) / 16 = a.toNat := by omega
      rw [this, UInt8.ofNat_toNat]
    have e1 : UInt8.ofNat ((a.toNat % 4 * 16 + b.toNat / 16) % 16 * 16 + b.toNat % 16 * 4 / 4) = b := by
      have : (a.toNat % 4 * 16 + b.toNat / 16) % 16 * 16 + b.toNat % 16 * 4 / 4 = b.toNat := by omega
      rw [this, UInt8.ofNat_toNat]
    have hE : b64Emit [a.toNat / 4, a.toNat % 4 * 16 + b.toNat / 16, b.toNat % 16 * 4] = [a, b] := by
      simp only [b64Emit, e0, e1]
    cases pe <;> cases pd <;> simp [b64Encode, b64Go, h0, h1, h2, b64Val_pad, hE]
  | case4 a b c rest ih =>
    intro si
    simp only [b64Encode]
    rw [b64Go_quantum]
    obtain ⟨ih1, ih2⟩ := ih (si + 4)
    constructor
    · intro h; rw [ih1 h]
    · rcases ih2 with h | ⟨e, h⟩
      · left; rw [h]
      · right; exact ⟨e, by rw [h]⟩


/-- `enc.DecodeString (enc.EncodeToString bs) = bs` for `URLEncoding` and for `RawURLEncoding`. -/
theorem b64Decode_encode (p : Bool) (bs : Bytes) : b64Decode p (b64Encode p bs) = .ok bs :=
  ((b64Go_encode p p _ bs) 0).1 rfl

/-- The two attempts of `DecodeTokenV3/V4` recover the bytes from either encoding. -/
theorem b64Stage_encode (pe : Bool) (bs : Bytes) : b64Stage (b64Encode pe bs) = .ok bs := by
  unfold b64Stage
  cases pe with
  | true => rw [b64Decode_encode]
  | false =>
    rcases ((b64Go_encode false true (b64Encode false bs).length bs) 0).2 with h | ⟨e, h⟩
    · unfold b64Decode; rw [h]
    · unfold b64Decode at *; rw [h]; exact b64Decode_encode false bs

theorem b64Encode_ascii (p : Bool) (bs : Bytes) : ∀ c ∈ b64Encode p bs, c < 128 := by
  induction bs using b64Encode.induct with
  | case1 => intro c hc; simp [b64Encode] at hc
  | case2 a =>
    intro c hc
    have ha := a.toNat_lt
    have h0 := (b64_char_spec (a.toNat / 4) (by omega)).2
    have h1 := (b64_char_spec (a.toNat % 4 * 16) (by omega)).2
    cases p <;> simp [b64Encode] at hc <;> rcases hc with rfl | rfl | rfl <;> first | assumption | decide
  | case3 a b =>
    intro c hc
    have ha := a.toNat_lt
    have hb := b.toNat_lt
    have h0 := (b64_char_spec (a.toNat / 4) (by omega)).2
    have h1 := (b64_char_spec (a.toNat % 4 * 16 + b.toNat / 16) (by omega)).2
    have h2 := (b64_char_spec (b.toNat % 16 * 4) (by omega)).2
    cases p <;> simp [b64Encode] at hc <;> rcases hc with rfl | rfl | rfl | rfl <;> first | assumption | decide
  | case4 a b c rest ih =>
    intro x hx
    have ha := a.toNat_lt
    have hb := b.toNat_lt
    have hc := c.toNat_lt
    have h0 := (b64_char_spec (a.toNat / 4) (by omega)).2
    have h1 := (b64_char_spec (a.toNat % 4 * 16 + b.toNat / 16) (by omega)).2
    have h2 := (b64_char_spec (b.toNat % 16 * 4 + c.toNat / 64) (by omega)).2
    have h3 := (b64_char_spec (c.toNat % 64) (by omega)).2
    simp only [b64Encode, List.mem_cons] at hx
    rcases hx with rfl | rfl | rfl | rfl | hx
    · exact h0
    · exact h1
    · exact h2
    · exact h3
    · exact ih x hx

end Gonuts.Model.Token
