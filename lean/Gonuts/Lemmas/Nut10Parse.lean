import Gonuts.Model.Nut10Parse
/-!
  Lemmas.Nut10Parse — whitespace around a secret's JSON text never changes how it is read (so whoever builds a locked
  output cannot switch the lock off by the way the text is spelled): plain inductions over the character list through
  the lexer state machine of `Model.GoJson`.  Core Lean only.
-/
namespace Gonuts.Model.GoJson

theorem isWs_cases {c : Char} (h : isWs c = true) : c = ' ' ∨ c = '\t' ∨ c = '\r' ∨ c = '\n' := by
  simp only [isWs, Bool.or_eq_true, beq_iff_eq] at h
  rcases h with ((h | h) | h) | h <;> simp [h]

theorem startTok_ws {c : Char} (h : isWs c = true) : startTok c = some (.between, []) := by
  simp [startTok, h]

theorem numNext_ws {c : Char} (h : isWs c = true) (ns : NumSt) : numNext ns c = none := by
  rcases isWs_cases h with rfl | rfl | rfl | rfl <;> cases ns <;> decide

/-! ### one step of the lexer -/

theorem lex_between (c : Char) (cs : List Char) (acc : List Tok) :
    lex .between (c :: cs) acc = (match startTok c with
      | some (st, ts) => lex st cs (ts ++ acc)
      | none => none) := rfl

theorem lex_inStr (a : List Char) (esc : Bool) (c : Char) (cs : List Char) (acc : List Tok) :
    lex (.inStr a esc) (c :: cs) acc =
      (if esc then lex (.inStr (c :: a) false) cs acc
       else if c == '"' then lex .between cs (Tok.str a.reverse :: acc)
       else if c == '\\' then lex (.inStr (c :: a) true) cs acc
       else if c.toNat < 0x20 then none
       else lex (.inStr (c :: a) false) cs acc) := rfl

theorem lex_inNum (ns : NumSt) (c : Char) (cs : List Char) (acc : List Tok) :
    lex (.inNum ns) (c :: cs) acc = (match numNext ns c with
      | some ns' => lex (.inNum ns') cs acc
      | none =>
        if ns.accepting then
          match startTok c with
          | some (st, ts) => lex st cs (ts ++ Tok.num :: acc)
          | none => none
        else none) := rfl

theorem lex_inLit0 (t : Tok) (c : Char) (cs : List Char) (acc : List Tok) : lex (.inLit [] t) (c :: cs) acc = none := rfl
theorem lex_inLit1 (r : Char) (t : Tok) (c : Char) (cs : List Char) (acc : List Tok) :
    lex (.inLit [r] t) (c :: cs) acc = (if c == r then lex .between cs (t :: acc) else none) := rfl
theorem lex_inLit2 (r r2 : Char) (rest : List Char) (t : Tok) (c : Char) (cs : List Char) (acc : List Tok) :
    lex (.inLit (r :: r2 :: rest) t) (c :: cs) acc = (if c == r then lex (.inLit (r2 :: rest) t) cs acc else none) := rfl

theorem lex_between_nil (acc : List Tok) : lex .between [] acc = some acc.reverse := rfl
theorem lex_inStr_nil (a : List Char) (esc : Bool) (acc : List Tok) : lex (.inStr a esc) [] acc = none := rfl
theorem lex_inLit_nil (r : List Char) (t : Tok) (acc : List Tok) : lex (.inLit r t) [] acc = none := rfl
theorem lex_inNum_nil (ns : NumSt) (acc : List Tok) :
    lex (.inNum ns) [] acc = (if ns.accepting then some (Tok.num :: acc).reverse else none) := rfl

/-! ### leading whitespace -/

theorem lex_leading_ws (w cs : List Char) (acc : List Tok) (hw : ∀ c ∈ w, isWs c = true) :
    lex .between (w ++ cs) acc = lex .between cs acc := by
  induction w with
  | nil => rfl
  | cons c w ih =>
    have hc := startTok_ws (hw c (by simp))
    rw [List.cons_append, lex_between, hc]
    simpa using ih (fun c h => hw c (by simp [h]))

/-! ### trailing whitespace -/

/-- lexer states reachable from `.between`: the rest of a literal never contains whitespace -/
def LexSt.wsFree : LexSt → Bool
  | .inLit rest _ => rest.all (fun c => !isWs c)
  | _ => true

theorem ite_all {α} (p : α → Bool) (c : Prop) [Decidable c] (a b : Option α) (ha : a.all p = true) (hb : b.all p = true) :
    (if c then a else b).all p = true := by split <;> assumption

theorem startTok_all (c : Char) : (startTok c).all (fun r => r.1.wsFree) = true := by
  unfold startTok
  repeat' (first | rfl | apply ite_all)

theorem startTok_wsFree (c : Char) : ∀ r, startTok c = some r → r.1.wsFree = true := by
  intro r h
  have := startTok_all c
  rw [h] at this
  simpa using this

/-- at the end of the input, whitespace changes nothing -/
theorem lex_only_ws (w : List Char) (hw : ∀ c ∈ w, isWs c = true) :
    ∀ (st : LexSt) (acc : List Tok), st.wsFree = true → lex st w acc = lex st [] acc := by
  induction w with
  | nil => intros; rfl
  | cons c w ih =>
    have hc : isWs c = true := hw c (by simp)
    have ih' := ih (fun c h => hw c (by simp [h]))
    intro st acc hst
    cases st with
    | between =>
      rw [lex_between, startTok_ws hc]; exact ih' .between _ rfl
    | inStr a esc =>
      rw [lex_inStr, lex_inStr_nil]
      cases esc with
      | true => simpa [lex_inStr_nil] using ih' (.inStr (c :: a) false) acc rfl
      | false =>
        rcases isWs_cases hc with rfl | rfl | rfl | rfl
        · simpa [lex_inStr_nil] using ih' (.inStr (' ' :: a) false) acc rfl
        all_goals rfl
    | inNum ns =>
      rw [lex_inNum, numNext_ws hc, lex_inNum_nil]
      cases ha : ns.accepting with
      | true => simpa [startTok_ws hc, lex_between_nil] using ih' .between (Tok.num :: acc) rfl
      | false => rfl
    | inLit rest t =>
      rw [lex_inLit_nil]
      cases rest with
      | nil => rfl
      | cons r rest =>
        have hr : isWs r = false := by
          have := hst; simp [LexSt.wsFree] at this; exact this.1
        have hne : (c == r) = false := by
          cases h : c == r
          · rfl
          · have : c = r := by simpa using h
            subst this; simp [hc] at hr
        cases rest with
        | nil => simp [lex_inLit1, hne]
        | cons r2 rest => simp [lex_inLit2, hne]

theorem lex_trailing_ws (w : List Char) (hw : ∀ c ∈ w, isWs c = true) (cs : List Char) :
    ∀ (st : LexSt) (acc : List Tok), st.wsFree = true → lex st (cs ++ w) acc = lex st cs acc := by
  induction cs with
  | nil => intro st acc h; simpa using lex_only_ws w hw st acc h
  | cons c cs ih =>
    intro st acc hst
    cases st with
    | between =>
      rw [List.cons_append, lex_between, lex_between]
      cases h : startTok c with
      | none => rfl
      | some r => exact ih r.1 _ (startTok_wsFree c r h)
    | inStr a esc =>
      rw [List.cons_append, lex_inStr, lex_inStr]
      split
      · exact ih _ _ rfl
      · split
        · exact ih _ _ rfl
        · split
          · exact ih _ _ rfl
          · split
            · rfl
            · exact ih _ _ rfl
    | inNum ns =>
      rw [List.cons_append, lex_inNum, lex_inNum]
      cases numNext ns c with
      | some ns' => exact ih _ _ rfl
      | none =>
        simp only
        split
        · cases h : startTok c with
          | none => rfl
          | some r => exact ih r.1 _ (startTok_wsFree c r h)
        · rfl
    | inLit rest t =>
      cases rest with
      | nil => rfl
      | cons r rest =>
        cases rest with
        | nil =>
          rw [List.cons_append, lex_inLit1, lex_inLit1]
          split
          · exact ih _ _ rfl
          · rfl
        | cons r2 rest =>
          rw [List.cons_append, lex_inLit2, lex_inLit2]
          split
          · refine ih _ _ ?_
            have := hst; simp only [LexSt.wsFree, List.all_cons, Bool.and_eq_true] at this ⊢; exact this.2
          · rfl

theorem tokens_ws (w1 w2 cs : List Char) (h1 : ∀ c ∈ w1, isWs c = true) (h2 : ∀ c ∈ w2, isWs c = true) :
    tokens (w1 ++ cs ++ w2) = tokens cs := by
  unfold tokens
  rw [lex_trailing_ws w2 h2 _ _ _ rfl, lex_leading_ws w1 cs [] h1]

/-- whitespace before and after a JSON text is insignificant -/
theorem parse_ws (w1 w2 s : String) (h1 : ∀ c ∈ w1.toList, isWs c = true) (h2 : ∀ c ∈ w2.toList, isWs c = true) :
    parse (w1 ++ s ++ w2) = parse s := by
  unfold parse
  rw [String.toList_append, String.toList_append, tokens_ws _ _ _ h1 h2]

end Gonuts.Model.GoJson

namespace Gonuts.Model.Nut10Parse
open Gonuts.Model.GoJson Gonuts.Model.Spend

/-- `DeserializeSecret` reads a secret the same way whatever whitespace surrounds its text -/
theorem parseSecret_ws (w1 w2 s : String) (h1 : ∀ c ∈ w1.toList, isWs c = true) (h2 : ∀ c ∈ w2.toList, isWs c = true) :
    parseSecret (w1 ++ s ++ w2) = parseSecret s := by
  unfold parseSecret; rw [parse_ws _ _ _ h1 h2]

theorem lockKind_ws (w1 w2 s : String) (h1 : ∀ c ∈ w1.toList, isWs c = true) (h2 : ∀ c ∈ w2.toList, isWs c = true) :
    lockKind (w1 ++ s ++ w2) = lockKind s := by
  unfold lockKind; rw [parseSecret_ws _ _ _ h1 h2]

/-- the kind is decided by the first element alone: exactly the strings `P2PK` and `HTLC` select a lock -/
theorem decodeSecret_kind {v : JV} {p : Parsed} (h : decodeSecret v = some p) :
    ∃ k d rest ks, v = .arr (k :: d :: rest) ∧ intoString "" k = some ks ∧ p.kind = kindOf ks := by
  unfold decodeSecret at h
  split at h
  · rename_i k d rest
    split at h
    · rename_i ks sd hk hd
      cases h
      exact ⟨k, d, rest, ks, rfl, hk, rfl⟩
    · cases h
  · cases h

theorem kindOf_htlc (ks : String) : kindOf ks = .htlc ↔ ks = "HTLC" := by
  unfold kindOf
  by_cases h1 : ks = "P2PK"
  · subst h1; simp
  · by_cases h2 : ks = "HTLC" <;> simp [h1, h2]

theorem kindOf_p2pk (ks : String) : kindOf ks = .p2pk ↔ ks = "P2PK" := by
  unfold kindOf
  by_cases h1 : ks = "P2PK" <;> simp [h1]
  by_cases h2 : ks = "HTLC" <;> simp [h2]

end Gonuts.Model.Nut10Parse
