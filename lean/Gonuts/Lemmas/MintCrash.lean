import Gonuts.Lemmas.WriteShape
/-!
  Every state a KILLED or FAULTED `MintTokens` can leave behind (`mint_crash_states`) — for every request, every world,
  every interruption point, with or without an armed storage fault:

      nothing changed  |  only the STATE of one mint quote changed  |  that quote is ISSUED and the signatures are stored

  so signatures are never stored unless the quote they were issued for is ISSUED in the same tables (no second issuance
  after a restart: `Props.C03.issued_refuses`), and no other table is ever touched.  The stranding points of C07
  (`mint_atomic_full_false`: quote PENDING or ISSUED without signatures) are the middle case.
-/
namespace Gonuts.Model.Mint

/-- abstract states of the tables during `MintTokens`, relative to the tables at the start -/
inductive MSt where
  | init
  | st (id : Nat) (s : MQState)
  | done (id : Nat)

def mintStep : MSt → {β : Type} → Eff β → β → Option MSt
  | .init, _, .updateMintQuoteState id s, r => match r with | .ok _ => some (.st id s) | .error _ => some .init
  | .st id0 s0, _, .updateMintQuoteState id s, r =>
    if id = id0 then (match r with | .ok _ => some (.st id s) | .error _ => some (.st id0 s0)) else none
  | .st id0 s0, _, .saveSigs _, r =>
    if s0 = .issued then (match r with | .ok _ => some (.done id0) | .error _ => some (.st id0 s0)) else none
  | _, _, _, _ => none

def mintAuto : WAuto := ⟨MSt, fun e => e.readOnly, fun _ h => h, mintStep⟩

def mintRel (db0 : DB) : MSt → DB → Prop
  | .init, db => db = db0
  | .st id s, db => db = { db0 with mintQ := updMintQ db0.mintQ id s }
  | .done id, db => ∃ sigs t2, insertSigs db0.sigs sigs = some t2 ∧
      db = { db0 with mintQ := updMintQ db0.mintQ id .issued, sigs := t2 }

theorem exec_updMintQ_cases (w : World) (id : Nat) (s : MQState) :
    ((exec w (.updateMintQuoteState id s)).2 = .ok () ∧
        (exec w (.updateMintQuoteState id s)).1.db = { w.db with mintQ := updMintQ w.db.mintQ id s }) ∨
    ((∃ e, (exec w (.updateMintQuoteState id s)).2 = .error e) ∧ (exec w (.updateMintQuoteState id s)).1.db = w.db) := by
  unfold exec
  simp only [Eff.label]
  by_cases hf : (w.faultAt == some w.nDb) = true
  · right; simp [hf, Eff.faultValue]
  · simp only [hf, execDb]
    by_cases ha : (w.db.mintQ.any (·.id == id)) = true
    · left; simp [ha]
    · right; simp [ha]

theorem exec_saveSigs_cases' (w : World) (sigs : List BSig) :
    ((exec w (.saveSigs sigs)).2 = .ok () ∧
        ∃ t2, insertSigs w.db.sigs sigs = some t2 ∧ (exec w (.saveSigs sigs)).1.db = { w.db with sigs := t2 }) ∨
    ((∃ e, (exec w (.saveSigs sigs)).2 = .error e) ∧ (exec w (.saveSigs sigs)).1.db = w.db) := by
  unfold exec
  simp only [Eff.label]
  by_cases hf : (w.faultAt == some w.nDb) = true
  · right; simp [hf, Eff.faultValue]
  · simp only [hf, execDb]
    cases hi : insertSigs w.db.sigs sigs with
    | some t => left; exact ⟨rfl, t, rfl, rfl⟩
    | none => right; simp

theorem mint_sound (db0 : DB) : Sound mintAuto (mintRel db0) := by
  intro a a' β e w hst hr
  cases a with
  | init =>
    cases e <;> simp only [mintAuto, mintStep] at hst <;> try cases hst
    rename_i id s
    rcases exec_updMintQ_cases w id s with ⟨hok, hdb⟩ | ⟨⟨er, herr⟩, hdb⟩
    · rw [hok] at hst; cases hst
      simp only [mintRel] at hr ⊢; rw [hdb, hr]
    · rw [herr] at hst; cases hst
      simp only [mintRel] at hr ⊢; rw [hdb, hr]
  | st id0 s0 =>
    cases e <;> simp only [mintAuto, mintStep] at hst <;> try cases hst
    · rename_i id s
      by_cases hid : id = id0
      · subst hid
        simp only [if_true] at hst
        rcases exec_updMintQ_cases w id s with ⟨hok, hdb⟩ | ⟨⟨er, herr⟩, hdb⟩
        · rw [hok] at hst; cases hst
          simp only [mintRel] at hr ⊢; rw [hdb, hr]; simp [updMintQ_updMintQ]
        · rw [herr] at hst; cases hst
          simp only [mintRel] at hr ⊢; rw [hdb, hr]
      · simp [hid] at hst
    · rename_i sigs
      by_cases hs : s0 = .issued
      · subst hs
        simp only [if_true] at hst
        rcases exec_saveSigs_cases' w sigs with ⟨hok, t2, hins, hdb⟩ | ⟨⟨er, herr⟩, hdb⟩
        · rw [hok] at hst; cases hst
          simp only [mintRel] at hr ⊢
          refine ⟨sigs, t2, ?_, ?_⟩
          · rw [hr] at hins; exact hins
          · rw [hdb, hr]
        · rw [herr] at hst; cases hst
          simp only [mintRel] at hr ⊢; rw [hdb, hr]
      · simp [hs] at hst
  | done id => cases e <;> simp only [mintAuto, mintStep] at hst <;> cases hst

/-! ## the shape of `MintTokens` -/

theorem conf_eff_ro (M : WAuto) {β : Type} (e : Eff β) (h : M.isRead e = true) (a : M.A) :
    Conf M (fun r a' => a' = a ∧ ∃ v, r = Except.ok v) a (eff e : PM β).run :=
  Or.inl ⟨h, fun r => ⟨rfl, r, rfl⟩⟩

theorem conf_eff_write (M : WAuto) {β : Type} (e : Eff β) (a : M.A) (h : ∀ r, ∃ a', M.step a e r = some a') :
    Conf M (fun r a' => ∃ v, r = Except.ok v ∧ M.step a e v = some a') a (eff e : PM β).run :=
  Or.inr fun r => let ⟨a', h1⟩ := h r; ⟨a', h1, r, rfl, h1⟩

theorem conf_pure (M : WAuto) {α : Type} (Q : Except E α → M.A → Prop) (a : M.A) (v : α) (h : Q (.ok v) a) :
    Conf M Q a (pure v : PM α).run := h

theorem conf_throw (M : WAuto) {α : Type} (Q : Except E α → M.A → Prop) (a : M.A) (e : E) (h : Q (.error e) a) :
    Conf M Q a (throw e : PM α).run := h

/-- a PM program without writes: any result, same abstract state -/
theorem conf_noWrites (M : WAuto) (hM : ∀ {β : Type} (e : Eff β), e.readOnly = true → M.isRead e = true)
    {α : Type} (x : PM α) (h : NoWrites x.run) (a : M.A) :
    Conf M (fun _ a' => a' = a) a x.run := Conf.ofAllRead M _ (AllRead.ofNoWrites M hM _ h) a

/-- `dbTry` of a write: ok in the state the automaton moves to on ok, the generic db error in the state it moves to
    on an error -/
theorem conf_dbTry_write (M : WAuto) {β : Type} (e : Eff (DbRes β)) (a : M.A) (Q : Except E β → M.A → Prop)
    (h : ∀ r, ∃ a', M.step a e r = some a' ∧
      (match r with | .ok v => Q (.ok v) a' | .error _ => Q (.error (1, "db")) a')) :
    Conf M Q a (dbTry e).run := by
  unfold dbTry
  refine Conf.pmBind M (fun r a' => ∃ v, r = Except.ok v ∧ M.step a e v = some a') Q _ _ a
    (conf_eff_write M e a (fun r => let ⟨a', h1, _⟩ := h r; ⟨a', h1⟩)) ?_ ?_
  · intro v a' ⟨v', hv, hst⟩
    cases hv
    obtain ⟨a'', h1, h2⟩ := h v
    rw [h1] at hst; cases hst
    cases v with
    | ok x => exact h2
    | error er => exact h2
  · intro er a' ⟨v, hv, _⟩; cases hv

def QGet : Except E MintQ → MSt → Prop
  | .ok q, a => a = .init ∨ a = .st q.id .paid
  | .error _, a => a = .init

theorem conf_getMintQuoteState (qid : Int) : Conf mintAuto QGet .init (getMintQuoteState qid).run := by
  unfold getMintQuoteState
  refine Conf.pmBind mintAuto _ QGet _ _ .init (conf_eff_ro mintAuto _ rfl .init) ?_ ?_
  · intro v a' ⟨ha, _⟩; subst ha
    cases v with
    | error er => exact conf_throw mintAuto QGet .init _ rfl
    | ok q =>
      simp only
      split
      · refine Conf.pmBind mintAuto _ QGet _ _ .init (conf_eff_ro mintAuto _ rfl .init) ?_ ?_
        · intro v a' ⟨ha, _⟩; subst ha
          cases v with
          | none => exact conf_throw mintAuto QGet .init _ rfl
          | some settled =>
            simp only
            split
            · refine Conf.pmBind mintAuto (fun r a' => match r with | .ok _ => a' = MSt.st q.id .paid | .error _ => a' = MSt.init) QGet _ _ .init ?_ ?_ ?_
              · apply conf_dbTry_write
                intro r
                cases r with
                | ok u => exact ⟨.st q.id .paid, rfl, rfl⟩
                | error er => exact ⟨.init, rfl, rfl⟩
              · intro _ a' ha; simp only at ha; subst ha
                exact conf_pure mintAuto QGet _ _ (Or.inr rfl)
              · intro er a' ha; exact ha
            · exact conf_pure mintAuto QGet _ _ (Or.inl rfl)
        · intro er a' ⟨_, v, hv⟩; cases hv
      · exact conf_pure mintAuto QGet _ _ (Or.inl rfl)
  · intro er a' ⟨_, v, hv⟩; cases hv

def QInner (id : Nat) (a0 : MSt) : Except E (List BSig) → MSt → Prop
  | .ok _, a => a = .done id
  | .error _, a => a = a0 ∨ ∃ s, a = .st id s

theorem step_upd_from (id : Nat) (a0 : MSt) (h0 : a0 = .init ∨ ∃ s0, a0 = .st id s0) (s : MQState) (r : DbRes Unit) :
    ∃ a', mintAuto.step a0 (.updateMintQuoteState id s) r = some a' ∧
      (match r with | .ok _ => a' = .st id s | .error _ => a' = a0) := by
  rcases h0 with rfl | ⟨s0, rfl⟩
  · cases r with
    | ok u => exact ⟨_, rfl, rfl⟩
    | error er => exact ⟨_, rfl, rfl⟩
  · cases r with
    | ok u => exact ⟨.st id s, by simp [mintAuto, mintStep], rfl⟩
    | error er => exact ⟨.st id s0, by simp [mintAuto, mintStep], rfl⟩

theorem conf_mintInner (cx : Cx) (q : MintQ) (outs : List BMsg) (sig : QSig) (a0 : MSt)
    (h0 : a0 = .init ∨ ∃ s0, a0 = .st q.id s0) :
    Conf mintAuto (QInner q.id a0) a0 (mintInner cx q outs sig).run := by
  unfold mintInner
  -- UpdateMintQuoteState(PENDING)
  refine Conf.pmBind mintAuto (fun r a' => match r with | .ok _ => a' = MSt.st q.id .pending | .error _ => a' = a0) _ _ _ a0 ?_ ?_ ?_
  · apply conf_dbTry_write
    intro r
    obtain ⟨a', h1, h2⟩ := step_upd_from q.id a0 h0 .pending r
    exact ⟨a', h1, by cases r <;> exact h2⟩
  · intro _ a' ha; simp only at ha; subst ha
    have herr : ∀ (e : E) (a' : MSt), a' = MSt.st q.id .pending → QInner q.id a0 (.error e) a' :=
      fun e a' h => Or.inr ⟨.pending, h⟩
    split
    · exact conf_throw mintAuto _ _ _ (Or.inr ⟨.pending, rfl⟩)
    · refine Conf.pmBind mintAuto _ _ _ _ _ (conf_noWrites mintAuto (fun _ h => h) _ (noWrites_failIf _ _) _) ?_ herr
      intro _ a' ha; subst ha
      refine Conf.pmBind mintAuto _ _ _ _ _ (conf_noWrites mintAuto (fun _ h => h) _ (noWrites_failIf _ _) _) ?_ herr
      intro _ a' ha; subst ha
      refine Conf.pmBind mintAuto _ _ _ _ _ (conf_noWrites mintAuto (fun _ h => h) _ (noWrites_dbTry _ rfl) _) ?_ herr
      intro _ a' ha; subst ha
      refine Conf.pmBind mintAuto _ _ _ _ _ (conf_noWrites mintAuto (fun _ h => h) _ (noWrites_failIf _ _) _) ?_ herr
      intro _ a' ha; subst ha
      refine Conf.pmBind mintAuto _ _ _ _ _ (conf_noWrites mintAuto (fun _ h => h) _ (noWrites_failIf _ _) _) ?_ herr
      intro _ a' ha; subst ha
      refine Conf.pmBind mintAuto _ _ _ _ _ (conf_noWrites mintAuto (fun _ h => h) _ (noWrites_liftE _) _) ?_ herr
      intro sigs a' ha; subst ha
      -- UpdateMintQuoteState(ISSUED)
      refine Conf.pmBind mintAuto (fun r a' => match r with | .ok _ => a' = MSt.st q.id .issued | .error _ => a' = MSt.st q.id .pending) _ _ _ _ ?_ ?_ ?_
      · apply conf_dbTry_write
        intro r
        obtain ⟨a', h1, h2⟩ := step_upd_from q.id (.st q.id .pending) (Or.inr ⟨_, rfl⟩) .issued r
        exact ⟨a', h1, by cases r <;> exact h2⟩
      · intro _ a' ha; simp only at ha; subst ha
        -- SaveBlindSignatures
        refine Conf.pmBind mintAuto (fun r a' => match r with | .ok _ => a' = MSt.done q.id | .error _ => a' = MSt.st q.id .issued) _ _ _ _ ?_ ?_ ?_
        · apply conf_dbTry_write
          intro r
          cases r with
          | ok u => exact ⟨.done q.id, by simp [mintAuto, mintStep], rfl⟩
          | error er => exact ⟨.st q.id .issued, by simp [mintAuto, mintStep], rfl⟩
        · intro _ a' ha; simp only at ha; subst ha
          exact conf_pure mintAuto _ _ _ rfl
        · intro e a' ha; simp only at ha; exact Or.inr ⟨.issued, ha⟩
      · intro e a' ha; simp only at ha; exact Or.inr ⟨.pending, ha⟩
  · intro e a' ha; simp only at ha; exact Or.inl ha

theorem conf_mintTokens (cx : Cx) (qid : Int) (outs : List BMsg) (sig : QSig) :
    Conf mintAuto (fun _ _ => True) .init (mintTokens cx qid outs sig).run := by
  unfold mintTokens
  refine Conf.pmBind mintAuto QGet _ _ _ .init (conf_getMintQuoteState qid) ?_ (fun _ _ _ => trivial)
  intro q a0 hq
  have h0 : a0 = .init ∨ ∃ s0, a0 = .st q.id s0 := hq.imp id (fun h => ⟨_, h⟩)
  split
  · exact conf_throw mintAuto _ _ _ trivial
  · exact conf_throw mintAuto _ _ _ trivial
  · exact conf_throw mintAuto _ _ _ trivial
  · -- state PAID: the closure, then on an error the state is restored
    refine Conf.pmBind mintAuto (fun r a' => match r with
        | .ok (.ok _) => a' = MSt.done q.id
        | .ok (.error _) => a' = a0 ∨ ∃ s, a' = MSt.st q.id s
        | .error _ => False) _ _ _ a0 ?_ ?_ ?_
    · -- ExceptT.lift of the inner run: the inner result becomes a value
      show Conf mintAuto _ a0 ((mintInner cx q outs sig).run >>= fun r => pure (Except.ok r))
      apply Conf.bind mintAuto (QInner q.id a0) _ _ _ a0 (conf_mintInner cx q outs sig a0 h0)
      intro r a' hr
      cases r with
      | ok v => exact hr
      | error e => exact hr
    · intro r a' hr
      cases r with
      | ok sigs => exact conf_pure mintAuto _ _ _ trivial
      | error e =>
        simp only at hr
        have h1 : a' = .init ∨ ∃ s0, a' = .st q.id s0 := by
          rcases hr with rfl | h
          · exact h0
          · exact Or.inr h
        refine Conf.pmBind mintAuto (fun _ _ => True) _ _ _ a' ?_ ?_ (fun _ _ _ => trivial)
        · refine Or.inr fun r => ?_
          obtain ⟨a'', hst, _⟩ := step_upd_from q.id a' h1 .paid r
          exact ⟨a'', hst, trivial⟩
        · intro v a'' _
          cases v with
          | ok u => exact conf_throw mintAuto _ _ _ trivial
          | error er => exact conf_throw mintAuto _ _ _ trivial
    · intro e a' hf; exact hf.elim

/-- **Every state a killed or faulted `MintTokens` can leave behind** (any request, any world — armed fault or not —,
    any number `n` of calls before the kill; `n` large: the completed request). -/
theorem mint_crash_states (cx : Cx) (qid : Int) (outs : List BMsg) (sig : QSig) (n : Nat) (w : World) :
    let db' := ((mintTokens cx qid outs sig).run.runN n w).1.db
    db' = w.db ∨
    (∃ id s, db' = { w.db with mintQ := updMintQ w.db.mintQ id s }) ∨
    (∃ id sigs t2, insertSigs w.db.sigs sigs = some t2 ∧
      db' = { w.db with mintQ := updMintQ w.db.mintQ id .issued, sigs := t2 }) := by
  obtain ⟨a', hr⟩ := conf_runN mintAuto (mintRel w.db) (mint_sound w.db) _ _ n w .init
    (conf_mintTokens cx qid outs sig) rfl
  cases a' with
  | init => exact Or.inl hr
  | st id s => exact Or.inr (Or.inl ⟨id, s, hr⟩)
  | done id => obtain ⟨sigs, t2, h1, h2⟩ := hr; exact Or.inr (Or.inr ⟨id, sigs, t2, h1, h2⟩)

end Gonuts.Model.Mint
