import Mathlib.Algebra.Module.Basic
import Mathlib.Algebra.Field.ZMod
import Mathlib.Tactic.Abel
import Mathlib.Tactic.Module

/-!
# `Gonuts.Algebra` — BDHKE and DLEQ over an abstract prime-order group   (DESIGN.md §4.2)

The group of curve points is an arbitrary additive commutative group `G` that is a module over `ZMod n`
(scalars = `secp256k1.ModNScalar`, `•` = `ScalarMultNonConst`, `+` = `AddNonConst`, `0` = the point at infinity).
The definitions are one-liners mirroring `/repo/crypto/bdhke.go` and `/repo/cashu/nuts/nut12/nut12.go`; they need no
primality. Lemmas that use that `ZMod n` is a FIELD carry `[Fact n.Prime]`.

* `hashE : G × G × G × G → ZMod n` is an ARBITRARY function (`crypto.HashE` on `[R1, R2, A, C']` followed by
  `PrivKeyFromBytes`, i.e. reduction mod n). No property of it is assumed anywhere; collision statements are conclusions.
* `Y` stands for `HashToCurve(secret)`; the map `secret ↦ Y` only matters in Props/C04.
-/

namespace Gonuts.Algebra

section Defs
variable {n : ℕ} {G : Type*} [AddCommGroup G] [Module (ZMod n) G]

/-- `crypto.BlindMessage`: `B_ = Y + rG`. -/
def blind (g Y : G) (r : ZMod n) : G := Y + r • g

/-- `crypto.SignBlindedMessage`: `C_ = kB_`. -/
def sign (B' : G) (k : ZMod n) : G := k • B'

/-- `crypto.UnblindSignature`: `C = C_ + (−r)K` (the Go negates the scalar `r`, multiplies, then adds). -/
def unblind (C' : G) (r : ZMod n) (K : G) : G := C' + (-r) • K

/-- `crypto.Verify` / `crypto.verify`: `kY == C`. -/
def verify (k : ZMod n) (Y C : G) : Prop := k • Y = C

instance [DecidableEq G] (k : ZMod n) (Y C : G) : Decidable (verify k Y C) := by
  unfold verify; infer_instance

/-- The four points `VerifyDLEQ` feeds to `HashE`: `R1 = sG + (−e)A`, `R2 = sB' + (−e)C'`, `A`, `C'`. -/
def dleqInput (g : G) (e s : ZMod n) (A B' C' : G) : G × G × G × G :=
  (s • g + (-e) • A, s • B' + (-e) • C', A, C')

/-- `crypto.GenerateDLEQ` with the random nonce made explicit: `R1 = rG`, `R2 = rB'`, `e = hash(R1,R2,aG,C')`,
`s = r + e·a`; returns `(e, s)`. -/
def dleqGen (g : G) (hashE : G × G × G × G → ZMod n) (nonce a : ZMod n) (B' C' : G) : ZMod n × ZMod n :=
  let e := hashE (nonce • g, nonce • B', a • g, C')
  (e, nonce + e * a)

/-- `crypto.VerifyDLEQ`: accept iff `e == hash(R1, R2, A, C')`. -/
def dleqVerify (g : G) (hashE : G × G × G × G → ZMod n) (e s : ZMod n) (A B' C' : G) : Prop :=
  e = hashE (dleqInput g e s A B' C')

instance (g : G) (hashE : G × G × G × G → ZMod n) (e s : ZMod n) (A B' C' : G) :
    Decidable (dleqVerify g hashE e s A B' C') := by
  unfold dleqVerify; infer_instance

/-- `nut12.VerifyProofDLEQ`: a third party holding `(secret ↦ Y, C, r)` re-blinds, `B' = Y + rG`, `C' = C + rA`,
and runs `VerifyDLEQ`. -/
def proofDleqVerify (g : G) (hashE : G × G × G × G → ZMod n) (e s r : ZMod n) (A Y C : G) : Prop :=
  dleqVerify g hashE e s A (blind g Y r) (C + r • A)

instance (g : G) (hashE : G × G × G × G → ZMod n) (e s r : ZMod n) (A Y C : G) :
    Decidable (proofDleqVerify g hashE e s r A Y C) := by
  unfold proofDleqVerify; infer_instance

/-- What `nut12.VerifyProofsDLEQ` reads of a `cashu.Proof`: the amount (to look up the key), `Y = HashToCurve(secret)`,
the parsed `C`, and the optional DLEQ `(e, s, r)` whose `r` may itself be absent (`R == ""`). -/
structure DProof (Amount : Type*) (G : Type*) (n : ℕ) where
  amount : Amount
  Y : G
  C : G
  dleq : Option (ZMod n × ZMod n × Option (ZMod n))

/-- One iteration of the loop of `nut12.VerifyProofsDLEQ`: no DLEQ ⇒ `continue`; amount not in the keyset ⇒ `false`;
`r == nil` ⇒ `false` (inside `VerifyProofDLEQ`); otherwise `VerifyProofDLEQ`. -/
def proofDleqOk {Amount : Type*} (g : G) (hashE : G × G × G × G → ZMod n) (pub : Amount → Option G)
    (p : DProof Amount G n) : Prop :=
  match p.dleq with
  | none => True
  | some (e, s, r?) =>
    match pub p.amount with
    | none => False
    | some A =>
      match r? with
      | none => False
      | some r => proofDleqVerify g hashE e s r A p.Y p.C

/-- `nut12.VerifyProofsDLEQ`: `false` at the first failing proof, `true` at the end. -/
def proofsDleqVerify {Amount : Type*} (g : G) (hashE : G × G × G × G → ZMod n) (pub : Amount → Option G) :
    List (DProof Amount G n) → Prop
  | [] => True
  | p :: ps => proofDleqOk g hashE pub p ∧ proofsDleqVerify g hashE pub ps

/-- `(e, s)` opens the commitment `(R1, R2)` for the statement `(A, B', C')`: the two equations `VerifyDLEQ`
recomputes, without the hash. -/
def dleqOpens (g : G) (R1 R2 : G) (e s : ZMod n) (A B' C' : G) : Prop :=
  s • g + (-e) • A = R1 ∧ s • B' + (-e) • C' = R2

instance [DecidableEq G] (g R1 R2 : G) (e s : ZMod n) (A B' C' : G) :
    Decidable (dleqOpens g R1 R2 e s A B' C') := by
  unfold dleqOpens; infer_instance

/-- Two DISTINCT hash inputs with the same hash value. -/
def Collides (hashE : G × G × G × G → ZMod n) (x x' : G × G × G × G) : Prop :=
  x ≠ x' ∧ hashE x = hashE x'

end Defs

/-! ## Linear-algebra facts (no primality) -/
section Linear
variable {n : ℕ} {G : Type*} [AddCommGroup G] [Module (ZMod n) G]

theorem unblind_sign_blind_eq (g Y : G) (r k : ZMod n) :
    unblind (sign (blind g Y r) k) r (k • g) = k • Y := by
  simp only [unblind, sign, blind]; module

/-- The verifier's `R1, R2` recomputed from an honest `s = nonce + e·a` are the prover's commitments. -/
theorem dleqInput_honest (g : G) (e nonce a : ZMod n) (B' : G) :
    dleqInput g e (nonce + e * a) (a • g) B' (a • B') = (nonce • g, nonce • B', a • g, a • B') := by
  simp only [dleqInput, Prod.mk.injEq, and_true]
  constructor <;> module

theorem reblind_eq (g Y : G) (r a : ZMod n) :
    unblind (sign (blind g Y r) a) r (a • g) + r • (a • g) = sign (blind g Y r) a := by
  simp only [unblind, sign, blind]; module

theorem dleqVerify_iff_opens (g : G) (hashE : G × G × G × G → ZMod n) (e s : ZMod n) (A B' C' : G) :
    dleqVerify g hashE e s A B' C' ↔ ∃ R1 R2, dleqOpens g R1 R2 e s A B' C' ∧ e = hashE (R1, R2, A, C') := by
  constructor
  · intro h; exact ⟨_, _, ⟨rfl, rfl⟩, h⟩
  · rintro ⟨R1, R2, ⟨h1, h2⟩, h⟩; subst h1 h2; exact h

end Linear

/-! ## Facts that need the scalars to be a field (`n` prime) -/
section Field
variable {n : ℕ} {G : Type*} [AddCommGroup G] [Module (ZMod n) G] [Fact n.Prime]

/-- In a module over the field `ZMod n`, a nonzero point has trivial annihilator: `k•Y = k'•Y → k = k'`. -/
theorem smul_left_cancel_of_ne_zero {Y : G} (hY : Y ≠ 0) {k k' : ZMod n} (h : k • Y = k' • Y) : k = k' := by
  have h0 : (k - k') • Y = 0 := by rw [sub_smul, h, sub_self]
  rcases smul_eq_zero.mp h0 with h1 | h1
  · exact sub_eq_zero.mp h1
  · exact absurd h1 hY

/-- A nonzero scalar acts injectively: `k•Y = k•Y' → Y = Y'`. -/
theorem smul_right_cancel_of_ne_zero {k : ZMod n} (hk : k ≠ 0) {Y Y' : G} (h : k • Y = k • Y') : Y = Y' := by
  have h0 : k • (Y - Y') = 0 := by rw [smul_sub, h, sub_self]
  rcases smul_eq_zero.mp h0 with h1 | h1
  · exact absurd h1 hk
  · exact sub_eq_zero.mp h1

theorem smul_ne_of_ne {g : G} (hg : g ≠ 0) {s s' : ZMod n} (h : s ≠ s') : s • g ≠ s' • g :=
  fun he => h (smul_left_cancel_of_ne_zero hg he)

/-- Witness extraction: two openings of ONE commitment with different challenges determine a scalar `w` with
`A = w•g` and `C' = w•B'` — the two discrete logs exist and are equal. No assumption on `g`, `A`, `B'`, `C'`. -/
theorem opens_extract {g : G} {e e' s s' : ZMod n} {R1 R2 A B' C' : G}
    (h : dleqOpens g R1 R2 e s A B' C') (h' : dleqOpens g R1 R2 e' s' A B' C') (hne : e ≠ e') :
    A = ((s - s') * (e - e')⁻¹) • g ∧ C' = ((s - s') * (e - e')⁻¹) • B' := by
  obtain ⟨h1, h2⟩ := h
  obtain ⟨h1', h2'⟩ := h'
  have hd : e - e' ≠ 0 := sub_ne_zero.mpr hne
  have k1 : (s - s') • g = (e - e') • A := by
    have : s • g + (-e) • A - (s' • g + (-e') • A) = 0 := sub_eq_zero.mpr (h1.trans h1'.symm)
    have h0 : (s - s') • g - (e - e') • A = 0 := by rw [← this]; module
    exact sub_eq_zero.mp h0
  have k2 : (s - s') • B' = (e - e') • C' := by
    have : s • B' + (-e) • C' - (s' • B' + (-e') • C') = 0 := sub_eq_zero.mpr (h2.trans h2'.symm)
    have h0 : (s - s') • B' - (e - e') • C' = 0 := by rw [← this]; module
    exact sub_eq_zero.mp h0
  constructor
  · rw [mul_comm, mul_smul, k1, inv_smul_smul₀ hd]
  · rw [mul_comm, mul_smul, k2, inv_smul_smul₀ hd]

/-- Special soundness, hash-free core: two openings of ONE commitment with different challenges for the statement
`(a•g, B', C')` force `C' = a•B'`. -/
theorem opens_two_challenges {g : G} (hg : g ≠ 0) {a e e' s s' : ZMod n} {R1 R2 B' C' : G}
    (h : dleqOpens g R1 R2 e s (a • g) B' C') (h' : dleqOpens g R1 R2 e' s' (a • g) B' C') (hne : e ≠ e') :
    C' = a • B' := by
  obtain ⟨h1, h2⟩ := h
  obtain ⟨h1', h2'⟩ := h'
  -- first equation: (s - s') = (e - e')·a
  have hs : s - s' = (e - e') * a := by
    have h0 : ((s - s') - (e - e') * a) • g = 0 := by
      have : s • g + (-e) • a • g - (s' • g + (-e') • a • g) = 0 := sub_eq_zero.mpr (h1.trans h1'.symm)
      rw [← this]; module
    rcases smul_eq_zero.mp h0 with h3 | h3
    · exact sub_eq_zero.mp h3
    · exact absurd h3 hg
  -- second equation: (s - s')•B' = (e - e')•C'
  have h0 : (e - e') • (C' - a • B') = 0 := by
    have : s • B' + (-e) • C' - (s' • B' + (-e') • C') = 0 := sub_eq_zero.mpr (h2.trans h2'.symm)
    have h4 : (e - e') • (C' - a • B') = ((s - s') - (e - e') * a) • B'
        - (s • B' + (-e) • C' - (s' • B' + (-e') • C')) := by module
    rw [h4, this, hs, sub_self, zero_smul, sub_zero]
  rcases smul_eq_zero.mp h0 with h3 | h3
  · exact absurd (sub_eq_zero.mp h3) hne
  · exact sub_eq_zero.mp h3

end Field

end Gonuts.Algebra
