import Gonuts.Lemmas.Select
/-!
  The proposed repair of `selectProofsForAmount` (findings/C18-send-succeeds-fallback.patch, NOT applied to
  /repo): when the selection over the active proofs fails, fall back to every proof held if that covers
  `amount + fee(all)`.  Shown here: the repaired function keeps `select_sound` and satisfies `send_succeeds`
  at full strength (no `Affordable` side condition).  When the patch lands, `Model.Select.selectProofsForAmount`
  becomes this function and these two lemmas replace `selectProofsForAmount_ok_nat` / `_succeeds`.
-/
namespace Gonuts.Model.Select
open Gonuts.Model

/-- `selectProofsForAmount` with the fallback of the patch (the only error return of the original is the
    failed selection over the active proofs, so wrapping the result is the same as patching that branch). -/
def selectProofsForAmountFixed (srt : Sorter) (m : Mint) (inactive active : List P) (amount : UInt64)
    (includeFees : Bool) : SelResult :=
  match selectProofsForAmount srt m inactive active amount includeFees with
  | .ok sel => .ok sel
  | e =>
    let allProofs := inactive ++ active
    let allFees := feeOpt m includeFees allProofs
    if proofsAmount allProofs ≥ amount + allFees then .ok allProofs else e

theorem selectProofsForAmountFixed_ok_nat {srt : Sorter} (hs : srt.OK) {m : Mint} {inactive active sel : List P}
    {amount : UInt64} {inc : Bool} (h : selectProofsForAmountFixed srt m inactive active amount inc = .ok sel)
    (hn : NoWrap m inc (inactive ++ active))
    (hA : amount.toNat + feeOptN m inc inactive + feeOptN m inc active < 2 ^ 64) :
    (∃ rest, (sel ++ rest).Perm (inactive ++ active)) ∧ amount.toNat + feeOptN m inc sel ≤ amountN sel := by
  unfold selectProofsForAmountFixed at h
  have fallback : ∀ e : SelResult,
      (if proofsAmount (inactive ++ active) ≥ amount + feeOpt m inc (inactive ++ active)
        then SelResult.ok (inactive ++ active) else e) = .ok sel → (∀ ps, e ≠ .ok ps) →
      (∃ rest, (sel ++ rest).Perm (inactive ++ active)) ∧ amount.toNat + feeOptN m inc sel ≤ amountN sel := by
    intro e he hne
    split at he
    · rename_i hge
      injection he with he
      subst he
      obtain ⟨_, _, s3, s4⟩ := hn.sub (sel := inactive ++ active) (rest := []) (by simp)
      have := feeOptN_append_le m inc inactive active
      rw [ge_iff_le, UInt64.le_iff_toNat_le, UInt64.toNat_add, s3, s4, Nat.mod_eq_of_lt (by omega)] at hge
      exact ⟨⟨[], by simp⟩, hge⟩
    · exact absurd he (hne sel)
  cases hres : selectProofsForAmount srt m inactive active amount inc with
  | ok sel' =>
    rw [hres] at h
    injection h with h
    subst h
    exact selectProofsForAmount_ok_nat hs hres hn hA
  | errBalance => rw [hres] at h; exact fallback _ h (fun ps hp => SelResult.noConfusion hp)
  | errFunds a f t => rw [hres] at h; exact fallback _ h (fun ps hp => SelResult.noConfusion hp)

/-- With the fallback, the selection never refuses what the wallet can afford: if `amount +` the fee of
    spending every proof held is covered by the holdings, proofs are returned — with or without
    inactive-keyset proofs, whatever the ppk values. -/
theorem selectProofsForAmountFixed_succeeds {srt : Sorter} {m : Mint} {inactive active : List P}
    {amount : UInt64} {inc : Bool} (hn : NoWrap m inc (inactive ++ active))
    (hA : amount.toNat + feeOptN m inc (inactive ++ active) ≤ amountN (inactive ++ active)) :
    ∃ sel, selectProofsForAmountFixed srt m inactive active amount inc = .ok sel := by
  unfold selectProofsForAmountFixed
  obtain ⟨_, _, s3, s4⟩ := hn.sub (sel := inactive ++ active) (rest := []) (by simp)
  have hv := hn.value
  have hge : proofsAmount (inactive ++ active) ≥ amount + feeOpt m inc (inactive ++ active) := by
    rw [ge_iff_le, UInt64.le_iff_toNat_le, UInt64.toNat_add, s3, s4, Nat.mod_eq_of_lt (by omega)]
    exact hA
  cases hres : selectProofsForAmount srt m inactive active amount inc with
  | ok sel' => exact ⟨sel', rfl⟩
  | errBalance => exact ⟨inactive ++ active, by simp only [if_pos hge]⟩
  | errFunds a f t => exact ⟨inactive ++ active, by simp only [if_pos hge]⟩

end Gonuts.Model.Select
