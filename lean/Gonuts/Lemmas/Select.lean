import Gonuts.Model.Select
import Gonuts.Lemmas.Amount
/-!
  Helper lemmas about `Model.Select`: the sorters are sorters, the fee functions are `⌈Σ ppk / 1000⌉`,
  the loop invariant of `selectProofsToSend` and what each way of leaving the loop implies.
  Property theorems are in `Gonuts/Props/C18.lean`.
-/
namespace Gonuts.Model.Select
open Gonuts.Model

/-! ## sorting -/

theorem insertBy_perm {α : Type} (le : α → α → Bool) (x : α) (l : List α) : (insertBy le x l).Perm (x :: l) := by
  induction l with
  | nil => simp [insertBy]
  | cons y ys ih =>
    simp only [insertBy]
    split
    · exact List.Perm.refl _
    · exact ((ih.cons y).trans (List.Perm.swap x y ys))

theorem sortBy_perm {α : Type} (le : α → α → Bool) (l : List α) : (sortBy le l).Perm l := by
  induction l with
  | nil => simp [sortBy]
  | cons x xs ih =>
    simp only [sortBy, List.foldr_cons] at ih ⊢
    exact (insertBy_perm le x _).trans (ih.cons x)

theorem insertBy_pairwise {α : Type} (le : α → α → Bool)
    (total : ∀ a b, le a b = true ∨ le b a = true) (trans : ∀ a b c, le a b = true → le b c = true → le a c = true)
    (x : α) (l : List α) (h : l.Pairwise (fun a b => le a b = true)) :
    (insertBy le x l).Pairwise (fun a b => le a b = true) := by
  induction l with
  | nil => simp [insertBy]
  | cons y ys ih =>
    simp only [insertBy]
    have hy := List.pairwise_cons.1 h
    split
    · rename_i hxy
      refine List.pairwise_cons.2 ⟨?_, h⟩
      intro z hz
      rcases List.mem_cons.1 hz with rfl | hz
      · exact hxy
      · exact trans _ _ _ hxy (hy.1 z hz)
    · rename_i hxy
      have hyx : le y x = true := by
        rcases total x y with h1 | h1
        · exact absurd h1 hxy
        · exact h1
      refine List.pairwise_cons.2 ⟨?_, ih hy.2⟩
      intro z hz
      rcases List.mem_cons.1 ((insertBy_perm le x ys).mem_iff.1 hz) with rfl | hz
      · exact hyx
      · exact hy.1 z hz

theorem sortBy_pairwise {α : Type} (le : α → α → Bool)
    (total : ∀ a b, le a b = true ∨ le b a = true) (trans : ∀ a b c, le a b = true → le b c = true → le a c = true)
    (l : List α) : (sortBy le l).Pairwise (fun a b => le a b = true) := by
  induction l with
  | nil => simp [sortBy]
  | cons x xs ih =>
    simp only [sortBy, List.foldr_cons] at ih ⊢
    exact insertBy_pairwise le total trans x _ ih

theorem sortU64_perm (l : List UInt64) : (sortU64 l).Perm l := sortBy_perm _ l

theorem sortU64_pairwise (l : List UInt64) : (sortU64 l).Pairwise (· ≤ ·) := by
  have := sortBy_pairwise (fun (a b : UInt64) => decide (a ≤ b))
    (by intro a b; simp only [decide_eq_true_eq, UInt64.le_iff_toNat_le]; omega)
    (by intro a b c; simp only [decide_eq_true_eq, UInt64.le_iff_toNat_le]; omega) l
  simpa [sortU64] using this

theorem natSum_sortU64 (l : List UInt64) : natSum (sortU64 l) = natSum l := natSum_perm (sortU64_perm l)

/-- What the theorems need of the two `sort.Slice` calls: they return a permutation of their input. -/
def Sorter.OK (s : Sorter) : Prop := (∀ l, (s.asc l).Perm l) ∧ (∀ l, (s.desc l).Perm l)

/-- They also sort by amount (not needed by any C18 theorem; shown for the two sorters the driver uses so
    that the oracle replay can only differ from the stable run in the order of equal amounts). -/
def Sorter.Sorted (s : Sorter) : Prop :=
  (∀ l, (s.asc l).Pairwise (fun a b => a.amount ≤ b.amount)) ∧
  (∀ l, (s.desc l).Pairwise (fun a b => a.amount ≥ b.amount))

theorem stableSorter_ok : stableSorter.OK := ⟨fun l => sortBy_perm _ l, fun l => sortBy_perm _ l⟩

theorem stableSorter_sorted : stableSorter.Sorted := by
  constructor
  · intro l
    have := sortBy_pairwise (fun (a b : P) => decide (a.amount ≤ b.amount))
      (by intro a b; simp only [decide_eq_true_eq, UInt64.le_iff_toNat_le]; omega)
      (by intro a b c; simp only [decide_eq_true_eq, UInt64.le_iff_toNat_le]; omega) l
    simpa [stableSorter] using this
  · intro l
    have := sortBy_pairwise (fun (a b : P) => decide (a.amount ≥ b.amount))
      (by intro a b; simp only [decide_eq_true_eq, ge_iff_le, UInt64.le_iff_toNat_le]; omega)
      (by intro a b c; simp only [decide_eq_true_eq, ge_iff_le, UInt64.le_iff_toNat_le]; omega) l
    simpa [stableSorter] using this

/-! ## sums and fees in ℕ -/

/-- True (ℕ) value of a list of proofs. -/
def amountN (ps : List P) : Nat := natSum (amounts ps)
/-- True (ℕ) sum of the `input_fee_ppk` of a list of proofs, as the wallet looks them up. -/
def ppkSum (m : Mint) (ps : List P) : Nat := natSum (ppks m ps)
/-- `⌈Σ ppk / 1000⌉`: the NUT-02 input fee of spending `ps`. -/
def feeN (m : Mint) (ps : List P) : Nat := ceilDiv1000 (ppkSum m ps)
/-- The fee that counts: `feeN` when fees are included, else 0. -/
def feeOptN (m : Mint) (inc : Bool) (ps : List P) : Nat := if inc then feeN m ps else 0

theorem amountN_append (a b : List P) : amountN (a ++ b) = amountN a + amountN b := by
  simp [amountN, amounts, natSum_append]
theorem ppkSum_append (m : Mint) (a b : List P) : ppkSum m (a ++ b) = ppkSum m a + ppkSum m b := by
  simp [ppkSum, ppks, natSum_append]
theorem amountN_perm {a b : List P} (h : a.Perm b) : amountN a = amountN b :=
  natSum_perm (h.map _)
theorem ppkSum_perm (m : Mint) {a b : List P} (h : a.Perm b) : ppkSum m a = ppkSum m b :=
  natSum_perm (h.map _)
@[simp] theorem amountN_nil : amountN [] = 0 := rfl
@[simp] theorem ppkSum_nil (m : Mint) : ppkSum m [] = 0 := rfl
theorem amountN_singleton (p : P) : amountN [p] = p.amount.toNat := by simp [amountN, amounts]

theorem proofsAmount_toNat (ps : List P) : (proofsAmount ps).toNat = amountN ps % 2 ^ 64 :=
  amountWrap_toNat _

theorem proofsAmount_exact {ps : List P} (h : amountN ps < 2 ^ 64) : (proofsAmount ps).toNat = amountN ps :=
  amountWrap_exact _ h

theorem proofsAmount_snoc (sel : List P) (p : P) : proofsAmount (sel ++ [p]) = proofsAmount sel + p.amount := by
  simp [proofsAmount, amounts, amountWrap, List.foldl_append]

theorem feesForProofs_toNat (m : Mint) (ps : List P) :
    (feesForProofs m ps).toNat = ((ppkSum m ps % 2 ^ 64 + 999) % 2 ^ 64) / 1000 := feesOfPpks_toNat _

theorem feesForProofs_exact {m : Mint} {ps : List P} (h : ppkSum m ps + 999 < 2 ^ 64) :
    (feesForProofs m ps).toNat = feeN m ps := feesOfPpks_exact _ h

theorem feeOpt_exact {m : Mint} {inc : Bool} {ps : List P} (h : inc = true → ppkSum m ps + 999 < 2 ^ 64) :
    (feeOpt m inc ps).toNat = feeOptN m inc ps := by
  unfold feeOpt feeOptN
  cases inc with
  | false => simp
  | true => simpa using feesForProofs_exact (h rfl)

theorem feeOpt_nil (m : Mint) (inc : Bool) : feeOpt m inc [] = 0 := by
  cases inc <;> simp [feeOpt, feesForProofs, ppks, feesOfPpks, amountWrap] <;> decide

theorem amountN_le_of_sub {sel rest all : List P} (h : (sel ++ rest).Perm all) : amountN sel ≤ amountN all := by
  rw [← amountN_perm h, amountN_append]; omega

theorem ppkSum_le_of_sub (m : Mint) {sel rest all : List P} (h : (sel ++ rest).Perm all) :
    ppkSum m sel ≤ ppkSum m all := by
  rw [← ppkSum_perm m h, ppkSum_append]; omega

theorem feeOptN_le_of_sub (m : Mint) (inc : Bool) {sel rest all : List P} (h : (sel ++ rest).Perm all) :
    feeOptN m inc sel ≤ feeOptN m inc all := by
  unfold feeOptN feeN
  cases inc with
  | false => simp
  | true => simpa using ceilDiv1000_mono (ppkSum_le_of_sub m h)

theorem feeOptN_perm (m : Mint) (inc : Bool) {a b : List P} (h : a.Perm b) : feeOptN m inc a = feeOptN m inc b := by
  unfold feeOptN feeN; rw [ppkSum_perm m h]

/-- `⌈a⌉ + ⌈b⌉ ≥ ⌈a + b⌉` for the fees of two parts of a selection. -/
theorem feeOptN_append_le (m : Mint) (inc : Bool) (a b : List P) :
    feeOptN m inc (a ++ b) ≤ feeOptN m inc a + feeOptN m inc b := by
  unfold feeOptN feeN
  cases inc with
  | false => simp
  | true => simpa [ppkSum_append] using ceilDiv1000_add_le (ppkSum m a) (ppkSum m b)

/-! ## the loop of `selectProofsToSend` -/

/-- Number of proofs not yet selected: decreases with every iteration. -/
def LoopSt.measure (st : LoopSt) : Nat := st.smaller.length + st.bigger.length

/-- Invariant rule for the fuelled loop: an invariant kept by `next` steps, with the measure decreasing,
    gives the post-condition of `done` steps for every fuel above the measure (the fuel is never exhausted). -/
theorem selectLoop_rule (srt : Sorter) (m : Mint) (amount : UInt64) (inc : Bool) (I Q : LoopSt → Prop)
    (hnext : ∀ st st', I st → loopStep srt m amount inc st = .next st' → I st' ∧ st'.measure < st.measure)
    (hdone : ∀ st st', I st → loopStep srt m amount inc st = .done st' → Q st') :
    ∀ fuel st, I st → st.measure < fuel → Q (selectLoop srt m amount inc fuel st) := by
  intro fuel
  induction fuel with
  | zero => intro st _ h; exact absurd h (Nat.not_lt_zero _)
  | succ fuel ih =>
    intro st hI hm
    simp only [selectLoop]
    cases hstep : loopStep srt m amount inc st with
    | done st' => exact hdone st st' hI hstep
    | next st' =>
      have := hnext st st' hI hstep
      exact ih st' this.1 (by omega)

theorem afterPick_done {m : Mint} {amount : UInt64} {inc : Bool} {st st' : LoopSt} {p : P} {sm bg : List P}
    (h : afterPick m amount inc st p sm bg = .done st') :
    st'.selected = st.selected ++ [p] ∧ st'.sum = st.sum + p.amount ∧ st'.smaller = sm ∧ st'.bigger = bg ∧
    st'.remaining = st.remaining ∧ p.amount ≥ st.remaining + feeOpt m inc (st.selected ++ [p]) := by
  unfold afterPick at h
  simp only [] at h
  split at h
  · rename_i hc
    injection h with h
    subst h
    exact ⟨rfl, rfl, rfl, rfl, rfl, hc⟩
  · exact Step.noConfusion h

theorem afterPick_next {m : Mint} {amount : UInt64} {inc : Bool} {st st' : LoopSt} {p : P} {sm bg : List P}
    (h : afterPick m amount inc st p sm bg = .next st') :
    st'.selected = st.selected ++ [p] ∧ st'.sum = st.sum + p.amount ∧
    st'.remaining = amount + feeOpt m inc st'.selected - st'.sum ∧
    (st'.smaller ++ st'.bigger).Perm (sm ++ bg) := by
  unfold afterPick at h
  simp only [] at h
  split at h
  · exact Step.noConfusion h
  · injection h with h
    subst h
    refine ⟨rfl, rfl, rfl, ?_⟩
    simp only []
    rw [← List.append_assoc]
    refine List.Perm.append_right bg ?_
    exact ((List.reverse_perm _).append_left _).trans (List.filter_append_perm _ sm)

/-- The invariant of the loop: nothing is lost or invented, the running sum is the (wrapping) sum of the
    selection, and `remainingAmount` is `amount + fees - selectedProofsSum` in `uint64` arithmetic. -/
structure LoopInv (m : Mint) (amount : UInt64) (inc : Bool) (proofs : List P) (st : LoopSt) : Prop where
  perm : (st.selected ++ (st.smaller ++ st.bigger)).Perm proofs
  sum : st.sum = proofsAmount st.selected
  rem : st.remaining = amount + feeOpt m inc st.selected - st.sum

/-- What holds when the loop is left. -/
structure LoopPost (m : Mint) (amount : UInt64) (inc : Bool) (proofs : List P) (st : LoopSt) : Prop where
  perm : (st.selected ++ (st.smaller ++ st.bigger)).Perm proofs
  sum : st.sum = proofsAmount st.selected
  /-- how the loop was left: the condition `remainingAmount > 0` failed, both lists ran dry, or `break` -/
  exit : (st.remaining = 0 ∧ st.remaining = amount + feeOpt m inc st.selected - st.sum) ∨
         (st.smaller = [] ∧ st.bigger = []) ∨
         (∃ sel p, st.selected = sel ++ [p] ∧
            st.remaining = amount + feeOpt m inc sel - proofsAmount sel ∧
            p.amount ≥ st.remaining + feeOpt m inc st.selected)

theorem loopStep_next {srt : Sorter} (hs : srt.OK) {m : Mint} {amount : UInt64} {inc : Bool} {proofs : List P}
    {st st' : LoopSt} (hI : LoopInv m amount inc proofs st) (h : loopStep srt m amount inc st = .next st') :
    LoopInv m amount inc proofs st' ∧ st'.measure < st.measure := by
  unfold loopStep at h
  split at h
  · split at h
    · rename_i p rest hd
      obtain ⟨h1, h2, h3, h4⟩ := afterPick_next h
      have hp : (p :: rest).Perm st.smaller := hd ▸ hs.2 st.smaller
      refine ⟨⟨?_, ?_, h3⟩, ?_⟩
      · rw [h1, List.append_assoc]
        refine List.Perm.trans ?_ hI.perm
        refine List.Perm.append_left _ ?_
        simp only [List.singleton_append]
        exact (h4.cons p).trans (by simpa using hp.append_right st.bigger)
      · rw [h2, h1, proofsAmount_snoc, hI.sum]
      · have := h4.length_eq
        have := hp.length_eq
        simp only [LoopSt.measure, List.length_append, List.length_cons] at *
        omega
    · rename_i hd
      split at h
      · rename_i p rest hb
        obtain ⟨h1, h2, h3, h4⟩ := afterPick_next h
        have hsm : st.smaller = [] := (hd ▸ hs.2 st.smaller).symm.eq_nil
        refine ⟨⟨?_, ?_, h3⟩, ?_⟩
        · rw [h1, List.append_assoc]
          refine List.Perm.trans ?_ hI.perm
          refine List.Perm.append_left _ ?_
          simp only [List.singleton_append, hsm, hb, List.nil_append]
          exact h4.cons p
        · rw [h2, h1, proofsAmount_snoc, hI.sum]
        · have := h4.length_eq
          simp only [LoopSt.measure, List.length_append, List.length_cons, hsm, hb, List.length_nil] at *
          omega
      · exact Step.noConfusion h
  · exact Step.noConfusion h

theorem loopStep_done {srt : Sorter} (hs : srt.OK) {m : Mint} {amount : UInt64} {inc : Bool} {proofs : List P}
    {st st' : LoopSt} (hI : LoopInv m amount inc proofs st) (h : loopStep srt m amount inc st = .done st') :
    LoopPost m amount inc proofs st' := by
  unfold loopStep at h
  split at h
  · split at h
    · rename_i p rest hd
      obtain ⟨h1, h2, h3, h4, h5, h6⟩ := afterPick_done h
      have hp : (p :: rest).Perm st.smaller := hd ▸ hs.2 st.smaller
      refine ⟨?_, ?_, Or.inr (Or.inr ⟨st.selected, p, h1, ?_, ?_⟩)⟩
      · rw [h1, h3, h4, List.append_assoc]
        refine List.Perm.trans ?_ hI.perm
        refine List.Perm.append_left _ ?_
        simpa using hp.append_right st.bigger
      · rw [h2, h1, proofsAmount_snoc, hI.sum]
      · rw [h5, hI.rem, hI.sum]
      · rw [h5, h1]; exact h6
    · rename_i hd
      have hsm : st.smaller = [] := (hd ▸ hs.2 st.smaller).symm.eq_nil
      split at h
      · rename_i p rest hb
        obtain ⟨h1, h2, h3, h4, h5, h6⟩ := afterPick_done h
        refine ⟨?_, ?_, Or.inr (Or.inr ⟨st.selected, p, h1, ?_, ?_⟩)⟩
        · rw [h1, h3, h4, List.append_assoc]
          refine List.Perm.trans ?_ hI.perm
          refine List.Perm.append_left _ ?_
          simp [hsm, hb]
        · rw [h2, h1, proofsAmount_snoc, hI.sum]
        · rw [h5, hI.rem, hI.sum]
        · rw [h5, h1]; exact h6
      · rename_i hb
        injection h with h
        subst h
        exact ⟨hI.perm, hI.sum, Or.inr (Or.inl ⟨hsm, hb⟩)⟩
  · rename_i hr
    injection h with h
    subst h
    refine ⟨hI.perm, hI.sum, Or.inl ⟨?_, hI.rem⟩⟩
    have : ¬ (0 < st.remaining.toNat) := by
      intro h0; exact hr (by rw [gt_iff_lt, UInt64.lt_iff_toNat_lt]; simpa using h0)
    exact UInt64.toNat_inj.1 (by simp; omega)

theorem initSt_inv {srt : Sorter} (hs : srt.OK) (m : Mint) (amount : UInt64) (inc : Bool) (proofs : List P) :
    LoopInv m amount inc proofs (initSt srt proofs amount) := by
  refine ⟨?_, rfl, ?_⟩
  · simp only [initSt, List.nil_append]
    exact (List.filter_append_perm _ _).trans (hs.1 proofs)
  · simp only [initSt, feeOpt_nil]
    exact UInt64.toNat_inj.1 (by simp)

theorem initSt_measure {srt : Sorter} (hs : srt.OK) (amount : UInt64) (proofs : List P) :
    (initSt srt proofs amount).measure = proofs.length := by
  have h1 := (List.filter_append_perm (fun p => decide (p.amount ≤ amount)) (srt.asc proofs)).length_eq
  have h2 := (hs.1 proofs).length_eq
  simp only [List.length_append] at h1
  simp only [initSt, LoopSt.measure]
  omega

/-- The state in which `selectProofsToSend` leaves its loop. -/
def finalSt (srt : Sorter) (m : Mint) (proofs : List P) (amount : UInt64) (inc : Bool) : LoopSt :=
  selectLoop srt m amount inc (proofs.length + 1) (initSt srt proofs amount)

theorem finalSt_post {srt : Sorter} (hs : srt.OK) (m : Mint) (proofs : List P) (amount : UInt64) (inc : Bool) :
    LoopPost m amount inc proofs (finalSt srt m proofs amount inc) := by
  refine selectLoop_rule srt m amount inc (LoopInv m amount inc proofs) (LoopPost m amount inc proofs)
    (fun st st' hI h => loopStep_next hs hI h) (fun st st' hI h => loopStep_done hs hI h) _ _
    (initSt_inv hs m amount inc proofs) ?_
  rw [initSt_measure hs]; omega

/-- The fuel of `selectLoop` is not a modelling assumption: any two fuels above the number of proofs not yet
    selected give the same final state (Go's loop has no bound; it leaves after at most that many iterations). -/
theorem selectLoop_fuel_irrelevant {srt : Sorter} (hs : srt.OK) {m : Mint} {amount : UInt64} {inc : Bool}
    {proofs : List P} : ∀ (f1 f2 : Nat) (st : LoopSt), LoopInv m amount inc proofs st →
      st.measure < f1 → st.measure < f2 →
      selectLoop srt m amount inc f1 st = selectLoop srt m amount inc f2 st := by
  intro f1
  induction f1 with
  | zero => intro f2 st _ h; exact absurd h (Nat.not_lt_zero _)
  | succ f1 ih =>
    intro f2 st hI h1 h2
    cases f2 with
    | zero => exact absurd h2 (Nat.not_lt_zero _)
    | succ f2 =>
      simp only [selectLoop]
      cases hstep : loopStep srt m amount inc st with
      | done st' => rfl
      | next st' =>
        have := loopStep_next hs hI hstep
        exact ih f2 st' this.1 (by omega) (by omega)

theorem selectProofsToSend_fuel {srt : Sorter} (hs : srt.OK) (m : Mint) (proofs : List P) (amount : UInt64)
    (inc : Bool) (fuel : Nat) (hf : proofs.length < fuel) :
    selectLoop srt m amount inc fuel (initSt srt proofs amount) = finalSt srt m proofs amount inc := by
  unfold finalSt
  exact selectLoop_fuel_irrelevant hs _ _ _ (initSt_inv hs m amount inc proofs)
    (by rw [initSt_measure hs]; exact hf) (by rw [initSt_measure hs]; omega)

theorem selectProofsToSend_eq (srt : Sorter) (m : Mint) (proofs : List P) (amount : UInt64) (inc : Bool) :
    selectProofsToSend srt m proofs amount inc =
      if proofsAmount proofs < amount then .errBalance
      else finish m amount inc (finalSt srt m proofs amount inc) := rfl

/-- `uint64`-level soundness of a successful `selectProofsToSend`, no hypothesis on sizes: the result is a
    sub-multiset of the input, and the two comparisons the code makes hold of it. -/
theorem selectProofsToSend_ok_u64 {srt : Sorter} (hs : srt.OK) {m : Mint} {proofs sel : List P} {amount : UInt64}
    {inc : Bool} (h : selectProofsToSend srt m proofs amount inc = .ok sel) :
    (∃ rest, (sel ++ rest).Perm proofs) ∧ ¬ (proofsAmount sel < amount + feeOpt m inc sel) ∧
    ¬ (proofsAmount proofs < amount) := by
  rw [selectProofsToSend_eq] at h
  split at h
  · exact SelResult.noConfusion h
  · rename_i hb
    have post := finalSt_post hs m proofs amount inc
    unfold finish at h
    simp only [] at h
    split at h
    · exact SelResult.noConfusion h
    · rename_i hf
      injection h with h
      subst h
      exact ⟨⟨_, post.perm⟩, by rw [← post.sum]; exact hf, hb⟩

/-- No-wrap hypotheses under which the `uint64` comparisons mean what they say in ℕ, for a call on `proofs`:
    the holdings' value plus the fee of spending all of them fits 64 bits, and so does the ppk sum. -/
structure NoWrap (m : Mint) (inc : Bool) (proofs : List P) : Prop where
  value : amountN proofs + feeOptN m inc proofs < 2 ^ 64
  ppk : inc = true → ppkSum m proofs + 999 < 2 ^ 64

theorem NoWrap.sub {m : Mint} {inc : Bool} {proofs sel rest : List P} (hn : NoWrap m inc proofs)
    (h : (sel ++ rest).Perm proofs) :
    amountN sel ≤ amountN proofs ∧ feeOptN m inc sel ≤ feeOptN m inc proofs ∧
    (proofsAmount sel).toNat = amountN sel ∧ (feeOpt m inc sel).toNat = feeOptN m inc sel := by
  have h1 := amountN_le_of_sub h
  have h2 := feeOptN_le_of_sub m inc h
  have h3 := ppkSum_le_of_sub m h
  have hv := hn.value
  refine ⟨h1, h2, proofsAmount_exact (by omega), feeOpt_exact (fun hi => ?_)⟩
  have := hn.ppk hi; omega

/-- ℕ-level soundness of a successful `selectProofsToSend`. -/
theorem selectProofsToSend_ok_nat {srt : Sorter} (hs : srt.OK) {m : Mint} {proofs sel : List P} {amount : UInt64}
    {inc : Bool} (h : selectProofsToSend srt m proofs amount inc = .ok sel)
    (hn : NoWrap m inc proofs) (hA : amount.toNat + feeOptN m inc proofs < 2 ^ 64) :
    (∃ rest, (sel ++ rest).Perm proofs) ∧ amount.toNat + feeOptN m inc sel ≤ amountN sel := by
  obtain ⟨⟨rest, hp⟩, hge, _⟩ := selectProofsToSend_ok_u64 hs h
  obtain ⟨_, h2, h3, h4⟩ := hn.sub hp
  refine ⟨⟨rest, hp⟩, ?_⟩
  rw [UInt64.lt_iff_toNat_lt, UInt64.toNat_add, h3, h4] at hge
  rw [Nat.mod_eq_of_lt (by omega)] at hge
  omega

/-- Every way of leaving the loop passes the final `selectedProofsSum < amount+fees` test, provided the
    amount plus the fee of spending every proof is covered by the holdings (and nothing wraps). -/
theorem post_good {m : Mint} {amount : UInt64} {inc : Bool} {proofs : List P} {st : LoopSt}
    (post : LoopPost m amount inc proofs st) (hn : NoWrap m inc proofs)
    (hA : amount.toNat + feeOptN m inc proofs ≤ amountN proofs) :
    ¬ (st.sum < amount + feeOpt m inc st.selected) := by
  obtain ⟨h1, h2, h3, h4⟩ := hn.sub post.perm
  have hv := hn.value
  have hA' := amount.toNat_lt
  rw [post.sum, UInt64.lt_iff_toNat_lt, UInt64.toNat_add, h3, h4]
  rcases post.exit with ⟨hz, hr⟩ | ⟨hsm, hbg⟩ | ⟨sel0, p, hsel, hr, hc⟩
  · -- remainingAmount = amount + fees - selectedProofsSum = 0
    rw [hr, post.sum] at hz
    have := congrArg UInt64.toNat hz
    rw [UInt64.toNat_sub, UInt64.toNat_add, h3, h4] at this
    simp only [UInt64.toNat_zero] at this
    omega
  · -- everything was selected
    have hp : st.selected.Perm proofs := by simpa [hsm, hbg] using post.perm
    rw [amountN_perm hp, feeOptN_perm m inc hp]
    omega
  · -- break: selectedProof.Amount >= remainingAmount + fees
    have hp0 : (sel0 ++ ([p] ++ (st.smaller ++ st.bigger))).Perm proofs := by
      have := post.perm; rw [hsel, List.append_assoc] at this; exact this
    obtain ⟨_, g2, g3, g4⟩ := hn.sub hp0
    have hs : amountN st.selected = amountN sel0 + p.amount.toNat := by
      rw [hsel, amountN_append, amountN_singleton]
    rw [hr, ge_iff_le, UInt64.le_iff_toNat_le, UInt64.toNat_add, UInt64.toNat_sub, UInt64.toNat_add, g3, g4, h4] at hc
    omega

/-- `selectProofsToSend` does not refuse an amount that, together with the fee of spending every proof it
    was given, is covered by those proofs. -/
theorem selectProofsToSend_succeeds {srt : Sorter} (hs : srt.OK) {m : Mint} {proofs : List P} {amount : UInt64}
    {inc : Bool} (hn : NoWrap m inc proofs) (hA : amount.toNat + feeOptN m inc proofs ≤ amountN proofs) :
    ∃ sel, selectProofsToSend srt m proofs amount inc = .ok sel := by
  rw [selectProofsToSend_eq]
  have hv := hn.value
  have hb : ¬ (proofsAmount proofs < amount) := by
    rw [UInt64.lt_iff_toNat_lt, proofsAmount_exact (by omega)]; omega
  rw [if_neg hb]
  unfold finish
  simp only []
  rw [if_neg (post_good (finalSt_post hs m proofs amount inc) hn hA)]
  exact ⟨_, rfl⟩

/-! ## selectProofsForAmount -/

theorem NoWrap.left {m : Mint} {inc : Bool} {a b : List P} (hn : NoWrap m inc (a ++ b)) : NoWrap m inc a := by
  have h := List.Perm.refl (a ++ b)
  have h1 := amountN_le_of_sub h
  have h2 := feeOptN_le_of_sub m inc h
  have h3 := ppkSum_le_of_sub m h
  have hv := hn.value
  exact ⟨by omega, fun hi => by have := hn.ppk hi; omega⟩

theorem NoWrap.right {m : Mint} {inc : Bool} {a b : List P} (hn : NoWrap m inc (a ++ b)) : NoWrap m inc b := by
  have h : (b ++ a).Perm (a ++ b) := List.perm_append_comm
  have h1 := amountN_le_of_sub h
  have h2 := feeOptN_le_of_sub m inc h
  have h3 := ppkSum_le_of_sub m h
  have hv := hn.value
  exact ⟨by omega, fun hi => by have := hn.ppk hi; omega⟩

/-- What `selectProofsForAmount` holds after its inactive-keyset block: some sub-multiset of the inactive
    proofs (all of them, the inner selection, or nothing when the inner selection failed) and its fee. -/
theorem inactivePart_spec {srt : Sorter} (hs : srt.OK) (m : Mint) (inactive : List P) (amount : UInt64) (inc : Bool) :
    (∃ rest, ((inactivePart srt m inactive amount inc).1 ++ rest).Perm inactive) ∧
    (inactivePart srt m inactive amount inc).2 = feeOpt m inc (inactivePart srt m inactive amount inc).1 := by
  unfold inactivePart
  split
  · simp only []
    refine ⟨?_, by cases inc <;> simp [feeOpt]⟩
    split
    · exact ⟨[], by simp⟩
    · cases hps : selectProofsToSend srt m inactive amount inc with
      | ok ps => exact (selectProofsToSend_ok_u64 hs hps).1
      | errBalance => exact ⟨inactive, by simp [SelResult.proofsDroppingError]⟩
      | errFunds a f t => exact ⟨inactive, by simp [SelResult.proofsDroppingError]⟩
  · exact ⟨⟨inactive, by simp⟩, (feeOpt_nil m inc).symm⟩

theorem selectProofsForAmount_eq (srt : Sorter) (m : Mint) (inactive active : List P) (amount : UInt64) (inc : Bool) :
    selectProofsForAmount srt m inactive active amount inc =
      let r := inactivePart srt m inactive amount inc
      if proofsAmount r.1 ≥ amount + r.2 then .ok r.1
      else match selectProofsToSend srt m active (amount + r.2 - proofsAmount r.1) inc with
        | .ok ps => .ok (r.1 ++ ps)
        | e => e := by
  unfold selectProofsForAmount
  rfl

/-- ℕ-level soundness of a successful `selectProofsForAmount`: a sub-multiset of the holdings worth at least
    the amount plus the fee of the selected proofs (`⌈a⌉+⌈b⌉ ≥ ⌈a+b⌉` joins the two parts). -/
theorem selectProofsForAmount_ok_nat {srt : Sorter} (hs : srt.OK) {m : Mint} {inactive active sel : List P}
    {amount : UInt64} {inc : Bool} (h : selectProofsForAmount srt m inactive active amount inc = .ok sel)
    (hn : NoWrap m inc (inactive ++ active))
    (hA : amount.toNat + feeOptN m inc inactive + feeOptN m inc active < 2 ^ 64) :
    (∃ rest, (sel ++ rest).Perm (inactive ++ active)) ∧ amount.toNat + feeOptN m inc sel ≤ amountN sel := by
  rw [selectProofsForAmount_eq] at h
  obtain ⟨⟨restI, hpI⟩, hfee⟩ := inactivePart_spec hs m inactive amount inc
  generalize inactivePart srt m inactive amount inc = r at h hpI hfee
  obtain ⟨selected, fees⟩ := r
  simp only [] at h hpI hfee
  subst hfee
  obtain ⟨i1, i2, i3, i4⟩ := hn.left.sub hpI
  have hA' := amount.toNat_lt
  split at h
  · rename_i hge
    injection h with h
    subst h
    refine ⟨⟨restI ++ active, ?_⟩, ?_⟩
    · rw [← List.append_assoc]; exact hpI.append_right active
    · rw [ge_iff_le, UInt64.le_iff_toNat_le, UInt64.toNat_add, i3, i4, Nat.mod_eq_of_lt (by omega)] at hge
      exact hge
  · rename_i hlt
    rw [ge_iff_le, UInt64.le_iff_toNat_le, UInt64.toNat_add, i3, i4, Nat.mod_eq_of_lt (by omega)] at hlt
    split at h
    · rename_i ps hps
      injection h with h
      subst h
      obtain ⟨⟨restA, hpA⟩, hge, _⟩ := selectProofsToSend_ok_u64 hs hps
      obtain ⟨a1, a2, a3, a4⟩ := hn.right.sub hpA
      refine ⟨⟨restI ++ restA, ?_⟩, ?_⟩
      · have : (selected ++ ps ++ (restI ++ restA)).Perm ((selected ++ restI) ++ (ps ++ restA)) := by
          simp only [List.append_assoc]
          refine List.Perm.append_left _ ?_
          rw [← List.append_assoc, ← List.append_assoc]
          exact List.Perm.append_right _ List.perm_append_comm
        exact this.trans (hpI.append hpA)
      · have hf := feeOptN_append_le m inc selected ps
        rw [UInt64.lt_iff_toNat_lt, UInt64.toNat_add, UInt64.toNat_sub, UInt64.toNat_add, a3, a4, i3, i4] at hge
        rw [amountN_append]
        omega
    · rename_i hne
      cases hres : selectProofsToSend srt m active (amount + feeOpt m inc selected - proofsAmount selected) inc with
      | ok ps => exact absurd hres (hne ps)
      | errBalance => rw [hres] at h; exact SelResult.noConfusion h
      | errFunds a f t => rw [hres] at h; exact SelResult.noConfusion h

theorem inactivePart_of_ne (srt : Sorter) (m : Mint) {inactive : List P} (hne : inactive ≠ []) (amount : UInt64)
    (inc : Bool) :
    inactivePart srt m inactive amount inc =
      ((if proofsAmount inactive < amount then inactive
        else (selectProofsToSend srt m inactive amount inc).proofsDroppingError),
       feeOpt m inc (if proofsAmount inactive < amount then inactive
        else (selectProofsToSend srt m inactive amount inc).proofsDroppingError)) := by
  have hlen : inactive.length > 0 := by
    cases inactive with
    | nil => exact absurd rfl hne
    | cons x xs => simp
  unfold inactivePart
  rw [if_pos hlen]
  cases inc <;> simp [feeOpt]

/-- The four ways through the inactive-keyset block. -/
theorem inactivePart_cases (srt : Sorter) (m : Mint) (inactive : List P) (amount : UInt64) (inc : Bool) :
    (inactive = [] ∧ inactivePart srt m inactive amount inc = ([], 0)) ∨
    (proofsAmount inactive < amount ∧ inactivePart srt m inactive amount inc = (inactive, feeOpt m inc inactive)) ∨
    (¬ proofsAmount inactive < amount ∧ ∃ ps, selectProofsToSend srt m inactive amount inc = .ok ps ∧
        inactivePart srt m inactive amount inc = (ps, feeOpt m inc ps)) ∨
    (¬ proofsAmount inactive < amount ∧ (∀ ps, selectProofsToSend srt m inactive amount inc ≠ .ok ps) ∧
        inactivePart srt m inactive amount inc = ([], 0)) := by
  by_cases hnil : inactive = []
  · subst hnil
    exact Or.inl ⟨rfl, by simp [inactivePart]⟩
  · have e := inactivePart_of_ne srt m hnil amount inc
    by_cases hlt : proofsAmount inactive < amount
    · refine Or.inr (Or.inl ⟨hlt, ?_⟩)
      rw [e, if_pos hlt]
    · rw [if_neg hlt] at e
      cases hres : selectProofsToSend srt m inactive amount inc with
      | ok ps =>
        refine Or.inr (Or.inr (Or.inl ⟨hlt, ps, rfl, ?_⟩))
        rw [e, hres]; rfl
      | errBalance =>
        refine Or.inr (Or.inr (Or.inr ⟨hlt, fun ps h => SelResult.noConfusion h, ?_⟩))
        rw [e, hres]; simp only [SelResult.proofsDroppingError, feeOpt_nil]
      | errFunds a f t =>
        refine Or.inr (Or.inr (Or.inr ⟨hlt, fun ps h => SelResult.noConfusion h, ?_⟩))
        rw [e, hres]; simp only [SelResult.proofsDroppingError, feeOpt_nil]

/-- The exact condition under which the two-stage selection of `selectProofsForAmount` is guaranteed to
    return proofs.  `whole`: when the inactive proofs are worth less than the amount they are all taken and
    the active proofs must cover the rest plus BOTH rounded-up fees; `inner`: otherwise either the inactive
    proofs cover amount + their fee (the inner selection then succeeds) or — because a failed inner selection
    discards every inactive proof — the active proofs alone cover amount + their fee. -/
structure Affordable (m : Mint) (inc : Bool) (inactive active : List P) (amount : UInt64) : Prop where
  whole : amountN inactive < amount.toNat →
    amount.toNat + feeOptN m inc inactive + feeOptN m inc active ≤ amountN inactive + amountN active
  inner : amount.toNat ≤ amountN inactive →
    amount.toNat + feeOptN m inc inactive ≤ amountN inactive ∨
    amount.toNat + feeOptN m inc active ≤ amountN active

theorem selectProofsForAmount_succeeds {srt : Sorter} (hs : srt.OK) {m : Mint} {inactive active : List P}
    {amount : UInt64} {inc : Bool} (hn : NoWrap m inc (inactive ++ active))
    (hA : amount.toNat + feeOptN m inc inactive + feeOptN m inc active < 2 ^ 64)
    (haff : Affordable m inc inactive active amount) :
    ∃ sel, selectProofsForAmount srt m inactive active amount inc = .ok sel := by
  rw [selectProofsForAmount_eq]
  have hA' := amount.toNat_lt
  have hnI := hn.left
  have hnA := hn.right
  obtain ⟨_, _, iI3, iI4⟩ := hnI.sub (rest := []) (sel := inactive) (by simp)
  -- the active call with a remaining amount `rem` that it can afford
  have active_ok : ∀ (sel0 : List P) (rem : UInt64), rem.toNat + feeOptN m inc active ≤ amountN active →
      ∃ sel, (match selectProofsToSend srt m active rem inc with
        | .ok ps => SelResult.ok (sel0 ++ ps)
        | e => e) = .ok sel := by
    intro sel0 rem hrem
    obtain ⟨ps, hps⟩ := selectProofsToSend_succeeds hs hnA hrem
    exact ⟨sel0 ++ ps, by rw [hps]⟩
  rcases inactivePart_cases srt m inactive amount inc with ⟨hnil, hr⟩ | ⟨hlt, hr⟩ | ⟨hge, ps, hps, hr⟩ | ⟨hge, hfail, hr⟩
  · -- no inactive proofs
    subst hnil
    rw [hr]
    simp only []
    split
    · exact ⟨_, rfl⟩
    · rename_i hlt
      rw [ge_iff_le, UInt64.le_iff_toNat_le] at hlt
      have hw := haff.whole
      have : proofsAmount ([] : List P) = 0 := rfl
      simp only [this, UInt64.toNat_add, UInt64.toNat_zero] at hlt
      refine active_ok [] _ ?_
      have h0 : feeOptN m inc [] = 0 := by cases inc <;> simp [feeOptN, feeN, ceilDiv1000]
      rw [show amount + 0 - proofsAmount ([] : List P) = amount from UInt64.toNat_inj.1 (by simp [this])]
      simp only [amountN_nil, h0] at hw
      omega
  · -- every inactive proof is taken
    rw [hr]
    simp only []
    rw [UInt64.lt_iff_toNat_lt, iI3] at hlt
    have hw := haff.whole hlt
    split
    · exact ⟨_, rfl⟩
    · refine active_ok _ _ ?_
      rw [UInt64.toNat_sub, UInt64.toNat_add, iI3, iI4]
      omega
  · -- the inner selection over the inactive proofs succeeded
    rw [hr]
    simp only []
    obtain ⟨⟨rest, hp⟩, hcov⟩ := selectProofsToSend_ok_nat hs hps hnI (by omega)
    obtain ⟨_, s2, s3, s4⟩ := hnI.sub hp
    have : proofsAmount ps ≥ amount + feeOpt m inc ps := by
      rw [ge_iff_le, UInt64.le_iff_toNat_le, UInt64.toNat_add, s3, s4, Nat.mod_eq_of_lt (by omega)]
      exact hcov
    rw [if_pos this]
    exact ⟨_, rfl⟩
  · -- the inner selection failed: its error is dropped and no inactive proof is selected
    rw [hr]
    simp only []
    rw [UInt64.lt_iff_toNat_lt, iI3] at hge
    have hin := haff.inner (by omega)
    have hactive : amount.toNat + feeOptN m inc active ≤ amountN active := by
      rcases hin with h | h
      · obtain ⟨ps, hps⟩ := selectProofsToSend_succeeds hs hnI h
        exact absurd hps (hfail ps)
      · exact h
    split
    · exact ⟨_, rfl⟩
    · refine active_ok [] _ ?_
      have : proofsAmount ([] : List P) = 0 := rfl
      rw [show amount + 0 - proofsAmount ([] : List P) = amount from UInt64.toNat_inj.1 (by simp [this])]
      exact hactive

end Gonuts.Model.Select
