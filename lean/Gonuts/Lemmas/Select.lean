import Gonuts.Model.Select
import Gonuts.Lemmas.Amount
/-!
  Helper lemmas about `Model.Select`: the sorters are sorters, the fee functions are `⌈Σ ppk / 1000⌉`,
  the loop invariant of `selectProofsToSend` and what each way of leaving the loop implies.
  Property theorems are in `Gonuts/Props/C18.lean`.
-/
namespace Gonuts.Model.Select
open Gonuts.Model

/-! ## sorting -/

theorem insertBy_perm {α : Type} (le : α → α → Bool) (x : α) (l : List α) : (insertBy le x l).Perm (x :: l) := by
  induction l with
  | nil => simp [insertBy]
  | cons y ys ih =>
    simp only [insertBy]
    split
    · exact List.Perm.refl _
    · exact ((ih.cons y).trans (List.Perm.swap x y ys))

theorem sortBy_perm {α : Type} (le : α → α → Bool) (l : List α) : (sortBy le l).Perm l := by
  induction l with
  | nil => simp [sortBy]
  | cons x xs ih =>
    simp only [sortBy, List.foldr_cons] at ih ⊢
    exact (insertBy_perm le x _).trans (ih.cons x)

theorem insertBy_pairwise {α : Type} (le : α → α → Bool)
    (total : ∀ a b, le a b = true ∨ le b a = true) (trans : ∀ a b c, le a b = true → le b c = true → le a c = true)
    (x : α) (l : List α) (h : l.Pairwise (fun a b => le a b = true)) :
    (insertBy le x l).Pairwise (fun a b => le a b = true) := by
  induction l with
  | nil => simp [insertBy]
  | cons y ys ih =>
    simp only [insertBy]
    have hy := List.pairwise_cons.1 h
    split
    · rename_i hxy
      refine List.pairwise_cons.2 ⟨?_, h⟩
      intro z hz
      rcases List.mem_cons.1 hz with rfl | hz
      · exact hxy
      · exact trans _ _ _ hxy (hy.1 z hz)
    · rename_i hxy
      have hyx : le y x = true := by
        rcases total x y with h1 | h1
        · exact absurd h1 hxy
        · exact h1
      refine List.pairwise_cons.2 ⟨?_, ih hy.2⟩
      intro z hz
      rcases List.mem_cons.1 ((insertBy_perm le x ys).mem_iff.1 hz) with rfl | hz
      · exact hyx
      · exact hy.1 z hz

theorem sortBy_pairwise {α : Type} (le : α → α → Bool)
    (total : ∀ a b, le a b = true ∨ le b a = true) (trans : ∀ a b c, le a b = true → le b c = true → le a c = true)
    (l : List α) : (sortBy le l).Pairwise (fun a b => le a b = true) := by
  induction l with
  | nil => simp [sortBy]
  | cons x xs ih =>
    simp only [sortBy, List.foldr_cons] at ih ⊢
    exact insertBy_pairwise le total trans x _ ih

theorem sortU64_perm (l : List UInt64) : (sortU64 l).Perm l := sortBy_perm _ l

theorem sortU64_pairwise (l : List UInt64) : (sortU64 l).Pairwise (· ≤ ·) := by
  have := sortBy_pairwise (fun (a b : UInt64) => decide (a ≤ b))
    (by intro a b; simp only [decide_eq_true_eq, UInt64.le_iff_toNat_le]; omega)
    (by intro a b c; simp only [decide_eq_true_eq, UInt64.le_iff_toNat_le]; omega) l
  simpa [sortU64] using this

theorem natSum_sortU64 (l : List UInt64) : natSum (sortU64 l) = natSum l := natSum_perm (sortU64_perm l)

/-- What the theorems need of the two `sort.Slice` calls: they return a permutation of their input. -/
def Sorter.OK (s : Sorter) : Prop := (∀ l, (s.asc l).Perm l) ∧ (∀ l, (s.desc l).Perm l)

/-- They also sort by amount (not needed by any C18 theorem; shown for the two sorters the driver uses so
    that the oracle replay can only differ from the stable run in the order of equal amounts). -/
def Sorter.Sorted (s : Sorter) : Prop :=
  (∀ l, (s.asc l).Pairwise (fun a b => a.amount ≤ b.amount)) ∧
  (∀ l, (s.desc l).Pairwise (fun a b => a.amount ≥ b.amount))

theorem stableSorter_ok : stableSorter.OK := ⟨fun l => sortBy_perm _ l, fun l => sortBy_perm _ l⟩

theorem stableSorter_sorted : stableSorter.Sorted := by
  constructor
  · intro l
    have := sortBy_pairwise (fun (a b : P) => decide (a.amount ≤ b.amount))
      (by intro a b; simp only [decide_eq_true_eq, UInt64.le_iff_toNat_le]; omega)
      (by intro a b c; simp only [decide_eq_true_eq, UInt64.le_iff_toNat_le]; omega) l
    simpa [stableSorter] using this
  · intro l
    have := sortBy_pairwise (fun (a b : P) => decide (a.amount ≥ b.amount))
      (by intro a b; simp only [decide_eq_true_eq, ge_iff_le, UInt64.le_iff_toNat_le]; omega)
      (by intro a b c; simp only [decide_eq_true_eq, ge_iff_le, UInt64.le_iff_toNat_le]; omega) l
    simpa [stableSorter] using this

end Gonuts.Model.Select
