import Gonuts.Lemmas.SwapConc
/-!
  Every state a KILLED or FAULTED swap can leave behind — for every request, every world, every interruption point n and
  with or without an armed storage fault:

      the tables as they were   |   + the inputs in the spent table   |   + the inputs spent and the signatures stored

  (`swap_crash_states`).  The middle state is the stranding point of C07 (`Props.C07.swap_atomic_full_false`); there is no
  other partial state, and in particular never signatures without spent inputs.

  Method as in SwapConc: a syntactic shape of the program's decision tree (reads, then `SaveProofs(inputs)`, then reads,
  then `SaveBlindSignatures`, then no write) + the storage semantics of the two writes.
-/
namespace Gonuts.Model.Mint

/-- Effects that never change a table (queries and all Lightning calls). -/
def Eff.readOnly : {β : Type} → Eff β → Bool
  | _, .getSeed | _, .getKeysets | _, .getProofsUsed _ | _, .getPending _ | _, .getPendingByQuote _
  | _, .getMintQuote _ | _, .getMintQuoteByHash _ | _, .getMeltQuote _ | _, .getMeltQuoteByReq _
  | _, .getSig _ | _, .getSigs _ | _, .getIssued | _, .getRedeemed
  | _, .lnCreateInvoice _ | _, .lnInvoiceStatus _ | _, .lnSendPayment _ _ | _, .lnPayPartial _ _ _
  | _, .lnOutgoingStatus _ | _, .lnFeeReserve _ => true
  | _, _ => false

theorem exec_readOnly_db {β : Type} (w : World) (e : Eff β) (h : e.readOnly = true) : (exec w e).1.db = w.db := by
  rcases exec_db_cases w e with hdb | ⟨r, hdb⟩
  · exact hdb
  · cases e <;> simp only [Eff.readOnly] at h <;> simp only [execDb] at hdb <;>
      (try (repeat' split at hdb)) <;> simp_all

def isSaveSigs : {β : Type} → Eff β → Prop
  | _, .saveSigs _ => True
  | _, _ => False

def isSaveProofs (rows : List PRow) : {β : Type} → Eff β → Prop
  | _, .saveProofs rs => rs = rows
  | _, _ => False

def NoWrites {α : Type} : Prog α → Prop
  | .ret _ => True
  | .eff e k => e.readOnly = true ∧ ∀ r, NoWrites (k r)

def AfterSave {α : Type} : Prog α → Prop
  | .ret _ => True
  | .eff e k => (e.readOnly = true ∧ ∀ r, AfterSave (k r)) ∨ (isSaveSigs e ∧ ∀ r, NoWrites (k r))

def SwapShape {α : Type} (rows : List PRow) : Prog α → Prop
  | .ret _ => True
  | .eff e k => (e.readOnly = true ∧ ∀ r, SwapShape rows (k r)) ∨
      (isSaveProofs rows e ∧ ∀ r, (savesOk rows e r → AfterSave (k r)) ∧ (¬ savesOk rows e r → NoWrites (k r)))

theorem noWrites_runN {α : Type} (p : Prog α) (n : Nat) (w : World) (h : NoWrites p) : (p.runN n w).1.db = w.db := by
  induction p generalizing n w with
  | ret a => cases n <;> rfl
  | eff e k ih =>
    cases n with
    | zero => rfl
    | succ n =>
      simp only [Prog.runN]
      rw [ih _ _ _ (h.2 _), exec_readOnly_db w e h.1]


theorem exec_saveProofs_cases (w : World) (rows : List PRow) :
    ((exec w (.saveProofs rows)).2 = .ok () ∧
       ∃ t, insertRows w.db.spent rows = some t ∧ (exec w (.saveProofs rows)).1.db = { w.db with spent := t }) ∨
    ((exec w (.saveProofs rows)).2 ≠ .ok () ∧ (exec w (.saveProofs rows)).1.db = w.db) := by
  unfold exec
  simp only [Eff.label]
  by_cases hf : (w.faultAt == some w.nDb) = true
  · right; simp [hf, Eff.faultValue]
  · simp only [hf, execDb]
    cases hi : insertRows w.db.spent rows with
    | some t => left; exact ⟨rfl, t, rfl, rfl⟩
    | none => right; simp

theorem exec_saveSigs_cases (w : World) (sigs : List BSig) :
    (exec w (.saveSigs sigs)).1.db = w.db ∨
    ∃ t2, insertSigs w.db.sigs sigs = some t2 ∧ (exec w (.saveSigs sigs)).1.db = { w.db with sigs := t2 } := by
  unfold exec
  simp only [Eff.label]
  by_cases hf : (w.faultAt == some w.nDb) = true
  · left; simp [hf]
  · simp only [hf, execDb]
    cases hi : insertSigs w.db.sigs sigs with
    | some t => right; exact ⟨t, rfl, rfl⟩
    | none => left; simp

theorem afterSave_runN {α : Type} (p : Prog α) (n : Nat) (w : World) (h : AfterSave p) :
    (p.runN n w).1.db = w.db ∨
    ∃ sigs t2, insertSigs w.db.sigs sigs = some t2 ∧ (p.runN n w).1.db = { w.db with sigs := t2 } := by
  induction p generalizing n w with
  | ret a => left; cases n <;> rfl
  | eff e k ih =>
    cases n with
    | zero => left; rfl
    | succ n =>
      simp only [Prog.runN]
      rcases h with ⟨hro, hk⟩ | ⟨hss, hk⟩
      · have hdb := exec_readOnly_db w e hro
        rcases ih _ n (exec w e).1 (hk _) with h1 | ⟨sigs, t2, h1, h2⟩
        · left; rw [h1, hdb]
        · right; rw [hdb] at h1 h2; exact ⟨sigs, t2, h1, h2⟩
      · cases e <;> simp only [isSaveSigs] at hss
        rename_i sigs
        rw [noWrites_runN _ _ _ (hk _)]
        rcases exec_saveSigs_cases w sigs with h1 | ⟨t2, h1, h2⟩
        · left; exact h1
        · right; exact ⟨sigs, t2, h1, h2⟩

/-- The states a program of swap shape can be in after any number of calls. -/
theorem swapShape_runN {α : Type} (rows : List PRow) (p : Prog α) (n : Nat) (w : World) (h : SwapShape rows p) :
    (p.runN n w).1.db = w.db ∨
    ∃ t, insertRows w.db.spent rows = some t ∧
      ((p.runN n w).1.db = { w.db with spent := t } ∨
       ∃ sigs t2, insertSigs w.db.sigs sigs = some t2 ∧ (p.runN n w).1.db = { w.db with spent := t, sigs := t2 }) := by
  induction p generalizing n w with
  | ret a => left; cases n <;> rfl
  | eff e k ih =>
    cases n with
    | zero => left; rfl
    | succ n =>
      simp only [Prog.runN]
      rcases h with ⟨hro, hk⟩ | ⟨hsp, hk⟩
      · have hdb := exec_readOnly_db w e hro
        rcases ih _ n (exec w e).1 (hk _) with h1 | ⟨t, h1, h2⟩
        · left; rw [h1, hdb]
        · right; rw [hdb] at h1 h2; exact ⟨t, h1, h2⟩
      · cases e <;> simp only [isSaveProofs] at hsp
        rename_i rs
        subst hsp
        rcases exec_saveProofs_cases w rs with ⟨hok, t, hins, hdb⟩ | ⟨hno, hdb⟩
        · right
          refine ⟨t, hins, ?_⟩
          have hs : savesOk rs (Eff.saveProofs rs) (exec w (Eff.saveProofs rs)).2 := ⟨rfl, hok⟩
          rcases afterSave_runN _ n (exec w (Eff.saveProofs rs)).1 ((hk _).1 hs) with h1 | ⟨sigs, t2, h1, h2⟩
          · left; rw [h1, hdb]
          · right; rw [hdb] at h1 h2; exact ⟨sigs, t2, h1, h2⟩
        · left
          have hs : ¬ savesOk rs (Eff.saveProofs rs) (exec w (Eff.saveProofs rs)).2 := fun hh => hno hh.2
          rw [noWrites_runN _ _ _ ((hk _).2 hs), hdb]


/-! ## The shape of the swap program -/

theorem NoWrites.bind {α β : Type} (p : Prog α) (f : α → Prog β) (hp : NoWrites p) (hf : ∀ a, NoWrites (f a)) :
    NoWrites (p >>= f) := by
  show NoWrites (Prog.bind p f)
  induction p with
  | ret a => exact hf a
  | eff e k ih => exact ⟨hp.1, fun r => ih r (hp.2 r)⟩

theorem SwapShape.bind {α β : Type} {rows : List PRow} (p : Prog α) (f : α → Prog β) (hp : NoWrites p)
    (hf : ∀ a, SwapShape rows (f a)) : SwapShape rows (p >>= f) := by
  show SwapShape rows (Prog.bind p f)
  induction p with
  | ret a => exact hf a
  | eff e k ih => exact Or.inl ⟨hp.1, fun r => ih r (hp.2 r)⟩

theorem NoWrites.pmBind {α β : Type} (x : PM α) (f : α → PM β) (hx : NoWrites x.run) (hf : ∀ a, NoWrites (f a).run) :
    NoWrites (x >>= f).run := by
  show NoWrites (x.run >>= ExceptT.bindCont f)
  apply NoWrites.bind _ _ hx
  intro r
  cases r with
  | ok a => exact hf a
  | error e => trivial

theorem SwapShape.pmBind {α β : Type} {rows : List PRow} (x : PM α) (f : α → PM β) (hx : NoWrites x.run)
    (hf : ∀ a, SwapShape rows (f a).run) : SwapShape rows (x >>= f).run := by
  show SwapShape rows (x.run >>= ExceptT.bindCont f)
  apply SwapShape.bind _ _ hx
  intro r
  cases r with
  | ok a => exact hf a
  | error e => trivial

theorem noWrites_failIf (c : Prop) [Decidable c] (e : E) : NoWrites (failIf c e).run := by
  unfold failIf; split <;> trivial
theorem noWrites_liftE {α : Type} (x : Except E α) : NoWrites (liftE x).run := by
  unfold liftE; split <;> trivial
theorem noWrites_failOpt (v : Option E) : NoWrites (failOpt v).run := by
  unfold failOpt; split <;> trivial
theorem noWrites_dbTry {β : Type} (e : Eff (DbRes β)) (h : e.readOnly = true) : NoWrites (dbTry e).run := by
  unfold dbTry eff
  refine ⟨h, fun r => ?_⟩
  cases r <;> trivial

theorem noWrites_verifyProofs (cx : Cx) (ps : List Proof) : NoWrites (verifyProofs cx ps).run := by
  unfold verifyProofs
  apply NoWrites.pmBind _ _ (noWrites_failIf _ _); intro _
  apply NoWrites.pmBind _ _ (noWrites_dbTry _ rfl); intro _
  apply NoWrites.pmBind _ _ (noWrites_failIf _ _); intro _
  apply NoWrites.pmBind _ _ (noWrites_dbTry _ rfl); intro _
  apply NoWrites.pmBind _ _ (noWrites_failIf _ _); intro _
  apply NoWrites.pmBind _ _ (noWrites_failIf _ _); intro _
  exact noWrites_liftE _

theorem swap_shape (cx : Cx) (ps : List Proof) (outs : List BMsg) (v : Option E) :
    SwapShape (ps.map Proof.row) (swap cx ps outs v).run := by
  unfold swap
  simp only []
  split
  · trivial
  · apply SwapShape.pmBind _ _ (noWrites_failIf _ _); intro _
    apply SwapShape.pmBind _ _ (noWrites_failIf _ _); intro _
    apply SwapShape.pmBind _ _ (noWrites_failIf _ _); intro _
    apply SwapShape.pmBind _ _ (noWrites_verifyProofs _ _); intro _
    apply SwapShape.pmBind _ _ (noWrites_dbTry _ rfl); intro _
    apply SwapShape.pmBind _ _ (noWrites_failIf _ _); intro _
    apply SwapShape.pmBind _ _ (noWrites_failOpt _); intro _
    apply SwapShape.pmBind _ _ (noWrites_liftE _); intro sigs
    show SwapShape _ ((dbTry (.saveProofs (ps.map Proof.row)) >>= fun _ => (dbTry (.saveSigs sigs) >>= fun _ => pure sigs)).run)
    unfold dbTry eff
    refine Or.inr ⟨rfl, fun r => ?_⟩
    cases r with
    | ok u =>
      refine ⟨fun _ => ?_, fun hn => absurd ⟨rfl, by cases u; rfl⟩ hn⟩
      refine Or.inr ⟨trivial, fun r2 => ?_⟩
      cases r2 <;> trivial
    | error e =>
      refine ⟨fun hs => ?_, fun _ => trivial⟩
      exact absurd hs.2 (by simp)

/-- Every state a killed or faulted swap can leave behind (any request, any world — armed fault or not —, any number
    `n` of calls performed before the kill). -/
theorem swap_crash_states (cx : Cx) (ps : List Proof) (outs : List BMsg) (v : Option E) (n : Nat) (w : World) :
    ((swap cx ps outs v).run.runN n w).1.db = w.db ∨
    ∃ t, insertRows w.db.spent (ps.map Proof.row) = some t ∧
      (((swap cx ps outs v).run.runN n w).1.db = { w.db with spent := t } ∨
       ∃ sigs t2, insertSigs w.db.sigs sigs = some t2 ∧
         ((swap cx ps outs v).run.runN n w).1.db = { w.db with spent := t, sigs := t2 }) :=
  swapShape_runN _ _ n w (swap_shape cx ps outs v)

end Gonuts.Model.Mint
