import Gonuts.Lemmas.WalletBooksRun
/-!
  Restore's batch loop (C19): what the stored counter is after the scan (`restore_counter`), and that the
  scan covers every signed output when no three consecutive batches below a signed one are empty
  (`restore_complete`'s core).  Pure statements about `scan`; `nonEmpty` is an arbitrary predicate on batches.
-/
namespace Gonuts.Model.WalletBooks

/-- Invariant of the scan (fixed code): the stored counter is the end of the last non-empty batch. -/
structure ScanInv (nonEmpty : Nat → Bool) (s : Scan) : Prop where
  stored_saved : s.stored = s.saved
  empty_le : s.empty ≤ s.batch
  /-- the last `empty` batches are empty -/
  tail : ∀ b, s.batch - s.empty ≤ b → b < s.batch → nonEmpty b = false
  /-- the batch before them is the last non-empty one (if there is any) and the counter is its end -/
  last : (s.saved = 0 ∧ ∀ b < s.batch, nonEmpty b = false) ∨
         (s.empty < s.batch ∧ nonEmpty (s.batch - s.empty - 1) = true ∧ s.saved = 100 * (s.batch - s.empty))
  /-- every non-empty batch visited so far lies below the stored counter -/
  below : ∀ b < s.batch, nonEmpty b = true → 100 * (b + 1) ≤ s.saved

theorem ScanInv.init (nonEmpty : Nat → Bool) : ScanInv nonEmpty {} :=
  ⟨rfl, Nat.le_refl _, fun b _ h => absurd h (Nat.not_lt_zero b), Or.inl ⟨rfl, fun b h => absurd h (Nat.not_lt_zero b)⟩,
   fun b h => absurd h (Nat.not_lt_zero b)⟩

theorem ScanInv.step {nonEmpty : Nat → Bool} {s : Scan} (h : ScanInv nonEmpty s) : ScanInv nonEmpty (scanStep nonEmpty true s) := by
  unfold scanStep
  simp only
  split
  · rename_i hne
    refine ⟨?_, Nat.zero_le _, ?_, ?_, ?_⟩
    · simp only [if_true]
      have := h.stored_saved
      have h2 : s.saved ≤ 100 * (s.batch + 1) := by
        rcases h.last with ⟨h0, _⟩ | ⟨_, _, h3⟩
        · omega
        · omega
      omega
    · intro b h1 h2; simp only at h1 h2; omega
    · right
      refine ⟨by simp only; omega, ?_, by simp only; omega⟩
      simp only
      have : s.batch + 1 - 0 - 1 = s.batch := by omega
      rw [this]; exact hne
    · intro b hb hnb
      simp only at hb ⊢
      by_cases hlt : b < s.batch
      · have := h.below b hlt hnb
        have h2 : s.saved ≤ 100 * (s.batch + 1) := by
          rcases h.last with ⟨h0, _⟩ | ⟨_, _, h3⟩
          · omega
          · omega
        omega
      · have : b = s.batch := by omega
        subst this; omega
  · rename_i hne
    have hne' : nonEmpty s.batch = false := by simpa using hne
    refine ⟨h.stored_saved, by simp only; have := h.empty_le; omega, ?_, ?_, ?_⟩
    · intro b h1 h2
      simp only at h1 h2
      by_cases hlt : b < s.batch
      · exact h.tail b (by omega) hlt
      · have : b = s.batch := by omega
        subst this; exact hne'
    · rcases h.last with ⟨h0, hall⟩ | ⟨h1, h2, h3⟩
      · left
        refine ⟨h0, ?_⟩
        intro b hb
        simp only at hb
        by_cases hlt : b < s.batch
        · exact hall b hlt
        · have : b = s.batch := by omega
          subst this; exact hne'
      · right
        simp only
        refine ⟨by omega, ?_, by omega⟩
        have : s.batch + 1 - (s.empty + 1) - 1 = s.batch - s.empty - 1 := by omega
        rw [this]; exact h2
    · intro b hb hnb
      simp only at hb ⊢
      by_cases hlt : b < s.batch
      · exact h.below b hlt hnb
      · have : b = s.batch := by omega
        subst this; rw [hne'] at hnb; cases hnb

theorem ScanInv.scan {nonEmpty : Nat → Bool} (fuel : Nat) {s : Scan} (h : ScanInv nonEmpty s) :
    ScanInv nonEmpty (scan nonEmpty true fuel s) := by
  induction fuel generalizing s with
  | zero => exact h
  | succ n ih =>
    unfold WalletBooks.scan
    split
    · exact ih h.step
    · exact h

/-- The scan stops only after three empty batches in a row, or when the fuel is used up. -/
theorem scan_stops (nonEmpty : Nat → Bool) (fixed : Bool) (fuel : Nat) (s : Scan) (hs : s.empty ≤ 3) :
    (scan nonEmpty fixed fuel s).empty = 3 ∨ (scan nonEmpty fixed fuel s).batch = s.batch + fuel := by
  induction fuel generalizing s with
  | zero => right; rfl
  | succ n ih =>
    unfold WalletBooks.scan
    split
    · rename_i hlt
      have hstep : (scanStep nonEmpty fixed s).batch = s.batch + 1 ∧ (scanStep nonEmpty fixed s).empty ≤ 3 := by
        unfold scanStep; simp only
        split
        · exact ⟨rfl, Nat.zero_le _⟩
        · exact ⟨rfl, Nat.succ_le_of_lt hlt⟩
      rcases ih _ hstep.2 with h | h
      · left; exact h
      · right; rw [h, hstep.1]; omega
    · left; omega

theorem scan_batch_mono (nonEmpty : Nat → Bool) (fixed : Bool) (fuel : Nat) (s : Scan) :
    s.batch ≤ (scan nonEmpty fixed fuel s).batch := by
  induction fuel generalizing s with
  | zero => exact Nat.le_refl _
  | succ n ih =>
    unfold WalletBooks.scan
    split
    · have hstep : (scanStep nonEmpty fixed s).batch = s.batch + 1 := by
        unfold scanStep; simp only; split <;> rfl
      have := ih (scanStep nonEmpty fixed s)
      omega
    · exact Nat.le_refl _

/-- No three consecutive empty batches below a non-empty one. -/
def NoGap3 (nonEmpty : Nat → Bool) : Prop :=
  ∀ b, nonEmpty b = true → ∀ j, j + 3 ≤ b → ¬ (nonEmpty j = false ∧ nonEmpty (j + 1) = false ∧ nonEmpty (j + 2) = false)

/-- `restore_counter` (fixed code), pure core: after the scan the stored counter is past every non-empty batch
    that was visited, and it is the end of a non-empty batch (so less than 100 past a signed counter). -/
theorem scan_counter (nonEmpty : Nat → Bool) (fuel : Nat) :
    let r := scan nonEmpty true fuel {}
    (∀ b < r.batch, nonEmpty b = true → 100 * (b + 1) ≤ r.stored) ∧
    (r.stored = 0 ∨ ∃ b < r.batch, nonEmpty b = true ∧ r.stored = 100 * (b + 1)) := by
  have h := (ScanInv.init nonEmpty).scan fuel
  refine ⟨?_, ?_⟩
  · intro b hb hne; rw [h.stored_saved]; exact h.below b hb hne
  · rcases h.last with ⟨h0, _⟩ | ⟨h1, h2, h3⟩
    · left; rw [h.stored_saved]; exact h0
    · right
      refine ⟨_, ?_, h2, ?_⟩
      · omega
      · rw [h.stored_saved, h3]; congr 1; omega

/-- `restore_complete`, pure core: if no three consecutive batches below a non-empty one are empty and the loop
    was not cut short, every non-empty batch was visited. -/
theorem scan_complete (nonEmpty : Nat → Bool) (hg : NoGap3 nonEmpty) (fuel : Nat) (b : Nat) (hb : nonEmpty b = true)
    (hfuel : b < fuel) : b < (scan nonEmpty true fuel {}).batch := by
  have h := (ScanInv.init nonEmpty).scan fuel
  rcases scan_stops nonEmpty true fuel {} (Nat.zero_le _) with h3 | hf
  · -- three empty batches end the scan: b cannot lie at or above them
    apply Classical.byContradiction
    intro hnb
    have hge : (scan nonEmpty true fuel {}).batch ≤ b := Nat.le_of_not_lt hnb
    have hel := h.empty_le
    rw [h3] at hel
    apply hg b hb ((scan nonEmpty true fuel {}).batch - 3) (by omega)
    refine ⟨h.tail _ (by rw [h3]; exact Nat.le_refl _) (by omega), h.tail _ (by rw [h3]; omega) (by omega), h.tail _ (by rw [h3]; omega) (by omega)⟩
  · rw [hf]; show b < 0 + fuel; omega

/-- The code before the fix: the stored counter after three non-empty batches is 600, not 300. -/
theorem scan_old_cumulative : (scan (fun b => decide (b < 3)) false 10 {}).stored = 600 := by decide

theorem scan_fixed_example : (scan (fun b => decide (b < 3)) true 10 {}).stored = 300 := by decide

end Gonuts.Model.WalletBooks
