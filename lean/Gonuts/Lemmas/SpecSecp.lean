import Gonuts.Spec.Secp256k1
import Gonuts.Lemmas.SpecBytes
/-! Lemmas about `Gonuts.Spec.Secp256k1`: parameters, `liftX`, serialisation and parsing (core Lean only). -/
namespace Gonuts.Spec.Secp256k1
open Point

theorem p_eq : p = 2 ^ 256 - 2 ^ 32 - 977 := by decide
theorem p_pos : 0 < p := by decide
theorem p_odd : p % 2 = 1 := by decide
/-- `p ≡ 3 (mod 4)`, which is why a square root is `c^((p+1)/4)`. -/
theorem p_mod4 : p % 4 = 3 := by decide
theorem n_lt_p : n < p := by decide
theorem p_lt : p < 2 ^ 256 := by decide
theorem n_lt : n < 2 ^ 256 := by decide

/-- SEC 2: the base point satisfies the curve equation. -/
theorem G_onCurve : OnCurve G := by decide

theorem powModAux_lt (fuel a e : Nat) : powModAux fuel a e < p := by
  induction fuel generalizing a e with
  | zero => exact Nat.mod_lt _ p_pos
  | succ k ih =>
    unfold powModAux
    by_cases h0 : e = 0
    · simp only [h0, if_true]; exact Nat.mod_lt _ p_pos
    · simp only [h0, if_false]
      by_cases h1 : e % 2 = 1
      · simp only [h1, if_true]; exact Nat.mod_lt _ p_pos
      · simp only [h1, if_false]; exact ih _ _

theorem powMod_lt (a e : Nat) : powMod a e < p := powModAux_lt _ a e

/-- `(p − y)² ≡ y² (mod p)` for `y ≤ p`. -/
theorem sq_neg_mod {y : Nat} (h : y ≤ p) : (p - y) * (p - y) % p = y * y % p := by
  obtain ⟨d, hd⟩ : ∃ d, p = y + d := ⟨p - y, by omega⟩
  have h1 : p - y = d := by omega
  rw [h1]
  -- d ≡ −y: d*d + y*d = p*d and y*y + y*d = y*p
  have e1 : d * d + y * d = p * d := by rw [hd, Nat.add_mul, Nat.add_comm]
  have e2 : y * y + y * d = y * p := by rw [hd, Nat.mul_add]
  have m1 : (d * d + y * d) % p = 0 := by rw [e1]; exact Nat.mul_mod_right p d
  have m2 : (y * y + y * d) % p = 0 := by rw [e2]; exact Nat.mul_mod_left y p
  have hp := p_pos
  -- both d*d and y*y are ≡ −(y*d)
  have : (d * d) % p = (y * y) % p := by
    have a1 := Nat.add_mod (d * d) (y * d) p
    have a2 := Nat.add_mod (y * y) (y * d) p
    rw [m1] at a1
    rw [m2] at a2
    have l1 : d * d % p < p := Nat.mod_lt _ hp
    have l2 : y * y % p < p := Nat.mod_lt _ hp
    have l3 : y * d % p < p := Nat.mod_lt _ hp
    have s1 : (d * d % p + y * d % p) % p = 0 := a1.symm
    have s2 : (y * y % p + y * d % p) % p = 0 := a2.symm
    have c1 : d * d % p + y * d % p = 0 ∨ d * d % p + y * d % p = p := by
      rcases Nat.lt_or_ge (d * d % p + y * d % p) p with hlt | hge
      · left; rw [Nat.mod_eq_of_lt hlt] at s1; exact s1
      · right
        have : (d * d % p + y * d % p - p) % p = 0 := by rw [← Nat.mod_eq_sub_mod hge]; exact s1
        rw [Nat.mod_eq_of_lt (by omega)] at this; omega
    have c2 : y * y % p + y * d % p = 0 ∨ y * y % p + y * d % p = p := by
      rcases Nat.lt_or_ge (y * y % p + y * d % p) p with hlt | hge
      · left; rw [Nat.mod_eq_of_lt hlt] at s2; exact s2
      · right
        have : (y * y % p + y * d % p - p) % p = 0 := by rw [← Nat.mod_eq_sub_mod hge]; exact s2
        rw [Nat.mod_eq_of_lt (by omega)] at this; omega
    omega
  exact this

/-- What `liftX` returns is an even `y < p` with `y² ≡ x³ + 7`, for an `x < p`. -/
theorem liftX_some {x y : Nat} (h : liftX x = some y) :
    x < p ∧ y < p ∧ y * y % p = (x * x * x + 7) % p ∧ y % 2 = 0 := by
  unfold liftX at h
  by_cases hx : x < p
  · simp only [hx, if_true] at h
    generalize hy0 : powMod ((x * x * x + 7) % p) ((p + 1) / 4) = y0 at h
    have hlt : y0 < p := hy0 ▸ powMod_lt _ _
    by_cases hsq : y0 * y0 % p = (x * x * x + 7) % p
    · simp only [hsq, if_true, Option.some.injEq] at h
      by_cases hev : y0 % 2 = 0
      · simp only [hev, if_true] at h
        subst h
        exact ⟨hx, hlt, hsq, hev⟩
      · simp only [hev, if_false] at h
        subst h
        have hodd := p_odd
        have hpos := p_pos
        refine ⟨hx, by omega, ?_, by omega⟩
        rw [sq_neg_mod (Nat.le_of_lt hlt)]
        exact hsq
    · simp [hsq] at h
  · simp [hx] at h

theorem liftX_none_of_ge {x : Nat} (h : p ≤ x) : liftX x = none := by
  unfold liftX
  simp [Nat.not_lt.mpr h]

/-- Parsing `02 ‖ h` for a 32-byte `h` is `liftX` of the big-endian value of `h`. -/
theorem parse_02 {h : Bytes} (hl : h.length = 32) :
    parse (0x02 :: h) = (liftX (beNat h)).map (fun y => aff (beNat h) y) := by
  simp [parse, hl]

/-- A successfully parsed octet string is a point of the curve (never the point at infinity). -/
theorem parse_onCurve {bs : Bytes} {P : Point} (h : parse bs = some P) : OnCurve P ∧ P ≠ inf := by
  unfold parse at h
  cases bs with
  | nil => simp at h
  | cons pre rest =>
    simp only at h
    by_cases h32 : rest.length = 32
    · simp only [h32, if_true] at h
      by_cases h2 : pre = 0x02
      · simp only [h2, if_true, Option.map_eq_some_iff] at h
        obtain ⟨y, hy, rfl⟩ := h
        obtain ⟨a, b, c, _⟩ := liftX_some hy
        exact ⟨⟨a, b, c⟩, by simp⟩
      · simp only [h2, if_false] at h
        by_cases h3 : pre = 0x03
        · simp only [h3, if_true] at h
          cases hl : liftX (beNat rest) with
          | none => simp [hl] at h
          | some y =>
            simp only [hl] at h
            by_cases hy0 : y = 0
            · simp [hy0] at h
            · simp only [hy0, if_false, Option.some.injEq] at h
              subst h
              obtain ⟨a, b, c, _⟩ := liftX_some hl
              refine ⟨⟨a, by omega, ?_⟩, by simp⟩
              rw [sq_neg_mod (Nat.le_of_lt b)]; exact c
        · simp [h3] at h
    · simp only [h32, if_false] at h
      by_cases h64 : rest.length = 64 ∧ pre = 0x04
      · simp only [h64, and_self, if_true] at h
        by_cases hc : OnCurve (aff (beNat (List.take 32 rest)) (beNat (List.drop 32 rest)))
        · simp only [hc, if_true, Option.some.injEq] at h
          subst h; exact ⟨hc, by simp⟩
        · simp [hc] at h
      · simp [h64] at h

theorem serCompressed_length {P : Point} {b : Bytes} (h : serCompressed P = some b) : b.length = 33 := by
  cases P with
  | inf => simp [serCompressed] at h
  | aff x y => simp only [serCompressed, Option.some.injEq] at h; subst h; simp

theorem serUncompressed_length {P : Point} {b : Bytes} (h : serUncompressed P = some b) : b.length = 65 := by
  cases P with
  | inf => simp [serUncompressed] at h
  | aff x y => simp only [serUncompressed, Option.some.injEq] at h; subst h; simp

/-- The compressed form of a point with even `y` starts with `02`. -/
theorem serCompressed_even {x y : Nat} (h : y % 2 = 0) : serCompressed (aff x y) = some (0x02 :: natToBE 32 x) := by
  simp [serCompressed, h]

/-- Compressed serialisation is injective on reduced points of the same parity class:
equal 33-byte strings mean equal `x` and equal parity of `y`. -/
theorem serCompressed_inj {x1 y1 x2 y2 : Nat} (h1 : x1 < p) (h2 : x2 < p)
    (h : serCompressed (aff x1 y1) = serCompressed (aff x2 y2)) : x1 = x2 ∧ y1 % 2 = y2 % 2 := by
  simp only [serCompressed, Option.some.injEq, List.cons.injEq] at h
  obtain ⟨hp, hx⟩ := h
  have hlt := p_lt
  have e : (2 : Nat) ^ 256 = 256 ^ 32 := by decide
  refine ⟨natToBE_injective (by omega) (by omega) hx, ?_⟩
  by_cases a : y1 % 2 = 0 <;> by_cases b : y2 % 2 = 0 <;> simp [a, b] at hp <;> omega

end Gonuts.Spec.Secp256k1
