import Gonuts.Lemmas.MintPure
import Gonuts.Lemmas.MintInv
import Gonuts.Lemmas.Amount
/-!
  Operation-level facts (fault-free, sequential): what each mint operation decides and writes, as
  equations / implications about `runM`.
-/
namespace Gonuts.Model.Mint

/-- Unfold a program into nested conditions on the tables. -/
macro "prog_simp" "[" ds:Lean.Parser.Tactic.simpLemma,* "]" : tactic => `(tactic|
  simp only [$ds,*, runM_failIf_bind, runM_dbTry_bind, runM_eff_bind, runM_liftE_bind, runM_failOpt_bind,
    runM_pure_bind, runM_throw_bind, runM_failIf, runM_liftE, runM_failOpt, runM_pure, runM_throw, runM_dbTry, runM_eff,
    stepDL, execDb, execLn])

/-! ## verifyProofs -/

/-- What `verifyProofs` decides, as a pure function of the tables. -/
def verifySpec (cx : Cx) (ps : List Proof) (db : DB) : Except E Unit :=
  if ps.isEmpty then .error eNoProofs
  else if !(db.pending.filter (fun r => yMatch (ps.map (fun p => YRef.known p.secret)) r.y)).isEmpty then .error eProofPending
  else if !(db.spent.filter (fun r => yMatch (ps.map (fun p => YRef.known p.secret)) r.y)).isEmpty then .error eProofUsed
  else if dupProofs ps then .error eDupProofs
  else gateAll cx.mem ps

theorem verifyProofs_runM (cx : Cx) (ps : List Proof) (s : DL) :
    runM (verifyProofs cx ps) s = (s, verifySpec cx ps s.1) := by
  obtain ⟨db, ln⟩ := s
  simp only [verifyProofs, verifySpec, runM_failIf_bind, runM_dbTry_bind, runM_liftE, stepDL, execDb]
  repeat' split
  all_goals first | rfl | simp_all

theorem yMatch_known (ps : List Proof) (y : Nat) :
    yMatch (ps.map (fun p => YRef.known p.secret)) y = true ↔ y ∈ ps.map (·.secret) := by
  unfold yMatch
  simp only [List.contains_eq_mem, List.mem_map, decide_eq_true_eq]
  constructor
  · rintro ⟨p, hp, h⟩; injection h with h; exact ⟨p, hp, h⟩
  · rintro ⟨p, hp, h⟩; exact ⟨p, hp, by rw [h]⟩

/-- `verifyProofs` accepts only if no input is locked or spent, … -/
theorem verifySpec_ok_fresh {cx : Cx} {ps : List Proof} {db : DB} (h : verifySpec cx ps db = .ok ()) :
    ps ≠ [] ∧ (∀ p ∈ ps, p.secret ∉ ysOf db.pending) ∧ (∀ p ∈ ps, p.secret ∉ ysOf db.spent) ∧
    dupProofs ps = false ∧ gateAll cx.mem ps = .ok () := by
  unfold verifySpec at h
  split at h; · cases h
  split at h; · cases h
  split at h; · cases h
  split at h; · cases h
  rename_i h1 h2 h3 h4
  refine ⟨by simpa using h1, ?_, ?_, by simpa using h4, h⟩
  · intro p hp hy
    simp only [ysOf, List.mem_map] at hy
    obtain ⟨r, hr, hry⟩ := hy
    apply h2
    simp only [Bool.not_eq_true', List.isEmpty_eq_false_iff_exists_mem]
    exact ⟨r, List.mem_filter.2 ⟨hr, (yMatch_known ps r.y).2 (hry ▸ List.mem_map.2 ⟨p, hp, rfl⟩)⟩⟩
  · intro p hp hy
    simp only [ysOf, List.mem_map] at hy
    obtain ⟨r, hr, hry⟩ := hy
    apply h3
    simp only [Bool.not_eq_true', List.isEmpty_eq_false_iff_exists_mem]
    exact ⟨r, List.mem_filter.2 ⟨hr, (yMatch_known ps r.y).2 (hry ▸ List.mem_map.2 ⟨p, hp, rfl⟩)⟩⟩

/-- … and it rejects as soon as one input is locked in a melt or already spent. -/
theorem verifySpec_rejects_used (cx : Cx) (ps : List Proof) (db : DB)
    (h : ∃ p ∈ ps, p.secret ∈ ysOf db.pending ∨ p.secret ∈ ysOf db.spent) :
    ∃ e, verifySpec cx ps db = .error e := by
  cases hv : verifySpec cx ps db with
  | error e => exact ⟨e, rfl⟩
  | ok u =>
    obtain ⟨_, h2, h3, _⟩ := verifySpec_ok_fresh hv
    obtain ⟨p, hp, hor⟩ := h
    rcases hor with h | h
    · exact absurd h (h2 p hp)
    · exact absurd h (h3 p hp)

/-! ## the gate -/

theorem gate_ok {mem : Mem} {p : Proof} (h : gate mem p = .ok ()) :
    p.long = false ∧ ∃ i, p.ks = .known i ∧ mem.keysets.any (·.idx == i) = true ∧ isKeyAmount p.amount = true ∧
      p.c = .sig i p.amount p.secret ∧ lockErr p.lock = none := by
  unfold gate at h
  repeat' split at h
  all_goals first | cases h | skip
  rename_i h1 _ i hk h2 h3 _ hl _ k a s hc heq
  simp only [Bool.and_eq_true, beq_iff_eq] at heq
  obtain ⟨⟨rfl, rfl⟩, rfl⟩ := heq
  exact ⟨by simpa using h1, k, hk, by simpa using h2, by simpa using h3, hc, hl⟩

theorem gateAll_ok {mem : Mem} {ps : List Proof} (h : gateAll mem ps = .ok ()) : ∀ p ∈ ps, gate mem p = .ok () := by
  induction ps with
  | nil => intro p hp; cases hp
  | cons x rest ih =>
    simp only [gateAll, bind, Except.bind] at h
    split at h
    · cases h
    · rename_i u hx
      intro p hp
      rcases List.mem_cons.1 hp with rfl | hp
      · cases u; exact hx
      · exact ih h p hp

end Gonuts.Model.Mint
