import Gonuts.Lemmas.MintPure
import Gonuts.Lemmas.MintInv
import Gonuts.Lemmas.Amount
/-!
  Operation-level facts (fault-free, sequential): what each mint operation decides and writes, as
  equations / implications about `runM`.
-/
namespace Gonuts.Model.Mint

/-- Unfold a program into nested conditions on the tables (effect-specific fused equations only, so
    that every storage write appears as an explicit table update). -/
macro "prog_simp" "[" ds:Lean.Parser.Tactic.simpLemma,* "]" loc:(Lean.Parser.Tactic.location)? : tactic => `(tactic|
  simp only [$ds,*, runM_failIf_bind, runM_saveProofs_bind, runM_saveProofs, runM_addPending_bind, runM_removePending_bind,
    runM_removePending, runM_saveSigs_bind, runM_updateMintQ_bind, runM_updateMintQ, runM_updateMeltQ_bind, runM_updateMeltQ,
    runM_saveMintQ_bind, runM_saveMeltQ_bind, runM_getPending_bind, runM_getProofsUsed_bind, runM_getPendingByQuote_bind,
    runM_getSigs_bind, runM_getIssued_bind, runM_getRedeemed_bind, runM_getMintQuote_bind, runM_getMintQuoteByHash_bind,
    runM_getMeltQuote_bind, runM_getMeltQuoteByReq_bind, runM_getSig_bind, runM_getSeed_bind, runM_effUpdateMintQ_bind,
    runM_effUpdateMeltQ_bind, runM_effRemovePending_bind,
    runM_lnFeeReserve_bind, runM_lnSendPayment_bind, runM_lnPayPartial_bind, runM_lnOutgoingStatus_bind,
    runM_lnInvoiceStatus_bind, runM_lnCreateInvoice_bind,
    runM_liftE_bind, runM_failOpt_bind, runM_pure_bind, runM_throw_bind, runM_failIf, runM_liftE, runM_failOpt,
    runM_pure, runM_throw] $[$loc]?)

/-! ## verifyProofs -/

/-- What `verifyProofs` decides, as a pure function of the tables. -/
def verifySpec (cx : Cx) (ps : List Proof) (db : DB) : Except E Unit :=
  if ps.isEmpty then .error eNoProofs
  else if !(db.pending.filter (fun r => yMatch (ps.map (fun p => YRef.known p.secret)) r.y)).isEmpty then .error eProofPending
  else if !(db.spent.filter (fun r => yMatch (ps.map (fun p => YRef.known p.secret)) r.y)).isEmpty then .error eProofUsed
  else if dupProofs ps then .error eDupProofs
  else gateAll cx.mem ps

theorem verifyProofs_runM (cx : Cx) (ps : List Proof) (s : DL) :
    runM (verifyProofs cx ps) s = (s, verifySpec cx ps s.1) := by
  obtain ⟨db, ln⟩ := s
  simp only [verifyProofs, verifySpec, runM_failIf_bind, runM_dbTry_bind, runM_liftE, stepDL, execDb]
  repeat' split
  all_goals first | rfl | simp_all

theorem runM_verifyProofs_bind {β : Type} (cx : Cx) (ps : List Proof) (f : Unit → PM β) (s : DL) :
    runM (verifyProofs cx ps >>= f) s =
      match verifySpec cx ps s.1 with
      | .ok _ => runM (f ()) s
      | .error e => (s, .error e) := by
  rw [runM_bind, verifyProofs_runM]
  cases verifySpec cx ps s.1 <;> rfl

theorem yMatch_known (ps : List Proof) (y : Nat) :
    yMatch (ps.map (fun p => YRef.known p.secret)) y = true ↔ y ∈ ps.map (·.secret) := by
  unfold yMatch
  simp only [List.contains_eq_mem, List.mem_map, decide_eq_true_eq]
  constructor
  · rintro ⟨p, hp, h⟩; injection h with h; exact ⟨p, hp, h⟩
  · rintro ⟨p, hp, h⟩; exact ⟨p, hp, by rw [h]⟩

/-- `verifyProofs` accepts only if no input is locked or spent, … -/
theorem verifySpec_ok_fresh {cx : Cx} {ps : List Proof} {db : DB} (h : verifySpec cx ps db = .ok ()) :
    ps ≠ [] ∧ (∀ p ∈ ps, p.secret ∉ ysOf db.pending) ∧ (∀ p ∈ ps, p.secret ∉ ysOf db.spent) ∧
    dupProofs ps = false ∧ gateAll cx.mem ps = .ok () := by
  unfold verifySpec at h
  split at h; · cases h
  split at h; · cases h
  split at h; · cases h
  split at h; · cases h
  rename_i h1 h2 h3 h4
  refine ⟨by simpa using h1, ?_, ?_, by simpa using h4, h⟩
  · intro p hp hy
    simp only [ysOf, List.mem_map] at hy
    obtain ⟨r, hr, hry⟩ := hy
    apply h2
    simp only [Bool.not_eq_true', List.isEmpty_eq_false_iff_exists_mem]
    exact ⟨r, List.mem_filter.2 ⟨hr, (yMatch_known ps r.y).2 (hry ▸ List.mem_map.2 ⟨p, hp, rfl⟩)⟩⟩
  · intro p hp hy
    simp only [ysOf, List.mem_map] at hy
    obtain ⟨r, hr, hry⟩ := hy
    apply h3
    simp only [Bool.not_eq_true', List.isEmpty_eq_false_iff_exists_mem]
    exact ⟨r, List.mem_filter.2 ⟨hr, (yMatch_known ps r.y).2 (hry ▸ List.mem_map.2 ⟨p, hp, rfl⟩)⟩⟩

/-- … and it rejects as soon as one input is locked in a melt or already spent. -/
theorem verifySpec_rejects_used (cx : Cx) (ps : List Proof) (db : DB)
    (h : ∃ p ∈ ps, p.secret ∈ ysOf db.pending ∨ p.secret ∈ ysOf db.spent) :
    ∃ e, verifySpec cx ps db = .error e := by
  cases hv : verifySpec cx ps db with
  | error e => exact ⟨e, rfl⟩
  | ok u =>
    obtain ⟨_, h2, h3, _⟩ := verifySpec_ok_fresh hv
    obtain ⟨p, hp, hor⟩ := h
    rcases hor with h | h
    · exact absurd h (h2 p hp)
    · exact absurd h (h3 p hp)

/-! ## the gate -/

theorem gate_ok {mem : Mem} {p : Proof} (h : gate mem p = .ok ()) :
    p.long = false ∧ ∃ i, p.ks = .known i ∧ mem.keysets.any (·.idx == i) = true ∧ isKeyAmount p.amount = true ∧
      p.c = .sig i p.amount p.secret ∧ lockErr p.lock = none := by
  unfold gate at h
  repeat' split at h
  all_goals first | cases h | skip
  rename_i h1 _ i hk h2 h3 _ hl _ k a s hc heq
  simp only [Bool.and_eq_true, beq_iff_eq] at heq
  obtain ⟨⟨rfl, rfl⟩, rfl⟩ := heq
  exact ⟨by simpa using h1, k, hk, by simpa using h2, by simpa using h3, hc, hl⟩

theorem gateAll_ok {mem : Mem} {ps : List Proof} (h : gateAll mem ps = .ok ()) : ∀ p ∈ ps, gate mem p = .ok () := by
  induction ps with
  | nil => intro p hp; cases hp
  | cons x rest ih =>
    simp only [gateAll, bind, Except.bind] at h
    split at h
    · cases h
    · rename_i u hx
      intro p hp
      rcases List.mem_cons.1 hp with rfl | hp
      · cases u; exact hx
      · exact ih h p hp

/-! ## inserts -/

theorem insertRows_some {t rows t' : List PRow} (h : insertRows t rows = some t') :
    t' = t ++ rows ∧ (rows.map (·.y)).Nodup ∧ (∀ r ∈ rows, r.y ∉ ysOf t) ∧ (∀ r ∈ rows, high r.amount = false) := by
  induction rows generalizing t with
  | nil => simp [insertRows] at h; subst h; simp
  | cons x rest ih =>
    unfold insertRows at h
    split at h; · cases h
    split at h; · cases h
    rename_i hh hany
    obtain ⟨h1, h2, h3, h4⟩ := ih h
    have hx : x.y ∉ ysOf t := by
      intro hy; apply hany
      simp only [ysOf, List.mem_map] at hy
      obtain ⟨r, hr, hry⟩ := hy
      simp only [List.any_eq_true]; exact ⟨r, hr, by simp [hry]⟩
    refine ⟨by simp [h1], ?_, ?_, ?_⟩
    · simp only [List.map_cons, List.nodup_cons]
      refine ⟨?_, h2⟩
      intro hm
      obtain ⟨r, hr, hry⟩ := List.mem_map.1 hm
      exact h3 r hr (by simp [ysOf, hry])
    · intro r hr
      rcases List.mem_cons.1 hr with rfl | hr
      · exact hx
      · intro hy; exact h3 r hr (by simp only [ysOf, List.map_append, List.mem_append] at *; exact Or.inl hy)
    · intro r hr
      rcases List.mem_cons.1 hr with rfl | hr
      · simpa using hh
      · exact h4 r hr

theorem insertRows_of {t rows : List PRow} (h2 : (rows.map (·.y)).Nodup) (h3 : ∀ r ∈ rows, r.y ∉ ysOf t)
    (h4 : ∀ r ∈ rows, high r.amount = false) : insertRows t rows = some (t ++ rows) := by
  induction rows generalizing t with
  | nil => simp [insertRows]
  | cons x rest ih =>
    unfold insertRows
    have hx := h4 x (List.mem_cons_self ..)
    simp only [hx, Bool.false_eq_true, if_false]
    have hany : ¬ (t.any (·.y == x.y)) = true := by
      intro ha
      simp only [List.any_eq_true, beq_iff_eq] at ha
      obtain ⟨r, hr, hry⟩ := ha
      exact h3 x (List.mem_cons_self ..) (by simp only [ysOf, List.mem_map]; exact ⟨r, hr, hry⟩)
    simp only [hany]
    simp only [List.map_cons, List.nodup_cons] at h2
    rw [ih h2.2 ?_ (fun r hr => h4 r (List.mem_cons_of_mem _ hr))]
    · simp
    · intro r hr hy
      simp only [ysOf, List.map_append, List.map_cons, List.map_nil, List.mem_append, List.mem_singleton] at hy
      rcases hy with hy | hy
      · exact h3 r (List.mem_cons_of_mem _ hr) hy
      · exact h2.1 (hy ▸ List.mem_map.2 ⟨r, hr, rfl⟩)

theorem insertSigs_of {t rows : List BSig} (h2 : (rows.map (·.b)).Nodup) (h3 : ∀ r ∈ rows, r.b ∉ t.map (·.b))
    (h4 : ∀ r ∈ rows, high r.amount = false) : insertSigs t rows = some (t ++ rows) := by
  induction rows generalizing t with
  | nil => simp [insertSigs]
  | cons x rest ih =>
    unfold insertSigs
    have hx := h4 x (List.mem_cons_self ..)
    simp only [hx, Bool.false_eq_true, if_false]
    have hany : ¬ (t.any (·.b == x.b)) = true := by
      intro ha
      simp only [List.any_eq_true, beq_iff_eq] at ha
      obtain ⟨r, hr, hry⟩ := ha
      exact h3 x (List.mem_cons_self ..) (by simp only [List.mem_map]; exact ⟨r, hr, hry⟩)
    simp only [hany]
    simp only [List.map_cons, List.nodup_cons] at h2
    rw [ih h2.2 ?_ (fun r hr => h4 r (List.mem_cons_of_mem _ hr))]
    · simp
    · intro r hr hy
      simp only [List.map_append, List.map_cons, List.map_nil, List.mem_append, List.mem_singleton] at hy
      rcases hy with hy | hy
      · exact h3 r (List.mem_cons_of_mem _ hr) hy
      · exact h2.1 (hy ▸ List.mem_map.2 ⟨r, hr, rfl⟩)

theorem insertSigs_some {t rows t' : List BSig} (h : insertSigs t rows = some t') : t' = t ++ rows := by
  induction rows generalizing t with
  | nil => simp [insertSigs] at h; subst h; simp
  | cons x rest ih =>
    unfold insertSigs at h
    split at h; · cases h
    split at h; · cases h
    rw [ih h]; simp

/-! ## outputs -/

theorem dupOutputs_false {outs : List BMsg} (h : dupOutputs outs = false) : (outs.map (·.b.sid)).Nodup := by
  induction outs with
  | nil => simp
  | cons m rest ih =>
    simp only [dupOutputs, Bool.or_eq_false_iff] at h
    simp only [List.map_cons, List.nodup_cons]
    refine ⟨?_, ih h.2⟩
    intro hm
    obtain ⟨x, hx, hxe⟩ := List.mem_map.1 hm
    have := h.1
    simp only [List.any_eq_false, beq_iff_eq] at this
    exact this x hx hxe

theorem isKeyAmount_not_high {a : UInt64} (h : isKeyAmount a = true) : high a = false := by
  unfold isKeyAmount at h
  unfold high
  simp only [Bool.and_eq_true, decide_eq_true_eq] at h
  have := h.2
  simp only [decide_eq_false_iff_not, ge_iff_le, UInt64.not_le]
  rw [UInt64.lt_iff_toNat_lt] at *
  have e1 : (0x1000000000000000 : UInt64).toNat = 0x1000000000000000 := by decide
  have e2 : (0x8000000000000000 : UInt64).toNat = 0x8000000000000000 := by decide
  omega

theorem signOne_ok {mem : Mem} {m : BMsg} {s : BSig} (h : signOne mem m = .ok s) :
    s.b = m.b.sid ∧ s.amount = m.amount ∧ s.ks = mem.active ∧ m.ks = .known mem.active ∧ isKeyAmount m.amount = true ∧
    m.b = .pt s.b := by
  unfold signOne at h
  repeat' split at h
  all_goals first | cases h | skip
  rename_i _ _ i hk hi ha _ b hb
  have hi' : i = mem.active := by simpa using hi
  subst hi'
  exact ⟨by simp [hb, BTerm.sid], rfl, rfl, hk, by simpa using ha, hb⟩

theorem signAll_ok {mem : Mem} {outs : List BMsg} {sigs : List BSig} (h : signAll mem outs = .ok sigs) :
    sigs.map (·.b) = outs.map (·.b.sid) ∧ sigs.map (·.amount) = outs.map (·.amount) ∧
    (∀ s ∈ sigs, s.ks = mem.active ∧ isKeyAmount s.amount = true) ∧ (∀ m ∈ outs, m.ks = .known mem.active) := by
  induction outs generalizing sigs with
  | nil => simp [signAll, pure, Except.pure] at h; subst h; simp
  | cons m rest ih =>
    simp only [signAll, bind, Except.bind, pure, Except.pure] at h
    split at h; · cases h
    rename_i s hs
    split at h; · cases h
    rename_i ss hss
    injection h with h; subst h
    obtain ⟨h1, h2, h3, h4, h5, _⟩ := signOne_ok hs
    obtain ⟨i1, i2, i3, i4⟩ := ih hss
    refine ⟨by simp [h1, i1], by simp [h2, i2], ?_, ?_⟩
    · intro x hx
      rcases List.mem_cons.1 hx with rfl | hx
      · exact ⟨h3, h2 ▸ h5⟩
      · exact i3 x hx
    · intro x hx
      rcases List.mem_cons.1 hx with rfl | hx
      · exact h4
      · exact i4 x hx

/-! ## Swap -/

theorem getSigs_empty {db : DB} {bs : List Nat}
    (h : ¬ (!(db.sigs.filter (fun x => bs.contains x.b)).isEmpty) = true) : ∀ b ∈ bs, b ∉ db.sigs.map (·.b) := by
  intro b hb hm
  apply h
  obtain ⟨x, hx, hxb⟩ := List.mem_map.1 hm
  simp only [Bool.not_eq_true', List.isEmpty_eq_false_iff_exists_mem]
  exact ⟨x, List.mem_filter.2 ⟨hx, by simp [hxb, hb]⟩⟩

/-- Facts about a swap that returned signatures. -/
structure SwapOk (cx : Cx) (ps : List Proof) (outs : List BMsg) (v : Option E) (s s' : DL) (sigs : List BSig) : Prop where
  ln : s'.2 = s.2
  db : s'.1 = { s.1 with spent := s.1.spent ++ ps.map Proof.row, sigs := s.1.sigs ++ sigs }
  verified : verifySpec cx ps s.1 = .ok ()
  signed : signAll cx.mem outs = .ok sigs
  distinct : (ps.map (·.secret)).Nodup
  noUnder : (underflowSub (amountWrap (ps.map (·.amount))) (transactionFees cx.mem ps)).2 = false
  balance : ∃ outTotal, amountChecked (outAmounts outs) = some outTotal ∧
    ¬ ((underflowSub (amountWrap (ps.map (·.amount))) (transactionFees cx.mem ps)).1 < outTotal)
  sigAll : proofsSigAll ps = true → v = none

theorem swap_cases (cx : Cx) (ps : List Proof) (outs : List BMsg) (v : Option E) (s s' : DL) (r : Except E (List BSig))
    (h : runM (swap cx ps outs v) s = (s', r)) :
    (∃ e, r = .error e ∧ s' = s) ∨ (∃ sigs, r = .ok sigs ∧ SwapOk cx ps outs v s s' sigs) := by
  obtain ⟨db, ln⟩ := s
  cases hac : amountChecked (outAmounts outs) with
  | none =>
    simp only [swap, hac] at h
    left; cases h; exact ⟨_, rfl, rfl⟩
  | some outTotal =>
    simp only [swap, hac] at h
    prog_simp [runM_verifyProofs_bind] at h
    split at h; · left; cases h; exact ⟨_, rfl, rfl⟩
    split at h; · left; cases h; exact ⟨_, rfl, rfl⟩
    split at h; · left; cases h; exact ⟨_, rfl, rfl⟩
    rename_i hdup hunder hbal
    split at h
    rotate_left; · left; cases h; exact ⟨_, rfl, rfl⟩
    rename_i u hver
    split at h; · left; cases h; exact ⟨_, rfl, rfl⟩
    rename_i hsigs
    split at h; · left; cases h; exact ⟨_, rfl, rfl⟩
    rename_i hv
    split at h
    rotate_left; · left; cases h; exact ⟨_, rfl, rfl⟩
    rename_i sigs hsign
    split at h
    rotate_left; · left; cases h; exact ⟨_, rfl, rfl⟩
    rename_i t hins
    obtain ⟨ht, hnd, _, _⟩ := insertRows_some hins
    obtain ⟨sb, sa, skey, _⟩ := signAll_ok hsign
    have hsig : insertSigs db.sigs sigs = some (db.sigs ++ sigs) := by
      apply insertSigs_of
      · rw [sb]; exact dupOutputs_false (by simpa using hdup)
      · intro x hx
        exact getSigs_empty hsigs x.b (by rw [← sb]; exact List.mem_map.2 ⟨x, hx, rfl⟩)
      · intro x hx; exact isKeyAmount_not_high (skey x hx).2
    rw [hsig] at h
    cases h
    right
    refine ⟨sigs, rfl, ⟨rfl, by simp [ht], by cases u; exact hver, hsign, ?_, by simpa using hunder, ⟨outTotal, hac, hbal⟩, ?_⟩⟩
    · simpa [Proof.row, List.map_map, Function.comp_def] using hnd
    · intro hsa; simpa [hsa] using hv

/-! ## Mint quotes and issuance -/

/-- `GetMintQuoteState` as a function of (tables, Lightning state). -/
def gmqsSpec (qid : Int) (s : DL) : DL × Except E MintQ :=
  match dbGetMintQ s.1 qid with
  | .error _ => (s, .error eQuoteNotExist)
  | .ok q =>
    if q.state == .unpaid then
      match (lnInvStatus s.2 q.hash).2 with
      | none => ((s.1, (lnInvStatus s.2 q.hash).1), .error (2, "ln"))
      | some settled =>
        if settled then
          if s.1.mintQ.any (·.id == q.id) then
            (({ s.1 with mintQ := updMintQ s.1.mintQ q.id .paid }, (lnInvStatus s.2 q.hash).1), .ok { q with state := .paid })
          else ((s.1, (lnInvStatus s.2 q.hash).1), .error (1, "db"))
        else ((s.1, (lnInvStatus s.2 q.hash).1), .ok q)
    else (s, .ok q)

theorem getMintQuoteState_runM (qid : Int) (s : DL) : runM (getMintQuoteState qid) s = gmqsSpec qid s := by
  obtain ⟨db, ln⟩ := s
  unfold gmqsSpec
  prog_simp [getMintQuoteState]
  cases hq : dbGetMintQ db qid with
  | error e => simp only []; rfl
  | ok q =>
    simp only []
    by_cases hu : (q.state == .unpaid) = true
    · simp only [hu, if_true]
      prog_simp [runM_pure]
      cases hst : (lnInvStatus ln q.hash).2 with
      | none => simp only []; rfl
      | some settled =>
        simp only []
        by_cases hs : settled = true
        · simp only [hs, if_true]
          prog_simp [runM_pure]
        · simp only [hs]; rfl
    · simp only [hu]; rfl


theorem any_updMintQ (qs : List MintQ) (id id' : Nat) (st : MQState) :
    (updMintQ qs id st).any (·.id == id') = qs.any (·.id == id') := by
  unfold updMintQ
  induction qs with
  | nil => rfl
  | cons q rest ih =>
    simp only [List.map_cons, List.any_cons, ih]
    congr 1
    split <;> rfl

/-- Facts about an issuance that succeeded (inner closure of `MintTokens`). -/
structure MintOk (cx : Cx) (q : MintQ) (outs : List BMsg) (sig : QSig) (s s' : DL) (sigs : List BSig) : Prop where
  ln : s'.2 = s.2
  db : s'.1 = { s.1 with mintQ := updMintQ (updMintQ s.1.mintQ q.id .pending) q.id .issued, sigs := s.1.sigs ++ sigs }
  exists_ : s.1.mintQ.any (·.id == q.id) = true
  signed : signAll cx.mem outs = .ok sigs
  amount : ∃ total, amountChecked (outAmounts outs) = some total ∧ ¬ total > q.amount
  nut20 : quoteSigOk q (outs.map (·.b.sid)) sig = true

theorem mintInner_cases (cx : Cx) (q : MintQ) (outs : List BMsg) (sig : QSig) (s s' : DL) (r : Except E (List BSig))
    (h : runM (mintInner cx q outs sig) s = (s', r)) :
    (∃ e, r = .error e ∧ (s' = s ∨ s' = ({ s.1 with mintQ := updMintQ s.1.mintQ q.id .pending }, s.2))) ∨
    (∃ sigs, r = .ok sigs ∧ MintOk cx q outs sig s s' sigs) := by
  obtain ⟨db, ln⟩ := s
  prog_simp [mintInner] at h
  split at h
  rotate_left; · left; cases h; exact ⟨_, rfl, Or.inl rfl⟩
  rename_i hex
  cases hac : amountChecked (outAmounts outs) with
  | none => simp only [hac] at h; left; cases h; exact ⟨_, rfl, Or.inr rfl⟩
  | some total =>
    simp only [hac] at h
    prog_simp [runM_pure] at h
    split at h; · left; cases h; exact ⟨_, rfl, Or.inr rfl⟩
    split at h; · left; cases h; exact ⟨_, rfl, Or.inr rfl⟩
    split at h; · left; cases h; exact ⟨_, rfl, Or.inr rfl⟩
    split at h; · left; cases h; exact ⟨_, rfl, Or.inr rfl⟩
    rename_i hdup hamt hsigs hnut
    split at h
    rotate_left; · left; cases h; exact ⟨_, rfl, Or.inr rfl⟩
    rename_i sigs hsign
    simp only [any_updMintQ, hex, if_true] at h
    obtain ⟨sb, sa, skey, _⟩ := signAll_ok hsign
    have hsig : insertSigs db.sigs sigs = some (db.sigs ++ sigs) := by
      apply insertSigs_of
      · rw [sb]; exact dupOutputs_false (by simpa using hdup)
      · intro x hx
        exact getSigs_empty hsigs x.b (by rw [← sb]; exact List.mem_map.2 ⟨x, hx, rfl⟩)
      · intro x hx; exact isKeyAmount_not_high (skey x hx).2
    rw [hsig] at h
    cases h
    right
    exact ⟨sigs, rfl, ⟨rfl, rfl, hex, hsign, ⟨total, hac, hamt⟩, by simpa using hnut⟩⟩


theorem runM_getMintQuoteState_bind {β : Type} (qid : Int) (f : MintQ → PM β) (s : DL) :
    runM (getMintQuoteState qid >>= f) s =
      match (gmqsSpec qid s).2 with
      | .ok q => runM (f q) (gmqsSpec qid s).1
      | .error e => ((gmqsSpec qid s).1, .error e) := by
  rw [runM_bind, getMintQuoteState_runM]
  generalize gmqsSpec qid s = x
  obtain ⟨s1, r⟩ := x
  cases r <;> rfl

theorem runM_liftrun_bind {α β : Type} (p : PM α) (f : Except E α → PM β) (s : DL) :
    runM ((ExceptT.lift (p.run) : PM (Except E α)) >>= f) s = runM (f (runM p s).2) (runM p s).1 := by
  rw [runM_bind, runM_lift_run]

theorem updMintQ_updMintQ (qs : List MintQ) (id : Nat) (a b : MQState) :
    updMintQ (updMintQ qs id a) id b = updMintQ qs id b := by
  unfold updMintQ
  simp only [List.map_map]
  congr 1
  funext q
  simp only [Function.comp]
  by_cases h : (q.id == id) = true <;> simp [h]

/-- Outcome of `MintTokens`, relative to the state after the leading `GetMintQuoteState`. -/
theorem mintTokens_cases (cx : Cx) (qid : Int) (outs : List BMsg) (sig : QSig) (s s' : DL) (r : Except E (List BSig))
    (h : runM (mintTokens cx qid outs sig) s = (s', r)) :
    (∃ e, (gmqsSpec qid s).2 = .error e ∧ r = .error e ∧ s' = (gmqsSpec qid s).1) ∨
    (∃ q, (gmqsSpec qid s).2 = .ok q ∧
      ((q.state = .unpaid ∧ r = .error eNotPaid ∧ s' = (gmqsSpec qid s).1) ∨
       (q.state = .issued ∧ r = .error eAlreadyIssued ∧ s' = (gmqsSpec qid s).1) ∨
       (q.state = .pending ∧ r = .error eQuotePending ∧ s' = (gmqsSpec qid s).1) ∨
       (q.state = .paid ∧
         ((∃ e, r = .error e ∧ s'.2 = (gmqsSpec qid s).1.2 ∧
             (s'.1 = (gmqsSpec qid s).1.1 ∨
              s'.1 = { (gmqsSpec qid s).1.1 with mintQ := updMintQ (gmqsSpec qid s).1.1.mintQ q.id .paid })) ∨
          (∃ sigs, r = .ok sigs ∧ MintOk cx q outs sig (gmqsSpec qid s).1 s' sigs))))) := by
  simp only [mintTokens] at h
  rw [runM_getMintQuoteState_bind] at h
  generalize hg : gmqsSpec qid s = g at h ⊢
  obtain ⟨s1, r1⟩ := g
  cases r1 with
  | error e => left; simp only [] at h; cases h; exact ⟨e, rfl, rfl, rfl⟩
  | ok q =>
    right
    refine ⟨q, rfl, ?_⟩
    simp only [] at h
    cases hst : q.state with
    | unpaid => simp only [hst] at h; left; cases h; exact ⟨rfl, rfl, rfl⟩
    | issued => simp only [hst] at h; right; left; cases h; exact ⟨rfl, rfl, rfl⟩
    | pending => simp only [hst] at h; right; right; left; cases h; exact ⟨rfl, rfl, rfl⟩
    | paid =>
      simp only [hst] at h
      right; right; right
      refine ⟨rfl, ?_⟩
      rw [runM_liftrun_bind] at h
      generalize hi : runM (mintInner cx q outs sig) s1 = inner at h
      obtain ⟨s2, r2⟩ := inner
      rcases mintInner_cases cx q outs sig s1 s2 r2 hi with ⟨e, rfl, hs2⟩ | ⟨sigs, rfl, hok⟩
      · left
        simp only [] at h
        obtain ⟨db2, ln2⟩ := s2
        prog_simp [runM_pure] at h
        split at h
        · cases h
          refine ⟨e, rfl, ?_, ?_⟩
          · rcases hs2 with h2 | h2 <;> (cases h2; rfl)
          · right
            rcases hs2 with h2 | h2
            · cases h2; rfl
            · cases h2; simp only [updMintQ_updMintQ]
        · cases h
          refine ⟨_, rfl, ?_, ?_⟩
          · rcases hs2 with h2 | h2 <;> (cases h2; rfl)
          · rename_i hany
            rcases hs2 with h2 | h2
            · cases h2; left; rfl
            · cases h2
              left
              simp only [any_updMintQ] at hany
              -- the quote row does not exist: updMintQ changes nothing
              have : updMintQ s1.1.mintQ q.id .pending = s1.1.mintQ := by
                unfold updMintQ
                conv => rhs; rw [← List.map_id s1.1.mintQ]
                apply List.map_congr_left
                intro x hx
                split
                · exfalso; apply hany
                  simp only [List.any_eq_true]
                  exact ⟨x, hx, ‹_›⟩
                · rfl
              simp only [this]
      · right
        simp only [] at h
        cases h
        exact ⟨sigs, rfl, hok⟩


/-! ## Melt -/

theorem any_updMeltQ (qs : List MeltQ) (id id' pre : Nat) (st : LQState) :
    (updMeltQ qs id pre st).any (·.id == id') = qs.any (·.id == id') := by
  unfold updMeltQ
  induction qs with
  | nil => rfl
  | cons q rest ih =>
    simp only [List.map_cons, List.any_cons, ih]
    congr 1
    split <;> rfl

/-- What a melt's Lightning answers decide (C05's table): first the pay call, then — only if that was neither
    success nor pending — the extra status lookup. -/
def meltOutcome (a0 a1 : LnAns) : LQState :=
  match a0 with
  | .succ => .paid
  | .pending => .pending
  | _ =>
    match a1 with
    | .notfound | .notfoundGrpc | .failed => .unpaid
    | .succ => .paid
    | _ => .pending

/-- Tables after the payment switch of a melt, starting from the locked state `dbL`. -/
def tailDb (dbL : DB) (q : MeltQ) (ps : List Proof) (pre : Nat) : LQState → DB
  | .pending => dbL
  | .paid => { dbL with pending := dbL.pending.filter (fun r => !(ps.map (·.secret)).contains r.y),
                        spent := dbL.spent ++ ps.map Proof.row,
                        meltQ := updMeltQ dbL.meltQ q.id pre .paid }
  | .unpaid => { dbL with pending := dbL.pending.filter (fun r => !(ps.map (·.secret)).contains r.y),
                          meltQ := updMeltQ dbL.meltQ q.id 0 .unpaid }

def tailQuote (q : MeltQ) : LQState → MeltQ
  | .pending => q
  | .paid => { q with state := .paid, preimage := q.hash + 1 }
  | .unpaid => { q with state := .unpaid }

theorem runM_settleProofs_bind {β : Type} (ps : List Proof) (f : Unit → PM β) (db : DB) (ln : LN) :
    runM (settleProofs ps >>= f) (db, ln) =
      match insertRows db.spent (ps.map Proof.row) with
      | some t => runM (f ()) ({ db with pending := db.pending.filter (fun r => !(ps.map (·.secret)).contains r.y), spent := t }, ln)
      | none => (({ db with pending := db.pending.filter (fun r => !(ps.map (·.secret)).contains r.y) }, ln), .error (1, "db")) := by
  rw [runM_bind]
  simp only [settleProofs]
  prog_simp [runM_pure]
  cases insertRows db.spent (ps.map Proof.row) <;> rfl

theorem meltAfterPay_runM (q : MeltQ) (ps : List Proof) (a0 : LnAns) (dbL : DB) (ln : LN)
    (hany : dbL.meltQ.any (·.id == q.id) = true)
    (hsp : insertRows dbL.spent (ps.map Proof.row) = some (dbL.spent ++ ps.map Proof.row)) :
    (runM (meltAfterPay q ps a0) (dbL, ln)).1.1 = tailDb dbL q ps (q.hash + 1) (meltOutcome a0 (popScript ln).2) ∧
    (runM (meltAfterPay q ps a0) (dbL, ln)).2 = .ok (tailQuote q (meltOutcome a0 (popScript ln).2)) := by
  cases a0 <;> simp only [meltAfterPay]
  case succ =>
    prog_simp [runM_settleProofs_bind]
    simp only [hsp, any_updMeltQ, hany, if_true]
    exact ⟨rfl, rfl⟩
  case pending => exact ⟨rfl, rfl⟩
  all_goals
    prog_simp [runM_pure]
    cases (popScript ln).2 <;> simp only [meltOutcome, tailDb, tailQuote]
    all_goals first
      | exact ⟨rfl, rfl⟩
      | (prog_simp [runM_settleProofs_bind]
         simp only [hsp, any_updMeltQ, hany, if_true]
         first | exact ⟨rfl, rfl⟩ | trivial | (constructor <;> first | rfl | trivial))

theorem meltInternal_runM (q : MeltQ) (ps : List Proof) (mq : MintQ) (dbL : DB) (ln : LN)
    (hany : dbL.meltQ.any (·.id == q.id) = true) (hmq : dbL.mintQ.any (·.id == mq.id) = true)
    (hsp : insertRows dbL.spent (ps.map Proof.row) = some (dbL.spent ++ ps.map Proof.row)) :
    ((lnInvStatus ln mq.hash).2 = none ∧
      (runM (meltInternal q ps mq) (dbL, ln)).1.1 = tailDb dbL q ps 0 .unpaid ∧
      (runM (meltInternal q ps mq) (dbL, ln)).2 = .error (2, "ln")) ∨
    ((lnInvStatus ln mq.hash).2 ≠ none ∧
      (runM (meltInternal q ps mq) (dbL, ln)).1.1 =
        { tailDb dbL q ps (mq.hash + 1) .paid with mintQ := updMintQ dbL.mintQ mq.id .paid } ∧
      (runM (meltInternal q ps mq) (dbL, ln)).2 = .ok { q with state := .paid, preimage := mq.hash + 1 }) := by
  simp only [meltInternal]
  prog_simp [runM_pure]
  cases hst : (lnInvStatus ln mq.hash).2 with
  | none =>
    left
    simp only [hany, if_true]
    prog_simp [runM_pure]
    simp only [hany, if_true]
    first | exact ⟨trivial, rfl, rfl⟩ | trivial | (refine ⟨?_, ?_, ?_⟩ <;> first | rfl | trivial)
  | some b =>
    right
    simp only []
    prog_simp [runM_pure]
    simp only [hany, any_updMeltQ, hmq, hsp, if_true, tailDb]
    first | exact ⟨by simp, rfl, rfl⟩ | trivial | (refine ⟨?_, ?_, ?_⟩ <;> first | rfl | trivial | simp)


theorem dbGetMeltQ_ok {db : DB} {qid : Int} {q : MeltQ} (h : dbGetMeltQ db qid = .ok q) :
    q ∈ db.meltQ ∧ (qid = (q.id : Int)) ∧ db.meltQ.any (·.id == q.id) = true := by
  unfold dbGetMeltQ at h
  split at h
  · rename_i q' hf
    injection h with h; subst h
    have hm := List.mem_of_find?_eq_some hf
    have hp := List.find?_some hf
    refine ⟨hm, by simpa [intIs] using hp, ?_⟩
    simp only [List.any_eq_true]; exact ⟨q', hm, by simp⟩
  · cases h

theorem gateAll_not_high {mem : Mem} {ps : List Proof} (h : gateAll mem ps = .ok ()) :
    ∀ r ∈ ps.map Proof.row, high r.amount = false := by
  intro r hr
  obtain ⟨p, hp, rfl⟩ := List.mem_map.1 hr
  obtain ⟨_, _, _, _, hk, _⟩ := gate_ok (gateAll_ok h p hp)
  exact isKeyAmount_not_high hk


def lockRows (q : MeltQ) (ps : List Proof) : List PRow := (ps.map Proof.row).map (fun r => { r with quote := q.id })

/-- Tables right after a melt locked its inputs and set the quote PENDING. -/
def lockedDb (db : DB) (q : MeltQ) (ps : List Proof) : DB :=
  { db with pending := db.pending ++ lockRows q ps, meltQ := updMeltQ db.meltQ q.id 0 .pending }

/-- First and second scripted Lightning answer. -/
def ans0 (ln : LN) : LnAns := (popScript ln).2
def ans1 (ln : LN) : LnAns := (popScript (popScript ln).1).2

theorem popScript_lnPop (ln : LN) (c : LnAns → LnCall) : (popScript (lnPop ln c)).2 = ans1 ln := by
  obtain ⟨inv, script, f1, f2, fp, calls⟩ := ln
  cases script with
  | nil => rfl
  | cons a rest => cases rest <;> rfl

theorem dbGetMintQByHash_upd (db : DB) (p : List PRow) (mq : List MeltQ) (h : Nat) :
    dbGetMintQByHash { db with pending := p, meltQ := mq } h = dbGetMintQByHash db h := rfl

theorem dbGetMintQByHash_ok {db : DB} {h : Nat} {q : MintQ} (hq : dbGetMintQByHash db h = .ok q) :
    q ∈ db.mintQ ∧ q.hash = h ∧ db.mintQ.any (·.id == q.id) = true := by
  unfold dbGetMintQByHash at hq
  split at hq
  · rename_i q' hf
    injection hq with hq; subst hq
    have hm := List.mem_of_find?_eq_some hf
    have hp := List.find?_some hf
    refine ⟨hm, by simpa using hp, ?_⟩
    simp only [List.any_eq_true]; exact ⟨q', hm, by simp⟩
  · cases hq

/-- A melt that passed validation. -/
structure MeltAccepted (cx : Cx) (qid : Int) (ps : List Proof) (s : DL) (q : MeltQ) : Prop where
  quote : dbGetMeltQ s.1 qid = .ok q
  unpaid : q.state = .unpaid
  verified : verifySpec cx ps s.1 = .ok ()
  enough : ¬ (amountWrap (ps.map (·.amount)) < q.amount + q.feeReserve + transactionFees cx.mem ps)
  noSigAll : proofsSigAll ps = false
  distinct : (ps.map (·.secret)).Nodup

theorem melt_cases (cx : Cx) (qid : Int) (ps : List Proof) (s s' : DL) (r : Except E MeltQ)
    (h : runM (meltTokens cx qid ps) s = (s', r)) :
    (∃ e, r = .error e ∧ s' = s) ∨
    (∃ q, MeltAccepted cx qid ps s q ∧
      ((-- paid over Lightning: the outcome is the table `meltOutcome` of the two scripted answers
        (∃ e, dbGetMintQByHash s.1 q.hash = .error e) ∧
        r = .ok (tailQuote { q with state := .pending } (meltOutcome (ans0 s.2) (ans1 s.2))) ∧
        s'.1 = tailDb (lockedDb s.1 q ps) { q with state := .pending } ps (q.hash + 1) (meltOutcome (ans0 s.2) (ans1 s.2))) ∨
       (-- settled internally against a mint quote of this mint
        ∃ mq, dbGetMintQByHash s.1 q.hash = .ok mq ∧
          ((r = .ok { q with state := .paid, preimage := mq.hash + 1 } ∧
            s'.1 = { tailDb (lockedDb s.1 q ps) { q with state := .pending } ps (mq.hash + 1) .paid with
                      mintQ := updMintQ s.1.mintQ mq.id .paid }) ∨
           (r = .error (2, "ln") ∧ s'.1 = tailDb (lockedDb s.1 q ps) { q with state := .pending } ps 0 .unpaid))))) := by
  obtain ⟨db, ln⟩ := s
  prog_simp [meltTokens] at h
  cases hq : dbGetMeltQ db qid with
  | error e => simp only [hq] at h; left; cases h; exact ⟨_, rfl, rfl⟩
  | ok q =>
    simp only [hq] at h
    prog_simp [runM_verifyProofs_bind] at h
    split at h; · left; cases h; exact ⟨_, rfl, rfl⟩
    split at h; · left; cases h; exact ⟨_, rfl, rfl⟩
    rename_i hnp hnpe
    split at h
    rotate_left; · left; cases h; exact ⟨_, rfl, rfl⟩
    rename_i u hver
    split at h; · left; cases h; exact ⟨_, rfl, rfl⟩
    split at h; · left; cases h; exact ⟨_, rfl, rfl⟩
    rename_i henough hsa
    split at h
    rotate_left; · left; cases h; exact ⟨_, rfl, rfl⟩
    rename_i t hlock
    obtain ⟨_, _, hany⟩ := dbGetMeltQ_ok hq
    obtain ⟨ht, hnd, hfreshP, _⟩ := insertRows_some hlock
    have hdist : (ps.map (·.secret)).Nodup := by
      simpa [Proof.row, List.map_map, Function.comp_def] using hnd
    have hun : q.state = .unpaid := by
      cases hs : q.state <;> simp_all
    obtain ⟨_, _, hfreshS, _, hgate⟩ := verifySpec_ok_fresh (by cases u; exact hver)
    have hacc : MeltAccepted cx qid ps (db, ln) q :=
      ⟨hq, hun, by cases u; exact hver, henough, by simpa using hsa, hdist⟩
    have hspent : insertRows db.spent (ps.map Proof.row) = some (db.spent ++ ps.map Proof.row) := by
      apply insertRows_of
      · simpa [Proof.row, List.map_map, Function.comp_def] using hdist
      · intro r hr
        obtain ⟨p, hp, rfl⟩ := List.mem_map.1 hr
        exact hfreshS p hp
      · exact gateAll_not_high hgate
    simp only [hany, if_true] at h
    have htl : t = (lockedDb db q ps).pending := by simp [lockedDb, lockRows, ht]
    right
    refine ⟨q, hacc, ?_⟩
    have hanyL : (lockedDb db q ps).meltQ.any (·.id == ({ q with state := LQState.pending } : MeltQ).id) = true := by
      simp only [lockedDb, any_updMeltQ]; exact hany
    cases hmq : dbGetMintQByHash db q.hash with
    | ok mq =>
      right
      refine ⟨mq, rfl, ?_⟩
      simp only [dbGetMintQByHash_upd, hmq] at h
      obtain ⟨_, _, hmqany⟩ := dbGetMintQByHash_ok hmq
      have := meltInternal_runM { q with state := .pending } ps mq (lockedDb db q ps) ln hanyL hmqany hspent
      rw [htl] at h
      change runM (meltInternal _ ps mq) (lockedDb db q ps, ln) = (s', r) at h
      rw [h] at this
      rcases this with ⟨_, h1, h2⟩ | ⟨_, h1, h2⟩
      · right; exact ⟨h2, h1⟩
      · left; exact ⟨h2, h1⟩
    | error e =>
      left
      refine ⟨⟨e, rfl⟩, ?_⟩
      simp only [dbGetMintQByHash_upd, hmq] at h
      rw [htl] at h
      split at h
      · prog_simp [runM_pure] at h
        have := meltAfterPay_runM { q with state := .pending } ps (popScript ln).2 (lockedDb db q ps)
          (lnPop ln (fun a => ⟨"PayPartialAmount", q.inv, if q.amountMsat == 0 then invMsat ln q.inv else q.amountMsat, q.feeReserve, a.str⟩)) hanyL hspent
        change runM (meltAfterPay _ ps _) (lockedDb db q ps, _) = (s', r) at h
        rw [h, popScript_lnPop] at this
        exact ⟨this.2, this.1⟩
      · prog_simp [runM_pure] at h
        have := meltAfterPay_runM { q with state := .pending } ps (popScript ln).2 (lockedDb db q ps)
          (lnPop ln (fun a => ⟨"SendPayment", q.inv, invMsat ln q.inv, q.feeReserve, a.str⟩)) hanyL hspent
        change runM (meltAfterPay _ ps _) (lockedDb db q ps, _) = (s', r) at h
        rw [h, popScript_lnPop] at this
        exact ⟨this.2, this.1⟩


/-! ## Polling a pending melt -/

/-- Inputs locked by melt quote `qid`, as rows for the spent table. -/
def quoteRows (db : DB) (qid : Nat) : List PRow := (db.pending.filter (·.quote == qid)).map (fun r => { r with quote := 0 })
def quoteYs (db : DB) (qid : Nat) : List Nat := (db.pending.filter (·.quote == qid)).map (·.y)

/-- Tables after a poll of a PENDING melt quote, by the answer's verdict. -/
def pollDb (db : DB) (q : MeltQ) : LQState → DB
  | .pending => db
  | .paid => { db with pending := db.pending.filter (fun r => !(quoteYs db q.id).contains r.y),
                       spent := db.spent ++ quoteRows db q.id,
                       meltQ := updMeltQ db.meltQ q.id (q.hash + 1) .paid }
  | .unpaid => { db with pending := db.pending.filter (fun r => !(quoteYs db q.id).contains r.y),
                         meltQ := updMeltQ db.meltQ q.id 0 .unpaid }

/-- What a status-lookup answer means for a pending melt when it is polled (C05): only a clean
    `succ` / `failed` is adopted; `pending` and every answer that carries an error (including not-found) change nothing. -/
def pollOutcome : LnAns → LQState
  | .succ => .paid
  | .failed => .unpaid
  | _ => .pending

/-- The parts of table well-formedness a poll relies on. -/
structure PendingWf (db : DB) : Prop where
  pendingNodup : (ysOf db.pending).Nodup
  disjoint : ∀ r ∈ db.pending, r.y ∉ ysOf db.spent
  pendingLow : ∀ r ∈ db.pending, high r.amount = false

theorem quoteRows_insert (db : DB) (qid : Nat) (h : PendingWf db) :
    insertRows db.spent (quoteRows db qid) = some (db.spent ++ quoteRows db qid) := by
  apply insertRows_of
  · have : (quoteRows db qid).map (·.y) = (db.pending.filter (·.quote == qid)).map (·.y) := by
      simp [quoteRows, List.map_map, Function.comp_def]
    rw [this]
    exact List.Nodup.sublist (List.Sublist.map _ List.filter_sublist) h.pendingNodup
  · intro r hr
    simp only [quoteRows, List.mem_map, List.mem_filter] at hr
    obtain ⟨r0, ⟨hr0, _⟩, rfl⟩ := hr
    exact h.disjoint r0 hr0
  · intro r hr
    simp only [quoteRows, List.mem_map, List.mem_filter] at hr
    obtain ⟨r0, ⟨hr0, _⟩, rfl⟩ := hr
    exact h.pendingLow r0 hr0

theorem runM_removePendingForQuote_bind {β : Type} (qid : Nat) (f : List PRow → PM β) (db : DB) (ln : LN) :
    runM (removePendingForQuote qid >>= f) (db, ln) =
      runM (f (quoteRows db qid)) ({ db with pending := db.pending.filter (fun r => !(quoteYs db qid).contains r.y) }, ln) := by
  rw [runM_bind]
  simp only [removePendingForQuote]
  prog_simp [runM_pure]
  rfl

theorem poll_cases (qid : Int) (s s' : DL) (r : Except E MeltQ) (hwf : PendingWf s.1)
    (h : runM (getMeltQuoteState qid) s = (s', r)) :
    (dbGetMeltQ s.1 qid = .error .notFound ∧ r = .error eQuoteNotExist ∧ s' = s) ∨
    (∃ q, dbGetMeltQ s.1 qid = .ok q ∧
      ((q.state ≠ .pending ∧ r = .ok q ∧ s' = s) ∨
       (q.state = .pending ∧
         r = .ok (tailQuote q (pollOutcome (ans0 s.2))) ∧
         s'.1 = pollDb s.1 q (pollOutcome (ans0 s.2))))) := by
  obtain ⟨db, ln⟩ := s
  prog_simp [getMeltQuoteState] at h
  cases hq : dbGetMeltQ db qid with
  | error e =>
    simp only [hq] at h; left; cases h
    refine ⟨?_, rfl, rfl⟩
    unfold dbGetMeltQ at hq; split at hq <;> cases hq; rfl
  | ok q =>
    right
    refine ⟨q, rfl, ?_⟩
    simp only [hq] at h
    obtain ⟨_, _, hany⟩ := dbGetMeltQ_ok hq
    by_cases hp : q.state = .pending
    · right
      refine ⟨hp, ?_⟩
      have hne : (q.state != LQState.pending) = false := by simp [hp]
      simp only [hne, Bool.false_eq_true, if_false] at h
      prog_simp [runM_pure] at h
      have hins := quoteRows_insert db q.id hwf
      cases ha : (popScript ln).2 <;> simp only [ha, ansHasErr, Bool.false_eq_true, if_false, if_true] at h
      all_goals simp only [ans0, ha, pollOutcome, tailQuote, pollDb]
      case succ =>
        prog_simp [runM_removePendingForQuote_bind] at h
        simp only [hins, any_updMeltQ, hany, if_true] at h
        cases h
        exact ⟨rfl, rfl⟩
      case failed =>
        prog_simp [runM_removePendingForQuote_bind] at h
        simp only [hany, if_true] at h
        cases h
        exact ⟨rfl, rfl⟩
      all_goals (cases h; exact ⟨rfl, rfl⟩)
    · left
      have hne : (q.state != LQState.pending) = true := by simp [hp]
      simp only [hne, if_true] at h
      cases h
      exact ⟨hp, rfl, rfl⟩


/-! ## Restore and state check -/

theorem restore_runM (bs : List Nat) (s : DL) :
    runM (restoreSigs bs) s = (s, .ok (bs.filterMap (fun b => s.1.sigs.find? (·.b == b)))) := by
  obtain ⟨db, ln⟩ := s
  induction bs with
  | nil => rfl
  | cons b rest ih =>
    simp only [restoreSigs]
    prog_simp [runM_pure]
    unfold dbGetSig
    cases hf : db.sigs.find? (·.b == b) with
    | none => simp only [List.filterMap_cons, hf]; exact ih
    | some sg =>
      simp only [List.filterMap_cons, hf]
      rw [runM_bind, ih]
      rfl

/-- `ProofsStateCheck` answers from the tables as they are after re-polling the pending melts involved. -/
theorem checkstate_runM (ys : List YRef) (s : DL) :
    runM (proofsStateCheck ys) s =
      match runM (pollAll (dedupNat ((s.1.pending.filter (fun r => yMatch ys r.y)).map (·.quote))).reverse) s with
      | (s1, .ok _) =>
        (s1, .ok (ys.map (stateOf (s1.1.spent.filter (fun r => yMatch ys r.y)) (s1.1.pending.filter (fun r => yMatch ys r.y)))))
      | (s1, .error e) => (s1, .error e) := by
  obtain ⟨db, ln⟩ := s
  simp only [proofsStateCheck]
  prog_simp [runM_pure]
  rw [runM_bind]
  generalize runM (pollAll _) (db, ln) = x
  obtain ⟨⟨db1, ln1⟩, r1⟩ := x
  cases r1 with
  | error e => rfl
  | ok u =>
    simp only []
    prog_simp [runM_pure]

theorem find_filter_yMatch (t : List PRow) (ys : List YRef) (y : Nat) (h : YRef.known y ∈ ys) :
    (t.filter (fun r => yMatch ys r.y)).find? (·.y == y) = t.find? (·.y == y) := by
  induction t with
  | nil => rfl
  | cons r rest ih =>
    simp only [List.filter_cons]
    by_cases hy : r.y = y
    · subst hy
      have : yMatch ys r.y = true := by
        unfold yMatch; simp [h]
      simp [this]
    · by_cases hm : yMatch ys r.y = true
      · simp [hm, hy, ih]
      · simp [hm, hy, ih]

/-- The answer for each `Y` is decided by the whole tables (the IN-list filter loses nothing). -/
theorem stateOf_filter (used pending : List PRow) (ys : List YRef) (y : YRef) (h : y ∈ ys) :
    stateOf (used.filter (fun r => yMatch ys r.y)) (pending.filter (fun r => yMatch ys r.y)) y = stateOf used pending y := by
  cases y with
  | unk t => rfl
  | known y =>
    simp only [stateOf, find_filter_yMatch _ ys y h]


end Gonuts.Model.Mint
