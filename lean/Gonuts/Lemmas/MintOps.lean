import Gonuts.Lemmas.MintPure
import Gonuts.Lemmas.MintInv
import Gonuts.Lemmas.Amount
/-!
  Operation-level facts (fault-free, sequential): what each mint operation decides and writes, as
  equations / implications about `runM`.
-/
namespace Gonuts.Model.Mint

/-- Unfold a program into nested conditions on the tables (effect-specific fused equations only, so
    that every storage write appears as an explicit table update). -/
macro "prog_simp" "[" ds:Lean.Parser.Tactic.simpLemma,* "]" loc:(Lean.Parser.Tactic.location)? : tactic => `(tactic|
  simp only [$ds,*, runM_failIf_bind, runM_saveProofs_bind, runM_saveProofs, runM_addPending_bind, runM_removePending_bind,
    runM_removePending, runM_saveSigs_bind, runM_updateMintQ_bind, runM_updateMintQ, runM_updateMeltQ_bind, runM_updateMeltQ,
    runM_saveMintQ_bind, runM_saveMeltQ_bind, runM_getPending_bind, runM_getProofsUsed_bind, runM_getPendingByQuote_bind,
    runM_getSigs_bind, runM_getIssued_bind, runM_getRedeemed_bind, runM_getMintQuote_bind, runM_getMintQuoteByHash_bind,
    runM_getMeltQuote_bind, runM_getMeltQuoteByReq_bind, runM_getSig_bind, runM_getSeed_bind, runM_effUpdateMintQ_bind,
    runM_lnFeeReserve_bind, runM_lnSendPayment_bind, runM_lnPayPartial_bind, runM_lnOutgoingStatus_bind,
    runM_lnInvoiceStatus_bind, runM_lnCreateInvoice_bind,
    runM_liftE_bind, runM_failOpt_bind, runM_pure_bind, runM_throw_bind, runM_failIf, runM_liftE, runM_failOpt,
    runM_pure, runM_throw] $[$loc]?)

/-! ## verifyProofs -/

/-- What `verifyProofs` decides, as a pure function of the tables. -/
def verifySpec (cx : Cx) (ps : List Proof) (db : DB) : Except E Unit :=
  if ps.isEmpty then .error eNoProofs
  else if !(db.pending.filter (fun r => yMatch (ps.map (fun p => YRef.known p.secret)) r.y)).isEmpty then .error eProofPending
  else if !(db.spent.filter (fun r => yMatch (ps.map (fun p => YRef.known p.secret)) r.y)).isEmpty then .error eProofUsed
  else if dupProofs ps then .error eDupProofs
  else gateAll cx.mem ps

theorem verifyProofs_runM (cx : Cx) (ps : List Proof) (s : DL) :
    runM (verifyProofs cx ps) s = (s, verifySpec cx ps s.1) := by
  obtain ⟨db, ln⟩ := s
  simp only [verifyProofs, verifySpec, runM_failIf_bind, runM_dbTry_bind, runM_liftE, stepDL, execDb]
  repeat' split
  all_goals first | rfl | simp_all

theorem runM_verifyProofs_bind {β : Type} (cx : Cx) (ps : List Proof) (f : Unit → PM β) (s : DL) :
    runM (verifyProofs cx ps >>= f) s =
      match verifySpec cx ps s.1 with
      | .ok _ => runM (f ()) s
      | .error e => (s, .error e) := by
  rw [runM_bind, verifyProofs_runM]
  cases verifySpec cx ps s.1 <;> rfl

theorem yMatch_known (ps : List Proof) (y : Nat) :
    yMatch (ps.map (fun p => YRef.known p.secret)) y = true ↔ y ∈ ps.map (·.secret) := by
  unfold yMatch
  simp only [List.contains_eq_mem, List.mem_map, decide_eq_true_eq]
  constructor
  · rintro ⟨p, hp, h⟩; injection h with h; exact ⟨p, hp, h⟩
  · rintro ⟨p, hp, h⟩; exact ⟨p, hp, by rw [h]⟩

/-- `verifyProofs` accepts only if no input is locked or spent, … -/
theorem verifySpec_ok_fresh {cx : Cx} {ps : List Proof} {db : DB} (h : verifySpec cx ps db = .ok ()) :
    ps ≠ [] ∧ (∀ p ∈ ps, p.secret ∉ ysOf db.pending) ∧ (∀ p ∈ ps, p.secret ∉ ysOf db.spent) ∧
    dupProofs ps = false ∧ gateAll cx.mem ps = .ok () := by
  unfold verifySpec at h
  split at h; · cases h
  split at h; · cases h
  split at h; · cases h
  split at h; · cases h
  rename_i h1 h2 h3 h4
  refine ⟨by simpa using h1, ?_, ?_, by simpa using h4, h⟩
  · intro p hp hy
    simp only [ysOf, List.mem_map] at hy
    obtain ⟨r, hr, hry⟩ := hy
    apply h2
    simp only [Bool.not_eq_true', List.isEmpty_eq_false_iff_exists_mem]
    exact ⟨r, List.mem_filter.2 ⟨hr, (yMatch_known ps r.y).2 (hry ▸ List.mem_map.2 ⟨p, hp, rfl⟩)⟩⟩
  · intro p hp hy
    simp only [ysOf, List.mem_map] at hy
    obtain ⟨r, hr, hry⟩ := hy
    apply h3
    simp only [Bool.not_eq_true', List.isEmpty_eq_false_iff_exists_mem]
    exact ⟨r, List.mem_filter.2 ⟨hr, (yMatch_known ps r.y).2 (hry ▸ List.mem_map.2 ⟨p, hp, rfl⟩)⟩⟩

/-- … and it rejects as soon as one input is locked in a melt or already spent. -/
theorem verifySpec_rejects_used (cx : Cx) (ps : List Proof) (db : DB)
    (h : ∃ p ∈ ps, p.secret ∈ ysOf db.pending ∨ p.secret ∈ ysOf db.spent) :
    ∃ e, verifySpec cx ps db = .error e := by
  cases hv : verifySpec cx ps db with
  | error e => exact ⟨e, rfl⟩
  | ok u =>
    obtain ⟨_, h2, h3, _⟩ := verifySpec_ok_fresh hv
    obtain ⟨p, hp, hor⟩ := h
    rcases hor with h | h
    · exact absurd h (h2 p hp)
    · exact absurd h (h3 p hp)

/-! ## the gate -/

theorem gate_ok {mem : Mem} {p : Proof} (h : gate mem p = .ok ()) :
    p.long = false ∧ ∃ i, p.ks = .known i ∧ mem.keysets.any (·.idx == i) = true ∧ isKeyAmount p.amount = true ∧
      p.c = .sig i p.amount p.secret ∧ lockErr p.lock = none := by
  unfold gate at h
  repeat' split at h
  all_goals first | cases h | skip
  rename_i h1 _ i hk h2 h3 _ hl _ k a s hc heq
  simp only [Bool.and_eq_true, beq_iff_eq] at heq
  obtain ⟨⟨rfl, rfl⟩, rfl⟩ := heq
  exact ⟨by simpa using h1, k, hk, by simpa using h2, by simpa using h3, hc, hl⟩

theorem gateAll_ok {mem : Mem} {ps : List Proof} (h : gateAll mem ps = .ok ()) : ∀ p ∈ ps, gate mem p = .ok () := by
  induction ps with
  | nil => intro p hp; cases hp
  | cons x rest ih =>
    simp only [gateAll, bind, Except.bind] at h
    split at h
    · cases h
    · rename_i u hx
      intro p hp
      rcases List.mem_cons.1 hp with rfl | hp
      · cases u; exact hx
      · exact ih h p hp

/-! ## inserts -/

theorem insertRows_some {t rows t' : List PRow} (h : insertRows t rows = some t') :
    t' = t ++ rows ∧ (rows.map (·.y)).Nodup ∧ (∀ r ∈ rows, r.y ∉ ysOf t) ∧ (∀ r ∈ rows, high r.amount = false) := by
  induction rows generalizing t with
  | nil => simp [insertRows] at h; subst h; simp
  | cons x rest ih =>
    unfold insertRows at h
    split at h; · cases h
    split at h; · cases h
    rename_i hh hany
    obtain ⟨h1, h2, h3, h4⟩ := ih h
    have hx : x.y ∉ ysOf t := by
      intro hy; apply hany
      simp only [ysOf, List.mem_map] at hy
      obtain ⟨r, hr, hry⟩ := hy
      simp only [List.any_eq_true]; exact ⟨r, hr, by simp [hry]⟩
    refine ⟨by simp [h1], ?_, ?_, ?_⟩
    · simp only [List.map_cons, List.nodup_cons]
      refine ⟨?_, h2⟩
      intro hm
      obtain ⟨r, hr, hry⟩ := List.mem_map.1 hm
      exact h3 r hr (by simp [ysOf, hry])
    · intro r hr
      rcases List.mem_cons.1 hr with rfl | hr
      · exact hx
      · intro hy; exact h3 r hr (by simp only [ysOf, List.map_append, List.mem_append] at *; exact Or.inl hy)
    · intro r hr
      rcases List.mem_cons.1 hr with rfl | hr
      · simpa using hh
      · exact h4 r hr

theorem insertRows_of {t rows : List PRow} (h2 : (rows.map (·.y)).Nodup) (h3 : ∀ r ∈ rows, r.y ∉ ysOf t)
    (h4 : ∀ r ∈ rows, high r.amount = false) : insertRows t rows = some (t ++ rows) := by
  induction rows generalizing t with
  | nil => simp [insertRows]
  | cons x rest ih =>
    unfold insertRows
    have hx := h4 x (List.mem_cons_self ..)
    simp only [hx, Bool.false_eq_true, if_false]
    have hany : ¬ (t.any (·.y == x.y)) = true := by
      intro ha
      simp only [List.any_eq_true, beq_iff_eq] at ha
      obtain ⟨r, hr, hry⟩ := ha
      exact h3 x (List.mem_cons_self ..) (by simp only [ysOf, List.mem_map]; exact ⟨r, hr, hry⟩)
    simp only [hany]
    simp only [List.map_cons, List.nodup_cons] at h2
    rw [ih h2.2 ?_ (fun r hr => h4 r (List.mem_cons_of_mem _ hr))]
    · simp
    · intro r hr hy
      simp only [ysOf, List.map_append, List.map_cons, List.map_nil, List.mem_append, List.mem_singleton] at hy
      rcases hy with hy | hy
      · exact h3 r (List.mem_cons_of_mem _ hr) hy
      · exact h2.1 (hy ▸ List.mem_map.2 ⟨r, hr, rfl⟩)

theorem insertSigs_of {t rows : List BSig} (h2 : (rows.map (·.b)).Nodup) (h3 : ∀ r ∈ rows, r.b ∉ t.map (·.b))
    (h4 : ∀ r ∈ rows, high r.amount = false) : insertSigs t rows = some (t ++ rows) := by
  induction rows generalizing t with
  | nil => simp [insertSigs]
  | cons x rest ih =>
    unfold insertSigs
    have hx := h4 x (List.mem_cons_self ..)
    simp only [hx, Bool.false_eq_true, if_false]
    have hany : ¬ (t.any (·.b == x.b)) = true := by
      intro ha
      simp only [List.any_eq_true, beq_iff_eq] at ha
      obtain ⟨r, hr, hry⟩ := ha
      exact h3 x (List.mem_cons_self ..) (by simp only [List.mem_map]; exact ⟨r, hr, hry⟩)
    simp only [hany]
    simp only [List.map_cons, List.nodup_cons] at h2
    rw [ih h2.2 ?_ (fun r hr => h4 r (List.mem_cons_of_mem _ hr))]
    · simp
    · intro r hr hy
      simp only [List.map_append, List.map_cons, List.map_nil, List.mem_append, List.mem_singleton] at hy
      rcases hy with hy | hy
      · exact h3 r (List.mem_cons_of_mem _ hr) hy
      · exact h2.1 (hy ▸ List.mem_map.2 ⟨r, hr, rfl⟩)

theorem insertSigs_some {t rows t' : List BSig} (h : insertSigs t rows = some t') : t' = t ++ rows := by
  induction rows generalizing t with
  | nil => simp [insertSigs] at h; subst h; simp
  | cons x rest ih =>
    unfold insertSigs at h
    split at h; · cases h
    split at h; · cases h
    rw [ih h]; simp

/-! ## outputs -/

theorem dupOutputs_false {outs : List BMsg} (h : dupOutputs outs = false) : (outs.map (·.b.sid)).Nodup := by
  induction outs with
  | nil => simp
  | cons m rest ih =>
    simp only [dupOutputs, Bool.or_eq_false_iff] at h
    simp only [List.map_cons, List.nodup_cons]
    refine ⟨?_, ih h.2⟩
    intro hm
    obtain ⟨x, hx, hxe⟩ := List.mem_map.1 hm
    have := h.1
    simp only [List.any_eq_false, beq_iff_eq] at this
    exact this x hx hxe

theorem isKeyAmount_not_high {a : UInt64} (h : isKeyAmount a = true) : high a = false := by
  unfold isKeyAmount at h
  unfold high
  simp only [Bool.and_eq_true, decide_eq_true_eq] at h
  have := h.2
  simp only [decide_eq_false_iff_not, ge_iff_le, UInt64.not_le]
  rw [UInt64.lt_iff_toNat_lt] at *
  have e1 : (0x1000000000000000 : UInt64).toNat = 0x1000000000000000 := by decide
  have e2 : (0x8000000000000000 : UInt64).toNat = 0x8000000000000000 := by decide
  omega

theorem signOne_ok {mem : Mem} {m : BMsg} {s : BSig} (h : signOne mem m = .ok s) :
    s.b = m.b.sid ∧ s.amount = m.amount ∧ s.ks = mem.active ∧ m.ks = .known mem.active ∧ isKeyAmount m.amount = true ∧
    m.b = .pt s.b := by
  unfold signOne at h
  repeat' split at h
  all_goals first | cases h | skip
  rename_i _ _ i hk hi ha _ b hb
  have hi' : i = mem.active := by simpa using hi
  subst hi'
  exact ⟨by simp [hb, BTerm.sid], rfl, rfl, hk, by simpa using ha, hb⟩

theorem signAll_ok {mem : Mem} {outs : List BMsg} {sigs : List BSig} (h : signAll mem outs = .ok sigs) :
    sigs.map (·.b) = outs.map (·.b.sid) ∧ sigs.map (·.amount) = outs.map (·.amount) ∧
    (∀ s ∈ sigs, s.ks = mem.active ∧ isKeyAmount s.amount = true) ∧ (∀ m ∈ outs, m.ks = .known mem.active) := by
  induction outs generalizing sigs with
  | nil => simp [signAll, pure, Except.pure] at h; subst h; simp
  | cons m rest ih =>
    simp only [signAll, bind, Except.bind, pure, Except.pure] at h
    split at h; · cases h
    rename_i s hs
    split at h; · cases h
    rename_i ss hss
    injection h with h; subst h
    obtain ⟨h1, h2, h3, h4, h5, _⟩ := signOne_ok hs
    obtain ⟨i1, i2, i3, i4⟩ := ih hss
    refine ⟨by simp [h1, i1], by simp [h2, i2], ?_, ?_⟩
    · intro x hx
      rcases List.mem_cons.1 hx with rfl | hx
      · exact ⟨h3, h2 ▸ h5⟩
      · exact i3 x hx
    · intro x hx
      rcases List.mem_cons.1 hx with rfl | hx
      · exact h4
      · exact i4 x hx

/-! ## Swap -/

theorem getSigs_empty {db : DB} {bs : List Nat}
    (h : ¬ (!(db.sigs.filter (fun x => bs.contains x.b)).isEmpty) = true) : ∀ b ∈ bs, b ∉ db.sigs.map (·.b) := by
  intro b hb hm
  apply h
  obtain ⟨x, hx, hxb⟩ := List.mem_map.1 hm
  simp only [Bool.not_eq_true', List.isEmpty_eq_false_iff_exists_mem]
  exact ⟨x, List.mem_filter.2 ⟨hx, by simp [hxb, hb]⟩⟩

/-- Facts about a swap that returned signatures. -/
structure SwapOk (cx : Cx) (ps : List Proof) (outs : List BMsg) (v : Option E) (s s' : DL) (sigs : List BSig) : Prop where
  ln : s'.2 = s.2
  db : s'.1 = { s.1 with spent := s.1.spent ++ ps.map Proof.row, sigs := s.1.sigs ++ sigs }
  verified : verifySpec cx ps s.1 = .ok ()
  signed : signAll cx.mem outs = .ok sigs
  distinct : (ps.map (·.secret)).Nodup
  noUnder : (underflowSub (amountWrap (ps.map (·.amount))) (transactionFees cx.mem ps)).2 = false
  balance : ∃ outTotal, amountChecked (outAmounts outs) = some outTotal ∧
    ¬ ((underflowSub (amountWrap (ps.map (·.amount))) (transactionFees cx.mem ps)).1 < outTotal)
  sigAll : proofsSigAll ps = true → v = none

theorem swap_cases (cx : Cx) (ps : List Proof) (outs : List BMsg) (v : Option E) (s s' : DL) (r : Except E (List BSig))
    (h : runM (swap cx ps outs v) s = (s', r)) :
    (∃ e, r = .error e ∧ s' = s) ∨ (∃ sigs, r = .ok sigs ∧ SwapOk cx ps outs v s s' sigs) := by
  obtain ⟨db, ln⟩ := s
  cases hac : amountChecked (outAmounts outs) with
  | none =>
    simp only [swap, hac] at h
    left; cases h; exact ⟨_, rfl, rfl⟩
  | some outTotal =>
    simp only [swap, hac] at h
    prog_simp [runM_verifyProofs_bind] at h
    split at h; · left; cases h; exact ⟨_, rfl, rfl⟩
    split at h; · left; cases h; exact ⟨_, rfl, rfl⟩
    split at h; · left; cases h; exact ⟨_, rfl, rfl⟩
    rename_i hdup hunder hbal
    split at h
    rotate_left; · left; cases h; exact ⟨_, rfl, rfl⟩
    rename_i u hver
    split at h; · left; cases h; exact ⟨_, rfl, rfl⟩
    rename_i hsigs
    split at h; · left; cases h; exact ⟨_, rfl, rfl⟩
    rename_i hv
    split at h
    rotate_left; · left; cases h; exact ⟨_, rfl, rfl⟩
    rename_i sigs hsign
    split at h
    rotate_left; · left; cases h; exact ⟨_, rfl, rfl⟩
    rename_i t hins
    obtain ⟨ht, hnd, _, _⟩ := insertRows_some hins
    obtain ⟨sb, sa, skey, _⟩ := signAll_ok hsign
    have hsig : insertSigs db.sigs sigs = some (db.sigs ++ sigs) := by
      apply insertSigs_of
      · rw [sb]; exact dupOutputs_false (by simpa using hdup)
      · intro x hx
        exact getSigs_empty hsigs x.b (by rw [← sb]; exact List.mem_map.2 ⟨x, hx, rfl⟩)
      · intro x hx; exact isKeyAmount_not_high (skey x hx).2
    rw [hsig] at h
    cases h
    right
    refine ⟨sigs, rfl, ⟨rfl, by simp [ht], by cases u; exact hver, hsign, ?_, by simpa using hunder, ⟨outTotal, hac, hbal⟩, ?_⟩⟩
    · simpa [Proof.row, List.map_map, Function.comp_def] using hnd
    · intro hsa; simpa [hsa] using hv

/-! ## Mint quotes and issuance -/

/-- `GetMintQuoteState` as a function of (tables, Lightning state). -/
def gmqsSpec (qid : Int) (s : DL) : DL × Except E MintQ :=
  match dbGetMintQ s.1 qid with
  | .error _ => (s, .error eQuoteNotExist)
  | .ok q =>
    if q.state == .unpaid then
      match (lnInvStatus s.2 q.hash).2 with
      | none => ((s.1, (lnInvStatus s.2 q.hash).1), .error (2, "ln"))
      | some settled =>
        if settled then
          if s.1.mintQ.any (·.id == q.id) then
            (({ s.1 with mintQ := updMintQ s.1.mintQ q.id .paid }, (lnInvStatus s.2 q.hash).1), .ok { q with state := .paid })
          else ((s.1, (lnInvStatus s.2 q.hash).1), .error (1, "db"))
        else ((s.1, (lnInvStatus s.2 q.hash).1), .ok q)
    else (s, .ok q)

theorem getMintQuoteState_runM (qid : Int) (s : DL) : runM (getMintQuoteState qid) s = gmqsSpec qid s := by
  obtain ⟨db, ln⟩ := s
  unfold gmqsSpec
  prog_simp [getMintQuoteState]
  cases hq : dbGetMintQ db qid with
  | error e => simp only []; rfl
  | ok q =>
    simp only []
    by_cases hu : (q.state == .unpaid) = true
    · simp only [hu, if_true]
      prog_simp [runM_pure]
      cases hst : (lnInvStatus ln q.hash).2 with
      | none => simp only []; rfl
      | some settled =>
        simp only []
        by_cases hs : settled = true
        · simp only [hs, if_true]
          prog_simp [runM_pure]
        · simp only [hs]; rfl
    · simp only [hu]; rfl


theorem any_updMintQ (qs : List MintQ) (id id' : Nat) (st : MQState) :
    (updMintQ qs id st).any (·.id == id') = qs.any (·.id == id') := by
  unfold updMintQ
  induction qs with
  | nil => rfl
  | cons q rest ih =>
    simp only [List.map_cons, List.any_cons, ih]
    congr 1
    split <;> rfl

/-- Facts about an issuance that succeeded (inner closure of `MintTokens`). -/
structure MintOk (cx : Cx) (q : MintQ) (outs : List BMsg) (sig : QSig) (s s' : DL) (sigs : List BSig) : Prop where
  ln : s'.2 = s.2
  db : s'.1 = { s.1 with mintQ := updMintQ (updMintQ s.1.mintQ q.id .pending) q.id .issued, sigs := s.1.sigs ++ sigs }
  exists_ : s.1.mintQ.any (·.id == q.id) = true
  signed : signAll cx.mem outs = .ok sigs
  amount : ∃ total, amountChecked (outAmounts outs) = some total ∧ ¬ total > q.amount
  nut20 : quoteSigOk q (outs.map (·.b.sid)) sig = true

theorem mintInner_cases (cx : Cx) (q : MintQ) (outs : List BMsg) (sig : QSig) (s s' : DL) (r : Except E (List BSig))
    (h : runM (mintInner cx q outs sig) s = (s', r)) :
    (∃ e, r = .error e ∧ (s' = s ∨ s' = ({ s.1 with mintQ := updMintQ s.1.mintQ q.id .pending }, s.2))) ∨
    (∃ sigs, r = .ok sigs ∧ MintOk cx q outs sig s s' sigs) := by
  obtain ⟨db, ln⟩ := s
  prog_simp [mintInner] at h
  split at h
  rotate_left; · left; cases h; exact ⟨_, rfl, Or.inl rfl⟩
  rename_i hex
  cases hac : amountChecked (outAmounts outs) with
  | none => simp only [hac] at h; left; cases h; exact ⟨_, rfl, Or.inr rfl⟩
  | some total =>
    simp only [hac] at h
    prog_simp [runM_pure] at h
    split at h; · left; cases h; exact ⟨_, rfl, Or.inr rfl⟩
    split at h; · left; cases h; exact ⟨_, rfl, Or.inr rfl⟩
    split at h; · left; cases h; exact ⟨_, rfl, Or.inr rfl⟩
    split at h; · left; cases h; exact ⟨_, rfl, Or.inr rfl⟩
    rename_i hdup hamt hsigs hnut
    split at h
    rotate_left; · left; cases h; exact ⟨_, rfl, Or.inr rfl⟩
    rename_i sigs hsign
    simp only [any_updMintQ, hex, if_true] at h
    obtain ⟨sb, sa, skey, _⟩ := signAll_ok hsign
    have hsig : insertSigs db.sigs sigs = some (db.sigs ++ sigs) := by
      apply insertSigs_of
      · rw [sb]; exact dupOutputs_false (by simpa using hdup)
      · intro x hx
        exact getSigs_empty hsigs x.b (by rw [← sb]; exact List.mem_map.2 ⟨x, hx, rfl⟩)
      · intro x hx; exact isKeyAmount_not_high (skey x hx).2
    rw [hsig] at h
    cases h
    right
    exact ⟨sigs, rfl, ⟨rfl, rfl, hex, hsign, ⟨total, hac, hamt⟩, by simpa using hnut⟩⟩


theorem runM_getMintQuoteState_bind {β : Type} (qid : Int) (f : MintQ → PM β) (s : DL) :
    runM (getMintQuoteState qid >>= f) s =
      match (gmqsSpec qid s).2 with
      | .ok q => runM (f q) (gmqsSpec qid s).1
      | .error e => ((gmqsSpec qid s).1, .error e) := by
  rw [runM_bind, getMintQuoteState_runM]
  generalize gmqsSpec qid s = x
  obtain ⟨s1, r⟩ := x
  cases r <;> rfl

theorem runM_liftrun_bind {α β : Type} (p : PM α) (f : Except E α → PM β) (s : DL) :
    runM ((ExceptT.lift (p.run) : PM (Except E α)) >>= f) s = runM (f (runM p s).2) (runM p s).1 := by
  rw [runM_bind, runM_lift_run]

theorem updMintQ_updMintQ (qs : List MintQ) (id : Nat) (a b : MQState) :
    updMintQ (updMintQ qs id a) id b = updMintQ qs id b := by
  unfold updMintQ
  simp only [List.map_map]
  congr 1
  funext q
  simp only [Function.comp]
  by_cases h : (q.id == id) = true <;> simp [h]

/-- Outcome of `MintTokens`, relative to the state after the leading `GetMintQuoteState`. -/
theorem mintTokens_cases (cx : Cx) (qid : Int) (outs : List BMsg) (sig : QSig) (s s' : DL) (r : Except E (List BSig))
    (h : runM (mintTokens cx qid outs sig) s = (s', r)) :
    (∃ e, (gmqsSpec qid s).2 = .error e ∧ r = .error e ∧ s' = (gmqsSpec qid s).1) ∨
    (∃ q, (gmqsSpec qid s).2 = .ok q ∧
      ((q.state = .unpaid ∧ r = .error eNotPaid ∧ s' = (gmqsSpec qid s).1) ∨
       (q.state = .issued ∧ r = .error eAlreadyIssued ∧ s' = (gmqsSpec qid s).1) ∨
       (q.state = .pending ∧ r = .error eQuotePending ∧ s' = (gmqsSpec qid s).1) ∨
       (q.state = .paid ∧
         ((∃ e, r = .error e ∧ s'.2 = (gmqsSpec qid s).1.2 ∧
             (s'.1 = (gmqsSpec qid s).1.1 ∨
              s'.1 = { (gmqsSpec qid s).1.1 with mintQ := updMintQ (gmqsSpec qid s).1.1.mintQ q.id .paid })) ∨
          (∃ sigs, r = .ok sigs ∧ MintOk cx q outs sig (gmqsSpec qid s).1 s' sigs))))) := by
  simp only [mintTokens] at h
  rw [runM_getMintQuoteState_bind] at h
  generalize hg : gmqsSpec qid s = g at h ⊢
  obtain ⟨s1, r1⟩ := g
  cases r1 with
  | error e => left; simp only [] at h; cases h; exact ⟨e, rfl, rfl, rfl⟩
  | ok q =>
    right
    refine ⟨q, rfl, ?_⟩
    simp only [] at h
    cases hst : q.state with
    | unpaid => simp only [hst] at h; left; cases h; exact ⟨rfl, rfl, rfl⟩
    | issued => simp only [hst] at h; right; left; cases h; exact ⟨rfl, rfl, rfl⟩
    | pending => simp only [hst] at h; right; right; left; cases h; exact ⟨rfl, rfl, rfl⟩
    | paid =>
      simp only [hst] at h
      right; right; right
      refine ⟨rfl, ?_⟩
      rw [runM_liftrun_bind] at h
      generalize hi : runM (mintInner cx q outs sig) s1 = inner at h
      obtain ⟨s2, r2⟩ := inner
      rcases mintInner_cases cx q outs sig s1 s2 r2 hi with ⟨e, rfl, hs2⟩ | ⟨sigs, rfl, hok⟩
      · left
        simp only [] at h
        obtain ⟨db2, ln2⟩ := s2
        prog_simp [runM_pure] at h
        split at h
        · cases h
          refine ⟨e, rfl, ?_, ?_⟩
          · rcases hs2 with h2 | h2 <;> (cases h2; rfl)
          · right
            rcases hs2 with h2 | h2
            · cases h2; rfl
            · cases h2; simp only [updMintQ_updMintQ]
        · cases h
          refine ⟨_, rfl, ?_, ?_⟩
          · rcases hs2 with h2 | h2 <;> (cases h2; rfl)
          · rename_i hany
            rcases hs2 with h2 | h2
            · cases h2; left; rfl
            · cases h2
              left
              simp only [any_updMintQ] at hany
              -- the quote row does not exist: updMintQ changes nothing
              have : updMintQ s1.1.mintQ q.id .pending = s1.1.mintQ := by
                unfold updMintQ
                conv => rhs; rw [← List.map_id s1.1.mintQ]
                apply List.map_congr_left
                intro x hx
                split
                · exfalso; apply hany
                  simp only [List.any_eq_true]
                  exact ⟨x, hx, ‹_›⟩
                · rfl
              simp only [this]
      · right
        simp only [] at h
        cases h
        exact ⟨sigs, rfl, hok⟩


end Gonuts.Model.Mint
