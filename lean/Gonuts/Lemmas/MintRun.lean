import Gonuts.Model.Mint
/-!
  Running programs: equations for `Prog.run` through `bind`, the `ExceptT` layer and `dbTry`, and the
  lifting of a one-effect invariant to whole programs, crash prefixes and histories.
-/
namespace Gonuts.Model.Mint

/-- Big-step execution of a `PM` program. -/
def runPM {α : Type} (p : PM α) (w : World) : World × Except E α := (p.run).run w

@[simp] theorem Prog.run_ret {α : Type} (a : α) (w : World) : (Prog.ret a).run w = (w, a) := rfl
@[simp] theorem Prog.run_pure {α : Type} (a : α) (w : World) : (pure a : Prog α).run w = (w, a) := rfl
@[simp] theorem Prog.run_eff {α β : Type} (e : Eff β) (k : β → Prog α) (w : World) :
    (Prog.eff e k).run w = (k (exec w e).2).run (exec w e).1 := rfl

theorem Prog.run_bind {α β : Type} (p : Prog α) (f : α → Prog β) (w : World) :
    (p >>= f).run w = (f (p.run w).2).run (p.run w).1 := by
  show (Prog.bind p f).run w = _
  induction p generalizing w with
  | ret a => rfl
  | eff e k ih => simp only [Prog.bind, Prog.run_eff]; exact ih _ _

@[simp] theorem runPM_pure {α : Type} (a : α) (w : World) : runPM (pure a : PM α) w = (w, .ok a) := rfl
@[simp] theorem runPM_throw {α : Type} (e : E) (w : World) : runPM (throw e : PM α) w = (w, .error e) := rfl

theorem runPM_bind {α β : Type} (p : PM α) (f : α → PM β) (w : World) :
    runPM (p >>= f) w =
      match runPM p w with
      | (w', .ok a) => runPM (f a) w'
      | (w', .error e) => (w', .error e) := by
  unfold runPM
  show ((ExceptT.bind p f).run).run w = _
  unfold ExceptT.bind ExceptT.bindCont ExceptT.run ExceptT.mk
  rw [Prog.run_bind]
  generalize (Prog.run p w) = r
  obtain ⟨w', x⟩ := r
  cases x <;> rfl

@[simp] theorem runPM_eff {β : Type} (e : Eff β) (w : World) :
    runPM (eff e) w = ((exec w e).1, .ok (exec w e).2) := rfl

theorem runPM_dbTry {β : Type} (e : Eff (DbRes β)) (w : World) :
    runPM (dbTry e) w =
      match (exec w e).2 with
      | .ok v => ((exec w e).1, .ok v)
      | .error _ => ((exec w e).1, .error (1, "db")) := by
  unfold dbTry
  rw [runPM_bind, runPM_eff]
  cases (exec w e).2 <;> rfl

theorem runPM_lift_run {α : Type} (p : PM α) (w : World) :
    runPM (ExceptT.lift (p.run) : PM (Except E α)) w = ((runPM p w).1, .ok (runPM p w).2) := by
  unfold runPM ExceptT.lift ExceptT.run ExceptT.mk
  show ((p >>= fun a => pure (Except.ok a) : Prog _)).run w = _
  rw [Prog.run_bind]; rfl

/-! ## Lifting a one-effect invariant -/

/-- `P` is preserved by every single effect, whatever it returns (this covers injected faults, since a
    fault is a value of `exec`). -/
def EffInv (P : World → Prop) : Prop := ∀ {β : Type} (w : World) (e : Eff β), P w → P (exec w e).1

theorem EffInv.run {P : World → Prop} (h : EffInv P) {α : Type} (p : Prog α) (w : World) (hw : P w) :
    P (p.run w).1 := by
  induction p generalizing w with
  | ret a => exact hw
  | eff e k ih => exact ih _ _ (h w e hw)

/-- … also when the operation is killed after any number `n` of storage / Lightning calls. -/
theorem EffInv.runN {P : World → Prop} (h : EffInv P) {α : Type} (p : Prog α) (n : Nat) (w : World) (hw : P w) :
    P (p.runN n w).1 := by
  induction p generalizing w n with
  | ret a => cases n <;> exact hw
  | eff e k ih =>
    cases n with
    | zero => exact hw
    | succ n => exact ih _ _ _ (h w e hw)

theorem EffInv.runPM {P : World → Prop} (h : EffInv P) {α : Type} (p : PM α) (w : World) (hw : P w) :
    P (Mint.runPM p w).1 := h.run _ w hw

end Gonuts.Model.Mint

namespace Gonuts.Model.Mint

@[simp] theorem runPM_failIf (c : Prop) [Decidable c] (e : E) (w : World) :
    runPM (failIf c e) w = if c then (w, .error e) else (w, .ok ()) := by
  unfold failIf; split <;> rfl

@[simp] theorem runPM_liftE {α : Type} (x : Except E α) (w : World) :
    runPM (liftE x) w = (w, x) := by
  unfold liftE; cases x <;> rfl

@[simp] theorem runPM_failOpt (v : Option E) (w : World) :
    runPM (failOpt v) w = match v with | some e => (w, .error e) | none => (w, .ok ()) := by
  unfold failOpt; cases v <;> rfl

/-- No storage fault is armed. -/
def NoFault (w : World) : Prop := w.faultAt = none

theorem exec_noFault {β : Type} (w : World) (e : Eff β) (h : NoFault w) : NoFault (exec w e).1 := by
  unfold NoFault at *
  unfold exec
  split
  · split
    · rfl
    · split <;> exact h
  · split <;> exact h

end Gonuts.Model.Mint
