import Gonuts.Spec.HashToCurve
import Gonuts.Spec.KeysetId
import Gonuts.Spec.Nut13
import Gonuts.Spec.MintKeys
import Gonuts.Lemmas.SpecSha
import Gonuts.Lemmas.SpecSecp
/-! Lemmas about `hash_to_curve`, the keyset id, BIP32 paths, NUT-13 and the mint keys of `Gonuts.Spec`
(core Lean only). -/
namespace Gonuts.Spec

/-! ## hash_to_curve -/
namespace HashToCurve
open Secp256k1 Point

theorem candidate_eq (mh : Bytes) (c : Nat) : candidate mh c = 0x02 :: counterHash mh c := rfl
theorem maxIterations_eq : maxIterations = 2 ^ 16 := rfl
theorem hashToCurveCounter_eq (msg : Bytes) : hashToCurveCounter msg = search (msgHash msg) (2 ^ 16) 0 := rfl
theorem hashToCurve_eq (msg : Bytes) : hashToCurve msg = (search (msgHash msg) (2 ^ 16) 0).map (·.2) := rfl

theorem counterHash_length (mh : Bytes) (c : Nat) : (counterHash mh c).length = 32 := by
  simp [counterHash]

/-- The candidate at counter `c` parses iff the hash lifts; the point then has that hash as `x`. -/
theorem parse_candidate (mh : Bytes) (c : Nat) :
    parse (candidate mh c) =
      (liftX (beNat (counterHash mh c))).map (fun y => aff (beNat (counterHash mh c)) y) := by
  unfold candidate
  exact parse_02 (counterHash_length mh c)

/-- `search` returns the first counter in `[c, c + fuel)` whose candidate parses. -/
theorem search_spec (mh : Bytes) (fuel c : Nat) {i : Nat} {P : Point} (h : search mh fuel c = some (i, P)) :
    c ≤ i ∧ i < c + fuel ∧ parse (candidate mh i) = some P ∧ ∀ j, c ≤ j → j < i → parse (candidate mh j) = none := by
  induction fuel generalizing c with
  | zero => simp [search] at h
  | succ k ih =>
    unfold search at h
    cases hp : parse (candidate mh c) with
    | some Q =>
      simp only [hp, Option.some.injEq, Prod.mk.injEq] at h
      obtain ⟨rfl, rfl⟩ := h
      exact ⟨Nat.le_refl _, by omega, hp, fun j h1 h2 => by omega⟩
    | none =>
      simp only [hp] at h
      obtain ⟨h1, h2, h3, h4⟩ := ih (c + 1) h
      refine ⟨by omega, by omega, h3, fun j hj1 hj2 => ?_⟩
      by_cases hjc : j = c
      · subst hjc; exact hp
      · exact h4 j (by omega) hj2

/-- `search` fails only if no counter in the window parses. -/
theorem search_none (mh : Bytes) (fuel c : Nat) (h : search mh fuel c = none) :
    ∀ j, c ≤ j → j < c + fuel → parse (candidate mh j) = none := by
  induction fuel generalizing c with
  | zero => intro j h1 h2; omega
  | succ k ih =>
    unfold search at h
    cases hp : parse (candidate mh c) with
    | some Q => simp [hp] at h
    | none =>
      simp only [hp] at h
      intro j h1 h2
      by_cases hjc : j = c
      · subst hjc; exact hp
      · exact ih (c + 1) h j (by omega) (by omega)

end HashToCurve

/-! ## keyset id -/
namespace KeysetId

theorem keysetId_eq (ks : Keys) :
    keysetId ks = String.ofList ('0' :: '0' :: (hexChars (sha256 ((sortByAmount ks).flatMap (·.2)))).take 14) := rfl

theorem amountLe_trans (a b c : Nat × Bytes) (h1 : amountLe a b = true) (h2 : amountLe b c = true) : amountLe a c = true := by
  simp only [amountLe, decide_eq_true_eq] at *; omega

theorem amountLe_total (a b : Nat × Bytes) : (amountLe a b || amountLe b a) = true := by
  simp only [amountLe, Bool.or_eq_true, decide_eq_true_eq]; omega

theorem sortByAmount_perm (ks : Keys) : (sortByAmount ks).Perm ks := List.mergeSort_perm ks amountLe

theorem sortByAmount_sorted (ks : Keys) : (sortByAmount ks).Pairwise (fun a b => amountLe a b = true) :=
  List.pairwise_mergeSort amountLe_trans amountLe_total ks

/-- With distinct amounts the pair is determined by its amount. -/
theorem eq_of_amount_eq {ks : Keys} (hd : (ks.map (·.1)).Nodup) {a b : Nat × Bytes} (ha : a ∈ ks) (hb : b ∈ ks)
    (h : a.1 = b.1) : a = b := by
  induction ks with
  | nil => simp at ha
  | cons k ks ih =>
    simp only [List.map_cons, List.nodup_cons, List.mem_map, not_exists, not_and] at hd
    simp only [List.mem_cons] at ha hb
    rcases ha with rfl | ha <;> rcases hb with rfl | hb
    · rfl
    · exact absurd h.symm (hd.1 b hb)
    · exact absurd h (hd.1 a ha)
    · exact ih hd.2 ha hb

/-- Sorting by amount gives the same list for every arrangement of a key set with distinct amounts. -/
theorem sortByAmount_perm_eq {ks ks' : Keys} (hp : ks.Perm ks') (hd : (ks.map (·.1)).Nodup) :
    sortByAmount ks = sortByAmount ks' := by
  apply List.Perm.eq_of_pairwise (le := fun a b => amountLe a b = true) _ (sortByAmount_sorted ks) (sortByAmount_sorted ks')
  · exact (sortByAmount_perm ks).trans (hp.trans (sortByAmount_perm ks').symm)
  · intro a b ha hb h1 h2
    have ha' : a ∈ ks := (sortByAmount_perm ks).mem_iff.mp ha
    have hb' : b ∈ ks := hp.mem_iff.mpr ((sortByAmount_perm ks').mem_iff.mp hb)
    simp only [amountLe, decide_eq_true_eq] at h1 h2
    exact eq_of_amount_eq hd ha' hb' (by omega)

/-- The sorted list really is in ascending amount order. -/
theorem sortByAmount_ascending (ks : Keys) : (sortByAmount ks).Pairwise (fun a b => a.1 ≤ b.1) := by
  have := sortByAmount_sorted ks
  simpa [amountLe] using this

theorem keysetId_perm_eq {ks ks' : Keys} (hp : ks.Perm ks') (hd : (ks.map (·.1)).Nodup) : keysetId ks = keysetId ks' := by
  rw [keysetId_eq, keysetId_eq, sortByAmount_perm_eq hp hd]

open Secp256k1 in
theorem keysOfPoints_cons (x : Nat × Point) (rest : List (Nat × Point)) :
    keysOfPoints (x :: rest) = (keyOfPoint x).bind (fun k => (keysOfPoints rest).map (fun tl => k :: tl)) := by
  simp only [keysOfPoints]

open Secp256k1 in
theorem keysOfPoints_cons_some {x : Nat × Point} {rest : List (Nat × Point)} {ks : Keys}
    (h : keysOfPoints (x :: rest) = some ks) :
    ∃ k tl, keyOfPoint x = some k ∧ keysOfPoints rest = some tl ∧ ks = k :: tl := by
  simp only [keysOfPoints_cons, Option.bind_eq_some_iff, Option.map_eq_some_iff] at h
  obtain ⟨k, hk, tl, htl, rfl⟩ := h
  exact ⟨k, tl, hk, htl, rfl⟩

open Secp256k1 in
theorem keyOfPoint_amount {x : Nat × Point} {k : Nat × Bytes} (h : keyOfPoint x = some k) : k.1 = x.1 := by
  simp only [keyOfPoint, Option.map_eq_some_iff] at h
  obtain ⟨b, _, rfl⟩ := h
  rfl

open Secp256k1 in
/-- Serialising keeps the amounts, in order. -/
theorem keysOfPoints_amounts {l : List (Nat × Point)} {ks : Keys} (h : keysOfPoints l = some ks) :
    ks.map (·.1) = l.map (·.1) := by
  induction l generalizing ks with
  | nil => simp only [keysOfPoints, Option.some.injEq] at h; subst h; rfl
  | cons x rest ih =>
    obtain ⟨k, tl, hk, htl, rfl⟩ := keysOfPoints_cons_some h
    simp only [List.map_cons, ih htl, keyOfPoint_amount hk]

open Secp256k1 in
/-- Serialising a rearranged list of points gives the rearranged list of keys. -/
theorem keysOfPoints_perm {l l' : List (Nat × Point)} (hp : l.Perm l') :
    ∀ ks, keysOfPoints l = some ks → ∃ ks', keysOfPoints l' = some ks' ∧ ks.Perm ks' := by
  induction hp with
  | nil => intro ks h; exact ⟨ks, h, List.Perm.refl _⟩
  | cons x _ ih =>
    intro ks h
    obtain ⟨k, tl, hk, htl, rfl⟩ := keysOfPoints_cons_some h
    obtain ⟨tl', htl', hperm⟩ := ih tl htl
    exact ⟨k :: tl', by simp only [keysOfPoints_cons, hk, htl', Option.bind_some, Option.map_some], hperm.cons k⟩
  | swap x y l =>
    intro ks h
    obtain ⟨ky, tl1, hky, h1, rfl⟩ := keysOfPoints_cons_some h
    obtain ⟨kx, tl, hkx, htl, rfl⟩ := keysOfPoints_cons_some h1
    exact ⟨kx :: ky :: tl, by simp only [keysOfPoints_cons, hkx, hky, htl, Option.bind_some, Option.map_some],
      List.Perm.swap kx ky tl⟩
  | trans _ _ ih1 ih2 =>
    intro ks h
    obtain ⟨ks1, h1, p1⟩ := ih1 ks h
    obtain ⟨ks2, h2, p2⟩ := ih2 ks1 h1
    exact ⟨ks2, h2, p1.trans p2⟩

open Secp256k1 in
/-- The id computed from points is the same for every arrangement of a key set with distinct amounts. -/
theorem keysetIdOfPoints_perm {l l' : List (Nat × Point)} (hp : l.Perm l') (hd : (l.map (·.1)).Nodup) :
    keysetIdOfPoints l = keysetIdOfPoints l' := by
  unfold keysetIdOfPoints
  cases h : keysOfPoints l with
  | some ks =>
    obtain ⟨ks', h', p⟩ := keysOfPoints_perm hp ks h
    rw [h', Option.map_some, Option.map_some, keysetId_perm_eq p (by rw [keysOfPoints_amounts h]; exact hd)]
  | none =>
    cases h' : keysOfPoints l' with
    | none => rfl
    | some ks' =>
      obtain ⟨ks, hk, _⟩ := keysOfPoints_perm hp.symm ks' h'
      rw [h] at hk
      exact absurd hk (by simp)

end KeysetId

/-! ## BIP32 -/
namespace Bip32
open Secp256k1

theorem hardened_ge (i : Nat) : hardenedStart ≤ hardened i := by simp [hardened]

/-- A hardened index made from `i < 2^31` is a valid 32-bit child index in the hardened half. -/
theorem hardened_range {i : Nat} (h : i < 2 ^ 31) : 2 ^ 31 ≤ hardened i ∧ hardened i < 2 ^ 32 := by
  simp only [hardened, hardenedStart]; omega

theorem hardened_injective {i j : Nat} (h : hardened i = hardened j) : i = j := by
  simp only [hardened] at h; omega

/-- `ser32` separates all 32-bit child indices. -/
theorem ser32_injective {i j : Nat} (hi : i < 2 ^ 32) (hj : j < 2 ^ 32) (h : ser32 i = ser32 j) : i = j :=
  be32_injective hi hj h

theorem ser256_length (k : Nat) : (ser256 k).length = 32 := by simp [ser256]

theorem parse256_ser256 {k : Nat} (h : k < 2 ^ 256) : parse256 (ser256 k) = k := by
  have e : (2 : Nat) ^ 256 = 256 ^ 32 := by decide
  exact beNat_natToBE 32 k (by omega)

/-- The HMAC input of a hardened child is `00 ‖ ser256(k) ‖ ser32(i)`, 37 bytes, and does not involve the curve. -/
theorem ckdData_hardened (M : Nat → Point → Point) (par : XPrv) {i : Nat} (h : hardenedStart ≤ i) :
    ckdData M par i = some (0x00 :: (ser256 par.key ++ ser32 i)) := by
  simp [ckdData, h]

/-- The HMAC input of a normal child is `serP(k·G) ‖ ser32(i)`. -/
theorem ckdData_normal (M : Nat → Point → Point) (par : XPrv) {i : Nat} (h : i < hardenedStart) :
    ckdData M par i = (serCompressed (M par.key G)).map (· ++ ser32 i) := by
  simp [ckdData, Nat.not_le.mpr h]

theorem ckdData_length (M : Nat → Point → Point) (par : XPrv) (i : Nat) {d : Bytes} (h : ckdData M par i = some d) :
    d.length = 37 := by
  unfold ckdData at h
  by_cases hh : hardenedStart ≤ i
  · simp only [hh, if_true, Option.some.injEq] at h; subst h; simp [ser256, ser32]
  · simp only [hh, if_false, Option.map_eq_some_iff] at h
    obtain ⟨b, hb, rfl⟩ := h
    simp [serCompressed_length hb, ser32]

theorem ckdFromData_valid (par : XPrv) (d : Bytes) {c : XPrv} (h : ckdFromData par d = some c) :
    0 < c.key ∧ c.key < n ∧ c.chain.length = 32 := by
  simp only [ckdFromData] at h
  split at h
  · simp at h
  · rename_i hc
    simp only [Option.some.injEq] at h
    subst h
    simp only [not_or, Nat.not_le] at hc
    have hn : 0 < n := by decide
    refine ⟨Nat.pos_of_ne_zero hc.2, Nat.mod_lt _ hn, ?_⟩
    simp

/-- A derived child key is a valid private key (`0 < k < n`) with a 32-byte chain code. -/
theorem ckdPriv_valid (M : Nat → Point → Point) (par : XPrv) (i : Nat) {c : XPrv} (h : ckdPriv M par i = some c) :
    0 < c.key ∧ c.key < n ∧ c.chain.length = 32 := by
  simp only [ckdPriv, Option.bind_eq_some_iff] at h
  obtain ⟨d, _, hd⟩ := h
  exact ckdFromData_valid par d hd

/-- BIP32's "proceed with the next value for i": when child `i` is valid the rule returns exactly it … -/
theorem ckdPrivNext_of_some (M : Nat → Point → Point) (par : XPrv) (t i : Nat) {c : XPrv}
    (h : ckdPriv M par i = some c) : ckdPrivNext M par (t + 1) i = some (i, c) := by
  simp only [ckdPrivNext, h]

/-- … and when it is invalid the rule moves on to `i + 1`. -/
theorem ckdPrivNext_of_none (M : Nat → Point → Point) (par : XPrv) (t i : Nat)
    (h : ckdPriv M par i = none) : ckdPrivNext M par (t + 1) i = ckdPrivNext M par t (i + 1) := by
  simp only [ckdPrivNext, h]

theorem master_valid {seed : Bytes} {m : XPrv} (h : master seed = some m) : 0 < m.key ∧ m.key < n ∧ m.chain.length = 32 := by
  simp only [master] at h
  split at h
  · simp at h
  · rename_i hc
    simp only [Option.some.injEq] at h
    subst h
    simp only [not_or, Nat.not_le] at hc
    refine ⟨Nat.pos_of_ne_zero hc.1, hc.2, ?_⟩
    simp

theorem derivePath_nil (M : Nat → Point → Point) (k : XPrv) : derivePath M k [] = some k := by
  simp only [derivePath]

theorem derivePath_cons (M : Nat → Point → Point) (k : XPrv) (i : Nat) (rest : List Nat) :
    derivePath M k (i :: rest) = (ckdPriv M k i).bind (fun c => derivePath M c rest) := by
  simp only [derivePath]

theorem derivePath_append (M : Nat → Point → Point) (k : XPrv) (p q : List Nat) :
    derivePath M k (p ++ q) = (derivePath M k p).bind (fun c => derivePath M c q) := by
  induction p generalizing k with
  | nil => simp only [List.nil_append, derivePath_nil, Option.bind_some]
  | cons i p ih =>
    simp only [List.cons_append, derivePath_cons, Option.bind_assoc, ih]

/-- Every key reached along a path from a valid key is a valid private key. -/
theorem derivePath_valid (M : Nat → Point → Point) (k : XPrv) (path : List Nat) {c : XPrv}
    (hk : 0 < k.key ∧ k.key < n ∧ k.chain.length = 32) (h : derivePath M k path = some c) :
    0 < c.key ∧ c.key < n ∧ c.chain.length = 32 := by
  induction path generalizing k with
  | nil => simp only [derivePath_nil, Option.some.injEq] at h; subst h; exact hk
  | cons i rest ih =>
    simp only [derivePath_cons, Option.bind_eq_some_iff] at h
    obtain ⟨c', hc, h⟩ := h
    exact ih c' (ckdPriv_valid M k i hc) h

theorem fromSeed_valid (M : Nat → Point → Point) (seed : Bytes) (path : List Nat) {c : XPrv}
    (h : fromSeed M seed path = some c) : 0 < c.key ∧ c.key < n ∧ c.chain.length = 32 := by
  simp only [fromSeed, Option.bind_eq_some_iff] at h
  obtain ⟨m, hm, h⟩ := h
  exact derivePath_valid M m path (master_valid hm) h

/-- Deriving along `p ++ q` from the seed is deriving along `q` from the key at `p`. -/
theorem fromSeed_append (M : Nat → Point → Point) (seed : Bytes) (p q : List Nat) :
    fromSeed M seed (p ++ q) = (fromSeed M seed p).bind (fun c => derivePath M c q) := by
  simp only [fromSeed, derivePath_append, Option.bind_assoc]

end Bip32

/-! ## NUT-13 -/
namespace Nut13
open Secp256k1 Bip32

theorem keysetIdInt_lt (id : Bytes) : keysetIdInt id < 2 ^ 31 - 1 := by
  unfold keysetIdInt idModulus
  exact Nat.mod_lt _ (by decide)

/-- Both derivations go through the same counter-level key `m/129372'/0'/id'/c'`. -/
theorem secretPath_eq (id : Bytes) (c : Nat) :
    secretPath id c = (keysetPath id ++ [hardened c]) ++ [0] := by
  simp [secretPath]

theorem blindingFactorPath_eq (id : Bytes) (c : Nat) :
    blindingFactorPath id c = (keysetPath id ++ [hardened c]) ++ [1] := by
  simp [blindingFactorPath]

/-- A derived secret is 64 characters, all lowercase hex digits. -/
theorem deriveSecret_shape (M : Nat → Point → Point) (seed id : Bytes) (c : Nat) {s : String}
    (h : deriveSecret M seed id c = some s) : s.length = 64 ∧ ∀ ch ∈ s.toList, ch ∈ hexDigits := by
  simp only [deriveSecret, Option.map_eq_some_iff] at h
  obtain ⟨k, _, rfl⟩ := h
  simp only [hex, String.length_ofList, String.toList_ofList, hexChars_length, ser256, natToBE_length]
  exact ⟨trivial, fun ch hch => hexChars_mem hch⟩

/-- A derived blinding factor is a valid scalar. -/
theorem deriveBlindingFactor_valid (M : Nat → Point → Point) (seed id : Bytes) (c : Nat) {r : Nat}
    (h : deriveBlindingFactor M seed id c = some r) : 0 < r ∧ r < n := by
  simp only [deriveBlindingFactor, Option.map_eq_some_iff] at h
  obtain ⟨k, hk, rfl⟩ := h
  have := fromSeed_valid M seed _ hk
  exact ⟨this.1, this.2.1⟩

theorem secretPath_counter_inj (id : Bytes) (c c' : Nat) (h : secretPath id c = secretPath id c') : c = c' := by
  have := congrArg (fun l => l.getD 3 0) h
  simp only [secretPath, keysetPath, hardened] at this
  simpa using this

theorem blindingFactorPath_counter_inj (id : Bytes) (c c' : Nat)
    (h : blindingFactorPath id c = blindingFactorPath id c') : c = c' := by
  have := congrArg (fun l => l.getD 3 0) h
  simp only [blindingFactorPath, keysetPath, hardened] at this
  simpa using this

theorem secretPath_ne_blindingFactorPath (id id' : Bytes) (c c' : Nat) :
    secretPath id c ≠ blindingFactorPath id' c' := by
  intro h
  have := congrArg (fun l => l.getD 4 7) h
  simp [secretPath, blindingFactorPath, keysetPath] at this

theorem p2pkPath_ne (id : Bytes) (c : Nat) : p2pkPath ≠ secretPath id c ∧ p2pkPath ≠ blindingFactorPath id c := by
  constructor <;> intro h <;> have := congrArg List.length h <;>
    simp [p2pkPath, secretPath, blindingFactorPath, keysetPath] at this

end Nut13

/-! ## mint keys -/
namespace MintKeys
open Secp256k1 Bip32

theorem keysFrom_spec (M : Nat → Point → Point) (ks : XPrv) (js : List Nat) {keys : List Key}
    (h : keysFrom M ks js = some keys) :
    keys.map (·.amount) = js.map (2 ^ ·) ∧
    ∀ k ∈ keys, 0 < k.priv ∧ k.priv < n ∧ k.pub = M k.priv G := by
  induction js generalizing keys with
  | nil =>
    simp only [keysFrom, Option.some.injEq] at h
    subst h
    simp
  | cons j rest ih =>
    simp only [keysFrom, Option.bind_eq_some_iff, Option.map_eq_some_iff] at h
    obtain ⟨k, hk, tl, htl, rfl⟩ := h
    simp only [keyAt, Option.map_eq_some_iff] at hk
    obtain ⟨c, hc, rfl⟩ := hk
    obtain ⟨ih1, ih2⟩ := ih htl
    have hv := ckdPriv_valid M ks (hardened j) hc
    refine ⟨by simp [ih1], ?_⟩
    intro k hk
    simp only [List.mem_cons] at hk
    rcases hk with rfl | hk
    · exact ⟨hv.1, hv.2.1, rfl⟩
    · exact ih2 k hk

/-- `mintKeys` is `keysFrom` over `j = 0 … 59` from the key at `m/0'/0'/idx'`. -/
theorem mintKeys_eq_some (M : Nat → Point → Point) (seed : Bytes) (idx : Nat) {keys : List Key}
    (h : mintKeys M seed idx = some keys) :
    ∃ ks, fromSeed M seed (keysetPath idx) = some ks ∧ keysFrom M ks (List.range 60) = some keys := by
  simp only [mintKeys, Option.bind_eq_some_iff] at h
  exact h

/-- The private key of amount `2^j` is the key of the hardened child `j'` of the keyset key. -/
theorem keysFrom_privs (M : Nat → Point → Point) (ks : XPrv) (js : List Nat) {keys : List Key}
    (h : keysFrom M ks js = some keys) :
    keys.map (fun k => some k.priv) = js.map (fun j => (ckdPriv M ks (hardened j)).map (·.key)) := by
  induction js generalizing keys with
  | nil =>
    simp only [keysFrom, Option.some.injEq] at h
    subst h
    rfl
  | cons j rest ih =>
    simp only [keysFrom, Option.bind_eq_some_iff, Option.map_eq_some_iff] at h
    obtain ⟨k, hk, tl, htl, rfl⟩ := h
    simp only [keyAt, Option.map_eq_some_iff] at hk
    obtain ⟨c, hc, rfl⟩ := hk
    simp only [List.map_cons, ih htl, hc, Option.map_some]

/-- The id of a keyset does not depend on the order in which its keys are enumerated (amounts distinct). -/
theorem keysetIdOf_perm {keys keys' : List Key} (hp : keys.Perm keys') (hd : (keys.map (·.amount)).Nodup) :
    keysetIdOf keys = keysetIdOf keys' := by
  unfold keysetIdOf
  apply KeysetId.keysetIdOfPoints_perm (hp.map _)
  rw [List.map_map]
  exact hd

end MintKeys

end Gonuts.Spec
