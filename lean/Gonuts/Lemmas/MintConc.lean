import Gonuts.Model.MintConc
import Gonuts.Lemmas.MintInv
/-!
  Storage invariants under interleaving, injected storage errors and process kills.

  Every `DbInv` (a predicate on the tables preserved by each single storage effect, whatever the effect returns)
  holds after ANY event sequence of `Model/MintConc.lean`: the per-effect proof does not care which thread issued the
  effect, nor whether the continuation was dropped afterwards.
-/
namespace Gonuts.Model.Mint

theorem finishMem_db (p : Prog (Res × Option Mem)) (w : World) : (finishMem p w).2.db = w.db := by
  unfold finishMem; split <;> rfl

theorem stepWorld_db (c : CSess) (f : Bool) : (stepWorld c f).db = c.s.w.db := by unfold stepWorld; split <;> rfl

theorem stepThread_db {Q : DB → Prop} (h : DbInv Q) (c : CSess) (tid : Nat) (f : Bool) (hc : Q c.s.w.db) :
    Q (stepThread c tid f).1.s.w.db := by
  unfold stepThread
  split
  · exact hc
  · exact hc
  · rename_i e k _
    show Q (finishMem _ _).2.db
    rw [finishMem_db]
    exact h.effInv (stepWorld c f) e (by show Q (stepWorld c f).db; rw [stepWorld_db]; exact hc)

theorem spawn_db {Q : DB → Prop} (c c' : CSess) (tid : Nat) (op : Op) (h : spawn c tid op = some c') (hc : Q c.s.w.db) :
    Q c'.s.w.db := by
  unfold spawn at h
  split at h
  · cases h
  · split at h
    · split at h
      · simp only [Option.map_eq_some_iff] at h
        obtain ⟨_, _, rfl⟩ := h; exact hc
      · cases h
    · simp only [Option.map_eq_some_iff] at h
      obtain ⟨_, _, rfl⟩ := h; exact hc

theorem applyCEvt_db {Q : DB → Prop} (h : DbInv Q) (c : CSess) (e : CEvt) (hc : Q c.s.w.db) : Q (applyCEvt c e).s.w.db := by
  cases e with
  | spawn tid op =>
    simp only [applyCEvt]
    cases hs : spawn c tid op with
    | none => exact hc
    | some c' => exact spawn_db c c' tid op hs hc
  | step tid f => exact stepThread_db h c tid f hc
  | crash => exact hc
  | seq op => exact applyOp_db h c.s op hc
  | script a => exact hc

/-- Any storage invariant holds after any sequence of arrivals, scheduler steps, injected storage errors, process
    kills and undisturbed operations. -/
theorem runCEvts_db {Q : DB → Prop} (h : DbInv Q) (c : CSess) (evts : List CEvt) (hc : Q c.s.w.db) :
    Q (runCEvts c evts).s.w.db := by
  induction evts generalizing c with
  | nil => exact hc
  | cons e rest ih => exact ih _ (applyCEvt_db h c e hc)

/-- A process kill leaves the tables exactly as the last completed call left them. -/
theorem crashAll_db (c : CSess) : (crashAll c).s.w.db = c.s.w.db := rfl

end Gonuts.Model.Mint
