import Gonuts.Lemmas.Nut10Parse
/-!
  Lemmas.Nut10RoundTrip — what `nut10.SerializeSecret` writes, `nut10.DeserializeSecret` reads back as the same value,
  for EVERY kind, nonce, data and tag list (any characters: quotes, backslashes, control characters, `<>&`, U+2028/9,
  anything else): `parseSecret (serializeSecret k n d t) = some ⟨k, n, d, tagsOf t⟩`.

  Three layers, each by induction over the printed structure: the lexer over the printed characters (`lex_*`), string
  unquoting over the escaped characters (`unquote_escape`), the stack parser over the printed tokens (`prun_*`), then the
  decoder on the resulting tree.  Core Lean only.
-/
namespace Gonuts.Model.Nut10Parse
open Gonuts.Model.GoJson Gonuts.Model.Spend

/-! ## 1. escaping and unquoting -/

theorem hexVal_hexDigit : ∀ n, n < 16 → GoJson.hexVal? (hexDigit n) = some n := by decide

theorem hex4_u4 (n : Nat) (h : n < 65536) :
    hex4? (hexDigit (n / 4096 % 16)) (hexDigit (n / 256 % 16)) (hexDigit (n / 16 % 16)) (hexDigit (n % 16)) = some n := by
  unfold hex4?
  rw [hexVal_hexDigit _ (by omega), hexVal_hexDigit _ (by omega), hexVal_hexDigit _ (by omega), hexVal_hexDigit _ (by omega)]
  simp only [Option.some.injEq]
  omega

/-- characters the lexer takes as ordinary string content -/
def SafeCh (c : Char) : Prop := c ≠ '"' ∧ c ≠ '\\' ∧ ¬ c.toNat < 0x20

instance (c : Char) : Decidable (SafeCh c) := by unfold SafeCh; infer_instance

theorem safe_hexDigit : ∀ n, n < 16 → SafeCh (hexDigit n) := by decide

theorem lex_safe {c : Char} (h : SafeCh c) (a t : List Char) (acc : List Tok) :
    lex (.inStr a false) (c :: t) acc = lex (.inStr (c :: a) false) t acc := by
  obtain ⟨h1, h2, h3⟩ := h
  rw [lex_inStr]
  simp [h1, h2, h3]

theorem lex_esc (x : Char) (a t : List Char) (acc : List Tok) :
    lex (.inStr a false) ('\\' :: x :: t) acc = lex (.inStr (x :: '\\' :: a) false) t acc := by
  rw [lex_inStr]
  have : ('\\' == '"') = false := by decide
  simp only [Bool.false_eq_true, ↓reduceIte, this, beq_self_eq_true]
  rw [lex_inStr]
  simp

theorem shortEsc_ne_u {c x : Char} (h : shortEsc? c = some x) : x ≠ 'u' := by
  unfold shortEsc? at h
  repeat' split at h
  all_goals first | (injection h with h; subst h; decide) | cases h

theorem shortEsc_none_safe {c : Char} (h : shortEsc? c = none) (hu : needsU c = false) : SafeCh c := by
  unfold shortEsc? at h
  simp only [needsU, Bool.or_eq_false_iff, decide_eq_false_iff_not] at hu
  refine ⟨?_, ?_, hu.1.1.1.1.1⟩
  · intro hc; simp [hc] at h
  · intro hc; subst hc; simp at h

theorem needsU_lt {c : Char} (hu : needsU c = true) : c.toNat < 65536 ∧ isSurrogate c.toNat = false := by
  simp only [needsU, Bool.or_eq_true, decide_eq_true_eq, beq_iff_eq] at hu
  rcases hu with ((((h | h) | h) | h) | h) | h
  · refine ⟨by omega, ?_⟩
    simp only [isSurrogate, Bool.and_eq_false_iff, decide_eq_false_iff_not]; left; omega
  all_goals (subst h; decide)

/-- the lexer walks over one escaped character -/
theorem lex_escapeChar (c : Char) (a t : List Char) (acc : List Tok) :
    lex (.inStr a false) (escapeChar c ++ t) acc = lex (.inStr ((escapeChar c).reverse ++ a) false) t acc := by
  unfold escapeChar
  cases hs : shortEsc? c with
  | some x => simp only [List.cons_append, List.nil_append]; rw [lex_esc]; rfl
  | none =>
    simp only
    cases hu : needsU c with
    | true =>
      simp only [↓reduceIte, u4, List.cons_append, List.nil_append]
      rw [lex_esc, lex_safe (safe_hexDigit _ (by omega)), lex_safe (safe_hexDigit _ (by omega)),
        lex_safe (safe_hexDigit _ (by omega)), lex_safe (safe_hexDigit _ (by omega))]
      rfl
    | false =>
      simp only [Bool.false_eq_true, ↓reduceIte, List.cons_append, List.nil_append]
      rw [lex_safe (shortEsc_none_safe hs hu)]; rfl

theorem lex_escapeChars (s a t : List Char) (acc : List Tok) :
    lex (.inStr a false) (escapeChars s ++ ('"' :: t)) acc = lex .between t (Tok.str (a.reverse ++ escapeChars s) :: acc) := by
  induction s generalizing a with
  | nil =>
    simp only [escapeChars, List.nil_append, List.append_nil]
    rw [lex_inStr]; simp
  | cons c s ih =>
    simp only [escapeChars, List.append_assoc]
    rw [lex_escapeChar, ih]
    simp [List.reverse_append]

/-- a printed string is one string token -/
theorem lex_goQuote (s : String) (t : List Char) (acc : List Tok) :
    lex .between (goQuote s ++ t) acc = lex .between t (Tok.str (escapeChars s.toList) :: acc) := by
  unfold goQuote
  rw [List.cons_append, lex_between]
  have : startTok '"' = some (.inStr [] false, []) := rfl
  rw [this]
  simp only [List.nil_append, List.append_assoc, List.cons_append]
  rw [lex_escapeChars]; rfl

theorem unescape_short {c x : Char} (h : shortEsc? c = some x) (t : List Char) :
    unescape ('\\' :: x :: t) = (unescape t).map (Unit16.ch c :: ·) := by
  rw [unescape.eq_3 _ _ (fun a b c d r hx _ => shortEsc_ne_u h hx)]
  unfold shortEsc? at h
  repeat' split at h
  all_goals first | (injection h with h; subst h; subst_vars; rfl) | cases h

theorem unescape_escapeChar (c : Char) (t : List Char) :
    unescape (escapeChar c ++ t) = (unescape t).map (Unit16.ch c :: ·) := by
  unfold escapeChar
  cases hs : shortEsc? c with
  | some x => simpa using unescape_short hs t
  | none =>
    simp only
    cases hu : needsU c with
    | true =>
      obtain ⟨hlt, hsur⟩ := needsU_lt hu
      simp only [↓reduceIte, u4, List.cons_append, List.nil_append]
      rw [unescape.eq_2, hex4_u4 _ hlt]
      cases unescape t with
      | none => rfl
      | some r => simp [hsur, Char.ofNat_toNat]
    | false =>
      have hne : c ≠ '\\' := (shortEsc_none_safe hs hu).2.1
      simp only [Bool.false_eq_true, ↓reduceIte, List.cons_append, List.nil_append]
      rw [unescape.eq_5] <;> intros <;> contradiction

theorem unescape_escapeChars (s : List Char) : unescape (escapeChars s) = some (s.map Unit16.ch) := by
  induction s with
  | nil => rfl
  | cons c s ih => simp [escapeChars, unescape_escapeChar, ih]

theorem combine_chs (s : List Char) : combine none (s.map Unit16.ch) = s := by
  induction s with
  | nil => rfl
  | cons c s ih => simp [combine, ih]

theorem unquote_escape (s : String) : unquote (escapeChars s.toList) = some s := by
  simp [unquote, unescape_escapeChars, combine_chs]

/-! ## 2. the printed text as tokens -/

def tokStr (s : String) : Tok := .str (escapeChars s.toList)

def toksStrsTail : List String → List Tok
  | [] => [.rbrack]
  | s :: rest => .comma :: tokStr s :: toksStrsTail rest

def toksStrs : Option (List String) → List Tok
  | none => [.null]
  | some [] => [.lbrack, .rbrack]
  | some (s :: rest) => .lbrack :: tokStr s :: toksStrsTail rest

def toksRowsTail : List (Option (List String)) → List Tok
  | [] => [.rbrack]
  | r :: rest => .comma :: (toksStrs r ++ toksRowsTail rest)

def toksRows : Option (List (Option (List String))) → List Tok
  | none => [.null]
  | some [] => [.lbrack, .rbrack]
  | some (r :: rest) => .lbrack :: (toksStrs r ++ toksRowsTail rest)

theorem lex_null (t : List Char) (acc : List Tok) :
    lex .between ('n' :: 'u' :: 'l' :: 'l' :: t) acc = lex .between t (Tok.null :: acc) := rfl
theorem lex_lbrack (t : List Char) (acc : List Tok) : lex .between ('[' :: t) acc = lex .between t (Tok.lbrack :: acc) := rfl
theorem lex_rbrack (t : List Char) (acc : List Tok) : lex .between (']' :: t) acc = lex .between t (Tok.rbrack :: acc) := rfl
theorem lex_comma (t : List Char) (acc : List Tok) : lex .between (',' :: t) acc = lex .between t (Tok.comma :: acc) := rfl

theorem lex_printStrsTail (xs : List String) (t : List Char) (acc : List Tok) :
    lex .between (printStrsTail xs ++ t) acc = lex .between t ((toksStrsTail xs).reverse ++ acc) := by
  induction xs generalizing acc with
  | nil => simp only [printStrsTail, toksStrsTail, List.cons_append, List.nil_append]; rw [lex_rbrack]; rfl
  | cons s xs ih =>
    simp only [printStrsTail, toksStrsTail, List.cons_append, List.append_assoc]
    rw [lex_comma, lex_goQuote, ih]
    simp [tokStr]

theorem lex_printStrs (r : Option (List String)) (t : List Char) (acc : List Tok) :
    lex .between (printStrs r ++ t) acc = lex .between t ((toksStrs r).reverse ++ acc) := by
  match r with
  | none => simp only [printStrs, toksStrs, List.cons_append, List.nil_append]; rw [lex_null]; rfl
  | some [] => simp only [printStrs, toksStrs, List.cons_append, List.nil_append]; rw [lex_lbrack, lex_rbrack]; rfl
  | some (s :: rest) =>
    simp only [printStrs, toksStrs, List.cons_append, List.append_assoc]
    rw [lex_lbrack, lex_goQuote, lex_printStrsTail]
    simp [tokStr]

theorem lex_printRowsTail (rs : List (Option (List String))) (t : List Char) (acc : List Tok) :
    lex .between (printRowsTail rs ++ t) acc = lex .between t ((toksRowsTail rs).reverse ++ acc) := by
  induction rs generalizing acc with
  | nil => simp only [printRowsTail, toksRowsTail, List.cons_append, List.nil_append]; rw [lex_rbrack]; rfl
  | cons r rs ih =>
    simp only [printRowsTail, toksRowsTail, List.cons_append, List.append_assoc]
    rw [lex_comma, lex_printStrs, ih]
    simp

theorem lex_printRows (tg : Option (List (Option (List String)))) (t : List Char) (acc : List Tok) :
    lex .between (printRows tg ++ t) acc = lex .between t ((toksRows tg).reverse ++ acc) := by
  match tg with
  | none => simp only [printRows, toksRows, List.cons_append, List.nil_append]; rw [lex_null]; rfl
  | some [] => simp only [printRows, toksRows, List.cons_append, List.nil_append]; rw [lex_lbrack, lex_rbrack]; rfl
  | some (r :: rest) =>
    simp only [printRows, toksRows, List.cons_append, List.append_assoc]
    rw [lex_lbrack, lex_printStrs, lex_printRowsTail]
    simp

/-- the tokens of a serialised secret -/
def toksSecret (k : Kind) (nonce data : String) (tags : Option (List (Option (List String)))) : List Tok :=
  [.lbrack, .str (kindString k).toList, .comma, .lbrace, .str ['n', 'o', 'n', 'c', 'e'], .colon, tokStr nonce, .comma,
   .str ['d', 'a', 't', 'a'], .colon, tokStr data, .comma, .str ['t', 'a', 'g', 's'], .colon] ++ toksRows tags ++ [.rbrace, .rbrack]

theorem lex_head (k : Kind) (t : List Char) (acc : List Tok) :
    lex .between (['[', '"'] ++ ((kindString k).toList ++ (['"', ',', ' ', '{', '"', 'n', 'o', 'n', 'c', 'e', '"', ':'] ++ t))) acc
      = lex .between t (Tok.colon :: Tok.str ['n', 'o', 'n', 'c', 'e'] :: Tok.lbrace :: Tok.comma :: Tok.str (kindString k).toList :: Tok.lbrack :: acc) := by
  cases k <;> rfl

theorem lex_data (t : List Char) (acc : List Tok) :
    lex .between ([',', '"', 'd', 'a', 't', 'a', '"', ':'] ++ t) acc = lex .between t (Tok.colon :: Tok.str ['d', 'a', 't', 'a'] :: Tok.comma :: acc) := rfl

theorem lex_tags (t : List Char) (acc : List Tok) :
    lex .between ([',', '"', 't', 'a', 'g', 's', '"', ':'] ++ t) acc = lex .between t (Tok.colon :: Tok.str ['t', 'a', 'g', 's'] :: Tok.comma :: acc) := rfl

theorem tokens_serialize (k : Kind) (nonce data : String) (tags : Option (List (Option (List String)))) :
    tokens (serializeChars k nonce data tags) = some (toksSecret k nonce data tags) := by
  unfold tokens serializeChars
  rw [lex_head, lex_goQuote, lex_data, lex_goQuote, lex_tags, lex_printRows]
  have hend (acc : List Tok) : lex .between ['}', ']'] acc = some (Tok.rbrack :: Tok.rbrace :: acc).reverse := rfl
  rw [hend]
  simp [toksSecret, tokStr]

/-! ## 3. the parser over the printed tokens -/

def jvStrs : Option (List String) → JV
  | none => .null
  | some xs => .arr (xs.map JV.str)

def jvRows : Option (List (Option (List String))) → JV
  | none => .null
  | some rs => .arr (rs.map jvStrs)

/-- continue after a complete value -/
def cont (S : List Frame) (v : JV) (rest : List Tok) : Option JV := prun (finish S v).1 (finish S v).2 rest

theorem prun_cons (S : List Frame) (st : PSt) (t : Tok) (ts : List Tok) :
    prun S st (t :: ts) = prun (pstep S st t).1 (pstep S st t).2 ts := by
  cases st <;> rfl

theorem pstep_value_str (S : List Frame) (s : String) : pstep S .value (tokStr s) = finish S (.str s) := by
  simp [pstep, startValue, tokStr, unquote_escape]

theorem pstep_voc_str (S : List Frame) (s : String) : pstep S .valueOrClose (tokStr s) = finish S (.str s) := by
  simp [pstep, startValue, tokStr, unquote_escape]

theorem prun_strsTail (xs : List String) (done : List JV) (S : List Frame) (rest : List Tok) :
    prun (.arr done :: S) .afterElem (toksStrsTail xs ++ rest) = cont S (.arr (done.reverse ++ xs.map JV.str)) rest := by
  induction xs generalizing done with
  | nil => simp [toksStrsTail, prun_cons, pstep, cont]
  | cons s xs ih =>
    simp only [toksStrsTail, List.cons_append, prun_cons]
    have h1 : pstep (.arr done :: S) .afterElem .comma = (.arr done :: S, .value) := rfl
    rw [h1]; simp only
    rw [pstep_value_str]
    have h2 : finish (.arr done :: S) (.str s) = (.arr (.str s :: done) :: S, .afterElem) := rfl
    rw [h2]; simp only
    rw [ih]; simp

/-- a `[]string` value, wherever a value may start -/
theorem prun_strs (r : Option (List String)) (S : List Frame) (rest : List Tok) :
    prun S .value (toksStrs r ++ rest) = cont S (jvStrs r) rest ∧
    prun S .valueOrClose (toksStrs r ++ rest) = cont S (jvStrs r) rest := by
  match r with
  | none => constructor <;> simp [toksStrs, prun_cons, pstep, startValue, cont, jvStrs]
  | some [] => constructor <;> simp [toksStrs, prun_cons, pstep, startValue, cont, jvStrs]
  | some (s :: xs) =>
    have key : prun (.arr [] :: S) .valueOrClose (tokStr s :: (toksStrsTail xs ++ rest)) = cont S (jvStrs (some (s :: xs))) rest := by
      rw [prun_cons, pstep_voc_str]
      have h2 : finish (.arr [] :: S) (.str s) = (.arr [.str s] :: S, .afterElem) := rfl
      rw [h2]; simp only
      rw [prun_strsTail]; simp [jvStrs]
    constructor
    · simp only [toksStrs, List.cons_append, prun_cons]
      have h1 : pstep S .value .lbrack = (.arr [] :: S, .valueOrClose) := rfl
      rw [h1]; exact key
    · simp only [toksStrs, List.cons_append, prun_cons]
      have h1 : pstep S .valueOrClose .lbrack = (.arr [] :: S, .valueOrClose) := by
        cases S with
        | nil => rfl
        | cons f S => cases f <;> rfl
      rw [h1]; exact key

theorem finish_arr (done : List JV) (S : List Frame) (v : JV) : finish (.arr done :: S) v = (.arr (v :: done) :: S, .afterElem) := rfl

theorem cont_arr (done : List JV) (S : List Frame) (v : JV) (rest : List Tok) :
    cont (.arr done :: S) v rest = prun (.arr (v :: done) :: S) .afterElem rest := rfl

theorem prun_rowsTail (rs : List (Option (List String))) (done : List JV) (S : List Frame) (rest : List Tok) :
    prun (.arr done :: S) .afterElem (toksRowsTail rs ++ rest) = cont S (.arr (done.reverse ++ rs.map jvStrs)) rest := by
  induction rs generalizing done with
  | nil => simp [toksRowsTail, prun_cons, pstep, cont]
  | cons r rs ih =>
    simp only [toksRowsTail, List.cons_append, List.append_assoc, prun_cons]
    have h1 : pstep (.arr done :: S) .afterElem .comma = (.arr done :: S, .value) := rfl
    rw [h1]; simp only
    rw [(prun_strs r _ _).1, cont_arr, ih]; simp

theorem prun_rows (tg : Option (List (Option (List String)))) (S : List Frame) (rest : List Tok) :
    prun S .value (toksRows tg ++ rest) = cont S (jvRows tg) rest := by
  match tg with
  | none => simp [toksRows, prun_cons, pstep, startValue, cont, jvRows]
  | some [] => simp [toksRows, prun_cons, pstep, startValue, cont, jvRows]
  | some (r :: rs) =>
    simp only [toksRows, List.cons_append, List.append_assoc, prun_cons]
    have h1 : pstep S .value .lbrack = (.arr [] :: S, .valueOrClose) := rfl
    rw [h1]; simp only
    rw [(prun_strs r _ _).2, cont_arr, prun_rowsTail]; simp [jvRows]

/-- the tree of a serialised secret -/
def jvSecret (k : Kind) (nonce data : String) (tags : Option (List (Option (List String)))) : JV :=
  .arr [.str (kindString k), .obj [("nonce", .str nonce), ("data", .str data), ("tags", jvRows tags)]]

theorem unquote_kind (k : Kind) : unquote (kindString k).toList = some (kindString k) := by cases k <;> decide

theorem prun_secret (k : Kind) (nonce data : String) (tags : Option (List (Option (List String)))) :
    prun [] .value (toksSecret k nonce data tags) = some (jvSecret k nonce data tags) := by
  have hn : unquote ['n', 'o', 'n', 'c', 'e'] = some "nonce" := by decide
  have hd : unquote ['d', 'a', 't', 'a'] = some "data" := by decide
  have ht : unquote ['t', 'a', 'g', 's'] = some "tags" := by decide
  unfold toksSecret
  simp only [List.cons_append, List.nil_append, prun_cons]
  simp only [pstep, startValue, startKey, finish, unquote_kind, hn, hd, ht, tokStr, unquote_escape, if_true]
  rw [prun_rows]
  simp [cont, finish, prun_cons, pstep, prun, jvSecret]

/-! ## 4. the decoder on the printed tree -/

theorem intoStrings_strs (xs : List String) (old : List String) : intoStrings old (xs.map JV.str) = some xs := by
  induction xs generalizing old with
  | nil => rfl
  | cons s xs ih => simp [intoStrings, intoString, ih]

theorem intoStringList_jvStrs (r : Option (List String)) (old : List String) : intoStringList old (jvStrs r) = some (r.getD []) := by
  cases r with
  | none => rfl
  | some xs => simpa [jvStrs, intoStringList] using intoStrings_strs xs old

theorem intoStringLists_rows (rs : List (Option (List String))) (old : List (List String)) :
    intoStringLists old (rs.map jvStrs) = some (rs.map (·.getD [])) := by
  induction rs generalizing old with
  | nil => rfl
  | cons r rs ih => simp [intoStringLists, intoStringList_jvStrs, ih]

theorem intoStringListList_jvRows (tg : Option (List (Option (List String)))) (old : List (List String)) :
    intoStringListList old (jvRows tg) = some (tagsOf tg) := by
  cases tg with
  | none => rfl
  | some rs => simpa [jvRows, intoStringListList, tagsOf] using intoStringLists_rows rs old

theorem kindOf_kindString (k : Kind) : kindOf (kindString k) = k := by cases k <;> decide

theorem decode_jvSecret (k : Kind) (nonce data : String) (tags : Option (List (Option (List String)))) :
    decodeSecret (jvSecret k nonce data tags) = some ⟨k, nonce, data, tagsOf tags⟩ := by
  have h1 : nameIs "nonce" "nonce" = true := by decide
  have h2 : nameIs "data" "nonce" = false := by decide
  have h3 : nameIs "data" "data" = true := by decide
  have h4 : nameIs "tags" "nonce" = false := by decide
  have h5 : nameIs "tags" "data" = false := by decide
  have h6 : nameIs "tags" "tags" = true := by decide
  simp [jvSecret, decodeSecret, intoString, intoSecretData, setMembers, setMember, h1, h2, h3, h4, h5, h6,
    intoStringListList_jvRows, kindOf_kindString]

/-- **round trip**: what `SerializeSecret` writes is read back by `DeserializeSecret` as the same kind, nonce, data
    and tags — for every string content -/
theorem parse_serialize (k : Kind) (nonce data : String) (tags : Option (List (Option (List String)))) :
    parseSecret (serializeSecret k nonce data tags) = some ⟨k, nonce, data, tagsOf tags⟩ := by
  unfold parseSecret parse serializeSecret
  rw [String.toList_ofList, tokens_serialize]
  simp only
  rw [prun_secret]
  exact decode_jvSecret k nonce data tags

end Gonuts.Model.Nut10Parse
