import Gonuts.Spec.Bytes
/-! Lemmas about the byte / hex helpers of `Gonuts.Spec.Bytes` (core Lean only). -/
namespace Gonuts.Spec

@[simp] theorem natToBE_length (len n : Nat) : (natToBE len n).length = len := by
  induction len generalizing n with
  | zero => rfl
  | succ k ih => simp [natToBE, ih]

@[simp] theorem le32_length (n : Nat) : (le32 n).length = 4 := rfl
@[simp] theorem be32_length (n : Nat) : (be32 n).length = 4 := rfl

theorem ofNat_mod_inj {a b : Nat} (h : UInt8.ofNat (a % 256) = UInt8.ofNat (b % 256)) : a % 256 = b % 256 := by
  have := congrArg UInt8.toNat h
  simp only [UInt8.toNat_ofNat'] at this
  omega

/-- The little-endian 4-byte encoding is injective below `2^32`. -/
theorem le32_injective {a b : Nat} (ha : a < 2 ^ 32) (hb : b < 2 ^ 32) (h : le32 a = le32 b) : a = b := by
  simp only [le32, List.cons.injEq, and_true] at h
  obtain ⟨h0, h1, h2, h3⟩ := h
  have := ofNat_mod_inj h0
  have := ofNat_mod_inj h1
  have := ofNat_mod_inj h2
  have := ofNat_mod_inj h3
  omega

/-- The big-endian 4-byte encoding (BIP32 `ser32`) is injective below `2^32`. -/
theorem be32_injective {a b : Nat} (ha : a < 2 ^ 32) (hb : b < 2 ^ 32) (h : be32 a = be32 b) : a = b := by
  simp only [be32, List.cons.injEq, and_true] at h
  obtain ⟨h3, h2, h1, h0⟩ := h
  have := ofNat_mod_inj h0
  have := ofNat_mod_inj h1
  have := ofNat_mod_inj h2
  have := ofNat_mod_inj h3
  omega

theorem hexChars_length (bs : Bytes) : (hexChars bs).length = 2 * bs.length := by
  induction bs with
  | nil => rfl
  | cons b bs ih => simp [hexChars, ih]; omega

theorem hexDigit_mem {n : Nat} (h : n < 16) : hexDigit n ∈ hexDigits := by
  have : n = 0 ∨ n = 1 ∨ n = 2 ∨ n = 3 ∨ n = 4 ∨ n = 5 ∨ n = 6 ∨ n = 7 ∨ n = 8 ∨ n = 9 ∨ n = 10 ∨ n = 11 ∨
      n = 12 ∨ n = 13 ∨ n = 14 ∨ n = 15 := by omega
  rcases this with h | h | h | h | h | h | h | h | h | h | h | h | h | h | h | h <;> subst h <;> decide

/-- Hex text consists of the sixteen lowercase digits only. -/
theorem hexChars_mem {bs : Bytes} {c : Char} (h : c ∈ hexChars bs) : c ∈ hexDigits := by
  induction bs with
  | nil => simp [hexChars] at h
  | cons b bs ih =>
    simp only [hexChars, List.mem_cons] at h
    have hb : b.toNat < 256 := b.toNat_lt
    rcases h with h | h | h
    · subst h; exact hexDigit_mem (by omega)
    · subst h; exact hexDigit_mem (by omega)
    · exact ih h

theorem beNat_foldl (bs : Bytes) (a : Nat) :
    bs.foldl (fun a b => a * 256 + b.toNat) a = a * 256 ^ bs.length + beNat bs := by
  induction bs generalizing a with
  | nil => simp [beNat]
  | cons b bs ih =>
    simp only [List.foldl_cons, List.length_cons, beNat]
    rw [ih, ih (0 * 256 + b.toNat)]
    simp only [Nat.zero_mul, Nat.zero_add, Nat.pow_succ]
    rw [Nat.add_mul, Nat.mul_assoc, Nat.mul_comm 256, Nat.add_assoc]

theorem beNat_append (xs ys : Bytes) : beNat (xs ++ ys) = beNat xs * 256 ^ ys.length + beNat ys := by
  unfold beNat
  rw [List.foldl_append, beNat_foldl]
  rfl

theorem beNat_cons (b : UInt8) (bs : Bytes) : beNat (b :: bs) = b.toNat * 256 ^ bs.length + beNat bs := by
  have := beNat_append [b] bs
  simpa [beNat] using this

/-- `beNat` of `k` bytes is below `256^k`. -/
theorem beNat_lt (bs : Bytes) : beNat bs < 256 ^ bs.length := by
  induction bs with
  | nil => simp [beNat]
  | cons b bs ih =>
    rw [beNat_cons, List.length_cons, Nat.pow_succ]
    have hb : b.toNat + 1 ≤ 256 := b.toNat_lt
    have h2 : (b.toNat + 1) * 256 ^ bs.length ≤ 256 * 256 ^ bs.length := Nat.mul_le_mul_right _ hb
    rw [Nat.add_mul, Nat.one_mul] at h2
    rw [Nat.mul_comm (256 ^ bs.length) 256]
    omega

/-- Round trip: `parse256 (ser256 n) = n` for `n < 256^len`. -/
theorem beNat_natToBE (len n : Nat) (h : n < 256 ^ len) : beNat (natToBE len n) = n := by
  induction len generalizing n with
  | zero => simp [natToBE, beNat] at *; omega
  | succ k ih =>
    simp only [natToBE]
    rw [beNat_append]
    have hk : n / 256 < 256 ^ k := by
      rw [Nat.pow_succ] at h
      exact Nat.div_lt_of_lt_mul (by rw [Nat.mul_comm]; exact h)
    rw [ih _ hk]
    have : beNat [UInt8.ofNat (n % 256)] = n % 256 := by
      simp only [beNat, List.foldl_cons, List.foldl_nil, Nat.zero_mul, Nat.zero_add, UInt8.toNat_ofNat']
      omega
    rw [this]
    simp only [List.length_cons, List.length_nil, Nat.pow_succ, Nat.pow_zero, Nat.one_mul]
    omega

/-- Fixed-width big-endian encoding is injective below `256^len`. -/
theorem natToBE_injective {len a b : Nat} (ha : a < 256 ^ len) (hb : b < 256 ^ len)
    (h : natToBE len a = natToBE len b) : a = b := by
  rw [← beNat_natToBE len a ha, ← beNat_natToBE len b hb, h]

/-- Round trip in the other direction: re-encoding the value of `len` bytes gives the bytes back. -/
theorem natToBE_beNat (len : Nat) (bs : Bytes) (h : bs.length = len) : natToBE len (beNat bs) = bs := by
  induction len generalizing bs with
  | zero =>
    have : bs = [] := List.eq_nil_of_length_eq_zero h
    subst this; rfl
  | succ k ih =>
    have hne : bs ≠ [] := by intro e; subst e; simp at h
    have hsplit := List.dropLast_concat_getLast hne
    have hlen : bs.dropLast.length = k := by rw [List.length_dropLast]; omega
    generalize hb : bs.getLast hne = b at hsplit
    rw [← hsplit]
    simp only [natToBE, beNat_append]
    have e1 : beNat [b] = b.toNat := by simp [beNat]
    have hb256 : b.toNat < 256 := b.toNat_lt
    rw [e1]
    simp only [List.length_cons, List.length_nil, Nat.pow_succ, Nat.pow_zero, Nat.one_mul, Nat.zero_add]
    have d : (beNat bs.dropLast * 256 + b.toNat) / 256 = beNat bs.dropLast := by omega
    have m : (beNat bs.dropLast * 256 + b.toNat) % 256 = b.toNat := by omega
    rw [d, m, ih _ hlen, UInt8.ofNat_toNat]

end Gonuts.Spec
