import Gonuts.Lemmas.Select
import Gonuts.Lemmas.SplitTarget
/-!
  Helper lemmas about the `swapToSend` arithmetic and `getProofsForAmount` (`Model.Select`).
-/
namespace Gonuts.Model.Select
open Gonuts.Model

theorem feesForCount_toNat (n : Nat) (ppk : UInt64) :
    (feesForCount n ppk).toNat = (((n * ppk.toNat) % 2 ^ 64 + 999) % 2 ^ 64) / 1000 := by
  unfold feesForCount
  rw [feesOfPpks_toNat, natSum_replicate]

theorem feesForCount_exact {n : Nat} {ppk : UInt64} (h : n * ppk.toNat + 999 < 2 ^ 64) :
    (feesForCount n ppk).toNat = ceilDiv1000 (n * ppk.toNat) := by
  unfold feesForCount
  rw [feesOfPpks_exact _ (by rw [natSum_replicate]; exact h), natSum_replicate]

theorem feesForCount_mono {n k : Nat} {ppk : UInt64} (hnk : n ≤ k) (h : k * ppk.toNat + 999 < 2 ^ 64) :
    (feesForCount n ppk).toNat ≤ (feesForCount k ppk).toNat := by
  have hle : n * ppk.toNat ≤ k * ppk.toNat := Nat.mul_le_mul_right _ hnk
  rw [feesForCount_exact h, feesForCount_exact (by omega)]
  exact ceilDiv1000_mono hle

theorem amountSplit_zero : amountSplit 0 = [] := by decide

theorem amountSplit_ne_nil {a : UInt64} (h : a ≠ 0) : amountSplit a ≠ [] := by
  intro hn
  have := amountSplit_natSum a
  rw [hn] at this
  exact h (UInt64.toNat_inj.1 (by simpa using this.symm))

/-- The proofs handed over by the swap path are worth `amount + feesToReceive`, in ℕ. -/
theorem sendSplit_natSum (ppk amount : UInt64) (inc : Bool) :
    natSum (sendSplit ppk amount inc) = amount.toNat + (feesToReceive ppk amount inc).toNat := by
  unfold sendSplit
  rw [natSum_sortU64, natSum_append, amountSplit_natSum, amountSplit_natSum]

theorem sendSplit_length (ppk amount : UInt64) (inc : Bool) :
    (sendSplit ppk amount inc).length =
      (amountSplit amount).length + (amountSplit (feesToReceive ppk amount inc)).length := by
  unfold sendSplit
  rw [(sortU64_perm _).length_eq, List.length_append]

theorem feesToReceive_nofee (ppk amount : UInt64) : feesToReceive ppk amount false = 0 := rfl

/-- The estimate added to the amount never exceeds the fee of the proofs actually sent (it is the fee of
    `popcount(amount) + 1` proofs; `popcount(amount) + popcount(estimate)` are sent). -/
theorem feesToReceive_le_sent (ppk amount : UInt64) (inc : Bool)
    (h : (sendSplit ppk amount inc).length * ppk.toNat + 999 < 2 ^ 64) :
    (feesToReceive ppk amount inc).toNat ≤ (feesForCount (sendSplit ppk amount inc).length ppk).toNat := by
  cases inc with
  | false => simp [feesToReceive]
  | true =>
    by_cases h0 : feesToReceive ppk amount true = 0
    · simp [h0]
    · have hne := amountSplit_ne_nil h0
      have hlen : 1 ≤ (amountSplit (feesToReceive ppk amount true)).length := by
        cases hl : amountSplit (feesToReceive ppk amount true) with
        | nil => exact absurd hl hne
        | cons x xs => simp
      have hsl := sendSplit_length ppk amount true
      show (feesForCount ((amountSplit amount).length + 1) ppk).toNat ≤ _
      exact feesForCount_mono (by omega) h

/-! ## getProofsForAmount / swapToSend -/

theorem swapToSend_cases (srt : Sorter) (m : Mint) (inactive active : List P) (amount : UInt64) (inc : Bool) :
    (∃ e, swapToSend srt m inactive active amount inc = .err e ∧
        selectProofsForAmount srt m inactive active (amount + feesToReceive m.activePpk amount inc) true = e ∧
        ∀ ps, e ≠ .ok ps) ∨
    (∃ plan, swapToSend srt m inactive active amount inc = .swap plan ∧
        plan.send = sendSplit m.activePpk amount inc ∧
        plan.amount' = amount + feesToReceive m.activePpk amount inc ∧
        selectProofsForAmount srt m inactive active plan.amount' true = .ok plan.inputs ∧
        plan.proofsAmount = proofsAmount plan.inputs ∧
        plan.fees = feesForProofs m plan.inputs ∧
        plan.changeAmount = plan.proofsAmount - plan.amount' - plan.fees ∧
        plan.change = if plan.changeAmount > 0 then splitWalletTarget (amounts (inactive ++ active)) plan.changeAmount
                      else []) := by
  unfold swapToSend
  simp only []
  cases hres : selectProofsForAmount srt m inactive active (amount + feesToReceive m.activePpk amount inc) true with
  | ok ps => exact Or.inr ⟨_, rfl, rfl, rfl, hres, rfl, rfl, rfl, rfl⟩
  | errBalance => exact Or.inl ⟨_, rfl, rfl, fun ps h => SelResult.noConfusion h⟩
  | errFunds a f t => exact Or.inl ⟨_, rfl, rfl, fun ps h => SelResult.noConfusion h⟩

theorem getProofsForAmount_cases (srt : Sorter) (m : Mint) (inactive active : List P) (amount : UInt64) (inc : Bool) :
    (∃ e, selectProofsForAmount srt m inactive active amount inc = e ∧ (∀ ps, e ≠ .ok ps) ∧
        getProofsForAmount srt m inactive active amount inc = .err e) ∨
    (∃ sel, selectProofsForAmount srt m inactive active amount inc = .ok sel ∧
        proofsAmount sel = amount + feeOpt m inc sel ∧
        getProofsForAmount srt m inactive active amount inc = .offline sel) ∨
    (∃ sel, selectProofsForAmount srt m inactive active amount inc = .ok sel ∧
        proofsAmount sel ≠ amount + feeOpt m inc sel ∧
        getProofsForAmount srt m inactive active amount inc = swapToSend srt m inactive active amount inc) := by
  unfold getProofsForAmount
  cases hres : selectProofsForAmount srt m inactive active amount inc with
  | ok sel =>
    simp only []
    by_cases heq : proofsAmount sel = amount + feeOpt m inc sel
    · refine Or.inr (Or.inl ⟨sel, rfl, heq, ?_⟩)
      have : (proofsAmount sel == amount + (if inc = true then feesForProofs m sel else 0)) = true := by
        simpa [feeOpt] using heq
      rw [if_pos this]
    · refine Or.inr (Or.inr ⟨sel, rfl, heq, ?_⟩)
      have : ¬ (proofsAmount sel == amount + (if inc = true then feesForProofs m sel else 0)) = true := by
        simpa [feeOpt] using heq
      rw [if_neg this]
  | errBalance => exact Or.inl ⟨_, rfl, fun ps h => SelResult.noConfusion h, rfl⟩
  | errFunds a f t => exact Or.inl ⟨_, rfl, fun ps h => SelResult.noConfusion h, rfl⟩

theorem getProofsForAmount_swap {srt : Sorter} {m : Mint} {inactive active : List P} {amount : UInt64} {inc : Bool}
    {plan : SwapPlan} (h : getProofsForAmount srt m inactive active amount inc = .swap plan) :
    swapToSend srt m inactive active amount inc = .swap plan := by
  rcases getProofsForAmount_cases srt m inactive active amount inc with
    ⟨e, _, _, he⟩ | ⟨sel', _, _, ho⟩ | ⟨sel', _, _, hsw⟩
  · rw [he] at h; exact SendOutcome.noConfusion h
  · rw [ho] at h; exact SendOutcome.noConfusion h
  · rw [hsw] at h; exact h

/-- The swap request `swapToSend` builds is balanced: inputs = send outputs + change outputs + the fee of the
    inputs, in ℕ.  In particular the unchecked `proofsAmount - amount - uint64(fees)` does not wrap (by
    `select_sound` for the inputs), the mint's `proofsAmount - fees ≥ Σ outputs` test passes, and with equality:
    no value is left at the mint. -/
theorem swapToSend_balanced {srt : Sorter} (hs : srt.OK) {m : Mint} {inactive active : List P} {amount : UInt64}
    {inc : Bool} {plan : SwapPlan} (h : swapToSend srt m inactive active amount inc = .swap plan)
    (hn : NoWrap m true (inactive ++ active))
    (hA : amount.toNat + (feesToReceive m.activePpk amount inc).toNat + feeOptN m true inactive
            + feeOptN m true active < 2 ^ 64)
    (hw : (inactive ++ active).length < 2 ^ 63) :
    (∃ rest, (plan.inputs ++ rest).Perm (inactive ++ active)) ∧
    natSum plan.send = amount.toNat + (feesToReceive m.activePpk amount inc).toNat ∧
    natSum plan.send + natSum plan.change + feeN m plan.inputs = amountN plan.inputs := by
  rcases swapToSend_cases srt m inactive active amount inc with ⟨e, he, _⟩ | ⟨plan', hp, h1, h2, h3, h4, h5, h6, h7⟩
  · rw [he] at h; exact SendOutcome.noConfusion h
  · rw [hp] at h
    injection h with h
    subst h
    have ham : plan'.amount'.toNat = amount.toNat + (feesToReceive m.activePpk amount inc).toNat := by
      rw [h2, UInt64.toNat_add, Nat.mod_eq_of_lt (by omega)]
    obtain ⟨⟨rest, hperm⟩, hcov⟩ := selectProofsForAmount_ok_nat hs h3 hn (by rw [ham]; omega)
    obtain ⟨_, _, s3, s4⟩ := hn.sub hperm
    have hfe : feeOptN m true plan'.inputs = feeN m plan'.inputs := rfl
    have hfee : plan'.fees.toNat = feeN m plan'.inputs := by rw [h5]; exact s4
    have hpa : plan'.proofsAmount.toNat = amountN plan'.inputs := by rw [h4]; exact s3
    have hchange : plan'.changeAmount.toNat = amountN plan'.inputs - plan'.amount'.toNat - feeN m plan'.inputs := by
      rw [h6, UInt64.toNat_sub, UInt64.toNat_sub, hpa, hfee]
      have := plan'.amount'.toNat_lt
      have := plan'.proofsAmount.toNat_lt
      omega
    have hsend := sendSplit_natSum m.activePpk amount inc
    have hcs : natSum plan'.change = plan'.changeAmount.toNat := by
      rw [h7]
      split
      · have hl : (amounts (inactive ++ active)).length < 2 ^ 63 := by simpa [amounts] using hw
        exact (splitWalletTarget_spec _ _ hl).1
      · rename_i hz
        have : ¬ (0 < plan'.changeAmount.toNat) := fun h0 =>
          hz (by rw [gt_iff_lt, UInt64.lt_iff_toNat_lt]; simpa using h0)
        simp; omega
    refine ⟨⟨rest, hperm⟩, by rw [h1]; exact hsend, ?_⟩
    rw [h1, hsend, hcs, hchange]
    omega

theorem splitExps_length_le (fuel pos n : Nat) : (splitExps fuel pos n).length ≤ fuel := by
  induction fuel generalizing pos n with
  | zero => simp [splitExps]
  | succ fuel ih =>
    simp only [splitExps]
    split
    · simp
    · split
      · have := ih (pos + 1) (n / 2); simp only [List.length_cons]; omega
      · have := ih (pos + 1) (n / 2); omega

/-- `AmountSplit` never returns more than 64 amounts. -/
theorem amountSplit_length_le (a : UInt64) : (amountSplit a).length ≤ 64 := by
  rw [amountSplit_length]; exact splitExps_length_le 64 0 a.toNat

end Gonuts.Model.Select
