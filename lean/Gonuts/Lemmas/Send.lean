import Gonuts.Lemmas.Select
/-!
  Helper lemmas about the `swapToSend` arithmetic and `getProofsForAmount` (`Model.Select`).
-/
namespace Gonuts.Model.Select
open Gonuts.Model

theorem feesForCount_toNat (n : Nat) (ppk : UInt64) :
    (feesForCount n ppk).toNat = (((n * ppk.toNat) % 2 ^ 64 + 999) % 2 ^ 64) / 1000 := by
  unfold feesForCount
  rw [feesOfPpks_toNat, natSum_replicate]

theorem feesForCount_exact {n : Nat} {ppk : UInt64} (h : n * ppk.toNat + 999 < 2 ^ 64) :
    (feesForCount n ppk).toNat = ceilDiv1000 (n * ppk.toNat) := by
  unfold feesForCount
  rw [feesOfPpks_exact _ (by rw [natSum_replicate]; exact h), natSum_replicate]

theorem feesForCount_mono {n k : Nat} {ppk : UInt64} (hnk : n ≤ k) (h : k * ppk.toNat + 999 < 2 ^ 64) :
    (feesForCount n ppk).toNat ≤ (feesForCount k ppk).toNat := by
  have hle : n * ppk.toNat ≤ k * ppk.toNat := Nat.mul_le_mul_right _ hnk
  rw [feesForCount_exact h, feesForCount_exact (by omega)]
  exact ceilDiv1000_mono hle

theorem amountSplit_zero : amountSplit 0 = [] := by decide

theorem amountSplit_ne_nil {a : UInt64} (h : a ≠ 0) : amountSplit a ≠ [] := by
  intro hn
  have := amountSplit_natSum a
  rw [hn] at this
  exact h (UInt64.toNat_inj.1 (by simpa using this.symm))

/-- The proofs handed over by the swap path are worth `amount + feesToReceive`, in ℕ. -/
theorem sendSplit_natSum (ppk amount : UInt64) (inc : Bool) :
    natSum (sendSplit ppk amount inc) = amount.toNat + (feesToReceive ppk amount inc).toNat := by
  unfold sendSplit
  rw [natSum_sortU64, natSum_append, amountSplit_natSum, amountSplit_natSum]

theorem sendSplit_length (ppk amount : UInt64) (inc : Bool) :
    (sendSplit ppk amount inc).length =
      (amountSplit amount).length + (amountSplit (feesToReceive ppk amount inc)).length := by
  unfold sendSplit
  rw [(sortU64_perm _).length_eq, List.length_append]

theorem feesToReceive_nofee (ppk amount : UInt64) : feesToReceive ppk amount false = 0 := rfl

/-- The estimate added to the amount never exceeds the fee of the proofs actually sent (it is the fee of
    `popcount(amount) + 1` proofs; `popcount(amount) + popcount(estimate)` are sent). -/
theorem feesToReceive_le_sent (ppk amount : UInt64) (inc : Bool)
    (h : (sendSplit ppk amount inc).length * ppk.toNat + 999 < 2 ^ 64) :
    (feesToReceive ppk amount inc).toNat ≤ (feesForCount (sendSplit ppk amount inc).length ppk).toNat := by
  cases inc with
  | false => simp [feesToReceive]
  | true =>
    by_cases h0 : feesToReceive ppk amount true = 0
    · simp [h0]
    · have hne := amountSplit_ne_nil h0
      have hlen : 1 ≤ (amountSplit (feesToReceive ppk amount true)).length := by
        cases hl : amountSplit (feesToReceive ppk amount true) with
        | nil => exact absurd hl hne
        | cons x xs => simp
      have hsl := sendSplit_length ppk amount true
      show (feesForCount ((amountSplit amount).length + 1) ppk).toNat ≤ _
      exact feesForCount_mono (by omega) h

/-! ## getProofsForAmount / swapToSend -/

theorem swapToSend_cases (srt : Sorter) (m : Mint) (inactive active : List P) (amount : UInt64) (inc : Bool) :
    (∃ e, swapToSend srt m inactive active amount inc = .err e ∧
        selectProofsForAmount srt m inactive active (amount + feesToReceive m.activePpk amount inc) true = e ∧
        ∀ ps, e ≠ .ok ps) ∨
    (∃ plan, swapToSend srt m inactive active amount inc = .swap plan ∧
        plan.send = sendSplit m.activePpk amount inc ∧
        plan.amount' = amount + feesToReceive m.activePpk amount inc ∧
        selectProofsForAmount srt m inactive active plan.amount' true = .ok plan.inputs ∧
        plan.proofsAmount = proofsAmount plan.inputs ∧
        plan.fees = feesForProofs m plan.inputs ∧
        plan.changeAmount = plan.proofsAmount - plan.amount' - plan.fees ∧
        plan.change = if plan.changeAmount > 0 then splitWalletTarget (amounts (inactive ++ active)) plan.changeAmount
                      else []) := by
  unfold swapToSend
  simp only []
  cases hres : selectProofsForAmount srt m inactive active (amount + feesToReceive m.activePpk amount inc) true with
  | ok ps => exact Or.inr ⟨_, rfl, rfl, rfl, hres, rfl, rfl, rfl, rfl⟩
  | errBalance => exact Or.inl ⟨_, rfl, rfl, fun ps h => SelResult.noConfusion h⟩
  | errFunds a f t => exact Or.inl ⟨_, rfl, rfl, fun ps h => SelResult.noConfusion h⟩

theorem getProofsForAmount_cases (srt : Sorter) (m : Mint) (inactive active : List P) (amount : UInt64) (inc : Bool) :
    (∃ e, selectProofsForAmount srt m inactive active amount inc = e ∧ (∀ ps, e ≠ .ok ps) ∧
        getProofsForAmount srt m inactive active amount inc = .err e) ∨
    (∃ sel, selectProofsForAmount srt m inactive active amount inc = .ok sel ∧
        proofsAmount sel = amount + feeOpt m inc sel ∧
        getProofsForAmount srt m inactive active amount inc = .offline sel) ∨
    (∃ sel, selectProofsForAmount srt m inactive active amount inc = .ok sel ∧
        proofsAmount sel ≠ amount + feeOpt m inc sel ∧
        getProofsForAmount srt m inactive active amount inc = swapToSend srt m inactive active amount inc) := by
  unfold getProofsForAmount
  cases hres : selectProofsForAmount srt m inactive active amount inc with
  | ok sel =>
    simp only []
    by_cases heq : proofsAmount sel = amount + feeOpt m inc sel
    · refine Or.inr (Or.inl ⟨sel, rfl, heq, ?_⟩)
      have : (proofsAmount sel == amount + (if inc = true then feesForProofs m sel else 0)) = true := by
        simpa [feeOpt] using heq
      rw [if_pos this]
    · refine Or.inr (Or.inr ⟨sel, rfl, heq, ?_⟩)
      have : ¬ (proofsAmount sel == amount + (if inc = true then feesForProofs m sel else 0)) = true := by
        simpa [feeOpt] using heq
      rw [if_neg this]
  | errBalance => exact Or.inl ⟨_, rfl, fun ps h => SelResult.noConfusion h, rfl⟩
  | errFunds a f t => exact Or.inl ⟨_, rfl, fun ps h => SelResult.noConfusion h, rfl⟩

end Gonuts.Model.Select
