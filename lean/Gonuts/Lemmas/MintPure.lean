import Gonuts.Lemmas.MintRun
/-!
  Fault-free executions only depend on — and only change — the tables and the Lightning state.
  `runDL` is that projection of `Prog.run` (no trace, no fault counter); `run_eq_runDL` is the bridge.
  All operation-level reasoning (`Lemmas/MintOps.lean`) happens on `runDL`.
-/
namespace Gonuts.Model.Mint

abbrev DL := DB × LN

/-- One effect on (tables, Lightning state). -/
def stepDL {β : Type} (s : DL) (e : Eff β) : DL × β :=
  match execDb s.1 e with
  | some (db', r) => ((db', s.2), r)
  | none =>
    match execLn s.2 e with
    | some (ln', r) => ((s.1, ln'), r)
    | none => (s, e.faultValue)

def runDL {α : Type} : Prog α → DL → DL × α
  | .ret a, s => (s, a)
  | .eff e k, s => runDL (k (stepDL s e).2) (stepDL s e).1

/-- `runDL` of a `PM` program. -/
def runM {α : Type} (p : PM α) (s : DL) : DL × Except E α := runDL p.run s

theorem label_none_execDb {β : Type} (e : Eff β) (db : DB) (h : e.label = none) : execDb db e = none := by
  cases e <;> simp [Eff.label] at h <;> rfl

theorem label_some_execLn {β : Type} (e : Eff β) (ln : LN) (l : String) (h : e.label = some l) : execLn ln e = none := by
  cases e <;> simp [Eff.label] at h <;> rfl

theorem exec_eq_stepDL {β : Type} (w : World) (e : Eff β) (h : NoFault w) :
    ((exec w e).1.db, (exec w e).1.ln) = (stepDL (w.db, w.ln) e).1 ∧ (exec w e).2 = (stepDL (w.db, w.ln) e).2 ∧
    (exec w e).1.mem = w.mem ∧ (exec w e).1.cfg = w.cfg ∧ (exec w e).1.nextMintQ = w.nextMintQ ∧
    (exec w e).1.nextMeltQ = w.nextMeltQ := by
  unfold NoFault at h
  unfold exec stepDL
  cases hl : e.label with
  | some l =>
    simp only [h]
    have : (none == some w.nDb) = false := rfl
    simp only [this, Bool.false_eq_true, if_false]
    cases hd : execDb w.db e with
    | some p => obtain ⟨db', r⟩ := p; simp
    | none => simp [label_some_execLn e w.ln l hl]
  | none =>
    simp only [label_none_execDb e w.db hl]
    cases hd : execLn w.ln e with
    | some p => obtain ⟨ln', r⟩ := p; simp
    | none => simp

/-- Bridge: a fault-free run of any program is its `runDL` on (tables, Lightning state); the in-memory
    keysets, the configuration and the quote counters are untouched. -/
theorem run_eq_runDL {α : Type} (p : Prog α) (w : World) (h : NoFault w) :
    ((p.run w).1.db, (p.run w).1.ln) = (runDL p (w.db, w.ln)).1 ∧ (p.run w).2 = (runDL p (w.db, w.ln)).2 ∧
    (p.run w).1.mem = w.mem ∧ (p.run w).1.cfg = w.cfg ∧ (p.run w).1.nextMintQ = w.nextMintQ ∧
    (p.run w).1.nextMeltQ = w.nextMeltQ ∧ NoFault (p.run w).1 := by
  induction p generalizing w with
  | ret a => exact ⟨rfl, rfl, rfl, rfl, rfl, rfl, h⟩
  | eff e k ih =>
    obtain ⟨h1, h2, h3, h4, h5, h6⟩ := exec_eq_stepDL w e h
    have ih' := ih (exec w e).2 (exec w e).1 (exec_noFault w e h)
    simp only [Prog.run_eff, runDL]
    rw [← h1, ← h2]
    obtain ⟨i1, i2, i3, i4, i5, i6, i7⟩ := ih'
    exact ⟨i1, i2, i3.trans h3, i4.trans h4, i5.trans h5, i6.trans h6, i7⟩

/-! ### Equations for `runM` -/

@[simp] theorem runDL_ret {α : Type} (a : α) (s : DL) : runDL (Prog.ret a) s = (s, a) := rfl
@[simp] theorem runDL_pure {α : Type} (a : α) (s : DL) : runDL (pure a : Prog α) s = (s, a) := rfl

theorem runDL_bind {α β : Type} (p : Prog α) (f : α → Prog β) (s : DL) :
    runDL (p >>= f) s = runDL (f (runDL p s).2) (runDL p s).1 := by
  show runDL (Prog.bind p f) s = _
  induction p generalizing s with
  | ret a => rfl
  | eff e k ih => simp only [Prog.bind, runDL]; exact ih _ _

@[simp] theorem runM_pure {α : Type} (a : α) (s : DL) : runM (pure a : PM α) s = (s, .ok a) := rfl
@[simp] theorem runM_throw {α : Type} (e : E) (s : DL) : runM (throw e : PM α) s = (s, .error e) := rfl

theorem runM_bind {α β : Type} (p : PM α) (f : α → PM β) (s : DL) :
    runM (p >>= f) s =
      match runM p s with
      | (s', .ok a) => runM (f a) s'
      | (s', .error e) => (s', .error e) := by
  unfold runM
  show runDL (ExceptT.bind p f).run s = _
  unfold ExceptT.bind ExceptT.bindCont ExceptT.run ExceptT.mk
  rw [runDL_bind]
  generalize (runDL p s) = r
  obtain ⟨s', x⟩ := r
  cases x <;> rfl

@[simp] theorem runM_eff {β : Type} (e : Eff β) (s : DL) : runM (eff e) s = ((stepDL s e).1, .ok (stepDL s e).2) := rfl

theorem runM_dbTry {β : Type} (e : Eff (DbRes β)) (s : DL) :
    runM (dbTry e) s =
      match (stepDL s e).2 with
      | .ok v => ((stepDL s e).1, .ok v)
      | .error _ => ((stepDL s e).1, .error (1, "db")) := by
  unfold dbTry
  rw [runM_bind, runM_eff]
  cases (stepDL s e).2 <;> rfl

@[simp] theorem runM_failIf (c : Prop) [Decidable c] (e : E) (s : DL) :
    runM (failIf c e) s = if c then (s, .error e) else (s, .ok ()) := by
  unfold failIf; split <;> rfl

@[simp] theorem runM_liftE {α : Type} (x : Except E α) (s : DL) : runM (liftE x) s = (s, x) := by
  unfold liftE; cases x <;> rfl

@[simp] theorem runM_failOpt (v : Option E) (s : DL) :
    runM (failOpt v) s = match v with | some e => (s, .error e) | none => (s, .ok ()) := by
  unfold failOpt; cases v <;> rfl

theorem runM_lift_run {α : Type} (p : PM α) (s : DL) :
    runM (ExceptT.lift (p.run) : PM (Except E α)) s = ((runM p s).1, .ok (runM p s).2) := by
  unfold runM ExceptT.lift ExceptT.run ExceptT.mk
  show runDL (p >>= fun a => pure (Except.ok a) : Prog _) s = _
  rw [runDL_bind]; rfl

/-- Bridge for `PM` programs. -/
theorem runPM_eq_runM {α : Type} (p : PM α) (w : World) (h : NoFault w) :
    ((runPM p w).1.db, (runPM p w).1.ln) = (runM p (w.db, w.ln)).1 ∧ (runPM p w).2 = (runM p (w.db, w.ln)).2 ∧
    (runPM p w).1.mem = w.mem ∧ (runPM p w).1.cfg = w.cfg ∧ NoFault (runPM p w).1 := by
  obtain ⟨h1, h2, h3, h4, _, _, h7⟩ := run_eq_runDL p.run w h
  exact ⟨h1, h2, h3, h4, h7⟩

end Gonuts.Model.Mint

namespace Gonuts.Model.Mint
/-! ### Fused equations (statement followed by the rest of the program) -/

theorem runM_failIf_bind {β : Type} (c : Prop) [Decidable c] (e : E) (f : Unit → PM β) (s : DL) :
    runM (failIf c e >>= f) s = if c then (s, .error e) else runM (f ()) s := by
  rw [runM_bind, runM_failIf]; by_cases h : c <;> simp [h]

theorem runM_dbTry_bind {α β : Type} (e : Eff (DbRes α)) (f : α → PM β) (s : DL) :
    runM (dbTry e >>= f) s =
      match (stepDL s e).2 with
      | .ok v => runM (f v) (stepDL s e).1
      | .error _ => ((stepDL s e).1, .error (1, "db")) := by
  rw [runM_bind, runM_dbTry]; cases (stepDL s e).2 <;> rfl

theorem runM_eff_bind {α β : Type} (e : Eff α) (f : α → PM β) (s : DL) :
    runM (eff e >>= f) s = runM (f (stepDL s e).2) (stepDL s e).1 := by
  rw [runM_bind, runM_eff]

theorem runM_liftE_bind {α β : Type} (x : Except E α) (f : α → PM β) (s : DL) :
    runM (liftE x >>= f) s = match x with | .ok a => runM (f a) s | .error e => (s, .error e) := by
  rw [runM_bind, runM_liftE]; cases x <;> rfl

theorem runM_failOpt_bind {β : Type} (v : Option E) (f : Unit → PM β) (s : DL) :
    runM (failOpt v >>= f) s = match v with | some e => (s, .error e) | none => runM (f ()) s := by
  rw [runM_bind, runM_failOpt]; cases v <;> rfl

theorem runM_pure_bind {α β : Type} (a : α) (f : α → PM β) (s : DL) :
    runM (pure a >>= f) s = runM (f a) s := by
  rw [runM_bind, runM_pure]

theorem runM_throw_bind {α β : Type} (e : E) (f : α → PM β) (s : DL) :
    runM ((throw e : PM α) >>= f) s = (s, .error e) := by
  rw [runM_bind, runM_throw]

end Gonuts.Model.Mint

namespace Gonuts.Model.Mint
/-! ### Fused equations for the writing effects: the table update is exposed directly -/

theorem runM_saveProofs_bind {β : Type} (rows : List PRow) (f : Unit → PM β) (db : DB) (ln : LN) :
    runM (dbTry (.saveProofs rows) >>= f) (db, ln) =
      match insertRows db.spent rows with
      | some t => runM (f ()) ({ db with spent := t }, ln)
      | none => ((db, ln), .error (1, "db")) := by
  rw [runM_dbTry_bind]; simp only [stepDL, execDb]; cases insertRows db.spent rows <;> rfl

theorem runM_saveProofs {rows : List PRow} (db : DB) (ln : LN) :
    runM (dbTry (.saveProofs rows)) (db, ln) =
      match insertRows db.spent rows with
      | some t => (({ db with spent := t }, ln), .ok ())
      | none => ((db, ln), .error (1, "db")) := by
  rw [runM_dbTry]; simp only [stepDL, execDb]; cases insertRows db.spent rows <;> rfl

theorem runM_addPending_bind {β : Type} (rows : List PRow) (q : Nat) (f : Unit → PM β) (db : DB) (ln : LN) :
    runM (dbTry (.addPending rows q) >>= f) (db, ln) =
      match insertRows db.pending (rows.map (fun r => { r with quote := q })) with
      | some t => runM (f ()) ({ db with pending := t }, ln)
      | none => ((db, ln), .error (1, "db")) := by
  rw [runM_dbTry_bind]; simp only [stepDL, execDb]
  cases insertRows db.pending (rows.map (fun r => { r with quote := q })) <;> rfl

theorem runM_removePending_bind {β : Type} (ys : List Nat) (f : Unit → PM β) (db : DB) (ln : LN) :
    runM (dbTry (.removePending ys) >>= f) (db, ln) =
      runM (f ()) ({ db with pending := db.pending.filter (fun r => !ys.contains r.y) }, ln) := by
  rw [runM_dbTry_bind]; rfl

theorem runM_removePending (ys : List Nat) (db : DB) (ln : LN) :
    runM (dbTry (.removePending ys)) (db, ln) =
      (({ db with pending := db.pending.filter (fun r => !ys.contains r.y) }, ln), .ok ()) := by
  rw [runM_dbTry]; rfl

theorem runM_saveSigs_bind {β : Type} (sigs : List BSig) (f : Unit → PM β) (db : DB) (ln : LN) :
    runM (dbTry (.saveSigs sigs) >>= f) (db, ln) =
      match insertSigs db.sigs sigs with
      | some t => runM (f ()) ({ db with sigs := t }, ln)
      | none => ((db, ln), .error (1, "db")) := by
  rw [runM_dbTry_bind]; simp only [stepDL, execDb]; cases insertSigs db.sigs sigs <;> rfl

theorem runM_updateMintQ_bind {β : Type} (id : Nat) (st : MQState) (f : Unit → PM β) (db : DB) (ln : LN) :
    runM (dbTry (.updateMintQuoteState id st) >>= f) (db, ln) =
      if db.mintQ.any (·.id == id) then runM (f ()) ({ db with mintQ := updMintQ db.mintQ id st }, ln)
      else ((db, ln), .error (1, "db")) := by
  rw [runM_dbTry_bind]; simp only [stepDL, execDb]; by_cases h : (db.mintQ.any (·.id == id)) = true <;> simp [h]

theorem runM_updateMintQ (id : Nat) (st : MQState) (db : DB) (ln : LN) :
    runM (dbTry (.updateMintQuoteState id st)) (db, ln) =
      if db.mintQ.any (·.id == id) then (({ db with mintQ := updMintQ db.mintQ id st }, ln), .ok ())
      else ((db, ln), .error (1, "db")) := by
  rw [runM_dbTry]; simp only [stepDL, execDb]; by_cases h : (db.mintQ.any (·.id == id)) = true <;> simp [h]

theorem runM_updateMeltQ_bind {β : Type} (id pre : Nat) (st : LQState) (f : Unit → PM β) (db : DB) (ln : LN) :
    runM (dbTry (.updateMeltQuote id pre st) >>= f) (db, ln) =
      if db.meltQ.any (·.id == id) then runM (f ()) ({ db with meltQ := updMeltQ db.meltQ id pre st }, ln)
      else ((db, ln), .error (1, "db")) := by
  rw [runM_dbTry_bind]; simp only [stepDL, execDb]; by_cases h : (db.meltQ.any (·.id == id)) = true <;> simp [h]

theorem runM_updateMeltQ (id pre : Nat) (st : LQState) (db : DB) (ln : LN) :
    runM (dbTry (.updateMeltQuote id pre st)) (db, ln) =
      if db.meltQ.any (·.id == id) then (({ db with meltQ := updMeltQ db.meltQ id pre st }, ln), .ok ())
      else ((db, ln), .error (1, "db")) := by
  rw [runM_dbTry]; simp only [stepDL, execDb]; by_cases h : (db.meltQ.any (·.id == id)) = true <;> simp [h]

theorem runM_saveMintQ_bind {β : Type} (q : MintQ) (f : Unit → PM β) (db : DB) (ln : LN) :
    runM (dbTry (.saveMintQuote q) >>= f) (db, ln) =
      if high q.amount then ((db, ln), .error (1, "db"))
      else if db.mintQ.any (·.id == q.id) then ((db, ln), .error (1, "db"))
      else runM (f ()) ({ db with mintQ := db.mintQ ++ [q] }, ln) := by
  rw [runM_dbTry_bind]; simp only [stepDL, execDb]
  by_cases h1 : high q.amount = true
  · simp [h1]
  · by_cases h2 : (db.mintQ.any (·.id == q.id)) = true
    · simp [h1, h2]
    · simp [h1, h2]

theorem runM_saveMeltQ_bind {β : Type} (q : MeltQ) (f : Unit → PM β) (db : DB) (ln : LN) :
    runM (dbTry (.saveMeltQuote q) >>= f) (db, ln) =
      if (high q.amount || high q.feeReserve || high q.amountMsat) = true then ((db, ln), .error (1, "db"))
      else if db.meltQ.any (·.id == q.id) then ((db, ln), .error (1, "db"))
      else runM (f ()) ({ db with meltQ := db.meltQ ++ [q] }, ln) := by
  rw [runM_dbTry_bind]; simp only [stepDL, execDb]
  by_cases h1 : (high q.amount || high q.feeReserve || high q.amountMsat) = true
  · simp [h1]
  · by_cases h2 : (db.meltQ.any (·.id == q.id)) = true
    · simp [h1, h2]
    · simp [h1, h2]

end Gonuts.Model.Mint

namespace Gonuts.Model.Mint
/-! ### Fused equations for the reading effects and the Lightning calls -/

theorem runM_getPending_bind {β : Type} (ys : List YRef) (f : List PRow → PM β) (db : DB) (ln : LN) :
    runM (dbTry (.getPending ys) >>= f) (db, ln) = runM (f (db.pending.filter (fun r => yMatch ys r.y))) (db, ln) := by
  rw [runM_dbTry_bind]; rfl
theorem runM_getProofsUsed_bind {β : Type} (ys : List YRef) (f : List PRow → PM β) (db : DB) (ln : LN) :
    runM (dbTry (.getProofsUsed ys) >>= f) (db, ln) = runM (f (db.spent.filter (fun r => yMatch ys r.y))) (db, ln) := by
  rw [runM_dbTry_bind]; rfl
theorem runM_getPendingByQuote_bind {β : Type} (q : Nat) (f : List PRow → PM β) (db : DB) (ln : LN) :
    runM (dbTry (.getPendingByQuote q) >>= f) (db, ln) = runM (f (db.pending.filter (·.quote == q))) (db, ln) := by
  rw [runM_dbTry_bind]; rfl
theorem runM_getSigs_bind {β : Type} (bs : List Nat) (f : List BSig → PM β) (db : DB) (ln : LN) :
    runM (dbTry (.getSigs bs) >>= f) (db, ln) = runM (f (db.sigs.filter (fun s => bs.contains s.b))) (db, ln) := by
  rw [runM_dbTry_bind]; rfl
theorem runM_getIssued_bind {β : Type} (f : List (Nat × UInt64) → PM β) (db : DB) (ln : LN) :
    runM (dbTry .getIssued >>= f) (db, ln) =
      match groupSum (db.sigs.map (fun s => (s.ks, s.amount))) with
      | .ok v => runM (f v) (db, ln)
      | .error _ => ((db, ln), .error (1, "db")) := by
  rw [runM_dbTry_bind]; simp only [stepDL, execDb]; cases groupSum (db.sigs.map (fun s => (s.ks, s.amount))) <;> rfl
theorem runM_getRedeemed_bind {β : Type} (f : List (Nat × UInt64) → PM β) (db : DB) (ln : LN) :
    runM (dbTry .getRedeemed >>= f) (db, ln) =
      match groupSum (db.spent.map (fun r => (ksIdx r.ks, r.amount))) with
      | .ok v => runM (f v) (db, ln)
      | .error _ => ((db, ln), .error (1, "db")) := by
  rw [runM_dbTry_bind]; simp only [stepDL, execDb]; cases groupSum (db.spent.map (fun r => (ksIdx r.ks, r.amount))) <;> rfl

def dbGetMintQ (db : DB) (id : Int) : DbRes MintQ :=
  match db.mintQ.find? (fun q => intIs id q.id) with | some q => .ok q | none => .error .notFound
def dbGetMintQByHash (db : DB) (h : Nat) : DbRes MintQ :=
  match db.mintQ.find? (·.hash == h) with | some q => .ok q | none => .error .notFound
def dbGetMeltQ (db : DB) (id : Int) : DbRes MeltQ :=
  match db.meltQ.find? (fun q => intIs id q.id) with | some q => .ok q | none => .error .notFound
def dbGetMeltQByReq (db : DB) (inv : Nat) : DbRes MeltQ :=
  match db.meltQ.find? (·.inv == inv) with | some q => .ok q | none => .error .notFound
def dbGetSig (db : DB) (b : Nat) : DbRes BSig :=
  match db.sigs.find? (·.b == b) with | some s => .ok s | none => .error .notFound

theorem runM_getMintQuote_bind {β : Type} (id : Int) (f : DbRes MintQ → PM β) (db : DB) (ln : LN) :
    runM (eff (.getMintQuote id) >>= f) (db, ln) = runM (f (dbGetMintQ db id)) (db, ln) := by
  rw [runM_eff_bind]; simp only [stepDL, execDb, dbGetMintQ]; cases db.mintQ.find? (fun q => intIs id q.id) <;> rfl
theorem runM_getMintQuoteByHash_bind {β : Type} (h : Nat) (f : DbRes MintQ → PM β) (db : DB) (ln : LN) :
    runM (eff (.getMintQuoteByHash h) >>= f) (db, ln) = runM (f (dbGetMintQByHash db h)) (db, ln) := by
  rw [runM_eff_bind]; simp only [stepDL, execDb, dbGetMintQByHash]; cases db.mintQ.find? (·.hash == h) <;> rfl
theorem runM_getMeltQuote_bind {β : Type} (id : Int) (f : DbRes MeltQ → PM β) (db : DB) (ln : LN) :
    runM (eff (.getMeltQuote id) >>= f) (db, ln) = runM (f (dbGetMeltQ db id)) (db, ln) := by
  rw [runM_eff_bind]; simp only [stepDL, execDb, dbGetMeltQ]; cases db.meltQ.find? (fun q => intIs id q.id) <;> rfl
theorem runM_getMeltQuoteByReq_bind {β : Type} (inv : Nat) (f : DbRes MeltQ → PM β) (db : DB) (ln : LN) :
    runM (eff (.getMeltQuoteByReq inv) >>= f) (db, ln) = runM (f (dbGetMeltQByReq db inv)) (db, ln) := by
  rw [runM_eff_bind]; simp only [stepDL, execDb, dbGetMeltQByReq]; cases db.meltQ.find? (·.inv == inv) <;> rfl
theorem runM_getSig_bind {β : Type} (b : Nat) (f : DbRes BSig → PM β) (db : DB) (ln : LN) :
    runM (eff (.getSig b) >>= f) (db, ln) = runM (f (dbGetSig db b)) (db, ln) := by
  rw [runM_eff_bind]; simp only [stepDL, execDb, dbGetSig]; cases db.sigs.find? (·.b == b) <;> rfl
theorem runM_getSeed_bind {β : Type} (f : DbRes Unit → PM β) (db : DB) (ln : LN) :
    runM (eff .getSeed >>= f) (db, ln) = runM (f (.ok ())) (db, ln) := by
  rw [runM_eff_bind]; rfl

theorem runM_effUpdateMintQ_bind {β : Type} (id : Nat) (st : MQState) (f : DbRes Unit → PM β) (db : DB) (ln : LN) :
    runM (eff (.updateMintQuoteState id st) >>= f) (db, ln) =
      if db.mintQ.any (·.id == id) then runM (f (.ok ())) ({ db with mintQ := updMintQ db.mintQ id st }, ln)
      else runM (f (.error .notUpdated)) (db, ln) := by
  rw [runM_eff_bind]; simp only [stepDL, execDb]
  by_cases h : (db.mintQ.any (·.id == id)) = true <;> simp [h]

/-- Lightning state after a scripted payment / status call. -/
def lnPop (ln : LN) (c : LnAns → LnCall) : LN := record (popScript ln).1 (c (popScript ln).2)

/-- The scripted backend's `FeeReserve`: ceil(1%) or 0. -/
def lnFee (ln : LN) (a : UInt64) : UInt64 := if ln.feePct then (a + 99) / 100 else 0

theorem runM_lnFeeReserve_bind {β : Type} (a : UInt64) (f : UInt64 → PM β) (db : DB) (ln : LN) :
    runM (eff (.lnFeeReserve a) >>= f) (db, ln) = runM (f (lnFee ln a)) (db, ln) := by
  rw [runM_eff_bind]; rfl
theorem runM_lnSendPayment_bind {β : Type} (inv : Nat) (maxFee : UInt64) (f : LnAns → PM β) (db : DB) (ln : LN) :
    runM (eff (.lnSendPayment inv maxFee) >>= f) (db, ln) =
      runM (f (popScript ln).2) (db, lnPop ln (fun a => ⟨"SendPayment", inv, invMsat ln inv, maxFee, a.str⟩)) := by
  rw [runM_eff_bind]; rfl
theorem runM_lnPayPartial_bind {β : Type} (inv : Nat) (msat maxFee : UInt64) (f : LnAns → PM β) (db : DB) (ln : LN) :
    runM (eff (.lnPayPartial inv msat maxFee) >>= f) (db, ln) =
      runM (f (popScript ln).2) (db, lnPop ln (fun a => ⟨"PayPartialAmount", inv, if msat == 0 then invMsat ln inv else msat, maxFee, a.str⟩)) := by
  rw [runM_eff_bind]; rfl
theorem runM_lnOutgoingStatus_bind {β : Type} (h : Nat) (f : LnAns → PM β) (db : DB) (ln : LN) :
    runM (eff (.lnOutgoingStatus h) >>= f) (db, ln) =
      runM (f (popScript ln).2) (db, lnPop ln (fun a => ⟨"OutgoingPaymentStatus", h, 0, 0, a.str⟩)) := by
  rw [runM_eff_bind]; rfl

/-- Lightning state and answer of an `InvoiceStatus` call. -/
def lnInvStatus (ln : LN) (h : Nat) : LN × Option Bool := ((execLn ln (.lnInvoiceStatus h)).getD (ln, none))
theorem runM_lnInvoiceStatus_bind {β : Type} (h : Nat) (f : Option Bool → PM β) (db : DB) (ln : LN) :
    runM (eff (.lnInvoiceStatus h) >>= f) (db, ln) = runM (f (lnInvStatus ln h).2) (db, (lnInvStatus ln h).1) := by
  rw [runM_eff_bind]
  have : stepDL (db, ln) (.lnInvoiceStatus h) = ((db, (lnInvStatus ln h).1), (lnInvStatus ln h).2) := by
    unfold stepDL lnInvStatus
    simp only [execDb]
    cases hx : execLn ln (.lnInvoiceStatus h) with
    | some p => rfl
    | none =>
      exfalso
      simp only [execLn] at hx
      repeat' split at hx
      all_goals cases hx
  rw [this]

def lnCreateInv (ln : LN) (a : UInt64) : LN × Option Nat := ((execLn ln (.lnCreateInvoice a)).getD (ln, none))
theorem runM_lnCreateInvoice_bind {β : Type} (a : UInt64) (f : Option Nat → PM β) (db : DB) (ln : LN) :
    runM (eff (.lnCreateInvoice a) >>= f) (db, ln) = runM (f (lnCreateInv ln a).2) (db, (lnCreateInv ln a).1) := by
  rw [runM_eff_bind]
  have : stepDL (db, ln) (.lnCreateInvoice a) = ((db, (lnCreateInv ln a).1), (lnCreateInv ln a).2) := by
    unfold stepDL lnCreateInv
    simp only [execDb]
    cases hx : execLn ln (.lnCreateInvoice a) with
    | some p => rfl
    | none =>
      exfalso
      simp only [execLn] at hx
      repeat' split at hx
      all_goals cases hx
  rw [this]

end Gonuts.Model.Mint

namespace Gonuts.Model.Mint

theorem runM_effUpdateMeltQ_bind {β : Type} (id pre : Nat) (st : LQState) (f : DbRes Unit → PM β) (db : DB) (ln : LN) :
    runM (eff (.updateMeltQuote id pre st) >>= f) (db, ln) =
      if db.meltQ.any (·.id == id) then runM (f (.ok ())) ({ db with meltQ := updMeltQ db.meltQ id pre st }, ln)
      else runM (f (.error .notUpdated)) (db, ln) := by
  rw [runM_eff_bind]; simp only [stepDL, execDb]
  by_cases h : (db.meltQ.any (·.id == id)) = true <;> simp [h]

theorem runM_effRemovePending_bind {β : Type} (ys : List Nat) (f : DbRes Unit → PM β) (db : DB) (ln : LN) :
    runM (eff (.removePending ys) >>= f) (db, ln) =
      runM (f (.ok ())) ({ db with pending := db.pending.filter (fun r => !ys.contains r.y) }, ln) := by
  rw [runM_eff_bind]; rfl

end Gonuts.Model.Mint
