import Gonuts.Lemmas.MintRun
/-!
  Fault-free executions only depend on — and only change — the tables and the Lightning state.
  `runDL` is that projection of `Prog.run` (no trace, no fault counter); `run_eq_runDL` is the bridge.
  All operation-level reasoning (`Lemmas/MintOps.lean`) happens on `runDL`.
-/
namespace Gonuts.Model.Mint

abbrev DL := DB × LN

/-- One effect on (tables, Lightning state). -/
def stepDL {β : Type} (s : DL) (e : Eff β) : DL × β :=
  match execDb s.1 e with
  | some (db', r) => ((db', s.2), r)
  | none =>
    match execLn s.2 e with
    | some (ln', r) => ((s.1, ln'), r)
    | none => (s, e.faultValue)

def runDL {α : Type} : Prog α → DL → DL × α
  | .ret a, s => (s, a)
  | .eff e k, s => runDL (k (stepDL s e).2) (stepDL s e).1

/-- `runDL` of a `PM` program. -/
def runM {α : Type} (p : PM α) (s : DL) : DL × Except E α := runDL p.run s

theorem label_none_execDb {β : Type} (e : Eff β) (db : DB) (h : e.label = none) : execDb db e = none := by
  cases e <;> simp [Eff.label] at h <;> rfl

theorem label_some_execLn {β : Type} (e : Eff β) (ln : LN) (l : String) (h : e.label = some l) : execLn ln e = none := by
  cases e <;> simp [Eff.label] at h <;> rfl

theorem exec_eq_stepDL {β : Type} (w : World) (e : Eff β) (h : NoFault w) :
    ((exec w e).1.db, (exec w e).1.ln) = (stepDL (w.db, w.ln) e).1 ∧ (exec w e).2 = (stepDL (w.db, w.ln) e).2 ∧
    (exec w e).1.mem = w.mem ∧ (exec w e).1.cfg = w.cfg ∧ (exec w e).1.nextMintQ = w.nextMintQ ∧
    (exec w e).1.nextMeltQ = w.nextMeltQ := by
  unfold NoFault at h
  unfold exec stepDL
  cases hl : e.label with
  | some l =>
    simp only [h]
    have : (none == some w.nDb) = false := rfl
    simp only [this, Bool.false_eq_true, if_false]
    cases hd : execDb w.db e with
    | some p => obtain ⟨db', r⟩ := p; simp
    | none => simp [label_some_execLn e w.ln l hl]
  | none =>
    simp only [label_none_execDb e w.db hl]
    cases hd : execLn w.ln e with
    | some p => obtain ⟨ln', r⟩ := p; simp
    | none => simp

/-- Bridge: a fault-free run of any program is its `runDL` on (tables, Lightning state); the in-memory
    keysets, the configuration and the quote counters are untouched. -/
theorem run_eq_runDL {α : Type} (p : Prog α) (w : World) (h : NoFault w) :
    ((p.run w).1.db, (p.run w).1.ln) = (runDL p (w.db, w.ln)).1 ∧ (p.run w).2 = (runDL p (w.db, w.ln)).2 ∧
    (p.run w).1.mem = w.mem ∧ (p.run w).1.cfg = w.cfg ∧ (p.run w).1.nextMintQ = w.nextMintQ ∧
    (p.run w).1.nextMeltQ = w.nextMeltQ ∧ NoFault (p.run w).1 := by
  induction p generalizing w with
  | ret a => exact ⟨rfl, rfl, rfl, rfl, rfl, rfl, h⟩
  | eff e k ih =>
    obtain ⟨h1, h2, h3, h4, h5, h6⟩ := exec_eq_stepDL w e h
    have ih' := ih (exec w e).2 (exec w e).1 (exec_noFault w e h)
    simp only [Prog.run_eff, runDL]
    rw [← h1, ← h2]
    obtain ⟨i1, i2, i3, i4, i5, i6, i7⟩ := ih'
    exact ⟨i1, i2, i3.trans h3, i4.trans h4, i5.trans h5, i6.trans h6, i7⟩

/-! ### Equations for `runM` -/

@[simp] theorem runDL_ret {α : Type} (a : α) (s : DL) : runDL (Prog.ret a) s = (s, a) := rfl
@[simp] theorem runDL_pure {α : Type} (a : α) (s : DL) : runDL (pure a : Prog α) s = (s, a) := rfl

theorem runDL_bind {α β : Type} (p : Prog α) (f : α → Prog β) (s : DL) :
    runDL (p >>= f) s = runDL (f (runDL p s).2) (runDL p s).1 := by
  show runDL (Prog.bind p f) s = _
  induction p generalizing s with
  | ret a => rfl
  | eff e k ih => simp only [Prog.bind, runDL]; exact ih _ _

@[simp] theorem runM_pure {α : Type} (a : α) (s : DL) : runM (pure a : PM α) s = (s, .ok a) := rfl
@[simp] theorem runM_throw {α : Type} (e : E) (s : DL) : runM (throw e : PM α) s = (s, .error e) := rfl

theorem runM_bind {α β : Type} (p : PM α) (f : α → PM β) (s : DL) :
    runM (p >>= f) s =
      match runM p s with
      | (s', .ok a) => runM (f a) s'
      | (s', .error e) => (s', .error e) := by
  unfold runM
  show runDL (ExceptT.bind p f).run s = _
  unfold ExceptT.bind ExceptT.bindCont ExceptT.run ExceptT.mk
  rw [runDL_bind]
  generalize (runDL p s) = r
  obtain ⟨s', x⟩ := r
  cases x <;> rfl

@[simp] theorem runM_eff {β : Type} (e : Eff β) (s : DL) : runM (eff e) s = ((stepDL s e).1, .ok (stepDL s e).2) := rfl

theorem runM_dbTry {β : Type} (e : Eff (DbRes β)) (s : DL) :
    runM (dbTry e) s =
      match (stepDL s e).2 with
      | .ok v => ((stepDL s e).1, .ok v)
      | .error _ => ((stepDL s e).1, .error (1, "db")) := by
  unfold dbTry
  rw [runM_bind, runM_eff]
  cases (stepDL s e).2 <;> rfl

@[simp] theorem runM_failIf (c : Prop) [Decidable c] (e : E) (s : DL) :
    runM (failIf c e) s = if c then (s, .error e) else (s, .ok ()) := by
  unfold failIf; split <;> rfl

@[simp] theorem runM_liftE {α : Type} (x : Except E α) (s : DL) : runM (liftE x) s = (s, x) := by
  unfold liftE; cases x <;> rfl

@[simp] theorem runM_failOpt (v : Option E) (s : DL) :
    runM (failOpt v) s = match v with | some e => (s, .error e) | none => (s, .ok ()) := by
  unfold failOpt; cases v <;> rfl

theorem runM_lift_run {α : Type} (p : PM α) (s : DL) :
    runM (ExceptT.lift (p.run) : PM (Except E α)) s = ((runM p s).1, .ok (runM p s).2) := by
  unfold runM ExceptT.lift ExceptT.run ExceptT.mk
  show runDL (p >>= fun a => pure (Except.ok a) : Prog _) s = _
  rw [runDL_bind]; rfl

/-- Bridge for `PM` programs. -/
theorem runPM_eq_runM {α : Type} (p : PM α) (w : World) (h : NoFault w) :
    ((runPM p w).1.db, (runPM p w).1.ln) = (runM p (w.db, w.ln)).1 ∧ (runPM p w).2 = (runM p (w.db, w.ln)).2 ∧
    (runPM p w).1.mem = w.mem ∧ (runPM p w).1.cfg = w.cfg ∧ NoFault (runPM p w).1 := by
  obtain ⟨h1, h2, h3, h4, _, _, h7⟩ := run_eq_runDL p.run w h
  exact ⟨h1, h2, h3, h4, h7⟩

end Gonuts.Model.Mint

namespace Gonuts.Model.Mint
/-! ### Fused equations (statement followed by the rest of the program) -/

theorem runM_failIf_bind {β : Type} (c : Prop) [Decidable c] (e : E) (f : Unit → PM β) (s : DL) :
    runM (failIf c e >>= f) s = if c then (s, .error e) else runM (f ()) s := by
  rw [runM_bind, runM_failIf]; by_cases h : c <;> simp [h]

theorem runM_dbTry_bind {α β : Type} (e : Eff (DbRes α)) (f : α → PM β) (s : DL) :
    runM (dbTry e >>= f) s =
      match (stepDL s e).2 with
      | .ok v => runM (f v) (stepDL s e).1
      | .error _ => ((stepDL s e).1, .error (1, "db")) := by
  rw [runM_bind, runM_dbTry]; cases (stepDL s e).2 <;> rfl

theorem runM_eff_bind {α β : Type} (e : Eff α) (f : α → PM β) (s : DL) :
    runM (eff e >>= f) s = runM (f (stepDL s e).2) (stepDL s e).1 := by
  rw [runM_bind, runM_eff]

theorem runM_liftE_bind {α β : Type} (x : Except E α) (f : α → PM β) (s : DL) :
    runM (liftE x >>= f) s = match x with | .ok a => runM (f a) s | .error e => (s, .error e) := by
  rw [runM_bind, runM_liftE]; cases x <;> rfl

theorem runM_failOpt_bind {β : Type} (v : Option E) (f : Unit → PM β) (s : DL) :
    runM (failOpt v >>= f) s = match v with | some e => (s, .error e) | none => runM (f ()) s := by
  rw [runM_bind, runM_failOpt]; cases v <;> rfl

theorem runM_pure_bind {α β : Type} (a : α) (f : α → PM β) (s : DL) :
    runM (pure a >>= f) s = runM (f a) s := by
  rw [runM_bind, runM_pure]

theorem runM_throw_bind {α β : Type} (e : E) (f : α → PM β) (s : DL) :
    runM ((throw e : PM α) >>= f) s = (s, .error e) := by
  rw [runM_bind, runM_throw]

end Gonuts.Model.Mint
