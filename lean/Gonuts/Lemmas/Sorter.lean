import Gonuts.Lemmas.Select
/-!
  The oracle sorter the driver uses to replay Go's tie-breaking (`Model.Select.oracleSorter`) is a sorter:
  for every observed order `chosen` both functions return a permutation of their input, sorted by amount.
  Hence an oracle replay can differ from the stable run only in the order of proofs of EQUAL amount — which is
  exactly the freedom Go's unstable `sort.Slice` (and the map-ordered inactive proofs) have.
-/
namespace Gonuts.Model.Select
open Gonuts.Model

theorem mem_takeWhile_prop {α : Type} (p : α → Bool) {a : α} {l : List α} (h : a ∈ l.takeWhile p) : p a = true := by
  induction l with
  | nil => simp at h
  | cons x xs ih =>
    rw [List.takeWhile_cons] at h
    split at h
    · rcases List.mem_cons.1 h with rfl | h
      · assumption
      · exact ih h
    · simp at h

theorem oracle_asc_le_total (pos : Nat → Nat) (a b : P) :
    (decide (a.amount < b.amount) || (a.amount == b.amount && decide (pos a.uid ≤ pos b.uid))) = true ∨
    (decide (b.amount < a.amount) || (b.amount == a.amount && decide (pos b.uid ≤ pos a.uid))) = true := by
  simp only [Bool.or_eq_true, Bool.and_eq_true, decide_eq_true_eq, beq_iff_eq, UInt64.lt_iff_toNat_lt,
    ← UInt64.toNat_inj]
  omega

theorem oracle_asc_le_trans (pos : Nat → Nat) (a b c : P)
    (h1 : (decide (a.amount < b.amount) || (a.amount == b.amount && decide (pos a.uid ≤ pos b.uid))) = true)
    (h2 : (decide (b.amount < c.amount) || (b.amount == c.amount && decide (pos b.uid ≤ pos c.uid))) = true) :
    (decide (a.amount < c.amount) || (a.amount == c.amount && decide (pos a.uid ≤ pos c.uid))) = true := by
  simp only [Bool.or_eq_true, Bool.and_eq_true, decide_eq_true_eq, beq_iff_eq, UInt64.lt_iff_toNat_lt,
    ← UInt64.toNat_inj] at *
  omega

theorem oracle_desc_le_total (pos : Nat → Nat) (a b : P) :
    (decide (a.amount > b.amount) || (a.amount == b.amount && decide (pos a.uid ≥ pos b.uid))) = true ∨
    (decide (b.amount > a.amount) || (b.amount == a.amount && decide (pos b.uid ≥ pos a.uid))) = true := by
  simp only [Bool.or_eq_true, Bool.and_eq_true, decide_eq_true_eq, beq_iff_eq, gt_iff_lt, ge_iff_le,
    UInt64.lt_iff_toNat_lt, ← UInt64.toNat_inj]
  omega

theorem oracle_desc_le_trans (pos : Nat → Nat) (a b c : P)
    (h1 : (decide (a.amount > b.amount) || (a.amount == b.amount && decide (pos a.uid ≥ pos b.uid))) = true)
    (h2 : (decide (b.amount > c.amount) || (b.amount == c.amount && decide (pos b.uid ≥ pos c.uid))) = true) :
    (decide (a.amount > c.amount) || (a.amount == c.amount && decide (pos a.uid ≥ pos c.uid))) = true := by
  simp only [Bool.or_eq_true, Bool.and_eq_true, decide_eq_true_eq, beq_iff_eq, gt_iff_lt, ge_iff_le,
    UInt64.lt_iff_toNat_lt, ← UInt64.toNat_inj] at *
  omega

/-- Moving the last element of the leading run of equal amounts to the front (what `oracleSorter.desc` does
    after sorting) keeps a permutation and keeps the list sorted by amount. -/
theorem rotateRun_spec (x : P) (rest : List P)
    (hsorted : (x :: rest).Pairwise (fun a b => a.amount ≥ b.amount)) :
    let run := x :: rest.takeWhile (fun y => y.amount == x.amount)
    let tail := rest.dropWhile (fun y => y.amount == x.amount)
    let out := match run.reverse with
      | [] => x :: rest
      | y :: revInit => y :: (revInit.reverse ++ tail)
    out.Perm (x :: rest) ∧ out.Pairwise (fun a b => a.amount ≥ b.amount) := by
  intro run tail out
  have hrun_eq : ∀ a ∈ run, a.amount = x.amount := by
    intro a ha
    rcases List.mem_cons.1 ha with rfl | ha
    · rfl
    · have := mem_takeWhile_prop _ ha
      simpa using this
  have hsplit : run ++ tail = x :: rest := by
    simp only [run, tail, List.cons_append, List.takeWhile_append_dropWhile]
  have hp := List.pairwise_cons.1 hsorted
  have htail_sub : tail.Sublist rest := List.dropWhile_sublist _
  have htail_pw : tail.Pairwise (fun a b => a.amount ≥ b.amount) := hp.2.sublist htail_sub
  have htail_le : ∀ b ∈ tail, x.amount ≥ b.amount := fun b hb => hp.1 b (htail_sub.subset hb)
  cases hrev : run.reverse with
  | nil =>
    have : run = [] := by simp at hrev
    simp [run] at this
  | cons y revInit =>
    have hout : out = y :: (revInit.reverse ++ tail) := by simp only [out, hrev]
    have hperm_run : (y :: revInit.reverse).Perm run := by
      have h1 : (y :: revInit.reverse).Perm (y :: revInit) := (List.reverse_perm revInit).cons y
      have h2 : (y :: revInit).Perm run := by rw [← hrev]; exact List.reverse_perm run
      exact h1.trans h2
    rw [hout]
    refine ⟨?_, ?_⟩
    · have : (y :: (revInit.reverse ++ tail)) = (y :: revInit.reverse) ++ tail := rfl
      rw [this, ← hsplit]
      exact hperm_run.append_right tail
    · have hall : ∀ a ∈ y :: revInit.reverse, a.amount = x.amount :=
        fun a ha => hrun_eq a (hperm_run.subset ha)
      have : (y :: (revInit.reverse ++ tail)) = (y :: revInit.reverse) ++ tail := rfl
      rw [this, List.pairwise_append]
      refine ⟨?_, htail_pw, ?_⟩
      · -- all amounts in the run are equal
        have : ∀ l : List P, (∀ a ∈ l, a.amount = x.amount) → l.Pairwise (fun a b => a.amount ≥ b.amount) := by
          intro l hl
          induction l with
          | nil => exact List.Pairwise.nil
          | cons a as ih =>
            refine List.pairwise_cons.2 ⟨fun b hb => ?_, ih (fun b hb => hl b (List.mem_cons_of_mem _ hb))⟩
            rw [hl a (List.mem_cons_self), hl b (List.mem_cons_of_mem _ hb)]
            exact UInt64.le_refl _
        exact this _ hall
      · intro a ha b hb
        rw [hall a ha]
        exact htail_le b hb

theorem oracleSorter_ok (chosen : List Nat) : (oracleSorter chosen).OK := by
  constructor
  · intro l; exact sortBy_perm _ l
  · intro l
    show (oracleSorter chosen).desc l |>.Perm l
    unfold oracleSorter
    simp only []
    have hperm := sortBy_perm (fun (a b : P) =>
      decide (a.amount > b.amount) || (a.amount == b.amount && decide (posIn chosen a.uid ≥ posIn chosen b.uid))) l
    have hsorted := sortBy_pairwise (fun (a b : P) =>
      decide (a.amount > b.amount) || (a.amount == b.amount && decide (posIn chosen a.uid ≥ posIn chosen b.uid)))
      (oracle_desc_le_total (posIn chosen)) (oracle_desc_le_trans (posIn chosen)) l
    generalize sortBy (fun (a b : P) =>
      decide (a.amount > b.amount) || (a.amount == b.amount && decide (posIn chosen a.uid ≥ posIn chosen b.uid))) l = s
      at hperm hsorted
    cases s with
    | nil => exact hperm
    | cons x rest =>
      have hs' : (x :: rest).Pairwise (fun a b => a.amount ≥ b.amount) := by
        refine hsorted.imp ?_
        intro a b hab
        simp only [Bool.or_eq_true, Bool.and_eq_true, decide_eq_true_eq, beq_iff_eq, gt_iff_lt, ge_iff_le,
          UInt64.lt_iff_toNat_lt, UInt64.le_iff_toNat_le, ← UInt64.toNat_inj] at *
        omega
      exact (rotateRun_spec x rest hs').1.trans hperm

theorem oracleSorter_sorted (chosen : List Nat) : (oracleSorter chosen).Sorted := by
  constructor
  · intro l
    have hsorted := sortBy_pairwise (fun (a b : P) =>
      decide (a.amount < b.amount) || (a.amount == b.amount && decide (posIn chosen a.uid ≤ posIn chosen b.uid)))
      (oracle_asc_le_total (posIn chosen)) (oracle_asc_le_trans (posIn chosen)) l
    refine List.Pairwise.imp ?_ hsorted
    intro a b hab
    simp only [Bool.or_eq_true, Bool.and_eq_true, decide_eq_true_eq, beq_iff_eq,
      UInt64.lt_iff_toNat_lt, UInt64.le_iff_toNat_le, ← UInt64.toNat_inj] at *
    omega
  · intro l
    show (oracleSorter chosen).desc l |>.Pairwise _
    unfold oracleSorter
    simp only []
    have hsorted := sortBy_pairwise (fun (a b : P) =>
      decide (a.amount > b.amount) || (a.amount == b.amount && decide (posIn chosen a.uid ≥ posIn chosen b.uid)))
      (oracle_desc_le_total (posIn chosen)) (oracle_desc_le_trans (posIn chosen)) l
    generalize sortBy (fun (a b : P) =>
      decide (a.amount > b.amount) || (a.amount == b.amount && decide (posIn chosen a.uid ≥ posIn chosen b.uid))) l = s
      at hsorted
    cases s with
    | nil => exact List.Pairwise.nil
    | cons x rest =>
      have hs' : (x :: rest).Pairwise (fun a b => a.amount ≥ b.amount) := by
        refine hsorted.imp ?_
        intro a b hab
        simp only [Bool.or_eq_true, Bool.and_eq_true, decide_eq_true_eq, beq_iff_eq, gt_iff_lt, ge_iff_le,
          UInt64.lt_iff_toNat_lt, UInt64.le_iff_toNat_le, ← UInt64.toNat_inj] at *
        omega
      exact (rotateRun_spec x rest hs').2

end Gonuts.Model.Select
