import Gonuts.Lemmas.MintConc
import Gonuts.Lemmas.MintOps
/-!
  Any number of overlapping swaps never accept one secret twice — under every schedule, injected storage error and
  process kill.  (The positive counterpart of `Props.C01.schedules_full_false`: the double acceptance needs a melt.)

  Method: a purely SYNTACTIC property of the swap program — every path of its decision tree that ends in a success passes
  through a `SaveProofs(inputs)` call that returned ok (`Needs`) — plus the storage semantics of that one call (it
  succeeds only if none of the secrets is in the spent table and puts all of them there) and monotonicity of the spent
  table; an invariant over arbitrary event sequences with a ghost list of the commits made so far.
-/
namespace Gonuts.Model.Mint

/-- The marked edge: `SaveProofs rows` returned ok. -/
def savesOk (rows : List PRow) : {β : Type} → Eff β → β → Prop
  | _, .saveProofs rs, r => rs = rows ∧ r = .ok ()
  | _, _, _ => False

/-- Every path of `p` to a result satisfying `ok` passes a marked edge. -/
def Needs {α : Type} (rows : List PRow) (ok : α → Prop) : Prog α → Prop
  | .ret a => ¬ ok a
  | .eff e k => ∀ r, savesOk rows e r ∨ Needs rows ok (k r)

theorem Needs.ret {α : Type} {rows : List PRow} {ok : α → Prop} (a : α) (h : ¬ ok a) : Needs rows ok (.ret a) := h
theorem Needs.eff {α β : Type} {rows : List PRow} {ok : α → Prop} (e : Eff β) (k : β → Prog α)
    (h : ∀ r, savesOk rows e r ∨ Needs rows ok (k r)) : Needs rows ok (.eff e k) := h

theorem Needs.bind {α β : Type} {rows : List PRow} {ok : β → Prop} (p : Prog α) (f : α → Prog β)
    (h : ∀ a, Needs rows ok (f a)) : Needs rows ok (p >>= f) := by
  show Needs rows ok (Prog.bind p f)
  induction p with
  | ret a => exact h a
  | eff e k ih => exact Needs.eff e _ (fun r => Or.inr (ih r))

def isOk {α : Type} : Except E α → Prop
  | .ok _ => True
  | .error _ => False

/-- The same for the exception layer: the prefix may do anything; an error ends the program unsuccessfully. -/
theorem Needs.pmBind {α β : Type} {rows : List PRow} (x : PM α) (f : α → PM β)
    (h : ∀ a, Needs rows isOk (f a).run) : Needs rows isOk (x >>= f).run := by
  show Needs rows isOk (x.run >>= ExceptT.bindCont f)
  apply Needs.bind
  intro r
  cases r with
  | ok a => exact h a
  | error e => exact Needs.ret _ (by simp [isOk])

theorem Needs.throw {α : Type} {rows : List PRow} (e : E) : Needs rows isOk (throw e : PM α).run :=
  Needs.ret _ (by simp [isOk])

/-- The swap program: success only through `SaveProofs(inputs) = ok`. -/
theorem swap_needs (cx : Cx) (ps : List Proof) (outs : List BMsg) (v : Option E) :
    Needs (ps.map Proof.row) isOk (swap cx ps outs v).run := by
  unfold swap
  simp only []
  split
  · exact Needs.throw _
  · apply Needs.pmBind; intro _
    apply Needs.pmBind; intro _
    apply Needs.pmBind; intro _
    apply Needs.pmBind; intro _
    apply Needs.pmBind; intro _
    apply Needs.pmBind; intro _
    apply Needs.pmBind; intro _
    apply Needs.pmBind; intro sigs
    -- dbTry (.saveProofs rows) >>= …
    show Needs _ isOk ((dbTry (.saveProofs (ps.map Proof.row)) >>= fun _ => (dbTry (.saveSigs sigs) >>= fun _ => pure sigs)).run)
    unfold dbTry eff
    refine Needs.eff _ _ (fun r => ?_)
    cases r with
    | ok u => left; cases u; exact ⟨rfl, rfl⟩
    | error e => right; exact Needs.ret _ (by simp [isOk])


/-! ## Threads -/

/-- A thread result that is a successful swap / mint answer. -/
def resOk (r : Res × Option Mem) : Prop :=
  match r.1 with
  | .sigs (.ok _) => True
  | _ => False

theorem Needs.bindRet {α β : Type} {rows : List PRow} {ok : α → Prop} {ok' : β → Prop} (g : α → β)
    (hg : ∀ a, ok' (g a) → ok a) (p : Prog α) (h : Needs rows ok p) : Needs rows ok' (p >>= fun a => pure (g a)) := by
  show Needs rows ok' (Prog.bind p fun a => pure (g a))
  induction p with
  | ret a => exact fun hk => h (hg a hk)
  | eff e k ih => exact fun r => (h r).imp id (ih r)

theorem threadProg_swap_needs (s : Sess) (ps : List Proof) (outs : List BMsg) (v : Option E) (p : Prog (Res × Option Mem))
    (h : threadProg s (.swap ps outs v) = some p) : Needs (ps.map Proof.row) resOk p := by
  simp only [threadProg, Option.some.injEq] at h
  subst h
  apply Needs.bindRet (fun r => (Res.sigs r, (none : Option Mem))) _ _ (swap_needs (cxOf s) ps outs v)
  intro a ha
  cases a with
  | ok x => trivial
  | error e => exact ha

/-- The ghost of an execution: which thread has put which secrets into the spent table. -/
abbrev Commits := List (Nat × List Nat)

structure SwapInv (c : CSess) (G : Commits) : Prop where
  aligned : c.threads.map (·.1) = c.ops.map (·.1)
  nodup : (c.threads.map (·.1)).Nodup
  inSpent : ∀ g ∈ G, ∀ y ∈ g.2, y ∈ ysOf c.s.w.db.spent
  disj : G.Pairwise (fun a b => ∀ y ∈ a.2, y ∉ b.2)
  thr : ∀ tp ∈ c.threads.zip c.ops, ∀ ps outs v, tp.2.2 = Op.swap ps outs v →
          Needs (ps.map Proof.row) resOk tp.1.2 ∨ (tp.1.1, ps.map (·.secret)) ∈ G

theorem SwapInv.mono_db {c c' : CSess} {G : Commits} (h : SwapInv c G) (ht : c'.threads = c.threads) (ho : c'.ops = c.ops)
    (hs : ∀ row ∈ c.s.w.db.spent, row ∈ c'.s.w.db.spent) : SwapInv c' G := by
  refine ⟨by rw [ht, ho]; exact h.aligned, by rw [ht]; exact h.nodup, ?_, h.disj, by rw [ht, ho]; exact h.thr⟩
  intro g hg y hy
  have := h.inSpent g hg y hy
  simp only [ysOf, List.mem_map] at this ⊢
  obtain ⟨row, hr, he⟩ := this
  exact ⟨row, hs row hr, he⟩


/-- What a successful `SaveProofs` call means for the spent table. -/
theorem exec_saveProofs_ok (w : World) (rows : List PRow) (h : (exec w (.saveProofs rows)).2 = .ok ()) :
    insertRows w.db.spent rows = some (exec w (.saveProofs rows)).1.db.spent := by
  unfold exec at h ⊢
  simp only [Eff.label] at h ⊢
  by_cases hf : (w.faultAt == some w.nDb) = true
  · simp [hf, Eff.faultValue] at h
  · simp only [hf, execDb] at h ⊢
    cases hi : insertRows w.db.spent rows with
    | some t => simp
    | none => simp [hi] at h

theorem exec_spent_mono {β : Type} (w : World) (e : Eff β) (row : PRow) (h : row ∈ w.db.spent) : row ∈ (exec w e).1.db.spent :=
  (DbInv.effInv (spent_mono_db row)) w e h

theorem zip_fst_eq {α β γ : Type} (f : α → γ) (g : β → γ) (l1 : List α) (l2 : List β) (h : l1.map f = l2.map g) :
    ∀ tp ∈ l1.zip l2, f tp.1 = g tp.2 := by
  induction l1 generalizing l2 with
  | nil => intro tp htp; simp at htp
  | cons a as ih =>
    cases l2 with
    | nil => intro tp htp; simp at htp
    | cons b bs =>
      simp only [List.map_cons, List.cons.injEq] at h
      intro tp htp
      simp only [List.zip_cons_cons, List.mem_cons] at htp
      rcases htp with rfl | htp
      · exact h.1
      · exact ih bs h.2 tp htp

theorem fst_unique {β : Type _} {l : List (Nat × β)} (hn : (l.map (·.1)).Nodup) {a b : Nat × β} (ha : a ∈ l) (hb : b ∈ l)
    (h : a.1 = b.1) : a = b := by
  induction l with
  | nil => cases ha
  | cons x xs ih =>
    simp only [List.map_cons, List.nodup_cons] at hn
    rcases List.mem_cons.1 ha with rfl | ha' <;> rcases List.mem_cons.1 hb with rfl | hb'
    · rfl
    · exfalso; apply hn.1; rw [h]; exact List.mem_map.2 ⟨b, hb', rfl⟩
    · exfalso; apply hn.1; rw [← h]; exact List.mem_map.2 ⟨a, ha', rfl⟩
    · exact ih hn.2 ha' hb'

theorem needs_finish (rows : List PRow) (p : Prog (Res × Option Mem)) (w : World) (h : Needs rows resOk p) :
    Needs rows resOk (finishMem p w).1 := by
  unfold finishMem
  split
  · exact h
  · exact h

theorem stepThread_eff (c : CSess) (tid : Nat) (f : Bool) (tid0 : Nat) {β : Type} (e : Eff β) (k : β → Prog (Res × Option Mem))
    (hfind : c.threads.find? (·.1 == tid) = some (tid0, .eff e k)) :
    (stepThread c tid f).1.threads
        = c.threads.map (fun t => if t.1 == tid then
            (tid, (finishMem (k (exec (stepWorld c f) e).2) { (exec (stepWorld c f) e).1 with faultAt := none }).1) else t) ∧
    (stepThread c tid f).1.ops = c.ops ∧
    (stepThread c tid f).1.s.w.db = (exec (stepWorld c f) e).1.db := by
  unfold stepThread
  rw [hfind]
  refine ⟨rfl, rfl, ?_⟩
  show (finishMem _ _).2.db = _
  rw [finishMem_db]


theorem zip_snd_unique {β γ : Type _} {l1 : List (Nat × β)} {l2 : List γ} (hn : (l1.map (·.1)).Nodup)
    {a : Nat × β} {b b' : γ} (h1 : (a, b) ∈ l1.zip l2) (h2 : (a, b') ∈ l1.zip l2) : b = b' := by
  induction l1 generalizing l2 with
  | nil => simp at h1
  | cons x xs ih =>
    cases l2 with
    | nil => simp at h1
    | cons y ys =>
      simp only [List.map_cons, List.nodup_cons] at hn
      simp only [List.zip_cons_cons, List.mem_cons, Prod.mk.injEq] at h1 h2
      rcases h1 with ⟨rfl, rfl⟩ | h1 <;> rcases h2 with ⟨h2a, rfl⟩ | h2
      · rfl
      · exfalso; apply hn.1; exact List.mem_map.2 ⟨a, (List.of_mem_zip h2).1, rfl⟩
      · exfalso; apply hn.1; rw [← h2a]; exact List.mem_map.2 ⟨a, (List.of_mem_zip h1).1, rfl⟩
      · exact ih hn.2 h1 h2

/-- One scheduler step (any thread, any effect, with or without an injected fault) keeps the invariant, possibly
    recording one more commit. -/
theorem SwapInv.step {c : CSess} {G : Commits} (h : SwapInv c G) (tid : Nat) (f : Bool) :
    ∃ G', SwapInv (stepThread c tid f).1 G' := by
  cases hfind : c.threads.find? (·.1 == tid) with
  | none => exact ⟨G, by unfold stepThread; rw [hfind]; exact h⟩
  | some t0 =>
    obtain ⟨tid0, p0⟩ := t0
    cases p0 with
    | ret a => exact ⟨G, by unfold stepThread; rw [hfind]; exact h⟩
    | eff e k =>
      obtain ⟨hthreads, hops, hdb⟩ := stepThread_eff c tid f tid0 e k hfind
      have hmem0 : (tid0, Prog.eff e k) ∈ c.threads := List.mem_of_find?_eq_some hfind
      have htid0 : tid0 = tid := by simpa using List.find?_some hfind
      subst htid0
      -- abbreviations
      generalize hx : exec (stepWorld c f) e = x at hthreads hdb
      have hsp : ∀ row ∈ c.s.w.db.spent, row ∈ (stepThread c tid0 f).1.s.w.db.spent := by
        intro row hr
        rw [hdb, ← hx]
        exact exec_spent_mono _ e row (by rw [stepWorld_db]; exact hr)
      have hal : (stepThread c tid0 f).1.threads.map (·.1) = c.threads.map (·.1) := by
        rw [hthreads, List.map_map]
        apply List.map_congr_left
        intro t _
        simp only [Function.comp]
        split
        · rename_i ht; exact (by simpa using ht : t.1 = tid0).symm
        · rfl
      -- does this step commit a swap?
      by_cases hS : ∃ o ps outs v, ((tid0, Prog.eff e k), o) ∈ c.threads.zip c.ops ∧ o.2 = Op.swap ps outs v ∧
          savesOk (ps.map Proof.row) e x.2
      · obtain ⟨o, ps, outs, v, hzo, hop, hsave⟩ := hS
        refine ⟨(tid0, ps.map (·.secret)) :: G, ?_⟩
        -- the marked edge is a successful SaveProofs of exactly these rows
        have hins : ∃ t', insertRows c.s.w.db.spent (ps.map Proof.row) = some t' ∧ (stepThread c tid0 f).1.s.w.db.spent = t' := by
          cases e <;> simp only [savesOk] at hsave
          obtain ⟨hrows, hr⟩ := hsave
          subst hrows
          have := exec_saveProofs_ok (stepWorld c f) (ps.map Proof.row) (by rw [hx]; exact hr)
          rw [stepWorld_db, hx] at this
          exact ⟨_, this, by rw [hdb]⟩
        obtain ⟨t', hins, hspent'⟩ := hins
        obtain ⟨ht', _, hfresh, _⟩ := insertRows_some hins
        refine ⟨by rw [hal, hops]; exact h.aligned, by rw [hal]; exact h.nodup, ?_, ?_, ?_⟩
        · intro g hg y hy
          rcases List.mem_cons.1 hg with rfl | hg
          · rw [hspent', ht']
            simp only [List.mem_map] at hy
            obtain ⟨p, hp, rfl⟩ := hy
            simp only [ysOf, List.map_append, List.mem_append, List.mem_map]
            right
            exact ⟨p.row, ⟨p, hp, rfl⟩, rfl⟩
          · have := h.inSpent g hg y hy
            simp only [ysOf, List.mem_map] at this ⊢
            obtain ⟨row, hr, he⟩ := this
            exact ⟨row, hsp row hr, he⟩
        · refine List.Pairwise.cons ?_ h.disj
          intro g hg y hy hyg
          simp only [List.mem_map] at hy
          obtain ⟨p, hp, rfl⟩ := hy
          exact hfresh p.row (List.mem_map.2 ⟨p, hp, rfl⟩) (h.inSpent g hg _ hyg)
        · intro tp htp ps' outs' v' hop'
          rw [hthreads, hops, List.zip_map_left] at htp
          simp only [List.mem_map] at htp
          obtain ⟨⟨t, o'⟩, hto, rfl⟩ := htp
          simp only [Prod.map_apply, id] at hop' ⊢
          have htmem : t ∈ c.threads := (List.of_mem_zip hto).1
          by_cases hid : (t.1 == tid0) = true
          · have hteq : t = (tid0, Prog.eff e k) := fst_unique h.nodup htmem hmem0 (by simpa using hid)
            subst hteq
            have hoo : o' = o := zip_snd_unique h.nodup hto hzo
            subst hoo
            rw [hop] at hop'
            injection hop' with h1 h2 h3
            subst h1
            simp only [hid, if_true]
            right
            exact List.mem_cons_self ..
          · simp only [hid]
            rcases h.thr (t, o') hto ps' outs' v' hop' with hn | hg
            · left; exact hn
            · right; exact List.mem_cons_of_mem _ hg
      · refine ⟨G, by rw [hal, hops]; exact h.aligned, by rw [hal]; exact h.nodup, ?_, h.disj, ?_⟩
        · intro g hg y hy
          have := h.inSpent g hg y hy
          simp only [ysOf, List.mem_map] at this ⊢
          obtain ⟨row, hr, he⟩ := this
          exact ⟨row, hsp row hr, he⟩
        · intro tp htp ps' outs' v' hop'
          rw [hthreads, hops, List.zip_map_left] at htp
          simp only [List.mem_map] at htp
          obtain ⟨⟨t, o'⟩, hto, rfl⟩ := htp
          simp only [Prod.map_apply, id] at hop' ⊢
          have htmem : t ∈ c.threads := (List.of_mem_zip hto).1
          by_cases hid : (t.1 == tid0) = true
          · have hteq : t = (tid0, Prog.eff e k) := fst_unique h.nodup htmem hmem0 (by simpa using hid)
            subst hteq
            simp only [hid, if_true]
            rcases h.thr _ hto ps' outs' v' hop' with hn | hg
            · rcases hn x.2 with hsv | hk
              · exact absurd ⟨o', ps', outs', v', hto, hop', hsv⟩ hS
              · left; exact needs_finish _ _ _ hk
            · right; exact hg
          · simp only [hid]
            exact h.thr (t, o') hto ps' outs' v' hop'


theorem spawn_some {c c' : CSess} {tid : Nat} {op : Op} (h : spawn c tid op = some c') :
    ∃ p, threadProg c.s op = some p ∧ (c.threads.any (·.1 == tid)) = false ∧
      c'.threads = c.threads ++ [(tid, p)] ∧ c'.ops = c.ops ++ [(tid, op)] ∧ c'.s.w.db = c.s.w.db := by
  unfold spawn at h
  split at h
  · cases h
  · rename_i hany
    have hany' : (c.threads.any (·.1 == tid)) = false := by
      cases hb : c.threads.any (·.1 == tid) with
      | false => rfl
      | true => exact absurd hb hany
    split at h
    · split at h
      · simp only [Option.map_eq_some_iff] at h
        obtain ⟨p, hp, rfl⟩ := h
        exact ⟨p, hp, hany', rfl, rfl, rfl⟩
      · cases h
    · simp only [Option.map_eq_some_iff] at h
      obtain ⟨p, hp, rfl⟩ := h
      exact ⟨p, hp, hany', rfl, rfl, rfl⟩

theorem SwapInv.spawn {c c' : CSess} {G : Commits} (h : SwapInv c G) {tid : Nat} {op : Op} (hs : spawn c tid op = some c') :
    SwapInv c' G := by
  obtain ⟨p, hp, hfresh, ht, ho, hdb⟩ := spawn_some hs
  have hlen : c.threads.length = c.ops.length := by
    have := congrArg List.length h.aligned
    simpa using this
  refine ⟨?_, ?_, by rw [hdb]; exact h.inSpent, h.disj, ?_⟩
  · rw [ht, ho, List.map_append, List.map_append, h.aligned]; rfl
  · rw [ht, List.map_append, List.nodup_append]
    refine ⟨h.nodup, by simp, ?_⟩
    intro a ha b hb
    simp at hb; subst hb
    intro hab; subst hab
    obtain ⟨t, htm, hte⟩ := List.mem_map.1 ha
    have : (c.threads.any (·.1 == a)) = true := List.any_eq_true.2 ⟨t, htm, by simp [hte]⟩
    rw [hfresh] at this; cases this
  · intro tp htp ps outs v hop
    rw [ht, ho, List.zip_append hlen] at htp
    rcases List.mem_append.1 htp with htp | htp
    · exact h.thr tp htp ps outs v hop
    · simp only [List.zip_cons_cons, List.zip_nil_right, List.mem_singleton] at htp
      subst htp
      simp only [] at hop
      subst hop
      left
      exact threadProg_swap_needs c.s ps outs v p hp

theorem SwapInv.event {c : CSess} {G : Commits} (h : SwapInv c G) (e : CEvt) : ∃ G', SwapInv (applyCEvt c e) G' := by
  cases e with
  | spawn tid op =>
    simp only [applyCEvt]
    cases hs : Mint.spawn c tid op with
    | none => exact ⟨G, h⟩
    | some c' => exact ⟨G, SwapInv.spawn h hs⟩
  | step tid f => exact h.step tid f
  | crash =>
    exact ⟨G, ⟨rfl, List.nodup_nil, h.inSpent, h.disj, by intro tp htp; simp [applyCEvt, crashAll] at htp⟩⟩
  | seq op =>
    exact ⟨G, h.mono_db rfl rfl (fun row hr => applyOp_db (spent_mono_db row) c.s op hr)⟩
  | script a => exact ⟨G, h.mono_db rfl rfl (fun row hr => hr)⟩

theorem SwapInv.events {c : CSess} {G : Commits} (h : SwapInv c G) (evts : List CEvt) : ∃ G', SwapInv (runCEvts c evts) G' := by
  induction evts generalizing c G with
  | nil => exact ⟨G, h⟩
  | cons e rest ih =>
    obtain ⟨G1, h1⟩ := h.event e
    exact ih h1

theorem SwapInv.init (fee : UInt64) (pct : Bool) (cfg : Cfg) : SwapInv (initC fee pct cfg) [] where
  aligned := rfl
  nodup := List.nodup_nil
  inSpent := fun g hg => nomatch hg
  disj := List.Pairwise.nil
  thr := fun tp htp => nomatch htp


theorem find_zip {β γ : Type _} (l1 : List (Nat × β)) (l2 : List (Nat × γ)) (hal : l1.map (·.1) = l2.map (·.1)) (t : Nat)
    {a : Nat × β} {b : Nat × γ} (ha : l1.find? (·.1 == t) = some a) (hb : l2.find? (·.1 == t) = some b) :
    (a, b) ∈ l1.zip l2 := by
  induction l1 generalizing l2 with
  | nil => simp at ha
  | cons x xs ih =>
    cases l2 with
    | nil => simp at hb
    | cons y ys =>
      simp only [List.map_cons, List.cons.injEq] at hal
      simp only [List.find?_cons] at ha hb
      rw [← hal.1] at hb
      by_cases hx : (x.1 == t) = true
      · simp only [hx] at ha hb
        injection ha with ha; injection hb with hb
        subst ha; subst hb
        exact List.mem_cons_self ..
      · simp only [hx] at ha hb
        exact List.mem_cons_of_mem _ (ih ys hal.2 ha hb)

theorem pairwise_mem {α : Type} {R : α → α → Prop} {l : List α} (h : l.Pairwise R) {a b : α} (ha : a ∈ l) (hb : b ∈ l)
    (hne : a ≠ b) : R a b ∨ R b a := by
  induction h with
  | nil => cases ha
  | cons hx _ ih =>
    rcases List.mem_cons.1 ha with rfl | ha' <;> rcases List.mem_cons.1 hb with rfl | hb'
    · exact absurd rfl hne
    · exact Or.inl (hx b hb')
    · exact Or.inr (hx a ha')
    · exact ih ha' hb'

/-- A swap thread that has returned signatures has committed its inputs. -/
theorem committed_of_ok {c : CSess} {G : Commits} (h : SwapInv c G) (t : Nat) (ps : List Proof) (outs : List BMsg)
    (v : Option E) (sigs : List BSig) (hop : c.ops.find? (·.1 == t) = some (t, Op.swap ps outs v))
    (hfin : threadResult c t = some (.sigs (.ok sigs))) : (t, ps.map (·.secret)) ∈ G := by
  unfold threadResult at hfin
  cases hth : c.threads.find? (·.1 == t) with
  | none => simp [hth] at hfin
  | some tp =>
    obtain ⟨t', p⟩ := tp
    have ht' : t' = t := by simpa using List.find?_some hth
    subst ht'
    cases p with
    | eff e k => simp [hth] at hfin
    | ret r =>
      have hz := find_zip c.threads c.ops h.aligned t' hth hop
      rcases h.thr _ hz ps outs v rfl with hn | hg
      · exfalso
        apply hn
        simp only [hth, Option.some.injEq] at hfin
        unfold resOk
        rw [hfin]
        trivial
      · exact hg

/-- ANY event sequence — any number of threads of any kind (swaps, melts, mints, polls …), every schedule, injected
    storage errors, process kills, sequential operations in between: two different swap threads that both returned
    signatures presented disjoint sets of secrets. -/
theorem swaps_never_share (fee : UInt64) (pct : Bool) (cfg : Cfg) (evts : List CEvt) (t1 t2 : Nat) (hne : t1 ≠ t2)
    (ps1 ps2 : List Proof) (outs1 outs2 : List BMsg) (v1 v2 : Option E) (sigs1 sigs2 : List BSig)
    (ho1 : (runCEvts (initC fee pct cfg) evts).ops.find? (·.1 == t1) = some (t1, Op.swap ps1 outs1 v1))
    (ho2 : (runCEvts (initC fee pct cfg) evts).ops.find? (·.1 == t2) = some (t2, Op.swap ps2 outs2 v2))
    (hr1 : threadResult (runCEvts (initC fee pct cfg) evts) t1 = some (.sigs (.ok sigs1)))
    (hr2 : threadResult (runCEvts (initC fee pct cfg) evts) t2 = some (.sigs (.ok sigs2))) :
    ∀ p1 ∈ ps1, ∀ p2 ∈ ps2, p1.secret ≠ p2.secret := by
  obtain ⟨G, hG⟩ := (SwapInv.init fee pct cfg).events evts
  have h1 := committed_of_ok hG t1 ps1 outs1 v1 sigs1 ho1 hr1
  have h2 := committed_of_ok hG t2 ps2 outs2 v2 sigs2 ho2 hr2
  intro p1 hp1 p2 hp2 heq
  have hne' : (t1, ps1.map (·.secret)) ≠ (t2, ps2.map (·.secret)) := by
    intro he; injection he with he1 _; exact hne he1
  rcases pairwise_mem hG.disj h1 h2 hne' with hd | hd
  · exact hd p1.secret (List.mem_map.2 ⟨p1, hp1, rfl⟩) (by rw [heq]; exact List.mem_map.2 ⟨p2, hp2, rfl⟩)
  · exact hd p2.secret (List.mem_map.2 ⟨p2, hp2, rfl⟩) (by rw [← heq]; exact List.mem_map.2 ⟨p1, hp1, rfl⟩)

end Gonuts.Model.Mint
