import Gonuts.Spec.Sha256
import Gonuts.Spec.Secp256k1
/-
  NUT-00 `hash_to_curve`:

      DOMAIN_SEPARATOR = b"Secp256k1_HashToCurve_Cashu_"
      msg_hash = SHA256(DOMAIN_SEPARATOR ‖ x)
      for counter in 0 .. 2^16 − 1:
          hash = SHA256(msg_hash ‖ counter)        -- counter: uint32, little endian
          try: return PublicKey(b"\x02" ‖ hash)    -- a compressed point
      fail: "No valid point found"

  CORE LEAN ONLY.
-/
namespace Gonuts.Spec.HashToCurve
open Secp256k1

def domainSeparator : Bytes := ascii "Secp256k1_HashToCurve_Cashu_"

/-- The number of counter values tried: `2^16`. -/
def maxIterations : Nat := 2 ^ 16

def msgHash (msg : Bytes) : Bytes := sha256 (domainSeparator ++ msg)

/-- The hash tried at counter `c`. -/
def counterHash (mh : Bytes) (c : Nat) : Bytes := sha256 (mh ++ le32 c)

/-- The 33-byte string tried as a compressed public key at counter `c`. -/
def candidate (mh : Bytes) (c : Nat) : Bytes := 0x02 :: counterHash mh c

/-- Try counters `c, c+1, …` (`fuel` of them); the first that parses wins. -/
def search (mh : Bytes) : Nat → Nat → Option (Nat × Point)
  | 0, _ => none
  | fuel + 1, c =>
    match parse (candidate mh c) with
    | some P => some (c, P)
    | none => search mh fuel (c + 1)

/-- The point together with the counter that produced it. -/
def hashToCurveCounter (msg : Bytes) : Option (Nat × Point) := search (msgHash msg) maxIterations 0

def hashToCurve (msg : Bytes) : Option Point := (hashToCurveCounter msg).map (·.2)

end Gonuts.Spec.HashToCurve
