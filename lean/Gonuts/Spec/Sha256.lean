import Gonuts.Spec.Bytes
/-
  SHA-256 written from FIPS 180-4 (§2.2.2 operations, §4.1.2 functions, §4.2.2 constants,
  §5.1.1 padding, §5.3.3 initial hash value, §6.2 computation).  CORE LEAN ONLY.

  The constants are the first 32 bits of the fractional parts of the cube roots (K) and
  square roots (H0) of the first 64 (8) primes; `Gonuts/Lemmas/SpecSha.lean` re-derives
  them from that definition.
-/
namespace Gonuts.Spec.Sha256

/-- §4.2.2 -/
def K : Array UInt32 := #[
    0x428a2f98, 0x71374491, 0xb5c0fbcf, 0xe9b5dba5, 0x3956c25b, 0x59f111f1, 0x923f82a4, 0xab1c5ed5,
    0xd807aa98, 0x12835b01, 0x243185be, 0x550c7dc3, 0x72be5d74, 0x80deb1fe, 0x9bdc06a7, 0xc19bf174,
    0xe49b69c1, 0xefbe4786, 0x0fc19dc6, 0x240ca1cc, 0x2de92c6f, 0x4a7484aa, 0x5cb0a9dc, 0x76f988da,
    0x983e5152, 0xa831c66d, 0xb00327c8, 0xbf597fc7, 0xc6e00bf3, 0xd5a79147, 0x06ca6351, 0x14292967,
    0x27b70a85, 0x2e1b2138, 0x4d2c6dfc, 0x53380d13, 0x650a7354, 0x766a0abb, 0x81c2c92e, 0x92722c85,
    0xa2bfe8a1, 0xa81a664b, 0xc24b8b70, 0xc76c51a3, 0xd192e819, 0xd6990624, 0xf40e3585, 0x106aa070,
    0x19a4c116, 0x1e376c08, 0x2748774c, 0x34b0bcb5, 0x391c0cb3, 0x4ed8aa4a, 0x5b9cca4f, 0x682e6ff3,
    0x748f82ee, 0x78a5636f, 0x84c87814, 0x8cc70208, 0x90befffa, 0xa4506ceb, 0xbef9a3f7, 0xc67178f2]

/-- The eight working variables / the intermediate hash value. -/
structure State where
  a : UInt32
  b : UInt32
  c : UInt32
  d : UInt32
  e : UInt32
  f : UInt32
  g : UInt32
  h : UInt32

/-- §5.3.3 -/
def init : State :=
  ⟨0x6a09e667, 0xbb67ae85, 0x3c6ef372, 0xa54ff53a, 0x510e527f, 0x9b05688c, 0x1f83d9ab, 0x5be0cd19⟩

@[inline] def rotr (x : UInt32) (n : UInt32) : UInt32 := (x >>> n) ||| (x <<< (32 - n))
@[inline] def ch (x y z : UInt32) : UInt32 := (x &&& y) ^^^ (~~~x &&& z)
@[inline] def maj (x y z : UInt32) : UInt32 := (x &&& y) ^^^ (x &&& z) ^^^ (y &&& z)
@[inline] def bsig0 (x : UInt32) : UInt32 := rotr x 2 ^^^ rotr x 13 ^^^ rotr x 22
@[inline] def bsig1 (x : UInt32) : UInt32 := rotr x 6 ^^^ rotr x 11 ^^^ rotr x 25
@[inline] def ssig0 (x : UInt32) : UInt32 := rotr x 7 ^^^ rotr x 18 ^^^ (x >>> 3)
@[inline] def ssig1 (x : UInt32) : UInt32 := rotr x 17 ^^^ rotr x 19 ^^^ (x >>> 10)

/-- §5.1.1: append the bit 1, `k` zero bits and the 64-bit big-endian bit length, `k` minimal
such that the total is a multiple of 512 bits. -/
def pad (msg : Bytes) : Bytes :=
  msg ++ [0x80] ++ List.replicate ((119 - msg.length % 64) % 64) 0 ++ natToBE 8 (msg.length * 8)

/-- §6.2.2 step 1: the message schedule of the block starting at byte `off`. -/
def schedule (m : ByteArray) (off : Nat) : Array UInt32 := Id.run do
  let mut w : Array UInt32 := Array.mkEmpty 64
  for t in [0:16] do
    let j := off + 4 * t
    w := w.push (((m.get! j).toUInt32 <<< 24) ||| ((m.get! (j + 1)).toUInt32 <<< 16)
      ||| ((m.get! (j + 2)).toUInt32 <<< 8) ||| (m.get! (j + 3)).toUInt32)
  for t in [16:64] do
    w := w.push (ssig1 w[t - 2]! + w[t - 7]! + ssig0 w[t - 15]! + w[t - 16]!)
  return w

/-- §6.2.2 steps 2–4 for one block. -/
def compress (s : State) (w : Array UInt32) : State := Id.run do
  let mut a := s.a
  let mut b := s.b
  let mut c := s.c
  let mut d := s.d
  let mut e := s.e
  let mut f := s.f
  let mut g := s.g
  let mut h := s.h
  for t in [0:64] do
    let t1 := h + bsig1 e + ch e f g + K[t]! + w[t]!
    let t2 := bsig0 a + maj a b c
    h := g
    g := f
    f := e
    e := d + t1
    d := c
    c := b
    b := a
    a := t1 + t2
  return ⟨s.a + a, s.b + b, s.c + c, s.d + d, s.e + e, s.f + f, s.g + g, s.h + h⟩

def wordBytes (x : UInt32) : Bytes :=
  [(x >>> 24).toUInt8, (x >>> 16).toUInt8, (x >>> 8).toUInt8, x.toUInt8]

/-- The 256-bit digest `H0 ‖ … ‖ H7`, big-endian words. -/
def digest (s : State) : Bytes :=
  wordBytes s.a ++ wordBytes s.b ++ wordBytes s.c ++ wordBytes s.d ++
  wordBytes s.e ++ wordBytes s.f ++ wordBytes s.g ++ wordBytes s.h

def blocks (m : ByteArray) : State := Id.run do
  let mut s := init
  for i in [0:m.size / 64] do
    s := compress s (schedule m (64 * i))
  return s

end Sha256

/-- SHA-256 of a byte string (32 bytes). -/
def sha256 (msg : Bytes) : Bytes :=
  Sha256.digest (Sha256.blocks (Sha256.pad msg).toByteArray)

end Gonuts.Spec
