import Gonuts.Model.SpendBase
/-!
  Spec.Spendable — DECLARATIVE specification of when a NUT-11 (P2PK) or NUT-14 (HTLC) locked proof
  is spendable, written from the NUT texts and the statements of properties C12/C13 — not from the
  Go code.  It shares with the model only the vocabulary of `Model.SpendBase` (types, tag names,
  the Go standard-library functions `strconv.ParseInt` syntax and `hex.DecodeString`).

  NUT-11.  `Secret.data` is the lock key.  Tags: `sigflag`, `n_sigs` (minimum number of valid
  signatures), `pubkeys` (additional keys that may sign, considered when `n_sigs` is a positive
  integer), `locktime` (unix time after which the lock expires), `refund` (keys that alone may spend after
  the locktime; none ⇒ anyone can spend).  A signature is on `sha256(Proof.secret)`.  Signatures must
  come from distinct authorised keys; a repeated signature string is not accepted.
  NUT-14.  `Secret.data` is the 32-byte hash (64 hex chars); `witness.preimage` (hex) must hash to it;
  tags as in NUT-11, the signers being the `pubkeys` when a threshold `n_sigs` is set.

  Declarative style: tag lookup is "the last tag of that name"; well-formedness is a conjunction of
  ∀-statements; the threshold is an ∃-statement (`Signed`) with no algorithm in it.  The Boolean
  deciders at the end (`decideP2PK`, `decideHTLC`: exhaustive backtracking search, no greedy choice)
  are what the driver runs as the "independent evaluator"; `Lemmas.Spend` proves them equal to the
  declarative statements.  Core Lean only.
-/
namespace Gonuts.Spec.Spendable
open Gonuts.Model.Spend

/-- The last tag whose first element is `name` (a later tag overrides an earlier one). -/
def lastTag (name : String) : List (List String) → Option (List String)
  | [] => none
  | t :: rest =>
    match lastTag name rest with
    | some v => some v
    | none => if t.head? = some name then some t else none

/-- the value (second element) of a tag as a decimal integer -/
def tagInt (t : List String) : Option Int := t[1]?.bind decimal?

/-- Tag lists that a mint accepts at all (everything else is a rejection, whatever the witness). -/
structure WellFormed (env : Env) (tags : List (List String)) : Prop where
  atMostFive : tags.length ≤ 5
  arity : ∀ t ∈ tags, 2 ≤ t.length
  sigflag : ∀ t ∈ tags, t.head? = some SIGFLAG → t[1]? = some SIGINPUTS ∨ t[1]? = some SIGALL
  nsigs : ∀ t ∈ tags, t.head? = some NSIGS → ∃ n : Int, tagInt t = some n ∧ 0 ≤ n ∧ n ≤ 127
  locktime : ∀ t ∈ tags, t.head? = some LOCKTIME → ∃ l : Int, tagInt t = some l ∧ -(2 ^ 63 : Int) ≤ l ∧ l < (2 ^ 63 : Int)
  keys : ∀ t ∈ tags, (t.head? = some PUBKEYS ∨ t.head? = some REFUND) → ∀ k ∈ t.tail, (env.parseKey k).isSome = true

/-- The spending condition a well-formed tag list denotes. -/
structure Cond where
  nSigs : Nat
  pubkeys : List Key
  locktime : Int
  refund : List Key
  deriving DecidableEq, Repr

def intOfTag (name : String) (tags : List (List String)) : Int :=
  match lastTag name tags with
  | some t => (tagInt t).getD 0
  | none => 0

def keysOfTag (env : Env) (name : String) (tags : List (List String)) : List Key :=
  match lastTag name tags with
  | some t => t.tail.filterMap env.parseKey
  | none => []

def condOf (env : Env) (tags : List (List String)) : Cond where
  nSigs := (intOfTag NSIGS tags).toNat
  pubkeys := keysOfTag env PUBKEYS tags
  locktime := intOfTag LOCKTIME tags
  refund := keysOfTag env REFUND tags

/-- `n` of the witness's signatures are valid signatures of `m` by `n` DISTINCT POSITIONS of `keys`:
    there is a list of `n` (signature, key) pairs whose signatures are a sublist of the witness
    (distinct positions, in order) and whose keys are — up to order — a sublist of `keys` (distinct
    positions), every pair verifying.  No algorithm, no order of evaluation. -/
def Signed (valid : Sig → Key → Msg → Bool) (m : Msg) (sigs : List Sig) (keys : List Key) (n : Nat) : Prop :=
  ∃ ps : List (Sig × Key), ps.length = n ∧ (ps.map Prod.fst).Sublist sigs ∧
    (∃ l : List Key, l.Perm (ps.map Prod.snd) ∧ l.Sublist keys) ∧ ∀ p ∈ ps, valid p.1 p.2 m = true

/-- The threshold as an explicit INJECTIVE ASSIGNMENT: `n` pairs (signature position, key position); any two pairs differ
    in the signature position AND in the key position; each pair verifies. -/
def Assigned (valid : Sig → Key → Msg → Bool) (m : Msg) (sigs : List Sig) (keys : List Key) (n : Nat) : Prop :=
  ∃ pairs : List (Nat × Nat), pairs.length = n ∧ pairs.Pairwise (fun a b => a.1 ≠ b.1 ∧ a.2 ≠ b.2) ∧
    ∀ p ∈ pairs, ∃ s k, sigs[p.1]? = some s ∧ keys[p.2]? = some k ∧ valid s k m = true

/-- the lock has expired -/
def Expired (env : Env) (c : Cond) : Prop := c.locktime > 0 ∧ env.now > c.locktime

instance (env : Env) (c : Cond) : Decidable (Expired env c) := by unfold Expired; exact inferInstance

/-- NUT-11: when the proof with secret `s` (digest `m = sha256(secret)`) is spendable with witness `w`. -/
def spendableP2PK (env : Env) (s : Secret) (m : Msg) (w : Witness) : Prop :=
  WellFormed env s.tags ∧
  (let c := condOf env s.tags
   if Expired env c then
     -- after the locktime: anyone if there is no refund key, else one refund-key signature
     c.refund = [] ∨ Signed env.valid m w.signatures c.refund 1
   else
     -- before: max(1, n_sigs) distinct keys among {data} ∪ (pubkeys if n_sigs > 0) signed
     ∃ k, env.parseKey s.data = some k ∧ (c.nSigs > 0 → c.pubkeys ≠ []) ∧ w.signatures.Nodup ∧
       Signed env.valid m w.signatures (k :: (if c.nSigs > 0 then c.pubkeys else [])) (max 1 c.nSigs))

/-- NUT-14: the preimage opens the hash lock `data` (64 hex characters = 32 bytes). -/
def Opens (env : Env) (preimage data : String) : Prop :=
  data.utf8ByteSize = 64 ∧ ∃ bytes, hexDecode preimage = some bytes ∧ env.sha256hex bytes = data

/-- NUT-14: when the HTLC proof is spendable. -/
def spendableHTLC (env : Env) (s : Secret) (m : Msg) (w : Witness) : Prop :=
  WellFormed env s.tags ∧
  (let c := condOf env s.tags
   if Expired env c then
     c.refund = [] ∨ Signed env.valid m w.signatures c.refund 1
   else
     Opens env w.preimage s.data ∧
       (c.nSigs > 0 → w.signatures.Nodup ∧ Signed env.valid m w.signatures c.pubkeys c.nSigs))

/-! ## Boolean deciders (run by the driver as the independent evaluator) -/

/-- exhaustive search for `Signed`: each signature is either left out or paired with ANY still unused
    key position under which it verifies. -/
def canSign (valid : Sig → Key → Msg → Bool) (m : Msg) : List Sig → List Key → Nat → Bool
  | _, _, 0 => true
  | [], _, _ + 1 => false
  | s :: rest, keys, n + 1 =>
    canSign valid m rest keys (n + 1) ||
    (List.range keys.length).any fun j =>
      match keys[j]? with
      | some k => valid s k m && canSign valid m rest (keys.eraseIdx j) n
      | none => false

def wellFormedTagB (env : Env) (t : List String) : Bool :=
  decide (2 ≤ t.length) &&
  (if t.head? = some SIGFLAG then decide (t[1]? = some SIGINPUTS ∨ t[1]? = some SIGALL) else true) &&
  (if t.head? = some NSIGS then
     (match tagInt t with
      | some n => decide (0 ≤ n ∧ n ≤ 127)
      | none => false) else true) &&
  (if t.head? = some LOCKTIME then
     (match tagInt t with
      | some l => decide (-(2 ^ 63 : Int) ≤ l ∧ l < (2 ^ 63 : Int))
      | none => false) else true) &&
  (if t.head? = some PUBKEYS ∨ t.head? = some REFUND then t.tail.all (fun k => (env.parseKey k).isSome) else true)

def wellFormedB (env : Env) (tags : List (List String)) : Bool :=
  decide (tags.length ≤ 5) && tags.all (wellFormedTagB env)

def nodupB : List Sig → Bool
  | [] => true
  | s :: rest => !rest.contains s && nodupB rest

def decideP2PK (env : Env) (s : Secret) (m : Msg) (w : Witness) : Bool :=
  wellFormedB env s.tags &&
  (let c := condOf env s.tags
   if Expired env c then
     c.refund.isEmpty || canSign env.valid m w.signatures c.refund 1
   else
     match env.parseKey s.data with
     | none => false
     | some k =>
       (decide (c.nSigs = 0) || !c.pubkeys.isEmpty) && nodupB w.signatures &&
         canSign env.valid m w.signatures (k :: (if c.nSigs > 0 then c.pubkeys else [])) (max 1 c.nSigs))

def opensB (env : Env) (preimage data : String) : Bool :=
  decide (data.utf8ByteSize = 64) &&
  (match hexDecode preimage with
   | some bytes => decide (env.sha256hex bytes = data)
   | none => false)

def decideHTLC (env : Env) (s : Secret) (m : Msg) (w : Witness) : Bool :=
  wellFormedB env s.tags &&
  (let c := condOf env s.tags
   if Expired env c then
     c.refund.isEmpty || canSign env.valid m w.signatures c.refund 1
   else
     opensB env w.preimage s.data &&
       (decide (c.nSigs = 0) || (nodupB w.signatures && canSign env.valid m w.signatures c.pubkeys c.nSigs)))

end Gonuts.Spec.Spendable
