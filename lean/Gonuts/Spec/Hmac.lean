import Gonuts.Spec.Sha512
import Gonuts.Spec.Sha256
/-
  HMAC written from RFC 2104 §2:  H(K XOR opad, H(K XOR ipad, text))  with
  ipad = 0x36 repeated B times, opad = 0x5c repeated B times, K hashed first when longer
  than the block length B and then zero-padded to B.  B = 128 for SHA-512, 64 for SHA-256.
  CORE LEAN ONLY.
-/
namespace Gonuts.Spec

/-- RFC 2104 step (1): the key brought to exactly `B` bytes. -/
def hmacKey (H : Bytes → Bytes) (B : Nat) (key : Bytes) : Bytes :=
  let k := if key.length > B then H key else key
  k ++ List.replicate (B - k.length) 0

def hmac (H : Bytes → Bytes) (B : Nat) (key text : Bytes) : Bytes :=
  let k := hmacKey H B key
  H (k.map (· ^^^ 0x5c) ++ H (k.map (· ^^^ 0x36) ++ text))

/-- HMAC-SHA512 (64 bytes). -/
def hmacSha512 (key text : Bytes) : Bytes := hmac sha512 128 key text

/-- HMAC-SHA256 (32 bytes); not used by Cashu, kept as a second instance for the RFC 4231 vectors. -/
def hmacSha256 (key text : Bytes) : Bytes := hmac sha256 64 key text

end Gonuts.Spec
