import Gonuts.Spec.Hmac
/-
  PBKDF2 (RFC 8018 §5.2) with PRF = HMAC-SHA512, and the BIP39 mnemonic → seed step
  (password = the mnemonic sentence, salt = "mnemonic" ‖ passphrase, 2048 iterations, 64
  bytes).  Only used by the start-up self-test, so that the published NUT-13 vector can be
  run from its mnemonic; the streams pass seeds as bytes.  CORE LEAN ONLY.
-/
namespace Gonuts.Spec

def xorBytes : Bytes → Bytes → Bytes
  | a :: as, b :: bs => (a ^^^ b) :: xorBytes as bs
  | _, _ => []

/-- `U_1 ⊕ … ⊕ U_c` given `U_j` (the current block) and the running xor. -/
def pbkdf2Iter (P : Bytes) : Nat → Bytes → Bytes → Bytes
  | 0, _, acc => acc
  | c + 1, u, acc =>
    let u' := hmacSha512 P u
    pbkdf2Iter P c u' (xorBytes acc u')

/-- Block `T_i` (64 bytes) for iteration count `c ≥ 1`. -/
def pbkdf2Block (P S : Bytes) (c i : Nat) : Bytes :=
  let u1 := hmacSha512 P (S ++ be32 i)
  pbkdf2Iter P (c - 1) u1 u1

/-- First `dkLen ≤ 64·blocks` bytes of `T_1 ‖ T_2 ‖ …`. -/
def pbkdf2HmacSha512 (P S : Bytes) (c dkLen : Nat) : Bytes :=
  (((List.range ((dkLen + 63) / 64)).map (fun i => pbkdf2Block P S c (i + 1))).flatten).take dkLen

/-- BIP39 seed of an (already NFKD-normalised, here ASCII) mnemonic sentence. -/
def bip39Seed (mnemonic passphrase : String) : Bytes :=
  pbkdf2HmacSha512 (utf8 mnemonic) (utf8 ("mnemonic" ++ passphrase)) 2048 64

end Gonuts.Spec
