/-!
  What the NUT documents say about the HTTP surface, written down independently of the code
  (cashubtc/nuts as of NUT-20; written from the documents' text, no access to the repository needed):

  * NUT-00: an error is answered with HTTP 400 and `{"detail": <string>, "code": <int>}`;
  * `error_codes.md`: the table of codes;
  * NUT-04 / NUT-05 / NUT-07: the state enums as strings;
  * NUT-01/02/03/04/05/07/09: the fields of each response;
  * NUT-19: the cached endpoints, keyed by method, path and request body.

  Core Lean, data only.
-/
namespace Gonuts.Spec.NutWire

/-- `error_codes.md`: (code, description). -/
def errorCodes : List (Nat × String) := [
  (10002, "Blinded message of output already signed"),
  (10003, "Token could not be verified"),
  (11001, "Token is already spent"),
  (11002, "Transaction is not balanced (inputs != outputs)"),
  (11005, "Unit in request is not supported"),
  (11006, "Amount outside of limit range"),
  (11007, "Duplicate inputs provided"),
  (11008, "Duplicate outputs provided"),
  (11009, "Inputs/Outputs of multiple units"),
  (11010, "Inputs and outputs not of same unit"),
  (12001, "Keyset is not known"),
  (12002, "Keyset is inactive, cannot sign messages"),
  (20001, "Quote request is not paid"),
  (20002, "Tokens have already been issued for quote"),
  (20003, "Minting is disabled"),
  (20004, "Lightning payment failed"),
  (20005, "Quote is pending"),
  (20006, "Invoice already paid"),
  (20007, "Quote is expired"),
  (20008, "Signature for mint request invalid"),
  (20009, "Pubkey required for mint quote")
]

/-- Which NUT cause each error *variable* of cashu/cashu.go expresses (variable name, NUT code).  Variables that
    express no cause of the table (generic errors, payment method, secret length, unknown quote …) are absent. -/
def causeOfVar : List (String × Nat) := [
  ("BlindedMessageAlreadySigned", 10002),
  ("InvalidProofErr", 10003),
  ("ProofAlreadyUsedErr", 11001),
  ("InsufficientProofsAmount", 11002),
  ("UnitNotSupportedErr", 11005),
  ("MintAmountExceededErr", 11006),
  ("MeltAmountExceededErr", 11006),
  ("DuplicateProofs", 11007),
  ("DuplicateOutputs", 11008),
  ("UnknownKeysetErr", 12001),
  ("InactiveKeysetSignatureRequest", 12002),
  ("MintQuoteRequestNotPaid", 20001),
  ("MintQuoteAlreadyIssued", 20002),
  ("MintingDisabled", 20003),
  ("LightningPaymentFailed", 20004),
  ("QuotePending", 20005),
  ("MeltQuoteAlreadyPaid", 20006),
  ("MintQuoteInvalidSigErr", 20008)
]

/-- State enums as the NUTs spell them. -/
def mintQuoteStates : List String := ["UNPAID", "PAID", "ISSUED"]          -- NUT-04
def meltQuoteStates : List String := ["UNPAID", "PENDING", "PAID"]         -- NUT-05
def proofStates : List String := ["UNSPENT", "PENDING", "SPENT"]           -- NUT-07

/-- Field lists of the success responses (optional fields in the second component). -/
def mintQuoteFields : List String × List String := (["quote", "request", "amount", "unit", "state", "expiry"], ["pubkey"])
def meltQuoteFields : List String × List String :=
  (["quote", "request", "amount", "unit", "fee_reserve", "state", "expiry"], ["payment_preimage", "change"])
def signaturesFields : List String := ["signatures"]                        -- NUT-03 swap, NUT-04 mint
def blindSignatureFields : List String × List String := (["amount", "C_", "id"], ["dleq"])   -- NUT-00 / NUT-12
def checkStateFields : List String := ["states"]                            -- NUT-07
def proofStateFields : List String × List String := (["Y", "state"], ["witness"])
def restoreFields : List String := ["outputs", "signatures"]                -- NUT-09
def errorFields : List String := ["detail", "code"]                         -- NUT-00

/-- NUT-19: (method, path) of the endpoints whose successful responses are cached. -/
def cachedEndpoints : List (String × String) := [("POST", "/v1/mint/bolt11"), ("POST", "/v1/swap")]

end Gonuts.Spec.NutWire
