import Gonuts.Spec.Bip32
/-
  NUT-13 deterministic secrets (keyset id version 00):

      keyset_id_int = int.from_bytes(bytes.fromhex(keyset_id_hex), "big") % (2**31 - 1)
      secret_derivation_path          = m/129372'/0'/{keyset_id_int}'/{counter}'/0
      blinding_factor_derivation_path = m/129372'/0'/{keyset_id_int}'/{counter}'/1

  The secret is the lowercase hex of the 32-byte private key at the first path (it is used
  as a UTF-8 string), the blinding factor r is the private key at the second.
  The wallet's P2PK receiving key (gonuts convention, not a NUT) is m/129372'/0'/1'/0.
  CORE LEAN ONLY.
-/
namespace Gonuts.Spec.Nut13
open Secp256k1 Bip32

def purpose : Nat := 129372
def coinType : Nat := 0

/-- `2^31 − 1`. -/
def idModulus : Nat := 2 ^ 31 - 1

def keysetIdInt (id : Bytes) : Nat := beNat id % idModulus

/-- m/129372'/0'/keyset_id_int' -/
def keysetPath (id : Bytes) : List Nat := [hardened purpose, hardened coinType, hardened (keysetIdInt id)]

def secretPath (id : Bytes) (counter : Nat) : List Nat := keysetPath id ++ [hardened counter, 0]
def blindingFactorPath (id : Bytes) (counter : Nat) : List Nat := keysetPath id ++ [hardened counter, 1]

/-- The secret: 64 lowercase hex characters. -/
def deriveSecret (M : Nat → Point → Point) (seed id : Bytes) (counter : Nat) : Option String :=
  (fromSeed M seed (secretPath id counter)).map (fun k => hex (ser256 k.key))

/-- The blinding factor `r`. -/
def deriveBlindingFactor (M : Nat → Point → Point) (seed id : Bytes) (counter : Nat) : Option Nat :=
  (fromSeed M seed (blindingFactorPath id counter)).map (·.key)

/-- m/129372'/0'/1'/0 -/
def p2pkPath : List Nat := [hardened purpose, hardened coinType, hardened 1, 0]

def deriveP2PK (M : Nat → Point → Point) (seed : Bytes) : Option Nat :=
  (fromSeed M seed p2pkPath).map (·.key)

end Gonuts.Spec.Nut13
