import Gonuts.Spec.HashToCurve
/-
  NUT-00 blind Diffie-Hellman key exchange and the NUT-12 DLEQ hash, over `Spec.Secp256k1`:
      Y  = hash_to_curve(secret)
      B_ = Y + r·G          (blind)
      C_ = k·B_             (sign)
      C  = C_ − r·K         (unblind), K = k·G
      verify: k·Y == C
      hash_e(R1, R2, A, C_) = SHA256(uncompressed-hex(R1) ‖ … ‖ uncompressed-hex(C_))
  `M` is the scalar multiplication (specification: `Secp256k1.mul`).  CORE LEAN ONLY.
-/
namespace Gonuts.Spec.Bdhke
open Secp256k1 HashToCurve

def blind (M : Nat → Point → Point) (secret : Bytes) (r : Nat) : Option Point :=
  (hashToCurve secret).map (fun Y => add Y (M r G))

def sign (M : Nat → Point → Point) (B_ : Point) (k : Nat) : Point := M k B_

def unblind (M : Nat → Point → Point) (C_ : Point) (r : Nat) (K : Point) : Point :=
  add C_ (neg (M r K))

def verify (M : Nat → Point → Point) (secret : Bytes) (k : Nat) (C : Point) : Bool :=
  match hashToCurve secret with
  | some Y => decide (M k Y = C)
  | none => false

/-- NUT-12 `hash_e`: SHA-256 of the concatenated lowercase hex of the uncompressed points. -/
def hashE (ps : List Point) : Option Bytes :=
  (ps.mapM serUncompressed).map (fun bs => sha256 ((bs.map (fun b => (hexChars b).map (fun c => UInt8.ofNat c.toNat))).flatten))

/-- NUT-12 verification: R1 = s·G − e·A, R2 = s·B_ − e·C_, e == hash_e(R1, R2, A, C_). -/
def verifyDleq (M : Nat → Point → Point) (e s : Nat) (A B_ C_ : Point) : Bool :=
  let R1 := add (M s G) (neg (M e A))
  let R2 := add (M s B_) (neg (M e C_))
  match hashE [R1, R2, A, C_] with
  | some h => decide (h = natToBE 32 e)
  | none => false

end Gonuts.Spec.Bdhke
