import Gonuts.Spec.Bytes
/-
  The curve secp256k1, written from SEC 2 v2 §2.4.1 (domain parameters) and SEC 1 v2
  §2.2.1 (group law of E(F_p)), §2.3.3/§2.3.4 (point ↔ octet string).  CORE LEAN ONLY.

  * `p n Gx Gy`, `Point`, `add`, `double`, `neg`, `mul` (double-and-add), `liftX`,
    `serCompressed`, `serUncompressed`, `parse` are the SPECIFICATION: affine coordinates,
    `Nat` arithmetic with explicit `% p`.
  * `Jac`, `jdouble`, `jadd`, `mulFast` are the FAST PATH used by the driver (Jacobian
    coordinates, 4-bit window).  It is not proved equal to `mul`; the driver cross-checks it
    against `mul` on edge and pseudo-random scalars at start-up (`spec.selftest`).
    Functions that need a scalar multiplication take it as the parameter
    `M : Nat → Point → Point`; the specification is the instance `M := mul`.
-/
namespace Gonuts.Spec.Secp256k1

/-- The field prime `2^256 − 2^32 − 977`. -/
def p : Nat := 0xFFFFFFFFFFFFFFFFFFFFFFFFFFFFFFFFFFFFFFFFFFFFFFFFFFFFFFFEFFFFFC2F
/-- The (prime) group order. -/
def n : Nat := 0xFFFFFFFFFFFFFFFFFFFFFFFFFFFFFFFEBAAEDCE6AF48A03BBFD25E8CD0364141
def Gx : Nat := 0x79BE667EF9DCBBAC55A06295CE870B07029BFCDB2DCE28D959F2815B16F81798
def Gy : Nat := 0x483ADA7726A3C4655DA4FBFC0E1108A8FD17B448A68554199C47D08FFB10D4B8

/-- Square-and-multiply on the bits of `e`, least significant first; `fuel` bounds the number of bits. -/
def powModAux : Nat → Nat → Nat → Nat
  | 0, _, _ => 1 % p
  | fuel + 1, a, e =>
    if e = 0 then 1 % p
    else
      let h := powModAux fuel (a * a % p) (e / 2)
      if e % 2 = 1 then a * h % p else h

/-- `a^e mod p` (structural recursion on the bit length of `e`, so that the kernel can evaluate it). -/
def powMod (a e : Nat) : Nat := powModAux (e.log2 + 1) a e

/-- Inverse in `F_p` by Fermat: `a^(p−2)`. -/
def inv (a : Nat) : Nat := powMod a (p - 2)

/-- A point of `E(F_p)`: the point at infinity or affine coordinates (kept reduced `< p`). -/
inductive Point where
  | inf
  | aff (x y : Nat)
  deriving DecidableEq, Repr, Inhabited

open Point

/-- `y² ≡ x³ + 7 (mod p)` with reduced coordinates. -/
def OnCurve : Point → Prop
  | inf => True
  | aff x y => x < p ∧ y < p ∧ y * y % p = (x * x * x + 7) % p

instance : DecidablePred OnCurve := fun P =>
  match P with
  | inf => isTrue trivial
  | aff _ _ => by unfold OnCurve; exact inferInstance

def G : Point := aff Gx Gy

def neg : Point → Point
  | inf => inf
  | aff x y => aff x ((p - y) % p)

/-- SEC 1 §2.2.1 rule 5 (a = 0): λ = 3x²/(2y). -/
def double : Point → Point
  | inf => inf
  | aff x y =>
    if y = 0 then inf
    else
      let l := 3 * x * x % p * inv (2 * y % p) % p
      let x3 := (l * l + (p - x) + (p - x)) % p
      let y3 := (l * ((x + (p - x3)) % p) + (p - y)) % p
      aff x3 y3

/-- SEC 1 §2.2.1 rules 1–5. -/
def add : Point → Point → Point
  | inf, Q => Q
  | P, inf => P
  | aff x1 y1, aff x2 y2 =>
    if x1 = x2 then
      if (y1 + y2) % p = 0 then inf else double (aff x1 y1)
    else
      let l := (y2 + (p - y1)) % p * inv ((x2 + (p - x1)) % p) % p
      let x3 := (l * l + (p - x1) + (p - x2)) % p
      let y3 := (l * ((x1 + (p - x3)) % p) + (p - y1)) % p
      aff x3 y3

/-- Scalar multiplication `k·P` by double-and-add (least significant bit first). -/
def mul (k : Nat) (P : Point) : Point :=
  if k = 0 then inf
  else
    let h := mul (k / 2) (double P)
    if k % 2 = 1 then add P h else h
termination_by k
decreasing_by omega

/-- The even square root of `x³ + 7`, if `x < p` and one exists (`p ≡ 3 mod 4`, so a root is
`c^((p+1)/4)`); SEC 1 §2.3.4 step 2.4 with `ỹ = 0`. -/
def liftX (x : Nat) : Option Nat :=
  if x < p then
    let c := (x * x * x + 7) % p
    let y := powMod c ((p + 1) / 4)
    if y * y % p = c then some (if y % 2 = 0 then y else p - y) else none
  else none

/-- SEC 1 §2.3.3 with point compression; the point at infinity has no 33-byte form. -/
def serCompressed : Point → Option Bytes
  | inf => none
  | aff x y => some ((if y % 2 = 0 then 0x02 else 0x03) :: natToBE 32 x)

/-- SEC 1 §2.3.3 without compression (65 bytes). -/
def serUncompressed : Point → Option Bytes
  | inf => none
  | aff x y => some (0x04 :: (natToBE 32 x ++ natToBE 32 y))

/-- SEC 1 §2.3.4: 33-byte compressed (02/03) or 65-byte uncompressed (04) octet strings;
everything else (including the hybrid 06/07 forms some libraries accept) is rejected. -/
def parse (bs : Bytes) : Option Point :=
  match bs with
  | [] => none
  | pre :: rest =>
    if rest.length = 32 then
      let x := beNat rest
      if pre = 0x02 then (liftX x).map (fun y => aff x y)
      else if pre = 0x03 then
        match liftX x with
        | some y => if y = 0 then none else some (aff x (p - y))
        | none => none
      else none
    else if rest.length = 64 ∧ pre = 0x04 then
      let P := aff (beNat (rest.take 32)) (beNat (rest.drop 32))
      if OnCurve P then some P else none
    else none

/-! ## Fast path: Jacobian coordinates `(X, Y, Z)` ↦ `(X/Z², Y/Z³)`, `Z = 0` for infinity. -/

structure Jac where
  x : Nat
  y : Nat
  z : Nat
  deriving Inhabited

@[inline] def fmul (a b : Nat) : Nat := a * b % p
@[inline] def fadd (a b : Nat) : Nat := (a + b) % p
/-- `a − b` for reduced `b`. -/
@[inline] def fsub (a b : Nat) : Nat := (a + (p - b)) % p

def jinf : Jac := ⟨1, 1, 0⟩

def toJac : Point → Jac
  | inf => jinf
  | aff x y => ⟨x, y, 1⟩

def ofJac (P : Jac) : Point :=
  if P.z = 0 then inf
  else
    let zi := inv P.z
    let zi2 := fmul zi zi
    aff (fmul P.x zi2) (fmul P.y (fmul zi2 zi))

/-- S = 4XY², M = 3X², X' = M² − 2S, Y' = M(S − X') − 8Y⁴, Z' = 2YZ. -/
def jdouble (P : Jac) : Jac :=
  if P.z = 0 ∨ P.y = 0 then jinf
  else
    let yy := fmul P.y P.y
    let s := fmul 4 (fmul P.x yy)
    let m := fmul 3 (fmul P.x P.x)
    let x3 := fsub (fsub (fmul m m) s) s
    let y3 := fsub (fmul m (fsub s x3)) (fmul 8 (fmul yy yy))
    ⟨x3, y3, fmul 2 (fmul P.y P.z)⟩

/-- U1 = X1Z2², U2 = X2Z1², S1 = Y1Z2³, S2 = Y2Z1³, H = U2 − U1, R = S2 − S1,
X3 = R² − H³ − 2U1H², Y3 = R(U1H² − X3) − S1H³, Z3 = HZ1Z2. -/
def jadd (P Q : Jac) : Jac :=
  if P.z = 0 then Q
  else if Q.z = 0 then P
  else
    let z1z1 := fmul P.z P.z
    let z2z2 := fmul Q.z Q.z
    let u1 := fmul P.x z2z2
    let u2 := fmul Q.x z1z1
    let s1 := fmul P.y (fmul Q.z z2z2)
    let s2 := fmul Q.y (fmul P.z z1z1)
    if u1 = u2 then
      if s1 = s2 then jdouble P else jinf
    else
      let h := fsub u2 u1
      let r := fsub s2 s1
      let hh := fmul h h
      let hhh := fmul h hh
      let v := fmul u1 hh
      let x3 := fsub (fsub (fsub (fmul r r) hhh) v) v
      let y3 := fsub (fmul r (fsub v x3)) (fmul s1 hhh)
      ⟨x3, y3, fmul h (fmul P.z Q.z)⟩

/-- The multiples `0·P … 15·P`. -/
def window (P : Jac) : Array Jac := Id.run do
  let mut t : Array Jac := #[jinf, P]
  for i in [2:16] do
    t := t.push (if i % 2 = 0 then jdouble t[i / 2]! else jadd t[i - 1]! P)
  return t

def mulWin (t : Array Jac) (k : Nat) : Jac :=
  if k = 0 then jinf
  else
    let h := mulWin t (k / 16)
    jadd (jdouble (jdouble (jdouble (jdouble h)))) t[k % 16]!
termination_by k
decreasing_by omega

/-- `k·P` through Jacobian coordinates and a 4-bit window. -/
def mulFast (k : Nat) (P : Point) : Point :=
  match P with
  | inf => inf
  | aff _ _ => ofJac (mulWin (window (toJac P)) k)

end Gonuts.Spec.Secp256k1
