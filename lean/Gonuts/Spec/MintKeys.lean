import Gonuts.Spec.Bip32
import Gonuts.Spec.KeysetId
/-
  The mint's keysets (gonuts convention, following nutshell's): keyset number `idx` of a seed
  holds, for j = 0 … 59, the amount 2^j with the private key at m/0'/0'/idx'/j' (unit index 0 =
  sat), its public key, and the NUT-02 id of those 60 public keys.  CORE LEAN ONLY.
-/
namespace Gonuts.Spec.MintKeys
open Secp256k1 Bip32

def maxOrder : Nat := 60

/-- m/0'/0'/idx' -/
def keysetPath (idx : Nat) : List Nat := [hardened 0, hardened 0, hardened idx]

structure Key where
  amount : Nat
  priv : Nat
  pub : Point
  deriving Repr, Inhabited

def keysFrom (M : Nat → Point → Point) (ks : XPrv) : List Nat → Option (List Key)
  | [] => some []
  | j :: rest =>
    match ckdPriv M ks (hardened j), keysFrom M ks rest with
    | some c, some tl => some (⟨2 ^ j, c.key, M c.key G⟩ :: tl)
    | _, _ => none

def mintKeys (M : Nat → Point → Point) (seed : Bytes) (idx : Nat) : Option (List Key) :=
  match fromSeed M seed (keysetPath idx) with
  | some ks => keysFrom M ks (List.range maxOrder)
  | none => none

def keysetIdOf (keys : List Key) : Option String :=
  KeysetId.keysetIdOfPoints (keys.map (fun k => (k.amount, k.pub)))

end Gonuts.Spec.MintKeys
