import Gonuts.Spec.Bip32
import Gonuts.Spec.KeysetId
/-
  The mint's keysets (gonuts convention, following nutshell's): keyset number `idx` of a seed
  holds, for j = 0 … 59, the amount 2^j with the private key at m/0'/0'/idx'/j' (unit index 0 =
  sat), its public key, and the NUT-02 id of those 60 public keys.  CORE LEAN ONLY.
-/
namespace Gonuts.Spec.MintKeys
open Secp256k1 Bip32

def maxOrder : Nat := 60

/-- m/0'/0'/idx' -/
def keysetPath (idx : Nat) : List Nat := [hardened 0, hardened 0, hardened idx]

structure Key where
  amount : Nat
  priv : Nat
  pub : Point
  deriving Repr, Inhabited

/-- The key of amount `2^j`: private key at child `j'` of the keyset key, and its public key. -/
def keyAt (M : Nat → Point → Point) (ks : XPrv) (j : Nat) : Option Key :=
  (ckdPriv M ks (hardened j)).map (fun c => ⟨2 ^ j, c.key, M c.key G⟩)

def keysFrom (M : Nat → Point → Point) (ks : XPrv) : List Nat → Option (List Key)
  | [] => some []
  | j :: rest => (keyAt M ks j).bind (fun k => (keysFrom M ks rest).map (fun tl => k :: tl))

def mintKeys (M : Nat → Point → Point) (seed : Bytes) (idx : Nat) : Option (List Key) :=
  (fromSeed M seed (keysetPath idx)).bind (fun ks => keysFrom M ks (List.range maxOrder))

def keysetIdOf (keys : List Key) : Option String :=
  KeysetId.keysetIdOfPoints (keys.map (fun k => (k.amount, k.pub)))

end Gonuts.Spec.MintKeys
