import Gonuts.Spec.Hmac
import Gonuts.Spec.Secp256k1
/-
  BIP32 private-key derivation, written from BIP-0032 ("Master key generation",
  "Private parent key → private child key").  CORE LEAN ONLY.

  `M` is the scalar multiplication used for `point(k) = k·G` (specification: `Secp256k1.mul`).

  Invalid children.  BIP32: "In case parse256(I_L) ≥ n or k_i = 0, the resulting key is
  invalid, and one should proceed with the next value for i."  `ckdPriv` returns `none` for
  such an index (it is the primitive); `ckdPrivNext` implements the "proceed with the next
  value" rule.  The library the Go code uses, btcutil/hdkeychain v1.1.5 `ExtendedKey.Derive`,
  does NOT proceed: it returns `ErrInvalidChild` when parse256(I_L) ≥ n, leaves the retry to
  the caller (gonuts does not retry, it propagates the error) and does not test k_i = 0 at
  all.  The two behaviours differ only on inputs of probability < 2^-127, which no stream can
  reach; the driver reports `(invalid-child)` for them, corresponding to hdkeychain's error.
  `master` follows BIP32 (I_L = 0 or ≥ n is invalid); hdkeychain.NewMaster additionally
  rejects seeds shorter than 16 or longer than 64 bytes (`ErrInvalidSeedLen`), which BIP32
  only recommends ("between 128 and 512 bits") — `seedLenOk` states that side condition.
-/
namespace Gonuts.Spec.Bip32
open Secp256k1

/-- An extended private key `(k, c)`. -/
structure XPrv where
  key : Nat
  chain : Bytes
  deriving DecidableEq, Repr, Inhabited

/-- The first hardened index, `2^31`. -/
def hardenedStart : Nat := 2 ^ 31

/-- The index written `i'` (or `i_H`) in a path. -/
def hardened (i : Nat) : Nat := hardenedStart + i

def ser32 (i : Nat) : Bytes := be32 i
def ser256 (k : Nat) : Bytes := natToBE 32 k
def parse256 (b : Bytes) : Nat := beNat b

/-- hdkeychain's seed length window (BIP32: recommended 128–512 bits). -/
def seedLenOk (seed : Bytes) : Bool := 16 ≤ seed.length && seed.length ≤ 64

/-- I = HMAC-SHA512(Key = "Bitcoin seed", Data = S); master key I_L, chain code I_R. -/
def master (seed : Bytes) : Option XPrv :=
  let I := hmacSha512 (ascii "Bitcoin seed") seed
  let il := parse256 (I.take 32)
  if il = 0 ∨ n ≤ il then none else some ⟨il, I.drop 32⟩

/-- The HMAC input of CKDpriv: `0x00 ‖ ser256(k_par) ‖ ser32(i)` for a hardened child,
`serP(point(k_par)) ‖ ser32(i)` for a normal child (`none` only if `k_par·G` is the point at
infinity, i.e. `k_par ≡ 0`). -/
def ckdData (M : Nat → Point → Point) (par : XPrv) (i : Nat) : Option Bytes :=
  if hardenedStart ≤ i then some (0x00 :: (ser256 par.key ++ ser32 i))
  else (serCompressed (M par.key G)).map (· ++ ser32 i)

/-- The second half of CKDpriv: from `I = HMAC-SHA512(Key = c_par, Data = data)`, split into `I_L ‖ I_R`,
`k_i = parse256(I_L) + k_par (mod n)`, `c_i = I_R`;  `none` = "the resulting key is invalid". -/
def ckdFromData (par : XPrv) (data : Bytes) : Option XPrv :=
  let I := hmacSha512 par.chain data
  let il := parse256 (I.take 32)
  let k := (il + par.key) % n
  if n ≤ il ∨ k = 0 then none else some ⟨k, I.drop 32⟩

/-- CKDpriv((k_par, c_par), i) → (k_i, c_i). -/
def ckdPriv (M : Nat → Point → Point) (par : XPrv) (i : Nat) : Option XPrv :=
  (ckdData M par i).bind (ckdFromData par)

/-- BIP32's "proceed with the next value for i" (within `tries` attempts). -/
def ckdPrivNext (M : Nat → Point → Point) (par : XPrv) : Nat → Nat → Option (Nat × XPrv)
  | 0, _ => none
  | tries + 1, i =>
    match ckdPriv M par i with
    | some c => some (i, c)
    | none => ckdPrivNext M par tries (i + 1)

/-- Derive along a path of (already hardened-or-not) indices. -/
def derivePath (M : Nat → Point → Point) : XPrv → List Nat → Option XPrv
  | k, [] => some k
  | k, i :: rest => (ckdPriv M k i).bind (fun c => derivePath M c rest)

/-- `m/path` from a seed. -/
def fromSeed (M : Nat → Point → Point) (seed : Bytes) (path : List Nat) : Option XPrv :=
  (master seed).bind (fun m => derivePath M m path)

end Gonuts.Spec.Bip32
