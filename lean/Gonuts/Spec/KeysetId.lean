import Gonuts.Spec.Sha256
import Gonuts.Spec.Secp256k1
/-
  NUT-02 keyset id, version 00:
    1 - sort public keys by their amount in ascending order
    2 - concatenate all public keys to one byte array        (33-byte compressed form)
    3 - HASH_SHA256 the concatenated public keys
    4 - take the first 14 characters of the hex-encoded hash
    5 - prefix it with a keyset ID version byte              ("00")
  CORE LEAN ONLY.
-/
namespace Gonuts.Spec.KeysetId
open Secp256k1

/-- A keyset as the wire carries it: (amount, compressed public key). -/
abbrev Keys := List (Nat × Bytes)

def amountLe (a b : Nat × Bytes) : Bool := decide (a.1 ≤ b.1)

def sortByAmount (ks : Keys) : Keys := ks.mergeSort amountLe

def concatKeys (ks : Keys) : Bytes := (sortByAmount ks).flatMap (·.2)

/-- The id as characters: `'0' '0'` then 14 hex digits. -/
def keysetIdChars (ks : Keys) : List Char :=
  '0' :: '0' :: (hexChars (sha256 (concatKeys ks))).take 14

def keysetId (ks : Keys) : String := String.ofList (keysetIdChars ks)

/-- The wire form of one (amount, point) pair (`none` for the point at infinity). -/
def keyOfPoint (aP : Nat × Point) : Option (Nat × Bytes) := (serCompressed aP.2).map (fun b => (aP.1, b))

/-- From points: serialise each in compressed form (`none` if a key is the point at infinity). -/
def keysOfPoints : List (Nat × Point) → Option Keys
  | [] => some []
  | x :: rest => (keyOfPoint x).bind (fun k => (keysOfPoints rest).map (fun tl => k :: tl))

def keysetIdOfPoints (ks : List (Nat × Point)) : Option String := (keysOfPoints ks).map keysetId

end Gonuts.Spec.KeysetId
