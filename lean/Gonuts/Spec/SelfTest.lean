import Gonuts.Spec.Pbkdf2
import Gonuts.Spec.Bdhke
import Gonuts.Spec.Nut13
import Gonuts.Spec.MintKeys
/-
  Start-up self-test of the reference implementation (`spec.selftest`): the published
  FIPS 180-4 / RFC 4231 / BIP32 / NUT-00 / NUT-02 / NUT-12 / NUT-13 vectors, and the
  cross-check of the fast scalar multiplication against the affine definition.
  These are TESTS, not proofs.  CORE LEAN ONLY.
-/
namespace Gonuts.Spec.SelfTest
open Secp256k1

def unhexD (s : String) : Bytes := (unhex? s).getD []

def hexEq (b : Bytes) (s : String) : Bool := hex b == s

def optHexEq (b : Option Bytes) (s : String) : Bool :=
  match b with
  | some x => hex x == s
  | none => false

def parseHex (s : String) : Option Point := parse (unhexD s)

def compHex (P : Point) : String := ((serCompressed P).map hex).getD "inf"

/-! Published NUT-02 vectors (listed in descending amount order on purpose). -/
def keysetVector1 : List (Nat × String) := [
  (8, "02fdfd6796bfeac490cbee12f778f867f0a2c68f6508d17c649759ea0dc3547528"),
  (4, "02648eccfa4c026960966276fa5a4cae46ce0fd432211a4f449bf84f13aa5f8303"),
  (2, "03fd4ce5a16b65576145949e6f99f445f8249fee17c606b688b504a849cdc452de"),
  (1, "03a40f20667ed53513075dc51e715ff2046cad64eb68960632269ba7f0210e38bc")]

def keysetVector1Id : String := "00456a94ab4e1c46"

def keysetVector2 : List (Nat × String) := [
  (9223372036854775808, "0377a6fe114e291a8d8e991627c38001c8305b23b9e98b1c7b1893f5cd0dda6cad"),
  (4611686018427387904, "024a4b806cf413d14b294719090a9da36ba75209c7657135ad09bc65328fba9e6f"),
  (2305843009213693952, "033cdc225962c052d485f7cfbf55a5b2367d200fe1fe4373a347deb4cc99e9a099"),
  (1152921504606846976, "035a6679c6b25e68ff4e29d1c7ef87f21e0a8fc574f6a08c1aa45ff352c1d59f06"),
  (576460752303423488, "02c7ec2bd9508a7fc03f73c7565dc600b30fd86f3d305f8f139c45c404a52d958a"),
  (288230376151711744, "03efe75c106f931a525dc2d653ebedddc413a2c7d8cb9da410893ae7d2fa7d19cc"),
  (144115188075855872, "02e0dbb24f1d288a693e8a49bc14264d1276be16972131520cf9e055ae92fba19a"),
  (72057594037927936, "02b2bc1968a6fddbcc78fb9903940524824b5f5bed329c6ad48a19b56068c144fd"),
  (36028797018963968, "0385b4fe35e41703d7a657d957c67bb536629de57b7e6ee6fe2130728ef0fc90b0"),
  (18014398509481984, "02f4e667567ebb9f4e6e180a4113bb071c48855f657766bb5e9c776a880335d1d6"),
  (9007199254740992, "0356969d6aef2bb40121dbd07c68b6102339f4ea8e674a9008bb69506795998f49"),
  (4503599627370496, "02d2d162db63675bd04f7d56df04508840f41e2ad87312a3c93041b494efe80a73"),
  (2251799813685248, "02ec13e0058b196db80f7079d329333b330dc30c000dbdd7397cbbc5a37a664c4f"),
  (1125899906842624, "038eeda11f78ce05c774f30e393cda075192b890d68590813ff46362548528dca9"),
  (562949953421312, "02adde4b466a9d7e59386b6a701a39717c53f30c4810613c1b55e6b6da43b7bc9a"),
  (281474976710656, "02fb58522cd662f2f8b042f8161caae6e45de98283f74d4e99f19b0ea85e08a56d"),
  (140737488355328, "0327244c9019a4892e1f04ba3bf95fe43b327479e2d57c25979446cc508cd379ed"),
  (70368744177664, "03bee8f64d88de3dee21d61f89efa32933da51152ddbd67466bef815e9f93f8fd1"),
  (35184372088832, "03e325b691f292e1dfb151c3fb7cad440b225795583c32e24e10635a80e4221c06"),
  (17592186044416, "030d3f2ad7a4ca115712ff7f140434f802b19a4c9b2dd1c76f3e8e80c05c6a9310"),
  (8796093022208, "02d1fb9e78262b5d7d74028073075b80bb5ab281edcfc3191061962c1346340f1e"),
  (4398046511104, "03397b522bb4e156ec3952d3f048e5a986c20a00718e5e52cd5718466bf494156a"),
  (2199023255552, "02d6b25bd4ab599dd0818c55f75702fde603c93f259222001246569018842d3258"),
  (1099511627776, "03e446fdb84fad492ff3a25fc1046fb9a93a5b262ebcd0151caa442ea28959a38a"),
  (549755813888, "029cc8af2840d59f1d8761779b2496623c82c64be8e15f9ab577c657c6dd453785"),
  (274877906944, "02b8f53dde126f8c85fa5bb6061c0be5aca90984ce9b902966941caf963648d53a"),
  (137438953472, "021df6585cae9b9ca431318a713fd73dbb76b3ef5667957e8633bca8aaa7214fb6"),
  (68719476736, "037a0c0d564540fc574b8bfa0253cca987b75466e44b295ed59f6f8bd41aace754"),
  (34359738368, "02b2cee01b7d8e90180254459b8f09bbea9aad34c3a2fd98c85517ecfc9805af75"),
  (17179869184, "026cc4dacdced45e63f6e4f62edbc5779ccd802e7fabb82d5123db879b636176e9"),
  (8589934592, "02b4ebb0dda3b9ad83b39e2e31024b777cc0ac205a96b9a6cfab3edea2912ed1b3"),
  (4294967296, "037c09ecb66da082981e4cbdb1ac65c0eb631fc75d85bed13efb2c6364148879b5"),
  (2147483648, "034d592f4c366afddc919a509600af81b489a03caf4f7517c2b3f4f2b558f9a41a"),
  (1073741824, "02c9b076d08f9020ebee49ac8ba2610b404d4e553a4f800150ceb539e9421aaeee"),
  (536870912, "03015bd88961e2a466a2163bd4248d1d2b42c7c58a157e594785e7eb34d880efc9"),
  (268435456, "0234076b6e70f7fbf755d2227ecc8d8169d662518ee3a1401f729e2a12ccb2b276"),
  (134217728, "02573b68784ceba9617bbcc7c9487836d296aa7c628c3199173a841e7a19798020"),
  (67108864, "03268bfb05be1dbb33ab6e7e00e438373ca2c9b9abc018fdb452d0e1a0935e10d3"),
  (33554432, "03280576b81a04e6abd7197f305506476f5751356b7643988495ca5c3e14e5c262"),
  (16777216, "037eec3d1651a30a90182d9287a5c51386fe35d4a96839cf7969c6e2a03db1fc21"),
  (8388608, "025bbe0cfce8a1f4fbd7f3a0d4a09cb6badd73ef61829dc827aa8a98c270bc25b0"),
  (4194304, "02c8b73f4e3a470ae05e5f2fe39984d41e9f6ae7be9f3b09c9ac31292e403ac512"),
  (2097152, "033cdb9d36e1e82ae652b7b6a08e0204569ec7ff9ebf85d80a02786dc7fe00b04c"),
  (1048576, "0203eaee4db749b0fc7c49870d082024b2c31d889f9bc3b32473d4f1dfa3625788"),
  (524288, "038ac10de9f1ff9395903bb73077e94dbf91e9ef98fd77d9a2debc5f74c575bc86"),
  (262144, "02f2a3e808f9cd168ec71b7f328258d0c1dda250659c1aced14c7f5cf05aab4328"),
  (131072, "031063e9f11c94dc778c473e968966eac0e70b7145213fbaff5f7a007e71c65f41"),
  (65536, "02408426cfb6fc86341bac79624ba8708a4376b2d92debdf4134813f866eb57a8d"),
  (32768, "0365438f613f19696264300b069d1dad93f0c60a37536b72a8ab7c7366a5ee6c04"),
  (16384, "036e41de58fdff3cb1d8d713f48c63bc61fa3b3e1631495a444d178363c0d2ed50"),
  (8192, "0320265583e916d3a305f0d2687fcf2cd4e3cd03a16ea8261fda309c3ec5721e21"),
  (4096, "02fc6b89b403ee9eb8a7ed457cd3973638080d6e04ca8af7307c965c166b555ea2"),
  (2048, "0276cedb9a3b160db6a158ad4e468d2437f021293204b3cd4bf6247970d8aff54b"),
  (1024, "031fbd4ba801870871d46cf62228a1b748905ebc07d3b210daf48de229e683f2dc"),
  (512, "03d4db82ea19a44d35274de51f78af0a710925fe7d9e03620b84e3e9976e3ac2eb"),
  (256, "03b99f475b68e5b4c0ba809cdecaae64eade2d9787aa123206f91cd61f76c01459"),
  (128, "0284f2c06d938a6f78794814c687560a0aabab19fe5e6f30ede38e113b132a3cb9"),
  (64, "03ce86f0c197aab181ddba0cfc5c5576e11dfd5164d9f3d4a3fc3ffbbf2e069664"),
  (32, "03a97a40e146adee2687ac60c2ba2586a90f970de92a9d0e6cae5a4b9965f54612"),
  (16, "028a36f0e6638ea7466665fe174d958212723019ec08f9ce6898d897f88e68aa5d"),
  (8, "03909d73beaf28edfb283dbeb8da321afd40651e8902fcf5454ecc7d69788626c0"),
  (4, "036e378bcf78738ddf68859293c69778035740e41138ab183c94f8fee7572214c7"),
  (2, "03361cd8bd1329fea797a6add1cf1990ffcf2270ceb9fc81eeee0e8e9c1bd0cdf5"),
  (1, "03ba786a2c0745f8c30e490288acd7a72dd53d65afd292ddefa326a4a3fa14c566")]

def keysetVector2Id : String := "000f01df73ea149a"

def keysetIdOfHex (v : List (Nat × String)) : String :=
  KeysetId.keysetId (v.map (fun (a, k) => (a, unhexD k)))

/-- Deterministic pseudo-random 256-bit scalars for the cross-check. -/
def prScalar (i : Nat) : Nat := beNat (sha256 (ascii "gonuts-verif cross-check" ++ be32 i))

/-- Deterministic points for the cross-check: `hash_to_curve` of a counter, or G. -/
def prPoint (i : Nat) : Point := (HashToCurve.hashToCurve (be32 i)).getD G

def crossCheck (k : Nat) (P : Point) : Bool := decide (mul k P = mulFast k P)

def nut13Seed : Bytes :=
  unhexD "dd44ee516b0647e80b488e8dcc56d736a148f15276bef588b37057476d4b2b25780d3688a32b37353d6995997842c0fd8b412475c891c16310471fbc86dcbda8"

def nut13Id : Bytes := unhexD "009a1f293253e41e"

def nut13Secrets : List String := [
  "485875df74771877439ac06339e284c3acfcd9be7abf3bc20b516faeadfe77ae",
  "8f2b39e8e594a4056eb1e6dbb4b0c38ef13b1b2c751f64f810ec04ee35b77270",
  "bc628c79accd2364fd31511216a0fab62afd4a18ff77a20deded7b858c9860c8",
  "59284fd1650ea9fa17db2b3acf59ecd0f2d52ec3261dd4152785813ff27a33bf",
  "576c23393a8b31cc8da6688d9c9a96394ec74b40fdaf1f693a6bb84284334ea0"]

def nut13Rs : List String := [
  "ad00d431add9c673e843d4c2bf9a778a5f402b985b8da2d5550bf39cda41d679",
  "967d5232515e10b81ff226ecf5a9e2e2aff92d66ebc3edf0987eb56357fd6248",
  "b20f47bb6ae083659f3aa986bfa0435c55c6d93f687d51a01f26862d9b9a4899",
  "fb5fca398eb0b1deb955a2988b5ac77d32956155f1c002a373535211a2dfdc29",
  "5f09bfbfe27c439a597719321e061e2e40aad4a36768bb2bcc3de547c9644bf9"]

def bip32Seed : Bytes := unhexD "000102030405060708090a0b0c0d0e0f"

def xprvEq (k : Option Bip32.XPrv) (key chain : String) : Bool :=
  match k with
  | some x => hex (Bip32.ser256 x.key) == key && hex x.chain == chain
  | none => false

def one : String := "0000000000000000000000000000000000000000000000000000000000000001"

/-- The checks, in order; each is evaluated only when reached. -/
def checks (M : Nat → Point → Point) : List (String × (Unit → Bool)) := [
  -- FIPS 180-4 / NIST example vectors
  ("sha256-empty", fun (_ : Unit) => hexEq (sha256 []) "e3b0c44298fc1c149afbf4c8996fb92427ae41e4649b934ca495991b7852b855"),
  ("sha256-abc", fun (_ : Unit) => hexEq (sha256 (ascii "abc")) "ba7816bf8f01cfea414140de5dae2223b00361a396177a9cb410ff61f20015ad"),
  ("sha256-448bit", fun (_ : Unit) => hexEq (sha256 (ascii "abcdbcdecdefdefgefghfghighijhijkijkljklmklmnlmnomnopnopq"))
      "248d6a61d20638b8e5c026930c3e6039a33ce45964ff2167f6ecedd419db06c1"),
  ("sha512-empty", fun (_ : Unit) => hexEq (sha512 [])
      "cf83e1357eefb8bdf1542850d66d8007d620e4050b5715dc83f4a921d36ce9ce47d0d13c5d85f2b0ff8318d2877eec2f63b931bd47417a81a538327af927da3e"),
  ("sha512-abc", fun (_ : Unit) => hexEq (sha512 (ascii "abc"))
      "ddaf35a193617abacc417349ae20413112e6fa4e89a97ea20a9eeee64b55d39a2192992a274fc1a836ba3c23a3feebbd454d4423643ce80e2a9ac94fa54ca49f"),
  ("sha512-896bit", fun (_ : Unit) => hexEq (sha512 (ascii
      "abcdefghbcdefghicdefghijdefghijkefghijklfghijklmghijklmnhijklmnoijklmnopjklmnopqklmnopqrlmnopqrsmnopqrstnopqrstu"))
      "8e959b75dae313da8cf4f72814fc143f8f7779c6eb9f7fa17299aeadb6889018501d289e4900f7e4331b99dec4b5433ac7d329eeb6dd26545e96e55b874be909"),
  -- RFC 4231 test cases 1, 2, 6 (HMAC-SHA-512 and HMAC-SHA-256)
  ("hmac512-rfc4231-1", fun (_ : Unit) => hexEq (hmacSha512 (List.replicate 20 0x0b) (ascii "Hi There"))
      "87aa7cdea5ef619d4ff0b4241a1d6cb02379f4e2ce4ec2787ad0b30545e17cdedaa833b7d6b8a702038b274eaea3f4e4be9d914eeb61f1702e696c203a126854"),
  ("hmac512-rfc4231-2", fun (_ : Unit) => hexEq (hmacSha512 (ascii "Jefe") (ascii "what do ya want for nothing?"))
      "164b7a7bfcf819e2e395fbe73b56e0a387bd64222e831fd610270cd7ea2505549758bf75c05a994a6d034f65f8f0e6fdcaeab1a34d4a6b4b636e070a38bce737"),
  ("hmac512-rfc4231-6", fun (_ : Unit) => hexEq (hmacSha512 (List.replicate 131 0xaa)
      (ascii "Test Using Larger Than Block-Size Key - Hash Key First"))
      "80b24263c7c1a3ebb71493c1dd7be8b49b46d1f41b4aeec1121b013783f8f3526b56d037e05f2598bd0fd2215d6a1e5295e64f73f63f0aec8b915a985d786598"),
  ("hmac256-rfc4231-1", fun (_ : Unit) => hexEq (hmacSha256 (List.replicate 20 0x0b) (ascii "Hi There"))
      "b0344c61d8db38535ca8afceaf0bf12b881dc200c9833da726e9376c2e32cff7"),
  ("hmac256-rfc4231-2", fun (_ : Unit) => hexEq (hmacSha256 (ascii "Jefe") (ascii "what do ya want for nothing?"))
      "5bdcc146bf60754e6a042426089575c75a003f089d2739839dec58b964ec3843"),
  -- SEC 2 parameters and the group law
  ("secp-G-on-curve", fun (_ : Unit) => decide (OnCurve G)),
  ("secp-2G", fun (_ : Unit) => compHex (mul 2 G) == "02c6047f9441ed7d6d3045406e95c07cd85c778e4b8cef3ca7abac09b95c709ee5"),
  ("secp-3G", fun (_ : Unit) => compHex (mul 3 G) == "02f9308a019258c31049344f85f89d5229b531c845836f99b08601f113bce036f9"),
  ("secp-nG-affine", fun (_ : Unit) => decide (mul n G = Point.inf)),
  ("secp-nG-fast", fun (_ : Unit) => decide (mulFast n G = Point.inf)),
  ("secp-(n-1)G", fun (_ : Unit) => decide (mul (n - 1) G = neg G) && decide (mulFast (n - 1) G = neg G)),
  ("secp-add-neg", fun (_ : Unit) => decide (add (mul 5 G) (neg (mul 5 G)) = Point.inf)),
  ("secp-add-double", fun (_ : Unit) => decide (add (mul 5 G) (mul 5 G) = mul 10 G)),
  ("secp-add-assoc", fun (_ : Unit) => decide (add (add (mul 3 G) (mul 4 G)) (prPoint 0) = add (mul 3 G) (add (mul 4 G) (prPoint 0)))),
  ("secp-parse-02", fun (_ : Unit) => parseHex "02f9308a019258c31049344f85f89d5229b531c845836f99b08601f113bce036f9" == some (mul 3 G)),
  ("secp-parse-03", fun (_ : Unit) => parseHex "03f9308a019258c31049344f85f89d5229b531c845836f99b08601f113bce036f9" == some (neg (mul 3 G))),
  ("secp-parse-04", fun (_ : Unit) => (serUncompressed (mul 7 G)).bind parse == some (mul 7 G)),
  ("secp-parse-off-curve", fun (_ : Unit) =>
      -- x = 5 has no point (x³+7 = 132 is a non-residue); 65-byte form with a wrong y; wrong lengths and prefixes
      parseHex "020000000000000000000000000000000000000000000000000000000000000005" == none
      && parse (0x04 :: (natToBE 32 Gx ++ natToBE 32 (Gy + 1))) == none
      && parseHex "02f9308a019258c31049344f85f89d5229b531c845836f99b08601f113bce036" == none
      && parseHex "05f9308a019258c31049344f85f89d5229b531c845836f99b08601f113bce036f9" == none
      && parse (0x02 :: natToBE 32 p) == none),
  -- fast path against the affine definition: edge scalars and pseudo-random scalars × points
  ("fast-vs-affine-edge", fun (_ : Unit) =>
      [0, 1, 2, 3, 15, 16, 17, n - 1, n, n + 1, 2 ^ 255, 2 ^ 256 - 1].all (fun k => crossCheck k G)),
  ("fast-vs-affine-inf", fun (_ : Unit) => crossCheck 5 Point.inf),
  ("fast-vs-affine-random", fun (_ : Unit) => (List.range 6).all (fun i => crossCheck (prScalar i) (prPoint i))),
  ("M-vs-affine", fun (_ : Unit) => decide (M (prScalar 9) (prPoint 9) = mul (prScalar 9) (prPoint 9))),
  -- NUT-00 hash_to_curve
  ("h2c-nut00-1", fun (_ : Unit) => ((HashToCurve.hashToCurve (unhexD "0000000000000000000000000000000000000000000000000000000000000000")).map compHex)
      == some "024cce997d3b518f739663b757deaec95bcd9473c30a14ac2fd04023a739d1a725"),
  ("h2c-nut00-2", fun (_ : Unit) => ((HashToCurve.hashToCurve (unhexD one)).map compHex)
      == some "022e7158e11c9506f1aa4248bf531298daa7febd6194f003edcd9b93ade6253acf"),
  ("h2c-nut00-3", fun (_ : Unit) => ((HashToCurve.hashToCurve (unhexD "0000000000000000000000000000000000000000000000000000000000000002")).map compHex)
      == some "026cdbe15362df59cd1dd3c9c11de8aedac2106eca69236ecd9fbe117af897be4f"),
  -- NUT-00 blinding / signing, gonuts' unblinding vectors
  ("blind-nut00-1", fun (_ : Unit) => ((Bdhke.blind M (unhexD "d341ee4871f1f889041e63cf0d3823c713eea6aff01e80f1719f08f9e5be98f6")
      (beNat (unhexD "99fce58439fc37412ab3468b73db0569322588f62fb3a49182d67e23d877824a"))).map compHex)
      == some "033b1a9737a40cc3fd9b6af4b723632b76a67a36782596304612a6c2bfb5197e6d"),
  ("blind-test_message", fun (_ : Unit) => ((Bdhke.blind M (ascii "test_message") 1).map compHex)
      == some "025cc16fe33b953e2ace39653efb3e7a7049711ae1d8a2f7a9108753f1cdea742b"),
  ("sign-nut00-1", fun (_ : Unit) => ((parseHex "02a9acc1e48c25eeeb9289b5031cc57da9fe72f3fe2861d264bdc074209b107ba2").map
      (fun B => compHex (Bdhke.sign M B 1))) == some "02a9acc1e48c25eeeb9289b5031cc57da9fe72f3fe2861d264bdc074209b107ba2"),
  ("sign-nut00-2", fun (_ : Unit) => ((parseHex "02a9acc1e48c25eeeb9289b5031cc57da9fe72f3fe2861d264bdc074209b107ba2").map
      (fun B => compHex (Bdhke.sign M B (beNat (List.replicate 32 0x7f)))))
      == some "0398bc70ce8184d27ba89834d19f5199c84443c31131e48d3c1214db24247d005d"),
  ("unblind-1", fun (_ : Unit) =>
      match parseHex "02a9acc1e48c25eeeb9289b5031cc57da9fe72f3fe2861d264bdc074209b107ba2",
            parseHex "020000000000000000000000000000000000000000000000000000000000000001" with
      | some C_, some K => compHex (Bdhke.unblind M C_ 1 K) == "03c724d7e6a5443b39ac8acf11f40420adc4f99a02e7cc1b57703d9391f6d129cd"
      | _, _ => false),
  ("unblind-2", fun (_ : Unit) =>
      match parseHex "025cc16fe33b953e2ace39653efb3e7a7049711ae1d8a2f7a9108753f1cdea742b",
            parseHex "020000000000000000000000000000000000000000000000000000000000000001" with
      | some C_, some K => compHex (Bdhke.unblind M C_ 1 K) == "0271bf0d702dbad86cbe0af3ab2bfba70a0338f22728e412d88a830ed0580b9de4"
      | _, _ => false),
  ("bdhke-roundtrip", fun (_ : Unit) =>
      let k := prScalar 20 % n
      let r := prScalar 21 % n
      match Bdhke.blind M (ascii "test_message") r with
      | some B_ => Bdhke.verify M (ascii "test_message") k (Bdhke.unblind M (Bdhke.sign M B_ k) r (M k G))
      | none => false),
  -- NUT-12 hash_e
  ("hash_e-nut12", fun (_ : Unit) =>
      match parseHex "020000000000000000000000000000000000000000000000000000000000000001",
            parseHex "02a9acc1e48c25eeeb9289b5031cc57da9fe72f3fe2861d264bdc074209b107ba2" with
      | some R, some C_ => optHexEq (Bdhke.hashE [R, R, R, C_]) "a4dc034b74338c28c6bc3ea49731f2a24440fc7c4affc08b31a93fc9fbe6401e"
      | _, _ => false),
  -- NUT-02 keyset ids
  ("keysetid-nut02-1", fun (_ : Unit) => keysetIdOfHex keysetVector1 == keysetVector1Id),
  ("keysetid-nut02-2", fun (_ : Unit) => keysetIdOfHex keysetVector2 == keysetVector2Id),
  ("keysetid-order-independent", fun (_ : Unit) => keysetIdOfHex keysetVector2.reverse == keysetVector2Id),
  -- BIP32 test vector 1: m, m/0', m/0'/1
  ("bip32-tv1-m", fun (_ : Unit) => xprvEq (Bip32.master bip32Seed)
      "e8f32e723decf4051aefac8e2c93c9c5b214313817cdb01a1494b917c8436b35" "873dff81c02f525623fd1fe5167eac3a55a049de3d314bb42ee227ffed37d508"),
  ("bip32-tv1-m/0'", fun (_ : Unit) => xprvEq (Bip32.fromSeed M bip32Seed [Bip32.hardened 0])
      "edb2e14f9ee77d26dd93b4ecede8d16ed408ce149b6cd80b0715a2d911a0afea" "47fdacbd0f1097043b78c63c20c34ef4ed9a111d980047ad16282c7ae6236141"),
  ("bip32-tv1-m/0'/1", fun (_ : Unit) => xprvEq (Bip32.fromSeed M bip32Seed [Bip32.hardened 0, 1])
      "3c6cb8d0f6a264c91ea8b5030fadaa8e538b020f0a387421a12de9319dc93368" "2a7857631386ba23dacac34180dd1983734e444fdbf774041578e9b6adb37c19"),
  ("bip32-tv1-affine", fun (_ : Unit) => xprvEq (Bip32.fromSeed mul bip32Seed [Bip32.hardened 0, 1])
      "3c6cb8d0f6a264c91ea8b5030fadaa8e538b020f0a387421a12de9319dc93368" "2a7857631386ba23dacac34180dd1983734e444fdbf774041578e9b6adb37c19"),
  -- BIP39 seed of the NUT-13 mnemonic, then the NUT-13 vector
  ("bip39-seed", fun (_ : Unit) => bip39Seed "half depart obvious quality work element tank gorilla view sugar picture humble" "" == nut13Seed),
  ("nut13-keyset-int", fun (_ : Unit) => Nut13.keysetIdInt nut13Id == 864559728),
  ("nut13-secrets", fun (_ : Unit) => (List.range 5).map (fun c => Nut13.deriveSecret M nut13Seed nut13Id c) == nut13Secrets.map some),
  ("nut13-rs", fun (_ : Unit) => (List.range 5).map (fun c => (Nut13.deriveBlindingFactor M nut13Seed nut13Id c).map (fun r => hex (Bip32.ser256 r)))
      == nut13Rs.map some)
]

/-- `none` when every check passes, else the name of the first failing one. -/
def firstFailure (M : Nat → Point → Point) : Option String :=
  ((checks M).find? (fun c => !c.2 ())).map (·.1)

def count (M : Nat → Point → Point) : Nat := (checks M).length

end Gonuts.Spec.SelfTest
