import Gonuts.Spec.Bytes
/-
  SHA-512 written from FIPS 180-4 (§4.1.3 functions, §4.2.3 constants, §5.1.2 padding,
  §5.3.5 initial hash value, §6.4 computation).  CORE LEAN ONLY.
-/
namespace Gonuts.Spec.Sha512

/-- §4.2.3 -/
def K : Array UInt64 := #[
    0x428a2f98d728ae22, 0x7137449123ef65cd, 0xb5c0fbcfec4d3b2f, 0xe9b5dba58189dbbc,
    0x3956c25bf348b538, 0x59f111f1b605d019, 0x923f82a4af194f9b, 0xab1c5ed5da6d8118,
    0xd807aa98a3030242, 0x12835b0145706fbe, 0x243185be4ee4b28c, 0x550c7dc3d5ffb4e2,
    0x72be5d74f27b896f, 0x80deb1fe3b1696b1, 0x9bdc06a725c71235, 0xc19bf174cf692694,
    0xe49b69c19ef14ad2, 0xefbe4786384f25e3, 0x0fc19dc68b8cd5b5, 0x240ca1cc77ac9c65,
    0x2de92c6f592b0275, 0x4a7484aa6ea6e483, 0x5cb0a9dcbd41fbd4, 0x76f988da831153b5,
    0x983e5152ee66dfab, 0xa831c66d2db43210, 0xb00327c898fb213f, 0xbf597fc7beef0ee4,
    0xc6e00bf33da88fc2, 0xd5a79147930aa725, 0x06ca6351e003826f, 0x142929670a0e6e70,
    0x27b70a8546d22ffc, 0x2e1b21385c26c926, 0x4d2c6dfc5ac42aed, 0x53380d139d95b3df,
    0x650a73548baf63de, 0x766a0abb3c77b2a8, 0x81c2c92e47edaee6, 0x92722c851482353b,
    0xa2bfe8a14cf10364, 0xa81a664bbc423001, 0xc24b8b70d0f89791, 0xc76c51a30654be30,
    0xd192e819d6ef5218, 0xd69906245565a910, 0xf40e35855771202a, 0x106aa07032bbd1b8,
    0x19a4c116b8d2d0c8, 0x1e376c085141ab53, 0x2748774cdf8eeb99, 0x34b0bcb5e19b48a8,
    0x391c0cb3c5c95a63, 0x4ed8aa4ae3418acb, 0x5b9cca4f7763e373, 0x682e6ff3d6b2b8a3,
    0x748f82ee5defb2fc, 0x78a5636f43172f60, 0x84c87814a1f0ab72, 0x8cc702081a6439ec,
    0x90befffa23631e28, 0xa4506cebde82bde9, 0xbef9a3f7b2c67915, 0xc67178f2e372532b,
    0xca273eceea26619c, 0xd186b8c721c0c207, 0xeada7dd6cde0eb1e, 0xf57d4f7fee6ed178,
    0x06f067aa72176fba, 0x0a637dc5a2c898a6, 0x113f9804bef90dae, 0x1b710b35131c471b,
    0x28db77f523047d84, 0x32caab7b40c72493, 0x3c9ebe0a15c9bebc, 0x431d67c49c100d4c,
    0x4cc5d4becb3e42b6, 0x597f299cfc657e2a, 0x5fcb6fab3ad6faec, 0x6c44198c4a475817]

structure State where
  a : UInt64
  b : UInt64
  c : UInt64
  d : UInt64
  e : UInt64
  f : UInt64
  g : UInt64
  h : UInt64

/-- §5.3.5 -/
def init : State :=
  ⟨0x6a09e667f3bcc908, 0xbb67ae8584caa73b, 0x3c6ef372fe94f82b, 0xa54ff53a5f1d36f1,
   0x510e527fade682d1, 0x9b05688c2b3e6c1f, 0x1f83d9abfb41bd6b, 0x5be0cd19137e2179⟩

@[inline] def rotr (x : UInt64) (n : UInt64) : UInt64 := (x >>> n) ||| (x <<< (64 - n))
@[inline] def ch (x y z : UInt64) : UInt64 := (x &&& y) ^^^ (~~~x &&& z)
@[inline] def maj (x y z : UInt64) : UInt64 := (x &&& y) ^^^ (x &&& z) ^^^ (y &&& z)
@[inline] def bsig0 (x : UInt64) : UInt64 := rotr x 28 ^^^ rotr x 34 ^^^ rotr x 39
@[inline] def bsig1 (x : UInt64) : UInt64 := rotr x 14 ^^^ rotr x 18 ^^^ rotr x 41
@[inline] def ssig0 (x : UInt64) : UInt64 := rotr x 1 ^^^ rotr x 8 ^^^ (x >>> 7)
@[inline] def ssig1 (x : UInt64) : UInt64 := rotr x 19 ^^^ rotr x 61 ^^^ (x >>> 6)

/-- §5.1.2: bit 1, `k` zero bits, 128-bit big-endian bit length; total a multiple of 1024 bits. -/
def pad (msg : Bytes) : Bytes :=
  msg ++ [0x80] ++ List.replicate ((239 - msg.length % 128) % 128) 0 ++ natToBE 16 (msg.length * 8)

def schedule (m : ByteArray) (off : Nat) : Array UInt64 := Id.run do
  let mut w : Array UInt64 := Array.mkEmpty 80
  for t in [0:16] do
    let j := off + 8 * t
    w := w.push (((m.get! j).toUInt64 <<< 56) ||| ((m.get! (j + 1)).toUInt64 <<< 48)
      ||| ((m.get! (j + 2)).toUInt64 <<< 40) ||| ((m.get! (j + 3)).toUInt64 <<< 32)
      ||| ((m.get! (j + 4)).toUInt64 <<< 24) ||| ((m.get! (j + 5)).toUInt64 <<< 16)
      ||| ((m.get! (j + 6)).toUInt64 <<< 8) ||| (m.get! (j + 7)).toUInt64)
  for t in [16:80] do
    w := w.push (ssig1 w[t - 2]! + w[t - 7]! + ssig0 w[t - 15]! + w[t - 16]!)
  return w

def compress (s : State) (w : Array UInt64) : State := Id.run do
  let mut a := s.a
  let mut b := s.b
  let mut c := s.c
  let mut d := s.d
  let mut e := s.e
  let mut f := s.f
  let mut g := s.g
  let mut h := s.h
  for t in [0:80] do
    let t1 := h + bsig1 e + ch e f g + K[t]! + w[t]!
    let t2 := bsig0 a + maj a b c
    h := g
    g := f
    f := e
    e := d + t1
    d := c
    c := b
    b := a
    a := t1 + t2
  return ⟨s.a + a, s.b + b, s.c + c, s.d + d, s.e + e, s.f + f, s.g + g, s.h + h⟩

def wordBytes (x : UInt64) : Bytes :=
  [(x >>> 56).toUInt8, (x >>> 48).toUInt8, (x >>> 40).toUInt8, (x >>> 32).toUInt8,
   (x >>> 24).toUInt8, (x >>> 16).toUInt8, (x >>> 8).toUInt8, x.toUInt8]

def digest (s : State) : Bytes :=
  wordBytes s.a ++ wordBytes s.b ++ wordBytes s.c ++ wordBytes s.d ++
  wordBytes s.e ++ wordBytes s.f ++ wordBytes s.g ++ wordBytes s.h

def blocks (m : ByteArray) : State := Id.run do
  let mut s := init
  for i in [0:m.size / 128] do
    s := compress s (schedule m (128 * i))
  return s

end Sha512

/-- SHA-512 of a byte string (64 bytes). -/
def sha512 (msg : Bytes) : Bytes :=
  Sha512.digest (Sha512.blocks (Sha512.pad msg).toByteArray)

end Gonuts.Spec
