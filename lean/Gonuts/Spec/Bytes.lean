/-
  Byte strings, hexadecimal text and fixed-width integer encodings used by the
  executable reference implementations in `Gonuts/Spec`.  CORE LEAN ONLY (linked
  into the native driver).

  A byte string is a `List UInt8`: slow compared with `ByteArray` but every
  statement about lengths, concatenation and permutation is a statement about
  lists.  The hash functions convert to `ByteArray` internally.
-/
namespace Gonuts.Spec

abbrev Bytes := List UInt8

/-- Lowercase hexadecimal digit of a value `< 16`. -/
def hexDigit (n : Nat) : Char :=
  if n < 10 then Char.ofNat (48 + n) else Char.ofNat (87 + n)

/-- The sixteen lowercase hexadecimal digits. -/
def hexDigits : List Char :=
  ['0', '1', '2', '3', '4', '5', '6', '7', '8', '9', 'a', 'b', 'c', 'd', 'e', 'f']

/-- Lowercase hex text of a byte string, as a list of characters (two per byte). -/
def hexChars : Bytes → List Char
  | [] => []
  | b :: bs => hexDigit (b.toNat / 16) :: hexDigit (b.toNat % 16) :: hexChars bs

def hex (bs : Bytes) : String := String.ofList (hexChars bs)

def hexVal? (c : Char) : Option Nat :=
  if '0' ≤ c ∧ c ≤ '9' then some (c.toNat - 48)
  else if 'a' ≤ c ∧ c ≤ 'f' then some (c.toNat - 87)
  else if 'A' ≤ c ∧ c ≤ 'F' then some (c.toNat - 55)
  else none

/-- Decode hex text (either case); `none` on an odd length or a non-hex character. -/
def unhexChars? : List Char → Option Bytes
  | [] => some []
  | [_] => none
  | a :: b :: rest =>
    match hexVal? a, hexVal? b, unhexChars? rest with
    | some x, some y, some bs => some (UInt8.ofNat (x * 16 + y) :: bs)
    | _, _, _ => none

def unhex? (s : String) : Option Bytes := unhexChars? s.toList

/-- Big-endian value of a byte string (`int.from_bytes(b, "big")`, BIP32 `parse256`). -/
def beNat (bs : Bytes) : Nat := bs.foldl (fun a b => a * 256 + b.toNat) 0

/-- Big-endian encoding of `n mod 256^len` on exactly `len` bytes (BIP32 `ser32`, `ser256`). -/
def natToBE : Nat → Nat → Bytes
  | 0, _ => []
  | len + 1, n => natToBE len (n / 256) ++ [UInt8.ofNat (n % 256)]

/-- Little-endian encoding of `n mod 2^32` on exactly four bytes. -/
def le32 (n : Nat) : Bytes :=
  [UInt8.ofNat (n % 256), UInt8.ofNat (n / 256 % 256), UInt8.ofNat (n / 65536 % 256), UInt8.ofNat (n / 16777216 % 256)]

/-- Big-endian encoding of `n mod 2^32` on exactly four bytes (BIP32 `ser32`). -/
def be32 (n : Nat) : Bytes :=
  [UInt8.ofNat (n / 16777216 % 256), UInt8.ofNat (n / 65536 % 256), UInt8.ofNat (n / 256 % 256), UInt8.ofNat (n % 256)]

/-- The bytes of an ASCII string (every character must be `< 128`; used for fixed labels only). -/
def ascii (s : String) : Bytes := s.toList.map (fun c => UInt8.ofNat c.toNat)

/-- UTF-8 bytes of a string. -/
def utf8 (s : String) : Bytes := s.toUTF8.toList

end Gonuts.Spec
