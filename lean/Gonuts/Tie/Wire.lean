import Gonuts.Gen.Facts
import Gonuts.Spec.NutWire
import Gonuts.Model.Wire
/-!
  Ties for `Model/Wire.lean` (C20): the facts the extractor reads from mint/server.go, cashu/cashu.go, the nut
  packages and crypto/keyset.go equal what the model uses.  If /repo changes one of them, `lake build` fails at the
  named theorem (a broken obligation for C20) until the model is re-read against the new source.
  Proofs are `rfl` / `decide` on closed data.
-/
namespace Gonuts.Tie.Wire
open Gonuts.Model.Wire Gonuts.Model.Mint Gonuts.Spec

/-! ## constants -/
theorem cacheItemTtl : Gen.cacheItemTtl = 300 ∧ cacheTtl = 300 * 1000000000 := by decide
theorem cacheItemsLimit : Gen.cacheItemsLimit = 10000 ∧ cacheLimit = 10000 := by decide
theorem requestBodySizeLimit : Gen.requestBodySizeLimit = 2 * 1024 * 1024 ∧ bodyLimit = 2097152 := by decide
theorem keysetTtl : Gen.keysetTtl = 86400 ∧ Gonuts.Model.Wire.keysetTtl = 86400 * 1000000000 := by decide
theorem activeKeysetKey : Gen.activeKeysetKey = "active_keyset_key" ∧ Gonuts.Model.Wire.activeKeysetKey = "active_keyset_key" := by decide
theorem bolt11Method : Gen.bolt11Method = "bolt11" ∧ bolt11 = "bolt11" := by decide
theorem maxOrder : Gen.maxOrder = 60 ∧ keyAmounts.length = 60 := by decide

/-! ## routes -/
/-- `setupHttpServer`: path templates, methods and handlers, in source order, are the model's route table. -/
theorem routes : Gen.routes = routeTable.map (fun r => (patternStr r.pat, r.methods, r.h.goName)) := by decide

/-- every route lists `OPTIONS` (the middleware answers it) -/
theorem routes_options : ∀ r ∈ Gen.routes, "OPTIONS" ∈ r.2.1 := by decide

def shortName : Handler → String
  | .getActiveKeysets => "getActiveKeysets"
  | .getKeysetsList => "getKeysetsList"
  | .getKeysetById => "getKeysetById"
  | .mintRequest => "mintRequest"
  | .mintQuoteState => "mintQuoteState"
  | .mintTokensRequest => "mintTokensRequest"
  | .swapRequest => "swapRequest"
  | .meltQuoteRequest => "meltQuoteRequest"
  | .meltQuoteState => "meltQuoteState"
  | .meltTokens => "meltTokens"
  | .tokenStateCheck => "tokenStateCheck"
  | .restoreSignatures => "restoreSignatures"
  | .mintInfo => "mintInfo"
  | .serveWS => "websocketManager.serveWS"

theorem goName_short (h : Handler) : h.goName = "ms." ++ shortName h := by cases h <;> decide

def row (t : List (String × List String)) (h : Handler) : Option (List String) :=
  match t.find? (·.1 == shortName h) with
  | some kv => some kv.2
  | none => none

/-! ## per-handler error mapping -/

/-- Which of the two internal codes `mapErr h` singles out (model side). -/
def testedCodes (h : Handler) : List String :=
  (if mapErr h (1, "probe") != (1, "probe") then ["DBErrCode"] else []) ++
  (if mapErr h (2, "probe") != (2, "probe") then ["LightningBackendErrCode"] else [])

/-- For the handlers that type-assert the error, the codes in their `cashuErr.Code == cashu.X` tests are exactly the
    codes `mapErr` replaces. -/
theorem handlerGenericCodes :
    ∀ h ∈ [Handler.mintRequest, .mintQuoteState, .mintTokensRequest, .swapRequest, .meltQuoteRequest, .meltQuoteState,
           .meltTokens, .tokenStateCheck], row Gen.handlerGenericCodes h = some (testedCodes h) := by decide

/-- restoreSignatures, mintInfo and the keyset handlers test no code: they answer with a constant. -/
theorem handlerGenericCodes_constant :
    ∀ h ∈ [Handler.restoreSignatures, .mintInfo, .getKeysetById, .getActiveKeysets, .getKeysetsList],
      row Gen.handlerGenericCodes h = some [] := by decide

/-- First argument of every `writeErr` call, in source order.  `err` right after the `{method}` constant is the decode
    error; the `err` after `cashu.StandardErr` is the operation's error passed through; `responseError` is meltTokens'
    "unable to send payment"; restoreSignatures / mintInfo never pass the operation's `err`. -/
theorem handlerWriteErrArgs : Gen.handlerWriteErrArgs = [
  ("getActiveKeysets", ["cashu.StandardErr"]),
  ("getKeysetById", ["cashu.UnknownKeysetErr", "cashu.StandardErr"]),
  ("getKeysetsList", ["cashu.StandardErr"]),
  ("meltQuoteRequest", ["cashu.PaymentMethodNotSupportedErr", "err", "cashu.StandardErr", "err", "cashu.StandardErr"]),
  ("meltQuoteState", ["cashu.PaymentMethodNotSupportedErr", "cashu.StandardErr", "err", "cashu.StandardErr"]),
  ("meltTokens", ["cashu.PaymentMethodNotSupportedErr", "err", "responseError", "cashu.StandardErr", "err", "cashu.StandardErr"]),
  ("mintInfo", ["cashu.StandardErr", "cashu.StandardErr"]),
  ("mintQuoteState", ["cashu.PaymentMethodNotSupportedErr", "cashu.StandardErr", "err", "cashu.StandardErr"]),
  ("mintRequest", ["cashu.PaymentMethodNotSupportedErr", "err", "cashu.StandardErr", "err", "cashu.StandardErr"]),
  ("mintTokensRequest", ["cashu.PaymentMethodNotSupportedErr", "cashu.StandardErr", "err", "cashu.StandardErr", "err", "cashu.StandardErr"]),
  ("restoreSignatures", ["err", "cashu.StandardErr", "cashu.StandardErr"]),
  ("swapRequest", ["cashu.StandardErr", "err", "cashu.StandardErr", "err", "cashu.StandardErr"]),
  ("tokenStateCheck", ["err", "cashu.StandardErr", "err", "cashu.StandardErr"])
] := rfl

/-- the handlers that check `{method}` against `cashu.BOLT11_METHOD` -/
theorem handlerMethodChecks (h : Handler) : needsMethodVar h = Gen.handlerMethodChecks.contains (shortName h) := by
  cases h <;> decide

/-- the handlers that decode a JSON body (and into which type) -/
theorem handlerDecodes (h : Handler) (hws : h ≠ .serveWS) :
    readsBody h = ((row Gen.handlerDecodes h).getD []).length.beq 1 := by
  cases h <;> first | decide | exact absurd rfl hws

theorem handlerDecodes_types : Gen.handlerDecodes.filter (·.2 != []) = [
  ("meltQuoteRequest", ["nut05.PostMeltQuoteBolt11Request"]),
  ("meltTokens", ["nut05.PostMeltBolt11Request"]),
  ("mintRequest", ["nut04.PostMintQuoteBolt11Request"]),
  ("mintTokensRequest", ["nut04.PostMintBolt11Request"]),
  ("restoreSignatures", ["nut09.PostRestoreRequest"]),
  ("swapRequest", ["nut03.PostSwapRequest"]),
  ("tokenStateCheck", ["nut07.PostCheckStateRequest"])
] := by decide

/-- the one `Mint` method each handler calls (`opOf` maps the handler to the `Model.Mint` op of that method) -/
theorem handlerMintCalls : Gen.handlerMintCalls = [
  ("getActiveKeysets", ["GetActiveKeyset"]),
  ("getKeysetById", ["GetKeysetById"]),
  ("getKeysetsList", ["ListKeysets"]),
  ("meltQuoteRequest", ["RequestMeltQuote"]),
  ("meltQuoteState", ["GetMeltQuoteState"]),
  ("meltTokens", ["MeltTokens"]),
  ("mintInfo", ["RetrieveMintInfo"]),
  ("mintQuoteState", ["GetMintQuoteState"]),
  ("mintRequest", ["RequestMintQuote"]),
  ("mintTokensRequest", ["MintTokens"]),
  ("restoreSignatures", ["RestoreSignatures"]),
  ("swapRequest", ["Swap"]),
  ("tokenStateCheck", ["ProofsStateCheck"])
] := rfl

/-! ## error table -/

/-- the errors `Model.Wire` itself builds are the source's (table rows / literals of decodeJsonReqBody / meltTokens) -/
theorem wire_errors :
    ("EmptyBodyErr", eEmptyBody.2, eEmptyBody.1) ∈ Gen.errTable ∧
    ("PaymentMethodNotSupportedErr", eMethod.2, eMethod.1) ∈ Gen.errTable ∧
    ("StandardErr", eStandard.2, eStandard.1) ∈ Gen.errTable ∧
    ("UnknownKeysetErr", eUnknownKeyset.2, eUnknownKeyset.1) ∈ Gen.errTable ∧
    eCtype.2 ∈ Gen.decodeStringLiterals ∧
    (Gen.errCodes.find? (·.1 == "StandardErrCode")).map (·.2) = some eCtype.1 ∧
    (Gen.errCodes.find? (·.1 == "DBErrCode")).map (·.2) = some 1 ∧
    (Gen.errCodes.find? (·.1 == "LightningBackendErrCode")).map (·.2) = some 2 := by decide

/-- the source's table has one row per variable and the two variables no code path uses are exactly these -/
theorem errVars_unused : (Gen.errVarUsed.filter (fun v => !v.2)).map (·.1) = ["LightningPaymentFailed", "UnitNotSupportedErr"] ∧
    Gen.errVarUsed.map (·.1) = Gen.errTable.map (·.1) := by decide

theorem errTable_size : Gen.errTable.length = 29 := by decide

/-! ## decoding -/
theorem decodeSwitchCases : Gen.decodeSwitchCases =
    ["errors.As(err, &syntaxErr)", "errors.As(err, &typeErr)", "errors.Is(err, io.EOF)", "default"] := rfl

/-! ## enum tables -/
theorem nut04_String : Gen.nut04_String =
    [("Unpaid", "UNPAID"), ("Paid", "PAID"), ("Issued", "ISSUED"), ("Pending", "PENDING"), ("default", "unknown")] := rfl
theorem nut04_StringToState : Gen.nut04_StringToState =
    [("UNPAID", "Unpaid"), ("PAID", "Paid"), ("ISSUED", "Issued"), ("PENDING", "Pending")] := rfl
theorem nut05_String : Gen.nut05_String =
    [("Unpaid", "UNPAID"), ("Pending", "PENDING"), ("Paid", "PAID"), ("default", "unknown")] := rfl
theorem nut05_StringToState : Gen.nut05_StringToState = [("UNPAID", "Unpaid"), ("PENDING", "Pending"), ("PAID", "Paid")] := rfl
theorem nut07_String : Gen.nut07_String =
    [("Unspent", "UNSPENT"), ("Pending", "PENDING"), ("Spent", "SPENT"), ("default", "unknown")] := rfl
theorem nut07_StringToState : Gen.nut07_StringToState = [("UNSPENT", "Unspent"), ("PENDING", "Pending"), ("SPENT", "Spent")] := rfl
theorem unit_String : Gen.unit_String = [("Sat", "sat"), ("default", "unknown")] := rfl

/-! ## cache -/
/-- exactly these functions of the mint package touch `ms.cache` -/
theorem cacheUsers : Gen.cacheUsers = ["Start", "getActiveKeysets", "getKeysetById", "mintTokensRequest", "swapRequest"] := rfl

/-- the key expression of both cached handlers is `requestCacheKey(req, body)` (`Request.key`), the TTL `CACHE_ITEM_TTL` seconds -/
theorem args_cacheGet_swap : Gen.args_cacheGet_swap = [["requestCacheKey(req,body)"]] := rfl
theorem args_cacheSet_swap : Gen.args_cacheSet_swap =
    [["requestCacheKey(req,body)", "jsonRes", "time.Second*CACHE_ITEM_TTL"]] := rfl
theorem args_cacheGet_mint : Gen.args_cacheGet_mint = [["requestCacheKey(req,body)"]] := rfl
theorem args_cacheSet_mint : Gen.args_cacheSet_mint =
    [["requestCacheKey(req,body)", "jsonRes", "time.Second*CACHE_ITEM_TTL"]] := rfl
/-- `Request.key`: method, URL and body joined by one NUL byte each (`keySep`) -/
theorem src_requestCacheKey : Gen.src_requestCacheKey = [
  "func requestCacheKey(req *http.Request, body []byte) string {",
  "return req.Method + \"\\x00\" + req.URL.String() + \"\\x00\" + string(body)",
  "}"
] := rfl
theorem keySep_is_nul : keySep.toList = [Char.ofNat 0] ∧
    (Request.key { method := "POST", segs := [], url := "/v1/swap", body := "{}" }).toList =
      "POST".toList ++ [Char.ofNat 0] ++ "/v1/swap".toList ++ [Char.ofNat 0] ++ "{}".toList := by decide
/-- the keyset uses: key `id` (the path variable) / the constant `ACTIVE_KEYSET`, TTL `KEYSET_TTL` -/
theorem args_cache_keys :
    Gen.args_cacheGet_keysById = [["id"]] ∧ Gen.args_cacheSet_keysById = [["id", "jsonRes", "time.Second*KEYSET_TTL"]] ∧
    Gen.args_cacheGet_activeKeys = [["ACTIVE_KEYSET"]] ∧
    Gen.args_cacheSet_activeKeys = [["ACTIVE_KEYSET", "jsonRes", "time.Second*KEYSET_TTL"]] := ⟨rfl, rfl, rfl, rfl⟩

/-- what the mint advertises under NUT-19 is what it caches: TTL `CACHE_ITEM_TTL`, POST /v1/mint/bolt11, POST /v1/swap -/
theorem nut19Advertisement : Gen.nut19Advertisement =
    "nut06.Nut19Setting{ TTL: CACHE_ITEM_TTL, CachedEndpoints: []nut06.CachedEndpoint{ {Method: \"POST\", Path: \"/v1/mint/bolt11\"}, {Method: \"POST\", Path: \"/v1/swap\"}, }, }" := rfl

/-! ## struct tags -/
def stripOpt (s : String) : String := String.ofList (s.toList.takeWhile (· != ','))
def tagsOf (t : List (String × String × String)) : List String := t.map (fun f => stripOpt f.2.2)
def optionalOf (t : List (String × String × String)) : List String :=
  (t.filter (fun f => f.2.2 != stripOpt f.2.2)).map (fun f => stripOpt f.2.2)

theorem tags_mintQuote : tagsMintQuote = tagsOf Gen.fields_MintQuoteResponse ∧ tagsMintQuote = tagsOf Gen.fields_MintQuoteTemp ∧
    optionalOf Gen.fields_MintQuoteTemp = ["pubkey"] := by decide
theorem tags_meltQuote : tagsMeltQuote = tagsOf Gen.fields_MeltQuoteResponse ∧ tagsMeltQuote = tagsOf Gen.fields_MeltQuoteTemp ∧
    optionalOf Gen.fields_MeltQuoteTemp = ["payment_preimage", "change"] := by decide
theorem tags_sig : tagsSig = tagsOf Gen.fields_BlindedSignature ∧ optionalOf Gen.fields_BlindedSignature = ["dleq"] := by decide
theorem tags_dleq : tagsDleq = tagsOf Gen.fields_DLEQProof ∧ optionalOf Gen.fields_DLEQProof = ["r"] := by decide
theorem tags_bmsg : tagsBMsg = tagsOf Gen.fields_BlindedMessage ∧ optionalOf Gen.fields_BlindedMessage = ["witness"] := by decide
theorem tags_proofState : tagsProofState = tagsOf Gen.fields_ProofState ∧ tagsProofState = tagsOf Gen.fields_ProofStateTemp ∧
    optionalOf Gen.fields_ProofStateTemp = ["witness"] := by decide
theorem tags_err : tagsErr = tagsOf Gen.fields_Error ∧ tagsErr = NutWire.errorFields := by decide
theorem tags_responses :
    tagsOf Gen.fields_SwapResponse = ["signatures"] ∧ tagsOf Gen.fields_MintResponse = ["signatures"] ∧
    tagsOf Gen.fields_CheckStateResponse = ["states"] ∧ tagsOf Gen.fields_RestoreResponse = ["outputs", "signatures"] ∧
    tagsOf Gen.fields_GetKeysResponse = ["keysets"] ∧ tagsOf Gen.fields_KeysKeyset = ["id", "unit", "keys"] ∧
    tagsOf Gen.fields_GetKeysetsResponse = ["keysets"] ∧
    tagsOf Gen.fields_KeysetsKeyset = ["id", "unit", "active", "input_fee_ppk"] := by decide
/-- request structs (the harness's hand-written schemas in wirejson.go follow these) -/
theorem tags_requests :
    tagsOf Gen.fields_MintQuoteRequest = ["amount", "unit", "pubkey"] ∧
    tagsOf Gen.fields_MintRequest = ["quote", "outputs", "signature"] ∧
    tagsOf Gen.fields_SwapRequest = ["inputs", "outputs"] ∧
    tagsOf Gen.fields_MeltQuoteRequest = ["request", "unit", "options"] ∧ tagsOf Gen.fields_MppOption = ["amount"] ∧
    tagsOf Gen.fields_MeltRequest = ["quote", "inputs", "outputs"] ∧
    tagsOf Gen.fields_CheckStateRequest = ["Ys"] ∧ tagsOf Gen.fields_RestoreRequest = ["outputs"] ∧
    tagsOf Gen.fields_Proof = ["amount", "id", "secret", "C", "witness", "dleq"] := by decide
/-- mint info: the fields `infoTree` renders (the optional ones it never sets are absent) -/
theorem tags_info :
    tagsOf Gen.fields_MintInfo = ["name", "pubkey", "version", "description", "description_long", "contact", "motd", "icon_url", "urls", "time", "nuts"] ∧
    tagsOf Gen.fields_Nuts = ["4", "5", "7", "8", "9", "10", "11", "12", "14", "15", "17", "19", "20"] ∧
    optionalOf Gen.fields_Nuts = ["15"] ∧
    tagsOf Gen.fields_NutSetting = ["methods", "disabled"] ∧
    tagsOf Gen.fields_MethodSetting = ["method", "unit", "min_amount", "max_amount"] ∧
    tagsOf Gen.fields_Supported = ["supported"] ∧
    tagsOf Gen.fields_Nut19Setting = ["ttl", "cached_endpoints"] ∧ tagsOf Gen.fields_CachedEndpoint = ["method", "path"] := by decide

/-! ## source text of the small functions the model mirrors line by line -/
/-- `Cache.set`: stores only `if len(c.items) <= c.limit`, checked before the assignment; expiry = now + duration -/
theorem src_CacheSet : Gen.src_CacheSet = [
  "func (c *Cache) Set(key string, item []byte, expiration time.Duration) {",
  "c.mu.Lock()",
  "defer c.mu.Unlock()",
  "if len(c.items) <= c.limit {",
  "c.items[key] = CacheItem{",
  "value:\t\titem,",
  "expiration:\ttime.Now().Add(expiration),",
  "}",
  "}",
  "}"
] := rfl

/-- `Cache.get`: absent → (nil,false); an expired item is deleted but its value is still returned -/
theorem src_CacheGet : Gen.src_CacheGet = [
  "func (c *Cache) Get(key string) ([]byte, bool) {",
  "c.mu.RLock()",
  "defer c.mu.RUnlock()",
  "item, found := c.items[key]",
  "if !found {",
  "return nil, false",
  "}",
  "if time.Now().After(item.expiration) {",
  "delete(c.items, key)",
  "}",
  "return item.value, true",
  "}"
] := rfl

/-- `Cache.deleteExpired`: `time.Now().After(item.expiration)` = `expired now exp` (strict) -/
theorem src_CacheDeleteExpired : Gen.src_CacheDeleteExpired = [
  "func (c *Cache) DeleteExpired() {",
  "c.mu.Lock()",
  "defer c.mu.Unlock()",
  "for k, item := range c.items {",
  "if time.Now().After(item.expiration) {",
  "delete(c.items, k)",
  "}",
  "}",
  "}"
] := rfl

/-- empty map, `limit: CACHE_ITEMS_LIMIT` (`cacheLimit`) -/
theorem src_NewCache : Gen.src_NewCache = [
  "func NewCache() *Cache {",
  "return &Cache{",
  "items:\tmake(map[string]CacheItem),",
  "mu:\tsync.RWMutex{},",
  "limit:\tCACHE_ITEMS_LIMIT,",
  "}",
  "}"
] := rfl

/-- `decodeBody` / `ctypeOk`: content type first, then the four-way error switch (`Decode.syntaxErr | typeErr | empty | other`) -/
theorem src_decodeJsonReqBody : Gen.src_decodeJsonReqBody = [
  "func decodeJsonReqBody(req *http.Request, dst any) error {",
  "ct := req.Header.Get(\"Content-Type\")",
  "if ct != \"\" {",
  "mediaType := strings.ToLower(strings.Split(ct, \";\")[0])",
  "if mediaType != \"application/json\" {",
  "ctError := cashu.BuildCashuError(\"Content-Type header is not application/json\", cashu.StandardErrCode)",
  "return ctError",
  "}",
  "}",
  "dec := json.NewDecoder(req.Body)",
  "err := dec.Decode(&dst)",
  "if err != nil {",
  "var syntaxErr *json.SyntaxError",
  "var typeErr *json.UnmarshalTypeError",
  "var cashuErr *cashu.Error",
  "switch {",
  "case errors.As(err, &syntaxErr):",
  "msg := fmt.Sprintf(\"bad json at %d\", syntaxErr.Offset)",
  "cashuErr = cashu.BuildCashuError(msg, cashu.StandardErrCode)",
  "case errors.As(err, &typeErr):",
  "msg := fmt.Sprintf(\"invalid %v for field %q\", typeErr.Value, typeErr.Field)",
  "cashuErr = cashu.BuildCashuError(msg, cashu.StandardErrCode)",
  "case errors.Is(err, io.EOF):",
  "return cashu.EmptyBodyErr",
  "default:",
  "cashuErr = cashu.BuildCashuError(err.Error(), cashu.StandardErrCode)",
  "}",
  "return cashuErr",
  "}",
  "return nil",
  "}"
] := rfl

/-- `errResp`: always `http.StatusBadRequest`, body `json.Marshal(errResponse)` (`errTree`) -/
theorem src_writeErr : Gen.src_writeErr = [
  "func (ms *MintServer) writeErr(rw http.ResponseWriter, req *http.Request, errResponse error, errLogMsg ...string) {",
  "code := http.StatusBadRequest",
  "log := errResponse.Error()",
  "if len(errLogMsg) > 0 {",
  "log = errLogMsg[0]",
  "}",
  "var pcs [1]uintptr",
  "runtime.Callers(2, pcs[:])",
  "r := slog.NewRecord(time.Now(), slog.LevelError, log, pcs[0])",
  "r.Add(slog.Group(\"request\",",
  "slog.String(\"method\", req.Method),",
  "slog.String(\"url\", req.URL.String())),",
  "slog.Int(\"code\", code),",
  ")",
  "_ = ms.mint.logger.Handler().Handle(context.Background(), r)",
  "rw.WriteHeader(code)",
  "errRes, _ := json.Marshal(errResponse)",
  "rw.Write(errRes)",
  "}"
] := rfl

/-- `handleX`: a matched `OPTIONS` request returns before the handler -/
theorem src_setupHeaders : Gen.src_setupHeaders = [
  "func setupHeaders(next http.Handler) http.Handler {",
  "return http.HandlerFunc(func(rw http.ResponseWriter, req *http.Request) {",
  "rw.Header().Set(\"Content-Type\", \"application/json\")",
  "rw.Header().Set(\"Access-Control-Allow-Origin\", \"*\")",
  "rw.Header().Set(\"Access-Control-Allow-Credentials\", \"true\")",
  "rw.Header().Set(\"Access-Control-Allow-Methods\", \"GET, POST, OPTIONS\")",
  "rw.Header().Set(\"Access-Control-Allow-Headers\", \"Content-Type, Content-Length, origin\")",
  "if req.Method == http.MethodOptions {",
  "return",
  "}",
  "next.ServeHTTP(rw, req)",
  "})",
  "}"
] := rfl

/-- `tick`: `Get(ACTIVE_KEYSET)`, drop it when it names another keyset (`stale`), `DeleteExpired` -/
theorem src_Start : Gen.src_Start = [
  "func (ms *MintServer) Start() error {",
  "go func() {",
  "for {",
  "select {",
  "case <-time.Tick(time.Second * 30):",
  "value, found := ms.cache.Get(ACTIVE_KEYSET)",
  "if found {",
  "var activeKeysetCache nut01.GetKeysResponse",
  "if err := json.Unmarshal(value, &activeKeysetCache); err != nil {",
  "delete(ms.cache.items, ACTIVE_KEYSET)",
  "continue",
  "}",
  "if len(activeKeysetCache.Keysets) > 0 {",
  "if ms.mint.activeKeyset.Id != activeKeysetCache.Keysets[0].Id {",
  "delete(ms.cache.items, ACTIVE_KEYSET)",
  "}",
  "}",
  "}",
  "ms.cache.DeleteExpired()",
  "case <-ms.mint.ctx.Done():",
  "return",
  "}",
  "}",
  "}()",
  "ms.mint.logger.Info(\"mint server listening on: \" + ms.httpServer.Addr)",
  "err := ms.httpServer.ListenAndServe()",
  "if err != nil && err != http.ErrServerClosed {",
  "return err",
  "} else if err == http.ErrServerClosed {",
  "ms.mint.logger.Info(\"shutdown complete\")",
  "}",
  "return nil",
  "}"
] := rfl

/-- `newServer`: every `SetupMintServer` starts with `NewCache()` -/
theorem src_SetupMintServer : Gen.src_SetupMintServer = [
  "func SetupMintServer(m *Mint, config ServerConfig) *MintServer {",
  "websocketManager := NewWebSocketManager(m)",
  "mintServer := &MintServer{",
  "mint:\t\t\tm,",
  "websocketManager:\twebsocketManager,",
  "meltTimeout:\t\tconfig.MeltTimeout,",
  "cache:\t\t\tNewCache(),",
  "}",
  "mintServer.setupHttpServer(config.Port)",
  "return mintServer",
  "}"
] := rfl

/-- `keysFields`: `slices.Sort(amounts)` then one `"amount":"hex"` member per amount -/
theorem src_PublicKeysMarshalJSON : Gen.src_PublicKeysMarshalJSON = [
  "func (pks PublicKeys) MarshalJSON() ([]byte, error) {",
  "var buf bytes.Buffer",
  "buf.WriteByte('{')",
  "amounts := make([]uint64, len(pks))",
  "i := 0",
  "for k := range pks {",
  "amounts[i] = k",
  "i++",
  "}",
  "slices.Sort(amounts)",
  "for j, amount := range amounts {",
  "if j != 0 {",
  "buf.WriteByte(',')",
  "}",
  "key, err := json.Marshal(amount)",
  "if err != nil {",
  "return nil, err",
  "}",
  "buf.WriteByte('\"')",
  "buf.Write(key)",
  "buf.WriteByte('\"')",
  "buf.WriteByte(':')",
  "pubkey := hex.EncodeToString(pks[amount].SerializeCompressed())",
  "val, err := json.Marshal(pubkey)",
  "if err != nil {",
  "return nil, err",
  "}",
  "buf.Write(val)",
  "}",
  "buf.WriteByte('}')",
  "return buf.Bytes(), nil",
  "}"
] := rfl

/-- struct-keyed map (`Model.Mint.dupProofs`): the cause of `code_of_cause_full_false` -/
theorem src_CheckDuplicateProofs : Gen.src_CheckDuplicateProofs = [
  "func CheckDuplicateProofs(proofs Proofs) bool {",
  "proofsMap := make(map[Proof]bool)",
  "for _, proof := range proofs {",
  "if proofsMap[proof] {",
  "return true",
  "} else {",
  "proofsMap[proof] = true",
  "}",
  "}",
  "return false",
  "}"
] := rfl

/-- `runHandler` (cached branch): decode, `Get`, `if found` return, operation, size test, `Set` -/
theorem stmts_cache_swapRequest : Gen.stmts_cache_swapRequest = [
  "call decodeJsonReqBody",
  "call ms.cache.Get",
  "if found",
  "call ms.mint.Swap",
  "if len(body) < REQUEST_BODY_SIZE_LIMIT",
  "call ms.cache.Set"
] := rfl

/-- same sequence for `/v1/mint/{method}` -/
theorem stmts_cache_mintTokensRequest : Gen.stmts_cache_mintTokensRequest = [
  "call decodeJsonReqBody",
  "call ms.cache.Get",
  "if found",
  "call ms.mint.MintTokens",
  "if len(body) < REQUEST_BODY_SIZE_LIMIT",
  "call ms.cache.Set"
] := rfl

/-- `handleKeys` -/
theorem stmts_cache_getKeysetById : Gen.stmts_cache_getKeysetById = [
  "call ms.cache.Get",
  "if found",
  "call ms.cache.Set"
] := rfl

/-- `handleKeys` -/
theorem stmts_cache_getActiveKeysets : Gen.stmts_cache_getActiveKeysets = [
  "call ms.cache.Get",
  "if found",
  "call ms.cache.Set"
] := rfl

end Gonuts.Tie.Wire
