import Gonuts.Model.WalletBooks
import Gonuts.Lemmas.WalletBooksRestoreProg
import Gonuts.Gen.Facts
/-!
  Tie of the wallet bookkeeping model to `/repo/wallet`: the skeleton of every program of
  `Model.WalletBooks` (the storage / client / helper calls it makes, in source order, with the control
  structure that contains them — computed from the program itself by `Prog.skel`) is the skeleton the
  extractor reads off the Go function (`Gen.wskel_*`, regenerated on every run).  A call added, removed
  or moved in the Go source breaks the corresponding `rfl`.
-/
namespace Gonuts.Tie.WalletBooks
open Gonuts Gonuts.Model.WalletBooks

def cx0 : Cx := { wi := 0, seed := 0, sel := selStable }
def mm0 : MemMint := zeroMint 0

theorem skel_MintTokens : (mintTokens cx0 0).run.skel = Gen.wskel_MintTokens := by decide +kernel
theorem skel_Send : (send cx0 0 0 true).run.skel = Gen.wskel_Send := by decide +kernel
theorem skel_swapToSend : (swapToSend cx0 0 mm0 none true).run.skel = Gen.wskel_swapToSend := by decide +kernel
theorem skel_getProofsForAmount : (getProofsForAmount cx0 0 mm0 true).run.skel = Gen.wskel_getProofsForAmount := by decide +kernel
theorem skel_selectProofsForAmount :
    (selectProofsForAmount cx0 0 mm0 true).run.skel = Gen.wskel_selectProofsForAmount := by decide +kernel
theorem skel_Receive : (receive cx0 0 [] true).run.skel = Gen.wskel_Receive := by decide +kernel
theorem skel_Melt : (melt cx0 0).run.skel = Gen.wskel_Melt := by decide +kernel
theorem skel_CheckMeltQuoteState : (checkMeltQuoteState 0).run.skel = Gen.wskel_CheckMeltQuoteState := by decide +kernel
theorem skel_ReclaimUnspentProofs : (reclaimUnspentProofs cx0).run.skel = Gen.wskel_ReclaimUnspentProofs := by decide +kernel
theorem skel_RemoveSpentProofs : removeSpentProofs.run.skel = Gen.wskel_RemoveSpentProofs := by decide +kernel
theorem skel_swapProofs : (swapProofs cx0 [] mm0 mm0).run.skel = Gen.wskel_swapProofs := by decide +kernel
theorem skel_MintSwap : (mintSwap cx0 0 0 0).run.skel = Gen.wskel_MintSwap := by decide +kernel
theorem skel_swapToTrusted : (swapToTrusted cx0 [] mm0).run.skel = Gen.wskel_swapToTrusted := by decide +kernel
theorem skel_createSwapRequest : (createSwapRequest cx0 [] mm0).run.skel = Gen.wskel_createSwapRequest := by decide +kernel
theorem skel_swap : (swap 0 ⟨[], [], default⟩).run.skel = Gen.wskel_swap := by decide +kernel
theorem skel_RequestMint : (requestMint 0 0).run.skel = Gen.wskel_RequestMint := by decide +kernel
theorem skel_MintQuoteState : (mintQuoteState 0).run.skel = Gen.wskel_MintQuoteState := by decide +kernel
theorem skel_RequestMeltQuote : (requestMeltQuote default 0).run.skel = Gen.wskel_RequestMeltQuote := by decide +kernel
theorem skel_Restore : (restore cx0 []).run.skel = Gen.wskel_Restore := by decide +kernel

/-- The argument of Restore's `IncrementKeysetCounter` call is the delta since the last update (after the
    `fix:` commit; before it the text was `counter`, the cumulative counter — `restoreBatch … (fixed := false)`). -/
theorem args_IncrementKeysetCounter_Restore :
    Gen.args_IncrementKeysetCounter_Restore = [["keyset.Id", "counter-savedCounter"]] := rfl

/-- … and that is what the model's batch passes: with `fixed = true` the increment is `counter - saved`. -/
theorem restoreBatch_increment (cx : Cx) (mi : Nat) (k : KsInfo) (b : BatchSt) (w : World) (hmi : mi < w.mints.length)
    (hs : w.script = []) :
    runPM cx.wi (restoreBatch cx mi k true b) w = batchSpec cx mi k true b w := runPM_restoreBatch cx mi k true b w hmi hs

end Gonuts.Tie.WalletBooks
