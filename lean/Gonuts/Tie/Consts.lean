import Gonuts.Gen.Facts
/-! Ties between extracted constants and the values the models use. -/
namespace Gonuts.Tie

theorem maxSecretLength : Gen.maxSecretLength = 512 := rfl
theorem maxOrder : Gen.maxOrder = 60 := rfl
theorem domainSeparator : Gen.domainSeparator = "Secp256k1_HashToCurve_Cashu_" := rfl

end Gonuts.Tie
