import Gonuts.Gen.Code
import Gonuts.Lemmas.GoSem
import Gonuts.Lemmas.Amount
import Gonuts.Model.Select
import Gonuts.Model.Spend
/-!
  The TRANSLATED code (`Gonuts/Gen/Code.lean`, regenerated from /repo's Go source by `extract/translate.go` on every
  run) equals the hand-written model — for ALL inputs.  These are the proof obligations that tie the arithmetic /
  decision helpers of `cashu/cashu.go`, `wallet/wallet.go` and `mint/mint.go` to `Model/Amount.lean` and
  `Model/Select.lean` (C02, C06, C09, C16, C18), the wallet's `inputsWithoutDLEQ` (C08), `nut11.IsSigAll` /
  `DuplicateSignatures` to `Model/Spend.lean` (C12, C13) and the state enumerations of NUT-04/05/07 (C15, C20):

  * a semantic change of one of these Go functions (a `<` that becomes `<=`, a dropped overflow check, a fee rounded
    down, a wrong shift, a duplicate test on another field) changes the regenerated definition, and the theorem about it
    here no longer checks — a broken obligation for the properties that list this module;
  * a harmless rewrite that the same proof script still discharges stays silent (unlike the frozen source text of
    `Tie/Select.lean`, which it complements);
  * a function that leaves the translator's subset becomes `untranslatable_<F> : String` and the theorem about `<F>`
    no longer elaborates.
  The second half states the consequences directly about the regenerated code (no model in the statement).
-/
namespace Gonuts.Tie.Code
open Gonuts.Gen.Code Gonuts.Model Gonuts.Model.Go

theorem amountWrap_map {α : Type} (g : α → UInt64) (xs : List α) :
    amountWrap (xs.map g) = xs.foldl (fun s x => s + g x) 0 := by
  simp only [amountWrap, List.foldl_map]

/-! ## cashu/cashu.go -/
/-- proved through the meaning of the two tests (not by syntactic equality), so that an equivalent way of writing
    the overflow test in the Go source is accepted -/
theorem OverflowAddUint64_eq (a b : UInt64) : OverflowAddUint64 a b = overflowAdd a b := by
  unfold OverflowAddUint64 overflowAdd
  have hm : (18446744073709551615 : UInt64) = UInt64.ofNat (2 ^ 64 - 1) := rfl
  by_cases h : a.toNat + b.toNat < 2 ^ 64
  · have e : (a + b).toNat = a.toNat + b.toNat := by rw [UInt64.toNat_add]; exact Nat.mod_eq_of_lt h
    have h1 : ¬ (a + b < a) := by rw [UInt64.lt_iff_toNat_lt]; omega
    have h2 : ¬ (a + b < b) := by rw [UInt64.lt_iff_toNat_lt]; omega
    simp [h1, h2]
  · have e : (a + b).toNat = a.toNat + b.toNat - 2 ^ 64 := by
      rw [UInt64.toNat_add]
      have := a.toNat_lt; have := b.toNat_lt
      omega
    have := a.toNat_lt; have := b.toNat_lt
    have h1 : a + b < a := by rw [UInt64.lt_iff_toNat_lt]; omega
    have h2 : a + b < b := by rw [UInt64.lt_iff_toNat_lt]; omega
    simp [h1, h2, hm]

theorem UnderflowSubUint64_eq (a b : UInt64) : UnderflowSubUint64 a b = underflowSub a b := by
  unfold UnderflowSubUint64 underflowSub
  by_cases h : a < b
  · have h' : ¬ (b ≤ a) := by rw [UInt64.le_iff_toNat_le]; rw [UInt64.lt_iff_toNat_lt] at h; omega
    simp [h, h']
  · have h' : b ≤ a := by rw [UInt64.le_iff_toNat_le]; rw [UInt64.lt_iff_toNat_lt] at h; omega
    simp [h, h']

theorem BlindedMessages_Amount_eq (bm : List BlindedMessage) :
    BlindedMessages_Amount bm = amountWrap (bm.map (·.Amount)) := by
  unfold BlindedMessages_Amount
  simp only [rangeLoop_fold _ (fun (s : UInt64) (x : BlindedMessage) => s + x.Amount) (fun _ _ _ => rfl), amountWrap_map]

theorem BlindedSignatures_Amount_eq (bs : List BlindedSignature) :
    BlindedSignatures_Amount bs = amountWrap (bs.map (·.Amount)) := by
  unfold BlindedSignatures_Amount
  simp only [rangeLoop_fold _ (fun (s : UInt64) (x : BlindedSignature) => s + x.Amount) (fun _ _ _ => rfl), amountWrap_map]

theorem Proofs_Amount_eq (ps : List Proof) : Proofs_Amount ps = amountWrap (ps.map (·.Amount)) := by
  unfold Proofs_Amount
  simp only [rangeLoop_fold _ (fun (s : UInt64) (x : Proof) => s + x.Amount) (fun _ _ _ => rfl), amountWrap_map]

theorem Max_spec (x y : UInt64) :
    x ≤ Gen.Code.Max x y ∧ y ≤ Gen.Code.Max x y ∧ (Gen.Code.Max x y = x ∨ Gen.Code.Max x y = y) := by
  unfold Gen.Code.Max
  simp only [decide_eq_true_eq, UInt64.lt_iff_toNat_lt, UInt64.le_iff_toNat_le, gt_iff_lt]
  split
  · exact ⟨Nat.le_refl _, by omega, .inl rfl⟩
  · exact ⟨by omega, Nat.le_refl _, .inr rfl⟩

theorem Count_eq (amounts : List UInt64) (amount : UInt64) :
    Count amounts amount = UInt64.ofNat (countEq amounts amount) := by
  unfold Count
  dsimp only
  rw [rangeLoop_fold _ (fun (s : UInt64) (x : UInt64) => if x == amount then s + 1 else s)]
  · suffices h : ∀ (s : UInt64), amounts.foldl (fun s x => if x == amount then s + 1 else s) s =
        s + UInt64.ofNat (countEq amounts amount) by simpa using h 0
    induction amounts with
    | nil => intro s; simp [countEq]
    | cons x xs ih =>
      intro s
      simp only [List.foldl_cons, ih, countEq, List.filter_cons]
      by_cases h : (x == amount) = true
      · simp only [h, if_true, List.length_cons, UInt64.ofNat_add]
        rw [UInt64.add_assoc, UInt64.add_comm 1]; rfl
      · simp only [h]; rfl
  · intro _ x s
    by_cases h : (x == amount) = true <;> simp [h]

/-! ## fees: wallet/wallet.go, mint/mint.go -/
theorem foldl_replicate_unit (ppk : UInt64) (n : Nat) (s : UInt64) :
    (List.replicate n ()).foldl (fun s _ => s + ppk) s = (List.replicate n ppk).foldl (· + ·) s := by
  induction n generalizing s with
  | zero => rfl
  | succ n ih => simp only [List.replicate_succ, List.foldl_cons, ih]

/-- `feesForCount(count, keyset)` is the model's `feesOfPpks` of `count` copies of the keyset's fee -/
theorem feesForCount_eq (count : Int) (ks : WalletKeyset) :
    Gen.Code.feesForCount count ks = Model.Select.feesForCount count.toNat ks.InputFeePpk := by
  unfold Gen.Code.feesForCount Model.Select.feesForCount feesOfPpks amountWrap
  simp only [countLoop_fold _ (fun (s : UInt64) => s + ks.InputFeePpk) (fun _ _ => rfl), Int.sub_zero, foldl_replicate_unit]

/-- the fee `feesForProofs` adds for a proof of keyset `id`: active keyset first, then the inactive map, else nothing -/
def ppkOf (mint : walletMint) (id : String) : UInt64 :=
  if mint.activeKeyset.Id == id then mint.activeKeyset.InputFeePpk
  else match mint.inactiveKeysets.lookup id with
    | some ks => ks.InputFeePpk
    | none => 0

theorem feesForProofs_eq (proofs : List Proof) (mint : walletMint) :
    Gen.Code.feesForProofs proofs mint = feesOfPpks (proofs.map (fun p => ppkOf mint p.Id)) := by
  unfold Gen.Code.feesForProofs feesOfPpks
  dsimp only
  rw [rangeLoop_fold _ (fun (s : UInt64) (p : Proof) => s + ppkOf mint p.Id), amountWrap_map]
  intro _ p s
  unfold ppkOf mapGet2
  by_cases h : (mint.activeKeyset.Id == p.Id) = true
  · simp only [h, if_true]
  · simp only [h]
    cases hl : mint.inactiveKeysets.lookup p.Id <;> simp

theorem Mint_TransactionFees_eq (m : Mint) (inputs : List Proof) :
    Mint_TransactionFees m inputs = feesOfPpks (inputs.map (fun p => (mapGet m.keysets p.Id).InputFeePpk)) := by
  unfold Mint_TransactionFees feesOfPpks
  simp only [rangeLoop_fold _ (fun (s : UInt64) (p : Proof) => s + (mapGet m.keysets p.Id).InputFeePpk) (fun _ _ _ => rfl),
    amountWrap_map]

/-! ## loops with an early return -/

/-- `BlindedMessages.AmountChecked` is the model's `amountChecked` over the amounts: the checked sum, or
    `(0, ErrAmountOverflows)` as soon as a partial sum overflows. -/
theorem BlindedMessages_AmountChecked_eq (bm : List BlindedMessage) :
    BlindedMessages_AmountChecked bm =
      match amountChecked (bm.map (·.Amount)) with
      | some r => (r, none)
      | none => (0, some "ErrAmountOverflows") := by
  unfold BlindedMessages_AmountChecked amountChecked rangeLoop
  dsimp only
  generalize hL : rangeLoopFrom _ 0 bm ((0 : UInt64), false) = L
  have h : (∀ r, amountChecked.go 0 (bm.map (·.Amount)) = some r → ∃ ov', L = (.next, (r, ov'))) ∧
      (amountChecked.go 0 (bm.map (·.Amount)) = none → ∃ st', L = (.ret (0, some "ErrAmountOverflows"), st')) := by
    rw [← hL]
    refine rangeLoopFrom_spec _
      (fun (xs : List BlindedMessage) (st : UInt64 × Bool) (res : Ctl (UInt64 × Option String) × UInt64 × Bool) =>
        (∀ r, amountChecked.go st.1 (xs.map (·.Amount)) = some r → ∃ ov', res = (.next, (r, ov'))) ∧
        (amountChecked.go st.1 (xs.map (·.Amount)) = none → ∃ st', res = (.ret (0, some "ErrAmountOverflows"), st')))
      ?_ ?_ 0 bm ((0 : UInt64), false)
    · intro s; rcases s with ⟨a, o⟩; simp [amountChecked.go]
    · intro i x xs s
      rcases s with ⟨acc, ov⟩
      simp only [OverflowAddUint64_eq, List.map_cons, amountChecked.go]
      rcases hoa : overflowAdd acc x.Amount with ⟨s, o⟩
      cases o <;> simp
  cases hg : amountChecked.go 0 (bm.map (·.Amount)) with
  | some r => obtain ⟨ov', e⟩ := h.1 r hg; simp [e]
  | none => obtain ⟨st', e⟩ := h.2 hg; simp [e]

theorem dupLoop_spec (bms : List BlindedMessage) : ∀ (i : Nat) (m : List (String × Bool)) (seen : List String),
    (∀ k, mapGet m k = true ↔ k ∈ seen) → seen.Nodup →
    ((¬ (seen ++ bms.map (·.B_)).Nodup → ∃ m', rangeLoopFrom (ρ := Bool) (fun _ (bm : BlindedMessage) (st : List (String × Bool)) =>
        if mapGet st bm.B_ = true then (Ctl.ret true, st) else (Ctl.next, mapSet st bm.B_ true)) i bms m = (Ctl.ret true, m')) ∧
     ((seen ++ bms.map (·.B_)).Nodup → ∃ m', rangeLoopFrom (ρ := Bool) (fun _ (bm : BlindedMessage) (st : List (String × Bool)) =>
        if mapGet st bm.B_ = true then (Ctl.ret true, st) else (Ctl.next, mapSet st bm.B_ true)) i bms m = (Ctl.next, m'))) := by
  induction bms with
  | nil => intro i m seen _ hn; simp [rangeLoopFrom, hn]
  | cons x xs ih =>
    intro i m seen hm hn
    simp only [rangeLoopFrom, List.map_cons]
    by_cases hx : mapGet m x.B_ = true
    · simp only [hx, if_true]
      refine ⟨fun _ => ⟨m, rfl⟩, fun hnd => ?_⟩
      have := (hm x.B_).mp hx
      rw [List.nodup_append] at hnd
      exact absurd rfl (hnd.2.2 _ this _ List.mem_cons_self)
    · simp only [hx]
      have hnot : x.B_ ∉ seen := fun h => hx ((hm x.B_).mpr h)
      have := ih (i + 1) (mapSet m x.B_ true) (seen ++ [x.B_]) (by
        intro k
        simp only [mapSet, mapGet, List.lookup_cons, List.mem_append, List.mem_singleton]
        by_cases hk : k = x.B_
        · simp [hk]
        · have hk' : (k == x.B_) = false := by simpa using hk
          simp only [hk', hk, or_false]
          exact hm k) (by
        rw [List.nodup_append]
        exact ⟨hn, by simp, by intro a ha b hb; simp at hb; subst hb; intro h; exact hnot (h ▸ ha)⟩)
      simpa [List.append_assoc] using this

/-- `CheckDuplicateBlindedMessages` answers true exactly when two blinded messages of the list have the same `B_` -/
theorem CheckDuplicateBlindedMessages_iff (bms : List BlindedMessage) :
    CheckDuplicateBlindedMessages bms = true ↔ ¬ (bms.map (·.B_)).Nodup := by
  unfold CheckDuplicateBlindedMessages rangeLoop
  dsimp only
  have h := dupLoop_spec bms 0 [] [] (by intro k; simp [mapGet]) List.nodup_nil
  simp only [List.nil_append] at h
  by_cases hn : (bms.map (·.B_)).Nodup
  · obtain ⟨m', hm⟩ := h.2 hn
    simp [hm, hn]
  · obtain ⟨m', hm⟩ := h.1 hn
    simp [hm, hn]

/-! ## a general loop (fuel) -/

/-- `AmountSplit` with 64 rounds of fuel always terminates, and returns the model's `amountSplit` -/
theorem AmountSplit_eq (a : UInt64) : AmountSplit 64 a = some (amountSplit a) := by
  unfold AmountSplit amountSplit
  dsimp only
  generalize hL : whileLoop _ _ 64 (([] : List UInt64), a, (0 : Int)) = L
  have h : a.toNat < 2 ^ 64 → (0 : Int) ≤ 0 → ∃ a' p', L = some (.next,
      (([] : List UInt64) ++ (amountSplitAux 64 (0 : Int).toNat a.toNat).map UInt64.ofNat, a', p')) := by
    rw [← hL]
    refine whileLoop_spec _ _
      (fun (fuel : Nat) (st : List UInt64 × UInt64 × Int) (res : Option (Ctl (List UInt64) × List UInt64 × UInt64 × Int)) =>
        st.2.1.toNat < 2 ^ fuel → 0 ≤ st.2.2 → ∃ a' p', res = some (.next,
          (st.1 ++ (amountSplitAux fuel st.2.2.toNat st.2.1.toNat).map UInt64.ofNat, a', p')))
      ?_ ?_ ?_ 64 (([] : List UInt64), a, (0 : Int))
    · rintro fuel ⟨rv, amt, pos⟩ hc _ _
      have h0 : amt.toNat = 0 := by
        simp only [decide_eq_false_iff_not, UInt64.lt_iff_toNat_lt, gt_iff_lt] at hc
        simpa using hc
      refine ⟨amt, pos, ?_⟩
      cases fuel <;> simp [amountSplitAux, h0]
    · rintro ⟨rv, amt, pos⟩ hc hlt _
      simp only [decide_eq_true_eq, UInt64.lt_iff_toNat_lt, gt_iff_lt] at hc
      simp at hlt hc
      omega
    · rintro fuel ⟨rv, amt, pos⟩ hc
      simp only [decide_eq_true_eq, UInt64.lt_iff_toNat_lt, gt_iff_lt] at hc
      have hpos : 0 < amt.toNat := by simpa using hc
      simp only [and_one_eq_one_iff]
      by_cases hb : amt.toNat % 2 = 1
      · simp only [hb, decide_true, if_true]
        intro r hr hlt hp
        obtain ⟨a', p', e⟩ := hr (by rw [shr_one_toNat]; omega) (by omega)
        refine ⟨a', p', ?_⟩
        rw [e]
        simp only [shr_one_toNat, shl_one]
        have e2 : (pos + 1).toNat = pos.toNat + 1 := by omega
        rw [e2]
        conv => rhs; rw [amountSplitAux]
        simp [Nat.ne_of_gt hpos, hb]
      · simp only [hb, decide_false, Bool.false_eq_true, if_false]
        intro r hr hlt hp
        obtain ⟨a', p', e⟩ := hr (by rw [shr_one_toNat]; omega) (by omega)
        refine ⟨a', p', ?_⟩
        rw [e]
        simp only [shr_one_toNat]
        have e2 : (pos + 1).toNat = pos.toNat + 1 := by omega
        rw [e2]
        conv => rhs; rw [amountSplitAux]
        simp [Nat.ne_of_gt hpos, hb]
  obtain ⟨a', p', e⟩ := h a.toNat_lt (Int.le_refl 0)
  simp [e]


/-! ## what the regenerated code does, stated without the model -/

/-- `OverflowAddUint64` reports no overflow exactly when the true sum fits in 64 bits, and then returns it -/
theorem OverflowAddUint64_spec (a b : UInt64) :
    ((OverflowAddUint64 a b).2 = false ↔ a.toNat + b.toNat < 2 ^ 64) ∧
    ((OverflowAddUint64 a b).2 = false → (OverflowAddUint64 a b).1.toNat = a.toNat + b.toNat) := by
  rw [OverflowAddUint64_eq]
  exact ⟨overflowAdd_ok_iff a b, overflowAdd_ok_val a b⟩

/-- `UnderflowSubUint64` reports no underflow exactly when `b ≤ a`, and then returns the true difference -/
theorem UnderflowSubUint64_spec (a b : UInt64) :
    ((UnderflowSubUint64 a b).2 = false ↔ b.toNat ≤ a.toNat) ∧
    ((UnderflowSubUint64 a b).2 = false → (UnderflowSubUint64 a b).1.toNat = a.toNat - b.toNat) := by
  rw [UnderflowSubUint64_eq]
  exact ⟨underflowSub_ok_iff a b, underflowSub_ok_val a b⟩

/-- `BlindedMessages.AmountChecked` returns an error exactly when the true sum of the amounts does not fit in 64
    bits, and otherwise the true sum -/
theorem BlindedMessages_AmountChecked_spec (bm : List BlindedMessage) :
    ((BlindedMessages_AmountChecked bm).2 ≠ none ↔ 2 ^ 64 ≤ natSum (bm.map (·.Amount))) ∧
    ((BlindedMessages_AmountChecked bm).2 = none → (BlindedMessages_AmountChecked bm).1.toNat = natSum (bm.map (·.Amount))) := by
  rw [BlindedMessages_AmountChecked_eq]
  cases h : amountChecked (bm.map (·.Amount)) with
  | none => simp [(amountChecked_none_iff _).mp h]
  | some r =>
    have hs := amountChecked_some _ r h
    have hn : ¬ (2 ^ 64 ≤ natSum (bm.map (·.Amount))) := fun hh => by
      rw [(amountChecked_none_iff _).mpr hh] at h; cases h
    simp [hs, hn]

/-- the unchecked `Amount()` sums are the true sum modulo 2^64 -/
theorem Proofs_Amount_spec (ps : List Proof) : (Proofs_Amount ps).toNat = natSum (ps.map (·.Amount)) % 2 ^ 64 := by
  rw [Proofs_Amount_eq, amountWrap_toNat]

/-- `AmountSplit` returns strictly increasing powers of two that add up to the amount -/
theorem AmountSplit_spec (a : UInt64) : ∃ l, AmountSplit 64 a = some l ∧ natSum l = a.toNat ∧
    l.Pairwise (· < ·) ∧ ∀ x ∈ l, ∃ e, e < 64 ∧ x.toNat = 2 ^ e :=
  ⟨amountSplit a, AmountSplit_eq a, amountSplit_natSum a, amountSplit_pairwise_lt a, amountSplit_mem_pow2 a⟩

/-- the three fee functions charge ⌈Σ ppk / 1000⌉ whenever the sum of the per-input fees does not wrap -/
theorem Mint_TransactionFees_spec (m : Mint) (inputs : List Proof)
    (h : natSum (inputs.map (fun p => (mapGet m.keysets p.Id).InputFeePpk)) + 999 < 2 ^ 64) :
    (Mint_TransactionFees m inputs).toNat = ceilDiv1000 (natSum (inputs.map (fun p => (mapGet m.keysets p.Id).InputFeePpk))) := by
  rw [Mint_TransactionFees_eq]; exact feesOfPpks_exact _ h

theorem feesForProofs_spec (proofs : List Proof) (mint : walletMint)
    (h : natSum (proofs.map (fun p => ppkOf mint p.Id)) + 999 < 2 ^ 64) :
    (Gen.Code.feesForProofs proofs mint).toNat = ceilDiv1000 (natSum (proofs.map (fun p => ppkOf mint p.Id))) := by
  rw [feesForProofs_eq]; exact feesOfPpks_exact _ h

/-! ## wallet/wallet.go: inputsWithoutDLEQ (C08) -/

theorem set_append_replicate {α : Type} (pre : List α) (d v : α) (n : Nat) :
    (pre ++ List.replicate (n + 1) d).set pre.length v = (pre ++ [v]) ++ List.replicate n d := by
  induction pre with
  | nil => simp [List.replicate_succ]
  | cons a pre ih => simp [ih]

theorem stripLoop (f : Proof → Proof) (body : Nat → Proof → List Proof → Ctl (List Proof) × List Proof)
    (hb : ∀ i p st, body i p st = (.next, st.set i (f p))) :
    ∀ (xs pre : List Proof), rangeLoopFrom body pre.length xs (pre ++ List.replicate xs.length default) =
      (.next, pre ++ xs.map f) := by
  intro xs
  induction xs with
  | nil => intro pre; simp [rangeLoopFrom]
  | cons x xs ih =>
    intro pre
    simp only [rangeLoopFrom, hb, List.length_cons, set_append_replicate]
    have := ih (pre ++ [f x])
    simp only [List.length_append, List.length_singleton] at this
    rw [this]
    simp

/-- the copies that go into a swap / melt request are the stored proofs with the DLEQ proof removed, in order -/
theorem inputsWithoutDLEQ_eq (ps : List Proof) :
    inputsWithoutDLEQ ps = ps.map (fun p => { p with DLEQ := none }) := by
  unfold inputsWithoutDLEQ rangeLoop
  cases ps with
  | nil => rfl
  | cons p ps =>
    simp only [List.isEmpty_cons, Bool.false_eq_true, if_false, Int.toNat_natCast]
    have := stripLoop (fun p => { p with DLEQ := none })
      (fun i_n proof st => (Ctl.next, st.set (Int.toNat (Int.ofNat i_n)) { proof with DLEQ := none }))
      (fun i p st => by simp) (p :: ps) []
    simp only [List.length_nil, List.nil_append] at this
    exact congrArg (fun r => match r with | (Ctl.ret r__, _) => r__ | (_, inputs) => inputs) this |>.trans (by rfl)

/-- no DLEQ proof (hence no blinding factor `r`) is left in what `inputsWithoutDLEQ` returns; everything else is kept -/
theorem inputsWithoutDLEQ_spec (ps : List Proof) :
    (inputsWithoutDLEQ ps).length = ps.length ∧ (∀ q ∈ inputsWithoutDLEQ ps, q.DLEQ = none) ∧
    (inputsWithoutDLEQ ps).map (fun p => (p.Amount, p.Id, p.Secret, p.C, p.Witness)) =
      ps.map (fun p => (p.Amount, p.Id, p.Secret, p.C, p.Witness)) := by
  rw [inputsWithoutDLEQ_eq]
  refine ⟨by simp, ?_, by simp [List.map_map, Function.comp_def]⟩
  intro q hq
  obtain ⟨p, _, rfl⟩ := List.mem_map.mp hq
  rfl

/-! ## cashu/nuts/nut11: IsSigAll, DuplicateSignatures (C12, C13) -/

theorem anyLoop {α : Type} (t : α → Bool) (body : Nat → α → Unit → Ctl Bool × Unit)
    (hb : ∀ i x, body i x () = if t x then (.ret true, ()) else (.next, ())) :
    ∀ (i : Nat) (xs : List α), rangeLoopFrom body i xs () = if xs.any t then (.ret true, ()) else (.next, ()) := by
  intro i xs
  induction xs generalizing i with
  | nil => simp [rangeLoopFrom]
  | cons x xs ih =>
    simp only [rangeLoopFrom, hb, List.any_cons]
    by_cases h : t x = true
    · rw [if_pos h]; simp [h]
    · rw [if_neg h]; simp [h, ih]

/-- `nut11.IsSigAll` = the model's `Spend.isSigAll`: some tag is exactly `["sigflag", "SIG_ALL"]` -/
theorem nut11_IsSigAll_eq (s : WellKnownSecret) (k : Spend.Kind) :
    nut11_IsSigAll s = Spend.isSigAll { kind := k, data := s.Data.Data, tags := s.Data.Tags } := by
  unfold nut11_IsSigAll rangeLoop Spend.isSigAll
  rw [anyLoop (fun tag => match tag with
      | [a, b] => decide (a = Spend.SIGFLAG) && decide (b = Spend.SIGALL)
      | _ => false)]
  · cases h : s.Data.Tags.any _ <;> simp [h]
  · intro i tag
    match tag with
    | [] => simp
    | [a] => simp
    | [a, b] =>
      simp only [List.length_cons, List.length_nil, Go.idx, Spend.SIGFLAG, Spend.SIGALL]
      by_cases h1 : a = "sigflag" <;> by_cases h2 : b = "SIG_ALL" <;> simp [h1, h2]
    | a :: b :: c :: rest =>
      have hlen : ¬ ((Int.ofNat ((a :: b :: c :: rest).length)) == (2 : Int)) = true := by
        simp only [beq_iff_eq, List.length_cons, Int.ofNat_eq_natCast]; omega
      simp only [hlen]
      simp

theorem dupStrLoop_spec (xs : List String) : ∀ (i : Nat) (m : List (String × Bool)) (seen : List String),
    (∀ k, mapGet m k = true ↔ k ∈ seen) → seen.Nodup →
    ((¬ (seen ++ xs).Nodup → ∃ m', rangeLoopFrom (ρ := Bool) (fun _ (x : String) (st : List (String × Bool)) =>
        if mapGet st x = true then (Ctl.ret true, st) else (Ctl.next, mapSet st x true)) i xs m = (Ctl.ret true, m')) ∧
     ((seen ++ xs).Nodup → ∃ m', rangeLoopFrom (ρ := Bool) (fun _ (x : String) (st : List (String × Bool)) =>
        if mapGet st x = true then (Ctl.ret true, st) else (Ctl.next, mapSet st x true)) i xs m = (Ctl.next, m'))) := by
  induction xs with
  | nil => intro i m seen _ hn; simp [rangeLoopFrom, hn]
  | cons x xs ih =>
    intro i m seen hm hn
    simp only [rangeLoopFrom]
    by_cases hx : mapGet m x = true
    · simp only [hx, if_true]
      refine ⟨fun _ => ⟨m, rfl⟩, fun hnd => ?_⟩
      have := (hm x).mp hx
      rw [List.nodup_append] at hnd
      exact absurd rfl (hnd.2.2 _ this _ List.mem_cons_self)
    · simp only [hx]
      have hnot : x ∉ seen := fun h => hx ((hm x).mpr h)
      have := ih (i + 1) (mapSet m x true) (seen ++ [x]) (by
        intro k
        simp only [mapSet, mapGet, List.lookup_cons, List.mem_append, List.mem_singleton]
        by_cases hk : k = x
        · simp [hk]
        · have hk' : (k == x) = false := by simpa using hk
          simp only [hk', hk, or_false]
          exact hm k) (by
        rw [List.nodup_append]
        exact ⟨hn, by simp, by intro a ha b hb; simp at hb; subst hb; intro h; exact hnot (h ▸ ha)⟩)
      simpa [List.append_assoc] using this

/-- `nut11.DuplicateSignatures` answers true exactly when a signature string occurs twice in the witness -/
theorem nut11_DuplicateSignatures_iff (sigs : List String) :
    nut11_DuplicateSignatures sigs = true ↔ ¬ sigs.Nodup := by
  unfold nut11_DuplicateSignatures rangeLoop
  dsimp only
  have h := dupStrLoop_spec sigs 0 [] [] (by intro k; simp [mapGet]) List.nodup_nil
  simp only [List.nil_append] at h
  by_cases hn : sigs.Nodup
  · obtain ⟨m', hm⟩ := h.2 hn
    simp [hm, hn]
  · obtain ⟨m', hm⟩ := h.1 hn
    simp [hm, hn]

/-! ## the state enumerations of NUT-04 / NUT-05 / NUT-07 and the NUT-10 kinds (C15, C20): `String` and
    `StringToState` are inverse on the listed states, and every other string is the Unknown state -/

theorem nut07_state_roundtrip (s : Int) (h : s = 0 ∨ s = 1 ∨ s = 2) :
    nut07_StringToState (nut07_State_String s) = s := by rcases h with rfl | rfl | rfl <;> decide

theorem nut07_string_roundtrip (str : String) :
    (str ∈ ["UNSPENT", "PENDING", "SPENT"] → nut07_State_String (nut07_StringToState str) = str) ∧
    (str ∉ ["UNSPENT", "PENDING", "SPENT"] → nut07_StringToState str = 3) := by
  unfold nut07_StringToState
  constructor
  · intro h
    simp only [List.mem_cons, List.not_mem_nil, or_false] at h
    rcases h with rfl | rfl | rfl <;> decide
  · intro h
    simp only [List.mem_cons, List.not_mem_nil, or_false, not_or] at h
    simp [h.1, h.2.1, h.2.2]

theorem nut04_state_roundtrip (s : Int) (h : s = 0 ∨ s = 1 ∨ s = 2 ∨ s = 3) :
    nut04_StringToState (nut04_State_String s) = s := by rcases h with rfl | rfl | rfl | rfl <;> decide

theorem nut04_string_roundtrip (str : String) :
    (str ∈ ["UNPAID", "PAID", "ISSUED", "PENDING"] → nut04_State_String (nut04_StringToState str) = str) ∧
    (str ∉ ["UNPAID", "PAID", "ISSUED", "PENDING"] → nut04_StringToState str = 4) := by
  unfold nut04_StringToState
  constructor
  · intro h
    simp only [List.mem_cons, List.not_mem_nil, or_false] at h
    rcases h with rfl | rfl | rfl | rfl <;> decide
  · intro h
    simp only [List.mem_cons, List.not_mem_nil, or_false, not_or] at h
    simp [h.1, h.2.1, h.2.2.1, h.2.2.2]

theorem nut05_state_roundtrip (s : Int) (h : s = 0 ∨ s = 1 ∨ s = 2) :
    nut05_StringToState (nut05_State_String s) = s := by rcases h with rfl | rfl | rfl <;> decide

theorem nut05_string_roundtrip (str : String) :
    (str ∈ ["UNPAID", "PENDING", "PAID"] → nut05_State_String (nut05_StringToState str) = str) ∧
    (str ∉ ["UNPAID", "PENDING", "PAID"] → nut05_StringToState str = 3) := by
  unfold nut05_StringToState
  constructor
  · intro h
    simp only [List.mem_cons, List.not_mem_nil, or_false] at h
    rcases h with rfl | rfl | rfl <;> decide
  · intro h
    simp only [List.mem_cons, List.not_mem_nil, or_false, not_or] at h
    simp [h.1, h.2.1, h.2.2]

/-- the spellings the extracted switch tables list (Gen/Facts) are the ones the translated functions answer -/
theorem nut10_kind_strings : nut10_SecretKind_String 1 = "P2PK" ∧ nut10_SecretKind_String 2 = "HTLC" ∧
    ∀ k : Int, k ≠ 1 → k ≠ 2 → nut10_SecretKind_String k = "anyonecanspend" := by
  refine ⟨by decide, by decide, ?_⟩
  intro k h1 h2
  unfold nut10_SecretKind_String
  simp [h1, h2]

/-! ## non-vacuity: the regenerated definitions compute (closed instances, evaluated by the kernel) -/
example : AmountSplit 64 13 = some [1, 4, 8] := by decide
example : OverflowAddUint64 18446744073709551615 1 = (18446744073709551615, true) := by decide
example : CheckDuplicateBlindedMessages
    [{ Amount := 1, B_ := "02aa", Id := "00", Witness := "" }, { Amount := 2, B_ := "02aa", Id := "00", Witness := "w" }] = true := by decide
example : inputsWithoutDLEQ [{ Amount := 4, Id := "00ab", Secret := "s", C := "02cc", Witness := "", DLEQ := some { E := "e", S := "s", R := "r" } }] =
    [{ Amount := 4, Id := "00ab", Secret := "s", C := "02cc", Witness := "", DLEQ := none }] := by decide
example : nut11_IsSigAll { Kind := 1, Data := { Nonce := "n", Data := "02aa", Tags := [["locktime", "5"], ["sigflag", "SIG_ALL"]] } } = true := by decide
example : nut11_DuplicateSignatures ["aa", "bb", "aa"] = true := by decide
example : Gen.Code.feesForCount 3 { Id := "", MintURL := "", Unit := "sat", Active := true, Counter := 0, InputFeePpk := 100 } = 1 := by decide

end Gonuts.Tie.Code
